/-
Towards `aggregate_disagg` (C18): the anchor and the windows of C08's `_aggregate_period` model on
month-aligned periods, and the disaggregation sums in C08/C09's `getV`/`at` vocabulary.
-/
import Bermuda.Lemmas.UnitsTiling
import Bermuda.Lemmas.Aggregate
namespace Bermuda.Units
open Bermuda Bermuda.Spec.C18 Std Generated.Summarize

/-- stepping back from a month end stays on month ends -/
theorem walkDown_monthEnd {q : Int} {bound : Date} :
    ∀ (n : Nat) (cur a : Date), cur.valid = true → cur.isMonthEnd = true →
      walkDown q .month bound n cur = some a →
      ∃ m : Nat, a = monthEndOf (monthToId cur - (m : Int) * q) ∧ ¬ (bound ≤ a) := by
  intro n
  induction n with
  | zero => intro cur a _ _ h; simp [walkDown] at h
  | succ n ih =>
    intro cur a hv he h
    simp only [walkDown] at h
    split at h
    · have hstep : resolutionDelta cur q .month true = monthEndOf (monthToId cur + (-q)) := by
        simp only [resolutionDelta]
        have := addMonths_monthEnd_all cur (-q) he
        simpa using this
      rw [hstep] at h
      obtain ⟨m, hm, hb⟩ := ih _ a (monthEndOf_valid _) (monthEndOf_isMonthEnd _) h
      refine ⟨m + 1, ?_, hb⟩
      rw [hm, monthToId_monthEndOf]
      congr 1; push_cast; ring
    · rename_i hn
      cases h
      exact ⟨0, by simpa using (monthEndOf_monthToId hv he).symm, hn⟩

/-- the anchor of `_aggregate_period` from a month-end origin is a month end on the origin's grid,
strictly before the bound -/
theorem anchorBefore_monthEnd {q : Int} {origin bound init : Date} (hv : origin.valid = true)
    (he : origin.isMonthEnd = true) (h : anchorBefore q .month origin bound = some init) :
    ∃ z : Int, init = monthEndOf (monthToId origin + z * q) ∧ init < bound := by
  unfold anchorBefore at h
  split at h
  · cases h
  · rename_i a hup
    obtain ⟨k, hk, _, _⟩ := walkUp_spec hup
    have ha : a = monthEndOf (monthToId origin + (k : Int) * q) := by
      rw [hk, iterD_month_monthEnd q k origin hv he]
    obtain ⟨m, hm, hb⟩ := walkDown_monthEnd _ a init (by rw [ha]; exact monthEndOf_valid _)
      (by rw [ha]; exact monthEndOf_isMonthEnd _) h
    refine ⟨(k : Int) - (m : Int), ?_, ?_⟩
    · rw [hm, ha, monthToId_monthEndOf]; congr 1; ring
    · rw [date_le_iff_not_lt, not_not] at hb; exact hb



theorem not_monthEndOf_lt_firstOf {N P : Int} (h : P ≤ N) : ¬ monthEndOf N < firstOf P := by
  intro hlt
  rcases Int.lt_or_eq_of_le h with h1 | h1
  · exact firstOf_le_monthEndOf N (Date.lt_trans_agg hlt (firstOf_lt h1))
  · subst h1; exact firstOf_le_monthEndOf P hlt

/-- on the month grid of a month-end anchor, the first window whose end is not before the first
of month `P` is the window that contains month `P` -/
theorem firstWindow_month {L : Int} (hL : 1 ≤ L) {I P : Int} {a k : Nat}
    (h1 : I + (a : Int) * L + 1 ≤ P) (h2 : P ≤ I + ((a : Int) + 1) * L)
    (hk : FirstWindow L .month (monthEndOf I) k (firstOf P)) : k = a := by
  have hv := monthEndOf_valid I
  have he := monthEndOf_isMonthEnd I
  refine FirstWindow.unique hk ⟨?_, ?_⟩
  · intro j hj
    rw [(window_month_shape_agg (q := L) hv he j).1, monthToId_monthEndOf]
    apply monthEndOf_lt_firstOf
    have : ((j : Int) + 1) * L ≤ (a : Int) * L :=
      Int.mul_le_mul_of_nonneg_right (by exact_mod_cast hj) (by omega)
    omega
  · rw [(window_month_shape_agg (q := L) hv he a).1, monthToId_monthEndOf]
    exact not_monthEndOf_lt_firstOf h2

/-- that window is `[first of month I + a·L + 1, last of month I + (a+1)·L]` -/
theorem windowAt_month (L I : Int) (a : Nat) :
    windowAt L .month (monthEndOf I) a = (firstOf (I + (a : Int) * L + 1), monthEndOf (I + ((a : Int) + 1) * L)) := by
  have hv := monthEndOf_valid I
  have he := monthEndOf_isMonthEnd I
  have := window_month_shape_agg (q := L) hv he a
  rw [monthToId_monthEndOf] at this
  rw [Prod.ext_iff]
  exact ⟨by rw [this.2, monthEndOf_succ], this.1⟩



/-- the stages of `_aggregate_period`, with the anchor exposed (C08's `aggregatePeriod_decompose` hides it) -/
theorem aggregatePeriod_anchor {tr : Transc} {t out : List Cell} {q : Int} {s : String}
    {origin : Date} {prem : Bool}
    (h : aggregatePeriod tr t (some (q, s)) origin prem = .ok out) :
    ∃ q' u c0 tl init rel newCells, standardizeResolution q s = .ok (q', u) ∧
      (t.mergeSort fun a b => coordCmp a b != .gt) = c0 :: tl ∧
      anchorBefore q' u origin c0.ps = some init ∧
      assignWindows q' u init (c0 :: tl) = .ok rel ∧
      smMapE (aggCell tr prem) (groupsOf key3 rel) = .ok newCells ∧ out.Perm newCells := by
  unfold aggregatePeriod at h
  simp only at h
  split at h
  · cases h
  · rename_i q' u hst
    split at h
    · cases h
    · rename_i c0 tl hsorted
      split at h
      · cases h
      · rename_i init hinit
        split at h
        · cases h
        · rename_i rel hrel
          split at h
          · cases h
          · rename_i newCells hnew
            rw [groupBy_eq_groupsOf] at hnew
            exact ⟨q', u, c0, tl, init, rel, newCells, hst, hsorted, hinit, by rw [← hsorted]; exact hrel, hnew,
              ofCells_ok_perm h⟩



theorem ratsum_zip {α β} (φ : α → Rat) (ψ : β → Rat) :
    ∀ (l : List α) (r : List β), l.length = r.length → (∀ p ∈ l.zip r, φ p.1 = ψ p.2) →
      (l.map φ).sum = (r.map ψ).sum
  | [], [], _, _ => rfl
  | a :: l, b :: r, hlen, h => by
    simp only [List.map_cons, List.sum_cons]
    rw [h (a, b) (by simp), ratsum_zip φ ψ l r (by simpa using hlen) fun p hp => h p (by simp [hp])]
  | [], _ :: _, hlen, _ => by simp at hlen
  | _ :: _, [], hlen, _ => by simp at hlen

theorem exists_zip_of_mem_right {α β} {l : List α} {r : List β} (hlen : l.length = r.length) {b : β}
    (hb : b ∈ r) : ∃ a, (a, b) ∈ l.zip r := by
  obtain ⟨i, hi, rfl⟩ := List.getElem_of_mem hb
  exact ⟨l[i]'(by omega), List.mem_iff_getElem.mpr ⟨i, by simp [hi]; omega, by simp⟩⟩

theorem zip_unique_right {α β} {l : List α} {r : List β} (hn : l.Nodup) {a : α} {b b' : β}
    (h : (a, b) ∈ l.zip r) (h' : (a, b') ∈ l.zip r) : b = b' := by
  induction l generalizing r with
  | nil => simp at h
  | cons x l ih =>
    cases r with
    | nil => simp at h
    | cons y r =>
      rw [List.nodup_cons] at hn
      simp only [List.zip_cons_cons, List.mem_cons, Prod.mk.injEq] at h h'
      rcases h with ⟨rfl, rfl⟩ | h
      · rcases h' with ⟨_, rfl⟩ | h'
        · rfl
        · exact absurd (List.of_mem_zip h').1 hn.1
      · rcases h' with ⟨rfl, _⟩ | h'
        · exact absurd (List.of_mem_zip h).1 hn.1
        · exact ih hn.2 h h'

theorem monthEndOf_inj {A B : Int} (h : monthEndOf A = monthEndOf B) : A = B := by
  have := congrArg monthToId h
  rwa [monthToId_monthEndOf, monthToId_monthEndOf] at this

theorem lt_of_monthEndOf_lt_firstOf {I P : Int} (h : monthEndOf I < firstOf P) : I < P := by
  by_contra hc
  exact not_monthEndOf_lt_firstOf (by omega) h

theorem sliceWF_pe {res : Nat} {sl : List Cell} {L : Int} (w : SliceWF res sl L) {c : Cell} (hc : c ∈ sl) :
    c.pe = monthEndOf (monthToId c.ps + L - 1) ∧ firstOf (monthToId c.ps) = c.ps := by
  obtain ⟨hv, hd, h70, hpe, _⟩ := w.cell c hc
  refine ⟨?_, firstOf_monthToId hv hd⟩
  have hL : ((L.toNat : Nat) : Int) = L := Int.toNat_of_nonneg (by have := w.hL; omega)
  rw [hpe]
  have c1 : (((L.toNat : Nat) : Rat)) = ((L : Int) : Rat) := by rw [← hL]; push_cast; rw [hL]
  rw [c1, addMonths_firstOf c.ps _ hd (by have := w.hL; omega)]
  have h := firstOf_pred (monthToId c.ps + L - 1)
  rw [show monthToId c.ps + L - 1 + 1 = monthToId c.ps + L by omega] at h
  exact h



/-- a sub-period cell of `c` is re-labelled by `_aggregate_period` to exactly the period of `c` -/
theorem relabel_to_parent {res : Nat} {sl : List Cell} {L : Int} (w : SliceWF res sl L)
    {F : List String} {origin init c0 : Date} {z0 : Int} {sorted rel : List Cell}
    (hinit : init = monthEndOf (monthToId origin + z0 * L)) (hlt : init < c0)
    (hgrid : ∀ c ∈ sl, ∃ z : Int, monthToId c.ps = monthToId origin + z * L + 1)
    (hsort : sorted.Pairwise (fun a b => ¬ b.ps < a.ps)) (hc0 : ∀ x ∈ sorted, ¬ x.ps < c0)
    (hrel : assignWindows L .month init sorted = .ok rel)
    {x rc : Cell} (hp : (x, rc) ∈ sorted.zip rel) {c : Cell} {part : List Cell} (hc : c ∈ sl)
    (hsub : SubCellsN res (L / (res : Int)).toNat F c part) (hx : x ∈ part) :
    rc.ps = c.ps ∧ rc.pe = c.pe ∧ rc.ev = c.ev ∧ rc.values = x.values ∧ rc.md = c.md := by
  obtain ⟨hlen, hall⟩ := assignWindows_spec hrel
  obtain ⟨k', hwin, _, _, hev, hvals, hmd, _, _⟩ := hall (x, rc) hp
  obtain ⟨k, hfirst, hpe⟩ := assignWindows_first (k0 := 0) (init0 := init) hsort (by intro _ _ j hj; omega)
    hrel (x, rc) hp
  simp only at hfirst hpe hwin hev hvals hmd
  obtain ⟨hv, hd, h70, _, _⟩ := w.cell c hc
  obtain ⟨hcpe, hcps⟩ := sliceWF_pe w hc
  obtain ⟨hn1, hLn⟩ := sliceWF_n w
  -- x is sub-period j of c
  have hxm : (x.ps, x.pe) ∈ obsSubs c res (L / (res : Int)).toNat := by
    rw [← hsub.1]; exact List.mem_map.mpr ⟨x, hx, rfl⟩
  unfold obsSubs at hxm
  rw [subperiods_firstOf hd h70] at hxm
  obtain ⟨j, hj, hje⟩ := List.mem_map.mp (List.mem_filter.mp hxm).1
  have hjn : j < (L / (res : Int)).toNat := by simpa using hj
  have hxps : x.ps = firstOf (monthToId c.ps + ((j * res : Nat) : Int)) := by
    have := congrArg Prod.fst hje; simpa [subOf] using this.symm
  -- month arithmetic
  obtain ⟨z, hz⟩ := hgrid c hc
  have hLpos := w.hL
  have hjr : ((j * res : Nat) : Int) + (res : Int) ≤ L := by
    have h1 : (j + 1) * res ≤ (L / (res : Int)).toNat * res := Nat.mul_le_mul_right _ (by omega)
    have : (((j + 1) * res : Nat) : Int) ≤ L := by rw [hLn]; exact_mod_cast h1
    push_cast at this ⊢; linarith
  have hres1 : (1 : Int) ≤ res := by exact_mod_cast w.hres
  have hI : monthToId origin + z0 * L < monthToId c.ps + ((j * res : Nat) : Int) := by
    apply lt_of_monthEndOf_lt_firstOf
    rw [← hinit, ← hxps]
    exact Date.lt_of_lt_of_not_lt_agg hlt (hc0 x (List.of_mem_zip hp).1)
  have hd0 : 0 ≤ z - z0 := by
    by_contra hneg
    have h1 : z - z0 ≤ -1 := by omega
    have h2 := Int.mul_le_mul_of_nonneg_right h1 (by omega : (0 : Int) ≤ L)
    have h3 : (z - z0) * L = z * L - z0 * L := by ring
    omega
  obtain ⟨a, ha⟩ : ∃ a : Nat, (a : Int) = z - z0 := ⟨(z - z0).toNat, Int.toNat_of_nonneg hd0⟩
  have hM0 : monthToId c.ps = (monthToId origin + z0 * L) + (a : Int) * L + 1 := by
    rw [ha, hz]; ring
  rw [hinit] at hfirst hpe hwin
  rw [hxps] at hfirst
  have hk : k = a := firstWindow_month hLpos (by omega) (by
    have : ((a : Int) + 1) * L = (a : Int) * L + L := by ring
    omega) hfirst
  subst hk
  rw [windowAt_month] at hpe hwin
  simp only at hpe
  have hk' : k' = k := by
    have h1 : rc.pe = monthEndOf (monthToId origin + z0 * L + ((k' : Int) + 1) * L) := by
      have := congrArg Prod.snd hwin; simpa using this
    rw [hpe] at h1
    have h2 := monthEndOf_inj h1
    have h3 : ((k : Int) + 1) * L = ((k' : Int) + 1) * L := by omega
    have h4 := Int.eq_of_mul_eq_mul_right (by omega : L ≠ 0) h3
    omega
  subst hk'
  have hps : rc.ps = firstOf (monthToId origin + z0 * L + (k' : Int) * L + 1) := by
    have := congrArg Prod.fst hwin; simpa using this
  refine ⟨?_, ?_, ?_, hvals, ?_⟩
  · rw [hps, ← hM0, hcps]
  · rw [hpe, hcpe]; congr 1
    have : ((k' : Int) + 1) * L = (k' : Int) * L + L := by ring
    omega
  · rw [hev, (hsub.2.1 x hx).2.1]
  · rw [hmd, (hsub.2.1 x hx).1]



/-- two cells of a well-formed slice with the same coordinates are the same cell -/
theorem sliceWF_key_inj {res : Nat} {sl : List Cell} {L : Int} (w : SliceWF res sl L) {c c' : Cell}
    (hc : c ∈ sl) (hc' : c' ∈ sl) (hps : c.ps = c'.ps) (hpe : c.pe = c'.pe) (hev : c.ev = c'.ev) :
    c = c' := by
  by_contra hne
  obtain ⟨hcpe, hcps⟩ := sliceWF_pe w hc
  have h0 : ¬ monthEndOf (monthToId c.ps + L - 1) < firstOf (monthToId c.ps) :=
    not_monthEndOf_lt_firstOf (by have := w.hL; omega)
  have hle : ¬ c.pe < c.ps := by rwa [← hcpe, hcps] at h0
  rcases w.disj c hc c' hc' hne hev with h | h
  · rw [← hps] at h; exact hle h
  · rw [← hpe] at h; exact hle h

/-- common setup of the slice-level theorems: the groups, the sorted cells, their re-labelled
images and the piles, with "every sub-period cell is re-labelled to its parent's coordinates" -/
theorem slice_roundtrip_setup {tr : Transc} {sl mid back : List Cell} {res : Nat}
    {F : List String} {L q : Int} {s : String} {origin : Date} {prem : Bool}
    (w : SliceWF res sl L) {parts : List (List Cell)}
    (hF : Forall2 (SubCellsN res (L / (res : Int)).toNat F) sl parts) (hS : mid.Perm parts.flatten)
    (hov : origin.valid = true) (hoe : origin.isMonthEnd = true)
    (hgrid : ∀ c ∈ sl, ∃ z : Int, monthToId c.ps = monthToId origin + z * L + 1)
    (hst : standardizeResolution q s = .ok (L, .month))
    (hagg : aggregatePeriod tr mid (some (q, s)) origin prem = .ok back) :
    ∃ (c0 : Cell) (tl rel newCells : List Cell),
      sl.length = parts.length ∧
      (∀ p ∈ sl.zip parts, SubCellsN res (L / (res : Int)).toNat F p.1 p.2) ∧
      (∀ x, x ∈ c0 :: tl ↔ x ∈ mid) ∧
      (mid.mergeSort fun a b => coordCmp a b != .gt) = c0 :: tl ∧
      rel.length = (c0 :: tl).length ∧
      smMapE (aggCell tr prem) (groupsOf key3 rel) = .ok newCells ∧ back.Perm newCells ∧
      (∀ x ∈ mid, ∃ c part, (c, part) ∈ sl.zip parts ∧ x ∈ part) ∧
      (∀ x rc, (x, rc) ∈ (c0 :: tl).zip rel → ∀ c part, (c, part) ∈ sl.zip parts → x ∈ part →
        rc.ps = c.ps ∧ rc.pe = c.pe ∧ rc.ev = c.ev ∧ rc.values = x.values ∧ rc.md = c.md) := by
  obtain ⟨hlenP, hzipP⟩ := hF.zip
  obtain ⟨q', u, c0, tl, init, rel, newCells, hst', hsorted, hanchor, hrel, hnew, hperm⟩ :=
    aggregatePeriod_anchor hagg
  rw [hst] at hst'
  simp only [Except.ok.injEq, Prod.mk.injEq] at hst'
  obtain ⟨rfl, rfl⟩ := hst'
  obtain ⟨z0, hinit, hlt⟩ := anchorBefore_monthEnd hov hoe hanchor
  have hsortp : (c0 :: tl).Pairwise (fun a b => ¬ b.ps < a.ps) := by
    rw [← hsorted]; exact sorted_by_ps mid
  have hc0 : ∀ x ∈ c0 :: tl, ¬ x.ps < c0.ps := by
    intro x hx
    rcases List.mem_cons.mp hx with rfl | hx
    · exact date_lt_irrefl _
    · exact (List.pairwise_cons.mp hsortp).1 x hx
  have hsmem : ∀ x, x ∈ c0 :: tl ↔ x ∈ mid := by
    intro x; rw [← hsorted]; exact (List.mergeSort_perm _ _).mem_iff
  have hrlen := (assignWindows_spec hrel).1
  -- every cell of `mid` has a parent
  have hparent : ∀ x ∈ mid, ∃ c part, (c, part) ∈ sl.zip parts ∧ x ∈ part := by
    intro x hx
    have hx := hS.mem_iff.mp hx
    obtain ⟨part, hp, hxp⟩ := List.mem_flatten.mp hx
    obtain ⟨c, hcp⟩ := exists_zip_of_mem_right hlenP hp
    exact ⟨c, part, hcp, hxp⟩
  -- relabelling, for every pair
  have hrl : ∀ x rc, (x, rc) ∈ (c0 :: tl).zip rel → ∀ c part, (c, part) ∈ sl.zip parts → x ∈ part →
      rc.ps = c.ps ∧ rc.pe = c.pe ∧ rc.ev = c.ev ∧ rc.values = x.values ∧ rc.md = c.md :=
    fun x rc hp c part hcp hx =>
      relabel_to_parent w hinit hlt hgrid hsortp hc0 hrel hp (List.of_mem_zip hcp).1 (hzipP _ hcp) hx
  exact ⟨c0, tl, rel, newCells, hlenP, hzipP, hsmem, hsorted, hrlen, hnew, hperm, hparent, hrl⟩

/-- **slice level of `aggregate_disagg`.** Disaggregate one well-formed slice and aggregate the result
back to `L`-month periods from a month-end origin on whose `L`-grid all period starts lie: every
aggregated cell sits exactly on the coordinates of an input cell that has an observable sub-period,
is a CumulativeCell with that cell's metadata, and every selected summed field carries the input
cell's value (C09's `at` reading of a value, for an in-range index). -/
theorem aggregate_disagg_slice {tr : Transc} {sl mid back : List Cell} {res : Nat}
    {F : List String} {L q : Int} {s : String} {origin : Date} {prem : Bool}
    (w : SliceWF res sl L) {parts : List (List Cell)}
    (hF : Forall2 (SubCellsN res (L / (res : Int)).toNat F) sl parts) (hS : mid.Perm parts.flatten)
    (hov : origin.valid = true) (hoe : origin.isMonthEnd = true)
    (hgrid : ∀ c ∈ sl, ∃ z : Int, monthToId c.ps = monthToId origin + z * L + 1)
    (hst : standardizeResolution q s = .ok (L, .month))
    (hagg : aggregatePeriod tr mid (some (q, s)) origin prem = .ok back) :
    ∀ o ∈ back, ∃ c ∈ sl, obsSubs c res (L / (res : Int)).toNat ≠ [] ∧
      o.ps = c.ps ∧ o.pe = c.pe ∧ o.ev = c.ev ∧ o.md = c.md ∧ o.kind = .cumulative ∧
      ∀ f i, F.contains f = true → ruleOf [] (lowerKey f) = some ⟨.sum, [f]⟩ →
        (prem = true ∨ f ∉ nonLossMetrics) → (∀ x ∈ mid, (x.getV f).inRange i = true) →
        (o.getV f).at i = (c.getV f).at i := by
  obtain ⟨c0, tl, rel, newCells, hlenP, hzipP, hsmem, hsorted, hrlen, hnew, hperm, hparent, hrl⟩ :=
    slice_roundtrip_setup w hF hS hov hoe hgrid hst hagg
  intro o ho
  obtain ⟨g, hg, hgo⟩ := smMapE_mem hnew (hperm.mem_iff.mp ho)
  obtain ⟨hkey, hg2⟩ := aggCell_key hg hgo
  obtain ⟨r0, rest, vals, hgc, hvals, ho'⟩ := aggCell_ok hgo
  have hr0 : r0 ∈ rel := by
    have : r0 ∈ g.2 := by rw [hgc]; simp
    rw [hg2] at this; exact (List.mem_filter.mp this).1
  obtain ⟨x0, hx0⟩ := exists_zip_of_mem_right hrlen.symm hr0
  obtain ⟨c, part, hcp, hx0p⟩ := hparent x0 ((hsmem x0).mp (List.of_mem_zip hx0).1)
  have hcm : c ∈ sl := (List.of_mem_zip hcp).1
  have hsub := hzipP _ hcp
  obtain ⟨e1, e2, e3, _, e5⟩ := hrl x0 r0 hx0 c part hcp hx0p
  have hpne : part ≠ [] := List.ne_nil_of_mem hx0p
  refine ⟨c, hcm, ?_, by rw [ho', e1], by rw [ho', e2], by rw [ho', e3], by rw [ho', e5], by rw [ho'], ?_⟩
  · intro he
    have := hsub.1
    rw [he] at this
    exact hpne (List.map_eq_nil_iff.mp this)
  · intro f i hf hr hc hin
    have hinr : ∀ rc ∈ g.2, (rc.getV f).inRange i = true := by
      intro rc hrc
      rw [hg2] at hrc
      obtain ⟨x, hxr⟩ := exists_zip_of_mem_right hrlen.symm (List.mem_filter.mp hrc).1
      obtain ⟨c', part', hcp', hxp'⟩ := hparent x ((hsmem x).mp (List.of_mem_zip hxr).1)
      have := (hrl x rc hxr c' part' hcp' hxp').2.2.2.1
      unfold Cell.getV; rw [this]
      exact hin x ((hsmem x).mp (List.of_mem_zip hxr).1)
    have hsum := (summarizeCellValues_sum_at' (i := i) hvals hc hr hinr).1
    have hget : o.getV f = (Dict.get? vals f).getD .none := by rw [ho']; rfl
    rw [hget, hsum, hg2]
    -- key of o is the key of c
    have hko : key3 o = (c.ps, c.pe, c.ev) := by simp [key3, ho', e1, e2, e3]
    rw [sum_filter_indicator, hko]
    -- transfer to the sorted cells of `mid`
    rw [← ratsum_zip (fun x : Cell => if decide (x ∈ part) = true then (x.getV f).at i else 0)
      (fun rc : Cell => if key3 rc == (c.ps, c.pe, c.ev) then (rc.getV f).at i else 0) (c0 :: tl) rel hrlen.symm]
    · rw [← hsorted, sum_map_perm (List.mergeSort_perm mid _), sum_map_perm hS,
        ← sum_filter_indicator (p := fun x : Cell => decide (x ∈ part))]
      have hiso := flatten_filter_isolate (key := fun c : Cell => c) (fun x : Cell => decide (x ∈ part)) sl parts hlenP
        (by simpa using w.nodup) (c, part) hcp (by
          intro q hq hkne
          obtain ⟨c', part'⟩ := q
          simp only at hkne ⊢
          rw [List.filter_eq_nil_iff]
          intro y hy hyp
          have hyp' : y ∈ part := by simpa using hyp
          have hc'm : c' ∈ sl := (List.of_mem_zip hq).1
          have hs' := hzipP _ hq
          have hm1 : (y.ps, y.pe) ∈ expectedSubs res c := by
            rw [sliceWF_expected w hcm, ← hsub.1]; exact List.mem_map.mpr ⟨y, hyp', rfl⟩
          have hm2 : (y.ps, y.pe) ∈ expectedSubs res c' := by
            rw [sliceWF_expected w hc'm, ← hs'.1]; exact List.mem_map.mpr ⟨y, hy, rfl⟩
          have hev : c.ev = c'.ev := by rw [← (hsub.2.1 y hyp').2.1, (hs'.2.1 y hy).2.1]
          exact expectedSubs_disjoint w hcm hc'm (fun e => hkne e.symm) hev hm1 hm2)
      rw [hiso]
      have : part.filter (fun x => decide (x ∈ part)) = part := by
        rw [List.filter_eq_self]; intro y hy; simpa using hy
      rw [this]
      exact hsub.2.2.2.1 hpne f hf i
    · intro p hp
      obtain ⟨x, rc⟩ := p
      simp only
      obtain ⟨c', part', hcp', hxp'⟩ := hparent x ((hsmem x).mp (List.of_mem_zip hp).1)
      obtain ⟨a1, a2, a3, a4, _⟩ := hrl x rc hp c' part' hcp' hxp'
      have hgv : rc.getV f = x.getV f := by unfold Cell.getV; rw [a4]
      by_cases hxin : x ∈ part
      · obtain ⟨b1, b2, b3, _, _⟩ := hrl x rc hp c part hcp hxin
        simp [hxin, key3, b1, b2, b3, hgv]
      · have hkne : ¬ (key3 rc == (c.ps, c.pe, c.ev)) = true := by
          intro hkeq
          have hk3 : (rc.ps, rc.pe, rc.ev) = (c.ps, c.pe, c.ev) := by simpa [key3] using hkeq
          simp only [Prod.mk.injEq] at hk3
          have hcc : c' = c := sliceWF_key_inj w (List.of_mem_zip hcp').1 hcm
            (by rw [← a1, hk3.1]) (by rw [← a2, hk3.2.1]) (by rw [← a3, hk3.2.2])
          subst hcc
          have := zip_unique_right w.nodup hcp' hcp
          subst this
          exact hxin hxp'
        simp [hxin, hkne]



/-- … and conversely: the aggregated cells sit on exactly the coordinates of the input cells that
have an observable sub-period, each once -/
theorem aggregate_disagg_slice_keys {tr : Transc} {sl mid back : List Cell} {res : Nat}
    {F : List String} {L q : Int} {s : String} {origin : Date} {prem : Bool}
    (w : SliceWF res sl L) {parts : List (List Cell)}
    (hF : Forall2 (SubCellsN res (L / (res : Int)).toNat F) sl parts) (hS : mid.Perm parts.flatten)
    (hov : origin.valid = true) (hoe : origin.isMonthEnd = true)
    (hgrid : ∀ c ∈ sl, ∃ z : Int, monthToId c.ps = monthToId origin + z * L + 1)
    (hst : standardizeResolution q s = .ok (L, .month))
    (hagg : aggregatePeriod tr mid (some (q, s)) origin prem = .ok back) :
    (back.map key3).Perm
      ((sl.filter fun c => decide (obsSubs c res (L / (res : Int)).toNat ≠ [])).map key3) := by
  obtain ⟨c0, tl, rel, newCells, hlenP, hzipP, hsmem, hsorted, hrlen, hnew, hperm, hparent, hrl⟩ :=
    slice_roundtrip_setup w hF hS hov hoe hgrid hst hagg
  have hk1 : newCells.map key3 = smDedup (rel.map key3) := by
    have := smMapE_map key3 (fun g : (Date × Date × Date) × List Cell => g.1) hnew
      (fun g hg o ho => (aggCell_key hg ho).1)
    rw [this]; simp [groupsOf, List.map_map, Function.comp_def]
  refine (hperm.map key3).trans ?_
  rw [hk1, List.perm_ext_iff_of_nodup (nodup_smDedup _)]
  · intro K
    rw [mem_smDedup]
    constructor
    · intro hK
      obtain ⟨rc, hrc, rfl⟩ := List.mem_map.mp hK
      obtain ⟨x, hx⟩ := exists_zip_of_mem_right hrlen.symm hrc
      obtain ⟨c, part, hcp, hxp⟩ := hparent x ((hsmem x).mp (List.of_mem_zip hx).1)
      obtain ⟨e1, e2, e3, _, _⟩ := hrl x rc hx c part hcp hxp
      refine List.mem_map.mpr ⟨c, List.mem_filter.mpr ⟨(List.of_mem_zip hcp).1, ?_⟩, by simp [key3, e1, e2, e3]⟩
      simp only [decide_eq_true_eq]
      intro he
      have := (hzipP _ hcp).1
      rw [he] at this
      exact List.ne_nil_of_mem hxp (List.map_eq_nil_iff.mp this)
    · intro hK
      obtain ⟨c, hcf, rfl⟩ := List.mem_map.mp hK
      obtain ⟨hcm, hobs⟩ := List.mem_filter.mp hcf
      simp only [decide_eq_true_eq] at hobs
      obtain ⟨part, hcp⟩ := exists_zip_of_mem_left hlenP hcm
      have hpne : part ≠ [] := by
        intro he
        have := (hzipP _ hcp).1
        rw [he] at this
        exact hobs this.symm
      obtain ⟨x, hxp⟩ := List.exists_mem_of_ne_nil part hpne
      have hxm : x ∈ mid := by
        exact hS.mem_iff.mpr (List.mem_flatten.mpr ⟨part, (List.of_mem_zip hcp).2, hxp⟩)
      obtain ⟨rc, hxr⟩ := exists_zip_of_mem_left hrlen.symm ((hsmem x).mpr hxm)
      obtain ⟨e1, e2, e3, _, _⟩ := hrl x rc hxr c part hcp hxp
      exact List.mem_map.mpr ⟨rc, (List.of_mem_zip hxr).2, by simp [key3, e1, e2, e3]⟩
  · apply List.Nodup.map_on
    · intro a ha b hb hab
      have ha' := (List.mem_filter.mp ha).1
      have hb' := (List.mem_filter.mp hb).1
      simp only [key3, Prod.mk.injEq] at hab
      exact sliceWF_key_inj w ha' hb' hab.1 hab.2.1 hab.2.2
    · exact w.nodup.filter _



theorem smFoldE_add_perm : ∀ (rest : List (List Cell)) (acc r : List Cell),
    smFoldE (fun acc s => Triangle.ofCells (acc ++ s)) acc rest = .ok r → r.Perm (acc ++ rest.flatten) := by
  intro rest
  induction rest with
  | nil => intro acc r h; simp [smFoldE] at h; subst h; simp
  | cons b bs ih =>
    intro acc r h
    simp only [smFoldE] at h
    split at h
    · cases h
    · rename_i a ha
      have h1 := ih _ _ h
      have h2 : a.Perm (acc ++ b) := ofCells_perm' ha
      rw [List.flatten_cons, ← List.append_assoc]
      exact h1.trans (h2.append_right _)

theorem aggSumTriangles_perm {l : List (List Cell)} {r : List Cell} (h : sumTriangles l = .ok r) :
    r.Perm l.flatten := by
  cases l with
  | nil => simp [sumTriangles] at h; subst h; simp
  | cons a rest => simpa [sumTriangles] using smFoldE_add_perm rest a r h

/-- the slice of the disaggregated triangle with metadata `sl.1` is the concatenation of the groups
of the cells of the input slice `sl` -/
theorem out_filter_slice {t out : List Cell} {res : Nat} {F : List String}
    {pss : List (List (List Cell))} (hperm : out.Perm pss.flatten.flatten)
    (hall : Forall2 (fun sl ps => ∃ sres, periodResolution sl.2 = .ok sres ∧
      Forall2 (SubCellsN res (sres / (res : Int)).toNat F) sl.2 ps) (Triangle.slices t) pss)
    {sl : Metadata × List Cell} {ps : List (List Cell)} (hsl : (sl, ps) ∈ (Triangle.slices t).zip pss) :
    (out.filter fun o => o.md == sl.1).Perm ps.flatten := by
  obtain ⟨hlen, hzip⟩ := hall.zip
  refine (hperm.filter _).trans (List.Perm.of_eq ?_)
  have hflat : pss.flatten.flatten = (pss.map List.flatten).flatten := by rw [List.flatten_flatten]
  rw [hflat]
  have hmd : ∀ (sl' : Metadata × List Cell) (ps' : List (List Cell)), (sl', ps') ∈ (Triangle.slices t).zip pss →
      ∀ o ∈ ps'.flatten, o.md = sl'.1 := by
    intro sl' ps' hq o ho
    obtain ⟨part', hp', hop⟩ := List.mem_flatten.mp ho
    obtain ⟨_, _, hin'⟩ := hzip (sl', ps') hq
    obtain ⟨c', hc', hs'⟩ := hin'.mem_right hp'
    rw [(hs'.2.1 o hop).1]; exact (mem_slices_md (List.of_mem_zip hq).1 hc').1
  have houter := flatten_filter_isolate (key := fun sl : Metadata × List Cell => sl.1)
    (fun o : Cell => o.md == sl.1) (Triangle.slices t) (pss.map List.flatten) (by simpa using hlen)
    (by rw [slices_keys]; exact metasOf_nodup t) (sl, ps.flatten)
    (by rw [List.zip_map_right]; exact List.mem_map.mpr ⟨(sl, ps), hsl, rfl⟩)
    (by
      intro q hq hk
      rw [List.zip_map_right] at hq
      obtain ⟨⟨sl', ps'⟩, hq', rfl⟩ := List.mem_map.mp hq
      simp only [Prod.map_apply, id_eq] at hk ⊢
      rw [List.filter_eq_nil_iff]
      intro o ho hoe
      have := hmd sl' ps' hq' o ho
      exact hk (by rw [← this]; simpa using hoe))
  rw [houter, List.filter_eq_self]
  intro o ho
  simpa using hmd sl ps hsl o ho



theorem mem_flat2 {α} {pss : List (List (List α))} {o : α} :
    o ∈ pss.flatten.flatten ↔ ∃ ps ∈ pss, ∃ part ∈ ps, o ∈ part := by
  constructor
  · intro h
    obtain ⟨part, hpf, ho⟩ := List.mem_flatten.mp h
    obtain ⟨ps, hps, hp⟩ := List.mem_flatten.mp hpf
    exact ⟨ps, hps, part, hp, ho⟩
  · rintro ⟨ps, hps, part, hp, ho⟩
    exact List.mem_flatten.mpr ⟨part, List.mem_flatten.mpr ⟨ps, hps, hp⟩, ho⟩

/-- what the aggregation of the disaggregated triangle does, slice by slice -/
theorem aggregate_disagg_core {tr : Transc} {t out back : List Cell} {res : Nat} {ws : List Rat}
    {F : List String} {L q : Int} {s : String} {origin : Date} {a : AggArgs}
    (hwf : disaggWF res t = true) (hL : ∀ sl ∈ Triangle.slices t, periodResolution sl.2 = .ok L)
    (hws : ws ≠ []) (hcore : disaggCore t res ws F = .ok out)
    (hov : origin.valid = true) (hoe : origin.isMonthEnd = true)
    (hgrid : ∀ c ∈ t, ∃ z : Int, monthToId c.ps = monthToId origin + z * L + 1)
    (hst : standardizeResolution q s = .ok (L, .month))
    (hp : a.periodRes = some (q, s)) (he : a.evalRes = none) (ho : a.periodOrigin = origin)
    (hagg : aggregate tr out a = .ok back) :
    (∀ o ∈ back, ∃ c ∈ t, obsSubs c res (L / (res : Int)).toNat ≠ [] ∧
      o.ps = c.ps ∧ o.pe = c.pe ∧ o.ev = c.ev ∧ o.md = c.md ∧ o.kind = .cumulative ∧
      ∀ f i, F.contains f = true → ruleOf [] (lowerKey f) = some ⟨.sum, [f]⟩ →
        (a.prem = true ∨ f ∉ nonLossMetrics) → (∀ x ∈ out, (x.getV f).inRange i = true) →
        (o.getV f).at i = (c.getV f).at i) ∧
    (∀ c ∈ t, obsSubs c res (L / (res : Int)).toNat ≠ [] →
      ∃ o ∈ back, o.md = c.md ∧ o.ps = c.ps ∧ o.pe = c.pe ∧ o.ev = c.ev) := by
  have hk : ∀ c ∈ t, KN c.values := by
    intro c hc
    obtain ⟨sl, hsl, _, hcs⟩ := slices_fst_mem hc
    obtain ⟨L', _, w⟩ := disaggWF_slice hwf hsl
    exact (w.cell c hcs).2.2.2.2
  obtain ⟨pss, hperm, hall⟩ := disaggCore_groups hk hws hcore
  obtain ⟨hlen, hzip⟩ := hall.zip
  -- per input slice: well-formedness and groups with the common L
  have hslice : ∀ sl ps, (sl, ps) ∈ (Triangle.slices t).zip pss →
      SliceWF res sl.2 L ∧ Forall2 (SubCellsN res (L / (res : Int)).toNat F) sl.2 ps := by
    intro sl ps hq
    have hslm := (List.of_mem_zip hq).1
    obtain ⟨L', hL', w⟩ := disaggWF_slice hwf hslm
    obtain ⟨sres, hsres, hin⟩ := hzip (sl, ps) hq
    have e1 : L' = L := by rw [hL sl hslm] at hL'; cases hL'; rfl
    have e2 : sres = L := by rw [hL sl hslm] at hsres; cases hsres; rfl
    subst e1; subst e2
    exact ⟨w, hin⟩
  -- the disaggregated triangle is not incremental
  have hkind : ∀ o ∈ out, o.kind = .cell := by
    intro o ho
    obtain ⟨ps, hps, part, hpart, hopart⟩ := mem_flat2.mp (hperm.mem_iff.mp ho)
    obtain ⟨sl, hq⟩ := exists_zip_of_mem_right hlen hps
    obtain ⟨c, _, hs⟩ := (hslice sl ps hq).2.mem_right hpart
    exact (hs.2.1 o hopart).2.2.1
  have hinc : smIsIncremental out = false := by
    unfold smIsIncremental
    cases hout : out with
    | nil => rfl
    | cons c rest => simp [hkind c (by rw [hout]; simp)]
  unfold aggregate at hagg
  rw [hinc] at hagg
  simp only [Bool.false_eq_true, if_false] at hagg
  unfold aggregateCum at hagg
  split at hagg
  · cases hagg
  · rename_i aggs haggs
    have hback := aggSumTriangles_perm hagg
    -- one aggregated slice
    have hone : ∀ S agg, S ∈ Triangle.slices out → aggregateSlice tr a S.2 = .ok agg →
        ∀ sl ps, (sl, ps) ∈ (Triangle.slices t).zip pss → S.1 = sl.1 →
        aggregatePeriod tr S.2 (some (q, s)) origin a.prem = .ok agg ∧ S.2.Perm ps.flatten := by
      intro S agg hS hSa sl ps hq hm
      constructor
      · unfold aggregateSlice at hSa
        rw [he] at hSa
        simp only [aggregateEval] at hSa
        rw [hp, ho] at hSa
        exact hSa
      · unfold Triangle.slices at hS
        obtain ⟨m, _, rfl⟩ := List.mem_map.mp hS
        simp only at hm ⊢
        rw [hm]
        exact (List.mergeSort_perm _ _).trans (out_filter_slice hperm hall hq)
    -- every slice of `out` comes from an input slice
    have hsrc : ∀ S ∈ Triangle.slices out, ∃ sl ps, (sl, ps) ∈ (Triangle.slices t).zip pss ∧ S.1 = sl.1 := by
      intro S hS
      unfold Triangle.slices at hS
      obtain ⟨m, hm, rfl⟩ := List.mem_map.mp hS
      obtain ⟨o, ho', hom⟩ := mem_metasOf.mp hm
      obtain ⟨ps, hps, part, hpart, hopart⟩ := mem_flat2.mp (hperm.mem_iff.mp ho')
      obtain ⟨sl, hq⟩ := exists_zip_of_mem_right hlen hps
      obtain ⟨c, hc, hs⟩ := (hslice sl ps hq).2.mem_right hpart
      refine ⟨sl, ps, hq, ?_⟩
      simp only
      rw [← hom, (hs.2.1 o hopart).1]
      exact (mem_slices_md (List.of_mem_zip hq).1 hc).1
    constructor
    · intro o hob
      have := hback.mem_iff.mp hob
      obtain ⟨agg, hagm, hoa⟩ := List.mem_flatten.mp this
      obtain ⟨S, hS, hSa⟩ := smMapE_mem haggs hagm
      obtain ⟨sl, ps, hq, hm⟩ := hsrc S hS
      obtain ⟨hper, hSp⟩ := hone S agg hS hSa sl ps hq hm
      obtain ⟨w, hF⟩ := hslice sl ps hq
      have hslm := (List.of_mem_zip hq).1
      obtain ⟨c, hc, h1, h2, h3, h4, h5, h6, h7⟩ := aggregate_disagg_slice w hF hSp hov hoe
        (fun c hc => hgrid c (mem_slices_md hslm hc).2) hst hper o hoa
      refine ⟨c, (mem_slices_md hslm hc).2, h1, h2, h3, h4, h5, h6, ?_⟩
      intro f i hf hr hc' hin
      exact h7 f i hf hr hc' fun x hx => hin x (mem_of_mem_slices hS hx)
    · intro c hc hobs
      obtain ⟨sl, hslm, hmd, hcs⟩ := slices_fst_mem hc
      obtain ⟨ps, hq⟩ := exists_zip_of_mem_left hlen hslm
      obtain ⟨w, hF⟩ := hslice sl ps hq
      obtain ⟨part, hcp⟩ := exists_zip_of_mem_left hF.zip.1 hcs
      have hsub := hF.zip.2 _ hcp
      have hpne : part ≠ [] := by
        intro he'
        have := hsub.1
        rw [he'] at this
        exact hobs this.symm
      obtain ⟨x, hxp⟩ := List.exists_mem_of_ne_nil part hpne
      have hxout : x ∈ out := hperm.mem_iff.mpr
        (mem_flat2.mpr ⟨ps, (List.of_mem_zip hq).2, part, (List.of_mem_zip hcp).2, hxp⟩)
      have hxmd : x.md = sl.1 := by rw [(hsub.2.1 x hxp).1]; exact (mem_slices_md hslm hcs).1
      have hS : (sl.1, ((out.filter fun o => o.md == sl.1).mergeSort Cell.le)) ∈ Triangle.slices out := by
        unfold Triangle.slices
        exact List.mem_map.mpr ⟨sl.1, mem_metasOf.mpr ⟨x, hxout, hxmd⟩, rfl⟩
      obtain ⟨agg, hagm, hSa⟩ := smMapE_mem' haggs hS
      obtain ⟨hper, hSp⟩ := hone _ agg hS hSa sl ps hq rfl
      have hkeys := aggregate_disagg_slice_keys w hF hSp hov hoe
        (fun c hc => hgrid c (mem_slices_md hslm hc).2) hst hper
      have hck : key3 c ∈ (sl.2.filter fun c => decide (obsSubs c res (L / (res : Int)).toNat ≠ [])).map key3 :=
        List.mem_map.mpr ⟨c, List.mem_filter.mpr ⟨hcs, by simpa using hobs⟩, rfl⟩
      obtain ⟨o, hoa, hok⟩ := List.mem_map.mp (hkeys.mem_iff.mpr hck)
      have hob : o ∈ back := hback.mem_iff.mpr (List.mem_flatten.mpr ⟨agg, hagm, hoa⟩)
      obtain ⟨c', hc', _, _, _, _, h5, _⟩ := aggregate_disagg_slice w hF hSp hov hoe
        (fun c hc => hgrid c (mem_slices_md hslm hc).2) hst hper o hoa
      simp only [key3, Prod.mk.injEq] at hok
      refine ⟨o, hob, ?_, hok.1, hok.2.1, hok.2.2⟩
      rw [h5, (mem_slices_md hslm hc').1, hmd]


end Bermuda.Units
