/-
The disaggregation sums in C08/C09's `getV` / `at` vocabulary (for `aggregate_disagg`).
-/
import Bermuda.Lemmas.UnitsBridge
import Bermuda.Model.Summarize
namespace Bermuda.Units
open Bermuda Bermuda.Spec.C18 Std

theorem forall2_getElem? {α β} {R : α → β → Prop} {l : List α} {r : List β} (h : Forall2 R l r)
    {k : Nat} {b : β} (hb : r[k]? = some b) : ∃ a, l[k]? = some a ∧ R a b := by
  induction h generalizing k with
  | nil => simp at hb
  | cons hab _ ih =>
    cases k with
    | zero => simp at hb; subst hb; exact ⟨_, by simp, hab⟩
    | succ k => simpa using ih (by simpa using hb)

/-- the k-th weighted part in C09's `at` vocabulary (scalars read the same at every index) -/
theorem weightValue_at {v : Val} {cw : List Rat} {parts : List Val} (h : weightValue v cw = .ok parts)
    {k : Nat} {p : Val} (hp : parts[k]? = some p) (i : Nat) :
    p.at i = v.at i * (cw[k]?).getD 0 := by
  unfold weightValue at h
  obtain ⟨w, hw, hr⟩ := forall2_getElem? (mapM_ok_forall2 h) hp
  rw [hw]
  simp only [Option.getD_some]
  split at hr <;> cases hr
  · simp [Val.at]
  · simp [Val.at]
  · simp only [Val.at, List.getD_eq_getElem?_getD, List.getElem?_map]
    rename_i d
    cases d[i]? <;> simp
  · simp only [Val.at, List.getD_eq_getElem?_getD, List.getElem?_map]
    rename_i d
    cases d[i]? <;> simp

theorem getV_of_mem_kn {c : Cell} (hk : KN c.values) {kv : String × Val} (h : kv ∈ c.values) :
    c.getV kv.1 = kv.2 := by
  unfold Cell.getV
  rw [get?_of_mem_kn hk h]; rfl

theorem getV_none_of_not_mem {vals : Dict Val} {f : String} (h : f ∉ vals.map (·.1)) :
    (Dict.get? vals f).getD .none = .none := by
  have : Dict.get? vals f = none := by
    unfold Dict.get?
    have := look_none_of_not_mem h
    unfold look at this
    exact this
  rw [this]; rfl

theorem subCell_at {c : Cell} {fields : List String} {cw : List Rat}
    {weighted : List (String × List Val)} {subs : List (Date × Date)} {k : Nat} {o : Cell}
    (hk : KN c.values)
    (hW : Forall2 (fun (kv : String × Val) (e : String × List Val) =>
      e.1 = kv.1 ∧ weightValue kv.2 cw = .ok e.2) c.values weighted)
    (h : subCell c fields weighted subs k = .ok o) (f : String) (hf : fields.contains f = true) (i : Nat) :
    (o.getV f).at i = (c.getV f).at i * (cw[k]?).getD 0 := by
  unfold subCell at h
  cases hv : subValues c fields weighted k with
  | error e => simp [hv, bind, Except.bind] at h
  | ok vals =>
    simp only [hv, bind, Except.bind] at h
    obtain ⟨rfl, _⟩ := mk?_ok h
    unfold subValues at hv
    have hV := mapM_ok_forall2 hv
    have hkf : KN (c.values.filter fun kv => fields.contains kv.1) := by
      unfold KN at *
      exact (List.filter_sublist.map _).nodup hk
    -- relation with keys exposed
    have hV' : Forall2 (fun (kv kv' : String × Val) => kv'.1 = kv.1 ∧
        ∀ i, kv'.2.at i = kv.2.at i * (cw[k]?).getD 0)
        (c.values.filter fun kv => fields.contains kv.1) vals := by
      refine hV.imp fun kv kv' hkv hr => ?_
      have hkv' : kv ∈ c.values := (List.mem_filter.mp hkv).1
      obtain ⟨e, hfind, hwv⟩ := forall2_find_key hW hk hkv'
      rw [hfind] at hr
      simp only [Option.bind_some] at hr
      cases hp : e.2[k]? with
      | none => simp [hp] at hr
      | some p =>
        simp only [hp, Except.ok.injEq] at hr
        subst hr
        exact ⟨rfl, fun i => weightValue_at hwv hp i⟩
    show ((Dict.get? vals f).getD .none).at i = (c.getV f).at i * (cw[k]?).getD 0
    by_cases hmem : ∃ kv ∈ c.values, kv.1 = f
    · obtain ⟨kv, hkv, rfl⟩ := hmem
      have hsel : kv ∈ c.values.filter fun kv => fields.contains kv.1 := List.mem_filter.mpr ⟨hkv, hf⟩
      obtain ⟨b, hfind, hb⟩ := forall2_find_key hV' hkf hsel
      have : Dict.get? vals kv.1 = some b.2 := by simp [Dict.get?, hfind]
      rw [this, getV_of_mem_kn hk hkv]
      exact hb i
    · have hnot : f ∉ c.values.map (·.1) := by
        intro hm
        obtain ⟨kv, hkv, hk1⟩ := List.mem_map.mp hm
        exact hmem ⟨kv, hkv, hk1⟩
      have hnot' : f ∉ vals.map (·.1) := by
        rw [forall2_keys hV']
        intro hm
        obtain ⟨kv, hkv, hk1⟩ := List.mem_map.mp hm
        exact hmem ⟨kv, (List.mem_filter.mp hkv).1, hk1⟩
      rw [getV_none_of_not_mem hnot']
      unfold Cell.getV
      rw [getV_none_of_not_mem hnot]
      simp [Val.at]


/-- the group of a cell adds up to the cell, field by field, in the `at` vocabulary -/
theorem disaggCell_at {c : Cell} {res n : Nat} {ws : List Rat} {fields : List String}
    {cells : List Cell} (hk : KN c.values) (hws : ws ≠ [])
    (h : disaggCell c res n ws fields = .ok cells) (hne : cells ≠ []) (f : String)
    (hf : fields.contains f = true) (i : Nat) :
    (cells.map fun o => (o.getV f).at i).sum = (c.getV f).at i := by
  have hlen := (disaggCell_spec hk hws h).1
  unfold disaggCell at h
  simp only [bind, Except.bind] at h
  split at h
  · cases h
  · rename_i hguard
    cases hw : weightedTable c (renorm (ws.take (obsSubs c res n).length)) with
    | error e => simp [hw] at h
    | ok weighted =>
      simp only [hw] at h
      have hW := weightedTable_spec hw
      have hF := mapM_ok_forall2 h
      rw [sum_forall2 hF (fun o => (o.getV f).at i)
        (fun k => (c.getV f).at i * ((renorm (ws.take (obsSubs c res n).length))[k]?).getD 0)
        (fun k o _ hko => subCell_at hk hW hko f hf i)]
      have e3 : ((List.range (obsSubs c res n).length).map
          fun k => (c.getV f).at i * ((renorm (ws.take (obsSubs c res n).length))[k]?).getD 0)
          = ((List.range (obsSubs c res n).length).map fun k =>
              ((renorm (ws.take (obsSubs c res n).length))[k]?).getD 0).map ((c.getV f).at i * ·) := by
        rw [List.map_map]; rfl
      rw [e3, sum_map_mul_left, sum_getD_range]
      · have hsub : (obsSubs c res n) ≠ [] := by
          intro he; rw [he] at hlen; exact hne (List.length_eq_zero_iff.mp hlen)
        have hcw0 : ws.take (obsSubs c res n).length ≠ [] := by
          intro he
          rw [List.take_eq_nil_iff] at he
          rcases he with he | he
          · exact hsub (List.length_eq_zero_iff.mp he)
          · exact hws he
        have hsum : (ws.take (obsSubs c res n).length).sum ≠ 0 := by
          intro hz
          apply hguard
          simp [hz, hcw0]
        rw [renorm_sum hsum, mul_one]
      · simp [renorm]

end Bermuda.Units
