/-
Bridges from the Prop-level C18 theorems to the executable predicates of `Spec/C18.lean`
(the Bool predicate is `true` on the model's own output).
-/
import Bermuda.Lemmas.UnitsDisagg
namespace Bermuda.Units
open Bermuda Bermuda.Spec.C18

theorem removeFirst_some {α} {p : α → Bool} {l : List α} (h : ∃ a ∈ l, p a = true) :
    ∃ a' l', removeFirst p l = some l' ∧ p a' = true ∧ l.Perm (a' :: l') := by
  induction l with
  | nil => obtain ⟨a, ha, _⟩ := h; cases ha
  | cons x rest ih =>
    unfold removeFirst
    by_cases hx : p x = true
    · exact ⟨x, rest, by simp [hx], hx, List.Perm.refl _⟩
    · obtain ⟨a, ha, hpa⟩ := h
      have : ∃ a ∈ rest, p a = true := by
        rcases List.mem_cons.mp ha with rfl | ha'
        · exact absurd hpa hx
        · exact ⟨a, ha', hpa⟩
      obtain ⟨a', l', hr, hp', hperm⟩ := ih this
      refine ⟨a', x :: l', by simp [hx, hr], hp', ?_⟩
      exact (List.Perm.cons x hperm).trans (List.Perm.swap a' x l')

/-- the greedy matching succeeds when every input has a partner, counts agree, and a key that the
relation transports is distinct on the inputs -/
theorem matchAll_of_keys {κ : Type} (rel : Cell → Cell → Bool) (kin kout : Cell → κ)
    (hk : ∀ c o, rel c o = true → kout o = kin c) :
    ∀ (t out : List Cell), out.length = t.length → (t.map kin).Nodup →
      (∀ c ∈ t, ∃ o ∈ out, rel c o = true) → matchAll rel t out = true := by
  intro t
  induction t with
  | nil =>
    intro out hl _ _
    have : out = [] := List.length_eq_zero_iff.mp hl
    subst this; rfl
  | cons c cs ih =>
    intro out hl hn hex
    unfold matchAll
    obtain ⟨o', out', hr, hp', hperm⟩ := removeFirst_some (hex c (by simp))
    rw [hr]
    rw [List.map_cons, List.nodup_cons] at hn
    apply ih out' ?_ hn.2
    · intro c2 hc2
      obtain ⟨o2, ho2, hr2⟩ := hex c2 (by simp [hc2])
      have := hperm.mem_iff.mp ho2
      rcases List.mem_cons.mp this with rfl | h2
      · exfalso
        apply hn.1
        rw [← hk c o2 hp', hk c2 o2 hr2]
        exact List.mem_map.mpr ⟨c2, hc2, rfl⟩
      · exact ⟨o2, h2, hr2⟩
    · have := hperm.length_eq
      simp at this hl ⊢; omega


theorem get?_of_mem_kn {d : Dict Val} (hk : KN d) {kv : String × Val} (h : kv ∈ d) :
    Dict.get? d kv.1 = some kv.2 := by
  unfold Dict.get?
  induction d with
  | nil => cases h
  | cons p rest ih =>
    unfold KN at hk
    rw [List.map_cons, List.nodup_cons] at hk
    rw [List.find?_cons]
    rcases List.mem_cons.mp h with rfl | h'
    · simp
    · have : ¬ p.1 = kv.1 := fun e => hk.1 (by rw [e]; exact List.mem_map.mpr ⟨kv, h', rfl⟩)
      have hb : (p.1 == kv.1) = false := by simpa using this
      rw [hb]; exact ih hk.2 h'

theorem find?_map_rates (rates : List (String × Num)) (cur : String) :
    ((rates.map fun p => (p.1, p.2.toRat)).find? (·.1 == cur)).map (·.2) =
      ((rates.find? (·.1 == cur)).map (·.2)).map Num.toRat := by
  induction rates with
  | nil => rfl
  | cons p rest ih =>
    rw [List.map_cons, List.find?_cons, List.find?_cons]
    cases h : p.1 == cur
    · simp only []; exact ih
    · simp

theorem sameKeys_refl (a : List String) : sameKeys a a = true := by simp [sameKeys]

theorem convRel_of_converted {target : String} {rates : List (String × Num)} {c o : Cell}
    (hk : KN c.values) (h : Converted target rates c o) :
    convRel moneyFields target (rates.map fun p => (p.1, p.2.toRat)) c o = true := by
  rcases h with ⟨hcur, rfl⟩ | ⟨cur, rate, hcur, hne, hrate, hconv⟩
  · have hmd : ({ o.md with currency := some target } : Metadata) = o.md := by
      cases hm : o.md; simp_all
    unfold convRel
    simp only [beq_self_eq_true, Bool.true_and, hmd, sameKeys_refl, List.all_eq_true]
    intro kv hkv
    rw [get?_of_mem_kn hk hkv]
    simp [hcur]
  · obtain ⟨h1, h2, h3, h4, h5, h6, hF⟩ := convertCell_spec hconv
    unfold convRel
    have hkeys : sameKeys o.values.keys c.values.keys = true := by
      unfold Dict.keys
      rw [forall2_keys hF]; exact sameKeys_refl _
    simp only [h1, h2, h3, h4, h5, h6, beq_self_eq_true, Bool.true_and, hkeys, List.all_eq_true]
    intro kv hkv
    obtain ⟨b, hfind, hb⟩ := forall2_find_key hF hk hkv
    have hget : Dict.get? o.values kv.1 = some b.2 := by simp [Dict.get?, hfind]
    rw [hget]
    have hcne : (c.md.currency == some target) = false := by
      rw [hcur]; simpa using hne
    have hpin : Generated.Currency.currencyFields = moneyFields := by decide
    rw [hpin] at hb
    by_cases hm : moneyFields.contains kv.1 = true
    · rw [if_pos hm] at hb
      obtain ⟨hnn, hsh, hdat⟩ := mulNum_data hb
      have hr : (c.md.currency.bind fun cur =>
          ((rates.map fun p => (p.1, p.2.toRat)).find? (·.1 == cur)).map (·.2)) = some rate.toRat := by
        rw [hcur]; simp only [Option.bind_some]; rw [find?_map_rates, hrate]; rfl
      simp only [hcne, Bool.false_or, hm, Bool.not_true, Bool.false_eq_true, if_false, hr]
      simp [hnn, hsh, hdat]
    · rw [if_neg hm] at hb
      have hm' : moneyFields.contains kv.1 = false := by simpa using hm
      simp only [hcne, Bool.false_or, hm', Bool.not_false, if_true, hb, beq_self_eq_true]



theorem Forall2.mem_left {α β} {R : α → β → Prop} {l₁ l₂} (h : Forall2 R l₁ l₂) {a : α}
    (ha : a ∈ l₁) : ∃ b ∈ l₂, R a b := by
  induction h with
  | nil => cases ha
  | cons hr _ ih =>
    rcases List.mem_cons.mp ha with rfl | ha
    · exact ⟨_, by simp, hr⟩
    · obtain ⟨b, hb, hab⟩ := ih ha
      exact ⟨b, by simp [hb], hab⟩

/-- where a cell ends up: class, metadata with the target currency, coordinates -/
def posAfter (target : String) (c : Cell) : CellKind × Metadata × Date × Date × Date × Option Date :=
  (c.kind, { c.md with currency := some target }, c.ps, c.pe, c.ev, c.prev)

def posOf (o : Cell) : CellKind × Metadata × Date × Date × Date × Option Date :=
  (o.kind, o.md, o.ps, o.pe, o.ev, o.prev)

theorem convRel_pos {fields : List String} {target : String} {rates : List (String × Rat)} {c o : Cell}
    (h : convRel fields target rates c o = true) : posOf o = posAfter target c := by
  unfold convRel at h
  simp only [Bool.and_eq_true, beq_iff_eq] at h
  obtain ⟨⟨⟨⟨⟨⟨⟨h1, h2⟩, h3⟩, h4⟩, h5⟩, h6⟩, _⟩, _⟩ := h
  simp [posOf, posAfter, h1, h2, h3, h4, h5, h6]

theorem any_rates_false {rates : List (String × Num)} {cur : String}
    (h : (rates.map fun p => (p.1, p.2.toRat)).any (·.1 == cur) = false) :
    rates.find? (·.1 == cur) = none := by
  rw [List.find?_eq_none]
  intro p hp hpc
  have : (rates.map fun p => (p.1, p.2.toRat)).any (·.1 == cur) = true := by
    rw [List.any_eq_true]
    exact ⟨(p.1, p.2.toRat), List.mem_map.mpr ⟨p, hp, rfl⟩, hpc⟩
  rw [h] at this; cases this



theorem close_zero_self (a : Rat) : close 0 a a = true := by simp [close, rabs]

theorem policyYearSlice_kind {fsig : String → Option Nat} {sl r : List Cell} {len : Nat} {origin : Date}
    {cont : Bool} (hu : ∀ c ∈ sl, ∀ kv ∈ c.values, sgIn kv.2 = fsig kv.1)
    (hcov : ∀ pys, policyYearsCovered sl origin = .ok pys →
      ∀ row ∈ aqShares (periods sl) pys len cont, (row.2.map (·.2)).sum = 1)
    (h : aqToPolicyYearSlice sl len origin cont = .ok r) : ∀ o ∈ r, o.kind = .cumulative := by
  unfold aqToPolicyYearSlice at h
  cases hc : aqToPolicyYearCells sl len origin cont with
  | error e => simp [hc, bind, Except.bind] at h
  | ok tri =>
    simp only [hc, bind, Except.bind] at h
    obtain ⟨hk, _⟩ := policyYearCells_spec hu hcov hc
    intro o ho
    have := (deriveMetadata_perm h).mem_iff.mp ho
    obtain ⟨c, hct, rfl⟩ := List.mem_map.mp this
    exact (hk c hct).1


end Bermuda.Units
