/-
C18: `Spec.C18.policyCovered` (the hypothesis of `policyYear_conserves`) characterised WITHOUT the
share table: a row of the normalised table sums to 1 iff some policy year REACHES the accident period
(`reaches`: a month between the first written month and the last written month + policy length starts
inside the accident period). Pure month arithmetic on the inputs and the list of policy years.
-/
import Bermuda.Lemmas.UnitsPolicy
import Bermuda.Lemmas.UnitsDates
namespace Bermuda.Units
open Bermuda Bermuda.Spec.C18

theorem mem_intRange {lo hi k : Int} : k ∈ intRange lo hi ↔ lo ≤ k ∧ k < hi := by
  unfold intRange
  simp only [List.mem_map, List.mem_range]
  constructor
  · rintro ⟨i, hi', rfl⟩; omega
  · intro h; exact ⟨(k - lo).toNat, by omega, by omega⟩

/-- `d[j] += x` on a table seen as a function of the key -/
def bump (v : Int → Rat) (j : Int) (x : Rat) : Int → Rat := fun k => if k = j then v k + x else v k

theorem addAt_repr (keys : List Int) (v : Int → Rat) (j : Int) (x : Rat) :
    addAt (keys.map fun k => (k, v k)) j x = keys.map fun k => (k, bump v j x k) := by
  unfold addAt bump
  rw [List.map_map]
  apply List.map_congr_left
  intro k _
  simp only [Function.comp]
  by_cases h : k = j <;> simp [h]

theorem foldl_repr {σ τ α} (R : τ → σ) (f : σ → α → σ) (g : τ → α → τ)
    (h : ∀ v a, f (R v) a = R (g v a)) : ∀ (l : List α) (v : τ), l.foldl f (R v) = R (l.foldl g v) := by
  intro l
  induction l with
  | nil => intro v; rfl
  | cons a l ih => intro v; rw [List.foldl_cons, List.foldl_cons, h, ih]

/-- one written month `wm`: half a month's premium in `wm` and `wm + len`, a full one in between -/
def stepV (len : Nat) (mv : Rat) (v : Int → Rat) (wm : Int) : Int → Rat :=
  bump ((intRange 1 len).foldl (fun a off => bump a (wm + off) mv) (bump v wm (mv / 2))) (wm + len) (mv / 2)

/-- the month-share table of one policy year as a function of the month id -/
def shareV (ws we : Int) (len : Nat) : Int → Rat :=
  (intRange ws (we + 1)).foldl (stepV len (1 / ((we - ws + 1 : Int) : Rat) / (len : Rat))) (fun _ => 0)

theorem policyShare_repr (rs re : Date) (len : Nat) (cont : Bool) :
    policyShareByMonth rs re len cont =
      (intRange (monthToId rs) ((if cont then monthToId re else monthToId rs) + len + 1)).map fun k =>
        (k, shareV (monthToId rs) (if cont then monthToId re else monthToId rs) len k) := by
  unfold policyShareByMonth shareV
  simp only
  generalize (1 / (((if cont then monthToId re else monthToId rs) - monthToId rs + 1 : Int) : Rat) / (len : Rat)) = mv
  generalize intRange (monthToId rs) ((if cont = true then monthToId re else monthToId rs) + ↑len + 1) = keys
  have h0 : (keys.map fun i => (i, (0 : Rat))) = keys.map fun k => (k, (fun _ : Int => (0 : Rat)) k) := rfl
  rw [h0]
  apply foldl_repr (fun v : Int → Rat => keys.map fun k => (k, v k))
  intro v wm
  rw [addAt_repr]
  rw [foldl_repr (fun v : Int → Rat => keys.map fun k => (k, v k))
    (fun a off => addAt a (wm + off) mv) (fun a off => bump a (wm + off) mv)
    (fun v a => addAt_repr keys v _ _)]
  rw [addAt_repr]
  rfl

/-! ### the shares are non-negative, and positive on every month the policy year reaches -/

theorem bump_le {v : Int → Rat} {j : Int} {x : Rat} (hx : 0 ≤ x) (k : Int) : v k ≤ bump v j x k := by
  unfold bump; split
  · linarith
  · exact le_refl _

theorem bump_self (v : Int → Rat) (j : Int) (x : Rat) : bump v j x j = v j + x := by simp [bump]

theorem innerFold_mono {mv : Rat} (hmv : 0 ≤ mv) (wm : Int) :
    ∀ (offs : List Int) (a : Int → Rat) (k : Int),
      a k ≤ (offs.foldl (fun a off => bump a (wm + off) mv) a) k := by
  intro offs
  induction offs with
  | nil => intro a k; exact le_refl _
  | cons o offs ih =>
    intro a k
    rw [List.foldl_cons]
    exact le_trans (bump_le hmv k) (ih _ k)

theorem innerFold_hit {mv : Rat} (hmv : 0 ≤ mv) (wm : Int) :
    ∀ (offs : List Int) (a : Int → Rat) (off : Int), off ∈ offs →
      a (wm + off) + mv ≤ (offs.foldl (fun a off => bump a (wm + off) mv) a) (wm + off) := by
  intro offs
  induction offs with
  | nil => intro a off h; cases h
  | cons o offs ih =>
    intro a off h
    rw [List.foldl_cons]
    rcases List.mem_cons.mp h with rfl | h
    · refine le_trans ?_ (innerFold_mono hmv wm offs _ _)
      rw [bump_self]
    · exact le_trans (by have := bump_le (v := a) (j := wm + o) hmv (wm + off); linarith) (ih _ off h)

theorem stepV_mono {len : Nat} {mv : Rat} (hmv : 0 ≤ mv) (v : Int → Rat) (wm k : Int) :
    v k ≤ stepV len mv v wm k := by
  unfold stepV
  refine le_trans ?_ (bump_le (by linarith) k)
  exact le_trans (bump_le (by linarith) k) (innerFold_mono hmv wm _ _ k)

theorem stepV_hit {len : Nat} {mv : Rat} (hmv : 0 ≤ mv) {v : Int → Rat} (hv : ∀ k, 0 ≤ v k)
    {wm k : Int} (h1 : wm ≤ k) (h2 : k ≤ wm + len) : mv / 2 ≤ stepV len mv v wm k := by
  have hh : (0 : Rat) ≤ mv / 2 := by linarith
  unfold stepV
  by_cases hk : k = wm + len
  · subst hk
    rw [bump_self]
    have := le_trans (le_trans (hv (wm + len)) (bump_le hh (wm + len)))
      (innerFold_mono hmv wm (intRange 1 len) (bump v wm (mv / 2)) (wm + len))
    linarith
  · refine le_trans ?_ (bump_le hh k)
    by_cases hk0 : k = wm
    · subst hk0
      refine le_trans ?_ (innerFold_mono hmv k _ _ k)
      rw [bump_self]; have := hv k; linarith
    · have hmem : (k - wm) ∈ intRange 1 len := mem_intRange.mpr ⟨by omega, by omega⟩
      have := innerFold_hit hmv wm (intRange 1 len) (bump v wm (mv / 2)) (k - wm) hmem
      rw [show wm + (k - wm) = k by omega] at this
      have h0 : 0 ≤ bump v wm (mv / 2) k := le_trans (hv k) (bump_le hh k)
      linarith

theorem outerFold_nonneg {len : Nat} {mv : Rat} (hmv : 0 ≤ mv) :
    ∀ (wms : List Int) (v : Int → Rat), (∀ k, 0 ≤ v k) → ∀ k, 0 ≤ (wms.foldl (stepV len mv) v) k := by
  intro wms
  induction wms with
  | nil => intro v hv k; exact hv k
  | cons w wms ih =>
    intro v hv k
    rw [List.foldl_cons]
    exact ih _ (fun k => le_trans (hv k) (stepV_mono hmv v w k)) k

theorem outerFold_mono {len : Nat} {mv : Rat} (hmv : 0 ≤ mv) :
    ∀ (wms : List Int) (v : Int → Rat) (k : Int), v k ≤ (wms.foldl (stepV len mv) v) k := by
  intro wms
  induction wms with
  | nil => intro v k; exact le_refl _
  | cons w wms ih =>
    intro v k
    rw [List.foldl_cons]
    exact le_trans (stepV_mono hmv v w k) (ih _ k)

theorem outerFold_hit {len : Nat} {mv : Rat} (hmv : 0 ≤ mv) :
    ∀ (wms : List Int) (v : Int → Rat), (∀ k, 0 ≤ v k) → ∀ wm ∈ wms, ∀ k, wm ≤ k → k ≤ wm + len →
      mv / 2 ≤ (wms.foldl (stepV len mv) v) k := by
  intro wms
  induction wms with
  | nil => intro v _ wm h; cases h
  | cons w wms ih =>
    intro v hv wm h k h1 h2
    rw [List.foldl_cons]
    rcases List.mem_cons.mp h with rfl | h
    · exact le_trans (stepV_hit hmv hv h1 h2) (outerFold_mono hmv wms _ k)
    · exact ih _ (fun k => le_trans (hv k) (stepV_mono hmv v w k)) wm h k h1 h2

theorem mv_nonneg {ws we : Int} (h : ws ≤ we) (len : Nat) :
    (0 : Rat) ≤ 1 / ((we - ws + 1 : Int) : Rat) / (len : Rat) := by
  apply div_nonneg
  · apply div_nonneg (by norm_num)
    exact_mod_cast (by omega : (0 : Int) ≤ we - ws + 1)
  · exact_mod_cast Nat.zero_le len

theorem mv_pos {ws we : Int} (h : ws ≤ we) {len : Nat} (hlen : 1 ≤ len) :
    (0 : Rat) < 1 / ((we - ws + 1 : Int) : Rat) / (len : Rat) := by
  apply div_pos
  · apply div_pos (by norm_num)
    exact_mod_cast (by omega : (0 : Int) < we - ws + 1)
  · exact_mod_cast hlen

/-- no written month (`we < ws`): the table is all zero -/
theorem shareV_zero {ws we : Int} (h : ¬ ws ≤ we) (len : Nat) (k : Int) : shareV ws we len k = 0 := by
  unfold shareV
  have : intRange ws (we + 1) = [] := by
    unfold intRange
    rw [show (we + 1 - ws).toNat = 0 by omega]; rfl
  rw [this]; rfl

theorem shareV_nonneg (ws we : Int) (len : Nat) (k : Int) : 0 ≤ shareV ws we len k := by
  by_cases h : ws ≤ we
  · exact outerFold_nonneg (mv_nonneg h len) _ _ (fun _ => le_refl _) k
  · rw [shareV_zero h]

/-- every month from the first written month to the last written month + policy length has a
positive share -/
theorem shareV_pos {ws we : Int} (h : ws ≤ we) {len : Nat} (hlen : 1 ≤ len) {k : Int} (h1 : ws ≤ k)
    (h2 : k ≤ we + len) : 0 < shareV ws we len k := by
  have hp := mv_pos h hlen
  have := outerFold_hit (len := len) (le_of_lt hp) (intRange ws (we + 1)) (fun _ => 0) (fun _ => le_refl _)
    (if k ≤ we then k else we) (mem_intRange.mpr (by split <;> omega)) k (by split <;> omega)
    (by split <;> omega)
  unfold shareV
  linarith

/-! ### from the share table to "some policy year reaches the accident period" -/

/-- the entry of accident period `q` in a monthly table (0 if no month of the table starts in `q`) -/
theorem mtq_getD (ms : List (Int × Rat)) (ps : List (Date × Date)) {q : Date × Date} (hq : q ∈ ps) :
    (((monthlyToQuarterly ms ps).find? (·.1 == q)).map (·.2)).getD 0 =
      ((ms.filter fun m => decide (q.1 ≤ idToMonth m.1) && decide (idToMonth m.1 ≤ q.2)).map (·.2)).sum := by
  have hform : monthlyToQuarterly ms ps = ps.filterMap fun q =>
      (if (ms.filter fun m => decide (q.1 ≤ idToMonth m.1) && decide (idToMonth m.1 ≤ q.2)).isEmpty then none
       else some ((ms.filter fun m => decide (q.1 ≤ idToMonth m.1) && decide (idToMonth m.1 ≤ q.2)).map (·.2)).sum).map
        fun b => (q, b) := by
    unfold monthlyToQuarterly
    apply List.filterMap_congr
    intro q _
    simp only
    split <;> simp
  rw [hform, find?_filterMap_key, if_pos hq]
  split
  · rename_i he
    rw [List.isEmpty_iff] at he
    simp [he]
  · simp

/-- value of accident period `aq` in the table of policy year `py` -/
def entryG (ps : List (Date × Date)) (len : Nat) (cont : Bool) (aq py : Date × Date) : Rat :=
  (((monthlyToQuarterly (policyShareByMonth py.1 py.2 len cont) ps).find? (·.1 == aq)).map (·.2)).getD 0

/-- the un-normalised row of accident period `aq`: its entries in the tables of the policy years -/
def rawRow (ps pys : List (Date × Date)) (len : Nat) (cont : Bool) (aq : Date × Date) :
    List ((Date × Date) × Rat) :=
  (pys.map fun py => (py, monthlyToQuarterly (policyShareByMonth py.1 py.2 len cont) ps)).filterMap
    fun (x : (Date × Date) × List ((Date × Date) × Rat)) => (x.2.find? (·.1 == aq)).map fun e => (x.1, e.2)

theorem aqShares_rows (ps pys : List (Date × Date)) (len : Nat) (cont : Bool) :
    aqShares ps pys len cont = ps.map fun aq => (aq, (rawRow ps pys len cont aq).map fun x =>
      (x.1, x.2 / ((rawRow ps pys len cont aq).map (·.2)).sum)) := rfl

theorem rawRow_sum (ps pys : List (Date × Date)) (len : Nat) (cont : Bool) (aq : Date × Date) :
    ((rawRow ps pys len cont aq).map (·.2)).sum = (pys.map (entryG ps len cont aq)).sum := by
  unfold rawRow
  rw [List.filterMap_map]
  have hg : (pys.map (entryG ps len cont aq)) = pys.map fun py =>
      (((monthlyToQuarterly (policyShareByMonth py.1 py.2 len cont) ps).find? (·.1 == aq)).map (·.2)).getD 0 := rfl
  rw [hg, ← sum_filterMap_getD pys fun py =>
    ((monthlyToQuarterly (policyShareByMonth py.1 py.2 len cont) ps).find? (·.1 == aq)).map (·.2)]
  congr 2
  apply List.filterMap_congr
  intro py _
  simp only [Function.comp, Option.map_map]
  rfl

theorem aqShares_all_iff (ps pys : List (Date × Date)) (len : Nat) (cont : Bool) :
    (aqShares ps pys len cont).all (fun row => (row.2.map (·.2)).sum == 1) = true ↔
      ∀ aq ∈ ps, (pys.map (entryG ps len cont aq)).sum ≠ 0 := by
  rw [aqShares_rows]
  simp only [List.all_eq_true, List.mem_map, beq_iff_eq]
  have hrow : ∀ aq, (((rawRow ps pys len cont aq).map fun x =>
      (x.1, x.2 / ((rawRow ps pys len cont aq).map (·.2)).sum)).map (·.2)).sum =
      (pys.map (entryG ps len cont aq)).sum / (pys.map (entryG ps len cont aq)).sum := by
    intro aq
    rw [← rawRow_sum]
    generalize rawRow ps pys len cont aq = raw
    have e2 : ((raw.map fun x => (x.1, x.2 / (raw.map (·.2)).sum)).map (·.2)) =
        (raw.map (·.2)).map (· / (raw.map (·.2)).sum) := by simp [List.map_map, Function.comp]
    rw [e2, sum_map_div]
  constructor
  · intro h aq haq h0
    have := h _ ⟨aq, haq, rfl⟩
    simp only at this
    rw [hrow, h0] at this
    simp at this
  · rintro h row ⟨aq, haq, rfl⟩
    simp only
    rw [hrow]
    exact div_self (h aq haq)

/-- **policy year `py` reaches accident period `q`**: it has a written month at all, and some month
between its first written month and its last written month + policy length starts inside `q`
(`continuous_issuance=False`: all policies are written in the first month of the policy year) -/
def reaches (len : Nat) (cont : Bool) (q py : Date × Date) : Prop :=
  monthToId py.1 ≤ (if cont then monthToId py.2 else monthToId py.1) ∧
  ∃ k : Int, monthToId py.1 ≤ k ∧ k ≤ (if cont then monthToId py.2 else monthToId py.1) + len ∧
    q.1 ≤ idToMonth k ∧ idToMonth k ≤ q.2

theorem sum_nonneg_of {α} (l : List α) (F : α → Rat) (h : ∀ a ∈ l, 0 ≤ F a) : 0 ≤ (l.map F).sum := by
  induction l with
  | nil => simp
  | cons a l ih =>
    rw [List.map_cons, List.sum_cons]
    have := h a (by simp)
    have := ih fun b hb => h b (by simp [hb])
    linarith

theorem sum_ne_zero_iff {α} (l : List α) (F : α → Rat) (h : ∀ a ∈ l, 0 ≤ F a) :
    (l.map F).sum ≠ 0 ↔ ∃ a ∈ l, 0 < F a := by
  induction l with
  | nil => simp
  | cons a l ih =>
    rw [List.map_cons, List.sum_cons]
    have h1 := h a (by simp)
    have h2 := sum_nonneg_of l F fun b hb => h b (by simp [hb])
    have ih' := ih fun b hb => h b (by simp [hb])
    constructor
    · intro hne
      by_cases ha : 0 < F a
      · exact ⟨a, by simp, ha⟩
      · have : F a = 0 := by linarith
        have : (l.map F).sum ≠ 0 := by intro h0; apply hne; rw [this, h0]; norm_num
        obtain ⟨b, hb, hpos⟩ := ih'.mp this
        exact ⟨b, by simp [hb], hpos⟩
    · rintro ⟨b, hb, hpos⟩
      rcases List.mem_cons.mp hb with rfl | hb
      · linarith
      · have : (l.map F).sum ≠ 0 := ih'.mpr ⟨b, hb, hpos⟩
        have : 0 < (l.map F).sum := lt_of_le_of_ne h2 (Ne.symm this)
        linarith

theorem entryG_eq {ps : List (Date × Date)} {aq : Date × Date} (haq : aq ∈ ps) (len : Nat) (cont : Bool)
    (py : Date × Date) :
    entryG ps len cont aq py =
      (((intRange (monthToId py.1) ((if cont then monthToId py.2 else monthToId py.1) + len + 1)).filter
        fun k => decide (aq.1 ≤ idToMonth k) && decide (idToMonth k ≤ aq.2)).map
        (shareV (monthToId py.1) (if cont then monthToId py.2 else monthToId py.1) len)).sum := by
  unfold entryG
  rw [mtq_getD _ _ haq, policyShare_repr, List.filter_map, List.map_map]
  rfl

theorem entryG_nonneg {ps : List (Date × Date)} {aq : Date × Date} (haq : aq ∈ ps) (len : Nat) (cont : Bool)
    (py : Date × Date) : 0 ≤ entryG ps len cont aq py := by
  rw [entryG_eq haq]
  exact sum_nonneg_of _ _ fun k _ => shareV_nonneg _ _ _ k

theorem entryG_pos_iff {ps : List (Date × Date)} {aq : Date × Date} (haq : aq ∈ ps) {len : Nat}
    (hlen : 1 ≤ len) (cont : Bool) (py : Date × Date) :
    0 < entryG ps len cont aq py ↔ reaches len cont aq py := by
  rw [entryG_eq haq]
  generalize hwe : (if cont then monthToId py.2 else monthToId py.1) = we
  unfold reaches
  rw [hwe]
  have hnn := sum_nonneg_of ((intRange (monthToId py.1) (we + len + 1)).filter
    fun k => decide (aq.1 ≤ idToMonth k) && decide (idToMonth k ≤ aq.2)) (shareV (monthToId py.1) we len)
    fun k _ => shareV_nonneg _ _ _ k
  constructor
  · intro hpos
    obtain ⟨k, hk, hkpos⟩ := (sum_ne_zero_iff _ _ fun k _ => shareV_nonneg _ _ _ k).mp (fun h0 => by rw [h0] at hpos; exact lt_irrefl _ hpos)
    obtain ⟨hkr, hkq⟩ := List.mem_filter.mp hk
    obtain ⟨h1, h2⟩ := mem_intRange.mp hkr
    simp only [Bool.and_eq_true, decide_eq_true_eq] at hkq
    refine ⟨?_, k, h1, by omega, hkq.1, hkq.2⟩
    by_contra hw
    rw [shareV_zero hw] at hkpos
    exact lt_irrefl _ hkpos
  · rintro ⟨hw, k, h1, h2, h3, h4⟩
    have hk : k ∈ (intRange (monthToId py.1) (we + len + 1)).filter
        fun k => decide (aq.1 ≤ idToMonth k) && decide (idToMonth k ≤ aq.2) :=
      List.mem_filter.mpr ⟨mem_intRange.mpr ⟨h1, by omega⟩, by simp [h3, h4]⟩
    have := (sum_ne_zero_iff _ _ fun k _ => shareV_nonneg _ _ _ k).mpr ⟨k, hk, shareV_pos hw hlen h1 h2⟩
    exact lt_of_le_of_ne hnn (Ne.symm this)

/-- **`policyCovered` without the share table**: in every slice every accident period is reached by
some policy year of `policy_years_covered` -/
theorem policyCovered_iff_reached {t : List Cell} {len : Nat} (hlen : 1 ≤ len) (origin : Date) (cont : Bool) :
    policyCovered t len origin cont = true ↔
      ∀ sl ∈ Triangle.slices t, ∀ pys, policyYearsCovered sl.2 origin = .ok pys →
        ∀ q ∈ periods sl.2, ∃ py ∈ pys, reaches len cont q py := by
  unfold policyCovered
  rw [List.all_eq_true]
  constructor
  · intro h sl hsl pys hpys q hq
    have := h sl hsl
    rw [hpys] at this
    simp only at this
    have h0 := (aqShares_all_iff _ _ _ _).mp this q hq
    obtain ⟨py, hpy, hpos⟩ := (sum_ne_zero_iff _ _ fun py _ => entryG_nonneg hq len cont py).mp h0
    exact ⟨py, hpy, (entryG_pos_iff hq hlen cont py).mp hpos⟩
  · intro h sl hsl
    cases hp : policyYearsCovered sl.2 origin with
    | error e => rfl
    | ok pys =>
      simp only
      rw [aqShares_all_iff]
      intro q hq
      obtain ⟨py, hpy, hr⟩ := h sl hsl pys hp q hq
      exact (sum_ne_zero_iff _ _ fun py _ => entryG_nonneg hq len cont py).mpr
        ⟨py, hpy, (entryG_pos_iff hq hlen cont py).mpr hr⟩

/-! ### continuous issuance: a policy year reaches every first-of-month period start it contains -/

theorem monthToId_mono {a b : Date} (ha : a.valid = true) (hb : b.valid = true) (h : a ≤ b) :
    monthToId a ≤ monthToId b := by
  rw [date_le_iff_not_lt, Date.lt_iff_agg] at h
  obtain ⟨a1, a2, _, _⟩ := (valid_iff a).mp ha
  obtain ⟨b1, b2, _, _⟩ := (valid_iff b).mp hb
  unfold monthToId; omega

theorem reaches_of_contains {len : Nat} {q py : Date × Date} (hq : q.1.valid = true) (hd : q.1.d = 1)
    (hle : q.1 ≤ q.2) (hv1 : py.1.valid = true) (hv2 : py.2.valid = true)
    (h1 : py.1 ≤ q.1) (h2 : q.1 ≤ py.2) : reaches len true q py := by
  have e : idToMonth (monthToId q.1) = q.1 := by
    rw [idToMonth_true, yearOf_monthToId hq, monthOf_monthToId hq, ← hd]
  have m1 := monthToId_mono hv1 hq h1
  have m2 := monthToId_mono hq hv2 h2
  refine ⟨by simp only [if_true]; omega, monthToId q.1, m1, by simp only [if_true]; omega, ?_, ?_⟩
  · rw [e]; rw [date_le_iff_not_lt]; exact date_lt_irrefl _
  · rw [e]; exact hle

end Bermuda.Units
