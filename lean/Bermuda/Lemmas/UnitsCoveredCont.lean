/-
C18: with continuous issuance `policyCovered` holds on month-aligned accident periods from 1971 on:
the policy years of `policy_years_covered` (the `while py_start < last_end` loop with
`add_months(s, 12)`) tile the months from the first period start to the last period end.
-/
import Bermuda.Lemmas.UnitsCovered
import Bermuda.Lemmas.Sort
namespace Bermuda.Units
open Bermuda Bermuda.Spec.C18 Std

/-- `add_months(s, 12)` lands in the same month of the next year (whatever the day) -/
theorem addMonths12 {s : Date} (hv : s.valid = true) (h0 : 0 ≤ monthToId s) :
    (addMonths s 12).valid = true ∧ monthToId (addMonths s 12) = monthToId s + 12 := by
  obtain ⟨day, h1, h2, _, he⟩ := addMonths_int_form s 12 hv (by omega)
  have : (((12 : Int)) : Rat) = 12 := by norm_num
  rw [this] at he
  rw [he]
  refine ⟨?_, monthToId_mk _ _⟩
  rw [valid_iff]
  have := monthOf_range (monthToId s + 12)
  exact ⟨this.1, this.2, h1, h2⟩

theorem pred_month {d : Date} (hv : d.valid = true) :
    d.pred.valid = true ∧ monthToId d - 1 ≤ monthToId d.pred ∧ monthToId d.pred ≤ monthToId d := by
  obtain ⟨h1, h2, h3, h4⟩ := (valid_iff d).mp hv
  unfold Date.pred
  split
  · refine ⟨?_, ?_, ?_⟩
    · rw [valid_iff]; simp only; omega
    · simp [monthToId]
    · simp [monthToId]
  · split
    · refine ⟨?_, ?_, ?_⟩
      · rw [valid_iff]; simp only
        have := dim_pos d.y (d.m - 1)
        omega
      · simp only [monthToId]; omega
      · simp only [monthToId]; omega
    · refine ⟨?_, ?_, ?_⟩
      · rw [valid_iff]; simp only [dim_twelve]; omega
      · simp only [monthToId]; omega
      · simp only [monthToId]; omega

theorem date_lt_of_monthToId_lt {a b : Date} (ha : a.valid = true) (hb : b.valid = true)
    (h : monthToId a < monthToId b) : a < b := by
  obtain ⟨a1, a2, _, _⟩ := (valid_iff a).mp ha
  obtain ⟨b1, b2, _, _⟩ := (valid_iff b).mp hb
  rw [Date.lt_iff_agg]
  unfold monthToId at h
  omega

/-- the policy-year starts tile the months up to the last period end -/
theorem pyStarts_cover {lastEnd : Date} (hlv : lastEnd.valid = true) :
    ∀ (fuel : Nat) (s : Date), s.valid = true → 0 ≤ monthToId s →
      monthToId lastEnd - monthToId s < 12 * (fuel : Int) →
      ∀ k, monthToId s ≤ k → k ≤ monthToId lastEnd →
        ∃ s' ∈ s :: pyStarts lastEnd fuel s, s'.valid = true ∧ 0 ≤ monthToId s' ∧
          monthToId s' ≤ k ∧ k ≤ monthToId s' + 11 := by
  intro fuel
  induction fuel with
  | zero =>
    intro s hv h0 hf k h1 h2
    omega
  | succ fuel ih =>
    intro s hv h0 hf k h1 h2
    by_cases hk : k ≤ monthToId s + 11
    · exact ⟨s, by simp, hv, h0, h1, hk⟩
    · have hlt : s < lastEnd := date_lt_of_monthToId_lt hv hlv (by omega)
      obtain ⟨hv', hm'⟩ := addMonths12 hv h0
      obtain ⟨s', hs', r⟩ := ih (addMonths s 12) hv' (by omega) (by push_cast at hf ⊢; omega) k (by omega) h2
      refine ⟨s', ?_, r⟩
      simp only [pyStarts, hlt, if_true]
      exact List.mem_cons_of_mem _ hs'

theorem mkDate_ok {y : Int} {m d : Nat} {s : Date} (h : mkDate y m d = .ok s) :
    s = ⟨y, m, d⟩ ∧ s.valid = true := by
  unfold mkDate at h
  simp only at h
  split at h
  · rename_i hv
    simp only [Except.ok.injEq] at h
    subst h
    exact ⟨rfl, hv⟩
  · cases h

/-- the stages of `policy_years_covered` -/
theorem policyYearsCovered_ok {sl : List Cell} {origin : Date} {pys : List (Date × Date)}
    (h : policyYearsCovered sl origin = .ok pys) :
    ∃ first last s0, (periods sl).head? = some first ∧ (periods sl).getLast? = some last ∧
      s0.valid = true ∧ ((s0.y = first.1.y ∧ ¬ first.1 < s0) ∨ s0.y = first.1.y - 1) ∧
      pys = (s0 :: pyStarts last.2 (last.2.y - s0.y + 3).toNat s0).map fun s => (s, (addMonths s 12).pred) := by
  unfold policyYearsCovered at h
  simp only [bind, Except.bind, pure, Except.pure] at h
  split at h
  · rename_i first last hf hl
    cases h1 : mkDate first.1.y origin.m origin.d with
    | error e => simp [h1] at h
    | ok s1 =>
      simp only [h1] at h
      obtain ⟨e1, v1⟩ := mkDate_ok h1
      by_cases hlt : first.1 < s1
      · simp only [hlt, if_true] at h
        cases h2 : mkDate (first.1.y - 1) origin.m origin.d with
        | error e => simp [h2] at h
        | ok s2 =>
          simp only [h2, Except.ok.injEq] at h
          obtain ⟨e2, v2⟩ := mkDate_ok h2
          exact ⟨first, last, s2, hf, hl, v2, .inr (by rw [e2]), h.symm⟩
      · simp only [hlt, if_false, Except.ok.injEq] at h
        exact ⟨first, last, s1, hf, hl, v1, .inl ⟨by rw [e1], hlt⟩, h.symm⟩
  · cases h

/-! ### the sorted period list: its head has the earliest start, its last element the latest -/

instance : TransCmp periodCmp := by unfold periodCmp; infer_instance

theorem periods_sorted (sl : List Cell) :
    (periods sl).Pairwise (fun a b => leOf periodCmp a b = true) := by
  unfold periods
  exact sorted_mergeSort (cmp := periodCmp) _

theorem mem_periods_iff {sl : List Cell} {q : Date × Date} :
    q ∈ periods sl ↔ ∃ c ∈ sl, (c.ps, c.pe) = q := by
  unfold periods
  rw [(List.mergeSort_perm _ _).mem_iff, (dedup_spec _).2]
  simp

theorem start_le_of_leOf {a b : Date × Date} (h : leOf periodCmp a b = true) : a.1 ≤ b.1 := by
  show Date.cmp a.1 b.1 ≠ .gt
  intro hg
  unfold leOf periodCmp compareLex cmpOn at h
  simp [hg] at h

theorem head_le {l : List (Date × Date)} (hs : l.Pairwise (fun a b => leOf periodCmp a b = true))
    {a q : Date × Date} (ha : l.head? = some a) (hq : q ∈ l) : a.1 ≤ q.1 := by
  cases l with
  | nil => cases ha
  | cons x rest =>
    simp only [List.head?_cons, Option.some.injEq] at ha
    subst ha
    rcases List.mem_cons.mp hq with rfl | hq
    · rw [date_le_iff_not_lt]; exact date_lt_irrefl _
    · exact start_le_of_leOf ((List.pairwise_cons.mp hs).1 q hq)

theorem le_last {l : List (Date × Date)} (hs : l.Pairwise (fun a b => leOf periodCmp a b = true))
    {z q : Date × Date} (hz : l.getLast? = some z) (hq : q ∈ l) : q.1 ≤ z.1 := by
  have hne : l ≠ [] := by intro h; rw [h] at hz; cases hz
  have hl : l = l.dropLast ++ [z] := by
    have := List.dropLast_append_getLast hne
    rw [List.getLast?_eq_some_getLast hne] at hz
    simp only [Option.some.injEq] at hz
    rw [hz] at this; exact this.symm
  rw [hl] at hs hq
  rcases List.mem_append.mp hq with hq | hq
  · have := (List.pairwise_append.mp hs).2.2 q hq z (by simp)
    exact start_le_of_leOf this
  · simp only [List.mem_singleton] at hq
    subst hq
    rw [date_le_iff_not_lt]; exact date_lt_irrefl _

/-! ### continuous issuance covers every month-aligned accident period -/

/-- the domain: periods start on the first of a (real) month from 1971 on and end on a real date not
before their start (1971 because the first policy year may start in the previous calendar year and
`add_months` mis-rounds before 1970) -/
def MonthAligned (t : List Cell) : Prop :=
  ∀ c ∈ t, c.ps.valid = true ∧ c.ps.d = 1 ∧ c.pe.valid = true ∧ c.ps ≤ c.pe ∧ 1971 ≤ c.ps.y

theorem reached_of_continuous {sl : List Cell} {origin : Date} {pys : List (Date × Date)} {len : Nat}
    (hdom : MonthAligned sl) (h : policyYearsCovered sl origin = .ok pys) {q : Date × Date}
    (hq : q ∈ periods sl) : ∃ py ∈ pys, reaches len true q py := by
  obtain ⟨first, last, s0, hf, hl, v0, hy, hp⟩ := policyYearsCovered_ok h
  obtain ⟨c, hc, rfl⟩ := mem_periods_iff.mp hq
  obtain ⟨cf, hcf, hcfe⟩ := mem_periods_iff.mp (List.mem_of_mem_head? hf)
  obtain ⟨cl, hcl, hcle⟩ := mem_periods_iff.mp (List.mem_of_mem_getLast? hl)
  obtain ⟨cv, cd, cev, cle, _⟩ := hdom c hc
  obtain ⟨fv, _, _, _, fy⟩ := hdom cf hcf
  obtain ⟨lv, _, lev, lle, _⟩ := hdom cl hcl
  have hs := periods_sorted sl
  have ef1 : first.1 = cf.ps := by rw [← hcfe]
  have el1 : last.1 = cl.ps := by rw [← hcle]
  have el2 : last.2 = cl.pe := by rw [← hcle]
  have m1 : monthToId first.1 ≤ monthToId c.ps :=
    monthToId_mono (by rw [ef1]; exact fv) cv (head_le hs hf hq)
  have m2 : monthToId c.ps ≤ monthToId last.2 := by
    have a := monthToId_mono cv (by rw [el1]; exact lv) (le_last hs hl hq)
    have b := monthToId_mono lv lev lle
    rw [el1] at a; rw [el2]; omega
  obtain ⟨s01, s02, _, _⟩ := (valid_iff s0).mp v0
  obtain ⟨f01, f02, _, _⟩ := (valid_iff cf.ps).mp fv
  have m0 : monthToId s0 ≤ monthToId first.1 := by
    rcases hy with ⟨_, hnl⟩ | hy1
    · exact monthToId_mono v0 (by rw [ef1]; exact fv) (by rw [date_le_iff_not_lt]; exact hnl)
    · rw [ef1] at hy1 ⊢
      unfold monthToId; omega
  have h0 : 0 ≤ monthToId s0 := by
    have : 1970 ≤ s0.y := by
      rcases hy with ⟨hy0, _⟩ | hy1
      · rw [hy0, ef1]; omega
      · rw [hy1, ef1]; omega
    unfold monthToId; omega
  have lv2 : last.2.valid = true := by rw [el2]; exact lev
  obtain ⟨l01, l02, _, _⟩ := (valid_iff last.2).mp lv2
  have hfuel : monthToId last.2 - monthToId s0 < 12 * (((last.2.y - s0.y + 3).toNat : Nat) : Int) := by
    have hge : monthToId s0 ≤ monthToId last.2 := by omega
    unfold monthToId at hge ⊢
    omega
  obtain ⟨s', hs', v', h0', k1, k2⟩ := pyStarts_cover lv2 _ s0 v0 h0 hfuel (monthToId c.ps) (by omega) m2
  refine ⟨(s', (addMonths s' 12).pred), ?_, ?_⟩
  · rw [hp]; exact List.mem_map.mpr ⟨s', hs', rfl⟩
  · obtain ⟨va, ma⟩ := addMonths12 v' h0'
    obtain ⟨_, pm, _⟩ := pred_month va
    have e : idToMonth (monthToId c.ps) = c.ps := by
      rw [idToMonth_true, yearOf_monthToId cv, monthOf_monthToId cv, ← cd]
    unfold reaches
    simp only [if_true]
    refine ⟨by omega, monthToId c.ps, k1, by omega, ?_, ?_⟩
    · rw [e]; rw [date_le_iff_not_lt]; exact date_lt_irrefl _
    · rw [e]; exact cle

/-- **continuous issuance ⇒ `policyCovered`**, on month-aligned accident periods, for every origin and
every policy length ≥ 1 -/
theorem policyCovered_of_continuous {t : List Cell} {len : Nat} (hlen : 1 ≤ len) (origin : Date)
    (hdom : MonthAligned t) : policyCovered t len origin true = true := by
  rw [policyCovered_iff_reached hlen]
  intro sl hsl pys hpys q hq
  exact reached_of_continuous (fun c hc => hdom c (mem_slices_md hsl hc).2) hpys hq

end Bermuda.Units
