/-
Calendar lemmas for C18 (`disagg_tiling`): integer month offsets from a first-of-month date, through
the C12 lemmas of `Lemmas/DateUtils.lean` and the date-order lemmas of `Lemmas/AggregateDates.lean`.
-/
import Bermuda.Lemmas.DateUtils
import Bermuda.Lemmas.AggregateDates
import Bermuda.Lemmas.UnitsBridge
namespace Bermuda
open Bermuda

theorem roundHalfEven_one {q : Rat} (h1 : 1/2 < q) (h2 : q < 3/2) : roundHalfEven q = 1 := by
  unfold roundHalfEven
  by_cases hq : q < 1
  · have hf : q.floor = 0 := by
      show ⌊q⌋ = 0
      rw [Int.floor_eq_iff]; constructor <;> norm_num <;> linarith
    simp only [hf, Int.cast_zero, sub_zero]
    rw [if_neg (by linarith), if_pos h1]; norm_num
  · have hf : q.floor = 1 := by
      show ⌊q⌋ = 1
      rw [Int.floor_eq_iff]; constructor <;> norm_num <;> linarith
    simp only [hf, Int.cast_one]
    rw [if_pos (by linarith)]

/-- first day of month `M` -/
def firstOf (M : Int) : Date := ⟨yearOf M, monthOf M, 1⟩

/-- integer offsets from a first-of-month date land on the first of month `monthToId d + k`
(result from 1970 on) -/
theorem addMonths_firstOf (d : Date) (k : Int) (hd : d.d = 1)
    (h : 0 ≤ monthToId d + k) : addMonths d ((k : Int) : Rat) = firstOf (monthToId d + k) := by
  rw [addMonths_eq_lag, finalLag_int, hd]
  generalize hM : monthToId d + k = M at *
  have b1 := dim_bounds d.y d.m
  have b2 := dim_bounds (yearOf M) (monthOf M)
  have hn : (0 : Rat) < (dim d.y d.m : Rat) := by exact_mod_cast dim_pos _ _
  have hn28 : (28 : Rat) ≤ (dim d.y d.m : Rat) := by exact_mod_cast b1.1
  have hn31 : (dim d.y d.m : Rat) ≤ 31 := by exact_mod_cast b1.2
  have hm28 : (28 : Rat) ≤ (dim (yearOf M) (monthOf M) : Rat) := by exact_mod_cast b2.1
  have hm31 : (dim (yearOf M) (monthOf M) : Rat) ≤ 31 := by exact_mod_cast b2.2
  have hf0 : (0 : Rat) < ((1 : Nat) : Rat) / (dim d.y d.m : Rat) := by positivity
  have hf1 : ((1 : Nat) : Rat) / (dim d.y d.m : Rat) < 1 := by
    rw [div_lt_one hn]; push_cast; linarith
  rw [addMonthsLag_frac M _ h hf0 hf1]
  have hq1 : (1 : Rat) / 2 < ((1 : Nat) : Rat) / (dim d.y d.m : Rat) * (dim (yearOf M) (monthOf M) : Rat) := by
    rw [div_mul_eq_mul_div, lt_div_iff₀ hn]; push_cast; linarith
  have hq2 : ((1 : Nat) : Rat) / (dim d.y d.m : Rat) * (dim (yearOf M) (monthOf M) : Rat) < 3 / 2 := by
    rw [div_mul_eq_mul_div, div_lt_iff₀ hn]; push_cast; linarith
  simp only [roundHalfEven_one hq1 hq2]
  rfl

theorem monthToId_firstOf (M : Int) : monthToId (firstOf M) = M := monthToId_mk M 1

theorem firstOf_valid (M : Int) : (firstOf M).valid = true := by
  rw [valid_iff]
  have := monthOf_range M
  have := dim_pos (yearOf M) (monthOf M)
  simp only [firstOf]; omega

theorem firstOf_pred (M : Int) : (firstOf (M + 1)).pred = monthEndOf M := pred_first_of_month M

theorem firstOf_lt {M N : Int} (h : M < N) : firstOf M < firstOf N := by
  rw [Date.lt_iff_agg]
  simp only [firstOf, yearOf, monthOf]
  omega

theorem firstOf_le_monthEndOf (M : Int) : ¬ monthEndOf M < firstOf M := by
  rw [Date.lt_iff_agg]
  simp only [firstOf, monthEndOf]
  have := dim_pos (yearOf M) (monthOf M)
  omega

theorem monthEndOf_lt_firstOf {M N : Int} (h : M < N) : monthEndOf M < firstOf N := by
  rw [Date.lt_iff_agg]
  simp only [firstOf, monthEndOf, yearOf, monthOf]
  omega


end Bermuda
