/-
Calendar lemmas for C18 (`disagg_tiling`): integer month offsets from a first-of-month date, through
the C12 lemmas of `Lemmas/DateUtils.lean` and the date-order lemmas of `Lemmas/AggregateDates.lean`.
-/
import Bermuda.Lemmas.DateUtils
import Bermuda.Lemmas.AggregateDates
import Bermuda.Lemmas.UnitsBridge
namespace Bermuda
open Bermuda

theorem roundHalfEven_one {q : Rat} (h1 : 1/2 < q) (h2 : q < 3/2) : roundHalfEven q = 1 := by
  unfold roundHalfEven
  by_cases hq : q < 1
  · have hf : q.floor = 0 := by
      show ⌊q⌋ = 0
      rw [Int.floor_eq_iff]; constructor <;> norm_num <;> linarith
    simp only [hf, Int.cast_zero, sub_zero]
    rw [if_neg (by linarith), if_pos h1]; norm_num
  · have hf : q.floor = 1 := by
      show ⌊q⌋ = 1
      rw [Int.floor_eq_iff]; constructor <;> norm_num <;> linarith
    simp only [hf, Int.cast_one]
    rw [if_pos (by linarith)]

/-- first day of month `M` -/
def firstOf (M : Int) : Date := ⟨yearOf M, monthOf M, 1⟩

/-- integer offsets from a first-of-month date land on the first of month `monthToId d + k`
(result from 1970 on) -/
theorem addMonths_firstOf (d : Date) (k : Int) (hd : d.d = 1)
    (h : 0 ≤ monthToId d + k) : addMonths d ((k : Int) : Rat) = firstOf (monthToId d + k) := by
  rw [addMonths_eq_lag, finalLag_int, hd]
  generalize hM : monthToId d + k = M at *
  have b1 := dim_bounds d.y d.m
  have b2 := dim_bounds (yearOf M) (monthOf M)
  have hn : (0 : Rat) < (dim d.y d.m : Rat) := by exact_mod_cast dim_pos _ _
  have hn28 : (28 : Rat) ≤ (dim d.y d.m : Rat) := by exact_mod_cast b1.1
  have hn31 : (dim d.y d.m : Rat) ≤ 31 := by exact_mod_cast b1.2
  have hm28 : (28 : Rat) ≤ (dim (yearOf M) (monthOf M) : Rat) := by exact_mod_cast b2.1
  have hm31 : (dim (yearOf M) (monthOf M) : Rat) ≤ 31 := by exact_mod_cast b2.2
  have hf0 : (0 : Rat) < ((1 : Nat) : Rat) / (dim d.y d.m : Rat) := by positivity
  have hf1 : ((1 : Nat) : Rat) / (dim d.y d.m : Rat) < 1 := by
    rw [div_lt_one hn]; push_cast; linarith
  rw [addMonthsLag_frac M _ h hf0 hf1]
  have hq1 : (1 : Rat) / 2 < ((1 : Nat) : Rat) / (dim d.y d.m : Rat) * (dim (yearOf M) (monthOf M) : Rat) := by
    rw [div_mul_eq_mul_div, lt_div_iff₀ hn]; push_cast; linarith
  have hq2 : ((1 : Nat) : Rat) / (dim d.y d.m : Rat) * (dim (yearOf M) (monthOf M) : Rat) < 3 / 2 := by
    rw [div_mul_eq_mul_div, div_lt_iff₀ hn]; push_cast; linarith
  simp only [roundHalfEven_one hq1 hq2]
  rfl

theorem monthToId_firstOf (M : Int) : monthToId (firstOf M) = M := monthToId_mk M 1

theorem firstOf_valid (M : Int) : (firstOf M).valid = true := by
  rw [valid_iff]
  have := monthOf_range M
  have := dim_pos (yearOf M) (monthOf M)
  simp only [firstOf]; omega

theorem firstOf_pred (M : Int) : (firstOf (M + 1)).pred = monthEndOf M := pred_first_of_month M

theorem firstOf_lt {M N : Int} (h : M < N) : firstOf M < firstOf N := by
  rw [Date.lt_iff_agg]
  simp only [firstOf, yearOf, monthOf]
  omega

theorem firstOf_le_monthEndOf (M : Int) : ¬ monthEndOf M < firstOf M := by
  rw [Date.lt_iff_agg]
  simp only [firstOf, monthEndOf]
  have := dim_pos (yearOf M) (monthOf M)
  omega

theorem monthEndOf_lt_firstOf {M N : Int} (h : M < N) : monthEndOf M < firstOf N := by
  rw [Date.lt_iff_agg]
  simp only [firstOf, monthEndOf, yearOf, monthOf]
  omega


end Bermuda

namespace Bermuda.Units
open Bermuda Bermuda.Spec.C18 Std

theorem date_le_iff_not_lt (a b : Date) : a ≤ b ↔ ¬ b < a := by
  show Date.cmp a b ≠ .gt ↔ ¬ Date.cmp b a = .lt
  rw [OrientedCmp.eq_swap (cmp := Date.cmp) (a := b) (b := a)]
  cases Date.cmp a b <;> simp

theorem date_le_of_lt {a b : Date} (h : a < b) : a ≤ b := by
  rw [date_le_iff_not_lt]; exact Date.lt_asymm_agg h

theorem date_lt_of_lt_of_le {a b c : Date} (h1 : a < b) (h2 : b ≤ c) : a < c := by
  rw [date_le_iff_not_lt] at h2; exact Date.lt_of_lt_of_not_lt_agg h1 h2

theorem date_le_trans {a b c : Date} (h1 : a ≤ b) (h2 : b ≤ c) : a ≤ c := by
  rw [date_le_iff_not_lt] at *
  intro h
  rw [Date.lt_iff_agg] at *
  omega

theorem date_lt_irrefl (a : Date) : ¬ a < a := by rw [Date.lt_iff_agg]; omega

/-- sub-period `k` of a period starting on the first of month `M0` -/
def subOf (M0 : Int) (res k : Nat) : Date × Date :=
  (firstOf (M0 + (k * res : Nat)), monthEndOf (M0 + ((k + 1) * res : Nat) - 1))

/-- closed form of the sub-periods of a first-of-month period start from 1970 on -/
theorem subperiods_firstOf {ps : Date} (hd : ps.d = 1) (h70 : 0 ≤ monthToId ps) (res n : Nat) :
    subperiods ps res n = (List.range n).map (subOf (monthToId ps) res) := by
  unfold subperiods
  apply List.map_congr_left
  intro k _
  have c1 : (((k * res : Nat) : Rat)) = (((k * res : Nat) : Int) : Rat) := by push_cast; ring
  have c2 : ((((k + 1) * res : Nat) : Rat)) = ((((k + 1) * res : Nat) : Int) : Rat) := by push_cast; ring
  rw [c1, c2, addMonths_firstOf ps _ hd (by omega), addMonths_firstOf ps _ hd (by omega)]
  unfold subOf
  congr 1
  have h := firstOf_pred (monthToId ps + (((k + 1) * res : Nat) : Int) - 1)
  rw [show monthToId ps + (((k + 1) * res : Nat) : Int) - 1 + 1 = monthToId ps + (((k + 1) * res : Nat) : Int) by omega] at h
  exact h

theorem subOf_start_le_end (M0 : Int) {res : Nat} (hr : 1 ≤ res) (k : Nat) :
    (subOf M0 res k).1 ≤ (subOf M0 res k).2 := by
  rw [date_le_iff_not_lt]
  unfold subOf
  simp only
  have h1 : ((k * res : Nat) : Int) ≤ (((k + 1) * res : Nat) : Int) - 1 := by
    have : k * res + res = (k + 1) * res := by ring
    omega
  rcases Int.lt_or_eq_of_le h1 with h | h
  · intro hlt
    have := firstOf_lt (M := M0 + (k * res : Nat)) (N := M0 + (((k + 1) * res : Nat) : Int) - 1) (by omega)
    have h3 := firstOf_le_monthEndOf (M0 + (((k + 1) * res : Nat) : Int) - 1)
    exact h3 (Date.lt_trans_agg hlt this)
  · have : M0 + (((k + 1) * res : Nat) : Int) - 1 = M0 + ((k * res : Nat) : Int) := by omega
    rw [this]; exact firstOf_le_monthEndOf _

theorem subOf_start_ge (M0 : Int) (res k : Nat) : firstOf M0 ≤ (subOf M0 res k).1 := by
  unfold subOf
  simp only
  rcases Nat.eq_zero_or_pos (k * res) with h | h
  · rw [h]; simp [date_le_refl]
  · exact date_le_of_lt (firstOf_lt (by omega))

theorem subOf_end_lt {M0 : Int} {res : Nat} (hr : 1 ≤ res) {j k : Nat} (h : j < k) :
    (subOf M0 res j).2 < (subOf M0 res k).2 := by
  unfold subOf
  simp only
  apply monthEndOf_lt
  have : (j + 1) * res < (k + 1) * res := Nat.mul_lt_mul_of_pos_right (by omega) (by omega)
  omega



theorem range_filter_lt (m n : Nat) (h : n ≤ m) (q : Nat → Bool) :
    (List.range m).filter (fun k => decide (k < n) && q k) = (List.range n).filter q := by
  obtain ⟨d, rfl⟩ : ∃ d, m = n + d := ⟨m - n, by omega⟩
  rw [List.range_add, List.filter_append]
  have h1 : (List.range n).filter (fun k => decide (k < n) && q k) = (List.range n).filter q := by
    apply List.filter_congr
    intro k hk
    have : k < n := by simpa using hk
    simp [this]
  have h2 : ((List.range d).map (n + ·)).filter (fun k => decide (k < n) && q k) = [] := by
    rw [List.filter_eq_nil_iff]
    intro k hk
    obtain ⟨j, _, rfl⟩ := List.mem_map.mp hk
    simp
  rw [h1, h2, List.append_nil]

theorem expectedSubs_eq {c : Cell} {res n : Nat} {L : Int} (hr : 1 ≤ res) (hd : c.ps.d = 1)
    (h70 : 0 ≤ monthToId c.ps) (hL : L = ((n * res : Nat) : Int)) (hn : 1 ≤ n)
    (hpe : c.pe = (addMonths c.ps ((L.toNat : Nat) : Rat)).pred) :
    expectedSubs res c = obsSubs c res n := by
  have hLn : L.toNat = n * res := by rw [hL]; exact Int.toNat_natCast _
  have hpe' : c.pe = monthEndOf (monthToId c.ps + ((n * res : Nat) : Int) - 1) := by
    rw [hpe, hLn]
    have c1 : (((n * res : Nat) : Rat)) = (((n * res : Nat) : Int) : Rat) := by push_cast; ring
    rw [c1, addMonths_firstOf c.ps _ hd (by omega)]
    have h := firstOf_pred (monthToId c.ps + ((n * res : Nat) : Int) - 1)
    rw [show monthToId c.ps + ((n * res : Nat) : Int) - 1 + 1 = monthToId c.ps + ((n * res : Nat) : Int) by omega] at h
    exact h
  have hpos : 1 ≤ n * res := Nat.mul_le_mul hn hr
  have hmonths : monthsIn c = n * res := by
    unfold monthsIn
    rw [hpe', monthToId_monthEndOf]; omega
  have hlast : c.pe = (subOf (monthToId c.ps) res (n - 1)).2 := by
    rw [hpe']; unfold subOf; simp only
    have : n - 1 + 1 = n := by omega
    rw [this]
  unfold expectedSubs obsSubs
  rw [hmonths, subperiods_firstOf hd h70, subperiods_firstOf hd h70, List.filter_map, List.filter_map]
  congr 1
  rw [← range_filter_lt (n * res) n (by nlinarith) _]
  apply List.filter_congr
  intro k _
  simp only [Function.comp]
  congr 1
  -- end of sub-period k is within the period iff k < n
  by_cases hk : k < n
  · have : (subOf (monthToId c.ps) res k).2 ≤ c.pe := by
      rw [hlast]
      rcases Nat.lt_or_eq_of_le (by omega : k ≤ n - 1) with h | h
      · exact date_le_of_lt (subOf_end_lt hr h)
      · rw [h]; exact date_le_refl _
    simp [hk, this]
  · have : ¬ (subOf (monthToId c.ps) res k).2 ≤ c.pe := by
      rw [date_le_iff_not_lt, not_not, hlast]
      exact subOf_end_lt hr (by omega)
    simp [hk, this]


end Bermuda.Units
