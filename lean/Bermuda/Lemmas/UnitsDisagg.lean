/-
Lemmas for the disaggregation theorems of C18.
-/
import Bermuda.Lemmas.UnitsPolicy
namespace Bermuda.Units
open Bermuda Bermuda.Spec.C18 Std

theorem sum_filter_indicator {α} (l : List α) (p : α → Bool) (F : α → Rat) :
    ((l.filter p).map F).sum = (l.map fun a => if p a then F a else 0).sum := by
  induction l with
  | nil => rfl
  | cons a rest ih =>
    rw [List.filter_cons]
    by_cases h : p a = true
    · simp [h, ih]
    · simp [h, ih]

theorem forall2_find_key {α β} {Q : (String × α) → (String × β) → Prop}
    {l : List (String × α)} {r : List (String × β)}
    (h : Forall2 (fun a b => b.1 = a.1 ∧ Q a b) l r) (hn : (l.map (·.1)).Nodup)
    {a : String × α} (ha : a ∈ l) : ∃ b, r.find? (·.1 == a.1) = some b ∧ Q a b := by
  induction h with
  | nil => cases ha
  | @cons a0 b0 l' r' hab _ ih =>
    rw [List.map_cons, List.nodup_cons] at hn
    rcases List.mem_cons.mp ha with rfl | ha'
    · exact ⟨b0, by simp [hab.1], hab.2⟩
    · have hne : ¬ a0.1 = a.1 := fun e => hn.1 (by rw [e]; exact List.mem_map.mpr ⟨a, ha', rfl⟩)
      obtain ⟨b, hb, hq⟩ := ih hn.2 ha'
      refine ⟨b, ?_, hq⟩
      rw [List.find?_cons]
      have : (b0.1 == a.1) = false := by rw [hab.1]; simpa using hne
      rw [this]; exact hb

theorem sum_getD_range (cw : List Rat) (n : Nat) (h : cw.length ≤ n) :
    ((List.range n).map fun k => (cw[k]?).getD 0).sum = cw.sum := by
  induction cw generalizing n with
  | nil => simp
  | cons a rest ih =>
    cases n with
    | zero => simp at h
    | succ m =>
      rw [List.range_succ_eq_map, List.map_cons, List.map_map, List.sum_cons, List.sum_cons]
      simp only [List.getElem?_cons_zero, Option.getD_some]
      congr 1
      rw [← ih m (by simpa using h)]
      apply congrArg
      apply List.map_congr_left
      intro k _
      simp [Function.comp]

/-- numeric meaning of the k-th weighted part -/
theorem weightValue_comp {v : Val} {cw : List Rat} {parts : List Val} (h : weightValue v cw = .ok parts)
    {k : Nat} {p : Val} (hp : parts[k]? = some p) (i : Nat) :
    comp p i = comp v i * (cw[k]?).getD 0 := by
  have hd := weightValue_data h
  have h1 : (parts.map vdata)[k]? = some (vdata p) := by simp [hp]
  rw [hd, List.getElem?_map] at h1
  cases hw : cw[k]? with
  | none => simp [hw] at h1
  | some w =>
    simp only [hw, Option.map_some, Option.some.injEq] at h1
    unfold comp
    rw [← h1, List.getElem?_map]
    cases (vdata v)[i]? <;> simp



theorem weightedTable_spec {c : Cell} {cw : List Rat} {weighted : List (String × List Val)}
    (h : weightedTable c cw = .ok weighted) :
    Forall2 (fun (kv : String × Val) (e : String × List Val) =>
      e.1 = kv.1 ∧ weightValue kv.2 cw = .ok e.2) c.values weighted := by
  unfold weightedTable at h
  refine (mapM_ok_forall2 h).imp fun kv e _ he => ?_
  cases hv : weightValue kv.2 cw with
  | error e' => simp [hv, bind, Except.bind] at he
  | ok parts =>
    simp only [hv, bind, Except.bind, pure, Except.pure, Except.ok.injEq] at he
    subst he; exact ⟨rfl, rfl⟩

theorem subValues_spec {c : Cell} {fields : List String} {cw : List Rat}
    {weighted : List (String × List Val)} {k : Nat} {vals : Dict Val} (hk : KN c.values)
    (hW : Forall2 (fun (kv : String × Val) (e : String × List Val) =>
      e.1 = kv.1 ∧ weightValue kv.2 cw = .ok e.2) c.values weighted)
    (h : subValues c fields weighted k = .ok vals) :
    Forall2 (fun (kv kv' : String × Val) => kv'.1 = kv.1 ∧
      ∀ i, comp kv'.2 i = comp kv.2 i * (cw[k]?).getD 0)
      (c.values.filter fun kv => fields.contains kv.1) vals := by
  unfold subValues at h
  refine (mapM_ok_forall2 h).imp fun kv kv' hkv hr => ?_
  have hkv' : kv ∈ c.values := (List.mem_filter.mp hkv).1
  obtain ⟨e, hfind, hwv⟩ := forall2_find_key hW hk hkv'
  rw [hfind] at hr
  simp only [Option.bind_some] at hr
  cases hp : e.2[k]? with
  | none => simp [hp] at hr
  | some p =>
    simp only [hp, Except.ok.injEq] at hr
    subst hr
    exact ⟨rfl, fun i => weightValue_comp hwv hp i⟩

theorem forall2_keys {kvs kvs' : Dict Val} {Q : (String × Val) → (String × Val) → Prop}
    (h : Forall2 (fun kv kv' => kv'.1 = kv.1 ∧ Q kv kv') kvs kvs') :
    kvs'.map (·.1) = kvs.map (·.1) := by
  induction h with
  | nil => rfl
  | cons hab _ ih => simp [hab.1, ih]

theorem subCell_spec {c : Cell} {fields : List String} {cw : List Rat}
    {weighted : List (String × List Val)} {subs : List (Date × Date)} {k : Nat} {o : Cell}
    (hk : KN c.values)
    (hW : Forall2 (fun (kv : String × Val) (e : String × List Val) =>
      e.1 = kv.1 ∧ weightValue kv.2 cw = .ok e.2) c.values weighted)
    (h : subCell c fields weighted subs k = .ok o) :
    o.md = c.md ∧ o.ev = c.ev ∧ o.kind = .cell ∧ (o.ps, o.pe) = subs[k]! ∧
    o.values.map (·.1) = (c.values.filter fun kv => fields.contains kv.1).map (·.1) ∧
    ∀ f, fields.contains f = true → ∀ i, cellField o f i = cellField c f i * (cw[k]?).getD 0 := by
  unfold subCell at h
  cases hv : subValues c fields weighted k with
  | error e => simp [hv, bind, Except.bind] at h
  | ok vals =>
    simp only [hv, bind, Except.bind] at h
    obtain ⟨rfl, _⟩ := mk?_ok h
    have hV' := subValues_spec hk hW hv
    refine ⟨rfl, rfl, rfl, rfl, forall2_keys hV', ?_⟩
    intro f hf i
    unfold cellField
    simp only
    rw [sum_filter_indicator, sum_filter_indicator,
      sum_forall2 hV' (fun kv' => if kv'.1 == f then comp kv'.2 i else 0)
        (fun kv => (if kv.1 == f then comp kv.2 i else 0) * (cw[k]?).getD 0)
        (fun kv kv' _ hr => by rw [hr.1, hr.2 i]; split <;> simp)]
    have e1 : ((c.values.filter fun kv => fields.contains kv.1).map
          fun kv => (if kv.1 == f then comp kv.2 i else 0) * (cw[k]?).getD 0)
        = ((c.values.filter fun kv => fields.contains kv.1).map
          fun kv => if kv.1 == f then comp kv.2 i else 0).map (· * (cw[k]?).getD 0) := by
      rw [List.map_map]; rfl
    rw [e1, sum_map_mul_right, sum_filter_indicator]
    congr 2
    apply List.map_congr_left
    intro a _
    by_cases ha : a.1 = f
    · subst ha
      have : a.1 ∈ fields := by simpa using hf
      simp [this]
    · simp [ha]

theorem disaggCell_spec {c : Cell} {res n : Nat} {ws : List Rat} {fields : List String}
    {cells : List Cell} (hk : KN c.values) (hws : ws ≠ [])
    (h : disaggCell c res n ws fields = .ok cells) :
    cells.length = (obsSubs c res n).length ∧
    (∀ o ∈ cells, o.md = c.md ∧ o.ev = c.ev ∧ o.kind = .cell ∧ (o.ps, o.pe) ∈ obsSubs c res n ∧
      o.values.map (·.1) = (c.values.filter fun kv => fields.contains kv.1).map (·.1)) ∧
    (cells ≠ [] → ∀ f, fields.contains f = true → ∀ i, total cells f i = cellField c f i) := by
  unfold disaggCell at h
  simp only [bind, Except.bind] at h
  split at h
  · cases h
  · rename_i hguard
    cases hw : weightedTable c (renorm (ws.take (obsSubs c res n).length)) with
    | error e => simp [hw] at h
    | ok weighted =>
      simp only [hw] at h
      have hW := weightedTable_spec hw
      have hF := mapM_ok_forall2 h
      have hlen : cells.length = (obsSubs c res n).length := by
        rw [← hF.length_eq]; simp
      refine ⟨hlen, ?_, ?_⟩
      · intro o ho
        obtain ⟨k, hkm, hko⟩ := hF.mem_right ho
        obtain ⟨a, b, c', d, e, _⟩ := subCell_spec hk hW hko
        have hk' : k < (obsSubs c res n).length := by simpa using hkm
        refine ⟨a, b, c', ?_, e⟩
        rw [d, getElem!_pos _ k hk']; exact List.getElem_mem hk'
      · intro hne f hf i
        unfold total
        rw [sum_forall2 hF (fun o => cellField o f i)
          (fun k => cellField c f i * ((renorm (ws.take (obsSubs c res n).length))[k]?).getD 0)
          (fun k o _ hko => (subCell_spec hk hW hko).2.2.2.2.2 f hf i)]
        have e3 : ((List.range (obsSubs c res n).length).map
            fun k => cellField c f i * ((renorm (ws.take (obsSubs c res n).length))[k]?).getD 0)
            = ((List.range (obsSubs c res n).length).map fun k =>
                ((renorm (ws.take (obsSubs c res n).length))[k]?).getD 0).map (cellField c f i * ·) := by
          rw [List.map_map]; rfl
        rw [e3, sum_map_mul_left, sum_getD_range]
        · have hsub : (obsSubs c res n) ≠ [] := by
            intro he; rw [he] at hlen; exact hne (List.length_eq_zero_iff.mp hlen)
          have hcw0 : ws.take (obsSubs c res n).length ≠ [] := by
            intro he
            rw [List.take_eq_nil_iff] at he
            rcases he with he | he
            · exact hsub (List.length_eq_zero_iff.mp he)
            · exact hws he
          have hsum : (ws.take (obsSubs c res n).length).sum ≠ 0 := by
            intro hz
            apply hguard
            simp [hz, hcw0]
          rw [renorm_sum hsum, mul_one]
        · simp [renorm]



theorem map_getElem!_range' {α} [Inhabited α] (l : List α) :
    (List.range l.length).map (fun n => l[n]!) = l := by
  apply List.ext_getElem
  · simp
  · intro i h1 h2
    simp at h1
    simp [h1]

theorem forall2_map_eq {α β γ} {R : α → β → Prop} {l : List α} {r : List β} (h : Forall2 R l r)
    (f : β → γ) (g : α → γ) (hr : ∀ a b, R a b → f b = g a) : r.map f = l.map g := by
  induction h with
  | nil => rfl
  | cons hab _ ih => simp [hr _ _ hab, ih]

/-- the periods of the cells `disaggCell` produces are exactly the observable sub-periods, in order -/
theorem disaggCell_periods {c : Cell} {res n : Nat} {ws : List Rat} {fields : List String}
    {cells : List Cell} (hk : KN c.values)
    (h : disaggCell c res n ws fields = .ok cells) :
    cells.map (fun o => (o.ps, o.pe)) = obsSubs c res n := by
  unfold disaggCell at h
  simp only [bind, Except.bind] at h
  split at h
  · cases h
  · cases hw : weightedTable c (renorm (ws.take (obsSubs c res n).length)) with
    | error e => simp [hw] at h
    | ok weighted =>
      simp only [hw] at h
      have hW := weightedTable_spec hw
      have hF := mapM_ok_forall2 h
      rw [forall2_map_eq hF (fun o => (o.ps, o.pe)) (fun k => (obsSubs c res n)[k]!)
        (fun k o hko => (subCell_spec hk hW hko).2.2.2.1)]
      exact map_getElem!_range' _

/-- `part` are the sub-period cells of `c`: their periods are exactly the sub-periods of `c`
(`res` months each, from `c.ps`: `subperiods`) that are over at the evaluation date, in order; same
slice and evaluation date; and (when there is any) every selected field adds up to the original,
component by component -/
def SubCells (res : Nat) (F : String → Bool) (c : Cell) (part : List Cell) : Prop :=
  (∃ n, part.map (fun o => (o.ps, o.pe)) = obsSubs c res n) ∧
  (∀ o ∈ part, o.md = c.md ∧ o.ev = c.ev ∧ o.kind = .cell ∧ o.pe ≤ o.ev) ∧
  (part ≠ [] → ∀ f, F f = true → ∀ i, total part f i = cellField c f i)

theorem disaggSlice_spec {sl out : List Cell} {res : Nat} {ws : List Rat} {fields : List String}
    (hk : ∀ c ∈ sl, KN c.values) (hws : ws ≠ []) (h : disaggSlice sl res ws fields = .ok out) :
    ∃ parts, out = parts.flatten ∧ Forall2 (SubCells res fun f => fields.contains f) sl parts := by
  unfold disaggSlice at h
  cases hr : periodResolution sl with
  | error e => simp [hr, bind, Except.bind] at h
  | ok sres =>
    simp only [hr, bind, Except.bind] at h
    cases hm : sl.mapM (fun c => disaggCell c res (sres / (res : Int)).toNat ws fields) with
    | error e => simp [hm] at h
    | ok parts =>
      simp only [hm, pure, Except.pure, Except.ok.injEq] at h
      refine ⟨parts, h.symm, (mapM_ok_forall2 hm).imp fun c part hc hp => ?_⟩
      obtain ⟨_, h2, h3⟩ := disaggCell_spec (hk c hc) hws hp
      refine ⟨⟨_, disaggCell_periods (hk c hc) hp⟩, fun o ho => ⟨(h2 o ho).1, (h2 o ho).2.1, (h2 o ho).2.2.1, ?_⟩, h3⟩
      have hm' := (h2 o ho).2.2.2.1
      unfold obsSubs at hm'
      have := (List.mem_filter.mp hm').2
      rw [(h2 o ho).2.1]
      simpa using this

theorem forall2_singleton {α β} {R : α → List β → Prop} (l : List α) (f : α → β)
    (h : ∀ a ∈ l, R a [f a]) : Forall2 R l (l.map fun a => [f a]) := by
  induction l with
  | nil => exact .nil
  | cons a rest ih => exact .cons (h a (by simp)) (ih fun b hb => h b (by simp [hb]))

theorem flatten_map_singleton {α} (l : List α) : (l.map fun c => [c]).flatten = l := by
  induction l with
  | nil => rfl
  | cons a rest ih => simp [ih]

theorem forall2_flatten_slices {R : Cell → List Cell → Prop}
    {slices : List (Metadata × List Cell)} {pss : List (List (List Cell))}
    (h : Forall2 (fun sl ps => Forall2 R sl.2 ps) slices pss) :
    Forall2 R (slices.flatMap (·.2)) pss.flatten := by
  induction h with
  | nil => exact .nil
  | cons hab _ ih => simpa using hab.append ih



/-! ### prefix sums of `Spec.C18.premiumSpec` -/

theorem prefixFold (l : List Rat) (pre : List Rat) (s : Rat) :
    (l.foldl (fun (acc : List Rat × Rat) x => (acc.1 ++ [acc.2 + x], acc.2 + x)) (pre, s)).1 =
      pre ++ (List.range l.length).map fun k => s + (l.take (k + 1)).sum := by
  induction l generalizing pre s with
  | nil => simp
  | cons a rest ih =>
    rw [List.foldl_cons, ih, List.length_cons, List.range_succ_eq_map, List.map_cons, List.map_map]
    simp only [List.append_assoc, List.singleton_append, List.take_succ_cons, List.sum_cons,
      List.take_zero, List.sum_nil, add_zero]
    congr 2
    apply List.map_congr_left
    intro k _
    simp only [Function.comp, Nat.succ_eq_add_one]; ring

theorem prefixSums_eq (l : List Rat) :
    prefixSums l = (List.range l.length).map fun k => (l.take (k + 1)).sum := by
  unfold prefixSums
  rw [prefixFold]; simp


end Bermuda.Units
