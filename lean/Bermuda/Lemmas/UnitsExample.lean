/-
C18: the concrete round trip used as non-vacuity example of `aggregate_disagg`
(`Properties/C18.lean: exT_roundtrip`). `List.mergeSort` does not reduce in the kernel, so the model is
evaluated in stages: every sort meets an already sorted list (`List.mergeSort_of_pairwise`), the rest
is `decide +kernel`.
-/
import Bermuda.Lemmas.UnitsRoundtrip
import Bermuda.Spec.C18
namespace Bermuda.Units.Example
open Bermuda Bermuda.Units Bermuda.Spec.C18

def exY : Cell :=
  { kind := .cumulative, ps := ⟨2020, 1, 1⟩, pe := ⟨2020, 12, 31⟩, ev := ⟨2020, 12, 31⟩,
    values := [("open_claims", .int 7), ("paid_loss", .int 120)], md := {} }
def exT : List Cell := [exY]
def exH (ps pe : Date) (paid : Rat) : Cell :=
  { kind := .cell, ps := ps, pe := pe, ev := ⟨2020, 12, 31⟩, values := [("paid_loss", .flt paid)], md := {} }
def exOut : List Cell :=
  [exH ⟨2020, 1, 1⟩ ⟨2020, 6, 30⟩ 30, exH ⟨2020, 7, 1⟩ ⟨2020, 12, 31⟩ 90]
def exBack : List Cell := [{ exY with values := [("paid_loss", .flt 120)] }]
def exArgs : AggArgs := { periodRes := some (12, "month"), periodOrigin := ⟨2019, 12, 31⟩ }
def exW : Option (List Num) := some [.flt (1/4), .flt (3/4)]

theorem exT_slices : Triangle.slices exT = [({}, exT)] := by decide +kernel

theorem exT_res : periodResolution exT = .ok 12 := by
  unfold periodResolution
  rw [show periods exT = [(⟨2020, 1, 1⟩, ⟨2020, 12, 31⟩)] by decide +kernel]
  simp only
  rw [List.mergeSort_of_pairwise (by decide +kernel)]
  decide +kernel

theorem exT_wf : disaggWF 6 exT = true := by
  unfold disaggWF
  rw [exT_slices]
  simp only [List.all_cons, List.all_nil, Bool.and_true, exT_res]
  decide +kernel

theorem exT_fields : triFields exT = ["open_claims", "paid_loss"] := by
  unfold triFields sortStrings
  rw [List.mergeSort_of_pairwise (by decide +kernel)]
  decide +kernel

theorem exT_slice : disaggSlice exT 6 [1/4, 3/4] Generated.Units.defaultInterpolationFields = .ok exOut := by
  unfold disaggSlice
  rw [exT_res]
  decide +kernel

theorem ofCells_of_sorted {l : List Cell} (hk : kindsConsistent l = true)
    (hs : l.Pairwise (fun a b => Cell.le a b = true)) : Triangle.ofCells l = .ok l := by
  unfold Triangle.ofCells
  rw [hk, List.mergeSort_of_pairwise hs]
  rfl

theorem exT_core : disaggCore exT 6 [1/4, 3/4] Generated.Units.defaultInterpolationFields = .ok exOut := by
  unfold disaggCore
  rw [exT_slices]
  simp only [List.mapM_cons, List.mapM_nil, exT_slice, bind, Except.bind, pure, Except.pure]
  exact ofCells_of_sorted (by decide +kernel) (by decide +kernel)

theorem exT_disagg : disaggregateExperience exT 6 exW none = .ok exOut := by
  unfold disaggregateExperience
  rw [exT_res, exT_fields]
  simp only
  rw [show weightsOrDefault exW ((12 : Int) / ((6 : Nat) : Int)).toNat = [1/4, 3/4] by decide +kernel]
  rw [show (none : Option (List String)).getD Generated.Units.defaultInterpolationFields =
    Generated.Units.defaultInterpolationFields from rfl, exT_core]
  decide +kernel

theorem exOut_slices : Triangle.slices exOut = [({}, exOut)] := by
  unfold Triangle.slices
  rw [show metasOf exOut = [{}] by decide +kernel]
  simp only [List.map]
  rw [show exOut.filter (fun x => x.md == ({} : Metadata)) = exOut by decide +kernel]
  rw [List.mergeSort_of_pairwise (by decide +kernel)]

theorem exOut_period : aggregatePeriod Transc.id exOut (some (12, "month")) ⟨2019, 12, 31⟩ true = .ok exBack := by
  unfold aggregatePeriod
  simp only
  rw [List.mergeSort_of_pairwise (l := exOut) (by decide +kernel)]
  decide +kernel

theorem exOut_agg : aggregate Transc.id exOut exArgs = .ok exBack := by
  unfold aggregate
  rw [show smIsIncremental exOut = false by decide +kernel]
  simp only [Bool.false_eq_true, if_false]
  unfold aggregateCum
  rw [exOut_slices]
  simp only [smMapE]
  rw [show aggregateSlice Transc.id exArgs exOut = .ok exBack from exOut_period]
  rfl

/-! twin slices: an EUR slice and a USD slice that differ ONLY in the currency collide after conversion -/
def twinCell (cur : String) (v : Val) : Cell :=
  { kind := .cumulative, ps := ⟨2020, 1, 1⟩, pe := ⟨2020, 12, 31⟩, ev := ⟨2020, 12, 31⟩,
    values := [("paid_loss", v)], md := { currency := some cur } }
def twinT : List Cell := [twinCell "EUR" (.int 100), twinCell "USD" (.int 125)]
def twinOut : List Cell := [twinCell "USD" (.flt 125), twinCell "USD" (.int 125)]

theorem twin_convert : convertCurrency twinT "USD" [("EUR", .flt (5/4))] = .ok twinOut := by
  unfold convertCurrency
  rw [show (Triangle.slices twinT).mapM (convertSlice "USD" [("EUR", .flt (5/4))]) =
    .ok [[twinCell "USD" (.flt 125)], [twinCell "USD" (.int 125)]] by decide +kernel]
  show Triangle.ofCells twinOut = .ok twinOut
  exact ofCells_of_sorted (l := twinOut) (by decide +kernel) (by decide +kernel)

theorem twin_spec : currencySpec moneyFields "USD" [("EUR", 5/4)] twinT twinOut = true := by decide +kernel

/-! a cell whose evaluation date lies inside its first sub-period -/
def exU : Cell := { exY with ev := ⟨2020, 3, 31⟩ }

theorem exU_res : periodResolution [exU] = .ok 12 := by
  unfold periodResolution
  rw [show periods [exU] = [(⟨2020, 1, 1⟩, ⟨2020, 12, 31⟩)] by decide +kernel]
  simp only
  rw [List.mergeSort_of_pairwise (by decide +kernel)]
  decide +kernel

theorem exU_fields : triFields [exU] = ["open_claims", "paid_loss"] := by
  unfold triFields sortStrings
  rw [List.mergeSort_of_pairwise (by decide +kernel)]
  decide +kernel

theorem exU_disagg : disaggregateExperience [exU] 6 exW none = .ok [] := by
  unfold disaggregateExperience
  rw [exU_res, exU_fields]
  simp only
  rw [show weightsOrDefault exW ((12 : Int) / ((6 : Nat) : Int)).toNat = [1/4, 3/4] by decide +kernel]
  rw [show (none : Option (List String)).getD Generated.Units.defaultInterpolationFields =
    Generated.Units.defaultInterpolationFields from rfl]
  have hcore : disaggCore [exU] 6 [1/4, 3/4] Generated.Units.defaultInterpolationFields = .ok [] := by
    unfold disaggCore
    rw [show Triangle.slices [exU] = [({}, [exU])] by decide +kernel]
    have hs : disaggSlice [exU] 6 [1/4, 3/4] Generated.Units.defaultInterpolationFields = .ok [] := by
      unfold disaggSlice
      rw [exU_res]
      decide +kernel
    simp only [List.mapM_cons, List.mapM_nil, hs, bind, Except.bind, pure, Except.pure]
    decide +kernel
  rw [hcore]
  decide +kernel

end Bermuda.Units.Example
