/-
C18: the greedy `matchAll` of `Spec.C18.currencySpec` succeeds on the model's output also when cells
collide after conversion (twin slices), provided the input is a sorted triangle without duplicate
coordinates: colliding cells keep their relative order through the stable sort.
-/
import Bermuda.Lemmas.UnitsBridge
import Bermuda.Lemmas.Sort
import Bermuda.Lemmas.UnitsTiling
namespace Bermuda.Units
open Bermuda Bermuda.Spec.C18 Std

theorem removeFirst_split {α} {p : α → Bool} {pre post : List α} {o : α}
    (hpre : ∀ x ∈ pre, p x = false) (ho : p o = true) :
    removeFirst p (pre ++ o :: post) = some (pre ++ post) := by
  induction pre with
  | nil => simp [removeFirst, ho]
  | cons x pre ih =>
    have hx := hpre x (by simp)
    simp only [List.cons_append, removeFirst, hx, Bool.false_eq_true, if_false,
      ih fun y hy => hpre y (by simp [hy])]
    rfl

open Classical in
/-- greedy matching succeeds when, key by key, inputs and outputs are aligned in order -/
theorem matchAll_of_aligned {κ : Type} (rel : Cell → Cell → Bool) (kin kout : Cell → κ)
    (hk : ∀ c o, rel c o = true → kout o = kin c) :
    ∀ (t out : List Cell), out.length = t.length →
      (∀ p, Forall2 (fun c o => rel c o = true) (t.filter fun c => decide (kin c = p))
        (out.filter fun o => decide (kout o = p))) → matchAll rel t out = true := by
  intro t
  induction t with
  | nil =>
    intro out hl _
    have : out = [] := List.length_eq_zero_iff.mp hl
    subst this; rfl
  | cons c cs ih =>
    intro out hl hal
    have hp := hal (kin c)
    rw [List.filter_cons_of_pos (by simp)] at hp
    generalize hfo : (out.filter fun o => decide (kout o = kin c)) = fo at hp
    cases hp with
    | @cons _ o _ rest' hco hrest =>
      obtain ⟨pre, post, rfl, hpre, hob, hpost⟩ := List.filter_eq_cons_iff.mp hfo
      unfold matchAll
      have hprefalse : ∀ x ∈ pre, rel c x = false := by
        intro x hx
        by_contra hr
        have hr' : rel c x = true := by simpa using hr
        have := hpre x hx
        simp only [decide_eq_true_eq] at this
        exact this (hk c x hr')
      rw [removeFirst_split hprefalse hco]
      apply ih (pre ++ post)
      · simp at hl ⊢; omega
      · intro p
        by_cases hpe : p = kin c
        · subst hpe
          rw [List.filter_append]
          have : pre.filter (fun o => decide (kout o = kin c)) = [] := by
            rw [List.filter_eq_nil_iff]; intro x hx; exact hpre x hx
          rw [this, List.nil_append, hpost]
          exact hrest
        · have h := hal p
          have hc : decide (kin c = p) = false := by simpa using fun e => hpe e.symm
          rw [List.filter_cons, hc] at h
          simp only [Bool.false_eq_true, if_false] at h
          have hoo : decide (kout o = p) = false := by
            simp only [decide_eq_true_eq] at hob
            simpa [hob] using fun e => hpe e.symm
          rw [List.filter_append, List.filter_cons, hoo] at h
          simp only [Bool.false_eq_true, if_false] at h
          rw [List.filter_append]
          exact h

/-- a stable sort keeps the relative order of the elements of one key class -/
theorem mergeSort_filter_stable {α} {le : α → α → Bool}
    (htrans : ∀ a b c, le a b = true → le b c = true → le a c = true)
    (htotal : ∀ a b, (le a b || le b a) = true) (q : α → Bool) (l : List α)
    (hq : ∀ a b, q a = true → q b = true → le a b = true) :
    (l.mergeSort le).filter q = l.filter q := by
  have hpw : (l.filter q).Pairwise (fun a b => le a b = true) := by
    rw [List.pairwise_iff_forall_sublist]
    intro a b hab
    have ha : a ∈ l.filter q := hab.subset (by simp)
    have hb : b ∈ l.filter q := hab.subset (by simp)
    exact hq a b (List.mem_filter.mp ha).2 (List.mem_filter.mp hb).2
  have hsub := List.sublist_mergeSort htrans htotal hpw List.filter_sublist
  have hsub' := hsub.filter q
  rw [List.filter_filter] at hsub'
  simp only [Bool.and_self] at hsub'
  have hlen : (l.filter q).length = ((l.mergeSort le).filter q).length :=
    ((List.mergeSort_perm l le).filter q).length_eq.symm
  exact (hsub'.eq_of_length hlen).symm

theorem Forall2.filter {α β} {R : α → β → Prop} {p : α → Bool} {q : β → Bool} {l : List α} {r : List β}
    (h : Forall2 R l r) (hpq : ∀ a b, R a b → p a = q b) : Forall2 R (l.filter p) (r.filter q) := by
  induction h with
  | nil => exact .nil
  | @cons a b l r hab _ ih =>
    rw [List.filter_cons, List.filter_cons, hpq a b hab]
    split
    · exact .cons hab ih
    · exact ih

/-- first-occurrence dedup of the metadata is a sub-list of the metadata column -/
theorem metasOf_sublist (t : List Cell) : (metasOf t).Sublist (t.map (·.md)) := by
  unfold metasOf
  suffices h : ∀ (rest pre : List Cell) (acc : List Metadata), acc.Sublist (pre.map (·.md)) →
      (rest.foldl (fun acc c => if acc.contains c.md then acc else acc ++ [c.md]) acc).Sublist
        ((pre ++ rest).map (·.md)) by
    simpa using h t [] [] (List.Sublist.refl _)
  intro rest
  induction rest with
  | nil => intro pre acc h; simpa using h
  | cons c rest ih =>
    intro pre acc h
    rw [List.foldl_cons]
    have := ih (pre ++ [c]) (if acc.contains c.md then acc else acc ++ [c.md]) (by
      rw [List.map_append]
      split
      · exact h.trans (List.sublist_append_left _ _)
      · exact h.append (List.Sublist.refl _))
    simpa using this

/-- a sorted triangle with canonical metadata and distinct coordinates is the concatenation of its
slices, in order -/
theorem slices_flatMap_eq {t : List Cell} (hs : t.Pairwise (fun a b => Cell.le a b = true))
    (hc : ∀ c ∈ t, c.md.Canon) (hn : (t.map Cell.coord).Nodup) :
    (Triangle.slices t).flatMap (·.2) = t := by
  have hperm := slices_flatten_perm t
  apply sorted_perm_unique (cmp := Cell.cmp) _ _ hs hperm
  · intro a b ha hb hab
    have ha' := hperm.mem_iff.mp ha
    exact List.inj_on_of_nodup_map hn ha' hb ((Cell.cmp_eq_eq (hc a ha') (hc b hb)).mp hab)
  · rw [List.pairwise_flatMap]
    constructor
    · intro sl hsl
      unfold Triangle.slices at hsl
      obtain ⟨m, _, rfl⟩ := List.mem_map.mp hsl
      exact sorted_mergeSort (cmp := Cell.cmp) _
    · unfold Triangle.slices
      rw [List.pairwise_map]
      have hmd : (t.map (·.md)).Pairwise (fun a b => leOf Metadata.cmp a b = true) := by
        rw [List.pairwise_map]
        refine hs.imp ?_
        intro a b hab
        unfold Cell.le at hab
        unfold leOf
        revert hab
        simp only [Cell.cmp, compareLex, cmpOn]
        cases Metadata.cmp a.md b.md <;> simp
      have h1 := hmd.sublist (metasOf_sublist t)
      have h2 : (metasOf t).Pairwise (· ≠ ·) := metasOf_nodup t
      refine (h1.and h2).imp_of_mem ?_
      intro m1 m2 hm1 hm2 ⟨hle, hne⟩ x hx y hy
      simp only at hx hy
      have hxm : x.md = m1 := by
        have := (List.mergeSort_perm _ _).mem_iff.mp hx
        simpa using (List.mem_filter.mp this).2
      have hym : y.md = m2 := by
        have := (List.mergeSort_perm _ _).mem_iff.mp hy
        simpa using (List.mem_filter.mp this).2
      obtain ⟨c1, hc1, e1⟩ := mem_metasOf.mp hm1
      obtain ⟨c2, hc2, e2⟩ := mem_metasOf.mp hm2
      have hlt : Metadata.cmp m1 m2 = .lt := by
        have hneq : Metadata.cmp m1 m2 ≠ .eq := fun h =>
          hne ((Metadata.cmp_eq_eq (by rw [← e1]; exact hc c1 hc1) (by rw [← e2]; exact hc c2 hc2)).mp h)
        unfold leOf at hle
        revert hle hneq
        cases Metadata.cmp m1 m2 <;> simp
      show leOf Cell.cmp x y = true
      unfold leOf
      simp only [Cell.cmp, compareLex, cmpOn, hxm, hym, hlt]
      rfl

theorem cell_le_of_posOf_eq {a b : Cell} (h : posOf a = posOf b) : Cell.le a b = true := by
  simp only [posOf, Prod.mk.injEq] at h
  obtain ⟨_, hmd, hps, hpe, hev, hprev⟩ := h
  have : Cell.cmp a b = Cell.cmp a a := by
    simp only [Cell.cmp, compareLex, cmpOn, hmd, hps, hpe, hev, hprev]
  unfold Cell.le
  rw [this, ReflCmp.compare_self (cmp := Cell.cmp)]
  rfl

open Classical in
/-- **the greedy matching of `currencySpec` succeeds on the model's output** for a sorted triangle with
canonical metadata, distinct coordinates and distinct-key value dicts — also when cells of different
currency slices land on one position (twin slices): the stable sort keeps their relative order -/
theorem matchAll_convert_sorted {t out : List Cell} {target : String} {rates : List (String × Num)}
    (hkn : ∀ c ∈ t, KN c.values) (hs : t.Pairwise (fun a b => Cell.le a b = true))
    (hc : ∀ c ∈ t, c.md.Canon) (hn : (t.map Cell.coord).Nodup)
    (h : convertCurrency t target rates = .ok out) :
    matchAll (convRel moneyFields target (rates.map fun p => (p.1, p.2.toRat))) t out = true := by
  unfold convertCurrency at h
  cases hm : (Triangle.slices t).mapM (convertSlice target rates) with
  | error e => simp [hm, bind, Except.bind] at h
  | ok parts =>
    simp only [hm, bind, Except.bind] at h
    have hF : Forall2 (Converted target rates) t parts.flatten := by
      have : Forall2 (Converted target rates) ((Triangle.slices t).flatMap (·.2)) parts.flatten := by
        rw [List.flatMap_def]
        apply Forall2.flatten
        apply Forall2.map_left
        exact (mapM_ok_forall2 hm).imp fun sl part hsl hp => convertSlice_ok hsl hp
      rwa [slices_flatMap_eq hs hc hn] at this
    have hR : Forall2 (fun c o => convRel moneyFields target (rates.map fun p => (p.1, p.2.toRat)) c o = true)
        t parts.flatten := hF.imp fun c o hcm hco => convRel_of_converted (hkn c hcm) hco
    have hout : out = parts.flatten.mergeSort Cell.le := by
      unfold Triangle.ofCells at h
      split at h
      · cases h; rfl
      · cases h
    subst hout
    refine matchAll_of_aligned _ (posAfter target) posOf (fun c o hr => convRel_pos hr) t _ ?_ ?_
    · rw [(List.mergeSort_perm _ _).length_eq, hR.length_eq]
    · intro p
      rw [mergeSort_filter_stable (le := Cell.le) (fun a b c => leOf_trans (cmp := Cell.cmp) a b c)
        (fun a b => leOf_total (cmp := Cell.cmp) a b) _ _
        (fun a b ha hb => cell_le_of_posOf_eq (by
          simp only [decide_eq_true_eq] at ha hb; rw [ha, hb]))]
      exact hR.filter fun c o hr => by rw [convRel_pos hr]

end Bermuda.Units
