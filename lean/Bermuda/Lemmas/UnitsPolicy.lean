/-
Lemmas for `policyYear_conserves` (C18): numeric view of the `defaultdict(float)` accumulator of
`_accident_quarter_to_policy_year_slice`, and the sums it computes.
-/
import Bermuda.Lemmas.Units
import Bermuda.Lemmas.Order
namespace Bermuda.Units
open Bermuda Bermuda.Spec.C18 Std

/-! ### numeric view of an accumulator dict -/

def look (d : Dict Val) (f : String) : Option Val := (d.find? (·.1 == f)).map (·.2)

def lcomp (d : Dict Val) (f : String) (i : Nat) : Rat := ((look d f).map (comp · i)).getD 0

/-- signature of a float-valued accumulator entry: `none` scalar, `some n` array of n numbers -/
def sg : Val → Option Nat
  | .arr _ _ d => some d.length
  | _ => none

/-- signature of an input value as it enters the accumulation (`mulF` turns 0-d arrays into scalars) -/
def sgIn : Val → Option Nat
  | .arr _ [] [_] => none
  | .arr _ _ d => some d.length
  | _ => none

theorem comp_mulF {v x : Val} {w : Rat} (h : Val.mulF v w = .ok x) (i : Nat) :
    comp x i = comp v i * w ∧ sg x = sgIn v := by
  unfold Val.mulF at h
  split at h <;> cases h
  · cases i <;> simp [comp, vdata, Val.data, sg, sgIn]
  · cases i <;> simp [comp, vdata, Val.data, sg, sgIn]
  · cases i <;> simp [comp, vdata, Val.data, sg, sgIn]
  · rename_i isInt sh d hne
    refine ⟨?_, ?_⟩
    · simp only [comp, vdata, Val.data, Option.getD_some, List.getElem?_map]
      cases d[i]? <;> simp
    · cases sh with
      | nil =>
        cases d with
        | nil => simp [sg, sgIn]
        | cons x rest =>
          cases rest with
          | nil => exact (hne x rfl rfl).elim
          | cons y rest' => simp [sg, sgIn]
      | cons n sh' => simp [sg, sgIn]

theorem getElem?_zipWith_add (d d' : List Rat) (h : d.length = d'.length) (i : Nat) :
    ((List.zipWith (· + ·) d d')[i]?).getD 0 = (d[i]?).getD 0 + (d'[i]?).getD 0 := by
  induction d generalizing d' i with
  | nil => cases d' <;> simp at h ⊢
  | cons a rest ih =>
    cases d' with
    | nil => simp at h
    | cons b rest' =>
      cases i with
      | zero => simp
      | succ k => simpa using ih rest' (by simpa using h) k

theorem comp_addF {a b s : Val} (h : Val.addF a b = .ok s) (hs : sg a = sg b) (i : Nat) :
    comp s i = comp a i + comp b i ∧ sg s = sg a := by
  unfold Val.addF at h
  split at h
  · cases h; cases i <;> simp [comp, vdata, Val.data, sg]
  · simp [sg] at hs
  · simp [sg] at hs
  · rename_i i1 sh d i2 sh' d'
    split at h
    · cases h
      simp only [sg, Option.some.injEq] at hs
      refine ⟨?_, by simp [sg, hs]⟩
      simpa [comp, vdata, Val.data] using getElem?_zipWith_add d d' hs i
    · cases h
  · cases h

theorem comp_addF_zero {b s : Val} (h : Val.addF (.flt 0) b = .ok s) (i : Nat) :
    comp s i = comp b i ∧ sg s = sg b := by
  cases b with
  | none => simp [Val.addF] at h
  | int k => simp [Val.addF] at h
  | flt y =>
    simp only [Val.addF, Except.ok.injEq] at h; subst h
    cases i <;> simp [comp, vdata, Val.data, sg]
  | arr isInt sh d =>
    simp only [Val.addF, Except.ok.injEq] at h; subst h
    refine ⟨?_, by simp [sg]⟩
    simp only [comp, vdata, Val.data, Option.getD_some, List.getElem?_map]
    cases d[i]? <;> simp

theorem look_cons (p : String × Val) (rest : Dict Val) (g : String) :
    look (p :: rest) g = if p.1 == g then some p.2 else look rest g := by
  unfold look
  rw [List.find?_cons]
  cases h : p.1 == g <;> simp

theorem look_map_replace (acc : Dict Val) (f g : String) (s : Val) :
    look (acc.map fun p => if p.1 == f then (p.1, s) else p) g =
      if g == f then (look acc f).map (fun _ => s) else look acc g := by
  induction acc with
  | nil => simp [look]
  | cons p rest ih =>
    rw [List.map_cons, look_cons, look_cons, look_cons, ih]
    have hq : (if (p.1 == f) = true then (p.1, s) else p).1 = p.1 := by split <;> rfl
    rw [hq]
    by_cases hpg : p.1 = g
    · subst hpg
      by_cases hpf : p.1 = f
      · simp [hpf]
      · simp [hpf]
    · have hpg' : (p.1 == g) = false := by simpa using hpg
      rw [hpg']
      by_cases hgf : g = f
      · subst hgf; simp [hpg']
      · simp [hgf]

theorem look_append_new (acc : Dict Val) (f g : String) (s : Val) (hn : look acc f = none) :
    look (acc ++ [(f, s)]) g = if g == f then some s else look acc g := by
  unfold look at *
  rw [List.find?_append]
  by_cases hgf : g == f
  · have : g = f := by simpa using hgf
    subst this
    have : acc.find? (·.1 == g) = none := by simpa using hn
    simp [this]
  · have hfg : (f == g) = false := by
      have : ¬ g = f := by simpa using hgf
      simp; exact fun h => this h.symm
    simp only [hgf]
    cases h : acc.find? (·.1 == g) with
    | some p => simp
    | none => simp [hfg]

def SigInv (fsig : String → Option Nat) (acc : Dict Val) : Prop :=
  ∀ g cur, look acc g = some cur → sg cur = fsig g

theorem accumulate_spec {fsig : String → Option Nat} {acc acc' : Dict Val} {f : String} {v : Val}
    {share : Rat} (hinv : SigInv fsig acc) (hv : sgIn v = fsig f)
    (h : accumulate acc f v share = .ok acc') :
    SigInv fsig acc' ∧
    ∀ g i, lcomp acc' g i = lcomp acc g i + (if g == f then comp v i * share else 0) := by
  unfold accumulate at h
  cases hx : Val.mulF v share with
  | error e => simp [hx, bind, Except.bind] at h
  | ok x =>
    simp only [hx, bind, Except.bind] at h
    have hxs : sg x = fsig f := by rw [(comp_mulF hx 0).2, hv]
    split at h
    · rename_i k cur hfind
      have hlook : look acc f = some cur := by simp [look, hfind]
      cases hs : Val.addF cur x with
      | error e => simp [hs] at h
      | ok s =>
        simp only [hs, pure, Except.pure, Except.ok.injEq] at h
        subst h
        have hcur : sg cur = sg x := by rw [hinv f cur hlook, hxs]
        constructor
        · intro g c hg
          rw [look_map_replace] at hg
          split at hg
          · rename_i hgf
            have : g = f := by simpa using hgf
            subst this
            simp [hlook] at hg; subst hg
            rw [(comp_addF hs hcur 0).2]; exact hinv g cur hlook
          · exact hinv g c hg
        · intro g i
          unfold lcomp
          rw [look_map_replace]
          by_cases hgf : g == f
          · have : g = f := by simpa using hgf
            subst this
            simp only [hgf, if_true, hlook, Option.map_some, Option.getD_some]
            rw [(comp_addF hs hcur i).1, (comp_mulF hx i).1]
          · simp [hgf]
    · rename_i hfind
      have hlook : look acc f = none := by simp [look, hfind]
      cases hs : Val.addF (.flt 0) x with
      | error e => simp [hs] at h
      | ok s =>
        simp only [hs, pure, Except.pure, Except.ok.injEq] at h
        subst h
        constructor
        · intro g c hg
          rw [look_append_new _ _ _ _ hlook] at hg
          split at hg
          · rename_i hgf
            have : g = f := by simpa using hgf
            subst this
            simp at hg; subst hg
            rw [(comp_addF_zero hs 0).2, hxs]
          · exact hinv g c hg
        · intro g i
          unfold lcomp
          rw [look_append_new _ _ _ _ hlook]
          by_cases hgf : g == f
          · have : g = f := by simpa using hgf
            subst this
            simp only [hgf, if_true, hlook, Option.map_some, Option.getD_some, Option.map_none, Option.getD_none]
            rw [(comp_addF_zero hs i).1, (comp_mulF hx i).1]; ring
          · simp [hgf]



def KN (d : Dict Val) : Prop := (d.map (·.1)).Nodup

theorem look_none_of_not_mem {d : Dict Val} {g : String} (h : g ∉ d.map (·.1)) : look d g = none := by
  induction d with
  | nil => simp [look]
  | cons p rest ih =>
    rw [look_cons]
    have h1 : ¬ p.1 = g := fun e => h (by simp [e])
    have h2 : g ∉ rest.map (·.1) := fun e => h (by simp at e ⊢; exact .inr e)
    simp [h1, ih h2]

theorem mem_keys_of_look {d : Dict Val} {g : String} {v : Val} (h : look d g = some v) : g ∈ d.map (·.1) := by
  by_contra hc
  rw [look_none_of_not_mem hc] at h; cases h

theorem accumulate_kn {acc acc' : Dict Val} {f : String} {v : Val} {share : Rat} (hk : KN acc)
    (h : accumulate acc f v share = .ok acc') : KN acc' := by
  unfold accumulate at h
  cases hx : Val.mulF v share with
  | error e => simp [hx, bind, Except.bind] at h
  | ok x =>
    simp only [hx, bind, Except.bind] at h
    split at h
    · rename_i k cur hfind
      cases hs : Val.addF cur x with
      | error e => simp [hs] at h
      | ok s =>
        simp only [hs, pure, Except.pure, Except.ok.injEq] at h
        subst h
        unfold KN at *
        have : (acc.map fun p => if p.1 == f then (p.1, s) else p).map (·.1) = acc.map (·.1) := by
          rw [List.map_map]; apply List.map_congr_left; intro p _; simp only [Function.comp]; split <;> rfl
        rw [this]; exact hk
    · rename_i hfind
      cases hs : Val.addF (.flt 0) x with
      | error e => simp [hs] at h
      | ok s =>
        simp only [hs, pure, Except.pure, Except.ok.injEq] at h
        subst h
        unfold KN at *
        rw [List.map_append, List.nodup_append]
        refine ⟨hk, by simp, ?_⟩
        intro a ha b hb
        simp at hb; subst hb
        intro hab; subst hab
        obtain ⟨p, hp, hpa⟩ := List.mem_map.mp ha
        have := List.find?_eq_none.mp hfind p hp
        simp [hpa] at this

/-- filter-sum view of a dict with distinct keys equals the `look` view -/
theorem dsum_eq_lcomp {d : Dict Val} (hk : KN d) (g : String) (i : Nat) :
    ((d.filter (·.1 == g)).map fun kv => comp kv.2 i).sum = lcomp d g i := by
  induction d with
  | nil => simp [lcomp, look]
  | cons p rest ih =>
    unfold KN at hk
    rw [List.map_cons, List.nodup_cons] at hk
    unfold lcomp
    rw [look_cons, List.filter_cons]
    by_cases hp : p.1 = g
    · subst hp
      have hn := look_none_of_not_mem hk.1
      have := ih hk.2
      unfold lcomp at this
      rw [hn] at this
      simp only [beq_self_eq_true, if_true, List.map_cons, List.sum_cons, this]
      simp
    · have : (p.1 == g) = false := by simpa using hp
      simp only [this]
      exact ih hk.2

theorem foldValues_spec {fsig : String → Option Nat} {share : Rat} :
    ∀ (vals : Dict Val) {acc acc' : Dict Val}, SigInv fsig acc → KN acc →
      (∀ kv ∈ vals, sgIn kv.2 = fsig kv.1) →
      vals.foldlM (fun a kv => accumulate a kv.1 kv.2 share) acc = .ok acc' →
      SigInv fsig acc' ∧ KN acc' ∧
      ∀ g i, lcomp acc' g i = lcomp acc g i +
        ((vals.filter (·.1 == g)).map fun kv => comp kv.2 i).sum * share := by
  intro vals
  induction vals with
  | nil =>
    intro acc acc' hi hk _ h
    simp [List.foldlM_nil, pure, Except.pure] at h; subst h
    exact ⟨hi, hk, by simp⟩
  | cons kv rest ih =>
    intro acc acc' hi hk hv h
    rw [List.foldlM_cons] at h
    cases ha : accumulate acc kv.1 kv.2 share with
    | error e => simp [ha, bind, Except.bind] at h
    | ok acc1 =>
      simp only [ha, bind, Except.bind] at h
      obtain ⟨hi1, hc1⟩ := accumulate_spec hi (hv kv (by simp)) ha
      have hk1 := accumulate_kn hk ha
      obtain ⟨hi2, hk2, hc2⟩ := ih hi1 hk1 (fun kv' h' => hv kv' (by simp [h'])) h
      refine ⟨hi2, hk2, ?_⟩
      intro g i
      rw [hc2, hc1, List.filter_cons]
      by_cases hg : kv.1 = g
      · subst hg; simp; ring
      · have h1 : (kv.1 == g) = false := by simpa using hg
        have h2 : (g == kv.1) = false := by simp; exact fun e => hg e.symm
        simp [h1, h2]

theorem foldCells_spec {fsig : String → Option Nat}
    {shares : List ((Date × Date) × List ((Date × Date) × Rat))} {py : Date × Date} :
    ∀ (cells : List Cell) {acc acc' : Dict Val}, SigInv fsig acc → KN acc →
      (∀ c ∈ cells, ∀ kv ∈ c.values, sgIn kv.2 = fsig kv.1) →
      cells.foldlM (stepCell shares py) acc = .ok acc' →
      SigInv fsig acc' ∧ KN acc' ∧
      ∀ g i, lcomp acc' g i = lcomp acc g i +
        (cells.map fun c => cellField c g i * (shareOf shares py c).getD 0).sum := by
  intro cells
  induction cells with
  | nil =>
    intro acc acc' hi hk _ h
    simp [List.foldlM_nil, pure, Except.pure] at h; subst h
    exact ⟨hi, hk, by simp⟩
  | cons c rest ih =>
    intro acc acc' hi hk hv h
    rw [List.foldlM_cons] at h
    cases ha : stepCell shares py acc c with
    | error e => simp [ha, bind, Except.bind] at h
    | ok acc1 =>
      simp only [ha, bind, Except.bind] at h
      have hstep : SigInv fsig acc1 ∧ KN acc1 ∧ ∀ g i, lcomp acc1 g i = lcomp acc g i +
          cellField c g i * (shareOf shares py c).getD 0 := by
        unfold stepCell at ha
        cases hs : shareOf shares py c with
        | none =>
          simp only [hs, pure, Except.pure, Except.ok.injEq] at ha; subst ha
          exact ⟨hi, hk, by simp⟩
        | some share =>
          simp only [hs] at ha
          obtain ⟨a, b, c'⟩ := foldValues_spec c.values hi hk (hv c (by simp)) ha
          exact ⟨a, b, fun g i => by rw [c' g i]; simp [cellField]⟩
      obtain ⟨hi1, hk1, hc1⟩ := hstep
      obtain ⟨hi2, hk2, hc2⟩ := ih hi1 hk1 (fun c' h' => hv c' (by simp [h'])) h
      refine ⟨hi2, hk2, fun g i => ?_⟩
      rw [hc2, hc1, List.map_cons, List.sum_cons]; ring



theorem sum_map_perm {α} {l l' : List α} (h : l.Perm l') (φ : α → Rat) :
    (l.map φ).sum = (l'.map φ).sum := by
  induction h with
  | nil => rfl
  | cons x _ ih => simp [ih]
  | swap x y l => simp only [List.map_cons, List.sum_cons]; ring
  | trans _ _ ih1 ih2 => exact ih1.trans ih2

theorem total_perm {l l' : List Cell} (h : l.Perm l') (f : String) (i : Nat) :
    total l f i = total l' f i := sum_map_perm h _

theorem date_le_antisymm {a b : Date} (h1 : a ≤ b) (h2 : b ≤ a) : a = b := by
  have h1' : Date.cmp a b ≠ .gt := h1
  have h2' : Date.cmp b a ≠ .gt := h2
  rw [OrientedCmp.eq_swap (cmp := Date.cmp)] at h2'
  apply Date.cmp_eq_eq.mp
  cases h : Date.cmp a b <;> simp_all

theorem date_le_refl (a : Date) : a ≤ a := by
  show Date.cmp a a ≠ .gt
  rw [Date.cmp_eq_eq.mpr rfl]; simp

theorem clip_eval_perm {t r : List Cell} {ev : Date}
    (h : Triangle.clip t { minEval := some ev, maxEval := some ev } = .ok r) :
    r.Perm (t.filter (·.ev == ev)) := by
  unfold Triangle.clip at h
  have hp := ofCells_perm' h
  refine hp.trans (List.Perm.of_eq ?_)
  apply List.filter_congr
  intro c _
  simp only [ClipArgs.keep, Bool.and_true]
  by_cases hc : c.ev = ev
  · subst hc; simp [date_le_refl]
  · have : (c.ev == ev) = false := by simpa using hc
    rw [this]
    by_contra hne
    simp only [Bool.not_eq_false, Bool.and_eq_true, decide_eq_true_eq] at hne
    exact hc (date_le_antisymm hne.2 hne.1)

theorem policyCell_spec {fsig : String → Option Nat} {sl : List Cell}
    {shares : List ((Date × Date) × List ((Date × Date) × Rat))} {py : Date × Date} {ev : Date}
    {oc : Option Cell} (hu : ∀ c ∈ sl, ∀ kv ∈ c.values, sgIn kv.2 = fsig kv.1)
    (h : policyCell sl shares py ev = .ok oc) :
    (∀ o ∈ oc, o.ev = ev ∧ ∃ c ∈ sl, o.md = c.md) ∧
    ∀ g i, total oc.toList g i =
      ((sl.filter (·.ev == ev)).map fun c => cellField c g i * (shareOf shares py c).getD 0).sum := by
  unfold policyCell at h
  cases h1 : Triangle.ofCells sl with
  | error e => simp [h1, bind, Except.bind] at h
  | ok all =>
    simp only [h1, bind, Except.bind] at h
    cases h2 : Triangle.clip all { minEval := some ev, maxEval := some ev } with
    | error e => simp [h2] at h
    | ok aq =>
      simp only [h2] at h
      cases h3 : aq.foldlM (stepCell shares py) [] with
      | error e => simp [h3] at h
      | ok vals =>
        simp only [h3] at h
        have hperm : aq.Perm (sl.filter (·.ev == ev)) :=
          (clip_eval_perm h2).trans ((ofCells_perm' h1).filter _)
        have haq : ∀ c ∈ aq, c ∈ sl := fun c hc => (List.mem_filter.mp (hperm.mem_iff.mp hc)).1
        obtain ⟨_, hk, hc⟩ := foldCells_spec (fsig := fsig) aq (acc := [])
          (by intro g cur hg; simp [look] at hg) (by simp [KN])
          (fun c hc => hu c (haq c hc)) h3
        have hsum : ∀ g i, lcomp vals g i =
            ((sl.filter (·.ev == ev)).map fun c => cellField c g i * (shareOf shares py c).getD 0).sum := by
          intro g i
          rw [hc g i, sum_map_perm hperm]; simp [lcomp, look]
        split at h
        · rename_i hemp
          simp only [pure, Except.pure, Except.ok.injEq] at h; subst h
          have : vals = [] := by simpa using hemp
          subst this
          refine ⟨by simp, fun g i => ?_⟩
          rw [← hsum g i]; simp [total, lcomp, look]
        · rename_i hne
          split at h
          · rename_i last hlast
            cases hm : Cell.mk? { kind := .cumulative, ps := py.1, pe := py.2, ev := ev, values := vals, md := last.md } with
            | error e => simp [hm] at h
            | ok c =>
              simp only [hm, pure, Except.pure, Except.ok.injEq] at h; subst h
              obtain ⟨rfl, _⟩ := mk?_ok hm
              refine ⟨?_, fun g i => ?_⟩
              · intro o ho
                simp at ho; subst ho
                exact ⟨rfl, last, haq last (List.mem_of_getLast? hlast), rfl⟩
              · rw [← hsum g i, ← dsum_eq_lcomp hk]
                simp [total, cellField]
          · rename_i hlast
            have : aq = [] := by simpa using hlast
            subst this
            simp [List.foldlM_nil, pure, Except.pure] at h3
            subst h3
            simp at hne


end Bermuda.Units
