/-
Lemmas for `policyYear_conserves` (C18): numeric view of the `defaultdict(float)` accumulator of
`_accident_quarter_to_policy_year_slice`, and the sums it computes.
-/
import Bermuda.Lemmas.Units
import Bermuda.Lemmas.Order
namespace Bermuda.Units
open Bermuda Bermuda.Spec.C18 Std

/-! ### numeric view of an accumulator dict -/

def look (d : Dict Val) (f : String) : Option Val := (d.find? (·.1 == f)).map (·.2)

def lcomp (d : Dict Val) (f : String) (i : Nat) : Rat := ((look d f).map (comp · i)).getD 0

/-- signature of a float-valued accumulator entry: `none` scalar, `some n` array of n numbers -/
def sg : Val → Option Nat
  | .arr _ _ d => some d.length
  | _ => none

/-- signature of an input value as it enters the accumulation (`mulF` turns 0-d arrays into scalars) -/
def sgIn : Val → Option Nat
  | .arr _ [] [_] => none
  | .arr _ _ d => some d.length
  | _ => none

theorem comp_mulF {v x : Val} {w : Rat} (h : Val.mulF v w = .ok x) (i : Nat) :
    comp x i = comp v i * w ∧ sg x = sgIn v := by
  unfold Val.mulF at h
  split at h <;> cases h
  · cases i <;> simp [comp, vdata, Val.data, sg, sgIn]
  · cases i <;> simp [comp, vdata, Val.data, sg, sgIn]
  · cases i <;> simp [comp, vdata, Val.data, sg, sgIn]
  · rename_i isInt sh d hne
    refine ⟨?_, ?_⟩
    · simp only [comp, vdata, Val.data, Option.getD_some, List.getElem?_map]
      cases d[i]? <;> simp
    · cases sh with
      | nil =>
        cases d with
        | nil => simp [sg, sgIn]
        | cons x rest =>
          cases rest with
          | nil => exact (hne x rfl rfl).elim
          | cons y rest' => simp [sg, sgIn]
      | cons n sh' => simp [sg, sgIn]

theorem getElem?_zipWith_add (d d' : List Rat) (h : d.length = d'.length) (i : Nat) :
    ((List.zipWith (· + ·) d d')[i]?).getD 0 = (d[i]?).getD 0 + (d'[i]?).getD 0 := by
  induction d generalizing d' i with
  | nil => cases d' <;> simp at h ⊢
  | cons a rest ih =>
    cases d' with
    | nil => simp at h
    | cons b rest' =>
      cases i with
      | zero => simp
      | succ k => simpa using ih rest' (by simpa using h) k

theorem comp_addF {a b s : Val} (h : Val.addF a b = .ok s) (hs : sg a = sg b) (i : Nat) :
    comp s i = comp a i + comp b i ∧ sg s = sg a := by
  unfold Val.addF at h
  split at h
  · cases h; cases i <;> simp [comp, vdata, Val.data, sg]
  · simp [sg] at hs
  · simp [sg] at hs
  · rename_i i1 sh d i2 sh' d'
    split at h
    · cases h
      simp only [sg, Option.some.injEq] at hs
      refine ⟨?_, by simp [sg, hs]⟩
      simpa [comp, vdata, Val.data] using getElem?_zipWith_add d d' hs i
    · cases h
  · cases h

theorem comp_addF_zero {b s : Val} (h : Val.addF (.flt 0) b = .ok s) (i : Nat) :
    comp s i = comp b i ∧ sg s = sg b := by
  cases b with
  | none => simp [Val.addF] at h
  | int k => simp [Val.addF] at h
  | flt y =>
    simp only [Val.addF, Except.ok.injEq] at h; subst h
    cases i <;> simp [comp, vdata, Val.data, sg]
  | arr isInt sh d =>
    simp only [Val.addF, Except.ok.injEq] at h; subst h
    refine ⟨?_, by simp [sg]⟩
    simp only [comp, vdata, Val.data, Option.getD_some, List.getElem?_map]
    cases d[i]? <;> simp

theorem look_cons (p : String × Val) (rest : Dict Val) (g : String) :
    look (p :: rest) g = if p.1 == g then some p.2 else look rest g := by
  unfold look
  rw [List.find?_cons]
  cases h : p.1 == g <;> simp

theorem look_map_replace (acc : Dict Val) (f g : String) (s : Val) :
    look (acc.map fun p => if p.1 == f then (p.1, s) else p) g =
      if g == f then (look acc f).map (fun _ => s) else look acc g := by
  induction acc with
  | nil => simp [look]
  | cons p rest ih =>
    rw [List.map_cons, look_cons, look_cons, look_cons, ih]
    have hq : (if (p.1 == f) = true then (p.1, s) else p).1 = p.1 := by split <;> rfl
    rw [hq]
    by_cases hpg : p.1 = g
    · subst hpg
      by_cases hpf : p.1 = f
      · simp [hpf]
      · simp [hpf]
    · have hpg' : (p.1 == g) = false := by simpa using hpg
      rw [hpg']
      by_cases hgf : g = f
      · subst hgf; simp [hpg']
      · simp [hgf]

theorem look_append_new (acc : Dict Val) (f g : String) (s : Val) (hn : look acc f = none) :
    look (acc ++ [(f, s)]) g = if g == f then some s else look acc g := by
  unfold look at *
  rw [List.find?_append]
  by_cases hgf : g == f
  · have : g = f := by simpa using hgf
    subst this
    have : acc.find? (·.1 == g) = none := by simpa using hn
    simp [this]
  · have hfg : (f == g) = false := by
      have : ¬ g = f := by simpa using hgf
      simp; exact fun h => this h.symm
    simp only [hgf]
    cases h : acc.find? (·.1 == g) with
    | some p => simp
    | none => simp [hfg]

def SigInv (fsig : String → Option Nat) (acc : Dict Val) : Prop :=
  ∀ g cur, look acc g = some cur → sg cur = fsig g

theorem accumulate_spec {fsig : String → Option Nat} {acc acc' : Dict Val} {f : String} {v : Val}
    {share : Rat} (hinv : SigInv fsig acc) (hv : sgIn v = fsig f)
    (h : accumulate acc f v share = .ok acc') :
    SigInv fsig acc' ∧
    ∀ g i, lcomp acc' g i = lcomp acc g i + (if g == f then comp v i * share else 0) := by
  unfold accumulate at h
  cases hx : Val.mulF v share with
  | error e => simp [hx, bind, Except.bind] at h
  | ok x =>
    simp only [hx, bind, Except.bind] at h
    have hxs : sg x = fsig f := by rw [(comp_mulF hx 0).2, hv]
    split at h
    · rename_i k cur hfind
      have hlook : look acc f = some cur := by simp [look, hfind]
      cases hs : Val.addF cur x with
      | error e => simp [hs] at h
      | ok s =>
        simp only [hs, pure, Except.pure, Except.ok.injEq] at h
        subst h
        have hcur : sg cur = sg x := by rw [hinv f cur hlook, hxs]
        constructor
        · intro g c hg
          rw [look_map_replace] at hg
          split at hg
          · rename_i hgf
            have : g = f := by simpa using hgf
            subst this
            simp [hlook] at hg; subst hg
            rw [(comp_addF hs hcur 0).2]; exact hinv g cur hlook
          · exact hinv g c hg
        · intro g i
          unfold lcomp
          rw [look_map_replace]
          by_cases hgf : g == f
          · have : g = f := by simpa using hgf
            subst this
            simp only [hgf, if_true, hlook, Option.map_some, Option.getD_some]
            rw [(comp_addF hs hcur i).1, (comp_mulF hx i).1]
          · simp [hgf]
    · rename_i hfind
      have hlook : look acc f = none := by simp [look, hfind]
      cases hs : Val.addF (.flt 0) x with
      | error e => simp [hs] at h
      | ok s =>
        simp only [hs, pure, Except.pure, Except.ok.injEq] at h
        subst h
        constructor
        · intro g c hg
          rw [look_append_new _ _ _ _ hlook] at hg
          split at hg
          · rename_i hgf
            have : g = f := by simpa using hgf
            subst this
            simp at hg; subst hg
            rw [(comp_addF_zero hs 0).2, hxs]
          · exact hinv g c hg
        · intro g i
          unfold lcomp
          rw [look_append_new _ _ _ _ hlook]
          by_cases hgf : g == f
          · have : g = f := by simpa using hgf
            subst this
            simp only [hgf, if_true, hlook, Option.map_some, Option.getD_some, Option.map_none, Option.getD_none]
            rw [(comp_addF_zero hs i).1, (comp_mulF hx i).1]; ring
          · simp [hgf]



def KN (d : Dict Val) : Prop := (d.map (·.1)).Nodup

theorem look_none_of_not_mem {d : Dict Val} {g : String} (h : g ∉ d.map (·.1)) : look d g = none := by
  induction d with
  | nil => simp [look]
  | cons p rest ih =>
    rw [look_cons]
    have h1 : ¬ p.1 = g := fun e => h (by simp [e])
    have h2 : g ∉ rest.map (·.1) := fun e => h (by simp at e ⊢; exact .inr e)
    simp [h1, ih h2]

theorem mem_keys_of_look {d : Dict Val} {g : String} {v : Val} (h : look d g = some v) : g ∈ d.map (·.1) := by
  by_contra hc
  rw [look_none_of_not_mem hc] at h; cases h

theorem accumulate_kn {acc acc' : Dict Val} {f : String} {v : Val} {share : Rat} (hk : KN acc)
    (h : accumulate acc f v share = .ok acc') : KN acc' := by
  unfold accumulate at h
  cases hx : Val.mulF v share with
  | error e => simp [hx, bind, Except.bind] at h
  | ok x =>
    simp only [hx, bind, Except.bind] at h
    split at h
    · rename_i k cur hfind
      cases hs : Val.addF cur x with
      | error e => simp [hs] at h
      | ok s =>
        simp only [hs, pure, Except.pure, Except.ok.injEq] at h
        subst h
        unfold KN at *
        have : (acc.map fun p => if p.1 == f then (p.1, s) else p).map (·.1) = acc.map (·.1) := by
          rw [List.map_map]; apply List.map_congr_left; intro p _; simp only [Function.comp]; split <;> rfl
        rw [this]; exact hk
    · rename_i hfind
      cases hs : Val.addF (.flt 0) x with
      | error e => simp [hs] at h
      | ok s =>
        simp only [hs, pure, Except.pure, Except.ok.injEq] at h
        subst h
        unfold KN at *
        rw [List.map_append, List.nodup_append]
        refine ⟨hk, by simp, ?_⟩
        intro a ha b hb
        simp at hb; subst hb
        intro hab; subst hab
        obtain ⟨p, hp, hpa⟩ := List.mem_map.mp ha
        have := List.find?_eq_none.mp hfind p hp
        simp [hpa] at this

/-- filter-sum view of a dict with distinct keys equals the `look` view -/
theorem dsum_eq_lcomp {d : Dict Val} (hk : KN d) (g : String) (i : Nat) :
    ((d.filter (·.1 == g)).map fun kv => comp kv.2 i).sum = lcomp d g i := by
  induction d with
  | nil => simp [lcomp, look]
  | cons p rest ih =>
    unfold KN at hk
    rw [List.map_cons, List.nodup_cons] at hk
    unfold lcomp
    rw [look_cons, List.filter_cons]
    by_cases hp : p.1 = g
    · subst hp
      have hn := look_none_of_not_mem hk.1
      have := ih hk.2
      unfold lcomp at this
      rw [hn] at this
      simp only [beq_self_eq_true, if_true, List.map_cons, List.sum_cons, this]
      simp
    · have : (p.1 == g) = false := by simpa using hp
      simp only [this]
      exact ih hk.2

theorem foldValues_spec {fsig : String → Option Nat} {share : Rat} :
    ∀ (vals : Dict Val) {acc acc' : Dict Val}, SigInv fsig acc → KN acc →
      (∀ kv ∈ vals, sgIn kv.2 = fsig kv.1) →
      vals.foldlM (fun a kv => accumulate a kv.1 kv.2 share) acc = .ok acc' →
      SigInv fsig acc' ∧ KN acc' ∧
      ∀ g i, lcomp acc' g i = lcomp acc g i +
        ((vals.filter (·.1 == g)).map fun kv => comp kv.2 i).sum * share := by
  intro vals
  induction vals with
  | nil =>
    intro acc acc' hi hk _ h
    simp [List.foldlM_nil, pure, Except.pure] at h; subst h
    exact ⟨hi, hk, by simp⟩
  | cons kv rest ih =>
    intro acc acc' hi hk hv h
    rw [List.foldlM_cons] at h
    cases ha : accumulate acc kv.1 kv.2 share with
    | error e => simp [ha, bind, Except.bind] at h
    | ok acc1 =>
      simp only [ha, bind, Except.bind] at h
      obtain ⟨hi1, hc1⟩ := accumulate_spec hi (hv kv (by simp)) ha
      have hk1 := accumulate_kn hk ha
      obtain ⟨hi2, hk2, hc2⟩ := ih hi1 hk1 (fun kv' h' => hv kv' (by simp [h'])) h
      refine ⟨hi2, hk2, ?_⟩
      intro g i
      rw [hc2, hc1, List.filter_cons]
      by_cases hg : kv.1 = g
      · subst hg; simp; ring
      · have h1 : (kv.1 == g) = false := by simpa using hg
        have h2 : (g == kv.1) = false := by simp; exact fun e => hg e.symm
        simp [h1, h2]

theorem foldCells_spec {fsig : String → Option Nat}
    {shares : List ((Date × Date) × List ((Date × Date) × Rat))} {py : Date × Date} :
    ∀ (cells : List Cell) {acc acc' : Dict Val}, SigInv fsig acc → KN acc →
      (∀ c ∈ cells, ∀ kv ∈ c.values, sgIn kv.2 = fsig kv.1) →
      cells.foldlM (stepCell shares py) acc = .ok acc' →
      SigInv fsig acc' ∧ KN acc' ∧
      ∀ g i, lcomp acc' g i = lcomp acc g i +
        (cells.map fun c => cellField c g i * (shareOf shares py c).getD 0).sum := by
  intro cells
  induction cells with
  | nil =>
    intro acc acc' hi hk _ h
    simp [List.foldlM_nil, pure, Except.pure] at h; subst h
    exact ⟨hi, hk, by simp⟩
  | cons c rest ih =>
    intro acc acc' hi hk hv h
    rw [List.foldlM_cons] at h
    cases ha : stepCell shares py acc c with
    | error e => simp [ha, bind, Except.bind] at h
    | ok acc1 =>
      simp only [ha, bind, Except.bind] at h
      have hstep : SigInv fsig acc1 ∧ KN acc1 ∧ ∀ g i, lcomp acc1 g i = lcomp acc g i +
          cellField c g i * (shareOf shares py c).getD 0 := by
        unfold stepCell at ha
        cases hs : shareOf shares py c with
        | none =>
          simp only [hs, pure, Except.pure, Except.ok.injEq] at ha; subst ha
          exact ⟨hi, hk, by simp⟩
        | some share =>
          simp only [hs] at ha
          obtain ⟨a, b, c'⟩ := foldValues_spec c.values hi hk (hv c (by simp)) ha
          exact ⟨a, b, fun g i => by rw [c' g i]; simp [cellField]⟩
      obtain ⟨hi1, hk1, hc1⟩ := hstep
      obtain ⟨hi2, hk2, hc2⟩ := ih hi1 hk1 (fun c' h' => hv c' (by simp [h'])) h
      refine ⟨hi2, hk2, fun g i => ?_⟩
      rw [hc2, hc1, List.map_cons, List.sum_cons]; ring



theorem sum_map_perm {α} {l l' : List α} (h : l.Perm l') (φ : α → Rat) :
    (l.map φ).sum = (l'.map φ).sum := by
  induction h with
  | nil => rfl
  | cons x _ ih => simp [ih]
  | swap x y l => simp only [List.map_cons, List.sum_cons]; ring
  | trans _ _ ih1 ih2 => exact ih1.trans ih2

theorem total_perm {l l' : List Cell} (h : l.Perm l') (f : String) (i : Nat) :
    total l f i = total l' f i := sum_map_perm h _

theorem date_le_antisymm {a b : Date} (h1 : a ≤ b) (h2 : b ≤ a) : a = b := by
  have h1' : Date.cmp a b ≠ .gt := h1
  have h2' : Date.cmp b a ≠ .gt := h2
  rw [OrientedCmp.eq_swap (cmp := Date.cmp)] at h2'
  apply Date.cmp_eq_eq.mp
  cases h : Date.cmp a b <;> simp_all

theorem date_le_refl (a : Date) : a ≤ a := by
  show Date.cmp a a ≠ .gt
  rw [Date.cmp_eq_eq.mpr rfl]; simp

theorem clip_eval_perm {t r : List Cell} {ev : Date}
    (h : Triangle.clip t { minEval := some ev, maxEval := some ev } = .ok r) :
    r.Perm (t.filter (·.ev == ev)) := by
  unfold Triangle.clip at h
  have hp := ofCells_perm' h
  refine hp.trans (List.Perm.of_eq ?_)
  apply List.filter_congr
  intro c _
  simp only [ClipArgs.keep, Bool.and_true]
  by_cases hc : c.ev = ev
  · subst hc; simp [date_le_refl]
  · have : (c.ev == ev) = false := by simpa using hc
    rw [this]
    by_contra hne
    simp only [Bool.not_eq_false, Bool.and_eq_true, decide_eq_true_eq] at hne
    exact hc (date_le_antisymm hne.2 hne.1)

theorem policyCell_spec {fsig : String → Option Nat} {sl : List Cell}
    {shares : List ((Date × Date) × List ((Date × Date) × Rat))} {py : Date × Date} {ev : Date}
    {oc : Option Cell} (hu : ∀ c ∈ sl, ∀ kv ∈ c.values, sgIn kv.2 = fsig kv.1)
    (h : policyCell sl shares py ev = .ok oc) :
    (∀ o ∈ oc, o.ev = ev ∧ o.kind = .cumulative ∧ ∃ c ∈ sl, o.md = c.md) ∧
    ∀ g i, total oc.toList g i =
      ((sl.filter (·.ev == ev)).map fun c => cellField c g i * (shareOf shares py c).getD 0).sum := by
  unfold policyCell at h
  cases h1 : Triangle.ofCells sl with
  | error e => simp [h1, bind, Except.bind] at h
  | ok all =>
    simp only [h1, bind, Except.bind] at h
    cases h2 : Triangle.clip all { minEval := some ev, maxEval := some ev } with
    | error e => simp [h2] at h
    | ok aq =>
      simp only [h2] at h
      cases h3 : aq.foldlM (stepCell shares py) [] with
      | error e => simp [h3] at h
      | ok vals =>
        simp only [h3] at h
        have hperm : aq.Perm (sl.filter (·.ev == ev)) :=
          (clip_eval_perm h2).trans ((ofCells_perm' h1).filter _)
        have haq : ∀ c ∈ aq, c ∈ sl := fun c hc => (List.mem_filter.mp (hperm.mem_iff.mp hc)).1
        obtain ⟨_, hk, hc⟩ := foldCells_spec (fsig := fsig) aq (acc := [])
          (by intro g cur hg; simp [look] at hg) (by simp [KN])
          (fun c hc => hu c (haq c hc)) h3
        have hsum : ∀ g i, lcomp vals g i =
            ((sl.filter (·.ev == ev)).map fun c => cellField c g i * (shareOf shares py c).getD 0).sum := by
          intro g i
          rw [hc g i, sum_map_perm hperm]; simp [lcomp, look]
        split at h
        · rename_i hemp
          simp only [pure, Except.pure, Except.ok.injEq] at h; subst h
          have : vals = [] := by simpa using hemp
          subst this
          refine ⟨by simp, fun g i => ?_⟩
          rw [← hsum g i]; simp [total, lcomp, look]
        · rename_i hne
          split at h
          · rename_i last hlast
            cases hm : Cell.mk? { kind := .cumulative, ps := py.1, pe := py.2, ev := ev, values := vals, md := last.md } with
            | error e => simp [hm] at h
            | ok c =>
              simp only [hm, pure, Except.pure, Except.ok.injEq] at h; subst h
              obtain ⟨rfl, _⟩ := mk?_ok hm
              refine ⟨?_, fun g i => ?_⟩
              · intro o ho
                simp at ho; subst ho
                exact ⟨rfl, rfl, last, haq last (List.mem_of_getLast? hlast), rfl⟩
              · rw [← hsum g i, ← dsum_eq_lcomp hk]
                simp [total, cellField]
          · rename_i hlast
            have : aq = [] := by simpa using hlast
            subst this
            simp [List.foldlM_nil, pure, Except.pure] at h3
            subst h3
            simp at hne



theorem dedup_spec {α} [BEq α] [LawfulBEq α] (l : List α) :
    (dedup l).Nodup ∧ ∀ x, x ∈ dedup l ↔ x ∈ l := by
  have := dedupFold_spec (fun x : α => x) l [] (by simp)
  refine ⟨this.1, fun x => ?_⟩
  have h := this.2 x
  simp only [List.not_mem_nil, false_or] at h
  unfold dedup
  rw [h]
  constructor
  · rintro ⟨a, ha, rfl⟩; exact ha
  · intro hx; exact ⟨x, hx, rfl⟩

theorem mem_periods {sl : List Cell} {c : Cell} (hc : c ∈ sl) : (c.ps, c.pe) ∈ periods sl := by
  unfold periods
  rw [(List.mergeSort_perm _ _).mem_iff, (dedup_spec _).2]
  exact List.mem_map.mpr ⟨c, hc, rfl⟩

theorem evaluationDates_nodup (sl : List Cell) : (evaluationDates sl).Nodup := by
  unfold evaluationDates
  exact (List.mergeSort_perm _ _).nodup_iff.mpr (dedup_spec _).1

theorem mem_evaluationDates {sl : List Cell} {d : Date} : d ∈ evaluationDates sl ↔ ∃ c ∈ sl, c.ev = d := by
  unfold evaluationDates
  rw [(List.mergeSort_perm _ _).mem_iff, (dedup_spec _).2]
  simp

theorem find?_map_key {α β} [BEq α] [LawfulBEq α] (l : List α) (R : α → β) (a0 : α) :
    (l.map fun a => (a, R a)).find? (·.1 == a0) = if a0 ∈ l then some (a0, R a0) else none := by
  induction l with
  | nil => simp
  | cons a rest ih =>
    rw [List.map_cons, List.find?_cons]
    by_cases h : a = a0
    · subst h; simp
    · have h' : (a == a0) = false := by simpa using h
      simp only [h', ih, List.mem_cons]
      have : ¬ a0 = a := fun e => h e.symm
      simp [this]

theorem find?_filterMap_key {α β} [BEq α] [LawfulBEq α] (l : List α) (H : α → Option β) (a0 : α) :
    (l.filterMap fun a => (H a).map fun b => (a, b)).find? (·.1 == a0) =
      if a0 ∈ l then (H a0).map fun b => (a0, b) else none := by
  induction l with
  | nil => simp
  | cons a rest ih =>
    rw [List.filterMap_cons]
    by_cases h : a = a0
    · subst h
      cases hH : H a with
      | none =>
        simp only [Option.map_none, ih, List.mem_cons, true_or, if_true]
        split
        · simp [hH]
        · rfl
      | some b => simp
    · have h' : (a == a0) = false := by simpa using h
      have hne : ¬ a0 = a := fun e => h e.symm
      cases hH : H a with
      | none => simp [ih, hne]
      | some b => simp [h', ih, hne]

theorem sum_filterMap_getD {α} (l : List α) (H : α → Option Rat) :
    ((l.filterMap fun a => (H a).map fun b => (a, b)).map (·.2)).sum = (l.map fun a => (H a).getD 0).sum := by
  induction l with
  | nil => simp
  | cons a rest ih =>
    rw [List.filterMap_cons]
    cases hH : H a with
    | none => simp [ih, hH]
    | some b => simp [ih, hH]

/-- the normalised row of accident period `p`, as a `filterMap` over the policy years -/
def rowH (ps : List (Date × Date)) (len : Nat) (cont : Bool) (p : Date × Date) (tot : Rat)
    (py : Date × Date) : Option Rat :=
  ((monthlyToQuarterly (policyShareByMonth py.1 py.2 len cont) ps).find? (·.1 == p)).map fun e => e.2 / tot

theorem aqShares_eq (ps pys : List (Date × Date)) (len : Nat) (cont : Bool) :
    ∃ tot : (Date × Date) → Rat, aqShares ps pys len cont =
      ps.map fun aq => (aq, pys.filterMap fun py => (rowH ps len cont aq (tot aq) py).map fun b => (py, b)) := by
  refine ⟨fun aq => ((((pys.map fun py =>
    (py, monthlyToQuarterly (policyShareByMonth py.1 py.2 len cont) ps)).filterMap fun (x : (Date × Date) × List ((Date × Date) × Rat)) =>
      (x.2.find? (·.1 == aq)).map fun e => (x.1, e.2)).map (·.2)).sum), ?_⟩
  unfold aqShares
  apply List.map_congr_left
  intro aq _
  simp only [Prod.mk.injEq, true_and]
  rw [List.filterMap_map, List.map_filterMap]
  apply List.filterMap_congr
  intro py _
  simp only [Function.comp, rowH, Option.map_map]
  rfl

theorem shareOf_sum {sl : List Cell} {pys : List (Date × Date)} {len : Nat} {cont : Bool} {c : Cell}
    (hc : c ∈ sl)
    (hcov : ∀ row ∈ aqShares (periods sl) pys len cont, (row.2.map (·.2)).sum = 1) :
    (pys.map fun py => (shareOf (aqShares (periods sl) pys len cont) py c).getD 0).sum = 1 := by
  obtain ⟨tot, heq⟩ := aqShares_eq (periods sl) pys len cont
  have hp := mem_periods hc
  have hrow := hcov ((c.ps, c.pe), pys.filterMap fun py =>
      (rowH (periods sl) len cont (c.ps, c.pe) (tot (c.ps, c.pe)) py).map fun b => (py, b))
    (by rw [heq]; exact List.mem_map.mpr ⟨(c.ps, c.pe), hp, rfl⟩)
  rw [sum_filterMap_getD] at hrow
  rw [← hrow]
  apply congrArg
  apply List.map_congr_left
  intro py hpy
  unfold shareOf
  rw [heq]
  simp only [find?_map_key, hp, if_true, Option.map_some, Option.getD_some, find?_filterMap_key, hpy]
  cases rowH (periods sl) len cont (c.ps, c.pe) (tot (c.ps, c.pe)) py <;> simp



theorem total_nil (g : String) (i : Nat) : total [] g i = 0 := by simp [total]

theorem total_append (a b : List Cell) (g : String) (i : Nat) :
    total (a ++ b) g i = total a g i + total b g i := by
  simp [total]

theorem sum_forall2 {α β} {R : α → β → Prop} {l : List α} {r : List β} (h : Forall2 R l r)
    (φ : β → Rat) (ψ : α → Rat) (hr : ∀ a b, a ∈ l → R a b → φ b = ψ a) :
    (r.map φ).sum = (l.map ψ).sum := by
  induction h with
  | nil => rfl
  | cons hab _ ih =>
    simp only [List.map_cons, List.sum_cons]
    rw [hr _ _ (by simp) hab, ih fun a b ha => hr a b (by simp [ha])]

theorem total_cons (c : Cell) (l : List Cell) (g : String) (i : Nat) :
    total (c :: l) g i = cellField c g i + total l g i := by simp [total]

theorem total_filterMap_filter (ocs : List (Option Cell)) (P : Cell → Bool) (g : String) (i : Nat) :
    total ((ocs.filterMap id).filter P) g i = (ocs.map fun oc => total (oc.toList.filter P) g i).sum := by
  induction ocs with
  | nil => simp [total]
  | cons oc rest ih =>
    cases oc with
    | none =>
      rw [List.filterMap_cons_none (by rfl), List.map_cons, List.sum_cons, ih]
      simp [total_nil]
    | some c =>
      rw [List.filterMap_cons_some (by rfl), List.map_cons, List.sum_cons, ← ih, List.filter_cons]
      by_cases hP : P c = true
      · simp [hP, total_cons, total_nil]
      · simp [hP, total_nil]

theorem total_flatten_filterMap_filter (cells : List (List (Option Cell))) (P : Cell → Bool)
    (g : String) (i : Nat) :
    total ((cells.flatten.filterMap id).filter P) g i =
      (cells.map fun row => (row.map fun oc => total (oc.toList.filter P) g i).sum).sum := by
  induction cells with
  | nil => simp [total]
  | cons row rest ih =>
    simp only [List.flatten_cons, List.filterMap_append, List.filter_append, total_append,
      List.map_cons, List.sum_cons, ih, total_filterMap_filter]

theorem sum_indicator_nodup (l : List Date) (hn : l.Nodup) (d : Date) (F : Date → Rat) :
    (l.map fun a => if a == d then F a else 0).sum = if d ∈ l then F d else 0 := by
  induction l with
  | nil => simp
  | cons a rest ih =>
    rw [List.nodup_cons] at hn
    simp only [List.map_cons, List.sum_cons, ih hn.2, List.mem_cons]
    by_cases h : a = d
    · subst h; simp [hn.1]
    · have h' : (a == d) = false := by simpa using h
      have : ¬ d = a := fun e => h e.symm
      simp [h', this]

theorem sum_map_add {α} (l : List α) (F G : α → Rat) :
    (l.map fun a => F a + G a).sum = (l.map F).sum + (l.map G).sum := by
  induction l with
  | nil => simp
  | cons a rest ih => simp only [List.map_cons, List.sum_cons, ih]; ring

theorem sum_swap {α β} (l : List α) (r : List β) (F : α → β → Rat) :
    (l.map fun a => (r.map fun b => F a b).sum).sum = (r.map fun b => (l.map fun a => F a b).sum).sum := by
  induction l with
  | nil => simp
  | cons a rest ih =>
    simp only [List.map_cons, List.sum_cons, ih, sum_map_add]

/-- what `aqToPolicyYearCells` returns, at one evaluation date -/
theorem policyYearCells_spec {fsig : String → Option Nat} {sl tri : List Cell} {len : Nat}
    {origin : Date} {cont : Bool}
    (hu : ∀ c ∈ sl, ∀ kv ∈ c.values, sgIn kv.2 = fsig kv.1)
    (hcov : ∀ pys, policyYearsCovered sl origin = .ok pys →
      ∀ row ∈ aqShares (periods sl) pys len cont, (row.2.map (·.2)).sum = 1)
    (h : aqToPolicyYearCells sl len origin cont = .ok tri) :
    (∀ o ∈ tri, o.kind = .cumulative ∧ ∃ c ∈ sl, o.md = c.md) ∧
    ∀ d g i, total (tri.filter (·.ev == d)) g i = total (sl.filter (·.ev == d)) g i := by
  unfold aqToPolicyYearCells at h
  cases h1 : Triangle.rightEdge sl with
  | error e => simp [h1, bind, Except.bind] at h
  | ok re =>
    simp only [h1, bind, Except.bind] at h
    split at h
    · cases h
    · cases h2 : policyYearsCovered sl origin with
      | error e => simp [h2] at h
      | ok pys =>
        simp only [h2] at h
        split at h
        · cases h
        · cases h3 : pys.mapM (fun py => (evaluationDates sl).mapM fun ev =>
              policyCell sl (aqShares (periods sl) pys len cont) py ev) with
          | error e => simp [h3] at h
          | ok cells =>
            simp only [h3] at h
            have hperm := ofCells_perm' h
            have hF := mapM_ok_forall2 h3
            have hF' : Forall2 (fun py row => Forall2 (fun ev oc =>
                policyCell sl (aqShares (periods sl) pys len cont) py ev = .ok oc) (evaluationDates sl) row)
                pys cells := hF.imp fun py row _ hr => mapM_ok_forall2 hr
            constructor
            · intro o ho
              have ho' := hperm.mem_iff.mp ho
              obtain ⟨oc, hoc, hid⟩ := List.mem_filterMap.mp ho'
              simp only [id] at hid; subst hid
              obtain ⟨row, hrow, hocr⟩ := List.mem_flatten.mp hoc
              obtain ⟨py, _, hpr⟩ := hF'.mem_right hrow
              obtain ⟨ev, _, hpc⟩ := hpr.mem_right hocr
              exact ((policyCell_spec hu hpc).1 o rfl).2
            · intro d g i
              rw [total_perm (hperm.filter _), total_flatten_filterMap_filter]
              have hcov' := hcov pys h2
              -- per policy year
              have hrowsum : ∀ py row, py ∈ pys → Forall2 (fun ev oc =>
                  policyCell sl (aqShares (periods sl) pys len cont) py ev = .ok oc) (evaluationDates sl) row →
                  (row.map fun oc => total (oc.toList.filter (·.ev == d)) g i).sum =
                  ((sl.filter (·.ev == d)).map fun c => cellField c g i *
                    (shareOf (aqShares (periods sl) pys len cont) py c).getD 0).sum := by
                intro py row _ hr
                rw [sum_forall2 hr _ (fun ev => if ev == d then
                  ((sl.filter (·.ev == ev)).map fun c => cellField c g i *
                    (shareOf (aqShares (periods sl) pys len cont) py c).getD 0).sum else 0)]
                · rw [sum_indicator_nodup _ (evaluationDates_nodup sl)]
                  split
                  · rfl
                  · rename_i hd
                    have : sl.filter (·.ev == d) = [] := by
                      rw [List.filter_eq_nil_iff]
                      intro c hc hcd
                      exact hd (mem_evaluationDates.mpr ⟨c, hc, by simpa using hcd⟩)
                    rw [this]; rfl
                · intro ev oc _ hpc
                  obtain ⟨hev, htot⟩ := policyCell_spec hu hpc
                  by_cases hd : ev = d
                  · subst hd
                    have : oc.toList.filter (·.ev == ev) = oc.toList := by
                      rw [List.filter_eq_self]
                      intro o ho; simp at ho; simp [(hev o ho).1]
                    simp only [this, beq_self_eq_true, if_true]
                    exact htot g i
                  · have h' : (ev == d) = false := by simpa using hd
                    have : oc.toList.filter (·.ev == d) = [] := by
                      rw [List.filter_eq_nil_iff]
                      intro o ho hod; simp at ho
                      exact hd (by rw [← (hev o ho).1]; simpa using hod)
                    simp [this, h', total_nil]
              rw [sum_forall2 hF' _ _ hrowsum, sum_swap]
              unfold total
              apply congrArg
              apply List.map_congr_left
              intro c hc
              have hc' := (List.mem_filter.mp hc).1
              have : (pys.map fun a => cellField c g i * (shareOf (aqShares (periods sl) pys len cont) a c).getD 0)
                  = (pys.map fun a => (shareOf (aqShares (periods sl) pys len cont) a c).getD 0).map (cellField c g i * ·) := by
                rw [List.map_map]; rfl
              rw [this, sum_map_mul_left, shareOf_sum hc' hcov', mul_one]



theorem forall2_eq_map {α β} {f : α → β} {l : List α} {r : List β}
    (h : Forall2 (fun a b => b = f a) l r) : r = l.map f := by
  induction h with
  | nil => rfl
  | cons hab _ ih => rw [hab, ih]; rfl

theorem deriveMetadata_perm {t r : List Cell} {e : MetaEdit}
    (h : Triangle.deriveMetadata t e = .ok r) :
    r.Perm (t.map fun c => { c with md := c.md.edit e }) := by
  unfold Triangle.deriveMetadata at h
  cases hm : t.mapM (fun c => ({ c with md := c.md.edit e } : Cell).mk?) with
  | error e' => simp [hm, bind, Except.bind] at h
  | ok cells =>
    simp only [hm, bind, Except.bind] at h
    have : cells = t.map fun c => { c with md := c.md.edit e } :=
      forall2_eq_map ((mapM_ok_forall2 hm).imp fun c o _ hco => (mk?_ok hco).1)
    rw [← this]; exact ofCells_perm' h

theorem total_map_values (l : List Cell) (f : Cell → Cell) (hf : ∀ c, (f c).values = c.values)
    (g : String) (i : Nat) : total (l.map f) g i = total l g i := by
  unfold total
  rw [List.map_map]
  apply congrArg
  apply List.map_congr_left
  intro c _
  simp only [Function.comp, cellField, hf]

theorem total_flatten_filter (rs : List (List Cell)) (P : Cell → Bool) (g : String) (i : Nat) :
    total (rs.flatten.filter P) g i = (rs.map fun r => total (r.filter P) g i).sum := by
  induction rs with
  | nil => simp [total]
  | cons r rest ih =>
    rw [List.flatten_cons, List.filter_append, total_append, ih]; simp

theorem policyYearSlice_spec {fsig : String → Option Nat} {sl r : List Cell} {m : Metadata}
    {len : Nat} {origin : Date} {cont : Bool} (hmd : ∀ c ∈ sl, c.md = m)
    (hu : ∀ c ∈ sl, ∀ kv ∈ c.values, sgIn kv.2 = fsig kv.1)
    (hcov : ∀ pys, policyYearsCovered sl origin = .ok pys →
      ∀ row ∈ aqShares (periods sl) pys len cont, (row.2.map (·.2)).sum = 1)
    (h : aqToPolicyYearSlice sl len origin cont = .ok r) (m' : Metadata) (d : Date) (g : String) (i : Nat) :
    total (r.filter fun o => o.md == m' && o.ev == d) g i =
      total (sl.filter fun c => toPolicy c.md == m' && c.ev == d) g i := by
  unfold aqToPolicyYearSlice at h
  cases hc : aqToPolicyYearCells sl len origin cont with
  | error e => simp [hc, bind, Except.bind] at h
  | ok tri =>
    simp only [hc, bind, Except.bind] at h
    obtain ⟨hmds, htot⟩ := policyYearCells_spec hu hcov hc
    have hperm := deriveMetadata_perm h
    rw [total_perm (hperm.filter _), List.filter_map,
      total_map_values _ (fun c : Cell => { c with md := c.md.edit (.riskBasis (some "Policy")) }) (fun _ => rfl)]
    have htri : ∀ c ∈ tri, c.md = m := fun c hc' => by
      obtain ⟨c0, hc0, e⟩ := (hmds c hc').2; rw [e, hmd c0 hc0]
    have e1 : tri.filter ((fun o : Cell => o.md == m' && o.ev == d) ∘ fun c => { c with md := c.md.edit (.riskBasis (some "Policy")) })
        = tri.filter fun c => (toPolicy m == m') && c.ev == d := by
      apply List.filter_congr
      intro c hc'
      simp only [Function.comp, Metadata.edit, htri c hc', toPolicy]
    have e2 : sl.filter (fun c => toPolicy c.md == m' && c.ev == d)
        = sl.filter fun c => (toPolicy m == m') && c.ev == d := by
      apply List.filter_congr
      intro c hc'
      rw [hmd c hc']
    rw [e1, e2]
    cases hb : toPolicy m == m'
    · simp [total_nil]
    · simpa using htot d g i

theorem foldlM_add_spec {F : List Cell → Except Err (List Cell)} :
    ∀ (slices : List (Metadata × List Cell)) (init out : List Cell),
      slices.foldlM (fun results sl => do
        let r ← F sl.2
        Triangle.add results r) init = .ok out →
      ∃ rs, Forall2 (fun sl r => F sl.2 = .ok r) slices rs ∧ out.Perm (init ++ rs.flatten) := by
  intro slices
  induction slices with
  | nil =>
    intro init out h
    simp [List.foldlM_nil, pure, Except.pure] at h; subst h
    exact ⟨[], .nil, by simp⟩
  | cons sl rest ih =>
    intro init out h
    rw [List.foldlM_cons] at h
    cases hr : F sl.2 with
    | error e => simp [hr, bind, Except.bind] at h
    | ok r =>
      simp only [hr, bind, Except.bind] at h
      cases ha : Triangle.add init r with
      | error e => simp [ha] at h
      | ok res =>
        simp only [ha] at h
        obtain ⟨rs, hF, hp⟩ := ih res out h
        refine ⟨r :: rs, .cons hr hF, ?_⟩
        have hres : res.Perm (init ++ r) := ofCells_perm' ha
        refine hp.trans ?_
        simp only [List.flatten_cons, ← List.append_assoc]
        exact hres.append_right _


end Bermuda.Units
