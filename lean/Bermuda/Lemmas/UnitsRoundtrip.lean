/-
C18 `aggregate_disagg` at full strength: values (not only `at` readings), exact key sets,
exactly-once across slices, the sorted order and the Bool bridge to `Spec.C18.aggBackSpec`.
-/
import Bermuda.Lemmas.UnitsAggregate
import Bermuda.Lemmas.Eq
import Bermuda.Lemmas.SummarizeSpec
import Bermuda.Properties.C01
namespace Bermuda.Units
open Bermuda Bermuda.Spec.C18 Std Generated.Summarize

/-! ### the entry `summarize_cell_values` makes for a summed field IS the conforming sum -/

theorem summarizeCellValues_sum_value {tr : Transc} {extra : List RuleEntry} {cells : List Cell}
    {pf : Bool} {d : Dict Val} {f : String}
    (h : summarizeCellValues tr extra cells pf = .ok d)
    (hc : pf = true ∨ f ∉ nonLossMetrics)
    (hr : ruleOf extra (lowerKey f) = some ⟨.sum, [f]⟩) (hf : f ∈ valueKeys cells) :
    ∃ v, d.get? f = some v ∧ conformingSum (cells.map fun c => c.getV f) = .ok v := by
  unfold summarizeCellValues at h
  simp only at h
  split at h
  · cases h
  · cases pf with
    | true =>
      simp only [if_true] at h
      obtain ⟨v, hv, hd⟩ := (smMapE_get? h (fun k r hk => aggKey_fst hk) f).1 hf
      exact ⟨v, hd, aggKey_sum hr hf hv⟩
    | false =>
      have hnl : f ∉ nonLossMetrics := by
        rcases hc with hc | hc
        · cases hc
        · exact hc
      simp only [Bool.false_eq_true, if_false] at h
      split at h
      · cases h
      · rename_i loss hloss
        split at h
        · cases h
        · rename_i nonLoss hnon
          cases h
          have hf' : f ∈ (valueKeys cells).filter (fun k => !nonLossMetrics.contains k) := by
            rw [List.mem_filter]; exact ⟨hf, by simp [hnl]⟩
          obtain ⟨v, hv, hd⟩ := (smMapE_get? hloss (fun k r hk => aggKey_fst hk) f).1 hf'
          exact ⟨v, by rw [Dict.get?_append, hd], aggKey_sum hr hf hv⟩

/-! ### one slice: the pile behind every aggregated cell -/

/-- every aggregated cell of a slice comes from ONE pile of re-labelled cells, which are (up to their
coordinates) the sub-period cells of ONE input cell `c`: the aggregated cell sits on `c`'s coordinates,
its values are `summarize_cell_values` of the pile, every pile member carries the values of a member
of `c`'s group, and every sample-wise sum over the pile equals the sum over the group -/
theorem slice_pile {tr : Transc} {sl mid back : List Cell} {res : Nat}
    {F : List String} {L q : Int} {s : String} {origin : Date} {prem : Bool}
    (w : SliceWF res sl L) {parts : List (List Cell)}
    (hF : Forall2 (SubCellsN res (L / (res : Int)).toNat F) sl parts) (hS : mid.Perm parts.flatten)
    (hov : origin.valid = true) (hoe : origin.isMonthEnd = true)
    (hgrid : ∀ c ∈ sl, ∃ z : Int, monthToId c.ps = monthToId origin + z * L + 1)
    (hst : standardizeResolution q s = .ok (L, .month))
    (hagg : aggregatePeriod tr mid (some (q, s)) origin prem = .ok back) :
    ∀ o ∈ back, ∃ c part pile, (c, part) ∈ sl.zip parts ∧ part ≠ [] ∧ pile ≠ [] ∧
      o.ps = c.ps ∧ o.pe = c.pe ∧ o.ev = c.ev ∧ o.md = c.md ∧ o.kind = .cumulative ∧ o.prev = none ∧
      summarizeCellValues tr [] pile prem = .ok o.values ∧
      (∀ rc ∈ pile, ∃ x ∈ part, rc.values = x.values) ∧
      ∀ f i, (pile.map fun rc => (rc.getV f).at i).sum = (part.map fun x => (x.getV f).at i).sum := by
  obtain ⟨c0, tl, rel, newCells, hlenP, hzipP, hsmem, hsorted, hrlen, hnew, hperm, hparent, hrl⟩ :=
    slice_roundtrip_setup w hF hS hov hoe hgrid hst hagg
  intro o ho
  obtain ⟨g, hg, hgo⟩ := smMapE_mem hnew (hperm.mem_iff.mp ho)
  obtain ⟨hkey, hg2⟩ := aggCell_key hg hgo
  obtain ⟨r0, rest, vals, hgc, hvals, ho'⟩ := aggCell_ok hgo
  have hr0 : r0 ∈ rel := by
    have : r0 ∈ g.2 := by rw [hgc]; simp
    rw [hg2] at this; exact (List.mem_filter.mp this).1
  obtain ⟨x0, hx0⟩ := exists_zip_of_mem_right hrlen.symm hr0
  obtain ⟨c, part, hcp, hx0p⟩ := hparent x0 ((hsmem x0).mp (List.of_mem_zip hx0).1)
  have hcm : c ∈ sl := (List.of_mem_zip hcp).1
  have hsub := hzipP _ hcp
  obtain ⟨e1, e2, e3, _, e5⟩ := hrl x0 r0 hx0 c part hcp hx0p
  have hpne : part ≠ [] := List.ne_nil_of_mem hx0p
  have hko : key3 o = (c.ps, c.pe, c.ev) := by simp [key3, ho', e1, e2, e3]
  -- a re-labelled cell on `c`'s coordinates comes from `c`'s group
  have hback : ∀ x rc, (x, rc) ∈ (c0 :: tl).zip rel → (key3 rc == (c.ps, c.pe, c.ev)) = true → x ∈ part := by
    intro x rc hp hkeq
    obtain ⟨c', part', hcp', hxp'⟩ := hparent x ((hsmem x).mp (List.of_mem_zip hp).1)
    obtain ⟨a1, a2, a3, _, _⟩ := hrl x rc hp c' part' hcp' hxp'
    have hk3 : (rc.ps, rc.pe, rc.ev) = (c.ps, c.pe, c.ev) := by simpa [key3] using hkeq
    simp only [Prod.mk.injEq] at hk3
    have hcc : c' = c := sliceWF_key_inj w (List.of_mem_zip hcp').1 hcm
      (by rw [← a1, hk3.1]) (by rw [← a2, hk3.2.1]) (by rw [← a3, hk3.2.2])
    subst hcc
    have := zip_unique_right w.nodup hcp' hcp
    subst this
    exact hxp'
  refine ⟨c, part, g.2, hcp, hpne, by rw [hgc]; simp, by rw [ho', e1], by rw [ho', e2], by rw [ho', e3],
    by rw [ho', e5], by rw [ho'], by rw [ho'], by rw [ho']; exact hvals, ?_, ?_⟩
  · intro rc hrc
    rw [hg2, hko] at hrc
    obtain ⟨hrcm, hrck⟩ := List.mem_filter.mp hrc
    obtain ⟨x, hxr⟩ := exists_zip_of_mem_right hrlen.symm hrcm
    have hxp := hback x rc hxr hrck
    exact ⟨x, hxp, (hrl x rc hxr c part hcp hxp).2.2.2.1⟩
  · intro f i
    rw [hg2, sum_filter_indicator, hko]
    rw [← ratsum_zip (fun x : Cell => if decide (x ∈ part) = true then (x.getV f).at i else 0)
      (fun rc : Cell => if key3 rc == (c.ps, c.pe, c.ev) then (rc.getV f).at i else 0) (c0 :: tl) rel hrlen.symm]
    · rw [← hsorted, sum_map_perm (List.mergeSort_perm mid _), sum_map_perm hS,
        ← sum_filter_indicator (p := fun x : Cell => decide (x ∈ part))]
      have hiso := flatten_filter_isolate (key := fun c : Cell => c) (fun x : Cell => decide (x ∈ part)) sl parts hlenP
        (by simpa using w.nodup) (c, part) hcp (by
          intro q hq hkne
          obtain ⟨c', part'⟩ := q
          simp only at hkne ⊢
          rw [List.filter_eq_nil_iff]
          intro y hy hyp
          have hyp' : y ∈ part := by simpa using hyp
          have hc'm : c' ∈ sl := (List.of_mem_zip hq).1
          have hs' := hzipP _ hq
          have hm1 : (y.ps, y.pe) ∈ expectedSubs res c := by
            rw [sliceWF_expected w hcm, ← hsub.1]; exact List.mem_map.mpr ⟨y, hyp', rfl⟩
          have hm2 : (y.ps, y.pe) ∈ expectedSubs res c' := by
            rw [sliceWF_expected w hc'm, ← hs'.1]; exact List.mem_map.mpr ⟨y, hy, rfl⟩
          have hev : c.ev = c'.ev := by rw [← (hsub.2.1 y hyp').2.1, (hs'.2.1 y hy).2.1]
          exact expectedSubs_disjoint w hcm hc'm (fun e => hkne e.symm) hev hm1 hm2)
      rw [hiso]
      have : part.filter (fun x => decide (x ∈ part)) = part := by
        rw [List.filter_eq_self]; intro y hy; simpa using hy
      rw [this]
    · intro p hp
      obtain ⟨x, rc⟩ := p
      simp only
      obtain ⟨c', part', hcp', hxp'⟩ := hparent x ((hsmem x).mp (List.of_mem_zip hp).1)
      obtain ⟨_, _, _, a4, _⟩ := hrl x rc hp c' part' hcp' hxp'
      have hgv : rc.getV f = x.getV f := by unfold Cell.getV; rw [a4]
      by_cases hxin : x ∈ part
      · obtain ⟨b1, b2, b3, _, _⟩ := hrl x rc hp c part hcp hxin
        simp [hxin, key3, b1, b2, b3, hgv]
      · have hkne : ¬ (key3 rc == (c.ps, c.pe, c.ev)) = true := fun hkeq => hxin (hback x rc hp hkeq)
        simp [hxin, hkne]

/-- the selected field names of a cell -/
def selKeys (F : List String) (c : Cell) : List String :=
  (c.values.filter fun kv => F.contains kv.1).map (·.1)

theorem getV_congr {a b : Cell} (h : a.values = b.values) (f : String) : a.getV f = b.getV f := by
  unfold Cell.getV; rw [h]

/-- **slice level, values.** Every aggregated cell of the slice sits on the coordinates of an input
cell with an observable sub-period, carries exactly that cell's selected field names, and every
selected field (whose rule is "sum of itself") holds the input cell's numbers. -/
theorem aggregate_disagg_slice_values {tr : Transc} {sl mid back : List Cell} {res : Nat}
    {F : List String} {L q : Int} {s : String} {origin : Date} {prem : Bool}
    (w : SliceWF res sl L) {parts : List (List Cell)}
    (hF : Forall2 (SubCellsN res (L / (res : Int)).toNat F) sl parts) (hS : mid.Perm parts.flatten)
    (hov : origin.valid = true) (hoe : origin.isMonthEnd = true)
    (hgrid : ∀ c ∈ sl, ∃ z : Int, monthToId c.ps = monthToId origin + z * L + 1)
    (hst : standardizeResolution q s = .ok (L, .month))
    (hrule : ∀ c ∈ sl, ∀ kv ∈ c.values, F.contains kv.1 = true →
      ruleOf [] (lowerKey kv.1) = some ⟨.sum, [kv.1]⟩ ∧ (prem = true ∨ kv.1 ∉ nonLossMetrics))
    (hagg : aggregatePeriod tr mid (some (q, s)) origin prem = .ok back) :
    ∀ o ∈ back, ∃ c ∈ sl, obsSubs c res (L / (res : Int)).toNat ≠ [] ∧
      o.ps = c.ps ∧ o.pe = c.pe ∧ o.ev = c.ev ∧ o.md = c.md ∧ o.kind = .cumulative ∧ o.prev = none ∧
      o.values.keys.Perm (selKeys F c) ∧
      ∀ kv ∈ c.values, F.contains kv.1 = true →
        ∃ v, o.values.get? kv.1 = some v ∧ v ≠ .none ∧ kv.2 ≠ .none ∧ vdata v = vdata kv.2 := by
  intro o ho
  obtain ⟨c, part, pile, hcp, hpne, hpile, e1, e2, e3, e4, e5, e6, hsum, hmem, hsums⟩ :=
    slice_pile w hF hS hov hoe hgrid hst hagg o ho
  have hcm : c ∈ sl := (List.of_mem_zip hcp).1
  have hsub := hF.zip.2 _ hcp
  have hk : KN c.values := (w.cell c hcm).2.2.2.2
  have hkeysOf : ∀ rc ∈ pile, rc.values.keys = selKeys F c := by
    intro rc hrc
    obtain ⟨x, hx, hv⟩ := hmem rc hrc
    rw [hv]
    exact (hsub.2.1 x hx).2.2.2
  have hvk : ∀ k, k ∈ valueKeys pile ↔ k ∈ selKeys F c := by
    intro k
    rw [mem_valueKeys]
    constructor
    · rintro ⟨rc, hrc, hkm⟩
      rwa [hkeysOf rc hrc] at hkm
    · intro hkm
      obtain ⟨rc, hrc⟩ := List.exists_mem_of_ne_nil pile hpile
      exact ⟨rc, hrc, by rwa [hkeysOf rc hrc]⟩
  have hselnd : (selKeys F c).Nodup := by
    unfold selKeys KN at *
    exact (List.filter_sublist.map _).nodup hk
  refine ⟨c, hcm, ?_, e1, e2, e3, e4, e5, e6, ?_, ?_⟩
  · intro he
    have := hsub.1
    rw [he] at this
    exact hpne (List.map_eq_nil_iff.mp this)
  · refine (Bermuda.Properties.C09.summarizeCellValues_keys_perm hsum).trans ?_
    have hnd : (valueKeys pile).Nodup := nodup_smDedup _
    rw [List.perm_ext_iff_of_nodup hnd hselnd]
    exact hvk
  · intro kv hkv hf
    obtain ⟨hr, hc⟩ := hrule c hcm kv hkv hf
    have hfk : kv.1 ∈ valueKeys pile :=
      (hvk kv.1).mpr (List.mem_map.mpr ⟨kv, List.mem_filter.mpr ⟨hkv, hf⟩, rfl⟩)
    obtain ⟨v, hget, hcs⟩ := summarizeCellValues_sum_value hsum hc hr hfk
    -- the common signature
    obtain ⟨x0, hx0⟩ := List.exists_mem_of_ne_nil part hpne
    obtain ⟨σ, hpsg, _⟩ := hsub.2.2.2.2 x0 hx0 kv hkv hf
    have hall : ∀ wv ∈ pile.map (fun rc => rc.getV kv.1), fsg wv = some σ := by
      intro wv hwv
      obtain ⟨rc, hrc, rfl⟩ := List.mem_map.mp hwv
      obtain ⟨x, hx, hv⟩ := hmem rc hrc
      obtain ⟨σ', hp', hf'⟩ := hsub.2.2.2.2 x hx kv hkv hf
      rw [getV_congr hv, hf', ← hp', hpsg]
    have hfsg : fsg v = some σ := conformingSum_fsg (by simpa using hpile) hall hcs
    have hat : ∀ i, idxOk σ i → v.at i = kv.2.at i := by
      intro i hi
      have h1 := (conformingSum_at (i := i) hcs fun wv hwv => inRange_of_fsg (hall wv hwv) hi).1
      rw [h1, List.map_map]
      have h2 := hsums kv.1 i
      simp only [Function.comp_def]
      rw [h2, hsub.2.2.2.1 hpne kv.1 hf i, getV_of_mem_kn hk hkv]
    obtain ⟨a, b, c'⟩ := vdata_eq_of_sig hfsg hpsg hat
    exact ⟨v, hget, a, b, c'⟩

/-! ### the whole triangle: slices of the disaggregated triangle ↔ input slices -/

/-- `aggregate` on the disaggregated triangle, slice by slice: every slice of `out` is (a permutation
of) the groups of ONE well-formed input slice, aggregated by `_aggregate_period` -/
theorem aggregate_disagg_setup {tr : Transc} {t out back : List Cell} {res : Nat} {ws : List Rat}
    {F : List String} {L q : Int} {s : String} {origin : Date} {a : AggArgs}
    (hwf : disaggWF res t = true) (hL : ∀ sl ∈ Triangle.slices t, periodResolution sl.2 = .ok L)
    (hws : ws ≠ []) (hcore : disaggCore t res ws F = .ok out)
    (hp : a.periodRes = some (q, s)) (he : a.evalRes = none) (ho : a.periodOrigin = origin)
    (hagg : aggregate tr out a = .ok back) :
    ∃ aggs, smMapE (fun p : Metadata × List Cell => aggregateSlice tr a p.2) (Triangle.slices out) = .ok aggs ∧
      sumTriangles aggs = .ok back ∧
      ∀ S agg, S ∈ Triangle.slices out → aggregateSlice tr a S.2 = .ok agg →
        ∃ sl ps, sl ∈ Triangle.slices t ∧ S.1 = sl.1 ∧ SliceWF res sl.2 L ∧
          Forall2 (SubCellsN res (L / (res : Int)).toNat F) sl.2 ps ∧ S.2.Perm ps.flatten ∧
          aggregatePeriod tr S.2 (some (q, s)) origin a.prem = .ok agg := by
  have hk : ∀ c ∈ t, KN c.values := by
    intro c hc
    obtain ⟨sl, hsl, _, hcs⟩ := slices_fst_mem hc
    obtain ⟨L', _, w⟩ := disaggWF_slice hwf hsl
    exact (w.cell c hcs).2.2.2.2
  obtain ⟨pss, hperm, hall⟩ := disaggCore_groups hk hws hcore
  obtain ⟨hlen, hzip⟩ := hall.zip
  have hslice : ∀ sl ps, (sl, ps) ∈ (Triangle.slices t).zip pss →
      SliceWF res sl.2 L ∧ Forall2 (SubCellsN res (L / (res : Int)).toNat F) sl.2 ps := by
    intro sl ps hq
    have hslm := (List.of_mem_zip hq).1
    obtain ⟨L', hL', w⟩ := disaggWF_slice hwf hslm
    obtain ⟨sres, hsres, hin⟩ := hzip (sl, ps) hq
    have e1 : L' = L := by rw [hL sl hslm] at hL'; cases hL'; rfl
    have e2 : sres = L := by rw [hL sl hslm] at hsres; cases hsres; rfl
    subst e1; subst e2
    exact ⟨w, hin⟩
  have hkind : ∀ o ∈ out, o.kind = .cell := by
    intro o ho
    obtain ⟨ps, hps, part, hpart, hopart⟩ := mem_flat2.mp (hperm.mem_iff.mp ho)
    obtain ⟨sl, hq⟩ := exists_zip_of_mem_right hlen hps
    obtain ⟨c, _, hs⟩ := (hslice sl ps hq).2.mem_right hpart
    exact (hs.2.1 o hopart).2.2.1
  have hinc : smIsIncremental out = false := by
    unfold smIsIncremental
    cases hout : out with
    | nil => rfl
    | cons c rest => simp [hkind c (by rw [hout]; simp)]
  unfold aggregate at hagg
  rw [hinc] at hagg
  simp only [Bool.false_eq_true, if_false] at hagg
  unfold aggregateCum at hagg
  split at hagg
  · cases hagg
  · rename_i aggs haggs
    refine ⟨aggs, haggs, hagg, ?_⟩
    intro S agg hS hSa
    -- the input slice behind S
    have hS' := hS
    unfold Triangle.slices at hS'
    obtain ⟨m, hm, rfl⟩ := List.mem_map.mp hS'
    obtain ⟨o, ho', hom⟩ := mem_metasOf.mp hm
    obtain ⟨ps, hps, part, hpart, hopart⟩ := mem_flat2.mp (hperm.mem_iff.mp ho')
    obtain ⟨sl, hq⟩ := exists_zip_of_mem_right hlen hps
    obtain ⟨w, hF⟩ := hslice sl ps hq
    obtain ⟨c, hc, hs⟩ := hF.mem_right hpart
    have hmeq : m = sl.1 := by
      rw [← hom, (hs.2.1 o hopart).1]
      exact (mem_slices_md (List.of_mem_zip hq).1 hc).1
    refine ⟨sl, ps, (List.of_mem_zip hq).1, hmeq, w, hF, ?_, ?_⟩
    · simp only
      rw [hmeq]
      exact (List.mergeSort_perm _ _).trans (out_filter_slice hperm hall hq)
    · unfold aggregateSlice at hSa
      rw [he] at hSa
      simp only [aggregateEval] at hSa
      rw [hp, ho] at hSa
      exact hSa

/-- concatenating tagged groups with distinct tags keeps keys distinct -/
theorem nodup_flatten_tagged {τ β κ} (tag : β → τ) (K : β → κ) (hK : ∀ a b, K a = K b → tag a = tag b) :
    ∀ (G : List (τ × List β)), (G.map (·.1)).Nodup → (∀ p ∈ G, (p.2.map K).Nodup) →
      (∀ p ∈ G, ∀ b ∈ p.2, tag b = p.1) → ((G.map (·.2)).flatten.map K).Nodup := by
  intro G
  induction G with
  | nil => intro _ _ _; simp
  | cons p G ih =>
    intro hn h2 h3
    rw [List.map_cons, List.nodup_cons] at hn
    rw [List.map_cons, List.flatten_cons, List.map_append, List.nodup_append]
    refine ⟨h2 p (by simp), ih hn.2 (fun q hq => h2 q (by simp [hq])) (fun q hq => h3 q (by simp [hq])), ?_⟩
    intro x hx y hy hxy
    obtain ⟨b, hb, rfl⟩ := List.mem_map.mp hx
    obtain ⟨b', hb', rfl⟩ := List.mem_map.mp hy
    obtain ⟨l', hl', hbl⟩ := List.mem_flatten.mp hb'
    obtain ⟨q, hq, rfl⟩ := List.mem_map.mp hl'
    have := hK b b' hxy
    rw [h3 p (by simp) b hb, h3 q (by simp [hq]) b' hbl] at this
    exact hn.1 (by rw [this]; exact List.mem_map.mpr ⟨q, hq, rfl⟩)

theorem smMapE_pairs {α β} {f : α → Except Err β} :
    ∀ {l : List α} {r : List β}, smMapE f l = .ok r →
      ∃ G : List (α × β), G.map (·.1) = l ∧ G.map (·.2) = r ∧ ∀ p ∈ G, f p.1 = .ok p.2 := by
  intro l
  induction l with
  | nil => intro r h; simp only [smMapE] at h; cases h; exact ⟨[], rfl, rfl, by simp⟩
  | cons a l ih =>
    intro r h
    obtain ⟨b, bs, hb, hbs, rfl⟩ := smMapE_cons_ok h
    obtain ⟨G, h1, h2, h3⟩ := ih hbs
    refine ⟨(a, b) :: G, by simp [h1], by simp [h2], ?_⟩
    intro p hp
    rcases List.mem_cons.mp hp with rfl | hp
    · exact hb
    · exact h3 p hp

theorem smFoldE_last {α β} {f : β → α → Except Err β} :
    ∀ (xs : List α) (acc : β) (x : α) (r : β), smFoldE f acc (x :: xs) = .ok r →
      ∃ acc' y, f acc' y = .ok r := by
  intro xs
  induction xs with
  | nil =>
    intro acc x r h
    simp only [smFoldE] at h
    split at h
    · cases h
    · rename_i b hb; cases h; exact ⟨acc, x, hb⟩
  | cons y ys ih =>
    intro acc x r h
    rw [smFoldE] at h
    split at h
    · cases h
    · rename_i b hb
      exact ih b y r h

theorem aggregatePeriod_sorted {tr : Transc} {t out : List Cell} {q : Int} {s : String}
    {origin : Date} {prem : Bool}
    (h : aggregatePeriod tr t (some (q, s)) origin prem = .ok out) :
    out.Pairwise (fun a b => Cell.le a b) := by
  unfold aggregatePeriod at h
  simp only at h
  split at h
  · cases h
  · split at h
    · cases h
    · split at h
      · cases h
      · split at h
        · cases h
        · split at h
          · cases h
          · exact Properties.C01.ofCells_sorted h

theorem sliceWF_obs_keys_nodup {res : Nat} {sl : List Cell} {L : Int} (w : SliceWF res sl L)
    (p : Cell → Bool) : ((sl.filter p).map key3).Nodup := by
  apply List.Nodup.map_on
  · intro a ha b hb hab
    have ha' := (List.mem_filter.mp ha).1
    have hb' := (List.mem_filter.mp hb).1
    simp only [key3, Prod.mk.injEq] at hab
    exact sliceWF_key_inj w ha' hb' hab.1 hab.2.1 hab.2.2
  · exact w.nodup.filter _

theorem nodup_coord_of_key3 {l : List Cell} (h : (l.map key3).Nodup) : (l.map Cell.coord).Nodup := by
  have : (l.map Cell.coord).map (fun x : Coord => (x.ps, x.pe, x.ev)) = l.map key3 := by
    rw [List.map_map]; rfl
  rw [← this] at h
  exact h.of_map _

/-- **the aggregated cells**, one by one (A), without repetition (B), in triangle order (C) -/
theorem aggregate_disagg_cells {tr : Transc} {t out back : List Cell} {res : Nat} {ws : List Rat}
    {F : List String} {L q : Int} {s : String} {origin : Date} {a : AggArgs}
    (hwf : disaggWF res t = true) (hL : ∀ sl ∈ Triangle.slices t, periodResolution sl.2 = .ok L)
    (hws : ws ≠ []) (hcore : disaggCore t res ws F = .ok out)
    (hov : origin.valid = true) (hoe : origin.isMonthEnd = true)
    (hgrid : ∀ c ∈ t, ∃ z : Int, monthToId c.ps = monthToId origin + z * L + 1)
    (hst : standardizeResolution q s = .ok (L, .month))
    (hp : a.periodRes = some (q, s)) (he : a.evalRes = none) (ho : a.periodOrigin = origin)
    (hrule : ∀ c ∈ t, ∀ kv ∈ c.values, F.contains kv.1 = true →
      ruleOf [] (lowerKey kv.1) = some ⟨.sum, [kv.1]⟩ ∧ (a.prem = true ∨ kv.1 ∉ nonLossMetrics))
    (hagg : aggregate tr out a = .ok back) :
    (∀ o ∈ back, ∃ c ∈ t, obsSubs c res (L / (res : Int)).toNat ≠ [] ∧
      o.ps = c.ps ∧ o.pe = c.pe ∧ o.ev = c.ev ∧ o.md = c.md ∧ o.kind = .cumulative ∧ o.prev = none ∧
      o.values.keys.Perm (selKeys F c) ∧
      ∀ kv ∈ c.values, F.contains kv.1 = true →
        ∃ v, o.values.get? kv.1 = some v ∧ v ≠ .none ∧ kv.2 ≠ .none ∧ vdata v = vdata kv.2) ∧
    (back.map Cell.coord).Nodup ∧ back.Pairwise (fun x y => Cell.le x y) := by
  obtain ⟨aggs, haggs, hsum, hS⟩ := aggregate_disagg_setup hwf hL hws hcore hp he ho hagg
  have hback := aggSumTriangles_perm hsum
  refine ⟨?_, ?_, ?_⟩
  · intro o hob
    obtain ⟨agg, hagm, hoa⟩ := List.mem_flatten.mp (hback.mem_iff.mp hob)
    obtain ⟨S, hSm, hSa⟩ := smMapE_mem haggs hagm
    obtain ⟨sl, ps, hslm, _, w, hF, hSp, hper⟩ := hS S agg hSm hSa
    obtain ⟨c, hc, rest⟩ := aggregate_disagg_slice_values w hF hSp hov hoe
      (fun c hc => hgrid c (mem_slices_md hslm hc).2) hst
      (fun c hc => hrule c (mem_slices_md hslm hc).2) hper o hoa
    exact ⟨c, (mem_slices_md hslm hc).2, rest⟩
  · obtain ⟨G, hG1, hG2, hG3⟩ := smMapE_pairs haggs
    have hnd := nodup_flatten_tagged (fun o : Cell => o.md) Cell.coord
      (fun x y h => congrArg Coord.md h) (G.map fun p => (p.1.1, p.2))
      (by
        rw [List.map_map]
        have : (G.map ((fun p : Metadata × List Cell => p.1) ∘ fun p => (p.1.1, p.2))) =
            (G.map (·.1)).map (·.1) := by rw [List.map_map]; rfl
        rw [this, hG1, slices_keys]; exact metasOf_nodup out)
      (by
        intro p' hp'
        obtain ⟨p, hpG, rfl⟩ := List.mem_map.mp hp'
        have hSm : p.1 ∈ Triangle.slices out := by rw [← hG1]; exact List.mem_map.mpr ⟨p, hpG, rfl⟩
        obtain ⟨sl, ps, hslm, _, w, hF, hSp, hper⟩ := hS p.1 p.2 hSm (hG3 p hpG)
        have hkeys := aggregate_disagg_slice_keys w hF hSp hov hoe
          (fun c hc => hgrid c (mem_slices_md hslm hc).2) hst hper
        exact nodup_coord_of_key3 (hkeys.nodup_iff.mpr (sliceWF_obs_keys_nodup w _)))
      (by
        intro p' hp' o hoa
        obtain ⟨p, hpG, rfl⟩ := List.mem_map.mp hp'
        have hSm : p.1 ∈ Triangle.slices out := by rw [← hG1]; exact List.mem_map.mpr ⟨p, hpG, rfl⟩
        obtain ⟨sl, ps, hslm, hm, w, hF, hSp, hper⟩ := hS p.1 p.2 hSm (hG3 p hpG)
        obtain ⟨c, hc, _, _, _, _, h5, _⟩ := aggregate_disagg_slice w hF hSp hov hoe
          (fun c hc => hgrid c (mem_slices_md hslm hc).2) hst hper o hoa
        simp only
        rw [h5, (mem_slices_md hslm hc).1, hm])
    have hflat : (G.map fun p => (p.1.1, p.2)).map (·.2) = aggs := by
      rw [List.map_map, ← hG2]; rfl
    rw [hflat] at hnd
    exact ((hback.map Cell.coord).nodup_iff).mpr hnd
  · cases aggs with
    | nil => simp only [sumTriangles, Except.ok.injEq] at hsum; subst hsum; exact List.Pairwise.nil
    | cons a0 rest =>
      cases rest with
      | nil =>
        simp only [sumTriangles, smFoldE, Except.ok.injEq] at hsum
        subst hsum
        obtain ⟨S, hSm, hSa⟩ := smMapE_mem haggs (List.mem_singleton.mpr rfl)
        obtain ⟨sl, ps, _, _, _, _, _, hper⟩ := hS S _ hSm hSa
        exact aggregatePeriod_sorted hper
      | cons b rest' =>
        simp only [sumTriangles] at hsum
        obtain ⟨acc', y, hy⟩ := smFoldE_last rest' a0 b back hsum
        exact Properties.C01.ofCells_sorted hy

/-! ### `observable` (the Spec's filter) is "has an observable sub-period" -/

theorem observable_iff {res : Nat} {sl : List Cell} {L : Int} (w : SliceWF res sl L) {c : Cell}
    (hc : c ∈ sl) : observable res c = true ↔ obsSubs c res (L / (res : Int)).toNat ≠ [] := by
  obtain ⟨_, hd, h70, _, _⟩ := w.cell c hc
  obtain ⟨hn1, _⟩ := sliceWF_n w
  have hsp := subperiods_firstOf hd h70 res (L / (res : Int)).toNat
  have h0 : (addMonths c.ps ((res : Nat) : Rat)).pred = (subOf (monthToId c.ps) res 0).2 := by
    unfold subperiods at hsp
    have := List.map_inj_left.mp hsp 0 (by simp; omega)
    have := congrArg Prod.snd this
    simpa using this
  unfold observable obsSubs
  rw [decide_eq_true_eq, h0, hsp]
  constructor
  · intro h he
    have : subOf (monthToId c.ps) res 0 ∈ ((List.range (L / (res : Int)).toNat).map (subOf (monthToId c.ps) res)).filter
        fun p => decide (p.2 ≤ c.ev) :=
      List.mem_filter.mpr ⟨List.mem_map.mpr ⟨0, by simp; omega, rfl⟩, by simpa using h⟩
    rw [he] at this; simp at this
  · intro h
    obtain ⟨p, hp⟩ := List.exists_mem_of_ne_nil _ h
    obtain ⟨hm, hle⟩ := List.mem_filter.mp hp
    obtain ⟨k, _, rfl⟩ := List.mem_map.mp hm
    have hle : (subOf (monthToId c.ps) res k).2 ≤ c.ev := by simpa using hle
    cases k with
    | zero => exact hle
    | succ j => exact date_le_trans (date_le_of_lt (subOf_end_lt w.hres (Nat.succ_pos j))) hle

/-! ### order: both sides are sorted lists of distinct coordinates -/

/-- `Cell.__lt__` reads only the coordinates -/
def coordCmp5 : Coord → Coord → Ordering :=
  compareLex (cmpOn (·.md) Metadata.cmp) <|
  compareLex (cmpOn (·.ps) Date.cmp) <|
  compareLex (cmpOn (·.pe) Date.cmp) <|
  compareLex (cmpOn (·.ev) Date.cmp) (cmpOn (·.prev) optDateCmp)

instance : TransCmp coordCmp5 := by unfold coordCmp5; infer_instance

theorem cell_cmp_coord (a b : Cell) : Cell.cmp a b = coordCmp5 a.coord b.coord := rfl

theorem zip_of_map_eq {α β γ} (f : α → γ) (g : β → γ) :
    ∀ (l₁ : List α) (l₂ : List β), l₁.map f = l₂.map g → ∀ p ∈ l₁.zip l₂, f p.1 = g p.2
  | [], _, _, p, hp => by simp at hp
  | _ :: _, [], h, _, _ => by simp at h
  | a :: l₁, b :: l₂, h, p, hp => by
    simp only [List.map_cons, List.cons.injEq] at h
    simp only [List.zip_cons_cons, List.mem_cons] at hp
    rcases hp with rfl | hp
    · exact h.1
    · exact zip_of_map_eq f g l₁ l₂ h.2 p hp

theorem closeList_refl (l : List Rat) : closeList 0 l l = true := by
  induction l with
  | nil => rfl
  | cons a l ih => simp [closeList, close_zero_self, ih]

/-- the coordinates of a well-formed triangle are pairwise distinct -/
theorem disaggWF_coord_nodup {res : Nat} {t : List Cell} (hwf : disaggWF res t = true) :
    (t.map Cell.coord).Nodup := by
  have hnd := nodup_flatten_tagged (fun o : Cell => o.md) Cell.coord
    (fun x y h => congrArg Coord.md h) (Triangle.slices t)
    (by rw [slices_keys]; exact metasOf_nodup t)
    (by
      intro sl hsl
      obtain ⟨L, _, w⟩ := disaggWF_slice hwf hsl
      have := sliceWF_obs_keys_nodup w (fun _ => true)
      rw [List.filter_true] at this
      exact nodup_coord_of_key3 this)
    (fun sl hsl c hc => (mem_slices_md hsl hc).1)
  rw [← List.flatMap_def] at hnd
  exact (((slices_flatten_perm t).map Cell.coord).nodup_iff).mp hnd

/-- **Bool bridge.** From the cell-level facts to the executable predicate. -/
theorem aggBack_of_cells {t back : List Cell} {res : Nat} {F : List String} {L : Int}
    (hwf : disaggWF res t = true) (hL : ∀ sl ∈ Triangle.slices t, periodResolution sl.2 = .ok L)
    (hsorted : t.Pairwise (fun x y => Cell.le x y)) (hcanon : ∀ c ∈ t, c.md.Canon)
    (hprev : ∀ c ∈ t, c.prev = none)
    (hA : ∀ o ∈ back, ∃ c ∈ t, obsSubs c res (L / (res : Int)).toNat ≠ [] ∧
      o.ps = c.ps ∧ o.pe = c.pe ∧ o.ev = c.ev ∧ o.md = c.md ∧ o.kind = .cumulative ∧ o.prev = none ∧
      o.values.keys.Perm (selKeys F c) ∧
      ∀ kv ∈ c.values, F.contains kv.1 = true →
        ∃ v, o.values.get? kv.1 = some v ∧ v ≠ .none ∧ kv.2 ≠ .none ∧ vdata v = vdata kv.2)
    (hB : (back.map Cell.coord).Nodup) (hC : back.Pairwise (fun x y => Cell.le x y))
    (hD : ∀ c ∈ t, obsSubs c res (L / (res : Int)).toNat ≠ [] →
      ∃ o ∈ back, o.md = c.md ∧ o.ps = c.ps ∧ o.pe = c.pe ∧ o.ev = c.ev) :
    back.map Cell.coord = (t.filter (observable res)).map Cell.coord ∧
    aggBackSpec res F 0 t back = true := by
  -- the Spec's filter
  have hfilt : t.filter (observable res) =
      t.filter fun c => decide (obsSubs c res (L / (res : Int)).toNat ≠ []) := by
    apply List.filter_congr
    intro c hc
    obtain ⟨sl, hsl, _, hcs⟩ := slices_fst_mem hc
    obtain ⟨L', hL', w⟩ := disaggWF_slice hwf hsl
    have : L' = L := by rw [hL sl hsl] at hL'; cases hL'; rfl
    subst this
    have := observable_iff w hcs
    by_cases ho : observable res c = true
    · rw [ho]; exact (decide_eq_true (this.mp ho)).symm
    · have hno : ¬ obsSubs c res (L' / (res : Int)).toNat ≠ [] := fun h => ho (this.mpr h)
      rw [Bool.not_eq_true] at ho
      rw [ho]; exact (decide_eq_false hno).symm
  have htn := disaggWF_coord_nodup hwf
  have hE : ((t.filter (observable res)).map Cell.coord).Nodup :=
    (List.filter_sublist.map _).nodup htn
  have hcoordA : ∀ o ∈ back, ∃ c ∈ t.filter (observable res), o.coord = c.coord := by
    intro o ho
    obtain ⟨c, hc, hobs, e1, e2, e3, e4, _, e6, _⟩ := hA o ho
    refine ⟨c, ?_, ?_⟩
    · rw [hfilt]; exact List.mem_filter.mpr ⟨hc, decide_eq_true hobs⟩
    · simp only [Cell.coord, Coord.mk.injEq]
      exact ⟨e4, e1, e2, e3, by rw [e6, hprev c hc]⟩
  have hperm : (back.map Cell.coord).Perm ((t.filter (observable res)).map Cell.coord) := by
    rw [List.perm_ext_iff_of_nodup hB hE]
    intro x
    constructor
    · intro hx
      obtain ⟨o, ho, rfl⟩ := List.mem_map.mp hx
      obtain ⟨c, hc, he⟩ := hcoordA o ho
      exact List.mem_map.mpr ⟨c, hc, he.symm⟩
    · intro hx
      obtain ⟨c, hc, rfl⟩ := List.mem_map.mp hx
      rw [hfilt] at hc
      obtain ⟨hct, hobs⟩ := List.mem_filter.mp hc
      obtain ⟨o, ho, e4, e1, e2, e3⟩ := hD c hct (of_decide_eq_true hobs)
      obtain ⟨_, _, _, _, _, _, _, _, e6, _⟩ := hA o ho
      refine List.mem_map.mpr ⟨o, ho, ?_⟩
      simp only [Cell.coord, Coord.mk.injEq]
      exact ⟨e4, e1, e2, e3, by rw [e6, hprev c hct]⟩
  have heq : back.map Cell.coord = (t.filter (observable res)).map Cell.coord := by
    apply sorted_perm_unique (cmp := coordCmp5) _ _ _ hperm
    · intro x y hx hy hxy
      obtain ⟨o, ho, rfl⟩ := List.mem_map.mp hx
      obtain ⟨c, hc, rfl⟩ := List.mem_map.mp hy
      obtain ⟨c', hc', _, _, _, _, e4, _⟩ := hA o ho
      rw [← cell_cmp_coord] at hxy
      exact (Cell.cmp_eq_eq (by rw [e4]; exact hcanon c' hc') (hcanon c (List.mem_filter.mp hc).1)).mp hxy
    · rw [List.pairwise_map]; exact hC
    · rw [List.pairwise_map]; exact hsorted.sublist List.filter_sublist
  refine ⟨heq, ?_⟩
  unfold aggBackSpec
  simp only [Bool.and_eq_true, beq_iff_eq, List.all_eq_true]
  refine ⟨by simpa using congrArg List.length heq, ?_⟩
  rintro ⟨c, o⟩ hp
  have hco : o.coord = c.coord := (zip_of_map_eq Cell.coord Cell.coord _ _ heq.symm (c, o) hp).symm
  have hcE := (List.of_mem_zip hp).1
  have hct : c ∈ t := (List.mem_filter.mp hcE).1
  have hob : o ∈ back := (List.of_mem_zip hp).2
  obtain ⟨c', hc', _, e1, e2, e3, e4, _, _, hkeys, hvals⟩ := hA o hob
  have hcc : c' = c := by
    apply List.inj_on_of_nodup_map htn hc' hct
    rw [← hco]
    simp only [Cell.coord, Coord.mk.injEq]
    obtain ⟨_, _, _, _, _, _, _, _, e6, _⟩ := hA o hob
    exact ⟨e4.symm, e1.symm, e2.symm, e3.symm, by rw [e6, hprev c' hc']⟩
  subst hcc
  refine ⟨⟨⟨⟨⟨e4, e1⟩, e2⟩, e3⟩, ?_⟩, ?_⟩
  · unfold Spec.C18.sameKeys
    rw [beq_iff_eq]
    exact Bermuda.sortStrings_eq_iff_perm.mpr hkeys
  · intro kv hkv
    obtain ⟨hkv1, hkf⟩ := List.mem_filter.mp hkv
    obtain ⟨v, hget, hvn, hkn, hvd⟩ := hvals kv hkv1 hkf
    simp only [hget]
    simp [valClose, hvn, hkn, hvd, closeList_refl]

/-! ### hypotheses of the bridge from "t is a triangle" -/

/-- the non-trivial branch of `disaggregate_experience`: cumulative input, validated weights -/
theorem disaggregateExperience_core' {t out : List Cell} {res : Nat} {weights : Option (List Num)}
    {fields : Option (List String)} (h : disaggregateExperience t res weights fields = .ok out) :
    out = t ∨ (isIncremental t = false ∧ ∃ ws, ws ≠ [] ∧
      disaggCore t res ws (fields.getD Generated.Units.defaultInterpolationFields) = .ok out) := by
  unfold disaggregateExperience at h
  split at h
  · cases h
  · split at h
    · cases h
    · split at h
      · cases h
      · split at h
        · simp only [Except.ok.injEq] at h; exact .inl h.symm
        · simp only at h
          split at h
          · cases h
          · split at h
            · cases h
            · split at h
              · cases h
              · split at h
                · cases h
                · split at h
                  · cases h
                  · split at h
                    · cases h
                    · rename_i hsum
                      split at h
                      · cases h
                      · rename_i hinc
                        refine .inr ⟨by simpa using hinc, _, ?_, h⟩
                        intro he; rw [he] at hsum; simp at hsum

/-- cells of a non-incremental triangle have no previous evaluation date -/
theorem prev_none_of_triangle {t : List Cell} (hk : kindsConsistent t = true)
    (hd : ∀ c ∈ t, c.datesOk = true) (hi : isIncremental t = false) : ∀ c ∈ t, c.prev = none := by
  intro c hc
  have hkind : c.kind ≠ .incremental := by
    cases t with
    | nil => cases hc
    | cons c0 rest =>
      have h0 : c0.kind ≠ .incremental := by simpa [isIncremental] using hi
      intro hci
      simp only [kindsConsistent, Bool.or_eq_true, List.all_eq_true, beq_iff_eq] at hk
      rcases hk with (hk | hk) | hk
      · have := hk c hc; rw [hci] at this; cases this
      · have := hk c hc; rw [hci] at this; cases this
      · exact h0 (hk c0 (by simp))
  have := hd c hc
  unfold Cell.datesOk at this
  cases hkd : c.kind <;> cases hp : c.prev <;> simp_all

end Bermuda.Units
