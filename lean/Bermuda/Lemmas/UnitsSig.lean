/-
C18 `aggregate_disagg`: the SHAPE side of the round trip.

C09's lemmas read the conforming sum sample by sample (`Val.at`); `Spec.C18.valClose` compares whole
data vectors (`vdata`). The bridge is a signature: every part `_weight_cell_values` makes of a value
is a float scalar or a float array of one fixed shape and length (`psg` of the original value), the
conforming sum (`smFoldE sumStep`) of equally signed floats keeps that signature (`fsg`), and a value
is determined by its signature and its `at` readings.
-/
import Bermuda.Lemmas.UnitsAt
import Bermuda.Lemmas.Summarize
namespace Bermuda.Units
open Bermuda Bermuda.Spec.C18

/-- `none`: float scalar; `some (shape, n)`: float array of that shape with `n` numbers -/
abbrev Sig := Option (List Nat × Nat)

/-- signature of a float value (what the parts and their sums are) -/
def fsg : Val → Option Sig
  | .flt _ => some none
  | .arr false s d => some (some (s, d.length))
  | _ => none

/-- signature of the parts `weightValue` makes of a value (`None` and rank ≥ 2 have none) -/
def psg : Val → Option Sig
  | .int _ => some none
  | .flt _ => some none
  | .arr _ [] d => some (some ([1], d.length))
  | .arr _ [n] d => some (some ([n], d.length))
  | _ => none

/-- the sample indices a signature has -/
def idxOk : Sig → Nat → Prop
  | none, i => i = 0
  | some (_, m), i => i < m

theorem weightValue_sig {v : Val} {cw : List Rat} {parts : List Val} (h : weightValue v cw = .ok parts)
    {p : Val} (hp : p ∈ parts) : ∃ σ, psg v = some σ ∧ fsg p = some σ := by
  unfold weightValue at h
  obtain ⟨w, _, hr⟩ := (mapM_ok_forall2 h).mem_right hp
  split at hr <;> cases hr
  · exact ⟨none, by simp [psg], by simp [fsg]⟩
  · exact ⟨none, by simp [psg], by simp [fsg]⟩
  · rename_i d
    exact ⟨some ([1], d.length), by simp [psg], by simp [fsg]⟩
  · rename_i n d
    exact ⟨some ([n], d.length), by simp [psg], by simp [fsg]⟩

theorem range_map_getD (d : List Rat) : (List.range d.length).map (fun i => d.getD i 0) = d := by
  apply List.ext_getElem
  · simp
  · intro i h1 h2
    simp at h1
    simp [h1]

theorem vdata_of_fsg {r : Val} {σ : Sig} (h : fsg r = some σ) :
    r ≠ .none ∧ vdata r = match σ with
      | none => [r.at 0]
      | some (_, m) => (List.range m).map r.at := by
  cases r with
  | none => simp [fsg] at h
  | int _ => simp [fsg] at h
  | flt q => simp only [fsg, Option.some.injEq] at h; subst h; simp [vdata, Val.data, Val.at]
  | arr b s d =>
    cases b with
    | true => simp [fsg] at h
    | false =>
      simp only [fsg, Option.some.injEq] at h; subst h
      refine ⟨by simp, ?_⟩
      simp only [vdata, Val.data, Option.getD_some]
      exact (range_map_getD d).symm

theorem vdata_of_psg {v : Val} {σ : Sig} (h : psg v = some σ) :
    v ≠ .none ∧ vdata v = match σ with
      | none => [v.at 0]
      | some (_, m) => (List.range m).map v.at := by
  unfold psg at h
  split at h
  · simp only [Option.some.injEq] at h; subst h; simp [vdata, Val.data, Val.at]
  · simp only [Option.some.injEq] at h; subst h; simp [vdata, Val.data, Val.at]
  · simp only [Option.some.injEq] at h; subst h
    refine ⟨by simp, ?_⟩
    simp only [vdata, Val.data, Option.getD_some]
    exact (range_map_getD _).symm
  · simp only [Option.some.injEq] at h; subst h
    refine ⟨by simp, ?_⟩
    simp only [vdata, Val.data, Option.getD_some]
    exact (range_map_getD _).symm
  · cases h

/-- a float value and an original value of the same signature with the same readings hold the same
numbers -/
theorem vdata_eq_of_sig {r v : Val} {σ : Sig} (hr : fsg r = some σ) (hv : psg v = some σ)
    (hat : ∀ i, idxOk σ i → r.at i = v.at i) : r ≠ .none ∧ v ≠ .none ∧ vdata r = vdata v := by
  obtain ⟨h1, h2⟩ := vdata_of_fsg hr
  obtain ⟨h3, h4⟩ := vdata_of_psg hv
  refine ⟨h1, h3, ?_⟩
  rw [h2, h4]
  cases σ with
  | none => simp only; rw [hat 0 rfl]
  | some sm =>
    obtain ⟨s, m⟩ := sm
    simp only
    apply List.map_congr_left
    intro i hi
    exact hat i (by simpa [idxOk] using hi)

theorem inRange_of_fsg {r : Val} {σ : Sig} (h : fsg r = some σ) {i : Nat} (hi : idxOk σ i) :
    r.inRange i = true := by
  cases r with
  | none => rfl
  | int _ => rfl
  | flt _ => rfl
  | arr b s d =>
    cases b with
    | true => simp [fsg] at h
    | false =>
      simp only [fsg, Option.some.injEq] at h; subst h
      simpa [Val.inRange, idxOk] using hi

/-! ### the conforming sum keeps the signature -/

theorem sumStep_fsg {t v r : Val} {σ : Sig} (ht : fsg t = some σ) (hv : fsg v = some σ)
    (h : sumStep t v = .ok r) : fsg r = some σ := by
  cases t with
  | none => simp [fsg] at ht
  | int _ => simp [fsg] at ht
  | flt a =>
    simp only [fsg, Option.some.injEq] at ht; subst ht
    cases v with
    | none => simp [fsg] at hv
    | int _ => simp [fsg] at hv
    | flt b =>
      simp only [sumStep, Val.isNone, shapeClash, Val.isScalar, Val.iAdd, Val.nAdd] at h
      simp at h
      subst h; rfl
    | arr b s d => cases b <;> simp [fsg] at hv
  | arr bt s d =>
    cases bt with
    | true => simp [fsg] at ht
    | false =>
      simp only [fsg, Option.some.injEq] at ht; subst ht
      cases v with
      | none => simp [fsg] at hv
      | int _ => simp [fsg] at hv
      | flt _ => simp [fsg] at hv
      | arr bv s' d' =>
        cases bv with
        | true => simp [fsg] at hv
        | false =>
          simp only [fsg, Option.some.injEq, Prod.mk.injEq] at hv
          obtain ⟨rfl, hlen⟩ := hv
          simp only [sumStep, Val.isNone, shapeClash, Val.isScalar, Val.shape, Val.iAdd, Val.nAdd] at h
          simp at h
          subst h
          simp [fsg, List.length_zipWith, hlen]

theorem sumStep_int_fsg {k : Int} {v r : Val} {σ : Sig} (hv : fsg v = some σ)
    (h : sumStep (.int k) v = .ok r) : fsg r = some σ := by
  cases v with
  | none => simp [fsg] at hv
  | int _ => simp [fsg] at hv
  | flt b =>
    simp only [fsg, Option.some.injEq] at hv; subst hv
    simp only [sumStep, Val.isNone, shapeClash, Val.isScalar, Val.iAdd, Val.nAdd] at h
    simp at h
    subst h; rfl
  | arr b s d =>
    cases b with
    | true => simp [fsg] at hv
    | false =>
      simp only [fsg, Option.some.injEq] at hv; subst hv
      simp only [sumStep, Val.isNone, shapeClash, Val.isScalar, Val.iAdd, Val.nAdd] at h
      simp at h
      subst h
      simp [fsg]

theorem foldE_sumStep_fsg {vs : List Val} {t r : Val} {σ : Sig} (ht : fsg t = some σ)
    (hv : ∀ v ∈ vs, fsg v = some σ) (h : smFoldE sumStep t vs = .ok r) : fsg r = some σ := by
  induction vs generalizing t with
  | nil => simp only [smFoldE] at h; cases h; exact ht
  | cons v rest ih =>
    simp only [smFoldE] at h
    split at h
    · cases h
    · rename_i t' ht'
      exact ih (sumStep_fsg ht (hv v (by simp)) ht') (fun w hw => hv w (by simp [hw])) h

/-- **the conforming sum of equally signed float values has that signature** (at least one value) -/
theorem conformingSum_fsg {vs : List Val} {r : Val} {σ : Sig} (hne : vs ≠ [])
    (hv : ∀ v ∈ vs, fsg v = some σ) (h : conformingSum vs = .ok r) : fsg r = some σ := by
  cases vs with
  | nil => exact absurd rfl hne
  | cons v rest =>
    unfold conformingSum at h
    simp only [smFoldE] at h
    split at h
    · cases h
    · rename_i t' ht'
      exact foldE_sumStep_fsg (sumStep_int_fsg (hv v (by simp)) ht') (fun w hw => hv w (by simp [hw])) h

/-! ### the sub-period cells carry the signature of the original values -/

theorem subCell_sig {c : Cell} {fields : List String} {cw : List Rat}
    {weighted : List (String × List Val)} {subs : List (Date × Date)} {k : Nat} {o : Cell}
    (hk : KN c.values)
    (hW : Forall2 (fun (kv : String × Val) (e : String × List Val) =>
      e.1 = kv.1 ∧ weightValue kv.2 cw = .ok e.2) c.values weighted)
    (h : subCell c fields weighted subs k = .ok o) {kv : String × Val} (hkv : kv ∈ c.values)
    (hf : fields.contains kv.1 = true) :
    ∃ σ, psg kv.2 = some σ ∧ fsg (o.getV kv.1) = some σ := by
  unfold subCell at h
  cases hv : subValues c fields weighted k with
  | error e => simp [hv, bind, Except.bind] at h
  | ok vals =>
    simp only [hv, bind, Except.bind] at h
    obtain ⟨rfl, _⟩ := mk?_ok h
    unfold subValues at hv
    have hV := mapM_ok_forall2 hv
    have hkf : KN (c.values.filter fun kv => fields.contains kv.1) := by
      unfold KN at *
      exact (List.filter_sublist.map _).nodup hk
    have hV' : Forall2 (fun (kv kv' : String × Val) => kv'.1 = kv.1 ∧
        ∃ σ, psg kv.2 = some σ ∧ fsg kv'.2 = some σ)
        (c.values.filter fun kv => fields.contains kv.1) vals := by
      refine hV.imp fun kv kv' hkv hr => ?_
      have hkv' : kv ∈ c.values := (List.mem_filter.mp hkv).1
      obtain ⟨e, hfind, hwv⟩ := forall2_find_key hW hk hkv'
      rw [hfind] at hr
      simp only [Option.bind_some] at hr
      cases hp : e.2[k]? with
      | none => simp [hp] at hr
      | some p =>
        simp only [hp, Except.ok.injEq] at hr
        subst hr
        exact ⟨rfl, weightValue_sig hwv (List.mem_of_getElem? hp)⟩
    have hsel : kv ∈ c.values.filter fun kv => fields.contains kv.1 := List.mem_filter.mpr ⟨hkv, hf⟩
    obtain ⟨b, hfind, hb⟩ := forall2_find_key hV' hkf hsel
    have : Dict.get? vals kv.1 = some b.2 := by simp [Dict.get?, hfind]
    show ∃ σ, psg kv.2 = some σ ∧ fsg ((Dict.get? vals kv.1).getD .none) = some σ
    rw [this]
    exact hb

theorem disaggCell_sig {c : Cell} {res n : Nat} {ws : List Rat} {fields : List String}
    {cells : List Cell} (hk : KN c.values)
    (h : disaggCell c res n ws fields = .ok cells) {o : Cell} (ho : o ∈ cells)
    {kv : String × Val} (hkv : kv ∈ c.values) (hf : fields.contains kv.1 = true) :
    ∃ σ, psg kv.2 = some σ ∧ fsg (o.getV kv.1) = some σ := by
  unfold disaggCell at h
  simp only [bind, Except.bind] at h
  split at h
  · cases h
  · cases hw : weightedTable c (renorm (ws.take (obsSubs c res n).length)) with
    | error e => simp [hw] at h
    | ok weighted =>
      simp only [hw] at h
      have hW := weightedTable_spec hw
      obtain ⟨k, _, hko⟩ := (mapM_ok_forall2 h).mem_right ho
      exact subCell_sig hk hW hko hkv hf

end Bermuda.Units
