/-
`disagg_spec_bridge` (C18): the groups of `disaggregate_experience`, slice by slice, and the proof
that the executable predicate `Spec.C18.disaggSpec` holds on the model's own output.
-/
import Bermuda.Lemmas.UnitsDates
import Bermuda.Lemmas.UnitsAt
import Bermuda.Lemmas.UnitsSig
import Bermuda.Lemmas.Basis
namespace Bermuda.Units
open Bermuda Bermuda.Spec.C18 Std

theorem Forall2.zip {α β} {R : α → β → Prop} {l : List α} {r : List β} (h : Forall2 R l r) :
    l.length = r.length ∧ ∀ p ∈ l.zip r, R p.1 p.2 := by
  induction h with
  | nil => simp
  | cons hab _ ih =>
    refine ⟨by simp [ih.1], ?_⟩
    intro p hp
    simp only [List.zip_cons_cons, List.mem_cons] at hp
    rcases hp with rfl | hp
    · exact hab
    · exact ih.2 p hp

theorem flatten_filter_nil {β} (r : List (List β)) (P : β → Bool) (h : ∀ b ∈ r, b.filter P = []) :
    r.flatten.filter P = [] := by
  induction r with
  | nil => rfl
  | cons b rest ih =>
    rw [List.flatten_cons, List.filter_append, h b (by simp), ih fun b' hb' => h b' (by simp [hb'])]
    rfl

/-- in a list of groups indexed by distinct keys, filtering the concatenation with a predicate that
only the group of `p` can satisfy gives the filtered group of `p` -/
theorem flatten_filter_isolate {α β κ} (key : α → κ) (P : β → Bool) :
    ∀ (l : List α) (r : List (List β)), l.length = r.length → (l.map key).Nodup → ∀ p ∈ l.zip r,
      (∀ q ∈ l.zip r, key q.1 ≠ key p.1 → q.2.filter P = []) →
      r.flatten.filter P = p.2.filter P := by
  intro l
  induction l with
  | nil => intro r _ _ p hp; simp at hp
  | cons a l' ih =>
    intro r hlen hn p hp hsep
    cases r with
    | nil => simp at hp
    | cons b r' =>
      rw [List.map_cons, List.nodup_cons] at hn
      simp only [List.zip_cons_cons, List.mem_cons] at hp
      rw [List.flatten_cons, List.filter_append]
      rcases hp with rfl | hp
      · have : r'.flatten.filter P = [] := by
          apply flatten_filter_nil
          intro b' hb'
          obtain ⟨i, hi, rfl⟩ := List.getElem_of_mem hb'
          have hil : i < l'.length := by simp at hlen; omega
          · have hq : (l'[i], r'[i]) ∈ (a :: l').zip (b :: r') := by
              simp only [List.zip_cons_cons, List.mem_cons]
              right
              exact List.mem_iff_getElem.mpr ⟨i, by simp [hil, hi], by simp⟩
            exact hsep _ hq (fun e => hn.1 (by rw [← e]; exact List.mem_map.mpr ⟨l'[i], List.getElem_mem hil, rfl⟩))
        rw [this, List.append_nil]
      · have hne : key a ≠ key p.1 := by
          intro e
          apply hn.1
          rw [e]
          exact List.mem_map.mpr ⟨p.1, (List.of_mem_zip hp).1, rfl⟩
        have hb : b.filter P = [] := hsep (a, b) (by simp) hne
        rw [hb, List.nil_append]
        exact ih r' (by simpa using hlen) hn.2 p hp fun q hq hk => hsep q (by simp [hq]) hk



/-- `part` is the group of `c` when the slice has `n` sub-periods per period -/
def SubCellsN (res n : Nat) (F : List String) (c : Cell) (part : List Cell) : Prop :=
  part.map period = obsSubs c res n ∧
  (∀ o ∈ part, o.md = c.md ∧ o.ev = c.ev ∧ o.kind = .cell ∧
    o.values.map (·.1) = (c.values.filter fun kv => F.contains kv.1).map (·.1)) ∧
  (part ≠ [] → ∀ f, F.contains f = true → ∀ i, total part f i = cellField c f i) ∧
  (part ≠ [] → ∀ f, F.contains f = true → ∀ i,
    (part.map fun o => (o.getV f).at i).sum = (c.getV f).at i) ∧
  (∀ o ∈ part, ∀ kv ∈ c.values, F.contains kv.1 = true →
    ∃ σ, psg kv.2 = some σ ∧ fsg (o.getV kv.1) = some σ)

theorem disaggSlice_groups {sl out : List Cell} {res : Nat} {ws : List Rat} {fields : List String}
    (hk : ∀ c ∈ sl, KN c.values) (hws : ws ≠ []) (h : disaggSlice sl res ws fields = .ok out) :
    ∃ sres parts, periodResolution sl = .ok sres ∧ out = parts.flatten ∧
      Forall2 (SubCellsN res (sres / (res : Int)).toNat fields) sl parts := by
  unfold disaggSlice at h
  cases hr : periodResolution sl with
  | error e => simp [hr, bind, Except.bind] at h
  | ok sres =>
    simp only [hr, bind, Except.bind] at h
    cases hm : sl.mapM (fun c => disaggCell c res (sres / (res : Int)).toNat ws fields) with
    | error e => simp [hm] at h
    | ok parts =>
      simp only [hm, pure, Except.pure, Except.ok.injEq] at h
      refine ⟨sres, parts, rfl, h.symm, (mapM_ok_forall2 hm).imp fun c part hc hp => ?_⟩
      obtain ⟨_, h2, h3⟩ := disaggCell_spec (hk c hc) hws hp
      exact ⟨disaggCell_periods (hk c hc) hp,
        fun o ho => ⟨(h2 o ho).1, (h2 o ho).2.1, (h2 o ho).2.2.1, (h2 o ho).2.2.2.2⟩, h3,
        fun hne f hf i => disaggCell_at (hk c hc) hws hp hne f hf i,
        fun o ho kv hkv hf => disaggCell_sig (hk c hc) hp ho hkv hf⟩

theorem disaggCore_groups {t out : List Cell} {res : Nat} {ws : List Rat} {fields : List String}
    (hk : ∀ c ∈ t, KN c.values) (hws : ws ≠ []) (h : disaggCore t res ws fields = .ok out) :
    ∃ pss : List (List (List Cell)), out.Perm pss.flatten.flatten ∧
      Forall2 (fun sl ps => ∃ sres, periodResolution sl.2 = .ok sres ∧
        Forall2 (SubCellsN res (sres / (res : Int)).toNat fields) sl.2 ps) (Triangle.slices t) pss := by
  unfold disaggCore at h
  cases hm : (Triangle.slices t).mapM (fun sl => disaggSlice sl.2 res ws fields) with
  | error e => simp [hm, bind, Except.bind] at h
  | ok parts0 =>
    simp only [hm, bind, Except.bind] at h
    have hperm := ofCells_perm' h
    have hF := mapM_ok_forall2 hm
    have hF' : ∀ sl p0, sl ∈ Triangle.slices t → disaggSlice sl.2 res ws fields = .ok p0 →
        ∃ sres ps, periodResolution sl.2 = .ok sres ∧ p0 = ps.flatten ∧
          Forall2 (SubCellsN res (sres / (res : Int)).toNat fields) sl.2 ps :=
      fun sl p0 hsl hp => disaggSlice_groups (fun c hc => hk c (mem_slices_md hsl hc).2) hws hp
    have : ∃ pss : List (List (List Cell)), parts0 = pss.map List.flatten ∧
        Forall2 (fun sl ps => ∃ sres, periodResolution sl.2 = .ok sres ∧
          Forall2 (SubCellsN res (sres / (res : Int)).toNat fields) sl.2 ps) (Triangle.slices t) pss := by
      clear h hperm hm
      generalize Triangle.slices t = slices at hF hF' ⊢
      induction hF with
      | nil => exact ⟨[], rfl, .nil⟩
      | @cons sl p0 l₁ l₂ hab _ ih =>
        obtain ⟨sres, ps, hres, hp, hps⟩ := hF' sl p0 (by simp) hab
        obtain ⟨pss, hpss, hall⟩ := ih fun sl' p' hs' => hF' sl' p' (by simp [hs'])
        exact ⟨ps :: pss, by simp [hp, hpss], .cons ⟨sres, hres, hps⟩ hall⟩
    obtain ⟨pss, hp0, hall⟩ := this
    refine ⟨pss, ?_, hall⟩
    rw [hp0] at hperm
    rw [List.flatten_flatten]
    exact hperm

/-- the non-trivial branch of `disaggregate_experience` runs `disaggCore` with validated weights -/
theorem disaggregateExperience_core {t out : List Cell} {res : Nat} {weights : Option (List Num)}
    {fields : Option (List String)} (h : disaggregateExperience t res weights fields = .ok out) :
    out = t ∨ ∃ ws, ws ≠ [] ∧
      disaggCore t res ws (fields.getD Generated.Units.defaultInterpolationFields) = .ok out := by
  unfold disaggregateExperience at h
  split at h
  · cases h
  · split at h
    · cases h
    · split at h
      · cases h
      · split at h
        · simp only [Except.ok.injEq] at h; exact .inl h.symm
        · simp only at h
          split at h
          · cases h
          · split at h
            · cases h
            · split at h
              · cases h
              · split at h
                · cases h
                · split at h
                  · cases h
                  · split at h
                    · cases h
                    · rename_i hsum
                      split at h
                      · cases h
                      · refine .inr ⟨_, ?_, h⟩
                        intro he; rw [he] at hsum; simp at hsum



theorem firstOf_monthToId {d : Date} (hv : d.valid = true) (hd : d.d = 1) : firstOf (monthToId d) = d := by
  unfold firstOf
  rw [yearOf_monthToId hv, monthOf_monthToId hv, ← hd]

/-- what `disaggWF` says about one slice -/
structure SliceWF (res : Nat) (sl : List Cell) (L : Int) : Prop where
  hres : 1 ≤ res
  hL : 0 < L
  hdiv : L % (res : Int) = 0
  nodup : sl.Nodup
  cell : ∀ c ∈ sl, c.ps.valid = true ∧ c.ps.d = 1 ∧ 0 ≤ monthToId c.ps ∧
    c.pe = (addMonths c.ps ((L.toNat : Nat) : Rat)).pred ∧ KN c.values
  disj : ∀ c ∈ sl, ∀ c' ∈ sl, c ≠ c' → c.ev = c'.ev → c.pe < c'.ps ∨ c'.pe < c.ps

theorem disaggWF_slice {res : Nat} {t : List Cell} (h : disaggWF res t = true)
    {sl : Metadata × List Cell} (hsl : sl ∈ Triangle.slices t) :
    ∃ L, periodResolution sl.2 = .ok L ∧ SliceWF res sl.2 L := by
  unfold disaggWF at h
  have := List.all_eq_true.mp h sl hsl
  split at this
  · rename_i L hL
    simp only [Bool.and_eq_true, decide_eq_true_eq, beq_iff_eq, List.all_eq_true, Bool.or_eq_true,
      bne_iff_ne, ne_eq] at this
    obtain ⟨⟨⟨⟨⟨h1, h2⟩, h3⟩, h4⟩, h5⟩, h6⟩ := this
    refine ⟨L, hL, ⟨h1, h2, h3, h4, ?_, ?_⟩⟩
    · intro c hc
      obtain ⟨⟨⟨⟨a, b⟩, c'⟩, d⟩, e⟩ := h5 c hc
      exact ⟨a, b, c', d, e⟩
    · intro c hc c' hc' hne hev
      rcases h6 c hc c' hc' with ((h | h) | h) | h
      · exact absurd h hne
      · exact absurd hev h
      · exact .inl h
      · exact .inr h
  · cases this

/-- the number of sub-periods per period -/
theorem sliceWF_n {res : Nat} {sl : List Cell} {L : Int} (w : SliceWF res sl L) :
    1 ≤ (L / (res : Int)).toNat ∧ L = (((L / (res : Int)).toNat * res : Nat) : Int) := by
  have hr : (0 : Int) < res := by have := w.hres; omega
  have h1 : (res : Int) * (L / (res : Int)) = L :=
    Int.mul_ediv_cancel' (Int.dvd_of_emod_eq_zero w.hdiv)
  have hq : 0 < L / (res : Int) := by
    by_contra hc
    have : L / (res : Int) ≤ 0 := by omega
    have := Int.mul_le_mul_of_nonneg_left this (_root_.le_of_lt hr)
    have := w.hL
    omega
  constructor
  · omega
  · push_cast
    rw [Int.toNat_of_nonneg (_root_.le_of_lt hq)]
    rw [Int.mul_comm]; omega

theorem sliceWF_expected {res : Nat} {sl : List Cell} {L : Int} (w : SliceWF res sl L) {c : Cell}
    (hc : c ∈ sl) : expectedSubs res c = obsSubs c res (L / (res : Int)).toNat := by
  obtain ⟨_, hd, h70, hpe, _⟩ := w.cell c hc
  exact expectedSubs_eq w.hres hd h70 (sliceWF_n w).2 (sliceWF_n w).1 hpe

/-- an expected sub-period lies inside the cell's period -/
theorem mem_expectedSubs {res : Nat} {sl : List Cell} {L : Int} (w : SliceWF res sl L) {c : Cell}
    (hc : c ∈ sl) {p : Date × Date} (hp : p ∈ expectedSubs res c) :
    c.ps ≤ p.1 ∧ p.1 ≤ p.2 ∧ p.2 ≤ c.pe := by
  obtain ⟨hv, hd, h70, _, _⟩ := w.cell c hc
  unfold expectedSubs at hp
  obtain ⟨hm, hf⟩ := List.mem_filter.mp hp
  rw [subperiods_firstOf hd h70] at hm
  obtain ⟨k, _, rfl⟩ := List.mem_map.mp hm
  simp only [Bool.and_eq_true, decide_eq_true_eq] at hf
  refine ⟨?_, subOf_start_le_end _ w.hres k, hf.1⟩
  have := subOf_start_ge (monthToId c.ps) res k
  rwa [firstOf_monthToId hv hd] at this

theorem expectedSubs_disjoint {res : Nat} {sl : List Cell} {L : Int} (w : SliceWF res sl L) {c c' : Cell}
    (hc : c ∈ sl) (hc' : c' ∈ sl) (hne : c ≠ c') (hev : c.ev = c'.ev) {p : Date × Date}
    (hp : p ∈ expectedSubs res c) (hp' : p ∈ expectedSubs res c') : False := by
  obtain ⟨a1, a2, a3⟩ := mem_expectedSubs w hc hp
  obtain ⟨b1, b2, b3⟩ := mem_expectedSubs w hc' hp'
  rcases w.disj c hc c' hc' hne hev with h | h
  · -- p.2 ≤ c.pe < c'.ps ≤ p.1 ≤ p.2
    have := date_lt_of_lt_of_le (date_lt_of_lt_of_le h b1) b2
    exact date_lt_irrefl _ (date_lt_of_lt_of_le this a3)
  · have := date_lt_of_lt_of_le (date_lt_of_lt_of_le h a1) a2
    exact date_lt_irrefl _ (date_lt_of_lt_of_le this b3)



theorem slices_keys (t : List Cell) : (Triangle.slices t).map (·.1) = metasOf t := by
  unfold Triangle.slices
  rw [List.map_map]
  exact List.map_id'' (fun _ => rfl) _

/-- the selection predicate of `childrenOf` -/
def childP (res : Nat) (c : Cell) (o : Cell) : Bool :=
  o.md == c.md && o.ev == c.ev && (expectedSubs res c).contains (o.ps, o.pe)

theorem childrenOf_eq (res : Nat) (out : List Cell) (c : Cell) :
    childrenOf res out c = out.filter (childP res c) := rfl

/-- with the hypotheses of `disaggWF`, the children the predicate selects for a cell are exactly the
group the model produced for it -/
theorem children_perm {t out : List Cell} {res : Nat} {F : List String}
    {pss : List (List (List Cell))} (hwf : disaggWF res t = true)
    (hperm : out.Perm pss.flatten.flatten)
    (hall : Forall2 (fun sl ps => ∃ sres, periodResolution sl.2 = .ok sres ∧
      Forall2 (SubCellsN res (sres / (res : Int)).toNat F) sl.2 ps) (Triangle.slices t) pss)
    {sl : Metadata × List Cell} {ps : List (List Cell)} (hsl : (sl, ps) ∈ (Triangle.slices t).zip pss)
    {c : Cell} {part : List Cell} (hc : (c, part) ∈ sl.2.zip ps) :
    (childrenOf res out c).Perm part ∧
      ∃ L, SliceWF res sl.2 L ∧ SubCellsN res (L / (res : Int)).toNat F c part := by
  obtain ⟨hlen, hzip⟩ := hall.zip
  have hslm : sl ∈ Triangle.slices t := (List.of_mem_zip hsl).1
  obtain ⟨L, hL, w⟩ := disaggWF_slice hwf hslm
  obtain ⟨sres, hsres, hin⟩ := hzip (sl, ps) hsl
  have : sres = L := by rw [hL] at hsres; cases hsres; rfl
  subst this
  obtain ⟨hlen2, hzip2⟩ := hin.zip
  have hcm : c ∈ sl.2 := (List.of_mem_zip hc).1
  have hsub : SubCellsN res (sres / (res : Int)).toNat F c part := hzip2 (c, part) hc
  refine ⟨?_, sres, w, hsub⟩
  rw [childrenOf_eq]
  refine (hperm.filter _).trans (List.Perm.of_eq ?_)
  -- outer isolation: only c's slice survives
  have hflat : pss.flatten.flatten = (pss.map List.flatten).flatten := by
    rw [List.flatten_flatten]
  rw [hflat]
  have houter := flatten_filter_isolate (key := fun sl : Metadata × List Cell => sl.1)
    (childP res c) (Triangle.slices t) (pss.map List.flatten) (by simpa using hlen)
    (by rw [slices_keys]; exact metasOf_nodup t) (sl, ps.flatten)
    (by rw [List.zip_map_right]; exact List.mem_map.mpr ⟨(sl, ps), hsl, rfl⟩)
    (by
      intro q hq hk
      rw [List.zip_map_right] at hq
      obtain ⟨⟨sl', ps'⟩, hq', rfl⟩ := List.mem_map.mp hq
      simp only [Prod.map_apply, id_eq] at hk ⊢
      rw [List.filter_eq_nil_iff]
      intro o ho
      obtain ⟨part', hp', hop⟩ := List.mem_flatten.mp ho
      obtain ⟨_, _, hin'⟩ := hzip (sl', ps') hq'
      obtain ⟨c', hc', hs'⟩ := hin'.mem_right hp'
      have hmd : o.md = sl'.1 := by
        rw [(hs'.2.1 o hop).1]; exact (mem_slices_md (List.of_mem_zip hq').1 hc').1
      have hcmd : c.md = sl.1 := (mem_slices_md hslm hcm).1
      simp only [childP, Bool.and_eq_true, beq_iff_eq, not_and]
      intro h1
      exact absurd (by rw [← hmd, h1.1, hcmd]) hk)
  rw [houter]
  -- inner isolation: only c's own group survives
  have hinner := flatten_filter_isolate (key := fun c : Cell => c) (childP res c) sl.2 ps hlen2
    (by simpa using w.nodup) (c, part) hc
    (by
      intro q hq hk
      obtain ⟨c', part'⟩ := q
      simp only at hk ⊢
      rw [List.filter_eq_nil_iff]
      intro o ho
      have hc'm : c' ∈ sl.2 := (List.of_mem_zip hq).1
      have hs' := hzip2 (c', part') hq
      simp only [childP, Bool.and_eq_true, beq_iff_eq, not_and, List.contains_iff_mem]
      intro h1 hmem
      have hev : c.ev = c'.ev := by rw [← h1.2, (hs'.2.1 o ho).2.1]
      have hmem' : (o.ps, o.pe) ∈ expectedSubs res c' := by
        rw [sliceWF_expected w hc'm, ← hs'.1]
        exact List.mem_map.mpr ⟨o, ho, rfl⟩
      exact expectedSubs_disjoint w hcm hc'm (fun e => hk e.symm) hev hmem hmem')
  rw [hinner, List.filter_eq_self]
  intro o ho
  simp only [childP, Bool.and_eq_true, beq_iff_eq, List.contains_iff_mem]
  refine ⟨⟨(hsub.2.1 o ho).1, (hsub.2.1 o ho).2.1⟩, ?_⟩
  rw [sliceWF_expected w hcm, ← hsub.1]
  exact List.mem_map.mpr ⟨o, ho, rfl⟩



theorem exists_zip_of_mem_left {α β} {l : List α} {r : List β} (hlen : l.length = r.length) {a : α}
    (ha : a ∈ l) : ∃ b, (a, b) ∈ l.zip r := by
  obtain ⟨i, hi, rfl⟩ := List.getElem_of_mem ha
  exact ⟨r[i]'(by omega), List.mem_iff_getElem.mpr ⟨i, by simp [hi]; omega, by simp⟩⟩

theorem natsum_map_perm {α} {l l' : List α} (h : l.Perm l') (φ : α → Nat) :
    (l.map φ).sum = (l'.map φ).sum := (h.map φ).sum_nat

theorem natsum_zip {α β} (φ : α → Nat) (ψ : β → Nat) :
    ∀ (l : List α) (r : List β), l.length = r.length → (∀ p ∈ l.zip r, φ p.1 = ψ p.2) →
      (l.map φ).sum = (r.map ψ).sum
  | [], [], _, _ => rfl
  | a :: l, b :: r, hlen, h => by
    simp only [List.map_cons, List.sum_cons]
    rw [h (a, b) (by simp), natsum_zip φ ψ l r (by simpa using hlen) fun p hp => h p (by simp [hp])]
  | [], _ :: _, hlen, _ => by simp at hlen
  | _ :: _, [], hlen, _ => by simp at hlen

theorem natsum_flatMap {α β} (l : List α) (f : α → List β) (φ : β → Nat) :
    ((l.flatMap f).map φ).sum = (l.map fun a => ((f a).map φ).sum).sum := by
  induction l with
  | nil => rfl
  | cons a rest ih => simp [List.flatMap_cons, ih]

theorem disaggCore_spec {t out : List Cell} {res : Nat} {ws : List Rat} {F : List String}
    (hwf : disaggWF res t = true) (hws : ws ≠ []) (h : disaggCore t res ws F = .ok out) :
    disaggSpec res F 0 t out = true := by
  have hk : ∀ c ∈ t, KN c.values := by
    intro c hc
    obtain ⟨sl, hsl, _, hcs⟩ := slices_fst_mem hc
    obtain ⟨L, _, w⟩ := disaggWF_slice hwf hsl
    exact (w.cell c hcs).2.2.2.2
  obtain ⟨pss, hperm, hall⟩ := disaggCore_groups hk hws h
  obtain ⟨hlen, hzip⟩ := hall.zip
  unfold disaggSpec
  simp only [Bool.and_eq_true, List.all_eq_true, beq_iff_eq]
  constructor
  · intro c hc
    obtain ⟨sl, hsl, _, hcs⟩ := slices_fst_mem hc
    obtain ⟨ps, hsp⟩ := exists_zip_of_mem_left hlen hsl
    obtain ⟨sres, _, hin⟩ := hzip (sl, ps) hsp
    obtain ⟨part, hcp⟩ := exists_zip_of_mem_left hin.zip.1 hcs
    obtain ⟨hch, L, w, hsub⟩ := children_perm hwf hperm hall hsp hcp
    refine ⟨⟨?_, ?_⟩, ?_⟩
    · rw [List.isPerm_iff, sliceWF_expected w hcs, ← hsub.1]
      exact hch.map _
    · intro o ho
      have ho' := hch.mem_iff.mp ho
      obtain ⟨_, _, hkind, hkeys⟩ := hsub.2.1 o ho'
      refine ⟨hkind, ?_⟩
      unfold Dict.keys
      rw [hkeys]; exact sameKeys_refl _
    · by_cases hemp : (childrenOf res out c).isEmpty = true
      · simp [hemp]
      · simp only [hemp, Bool.false_or, List.all_eq_true]
        have hne : part ≠ [] := by
          intro he; subst he
          have := hch.length_eq
          simp at this
          exact hemp (by simp [this])
        intro kv hkv i _
        have hF : F.contains kv.1 = true := (List.mem_filter.mp hkv).2
        rw [total_perm hch, hsub.2.2.1 hne kv.1 hF i]
        exact close_zero_self _
  · rw [hperm.length_eq, natsum_map_perm (slices_flatten_perm t).symm, natsum_flatMap,
      List.length_flatten]
    have hfl : (pss.flatten.map List.length).sum = (pss.map fun ps => (ps.map List.length).sum).sum := by
      rw [← List.flatMap_id (L := pss), natsum_flatMap]; rfl
    rw [hfl]
    symm
    apply natsum_zip (fun sl : Metadata × List Cell => (sl.2.map fun c => (childrenOf res out c).length).sum)
      (fun ps : List (List Cell) => (ps.map List.length).sum) _ _ hlen
    intro p hp
    obtain ⟨sl, ps⟩ := p
    simp only
    obtain ⟨sres, _, hin⟩ := hzip (sl, ps) hp
    apply natsum_zip _ _ _ _ hin.zip.1
    intro q hq
    obtain ⟨c, part⟩ := q
    exact (children_perm hwf hperm hall hp hq).1.length_eq



theorem monthEndOf_succ (M : Int) : (monthEndOf M).succ = firstOf (M + 1) := by
  rw [← firstOf_pred M]
  exact Date.succ_pred (firstOf_valid (M + 1))

/-- consecutive sub-periods: the next one starts the day after the previous one ends -/
theorem subOf_consecutive (M0 : Int) (res k : Nat) :
    (subOf M0 res (k + 1)).1 = (subOf M0 res k).2.succ := by
  unfold subOf
  simp only
  rw [monthEndOf_succ]
  congr 1; omega

theorem range_filter_prefix (n : Nat) (q : Nat → Bool) (hq : ∀ j k, j < k → q k = true → q j = true) :
    ∃ j, j ≤ n ∧ (List.range n).filter q = List.range j := by
  induction n with
  | zero => exact ⟨0, Nat.le_refl _, rfl⟩
  | succ m ih =>
    rw [List.range_succ, List.filter_append]
    by_cases hm : q m = true
    · refine ⟨m + 1, Nat.le_refl _, ?_⟩
      have : (List.range m).filter q = List.range m := by
        rw [List.filter_eq_self]
        intro j hj
        exact hq j m (by simpa using hj) hm
      rw [this, List.range_succ]; simp [hm]
    · obtain ⟨j, hj, he⟩ := ih
      refine ⟨j, by omega, ?_⟩
      rw [he]; simp [hm]

/-- the observable sub-periods are the first `j` blocks -/
theorem obsSubs_prefix {c : Cell} {res : Nat} (hr : 1 ≤ res) (hd : c.ps.d = 1)
    (h70 : 0 ≤ monthToId c.ps) (n : Nat) :
    ∃ j, j ≤ n ∧ obsSubs c res n = (List.range j).map (subOf (monthToId c.ps) res) := by
  unfold obsSubs
  rw [subperiods_firstOf hd h70, List.filter_map]
  obtain ⟨j, hj, he⟩ := range_filter_prefix n
    ((fun p : Date × Date => decide (p.2 ≤ c.ev)) ∘ subOf (monthToId c.ps) res) (by
      intro j k hjk hk
      simp only [Function.comp, decide_eq_true_eq] at hk ⊢
      exact date_le_trans (date_le_of_lt (subOf_end_lt hr hjk)) hk)
  exact ⟨j, hj, by rw [he]⟩


end Bermuda.Units
