/-
C13 — descriptive accessors and the taxonomy of `bermuda/triangle.py`, the resolutions of
`bermuda/date_utils.py` and `common_metadata` / `metadata_diff` of `bermuda/base/metadata.py`.
Statement by statement. Core Lean only.

Python builds most of these as `sorted({... for cell in cells})`: a set (deduplication by `==`)
followed by `sorted`. The elements are dates, tuples of dates, strings, numbers or canonical
metadata, on which `==` is structural equality of the model values, so `sortedDedup` =
deduplicate, then stable sort. (Which of two equal elements survives is unobservable.)
-/
import Bermuda.Model.Ops
import Bermuda.Model.DateUtils
namespace Bermuda

/-- `set(l)` as a list: one representative per value -/
def dedup {α} [DecidableEq α] : List α → List α
  | [] => []
  | a :: l => if a ∈ l then dedup l else a :: dedup l

/-- `sorted(set(l))` -/
def sortedDedup {α} [DecidableEq α] (cmp : α → α → Ordering) (l : List α) : List α :=
  (dedup l).mergeSort (fun a b => cmp a b != .gt)

abbrev Period := Date × Date

/-- `cell.period` -/
def Cell.period (c : Cell) : Period := (c.ps, c.pe)

/-- tuple comparison of `(period_start, period_end)` -/
def periodCmp : Period → Period → Ordering :=
  compareLex (cmpOn (·.1) Date.cmp) (cmpOn (·.2) Date.cmp)

def intCmp : Int → Int → Ordering := compare
def strCmp : String → String → Ordering := compare

/-- `triangle.periods` -/
def Triangle.periods (t : List Cell) : List Period := sortedDedup periodCmp (t.map Cell.period)

/-- `triangle.evaluation_dates` -/
def Triangle.evaluationDates (t : List Cell) : List Date := sortedDedup Date.cmp (t.map (·.ev))

/-- Python `max(list)` (first maximal element; `none` on the empty list) -/
def maxDate (l : List Date) : Option Date :=
  l.foldl (fun acc d => match acc with
    | none => some d
    | some m => if m < d then some d else some m) none

/-- `triangle.evaluation_date`: `TriangleEmptyError` (a subclass of `TriangleError`; the harness
checks the exact class) on the empty triangle, else `max(evaluation_dates)` -/
def Triangle.evaluationDate (t : List Cell) : Except Err Date :=
  if t.isEmpty then .error .triangleError
  else match maxDate (Triangle.evaluationDates t) with
    | some d => .ok d
    | none => .error .valueError      -- `max([])`; unreachable for a non-empty triangle

/-- `triangle.dev_lags(unit)`; an unrecognised unit raises as soon as one cell is asked -/
def Triangle.devLags (t : List Cell) (u : Option LagUnit) : Except Err (List Rat) :=
  match u with
  | some u => .ok (sortedDedup ratCmp (t.map (·.devLag u)))
  | none => if t.isEmpty then .ok [] else .error .valueError

/-- `triangle.fields` -/
def Triangle.fields (t : List Cell) : List String :=
  sortedDedup strCmp (t.flatMap (·.values.keys))

/-- Python `sum([... bools ...])` -/
def sumBools (l : List Bool) : Nat := (l.map fun b => if b then 1 else 0).sum

/-- `triangle.field_cell_counts` (dict in `fields` order) -/
def Triangle.fieldCellCounts (t : List Cell) : List (String × Nat) :=
  (Triangle.fields t).map fun f => (f, sumBools (t.map fun c => c.values.keys.contains f))

/-- `triangle.field_slice_counts` -/
def Triangle.fieldSliceCounts (t : List Cell) : List (String × Nat) :=
  (Triangle.fields t).map fun f =>
    (f, sumBools ((Triangle.slices t).map fun slc => (Triangle.fields slc.2).contains f))

/-- `val.size` when `isinstance(val, np.ndarray) and val.size > 1`, else `None` -/
def Val.sampleSize : Val → Option Nat
  | .arr _ shape _ =>
    let n := shape.foldl (· * ·) 1
    if n > 1 then some n else Option.none
  | _ => Option.none

def numSamplesStep (acc : Option Nat) (v : Val) : Except Err (Option Nat) :=
  match v.sampleSize with
  | none => .ok acc
  | some n =>
    match acc with
    | none => .ok (some n)
    | some m => if m != n then .error .valueError else .ok acc

/-- `triangle.num_samples` -/
def Triangle.numSamples (t : List Cell) : Except Err Nat := do
  let r ← (t.flatMap fun c => c.values.map (·.2)).foldlM numSamplesStep none
  return r.getD 1

/-- `zip(xs[:-1], xs[1:])` -/
def adjacentPairs {α} (xs : List α) : List (α × α) := xs.zip xs.tail

/-- `triangle.experience_gaps` -/
def Triangle.experienceGaps (t : List Cell) : List Period :=
  (adjacentPairs (Triangle.periods t)).filterMap fun (cur, nxt) =>
    let continuousNextStart := cur.2.succ
    if nxt.1 != continuousNextStart then some (continuousNextStart, nxt.1.pred) else none

/-! ## metadata -/

/-- `_first_if_equal` -/
def firstIfEqual {α} [BEq α] (a b : Option α) : Option α := if a == b then a else none

/-- `common_metadata(meta1, meta2)`. Detail dicts are canonical (key-sorted); Python builds them
by iterating a set of keys, so their insertion order is unspecified and canonicalised away. -/
def commonMetadata₂ (a b : Metadata) : Metadata :=
  { riskBasis := firstIfEqual a.riskBasis b.riskBasis
    country := firstIfEqual a.country b.country
    currency := firstIfEqual a.currency b.currency
    reinsuranceBasis := firstIfEqual a.reinsuranceBasis b.reinsuranceBasis
    lossDefinition := firstIfEqual a.lossDefinition b.lossDefinition
    limit := firstIfEqual a.limit b.limit
    details := a.details.filter fun kv => b.details.get? kv.1 == some kv.2
    lossDetails := b.lossDetails.filter fun kv => a.lossDetails.get? kv.1 == some kv.2 }

/-- `triangle.common_metadata`: left fold over the sorted distinct metadata (`metas[0]` raises
`IndexError` on the empty triangle) -/
def Triangle.commonMetadata (t : List Cell) : Except Err Metadata :=
  match Triangle.metadata t with
  | [] => .error .indexError
  | [m] => .ok m
  | m :: rest => .ok (rest.foldl commonMetadata₂ m)

/-- `metadata_diff(meta_core, meta_diff)` -/
def metadataDiff (core d : Metadata) : Metadata :=
  { riskBasis := if core.riskBasis.isNone then d.riskBasis else none
    country := if core.country.isNone then d.country else none
    currency := if core.currency.isNone then d.currency else none
    reinsuranceBasis := if core.reinsuranceBasis.isNone then d.reinsuranceBasis else none
    lossDefinition := if core.lossDefinition.isNone then d.lossDefinition else none
    limit := if core.limit.isNone then d.limit else none
    details := d.details.filter fun kv => !core.details.contains kv.1
    lossDetails := d.lossDetails.filter fun kv => !core.lossDetails.contains kv.1 }

/-- `triangle.metadata_differences` (a comprehension: on the empty triangle `common_metadata` is
never evaluated and the result is `[]`) -/
def Triangle.metadataDifferences (t : List Cell) : Except Err (List Metadata) :=
  match Triangle.metadata t with
  | [] => .ok []
  | ms => do
    let c ← Triangle.commonMetadata t
    return ms.map (metadataDiff c)

/-! ## taxonomy -/

/-- `triangle.is_disjoint`: adjacent test on the sorted periods -/
def Triangle.isDisjoint (t : List Cell) : Bool :=
  if t.isEmpty then true
  else (adjacentPairs (Triangle.periods t)).all fun (prev, nxt) => !(nxt.1 ≤ prev.2)

/-- `diff_fn(start, stop)` of `is_semi_regular`: months `dev_lag_months(start - 1 day, stop)`;
days / timedelta `start - stop` -/
def periodLength (u : LagUnit) (p : Period) : Rat :=
  match u with
  | .month => devLagMonths p.1.pred p.2
  | _ => ((p.1.ordinal - p.2.ordinal : Int) : Rat)

/-- `triangle.is_semi_regular(dev_lag_unit)` -/
def Triangle.isSemiRegular (t : List Cell) (u : Option LagUnit) : Except Err Bool :=
  if !Triangle.isDisjoint t then .ok false
  else if t.isEmpty then .ok true
  else match u with
    | none => .error .valueError
    | some u =>
      match Triangle.periods t with
      | [] => .error .indexError       -- `self.periods[0]`; unreachable for a non-empty triangle
      | base :: rest => .ok (rest.all fun p => periodLength u p == periodLength u base)

/-- `triangle.is_regular(dev_lag_unit)` -/
def Triangle.isRegular (t : List Cell) (u : Option LagUnit) : Except Err Bool := do
  if !(← Triangle.isSemiRegular t u) then return false
  if t.isEmpty then return true
  match ← Triangle.devLags t u with
  | [] => throw .indexError            -- `dev_lags[1]`; unreachable for a non-empty triangle
  | [_] => return true
  | l0 :: l1 :: rest =>
    let devOffset := l1 - l0
    -- zip(dev_lags[1:-1], dev_lags[2:])
    return ((l1 :: rest).zip rest).all fun (prv, nxt) => nxt - prv == devOffset

/-! ## resolutions -/

/-- `_diff` -/
def diffs (xs : List Int) : List Int := (adjacentPairs xs).map fun (before, after) => after - before

/-- `_multi_gcd`: deduplicates through a set; a single distinct value is returned as it is;
`unique_xs[0]` raises `IndexError` on the empty list (callers guard against it). The order in
which a Python set yields its elements is unspecified; `gcd` does not depend on it. -/
def multiGcd (xs : List Int) : Except Err Int :=
  match dedup xs with
  | [] => .error .indexError
  | [x] => .ok x
  | x :: y :: rest => .ok (rest.foldl (fun r z => (Int.gcd r z : Int)) (Int.gcd x y : Int))

/-- `period_resolution(tri)`; `zip(*[])` cannot be unpacked into two names: `ValueError` on the
empty triangle -/
def Triangle.periodResolution (t : List Cell) : Except Err (Option Int) :=
  match Triangle.periods t with
  | [] => .error .valueError
  | ps =>
    let startMonths := ps.map fun p => monthToId p.1
    let nextStartMonths := ps.map fun p => monthToId p.2 + 1
    let startsOrdered := sortedDedup intCmp (startMonths ++ nextStartMonths)
    let startDiffs := diffs startsOrdered
    if startDiffs.isEmpty then .ok none else (multiGcd startDiffs).map some

/-- `eval_date_resolution(tri)` — the month ids are sorted but NOT deduplicated, so two evaluation
dates inside one month contribute a gap of 0 -/
def Triangle.evalDateResolution (t : List Cell) : Except Err (Option Int) :=
  let evalMonths := (Triangle.evaluationDates t).map monthToId
  let evalsOrdered := evalMonths.mergeSort (fun a b => intCmp a b != .gt)
  let evalDiffs := diffs evalsOrdered
  if evalDiffs.isEmpty then .ok none else (multiGcd evalDiffs).map some

end Bermuda
