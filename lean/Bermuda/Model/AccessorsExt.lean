/-
Two more accessors of C13 (bermuda/triangle.py:347-352, 446-452), kept in a file of their own so that
`Model/Accessors.lean` (imported by other properties) is not rebuilt:

* `is_slicewise_disjoint`: `for slc in self.slices.values(): if not slc.is_disjoint: return False` / `return True`
* `slice_period_rows`: `tlz.groupby(lambda cell: (cell.metadata, cell.period), cells)`, then
  `sorted(grouped.items())` (tuples `(key, row)`: the keys are distinct, so the comparison is decided by the
  key = `(Metadata.__lt__, period tuple)`), every row `sorted(row, key=evaluation_date)` (stable).
-/
import Bermuda.Model.Accessors
namespace Bermuda

/-- `triangle.is_slicewise_disjoint` -/
def Triangle.isSlicewiseDisjoint (t : List Cell) : Bool :=
  (Triangle.slices t).all fun s => Triangle.isDisjoint s.2

abbrev SliceRowKey := Metadata × Period

/-- order of the `(metadata, period)` tuples -/
def rowKeyCmp : SliceRowKey → SliceRowKey → Ordering :=
  compareLex (cmpOn (·.1) Metadata.cmp) (cmpOn (·.2) periodCmp)

def Cell.rowKey (c : Cell) : SliceRowKey := (c.md, c.period)

/-- `triangle.slice_period_rows` (the generator, as a list) -/
def Triangle.slicePeriodRows (t : List Cell) : List (SliceRowKey × List Cell) :=
  ((groupBy Cell.rowKey t).mergeSort fun a b => cmpOn (·.1) rowKeyCmp a b != .gt).map fun p =>
    (p.1, p.2.mergeSort fun a b => cmpOn (·.ev) Date.cmp a b != .gt)

end Bermuda
