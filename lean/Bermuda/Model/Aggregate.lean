/-
`bermuda/utils/aggregate.py`: `aggregate`, `_aggregate_eval`, `_aggregate_period`. Core Lean only.

Statement-by-statement correspondence
* `to_cumulative(triangle) if triangle.is_incremental else triangle` → `Triangle.toCumulative` (Model/Basis.lean)
* `for slice_ in cum_triangle.slices.values()`                  → `Triangle.slices` (first-appearance order)
* `_aggregate_eval`: the two `while` loops moving `current_eval` to just before the first evaluation date
  → `anchorBefore` (`walkUp`, `walkDown`); the loop collecting `valid_evals` → `gridFrom`;
  `Triangle([cell for cell in triangle.cells if cell.evaluation_date in valid_evals])` → filter + `ofCells`
* `_aggregate_period`: `sorted(cells, key=coordinates)` → stable sort by `(ps, pe, ev)`; `cells[0]` on an empty
  slice → `IndexError` (reachable: an evaluation filter that empties a slice, then a period resolution);
  the anchor loops → `anchorBefore`; the `for cell in cells` loop with its carried `current_init` →
  `assignWindows` (`while current_end < cell.period_start` = `walkUp`; `cell.period_end > current_end` →
  `TriangleError`; `Cell(...)` → `Cell.mk?`); `defaultdict(list)` keyed by the new coordinates → `groupBy`
  (first-occurrence order); one `CumulativeCell` per pile with `summarize_cell_values` → `aggCell`; `Triangle(...)`
* `sum(agg_slices)`: `0 + t₁` returns `t₁` itself, each further `+` is `Triangle(a.cells + b.cells)` → `sumTriangles`
* `to_incremental(...)` when the input was incremental → `Triangle.toIncremental`

The loops are unrolled with a fuel that bounds the number of iterations for a positive step (every step moves
the date by at least one day): `aggFuel`. Running out of fuel is an error of the model (`Err.other`), never a
result, so every theorem about an `.ok` result speaks about loops that ended by their own condition. Resolutions with a non-positive quantity (Python: endless loop or
immediate exit) and the empty input triangle (`sum([])` is the int 0) are outside the model.
-/
import Bermuda.Model.Summarize
import Bermuda.Model.DateUtils
import Bermuda.Model.Basis
namespace Bermuda

/-- enough iterations to walk between two dates with a step of at least one day -/
def aggFuel (a b : Date) : Nat := (a.ordinal - b.ordinal).natAbs + 2

/-- `while resolution_delta(cur, res) < bound: cur = resolution_delta(cur, res)`; `none` = the fuel ran out
(cannot happen for a positive step, see `aggFuel`; reported as an error, never as a result) -/
def walkUp (q : Int) (u : ResUnit) (bound : Date) : Nat → Date → Option Date
  | 0, _ => none
  | n + 1, cur =>
    let nx := resolutionDelta cur q u
    if nx < bound then walkUp q u bound n nx else some cur

/-- `while cur >= bound: cur = resolution_delta(cur, res, negative=True)` -/
def walkDown (q : Int) (u : ResUnit) (bound : Date) : Nat → Date → Option Date
  | 0, _ => none
  | n + 1, cur =>
    if bound ≤ cur then walkDown q u bound n (resolutionDelta cur q u true) else some cur

/-- both loops: the grid point `origin + k·res` used as the last one before `bound` -/
def anchorBefore (q : Int) (u : ResUnit) (origin bound : Date) : Option Date :=
  match walkUp q u bound (aggFuel origin bound) origin with
  | none => none
  | some a => walkDown q u bound (aggFuel a bound) a

/-- `while cur <= last: valid.append(cur); cur = resolution_delta(cur, res)` -/
def gridFrom (q : Int) (u : ResUnit) (last : Date) : Nat → Date → Option (List Date)
  | 0, _ => none
  | n + 1, cur =>
    if cur ≤ last then (gridFrom q u last n (resolutionDelta cur q u)).map (cur :: ·) else some []

def validEvals (q : Int) (u : ResUnit) (origin first last : Date) : Option (List Date) :=
  match anchorBefore q u origin first with
  | none => none
  | some a => gridFrom q u last (aggFuel a last) (resolutionDelta a q u)

def minDate : List Date → Option Date
  | [] => none
  | d :: l => some (l.foldl (fun m x => if x < m then x else m) d)

def maxDateAgg : List Date → Option Date
  | [] => none
  | d :: l => some (l.foldl (fun m x => if m < x then x else m) d)

/-- `_aggregate_eval(triangle, eval_resolution, eval_origin)` -/
def aggregateEval (t : List Cell) (res : Option (Int × String)) (origin : Date) :
    Except Err (List Cell) :=
  match res with
  | none => .ok t
  | some (q, s) =>
    match standardizeResolution q s with
    | .error e => .error e
    | .ok (q, u) =>
      match minDate (t.map (·.ev)), maxDateAgg (t.map (·.ev)) with
      | some first, some last =>
        match validEvals q u origin first last with
        | none => .error .other
        | some valid => Triangle.ofCells (t.filter fun c => valid.contains c.ev)
      | _, _ => .error .indexError

/-- tuple order of `cell.coordinates` = `(period_start, period_end, evaluation_date)` -/
def coordCmp : Cell → Cell → Ordering :=
  compareLex (cmpOn (·.ps) Date.cmp) (compareLex (cmpOn (·.pe) Date.cmp) (cmpOn (·.ev) Date.cmp))

/-- the loop over the sorted cells, carrying `current_init`; returns the re-labelled `Cell`s -/
def assignWindows (q : Int) (u : ResUnit) : Date → List Cell → Except Err (List Cell)
  | _, [] => .ok []
  | init, c :: rest =>
    match walkUp q u c.ps (aggFuel init c.ps) init with
    | none => .error .other
    | some init' =>
      if resolutionDelta init' q u < c.pe then .error .triangleError
      else
        match Cell.mk? { kind := .cell, ps := init'.succ, pe := resolutionDelta init' q u, ev := c.ev,
                         values := c.values, md := c.md } with
        | .error e => .error e
        | .ok nc =>
          match assignWindows q u init' rest with
          | .error e => .error e
          | .ok ncs => .ok (nc :: ncs)

/-- one aggregated cell from a pile of re-labelled cells -/
def aggCell (tr : Transc) (prem : Bool) (g : (Date × Date × Date) × List Cell) : Except Err Cell :=
  match g.2 with
  | [] => .error .indexError
  | c0 :: _ =>
    match summarizeCellValues tr [] g.2 prem with
    | .error e => .error e
    | .ok vals =>
      Cell.mk? { kind := .cumulative, ps := c0.ps, pe := c0.pe, ev := c0.ev, values := vals, md := c0.md }

/-- `_aggregate_period(triangle, period_resolution, period_origin, summarize_premium)` -/
def aggregatePeriod (tr : Transc) (t : List Cell) (res : Option (Int × String)) (origin : Date)
    (prem : Bool := true) : Except Err (List Cell) :=
  match res with
  | none => .ok t
  | some (q, s) =>
    match standardizeResolution q s with
    | .error e => .error e
    | .ok (q, u) =>
      let cells := t.mergeSort (fun a b => coordCmp a b != .gt)
      match cells with
      | [] => .error .indexError
      | c0 :: _ =>
        match anchorBefore q u origin c0.ps with
        | none => .error .other
        | some init =>
          match assignWindows q u init cells with
          | .error e => .error e
          | .ok relabelled =>
            match smMapE (aggCell tr prem) (groupBy (fun c : Cell => (c.ps, c.pe, c.ev)) relabelled) with
            | .error e => .error e
            | .ok newCells => Triangle.ofCells newCells

structure AggArgs where
  periodRes : Option (Int × String) := none
  evalRes : Option (Int × String) := none
  periodOrigin : Date := ⟨1999, 12, 31⟩
  evalOrigin : Date := ⟨1999, 12, 31⟩
  prem : Bool := true
deriving Repr, Inhabited

/-- `sum(agg_slices)` for a non-empty list of triangles -/
def sumTriangles : List (List Cell) → Except Err (List Cell)
  | [] => .ok []
  | t :: rest => smFoldE (fun acc s => Triangle.ofCells (acc ++ s)) t rest

/-- the per-slice pipeline -/
def aggregateSlice (tr : Transc) (a : AggArgs) (s : List Cell) : Except Err (List Cell) :=
  match aggregateEval s a.evalRes a.evalOrigin with
  | .error e => .error e
  | .ok e => aggregatePeriod tr e a.periodRes a.periodOrigin a.prem

/-- `aggregate` on a cumulative (non-incremental) triangle -/
def aggregateCum (tr : Transc) (t : List Cell) (a : AggArgs) : Except Err (List Cell) :=
  match smMapE (fun p : Metadata × List Cell => aggregateSlice tr a p.2) (Triangle.slices t) with
  | .error e => .error e
  | .ok aggs => sumTriangles aggs

/-- `aggregate(triangle, period_resolution, eval_resolution, period_origin, eval_origin, summarize_premium)` -/
def aggregate (tr : Transc) (t : List Cell) (a : AggArgs) : Except Err (List Cell) :=
  if smIsIncremental t then
    match Triangle.toCumulative t with
    | .error e => .error e
    | .ok cum =>
      match aggregateCum tr cum a with
      | .error e => .error e
      | .ok r => Triangle.toIncremental r
  else aggregateCum tr t a

end Bermuda
