/-
All modelled public Triangle → Triangle operations under ONE inductive (`Op2`), so that the closure
clause of C01 ("every Triangle returned by ANY chain of public operations is again canonical") can be
stated over chains that mix them. Nothing is modelled here: `step2` only dispatches to the models of
the other topic files (`Model/{Ops,Basis,Aggregate,Summarize,Join,Extend,Select,Units,Blend,Resample,
JsonIO}.lean`), passing the current triangle as `self`, exactly as `bermuda/factory.py` attaches the
utilities as methods:

    t.coalesce(ts)  = coalesce([t, *ts])          t.blend(ts, …) = blend([t, *ts], …)
    every other     = util(t, *args)

Operations returning SEVERAL triangles (`split`, `slices`, `bootstrap`) appear with the position of the
triangle the chain continues with (`IndexError` beyond the end); the theorems about ALL returned
triangles are `split_all_canonical`, `slices_all_canonical`, `bootstrap_all_canonical` (Properties/C01Ext).
`t[p, e, m]` returns a Cell, not a Triangle, when no index is a slice: a chain cannot continue with it
(`Err.other` here; the cell itself is covered by `getItem_cell_datesOk`).

Core Lean only.
-/
import Bermuda.Model.Ops
import Bermuda.Model.Basis
import Bermuda.Model.Aggregate
import Bermuda.Model.Summarize
import Bermuda.Model.Join
import Bermuda.Model.Extend
import Bermuda.Model.Select
import Bermuda.Model.Units
import Bermuda.Model.Blend
import Bermuda.Model.Resample
import Bermuda.Model.JsonIO
namespace Bermuda
namespace AllOps

/-! ## `Triangle.from_dict(t.to_dict())` on the shared cell type

`Model/JsonIO.lean` works on `JCell` (metadata with the Python kinds of the detail values, which JSON
keeps). A shared `Cell` has forgotten those kinds; `jcellOf` picks a representative (an integral
number is written as an int, any other as a float) — after the round trip `JCell.toCell` forgets the
choice again. A `date` detail value is not JSON-serialisable (`json.dumps` raises `TypeError`). -/

def scalarOfRat (q : Rat) : JsonIO.Scalar := if q.den == 1 then .int q.num else .flt q

def scalarOf : MVal → Except Err JsonIO.Scalar
  | .none => .ok .null
  | .num q => .ok (scalarOfRat q)
  | .str s => .ok (.str s)
  | .date _ => .error .typeError

def detailsOf (d : Dict MVal) : Except Err (Dict JsonIO.Scalar) :=
  d.mapM fun kv => (scalarOf kv.2).map fun s => (kv.1, s)

def jmetaOf (m : Metadata) : Except Err JsonIO.JMeta := do
  let det ← detailsOf m.details
  let ldet ← detailsOf m.lossDetails
  pure { riskBasis := m.riskBasis, country := m.country, currency := m.currency,
         reinsuranceBasis := m.reinsuranceBasis, lossDefinition := m.lossDefinition,
         limit := match m.limit with | none => .null | some q => scalarOfRat q,
         details := det, lossDetails := ldet }

def jcellOf (c : Cell) : Except Err JsonIO.JCell := do
  let md ← jmetaOf c.md
  pure { kind := c.kind, ps := c.ps, pe := c.pe, ev := c.ev, prev := c.prev, values := c.values, md := md }

/-- `Triangle.from_dict(t.to_dict())` -/
def jsonRoundTrip (t : List Cell) : Except Err (List Cell) := do
  let js ← t.mapM jcellOf
  let r ← JsonIO.fromDict (JsonIO.toDict js)
  pure (r.map JsonIO.JCell.toCell)

/-- the `i`-th element of a list of results (`list(d.values())[i]`) -/
def nth {α} (l : List α) (i : Nat) : Except Err α :=
  match l[i]? with
  | some a => .ok a
  | none => .error .indexError

end AllOps

/-- every modelled public operation that maps a Triangle to a Triangle, with its arguments -/
inductive Op2 where
  /-- the ten operations of `Model/Ops.lean` -/
  | base (op : Op)
  | toIncremental
  | toCumulative
  | aggregate (tr : Transc) (a : AggArgs)
  | summarize (tr : Transc) (extra : List RuleEntry) (prem : Bool)
  | merge (ty : Option JoinType) (on : Option (List String)) (other : List Cell)
  | coalesce (others : List (List Cell))
  | addStatics (source : List Cell) (statics : List String)
  | periodMerge (other : List Cell) (suffix : Option String)
  | makeRightTriangle (lags : Option (List Rat)) (unit : String)
  | makeRightDiagonal (dates : List Date) (hist : Bool)
  | fillForwardGaps (res? : Option Int) (noneFlag : Bool)
  | backfill (statics : List String) (res? : Option Int) (minLag : Int)
  | clipFull (a : ClipFull)
  | getItem (p e : DateIdx) (m : MetaIdx)
  /-- `list(t.split(keys).values())[i]` -/
  | splitNth (keys : List String) (i : Nat)
  /-- `list(t.slices.values())[i]` -/
  | sliceNth (i : Nat)
  | convertCurrency (target : String) (rates : List (String × Units.Num))
  | disaggregateExperience (res : Nat) (weights : Option (List Units.Num)) (fields : Option (List String))
  | aqToPolicyYear (policyLen : Nat) (origin : Date) (continuous : Bool)
  | blend (others : List (List Cell)) (w : Blend.Weights) (method : String) (idx : Nat → String → List Nat)
  | thin (k : Nat) (idx : List Nat)
  /-- `bootstrap(t, n, seed, field)[i]` -/
  | bootstrapNth (n : Int) (field : Option (List String)) (P : Nat → Nat → Resample.RepParam) (i : Nat)
  | momentMatch (fields : List String) (distOk : Bool) (draws : Nat → String → List Rat)
  | jsonRoundTrip

def step2 (t : List Cell) : Op2 → Except Err (List Cell)
  | .base op => step t op
  | .toIncremental => Triangle.toIncremental t
  | .toCumulative => Triangle.toCumulative t
  | .aggregate tr a => aggregate tr t a
  | .summarize tr extra prem => summarize tr extra t prem
  | .merge ty on other => merge ty on t other
  | .coalesce others => coalesce (t :: others)
  | .addStatics source statics => addStatics t source statics
  | .periodMerge other suffix => periodMerge t other suffix
  | .makeRightTriangle lags unit => Extend.makeRightTriangle t lags unit
  | .makeRightDiagonal dates hist => Extend.makeRightDiagonal t dates hist
  | .fillForwardGaps res? noneFlag => Extend.fillForwardGaps t res? noneFlag
  | .backfill statics res? minLag => Extend.backfill t statics res? minLag
  | .clipFull a => Triangle.clipFull t a
  | .getItem p e m =>
    match Triangle.getItem t p e m with
    | .error e => .error e
    | .ok (.inl r) => .ok r
    | .ok (.inr _) => .error .other        -- a Cell: the chain cannot continue
  | .splitNth keys i =>
    match Triangle.split t keys with
    | .error e => .error e
    | .ok parts => (AllOps.nth parts i).map (·.2)
  | .sliceNth i => (AllOps.nth (Triangle.slices t) i).map (·.2)
  | .convertCurrency target rates => Units.convertCurrency t target rates
  | .disaggregateExperience res weights fields => Units.disaggregateExperience t res weights fields
  | .aqToPolicyYear policyLen origin continuous => Units.aqToPolicyYear t policyLen origin continuous
  | .blend others w method idx => Blend.blend (t :: others) w method idx
  | .thin k idx =>
    match Resample.thin t k idx with
    | .error e => .error e
    | .ok .same => .ok t
    | .ok (.fresh r) => .ok r
  | .bootstrapNth n field P i =>
    match Resample.bootstrap t n field P with
    | .error e => .error e
    | .ok reps => AllOps.nth reps i
  | .momentMatch fields distOk draws => Resample.momentMatch t fields distOk draws
  | .jsonRoundTrip => AllOps.jsonRoundTrip t

/-- run a sequence of operations, stopping at the first error -/
def run2 (t : List Cell) : List Op2 → Except Err (List Cell)
  | [] => .ok t
  | op :: ops => match step2 t op with
    | .ok t' => run2 t' ops
    | .error e => .error e

end Bermuda
