/-
Second extension of the closure clause of C01: the public operations that take FUNCTION arguments
(`Triangle.derive_fields`, `Triangle.derive_metadata`, `Triangle.replace`, `Triangle.filter`), the
`collections.abc.Set` mixins (`| & - ^`), `sum`, `t[i]`, `loose_period_merge`, `shift_origin`, and the
adjusters of `bermuda/utils/adjust.py`, under ONE inductive `Op3` that wraps `Op2` (Model/AllOps.lean).

A Python callable cannot be an argument of a first-order model. The callables are given by a small
first-order expression language `Fn.Ex` over the cell (constants, the cell's dates / values / metadata
attributes, date arithmetic, year/month/day projections, arithmetic, comparison, `not/and/or`,
conditional expression) with Python's evaluation rules (`Fn.Ex.eval`): the harness compiles the SAME
expression tree to a Python lambda and hands it to the implementation. What matters for the theorems is
only that a definition is evaluated on the cell and the result put into a NEW cell through the
validating constructor, exactly where `Cell.replace` / `Cell._base_replace` call `self.__class__(...)`:
the canonical-form proofs never look inside `eval`.

Statement-by-statement sources: `bermuda/base/cell.py` (`replace`, `_base_replace`, `derive_fields`,
`derive_metadata`), `bermuda/base/incremental.py` (`__init__`), `bermuda/base/metadata.py`
(`__post_init__`), `bermuda/triangle.py`, `bermuda/utils/merge.py` (`loose_period_merge`),
`bermuda/utils/shift_origin.py`, `bermuda/utils/adjust.py`, CPython 3.12 `_collections_abc.Set`.

Core Lean only.
-/
import Bermuda.Model.AllOps
import Bermuda.Model.Eq
import Bermuda.Model.Accessors
import Bermuda.Model.Frame
namespace Bermuda
namespace Fn

/-! ## Python values a definition can produce -/

/-- `None`, `bool`, `int`, `float` (exact ℚ), `str`, `datetime.date`, and an `ndarray` cell value
(only obtained by reading a field; passes through unchanged, arithmetic on it is outside the model) -/
inductive PVal where
  | none
  | bool (b : Bool)
  | int (i : Int)
  | flt (q : Rat)
  | str (s : String)
  | date (d : Date)
  | arr (isInt : Bool) (shape : List Nat) (data : List Rat)
deriving DecidableEq, Repr, Inhabited

/-- Python numbers: `bool ⊂ int`, `float` -/
inductive Num where
  | i (n : Int)
  | f (q : Rat)
deriving DecidableEq, Repr, Inhabited

def Num.toRat : Num → Rat
  | .i n => (n : Rat)
  | .f q => q

def PVal.num? : PVal → Option Num
  | .bool b => some (.i (if b then 1 else 0))
  | .int n => some (.i n)
  | .flt q => some (.f q)
  | _ => Option.none

/-- truth value (`bool(x)`); an array with several elements raises `ValueError` — outside the model -/
def PVal.truthy : PVal → Except Err Bool
  | .none => .ok false
  | .bool b => .ok b
  | .int n => .ok (n != 0)
  | .flt q => .ok (q != 0)
  | .str s => .ok (!s.isEmpty)
  | .date _ => .ok true
  | .arr _ _ _ => .error .other

/-- a number whose Python kind the model has forgotten (metadata numbers, limits): integral → `int`,
else `float` (the convention of `AllOps.scalarOfRat`) -/
def ofRat (q : Rat) : PVal := if q.den == 1 then .int q.num else .flt q

def ofMVal : MVal → PVal
  | .none => .none
  | .num q => ofRat q
  | .str s => .str s
  | .date d => .date d

def ofVal : Val → PVal
  | .none => .none
  | .int i => .int i
  | .flt q => .flt q
  | .arr isInt shape data => .arr isInt shape data

def ofOptStr : Option String → PVal
  | Option.none => .none
  | some s => .str s

/-! ## expressions -/

inductive CAttr where
  | periodStart | periodEnd | evaluationDate | prevEvaluationDate
deriving DecidableEq, Repr, Inhabited

inductive MAttr where
  | riskBasis | country | currency | reinsuranceBasis | lossDefinition | limit
deriving DecidableEq, Repr, Inhabited

inductive BinOp where
  | add | sub | mul | truediv | floordiv | mod
  | lt | le | gt | ge | eq | ne
  | and | or
deriving DecidableEq, Repr, Inhabited

/-- the body of `lambda c: …`. `opaque f` is an ARBITRARY callable (any pure function of the cell that
returns a value or raises): the closure theorems quantify over all of them; the value computations of
`bermuda/utils/adjust.py` (float powers, `np.interp`, look-ups in other cells of the triangle) enter the
model through it. -/
inductive Ex where
  | const (v : PVal)
  | opaque (f : Cell → Except Err PVal)
  /-- `c.period_start`, … (`prev_evaluation_date`: `AttributeError` unless the cell is incremental) -/
  | cattr (a : CAttr)
  /-- `c.metadata.country` = `c.country`, … -/
  | mattr (a : MAttr)
  /-- `c.details[k]` (`KeyError`) -/
  | detail (k : String)
  /-- `c.details.get(k, dflt)` -/
  | detailGet (k : String) (dflt : PVal)
  /-- `c.loss_details[k]` -/
  | lossDetail (k : String)
  /-- `c[k]` (`KeyError`) -/
  | field (k : String)
  /-- `c.values.get(k, dflt)` -/
  | fieldGet (k : String) (dflt : PVal)
  /-- `k in c` -/
  | hasField (k : String)
  | year (e : Ex) | month (e : Ex) | day (e : Ex)
  /-- `e + datetime.timedelta(days=n)` -/
  | addDays (e n : Ex)
  /-- `bermuda.date_utils.add_months(e, n)` -/
  | addMonths (e n : Ex)
  /-- `(a - b).days` -/
  | daysBetween (a b : Ex)
  /-- `c.dev_lag()` (months, a float) -/
  | devLag
  /-- `c.period_length` -/
  | periodLength
  /-- `e is None` -/
  | isNone (e : Ex)
  | not (e : Ex)
  | neg (e : Ex)
  | bin (op : BinOp) (a b : Ex)
  /-- `a if c else b` -/
  | ite (c a b : Ex)
deriving Inhabited

/-- arithmetic on two numbers; `ZeroDivisionError` and float `//`, `%` are `Err.other` -/
def arith (op : BinOp) (x y : Num) : Except Err PVal :=
  match op, x, y with
  | .add, .i a, .i b => .ok (.int (a + b))
  | .add, a, b => .ok (.flt (a.toRat + b.toRat))
  | .sub, .i a, .i b => .ok (.int (a - b))
  | .sub, a, b => .ok (.flt (a.toRat - b.toRat))
  | .mul, .i a, .i b => .ok (.int (a * b))
  | .mul, a, b => .ok (.flt (a.toRat * b.toRat))
  | .truediv, a, b => if b.toRat == 0 then .error .other else .ok (.flt (a.toRat / b.toRat))
  | .floordiv, .i a, .i b => if b == 0 then .error .other else .ok (.int (Int.fdiv a b))
  | .mod, .i a, .i b => if b == 0 then .error .other else .ok (.int (Int.fmod a b))
  | _, _, _ => .error .other

/-- `x < y` family: numbers with numbers, `str` with `str`, `date` with `date`; else `TypeError` -/
def cmpVals (x y : PVal) : Except Err Ordering :=
  match x.num?, y.num? with
  | some a, some b => .ok (ratCmp a.toRat b.toRat)
  | _, _ =>
    match x, y with
    | .str a, .str b => .ok (compare a b)
    | .date a, .date b => .ok (Date.cmp a b)
    | .arr _ _ _, _ => .error .other
    | _, .arr _ _ _ => .error .other
    | _, _ => .error .typeError

/-- `x == y`: numeric across `bool/int/float`, structural inside one type, `False` across types -/
def eqVals (x y : PVal) : Except Err Bool :=
  match x.num?, y.num? with
  | some a, some b => .ok (a.toRat == b.toRat)
  | _, _ =>
    match x, y with
    | .arr _ _ _, _ => .error .other
    | _, .arr _ _ _ => .error .other
    | a, b => .ok (a == b)

/-- a strict (non short-circuit) binary operator on two evaluated operands -/
def binop (op : BinOp) (x y : PVal) : Except Err PVal :=
  match op with
  | .lt => (cmpVals x y).map fun o => .bool (o == .lt)
  | .le => (cmpVals x y).map fun o => .bool (o != .gt)
  | .gt => (cmpVals x y).map fun o => .bool (o == .gt)
  | .ge => (cmpVals x y).map fun o => .bool (o != .lt)
  | .eq => (eqVals x y).map .bool
  | .ne => (eqVals x y).map fun b => .bool (!b)
  | .and | .or => .error .other            -- handled (short-circuit) by `eval`
  | op =>
    match x.num?, y.num? with
    | some a, some b => arith op a b
    | _, _ =>
      match op, x, y with
      | .add, .str a, .str b => .ok (.str (a ++ b))
      | _, .arr _ _ _, _ => .error .other      -- ndarray arithmetic: outside the model
      | _, _, .arr _ _ _ => .error .other
      | .sub, .date _, .date _ => .error .other -- a `timedelta`: outside the model (`daysBetween`)
      | .mul, .str _, _ => .error .other        -- sequence repetition: outside the model
      | .mul, _, .str _ => .error .other
      | .mod, .str _, _ => .error .other        -- `%`-formatting: outside the model
      | _, _, _ => .error .typeError

/-- `date.max.toordinal()` -/
def maxOrdinal : Int := 3652059

/-- `d + timedelta(days=n)`; `OverflowError` outside `date.min … date.max` -/
def dateAddDays (d : Date) (n : Int) : Except Err Date :=
  let o := d.ordinal + n
  if 1 ≤ o && o ≤ maxOrdinal then .ok (Date.ofOrdinal o) else .error .other

def asDate : PVal → Except Err Date
  | .date d => .ok d
  | _ => .error .other                      -- `AttributeError` / `TypeError` depending on the use

def mattrOf (m : Metadata) : MAttr → PVal
  | .riskBasis => ofOptStr m.riskBasis
  | .country => ofOptStr m.country
  | .currency => ofOptStr m.currency
  | .reinsuranceBasis => ofOptStr m.reinsuranceBasis
  | .lossDefinition => ofOptStr m.lossDefinition
  | .limit => match m.limit with | Option.none => .none | some q => ofRat q

/-- evaluation of the lambda body on a cell -/
def Ex.eval (c : Cell) : Ex → Except Err PVal
  | .const v => .ok v
  | .opaque f => f c
  | .cattr .periodStart => .ok (.date c.ps)
  | .cattr .periodEnd => .ok (.date c.pe)
  | .cattr .evaluationDate => .ok (.date c.ev)
  | .cattr .prevEvaluationDate =>
    match c.kind, c.prev with
    | .incremental, some p => .ok (.date p)
    | _, _ => .error .other                  -- `AttributeError`
  | .mattr a => .ok (mattrOf c.md a)
  | .detail k =>
    match c.md.details.get? k with
    | some v => .ok (ofMVal v)
    | Option.none => .error .keyError
  | .detailGet k dflt =>
    match c.md.details.get? k with
    | some v => .ok (ofMVal v)
    | Option.none => .ok dflt
  | .lossDetail k =>
    match c.md.lossDetails.get? k with
    | some v => .ok (ofMVal v)
    | Option.none => .error .keyError
  | .field k =>
    match c.values.get? k with
    | some v => .ok (ofVal v)
    | Option.none => .error .keyError
  | .fieldGet k dflt =>
    match c.values.get? k with
    | some v => .ok (ofVal v)
    | Option.none => .ok dflt
  | .hasField k => .ok (.bool (c.values.contains k))
  | .year e => do let d ← asDate (← e.eval c); pure (.int d.y)
  | .month e => do let d ← asDate (← e.eval c); pure (.int d.m)
  | .day e => do let d ← asDate (← e.eval c); pure (.int d.d)
  | .addDays e n => do
    let x ← e.eval c
    let k ← n.eval c
    match x, k.num? with
    | .date d, some (.i k) => (dateAddDays d k).map .date
    | .date _, some (.f _) => .error .other  -- fractional days: outside the model
    | _, _ => .error .typeError
  | .addMonths e n => do
    let x ← e.eval c
    let k ← n.eval c
    match x, k.num? with
    | .date d, some k => .ok (.date (Bermuda.addMonths d k.toRat))
    | _, _ => .error .other
  | .daysBetween a b => do
    let x ← a.eval c
    let y ← b.eval c
    match x, y with
    | .date d, .date d' => .ok (.int (d.ordinal - d'.ordinal))
    | _, _ => .error .other
  | .devLag => .ok (.flt (c.devLag .month))
  | .periodLength => .ok (.int (monthToId c.pe - monthToId c.ps + 1))
  | .isNone e => do let x ← e.eval c; pure (.bool (x == .none))
  | .not e => do let x ← e.eval c; pure (.bool (!(← x.truthy)))
  | .neg e => do
    let x ← e.eval c
    match x.num? with
    | some (.i n) => .ok (.int (-n))
    | some (.f q) => .ok (.flt (-q))
    | Option.none => match x with | .arr _ _ _ => .error .other | _ => .error .typeError
  | .bin .and a b => do
    let x ← a.eval c
    if (← x.truthy) then b.eval c else pure x
  | .bin .or a b => do
    let x ← a.eval c
    if (← x.truthy) then pure x else b.eval c
  | .bin op a b => do
    let x ← a.eval c
    let y ← b.eval c
    binop op x y
  | .ite g a b => do
    let x ← g.eval c
    if (← x.truthy) then a.eval c else b.eval c

/-! ## `Cell.derive_fields`, `Triangle.derive_fields` -/

/-- the `isinstance(val, get_args(CellValue))` check of `Cell.__init__`: `float, int` (hence `bool`,
which the wire format folds into `int`), `ndarray`, `None` -/
def PVal.toVal : PVal → Except Err Val
  | .none => .ok .none
  | .bool b => .ok (.int (if b then 1 else 0))
  | .int i => .ok (.int i)
  | .flt q => .ok (.flt q)
  | .arr isInt shape data => .ok (.arr isInt shape data)
  | .str _ => .error .typeError
  | .date _ => .error .typeError

/-- one definition of `Cell.derive_fields`: `value = f(cell)`, then
`cell = cell.replace(values={**cell.values, name: value})` — a NEW cell through the validating
constructor (`_base_replace(_skip_validation=False)`) -/
def deriveFieldStep (cell : Cell) (d : String × Ex) : Except Err Cell := do
  let v ← d.2.eval cell
  let v' ← v.toVal
  ({ cell with values := cell.values.set d.1 v' }).mk?

/-- `cell.derive_fields(**definitions)`: definitions in keyword order, later ones see earlier ones -/
def deriveFieldsCell (defs : List (String × Ex)) (c : Cell) : Except Err Cell :=
  defs.foldlM deriveFieldStep c

/-- `t.derive_fields(**definitions)` -/
def deriveFields (t : List Cell) (defs : List (String × Ex)) : Except Err (List Cell) := do
  Triangle.ofCells (← t.mapM (deriveFieldsCell defs))

/-! ## `Cell.derive_metadata`, `Triangle.derive_metadata` -/

/-- `Metadata.__post_init__` on a string attribute: `str` or `None` -/
def optStrOf : PVal → Except Err (Option String)
  | .none => .ok Option.none
  | .str s => .ok (some s)
  | _ => .error .typeError

/-- `Metadata.__post_init__` on `per_occurrence_limit`: `int` (hence `bool`), `float` or `None` -/
def optNumOf : PVal → Except Err (Option Rat)
  | .none => .ok Option.none
  | .bool b => .ok (some (if b then 1 else 0))
  | .int i => .ok (some (i : Rat))
  | .flt q => .ok (some q)
  | _ => .error .typeError

/-- a value stored in `details`: every scalar kind is a `MetadataValue`; so is an `ndarray`, but such
metadata cannot be hashed or sorted — outside the model -/
def PVal.toMVal : PVal → Except Err MVal
  | .none => .ok .none
  | .bool b => .ok (.num (if b then 1 else 0))
  | .int i => .ok (.num (i : Rat))
  | .flt q => .ok (.num q)
  | .str s => .ok (.str s)
  | .date d => .ok (.date d)
  | .arr _ _ _ => .error .other

/-- `dataclasses.replace(cell.metadata, **{name: value})` for a top-level attribute (runs
`__post_init__`), `details = {**details, name: value}` otherwise. `details=` / `loss_details=` want a
`dict`, which no expression of this language produces: `TypeError`. -/
def metaWith (m : Metadata) (name : String) (v : PVal) : Except Err Metadata :=
  match name with
  | "risk_basis" => (optStrOf v).map fun s => { m with riskBasis := s }
  | "country" => (optStrOf v).map fun s => { m with country := s }
  | "currency" => (optStrOf v).map fun s => { m with currency := s }
  | "reinsurance_basis" => (optStrOf v).map fun s => { m with reinsuranceBasis := s }
  | "loss_definition" => (optStrOf v).map fun s => { m with lossDefinition := s }
  | "per_occurrence_limit" => (optNumOf v).map fun q => { m with limit := q }
  | "details" => .error .typeError
  | "loss_details" => .error .typeError
  | k => v.toMVal.map fun x => { m with details := canonSet m.details k x }

/-- one definition of `Cell.derive_metadata`: `cell = cell._base_replace(metadata=new_metadata)` -/
def deriveMetadataStep (cell : Cell) (d : String × Ex) : Except Err Cell := do
  let v ← d.2.eval cell
  let md ← metaWith cell.md d.1 v
  ({ cell with md := md }).mk?

def deriveMetadataCell (defs : List (String × Ex)) (c : Cell) : Except Err Cell :=
  defs.foldlM deriveMetadataStep c

/-- `t.derive_metadata(**definitions)`: the slice of a cell may change, `Triangle(...)` re-sorts -/
def deriveMetadata (t : List Cell) (defs : List (String × Ex)) : Except Err (List Cell) := do
  Triangle.ofCells (← t.mapM (deriveMetadataCell defs))

/-! ## `Cell.replace`, `Triangle.replace` -/

/-- one keyword of `replace(**definitions)` -/
inductive RDef where
  | periodStart (e : Ex)
  | periodEnd (e : Ex)
  | evaluationDate (e : Ex)
  | prevEvaluationDate (e : Ex)
  /-- `values=lambda c: {**c.values, k₁: e₁, …}` (`spread`) or `{k₁: e₁, …}` -/
  | values (spread : Bool) (items : List (String × Ex))
  /-- `metadata=<a Metadata constant>` -/
  | metadata (m : Metadata)
  /-- any other keyword: `__init__() got an unexpected keyword argument` -/
  | unknown (e : Ex)
deriving Inhabited

/-- the dict display `{**c.values, k₁: e₁(c), …}`: items evaluated left to right on the same cell. A
value that is no `CellValue` stays in the dict until the final validation raises `TypeError`; nothing
later can remove it, so the model raises at once. -/
def valuesOf (cell : Cell) (spread : Bool) (items : List (String × Ex)) : Except Err (Dict Val) :=
  items.foldlM (fun d kv => do
    let v ← kv.2.eval cell
    let v' ← v.toVal
    pure (d.set kv.1 v')) (if spread then cell.values else [])

/-- `value = f(cell); cell = cell._base_replace(name=value, _skip_validation=True)`: no date rule is
checked here, but `Cell.__init__` still reads `.year/.month/.day` of the three dates
(`AttributeError` on a non-date: `Err.other`) and `IncrementalCell.__init__` still evaluates
`evaluation_date <= prev_evaluation_date` (`TypeError` on a non-date); a plain / cumulative cell has no
`prev_evaluation_date` keyword (`TypeError`). -/
def replaceStep (cell : Cell) : RDef → Except Err Cell
  | .periodStart e => do let d ← asDate (← e.eval cell); pure { cell with ps := d }
  | .periodEnd e => do let d ← asDate (← e.eval cell); pure { cell with pe := d }
  | .evaluationDate e => do let d ← asDate (← e.eval cell); pure { cell with ev := d }
  | .prevEvaluationDate e => do
    let v ← e.eval cell
    if cell.kind != .incremental then throw .typeError
    match v with
    | .date d => pure { cell with prev := some d }
    | _ => throw .typeError
  | .values spread items => do
    let vs ← valuesOf cell spread items
    pure { cell with values := vs }
  | .metadata m => pure { cell with md := m }
  | .unknown e => do
    let _ ← e.eval cell
    throw .typeError

/-- `cell.replace(**definitions)`: every definition on the partially replaced cell, validation only
at the end (`cell._base_replace(_skip_validation=False)`) -/
def replaceCell (defs : List RDef) (c : Cell) : Except Err Cell := do
  let cell ← defs.foldlM replaceStep c
  cell.mk?

/-- `t.replace(**definitions)` -/
def replace (t : List Cell) (defs : List RDef) : Except Err (List Cell) := do
  Triangle.ofCells (← t.mapM (replaceCell defs))

/-! ## `Triangle.filter` with a predicate expression -/

/-- `filter(predicate, cells)`: keeps the cells on which the predicate's result is truthy -/
def filterE (p : Cell → Except Err Bool) : List Cell → Except Err (List Cell)
  | [] => .ok []
  | c :: rest =>
    match p c with
    | .error e => .error e
    | .ok b =>
      match filterE p rest with
      | .error e => .error e
      | .ok r => .ok (if b then c :: r else r)

/-- `bool(predicate(cell))` -/
def predOf (pred : Ex) (c : Cell) : Except Err Bool := do (← pred.eval c).truthy

/-- `t.filter(lambda c: …)` -/
def filter (t : List Cell) (pred : Ex) : Except Err (List Cell) := do
  Triangle.ofCells (← filterE (predOf pred) t)

/-! ## `sum`, `t[i]` -/

/-- `sum([t, *others])`: `0 + t` is `t.__radd__(0)` = `t` itself (`other == 0`), every further step is
`Triangle.__add__` -/
def sumOf (t : List Cell) (others : List (List Cell)) : Except Err (List Cell) :=
  others.foldlM Triangle.add t

/-- `t[i]` for an integer: `self._cells[i]` (negative indices count from the end) -/
def cellAt (t : List Cell) (i : Int) : Except Err Cell :=
  match (if i < 0 then i + (t.length : Int) else i) with
  | .ofNat j =>
    match t[j]? with
    | some c => .ok c
    | Option.none => .error .indexError
  | .negSucc _ => .error .indexError

/-! ## `loose_period_merge` (utils/merge.py) -/

/-- `cells[0]` -/
def first (t : List Cell) : Except Err Cell :=
  match t with
  | c :: _ => .ok c
  | [] => .error .indexError

/-- `a.keys() < b.keys()` on dict key views: proper subset -/
def properSubset (a b : List String) : Bool :=
  a.all (b.contains ·) && !(b.all (a.contains ·))

/-- `cell.derive_metadata(details=lambda meta: {k: meta.details[k] for k in common_details}).metadata`
(`KeyError` if the cell lacks one of the keys). Canonical details stay canonical: `common` is taken in
the key order of a canonical dict. -/
def proxyMetadata (common : List String) (c : Cell) : Except Err Metadata := do
  let det ← common.mapM fun k =>
    match c.md.details.get? k with
    | some v => .ok (k, v)
    | Option.none => .error .keyError
  pure { c.md with details := det }

/-- one iteration of `for idx, cells in tri1_cells.items()` -/
def looseGroup (b : List Cell) (suffix : Option String) (g : (Date × Date × Metadata) × List Cell) :
    Except Err (List Cell) :=
  match b.filter (fun r => (r.ps, r.pe, r.md) == g.1) with
  | [] => .ok g.2
  | [r] => .ok (g.2.map fun c => overwriteValues c r suffix)
  | _ => .error .valueError

/-- `loose_period_merge(tri1, tri2, suffix)`, as written. `looseCommon`: the statements before the
loops, returning `common_details`: the class test is
`isinstance(tri1.cells[0], type(tri2.cells[0]))` (asymmetric: a `CumulativeCell`/`IncrementalCell` left
operand goes with a plain-`Cell` right operand, not the other way round), `cells[0]` of an empty
operand raises `IndexError`, the common keys come from the FIRST metadata of both triangles, the left
cells are regrouped by `(period_start, period_end, proxy metadata)` in first-appearance order. -/
def looseCommon (a b : List Cell) : Except Err (List String) := do
  match a, b with
  | c :: _, d :: _ => if !(c.kind.isInstanceOf d.kind) then throw .valueError
  | _, _ => pure ()
  let c0 ← first a
  let d0 ← first b
  if properSubset c0.md.details.keys d0.md.details.keys then throw .valueError
  let m1 ← match Triangle.metadata a with | m :: _ => pure m | [] => throw Err.indexError
  let m2 ← match Triangle.metadata b with | m :: _ => pure m | [] => throw Err.indexError
  pure (m1.details.keys.filter (m2.details.keys.contains ·))

/-- the two `defaultdict(list)` and the loop over the left one, then `Triangle(output_cells)` -/
def looseCore (a b : List Cell) (suffix : Option String) (common : List String) :
    Except Err (List Cell) := do
  let keyed ← a.mapM fun c => (proxyMetadata common c).map fun pm => ((c.ps, c.pe, pm), c)
  let out ← ((groupBy (·.1) keyed).map fun g => (g.1, g.2.map (·.2))).mapM (looseGroup b suffix)
  Triangle.ofCells out.flatten

def loosePeriodMerge (a b : List Cell) (suffix : Option String) : Except Err (List Cell) := do
  let common ← looseCommon a b
  looseCore a b suffix common

/-! ## `shift_origin` (utils/shift_origin.py) -/

/-- `triangle.periods[0][0].month % resolution` -/
def originOf (t : List Cell) (res : Int) : Except Err Int :=
  match Triangle.periods t with
  | p :: _ => .ok (Int.fmod (p.1.m : Int) res)
  | [] => .error .indexError

/-- `shift_origin(triangle, origin_match_triangle)`: resolutions must agree and be 3 or 12
(`monthShift` = `month_shift`); then `triangle.replace(period_start=…, period_end=…,
evaluation_date=…)` with `add_months(·, month_shift)` -/
def monthShift (t m : List Cell) : Except Err Int := do
  let r1 ← Triangle.periodResolution t
  let r2 ← Triangle.periodResolution m
  if r1 != r2 then throw .valueError
  let res ← match r1 with
    | some 3 => pure (3 : Int)
    | some 12 => pure (12 : Int)
    | _ => throw Err.valueError
  let o1 ← originOf t res
  let o2 ← originOf m res
  pure (o2 - o1)

def shiftDefs (k : Int) : List RDef :=
  [ .periodStart (.addMonths (.cattr .periodStart) (.const (.int k))),
    .periodEnd (.addMonths (.cattr .periodEnd) (.const (.int k))),
    .evaluationDate (.addMonths (.cattr .evaluationDate) (.const (.int k))) ]

def shiftOrigin (t m : List Cell) : Except Err (List Cell) := do
  let k ← monthShift t m
  replace t (shiftDefs k)

/-! ## `bermuda/utils/adjust.py`

For the canonical-form property only coordinates, metadata, class and field names of the results matter.
The NUMBERS the adjusters compute (float powers, `np.mean`, `np.interp`, look-ups in neighbouring cells)
are parameters: arbitrary callables (`Ex.opaque`), instantiated by the harness with the implementation's
own numbers. Everything else — argument checks, `to_cumulative`, `period_merge`, `select`, the order of
the `derive_fields` calls, every `Triangle(...)` — is modelled statement by statement. -/

abbrev CellFn := Cell → Except Err PVal

/-- the `tri_fields` argument of `weight_geometric_decay`: `None`, a `str`, a `list` -/
inductive FieldsArg where
  | none
  | one (s : String)
  | many (l : List String)
deriving Repr, Inhabited

structure DecayArgs where
  /-- `isinstance(annual_decay_factor, float)`: an `int` factor skips the range check -/
  factorIsFloat : Bool := true
  factor : Rat := 1
  basis : String := "evaluation"
  fields : FieldsArg := .none
  weightAsField : Bool := true
deriving Repr, Inhabited

def decayFields (t : List Cell) : FieldsArg → Except Err (List String)
  | .none => .ok (Triangle.fields t)
  | .one s => if (Triangle.fields t).contains s then .ok [s] else .error .valueError
  | .many l => if l.all ((Triangle.fields t).contains ·) then .ok l else .error .valueError

/-- `triangle.evaluation_dates[-1] if basis == "evaluation" else triangle.periods[-1][0]` -/
def lastDate (t : List Cell) (basis : String) : Except Err Date :=
  if basis == "evaluation" then
    match (Triangle.evaluationDates t).getLast? with
    | some d => .ok d
    | Option.none => .error .indexError
  else
    match (Triangle.periods t).getLast? with
    | some p => .ok p.1
    | Option.none => .error .indexError

/-- the statements of `weight_geometric_decay` before the `if weight_as_field:`; returns `tri_fields` -/
def decayChecks (t : List Cell) (a : DecayArgs) : Except Err (List String) := do
  if a.factorIsFloat && (a.factor > 1 || a.factor ≤ 0) then throw .valueError
  let fields ← decayFields t a.fields
  let _ ← lastDate t a.basis
  pure fields

/-- `weight_geometric_decay(triangle, annual_decay_factor, basis, tri_fields, weight_as_field)`.
`w` = `_cell_weight(cell, last_date, factor, basis)`; `scaled f` = `lambda ob: ob[f] * new_weight`
(`KeyError` when the cell lacks `f`: `tri_fields` defaults to the fields of the WHOLE triangle).
`weight_as_field=False` is `Triangle([cell.derive_fields(f₁=…).derive_fields(f₂=…)… for cell in cells])`
= `derive_fields` with the definitions in that order. -/
def weightGeometricDecay (t : List Cell) (a : DecayArgs) (w : CellFn) (scaled : String → CellFn) :
    Except Err (List Cell) := do
  let fields ← decayChecks t a
  if a.weightAsField then deriveFields t [("geometric_weight", .opaque w)]
  else deriveFields t (fields.map fun f => (f, .opaque (scaled f)))

/-- `if triangle.is_incremental: triangle = to_cumulative(triangle)` -/
def cumOrSame (t : List Cell) : Except Err (List Cell) :=
  if Triangle.isIncremental t then Triangle.toCumulative t else pure t

/-- `paid_bs_adjustment(triangle, triangle_ult_claim_counts)`: `dr` = the `disposal_rate` lambda,
`pl` = `_get_adjusted_paid_loss` -/
def paidBsAdjustment (t ult : List Cell) (dr pl : CellFn) : Except Err (List Cell) := do
  let re ← Triangle.rightEdge ult
  let t1 ← cumOrSame t
  let t2 ← periodMerge t1 re (some "_ult")
  let t3 ← deriveFields t2 [("disposal_rate", .opaque dr)]
  let t4 ← Triangle.select t3 (Triangle.fields t1 ++ ["disposal_rate"])
  deriveFields t4 [("paid_loss", .opaque pl)]

/-- `if not triangle.is_regular() and len(triangle.experience_gaps): raise Exception(...)` -/
def regularGuard (t : List Cell) : Except Err Unit := do
  let reg ← Triangle.isRegular t (some .month)
  if !reg && !(Triangle.experienceGaps t).isEmpty then throw .other else pure ()

/-- `if sev_trend_method: annual_severity_trend = _sev_trend_from_hist_tri(tri, method=sev_trend_method)` -/
def trendRun (method : Option String) (trend : Except Err Unit) : Except Err Unit :=
  match method with
  | Option.none => pure ()
  | some m =>
    if m.isEmpty then pure ()
    else if m == "all" || m == "latest" then trend
    else throw .other

/-- `reported_bs_adjustment(triangle, annual_severity_trend, sev_trend_method)`. `first` are the two
lambdas of the first `derive_fields` (by field name), `second` those of the last one; `trend` is the run
of `_sev_trend_from_hist_tri` (only when `sev_trend_method` is truthy; an unknown method raises
`Exception`, the arithmetic on values may raise too). The regularity guard raises a bare `Exception`. -/
def reportedBsAdjustment (t : List Cell) (method : Option String) (first second : String → CellFn)
    (trend : Except Err Unit) : Except Err (List Cell) := do
  regularGuard t
  let t1 ← cumOrSame t
  let t2 ← deriveFields t1 [("average_case_os", .opaque (first "average_case_os")),
                            ("average_paid_severity", .opaque (first "average_paid_severity"))]
  trendRun method trend
  deriveFields t2 [("average_case_os", .opaque (second "average_case_os")),
                   ("reported_loss", .opaque (second "reported_loss"))]

/-! ## `drop_off_diagonals` (date_utils.py), `triangle_to_slice` / `slice_to_triangle` (utils/slice.py),
`make_pred_triangle_with_init` (utils/extend.py) -/

/-- `Counter(xs).most_common(1)[0][0]`: `heapq.nlargest(1, …)` is `max(…, key=count)`, which returns the
FIRST maximal entry of the counter, i.e. the first-inserted among the most frequent values -/
def mostCommon? {α} [BEq α] (xs : List α) : Option α :=
  ((groupBy id xs).foldl (fun (best : Option (α × List α)) p =>
    match best with
    | Option.none => some p
    | some b => if p.2.length > b.2.length then some p else some b) Option.none).map (·.1)

/-- Python `int % float` on exact numbers: the result takes the sign of the divisor;
`ZeroDivisionError` for a zero divisor -/
def floatMod (a : Int) (b : Rat) : Except Err Rat :=
  if b == 0 then .error .other else .ok ((a : Rat) - (((a : Rat) / b).floor : Rat) * b)

/-- the evaluation dates `drop_off_diagonals` keeps: the most common gap between consecutive
evaluation dates (in months), the most common `month_to_id(date) % gap`, the dates with that remainder -/
def usefulEvals (t : List Cell) : Except Err (List Date) := do
  let evs := Triangle.evaluationDates t
  let gaps := (adjacentPairs evs).map fun p => devLagMonths p.1 p.2
  let res ← match mostCommon? gaps with | some r => pure r | Option.none => throw Err.indexError
  let origins ← evs.mapM fun d => floatMod (monthToId d) res
  let origin ← match mostCommon? origins with | some o => pure o | Option.none => throw Err.indexError
  pure ((evs.zip origins).filterMap fun p => if p.2 == origin then some p.1 else Option.none)

/-- `drop_off_diagonals(triangle)` = `triangle.filter(lambda cell: cell.evaluation_date in most_useful_evals)` -/
def dropOffDiagonals (t : List Cell) : Except Err (List Cell) := do
  let useful ← usefulEvals t
  Triangle.filterP t (fun c => useful.contains c.ev)

/-- `triangle_to_slice(t)` = `TriangleSlice(t.cells)`: the constructor, then `TriangleError` when there is
more than one slice -/
def toSlice (t : List Cell) : Except Err (List Cell) := do
  let r ← Triangle.ofCells t
  if (metasOf r).length > 1 then throw .triangleError else pure r

/-- `slice_to_triangle(s)` = `Triangle(s.cells)` -/
def sliceToTriangle (t : List Cell) : Except Err (List Cell) := Triangle.ofCells t

structure PredInitArgs where
  pred : Option (List Cell) := Option.none
  maxDevLag : Option (Int × String) := Option.none
  evalRes : Option (Int × String) := Option.none
  maxEval : Option Date := Option.none
deriving Repr, Inhabited

/-- `_get_all_lag_months(eval_resolution, max_dev_lag)`: `0, r, 2r, … ≤ max`. The `while` loop never ends
for a resolution ≤ 0 with a non-negative maximum: outside the model (`Err.other`). -/
def allLagMonths (er md : Int × String) : Except Err (List Rat) := do
  let r ← standardizeResolution er.1 er.2
  let m ← standardizeResolution md.1 md.2
  if r.2 != .month then throw .triangleError
  else if m.2 != .month then throw .triangleError
  else if m.1 < 0 then pure []
  else if r.1 ≤ 0 then throw .other
  else pure ((Extend.pyRange 0 (m.1 + 1) r.1).map fun (i : Int) => (i : Rat))

/-- the branch `pred_triangle is not None`: three exclusions, the class test on `cells[0]`
(`IndexError` on an empty operand), then `pred_triangle` itself -/
def predGiven (t p : List Cell) (a : PredInitArgs) : Except Err (List Cell) :=
  if a.maxEval.isSome then .error .triangleError
  else if a.maxDevLag.isSome then .error .triangleError
  else if a.evalRes.isSome then .error .triangleError
  else match t, p with
    | c :: _, d :: _ => if c.kind != d.kind then .error .triangleError else .ok p
    | _, _ => .error .indexError

/-- the dev lags of the branch without `pred_triangle` -/
def predLags (a : PredInitArgs) : Except Err (List Rat) :=
  match a.maxDevLag, a.evalRes with
  | Option.none, _ => .error .triangleError
  | some _, Option.none => .error .triangleError
  | some md, some er => allLagMonths er md

/-- `make_pred_triangle_with_init(init_triangle, pred_triangle, max_dev_lag, eval_resolution, max_eval_date)` -/
def makePredTriangleWithInit (t : List Cell) (a : PredInitArgs) : Except Err (List Cell) :=
  match a.pred with
  | some p => predGiven t p a
  | Option.none => do
    let lags ← predLags a
    let r ← Extend.makeRightTriangle t (some lags) "month"
    let maxEval := a.maxEval.getD Date.max
    Triangle.filterP r (fun c => decide (c.ev ≤ maxEval))

/-! ## `disaggregate_development` (utils/disaggregate.py)

New evaluation dates, hence new coordinates: `add_months(period_end, lag)` for the lags of
`np.arange(min_x, max_x + resolution, resolution)`. The interpolated NUMBERS (`scipy.interpolate.interp1d`)
are an opaque callable `vals field cell` (the cell is the new cell without values); which FIELDS a new
cell gets is modelled. -/

structure DisaggDevArgs where
  res : Int
  fields : Option (List String) := Option.none
  extrapolate : Bool := true
deriving Repr, Inhabited

def defaultInterpolationFields : List String := ["paid_loss", "reported_loss", "incurred_loss", "earned_premium"]

/-- `np.arange(lo, hi, step)` for `step > 0` on exact numbers: `ceil((hi - lo) / step)` values -/
def arange (lo hi step : Rat) : List Rat :=
  if step ≤ 0 then []
  else (List.range ((hi - lo) / step).ceil.toNat).map fun (k : Nat) => lo + (k : Rat) * step

/-- `row_tri.dev_lags(unit="months")` -/
def rowLags (row : List Cell) : List Rat := sortedDedup ratCmp (row.map fun c => c.devLag .month)

/-- no gaps: `zip(dev_lags[1:-1], dev_lags[2:])` all equal to `dev_lags[1] - dev_lags[0]` -/
def gapFree : List Rat → Bool
  | l0 :: l1 :: rest => ((l1 :: rest).zip rest).all fun p => p.2 - p.1 == l1 - l0
  | _ => true

/-- `init_cell.replace(evaluation_date=add_months(init_cell.period_end, lag), values={f: … for f in keys})` -/
def newDevCell (init : Cell) (lag : Rat) (keys : List String) (vals : String → CellFn) : Except Err Cell := do
  let skel : Cell := { init with ev := addMonths init.pe lag, values := [] }
  let vs ← keys.foldlM (fun (d : Dict Val) f => do
    let v ← vals f skel
    let v' ← v.toVal
    pure (d.set f v')) []
  ({ skel with values := vs }).mk?

/-- `np.maximum(0.0, lag - eval_resolution + resolution_months)`; `eval_resolution` is `None` for a slice
with a single evaluation date (`TypeError`) -/
def minX (er : Option Int) (res : Int) (lag : Rat) : Except Err Rat :=
  match er with
  | some e => .ok (max 0 (lag - (e : Rat) + (res : Rat)))
  | Option.none => .error .typeError

/-- a period with at least two development lags -/
def devRowMulti (a : DisaggDevArgs) (fields : List String) (er : Option Int) (vals : String → CellFn)
    (row : List Cell) (init last : Cell) : Except Err (List Cell) :=
  if !gapFree (rowLags row) then .error .triangleError
  else do
    let lo ← (if a.extrapolate then minX er a.res (init.devLag .month) else .ok (init.devLag .month))
    (arange lo (last.devLag .month + (a.res : Rat)) (a.res : Rat)).mapM fun lag =>
      newDevCell init lag (fields.filter ((Triangle.fields row).contains ·)) vals

/-- the largest period among cells: `sorted(new_cells, key=lambda c: c.period)[-1].period` -/
def lastPeriod? (cells : List Cell) : Option Period :=
  (cells.map Cell.period).foldl (fun (m : Option Period) p =>
    match m with
    | Option.none => some p
    | some q => if periodCmp q p == .gt then some q else some p) Option.none

/-- a period with a single development lag, when extrapolating: scaled copies of the cells of the last
interpolated period (nothing when no period has been interpolated yet) -/
def devRowSingle (a : DisaggDevArgs) (fields : List String) (er : Option Int) (vals : String → CellFn)
    (acc : List Cell) (init : Cell) : Except Err (List Cell) :=
  match lastPeriod? acc with
  | Option.none => .ok []
  | some lp => do
    let lag := init.devLag .month
    let lo ← minX er a.res lag
    let predX := arange lo (lag + (a.res : Rat)) (a.res : Rat)
    let relevant := ((acc.filter fun c => c.period == lp).mergeSort
      (fun x y => ratCmp (x.devLag .month) (y.devLag .month) != .gt)).take predX.length
    (predX.zip relevant).mapM fun p =>
      newDevCell init p.1 (fields.filter (p.2.values.contains ·)) vals

/-- one iteration of `for _, row_cells in tri_slice.slice_period_rows` (returns the cells ADDED) -/
def devRow (a : DisaggDevArgs) (fields : List String) (er : Option Int) (vals : String → CellFn)
    (acc : List Cell) (row : List Cell) : Except Err (List Cell) :=
  match row, row.getLast? with
  | init :: _, some last =>
    if (rowLags row).length > 1 then devRowMulti a fields er vals row init last
    else if !a.extrapolate then .ok [init]
    else devRowSingle a fields er vals acc init
  | _, _ => .ok []

/-- `_disaggregate_development_slice` -/
def disaggDevSlice (a : DisaggDevArgs) (fields : List String) (vals : String → CellFn) (slice : List Cell) :
    Except Err (List Cell) := do
  let er ← Triangle.evalDateResolution slice
  (Extend.slicePeriodRows slice).foldlM (fun acc kr => do
    let added ← devRow a fields er vals acc kr.2
    pure (acc ++ added)) []

/-- the statements of `disaggregate_development` before the loop: `some fields` to go on, `none` for the
early `return triangle` -/
def disaggDevChecks (t : List Cell) (a : DisaggDevArgs) : Except Err (Option (List String)) := do
  let er ← Triangle.evalDateResolution t
  match er with
  | Option.none => throw .typeError          -- `resolution_months > None`
  | some e =>
    if a.res > e then throw .valueError
    else if a.res == e then pure Option.none
    else
      let fields := a.fields.getD defaultInterpolationFields
      if (Triangle.fields t).any (fields.contains ·) then pure (some fields) else throw .valueError

/-- `disaggregate_development(triangle, resolution_months, fields, …, extrapolate_first_period)` -/
def disaggregateDevelopment (t : List Cell) (a : DisaggDevArgs) (vals : String → CellFn) :
    Except Err (List Cell) := do
  match ← disaggDevChecks t a with
  | Option.none => pure t
  | some fields =>
    let cum ← cumOrSame t
    let blocks ← (Triangle.slices cum).mapM fun sl => disaggDevSlice a fields vals sl.2
    let r ← Triangle.ofCells blocks.flatten
    if Triangle.isIncremental t then Triangle.toIncremental r else pure r

/-- `if min(triangle.dev_lags()) < 0: raise TriangleError` (`min([])`: `ValueError`) -/
def disaggGuard (t : List Cell) : Except Err Unit := do
  let lags ← Triangle.devLags t (some .month)
  match lags.head? with                       -- `dev_lags()` is sorted: its head is the minimum
  | Option.none => throw .valueError
  | some m => if m < 0 then throw .triangleError else pure ()

/-- `disaggregate(triangle, resolution_exp_months, resolution_dev_months, fields, period_weights, …)` =
guard, `disaggregate_experience`, `disaggregate_development` -/
def disaggregate (t : List Cell) (resExp : Nat) (weights : Option (List Units.Num)) (a : DisaggDevArgs)
    (vals : String → CellFn) : Except Err (List Cell) := do
  disaggGuard t
  let de ← Units.disaggregateExperience t resExp weights a.fields
  disaggregateDevelopment de a vals

/-! ## readers: `reader ∘ writer` as an operation on triangles (Model/Frame.lean)

pandas / the CSV text are the opaque layer of `Model/Frame.lean` (a table is a list of rows); the
composites below are the data-frame round trips on that row model. -/

/-- `Triangle.from_wide_data_frame(t.to_wide_data_frame(), field_cols, detail_cols, loss_detail_cols)`
(= the wide CSV round trip on the row model) -/
def wideRoundTrip (t : List Cell) (fieldCols detailCols lossDetailCols : List String) : Except Err (List Cell) :=
  (Frame.toWideRows t).bind fun tb => Frame.fromWideRows tb fieldCols detailCols lossDetailCols

/-- `Triangle.from_long_data_frame(t.to_long_data_frame(), loss_detail_cols)` -/
def longRoundTrip (t : List Cell) (lossDetailCols : List String) : Except Err (List Cell) :=
  (Frame.toLongRows t).bind fun tb => Frame.fromLongRows tb lossDetailCols

/-- `Triangle.from_array_data_frame(t.to_array_data_frame(field), field, period_resolution, metadata=md)` -/
def arrayRoundTrip (t : List Cell) (field : String) (md : Metadata) (res : Option Int) : Except Err (List Cell) :=
  (Frame.toArrayFrame t field).bind fun rows => Frame.fromArrayFrame rows field md res

/-- `matrix_to_triangle(triangle_to_matrix(t))` -/
def matrixRoundTrip (t : List Cell) : Except Err (List Cell) :=
  (Frame.toMatrix t).bind Frame.fromMatrix

end Fn

/-! ## the operations -/

/-- `Op2` plus the operations of this file -/
inductive Op3 where
  | base (op : Op2)
  /-- `t.derive_fields(name=lambda c: …, …)` -/
  | deriveFields (defs : List (String × Fn.Ex))
  /-- `t.derive_metadata(name=lambda c: …, …)` -/
  | deriveMetadataFn (defs : List (String × Fn.Ex))
  /-- `t.replace(period_end=lambda c: …, …)` -/
  | replaceFn (defs : List Fn.RDef)
  /-- `t.filter(lambda c: …)` -/
  | filterFn (pred : Fn.Ex)
  /-- `t | other` -/
  | union (other : List Cell)
  /-- `t & other` -/
  | inter (other : List Cell)
  /-- `t - other` -/
  | diff (other : List Cell)
  /-- `t ^ other` -/
  | symdiff (other : List Cell)
  /-- `sum([t, *others])` -/
  | sum (others : List (List Cell))
  /-- `t[i]`: a Cell, the chain cannot continue -/
  | cellAt (i : Int)
  /-- `loose_period_merge(t, other, suffix)` -/
  | loosePeriodMerge (other : List Cell) (suffix : Option String)
  /-- `shift_origin(t, match)` -/
  | shiftOrigin (matchTri : List Cell)
  /-- `weight_geometric_decay(t, …)` -/
  | weightGeometricDecay (a : Fn.DecayArgs) (w : Fn.CellFn) (scaled : String → Fn.CellFn)
  /-- `paid_bs_adjustment(t, ult)` -/
  | paidBsAdjustment (ult : List Cell) (dr pl : Fn.CellFn)
  /-- `reported_bs_adjustment(t, trend, method)` -/
  | reportedBsAdjustment (method : Option String) (first second : String → Fn.CellFn) (trend : Except Err Unit)
  /-- wide data-frame / CSV round trip -/
  | wideRoundTrip (fieldCols detailCols lossDetailCols : List String)
  /-- long data-frame / CSV round trip -/
  | longRoundTrip (lossDetailCols : List String)
  /-- array data-frame round trip -/
  | arrayRoundTrip (field : String) (md : Metadata) (res : Option Int)
  /-- matrix round trip -/
  | matrixRoundTrip
  /-- `drop_off_diagonals(t)` -/
  | dropOffDiagonals
  /-- `triangle_to_slice(t)` -/
  | toSlice
  /-- `slice_to_triangle(t)` -/
  | sliceToTriangle
  /-- `make_pred_triangle_with_init(t, …)` -/
  | makePredTriangleWithInit (a : Fn.PredInitArgs)
  /-- `disaggregate_development(t, …)` -/
  | disaggregateDevelopment (a : Fn.DisaggDevArgs) (vals : String → Fn.CellFn)
  /-- `disaggregate(t, …)` -/
  | disaggregate (resExp : Nat) (weights : Option (List Units.Num)) (a : Fn.DisaggDevArgs) (vals : String → Fn.CellFn)

def step3 (t : List Cell) : Op3 → Except Err (List Cell)
  | .base op => step2 t op
  | .deriveFields defs => Fn.deriveFields t defs
  | .deriveMetadataFn defs => Fn.deriveMetadata t defs
  | .replaceFn defs => Fn.replace t defs
  | .filterFn pred => Fn.filter t pred
  | .union o => Triangle.union t o
  | .inter o => Triangle.inter t o
  | .diff o => Triangle.diff t o
  | .symdiff o => Triangle.symdiff t o
  | .sum others => Fn.sumOf t others
  | .cellAt i =>
    match Fn.cellAt t i with
    | .error e => .error e
    | .ok _ => .error .other               -- a Cell: the chain cannot continue
  | .loosePeriodMerge o suffix => Fn.loosePeriodMerge t o suffix
  | .shiftOrigin m => Fn.shiftOrigin t m
  | .weightGeometricDecay a w scaled => Fn.weightGeometricDecay t a w scaled
  | .paidBsAdjustment ult dr pl => Fn.paidBsAdjustment t ult dr pl
  | .reportedBsAdjustment method first second trend => Fn.reportedBsAdjustment t method first second trend
  | .wideRoundTrip f d l => Fn.wideRoundTrip t f d l
  | .longRoundTrip l => Fn.longRoundTrip t l
  | .arrayRoundTrip field md res => Fn.arrayRoundTrip t field md res
  | .matrixRoundTrip => Fn.matrixRoundTrip t
  | .dropOffDiagonals => Fn.dropOffDiagonals t
  | .toSlice => Fn.toSlice t
  | .sliceToTriangle => Fn.sliceToTriangle t
  | .makePredTriangleWithInit a => Fn.makePredTriangleWithInit t a
  | .disaggregateDevelopment a vals => Fn.disaggregateDevelopment t a vals
  | .disaggregate resExp weights a vals => Fn.disaggregate t resExp weights a vals

/-- run a sequence of operations, stopping at the first error -/
def run3 (t : List Cell) : List Op3 → Except Err (List Cell)
  | [] => .ok t
  | op :: ops => match step3 t op with
    | .ok t' => run3 t' ops
    | .error e => .error e

end Bermuda
