/-
Third extension of the closure clause of C01 (`Op4` wraps `Op3`, Model/AllOps2.lean): the remaining public
operations that return a Triangle —

* the rest of `bermuda/io/array.py` as `reader ∘ writer` composites on the models of `Model/FrameStatics.lean`
  (`statics_data_frame_to_triangle ∘ triangle_to_right_edge_data_frame`, `array_data_frame_to_triangle` with
  all its arguments, `array_triangle_builder`),
* the rich-matrix round trip and `triangle_to_matrix` with its optional arguments (`Model/FrameRich.lean`),
* `Triangle.__getitem__` / `TriangleSlice.__getitem__` with ANY index object and the `TriangleSlice`
  constructor (`Model/Select.lean`),
* `make_pred_triangle` and `make_pred_triangle_complement` (`bermuda/utils/extend.py`), modelled here
  statement by statement,
* the binary round trip `Triangle.from_binary ∘ to_binary`: `Model/Codec.lean` is a BIT view (`RawCell`: floats as
  their eight bytes, strings as UTF-8 bytes); a bridge `Cell → RawCell → Cell` (exact IEEE-754 binary64 encoding of
  the rationals that are doubles) carries it to the shared cell type.

Core Lean only.
-/
import Bermuda.Model.AllOps2
import Bermuda.Model.FrameStatics
import Bermuda.Model.FrameRich
import Bermuda.Model.Codec
namespace Bermuda
namespace Fn

/-! ## tabular composites -/

/-- `Triangle.from_statics_data_frame(t.to_right_edge_data_frame().drop(columns=["evaluation_date"]),
evaluation_date, period_resolution, metadata)`. (A field missing in some right-edge cell is `NaN` in the
frame and comes back as a `nan` value; the row model has it absent — the composite is compared on
triangles whose cells carry the same fields.) -/
def rightEdgeStatics (t : List Cell) (evaluation : Option Date) (res : Option Int) (md : Metadata) :
    Except Err (List Cell) :=
  (Frame.toRightEdgeFrame t).bind fun rows =>
    Frame.fromStatics (rows.map fun r => { period := .date r.period, entries := r.entries }) evaluation res md

/-- `pd.DataFrame(rows)` of `triangle_to_array_data_frame` as the frame the reader sees: columns in
first-appearance order (labels `str(int(dev_lag))`), a missing entry is NaN -/
def arrayFrameOf (rows : List Frame.ArrayRow) : Frame.ArrayFrame :=
  let cols := Frame.frameCols rows
  { cols := cols.map fun (k : Int) => toString k,
    rows := rows.map fun r =>
      (.date r.period, cols.map fun k => ((r.entries.find? (·.1 == k)).map (·.2)).getD Val.none) }

/-- `Triangle.from_array_data_frame(t.to_array_data_frame(field), field, period_resolution, eval_resolution,
dev_lag_from_period_end, metadata)` -/
def arrayFullRoundTrip (t : List Cell) (field : String) (res evalRes : Option Int) (fromEnd : Bool)
    (md : Metadata) : Except Err (List Cell) :=
  (Frame.toArrayFrame t field).bind fun rows =>
    Frame.fromArrayFrameFull (arrayFrameOf rows) field res evalRes fromEnd md

/-- `array_triangle_builder([t.to_array_data_frame(f) for f in fields], fields, **kwargs)` -/
def arrayBuilderRoundTrip (t : List Cell) (fields : List String) (res evalRes : Option Int) (fromEnd : Bool)
    (md : Metadata) : Except Err (List Cell) :=
  (fields.mapM fun f => (Frame.toArrayFrame t f).map arrayFrameOf).bind fun frames =>
    Frame.arrayTriangleBuilder frames fields res evalRes fromEnd md

/-- `rich_matrix_to_triangle(triangle_to_rich_matrix(t, eval_resolution, fields))` -/
def richRoundTrip (t : List Cell) (evalRes : Option Int) (fields : Option (List String)) : Except Err (List Cell) :=
  (Frame.toRich t evalRes fields).bind Frame.fromRich

/-- `matrix_to_triangle(triangle_to_matrix(t, eval_resolution, fields))` -/
def matrixOptRoundTrip (t : List Cell) (evalRes : Option Int) (fields : Option (List String)) :
    Except Err (List Cell) :=
  (Frame.toMatrixOpt t evalRes fields).bind Frame.fromMatrix

/-! ## `TriangleSlice(t.cells)[index]` -/

/-- `triangle_to_slice(t)[index]` -/
def sliceGetItemAny (t : List Cell) (idx : Index) : Except Err (List Cell ⊕ Cell) :=
  (TriangleSlice.ofCells t).bind fun s => TriangleSlice.getItemAny s idx

/-! ## `make_pred_triangle` (utils/extend.py) -/

/-- `standardize_resolution((quantity, units))[0]`: the quantity in months or days — the caller drops the
unit. Quantities may be floats (`make_pred_triangle_complement` passes `dev_lags()[0]`). -/
def stdQuantity (r : Rat × String) : Except Err Rat :=
  let has (s : String) : Bool := lowerHas r.2 s
  if has "month" then .ok r.1
  else if has "quarter" then .ok (r.1 * 3)
  else if has "year" then .ok (r.1 * 12)
  else if has "day" then .ok r.1
  else if has "week" then .ok (r.1 * 7)
  else .error .valueError

structure PredArgs where
  metas : List Metadata
  minPeriod : Date
  maxPeriod : Date
  expRes : Rat × String
  evalRes : Rat × String
  expOrigin : Option Date := Option.none
  /-- `None` cannot be unpacked by `standardize_resolution`: `TypeError` -/
  minDevLag : Option (Rat × String) := some (0, "months")
  maxDevLag : Option (Rat × String) := Option.none
  minEval : Option Date := Option.none
  maxEval : Option Date := Option.none
  isIncremental : Bool := false
deriving Repr, Inhabited

/-- the experience periods: `while current_end < max_period: …`. `fuel` bounds the loop (it never ends for
a resolution ≤ 0; the model answers `Err.other` when the fuel runs out). -/
def predPeriods : Nat → Date → Date → Rat → Except Err (List (Date × Date))
  | 0, cur, maxP, _ => if cur < maxP then .error .other else .ok []
  | fuel + 1, cur, maxP, res =>
    if cur < maxP then
      let nextEnd := addMonths cur res
      (predPeriods fuel nextEnd maxP res).map fun rest =>
        if nextEnd ≤ maxP then (cur.succ, nextEnd) :: rest else rest
    else .ok []

/-- the evaluation dates: `while current_eval <= max_eval: …` -/
def predEvals : Nat → Date → Date → Rat → Except Err (List Date)
  | 0, cur, maxE, _ => if cur ≤ maxE then .error .other else .ok []
  | fuel + 1, cur, maxE, res =>
    if cur ≤ maxE then (predEvals fuel (addMonths cur res) maxE res).map fun rest => cur :: rest
    else .ok []

/-- loop bound: one step per month from `a` to `b`, plus slack -/
def monthsFuel (a b : Date) : Nat := (monthToId b - monthToId a + 3).toNat

/-- the callable `statics_fn` (default `None`: calling it is a `TypeError`) -/
abbrev StaticsFn := Option (Cell → Except Err (Dict Val))

/-- `_cell_with_statics`: the empty `CumulativeCell(...)` (validated), then `ob.replace(values=statics_fn(ob))`;
`KeyError` / `IndexError` from the callable drop the cell, every other exception propagates -/
def cellWithStatics (statics : StaticsFn) (ps pe ev : Date) (md : Metadata) : Except Err (Option Cell) :=
  (Cell.mk? { kind := .cumulative, ps := ps, pe := pe, ev := ev, values := [], md := md }).bind fun ob =>
  match statics with
  | Option.none => .error .typeError
  | some f =>
    match f ob with
    | .error .keyError => .ok Option.none
    | .error .indexError => .ok Option.none
    | .error e => .error e
    | .ok vs => (Cell.mk? { ob with values := vs }).map some

/-- first / last element with Python's `IndexError` -/
def headE {α} (l : List α) : Except Err α := match l.head? with | some a => .ok a | Option.none => .error .indexError
def lastE {α} (l : List α) : Except Err α := match l.getLast? with | some a => .ok a | Option.none => .error .indexError

/-- the evaluation window `(max_dev_lag_months, max_eval)` of `make_pred_triangle` -/
def predMaxima (a : PredArgs) (periods : List (Date × Date)) : Except Err (Rat × Date) :=
  match a.maxEval, a.maxDevLag with
  | Option.none, Option.none => .error .other                       -- bare `Exception`
  | Option.none, some md =>
    (stdQuantity md).bind fun q => (lastE periods).bind fun p => .ok (q, addMonths p.2 q)
  | some me, Option.none => (headE periods).bind fun p => .ok (devLagMonths p.2 me, me)
  | some me, some md => (stdQuantity md).bind fun q => .ok (q, me)

/-- the candidate coordinates in comprehension order: periods, evaluation dates, metadata; kept when
`min_dev_lag_months <= dev_lag_months(period_end, evaluation_date) <= max_dev_lag_months` -/
def predCoords (a : PredArgs) (periods : List (Date × Date)) (evals : List Date) (lo hi : Rat) :
    List ((Date × Date) × Date × Metadata) :=
  periods.flatMap fun p => evals.flatMap fun ev => a.metas.filterMap fun m =>
    if lo ≤ devLagMonths p.2 ev && devLagMonths p.2 ev ≤ hi then some (p, ev, m) else Option.none

/-- `min_dev_lag_months = standardize_resolution(min_dev_lag)[0]` -/
def predMinLag (a : PredArgs) : Except Err Rat :=
  match a.minDevLag with
  | Option.none => .error .typeError
  | some r => stdQuantity r

/-- `if min_eval is None: min_eval = add_months(periods[0][1], min_dev_lag_months)` -/
def predMinEval (a : PredArgs) (periods : List (Date × Date)) (lo : Rat) : Except Err Date :=
  match a.minEval with
  | some d => .ok d
  | Option.none => (headE periods).map fun p => addMonths p.2 lo

/-- `make_pred_triangle(metadata_sets, min_period, max_period, exp_resolution, eval_resolution, exp_origin,
eval_origin, min_dev_lag, max_dev_lag, min_eval, max_eval, statics_fn, is_incremental)`; `eval_origin` is
assigned and never read -/
def makePredTriangle (a : PredArgs) (statics : StaticsFn) : Except Err (List Cell) :=
  let origin := a.expOrigin.getD a.minPeriod.pred
  (stdQuantity a.expRes).bind fun expRes =>
  (predPeriods (monthsFuel origin a.maxPeriod) origin a.maxPeriod expRes).bind fun periods =>
  (stdQuantity a.evalRes).bind fun evalRes =>
  (predMaxima a periods).bind fun mx =>
  (predMinLag a).bind fun lo =>
  (predMinEval a periods lo).bind fun minEval =>
  (predEvals (monthsFuel minEval mx.2) minEval mx.2 evalRes).bind fun evals =>
  ((predCoords a periods evals lo mx.1).mapM fun (c : (Date × Date) × Date × Metadata) =>
    cellWithStatics statics c.1.1 c.1.2 c.2.1 c.2.2).bind fun cells =>
  (Triangle.ofCells (cells.filterMap id)).bind fun tri =>
  if a.isIncremental then Triangle.toIncremental tri else .ok tri

/-! ## `make_pred_triangle_complement` -/

structure ComplementArgs where
  staticFields : Option (List String) := Option.none
  maxDevLag : Option Rat := Option.none
  evalResOverride : Option Int := Option.none
deriving Repr, Inhabited

/-- the `statics_fn` closure: the FIRST right-edge cell with the same `details` (not the whole metadata) and
period start (`[…][0]`: `IndexError`, which `_cell_with_statics` turns into "no cell") -/
def complementStatics (edge : List Cell) (fields : List String) (ob : Cell) : Except Err (Dict Val) :=
  match edge.find? (fun c => c.md.details == ob.md.details && c.ps == ob.ps) with
  | some c => .ok (c.values.filter fun kv => fields.contains kv.1)
  | Option.none => .error .indexError

/-- `eval_date_resolution(init_triangle) if eval_date_resolution_override is None else override` -/
def complementEvalRes (t : List Cell) (a : ComplementArgs) : Except Err (Option Int) :=
  match a.evalResOverride with
  | some r => .ok (some r)
  | Option.none => Triangle.evalDateResolution t

/-- `if max_dev_lag is None: max_dev_lag = init_triangle.dev_lags()[-1]` -/
def complementMaxLag (a : ComplementArgs) (lags : List Rat) : Except Err Rat :=
  match a.maxDevLag with
  | some m => .ok m
  | Option.none => lastE lags

/-- the arguments `make_pred_triangle_complement` hands to `make_pred_triangle` -/
def complementPredArgs (t : List Cell) (a : ComplementArgs) : Except Err PredArgs :=
  (complementEvalRes t a).bind fun er =>
  match er with
  | Option.none => .error .triangleError
  | some evalRes =>
    (Triangle.devLags t (some .month)).bind fun lags =>
    (complementMaxLag a lags).bind fun maxLag =>
    (headE (Triangle.periods t)).bind fun p0 =>
    (lastE (Triangle.periods t)).bind fun pn =>
    (Triangle.periodResolution t).bind fun pr =>
    match pr with
    | Option.none => .error .typeError           -- `add_months(current_end, None)`
    | some expRes =>
      (headE (Triangle.evaluationDates t)).bind fun e0 =>
      (headE lags).bind fun minLag =>
      .ok { metas := Triangle.metadata t, minPeriod := p0.1, maxPeriod := pn.2,
            expRes := ((expRes : Rat), "months"), evalRes := ((evalRes : Rat), "months"),
            expOrigin := some p0.1.pred, minDevLag := some (minLag, "months"),
            maxDevLag := some (maxLag, "months"), minEval := some e0,
            isIncremental := Triangle.isIncremental t }

/-- `right_edge_start.get((cell.metadata, cell.period), date.min)`: the last evaluation date of the row -/
def rightEdgeStart (t : List Cell) (c : Cell) : Date :=
  match (Extend.slicePeriodRows t).find? (fun kr => kr.1 == (c.md, (c.ps, c.pe))) with
  | some kr => (kr.2.getLast?.map (·.ev)).getD Date.min
  | Option.none => Date.min

/-- the final filter: not at a `(period_start, evaluation_date)` the initial triangle holds under the same
`details` (`KeyError` when the details are unknown), and later than the row's right edge -/
def complementKeep (t : List Cell) (c : Cell) : Except Err Bool :=
  if !(t.any fun x => x.md.details == c.md.details) then .error .keyError
  else .ok (!(t.any fun x => x.md.details == c.md.details && x.ps == c.ps && x.ev == c.ev) &&
            decide (rightEdgeStart t c < c.ev))

/-- `make_pred_triangle_complement(init_triangle, static_fields, max_dev_lag, eval_date_resolution_override)` -/
def makePredTriangleComplement (t : List Cell) (a : ComplementArgs) : Except Err (List Cell) :=
  (complementPredArgs t a).bind fun pa =>
  (Triangle.rightEdge t).bind fun edge =>
  let fields := match a.staticFields with
    | some (f :: fs) => f :: fs
    | _ => ["earned_premium", "earned_exposure"]
  (makePredTriangle pa (some (complementStatics edge fields))).bind fun raw =>
  (filterE (complementKeep t) raw).bind Triangle.ofCells

/-! ## binary round trip: bridge between the shared `Cell` and the codec's bit view -/

section binary
open Codec

/-- the 8 little-endian bytes of the IEEE-754 double that equals `q` EXACTLY (`none` when `q` is not a
normal double or zero; every finite number Python holds is one, subnormals aside) -/
def f64Bytes? (q : Rat) : Option Bytes :=
  if q == 0 then some (natLE 8 0)
  else
    let n := q.num.natAbs
    let k := Nat.log2 q.den
    if 2 ^ k != q.den then Option.none
    else
      let b := Nat.log2 n
      let mant? : Option Nat :=
        if b ≤ 52 then some (n * 2 ^ (52 - b))
        else if n % 2 ^ (b - 52) == 0 then some (n / 2 ^ (b - 52)) else Option.none
      match mant? with
      | Option.none => Option.none
      | some mant =>
        let e : Int := (b : Int) - (k : Int) + 1023
        if e < 1 || e > 2046 then Option.none
        else some (natLE 8 ((if q < 0 then 2 ^ 63 else 0) + e.toNat * 2 ^ 52 + (mant - 2 ^ 52)))

def f64E (q : Rat) : Except Err Bytes :=
  match f64Bytes? q with
  | some b => .ok b
  | Option.none => .error .other

def ratOfF64 (b : Bytes) : Except Err Rat :=
  match f64Val b with
  | .fin q => .ok q
  | _ => .error .other                        -- inf / nan: not a value of the exact model

def utf8Of (s : String) : Bytes := s.toUTF8.toList

def strOfUtf8 (b : Bytes) : Except Err String :=
  match String.fromUTF8? ⟨b.toArray⟩ with
  | some s => .ok s
  | Option.none => .error .valueError        -- UnicodeDecodeError

/-- consecutive groups of 8 bytes -/
def chunks8 : Nat → Bytes → List Bytes
  | 0, _ => []
  | fuel + 1, b => if b.isEmpty then [] else b.take 8 :: chunks8 fuel (b.drop 8)

/-- a cell value as the writer sees it (`struct.error` for an `int` outside int64: `Err.other`) -/
def rawOfVal : Val → Except Err RawVal
  | .none => .ok .none
  | .int i => if int64Ok i then .ok (.int i) else .error .other
  | .flt q => (f64E q).map .flt
  | .arr true dims data =>
    if data.all (fun q => q.den == 1 && int64Ok q.num) then .ok (.intArr dims (data.flatMap fun q => intLE 8 q.num))
    else .error .other
  | .arr false dims data => (data.mapM f64E).map fun bs => .fltArr dims bs.flatten

/-- a decoded cell value (a `bool` is folded into `int`, as on the wire) -/
def valOfRaw : RawVal → Except Err Val
  | .none => .ok .none
  | .bool b => .ok (.int (if b then 1 else 0))
  | .int i => .ok (.int i)
  | .flt b => (ratOfF64 b).map .flt
  | .intArr dims p => .ok (.arr true dims ((chunks8 p.length p).map fun c => ((leInt c : Int) : Rat)))
  | .fltArr dims p => ((chunks8 p.length p).mapM ratOfF64).map fun qs => .arr false dims qs
  | .str _ => .error .typeError
  | .date _ => .error .typeError

/-- a metadata value: the Python kind of a number is forgotten by the shared model, an integral one is
written as `int`, any other as `float` (the choice does not survive the way back) -/
def rawOfMVal : MVal → Except Err RawVal
  | .none => .ok .none
  | .num q => if q.den == 1 && int64Ok q.num then .ok (.int q.num) else (f64E q).map .flt
  | .str s => .ok (.str (utf8Of s))
  | .date d => .ok (.date d)

def mvalOfRaw : RawVal → Except Err MVal
  | .none => .ok .none
  | .bool b => .ok (.num (if b then 1 else 0))
  | .int i => .ok (.num (i : Rat))
  | .flt b => (ratOfF64 b).map .num
  | .str b => (strOfUtf8 b).map .str
  | .date d => .ok (.date d)
  | _ => .error .other                        -- an array as a detail value: outside the shared model

def rawOfDict (d : Dict MVal) : Except Err RawDict := d.mapM fun kv => (rawOfMVal kv.2).map fun v => (utf8Of kv.1, v)

def dictOfRaw (d : RawDict) : Except Err (Dict MVal) :=
  (d.mapM fun kv => (strOfUtf8 kv.1).bind fun k => (mvalOfRaw kv.2).map fun v => (k, v)).map sortItems

def optBytes (s : Option String) : Option Bytes := s.map utf8Of

def optStrOfRaw : Option Bytes → Except Err (Option String)
  | Option.none => .ok Option.none
  | some b => (strOfUtf8 b).map some

def rawOfMeta (m : Metadata) : Except Err RawMetadata :=
  (match m.limit with
    | Option.none => .ok Option.none
    | some q => (f64E q).map some : Except Err (Option Bytes)).bind fun lim =>
  (rawOfDict m.details).bind fun det => (rawOfDict m.lossDetails).bind fun ldet =>
  .ok { riskBasis := optBytes m.riskBasis, country := optBytes m.country, currency := optBytes m.currency,
        reinsuranceBasis := optBytes m.reinsuranceBasis, lossDefinition := optBytes m.lossDefinition,
        limit := lim, details := det, lossDetails := ldet }

def metaOfRaw (m : RawMetadata) : Except Err Metadata :=
  (optStrOfRaw m.riskBasis).bind fun rb => (optStrOfRaw m.country).bind fun co =>
  (optStrOfRaw m.currency).bind fun cu => (optStrOfRaw m.reinsuranceBasis).bind fun re =>
  (optStrOfRaw m.lossDefinition).bind fun ld =>
  (match m.limit with
    | Option.none => .ok Option.none
    | some b => (ratOfF64 b).map some : Except Err (Option Rat)).bind fun lim =>
  (dictOfRaw m.details).bind fun det => (dictOfRaw m.lossDetails).bind fun ldet =>
  .ok { riskBasis := rb, country := co, currency := cu, reinsuranceBasis := re, lossDefinition := ld,
        limit := lim, details := det, lossDetails := ldet }

def rawOfCell (c : Cell) : Except Err RawCell :=
  (c.values.mapM fun kv => (rawOfVal kv.2).map fun v => (utf8Of kv.1, v)).bind fun vals =>
  (rawOfMeta c.md).bind fun md =>
  .ok { kind := c.kind, ps := c.ps, pe := c.pe, ev := c.ev, prev := c.prev, values := vals, md := md }

/-- a decoded cell in the shared type: class and the four dates are taken over unchanged -/
def cellOfRaw (c : RawCell) : Except Err Cell :=
  (c.values.mapM fun kv => (strOfUtf8 kv.1).bind fun k => (valOfRaw kv.2).map fun v => (k, v)).bind fun vals =>
  (metaOfRaw c.md).bind fun md =>
  .ok { kind := c.kind, ps := c.ps, pe := c.pe, ev := c.ev, prev := c.prev, values := vals, md := md }

/-- `Triangle.from_binary` on the bytes of an (uncompressed) file: `_read_triangle`, then `Triangle(cells)` -/
def fromBinary (s : Bytes) : Except Err (List Cell) :=
  (decode s).bind fun raw => (raw.mapM cellOfRaw).bind Triangle.ofCells

/-- `Triangle.from_binary(path, compress=rflag)` after `t.to_binary(path, compress=wflag)`: the writer uses its
flag as given (default `False`), the reader re-infers a falsy flag from the extension (`inferCompress`). When both
agree gzip is transparent; when they do not the reader fails (`BadGzipFile`, or a bad magic number). -/
def binaryRoundTrip (t : List Cell) (ext : Ext) (wflag : Bool) (rflag : Option Bool) : Except Err (List Cell) :=
  (t.mapM rawOfCell).bind fun raw =>
  (inferCompress ext rflag).bind fun rc =>
  if rc == wflag then fromBinary (encodePy raw) else .error .other

end binary

end Fn

/-! ## the operations -/

/-- `Op3` plus the operations of this file -/
inductive Op4 where
  | base (op : Op3)
  | rightEdgeStatics (evaluation : Option Date) (res : Option Int) (md : Metadata)
  | arrayFullRoundTrip (field : String) (res evalRes : Option Int) (fromEnd : Bool) (md : Metadata)
  | arrayBuilderRoundTrip (fields : List String) (res evalRes : Option Int) (fromEnd : Bool) (md : Metadata)
  | richRoundTrip (evalRes : Option Int) (fields : Option (List String))
  | matrixOptRoundTrip (evalRes : Option Int) (fields : Option (List String))
  /-- `t[index]` for any index object; a Cell ends the chain -/
  | getItemAny (idx : Index)
  /-- `triangle_to_slice(t)[index]` -/
  | sliceGetItemAny (idx : Index)
  /-- `make_pred_triangle(…)` (does not read the current triangle) -/
  | makePredTriangle (a : Fn.PredArgs) (statics : Fn.StaticsFn)
  | makePredTriangleComplement (a : Fn.ComplementArgs)
  /-- `Triangle.from_binary(path)` after `t.to_binary(path)` -/
  | binaryRoundTrip (ext : Codec.Ext) (wflag : Bool) (rflag : Option Bool)

/-- a triangle, or `Err.other` for a Cell (the chain cannot continue) -/
def triangleOnly : Except Err (List Cell ⊕ Cell) → Except Err (List Cell)
  | .error e => .error e
  | .ok (.inl r) => .ok r
  | .ok (.inr _) => .error .other

def step4 (t : List Cell) : Op4 → Except Err (List Cell)
  | .base op => step3 t op
  | .rightEdgeStatics ev res md => Fn.rightEdgeStatics t ev res md
  | .arrayFullRoundTrip field res evalRes fromEnd md => Fn.arrayFullRoundTrip t field res evalRes fromEnd md
  | .arrayBuilderRoundTrip fields res evalRes fromEnd md => Fn.arrayBuilderRoundTrip t fields res evalRes fromEnd md
  | .richRoundTrip evalRes fields => Fn.richRoundTrip t evalRes fields
  | .matrixOptRoundTrip evalRes fields => Fn.matrixOptRoundTrip t evalRes fields
  | .getItemAny idx => triangleOnly (Triangle.getItemAny t idx)
  | .sliceGetItemAny idx => triangleOnly (Fn.sliceGetItemAny t idx)
  | .makePredTriangle a statics => Fn.makePredTriangle a statics
  | .makePredTriangleComplement a => Fn.makePredTriangleComplement t a
  | .binaryRoundTrip ext wflag rflag => Fn.binaryRoundTrip t ext wflag rflag

/-- run a sequence of operations, stopping at the first error -/
def run4 (t : List Cell) : List Op4 → Except Err (List Cell)
  | [] => .ok t
  | op :: ops => match step4 t op with
    | .ok t' => run4 t' ops
    | .error e => .error e

end Bermuda
