/-
`Metadata.__lt__` as the PARTIAL comparison it is in Python (bermuda/base/metadata.py:136-168).

`Model/Order.lean: Metadata.cmp` is total: detail values of different kinds are ordered by `MVal.rank`. Python
has no such order: the compared tuples end in `tuple(sorted(details.items()))`, `tuple(sorted(loss_details.items()))`;
tuple comparison looks for the first position where the two sides differ under `==` and applies `<` THERE — for two
items with the same key and values of different kinds (`1` vs `"a"`, `None` vs anything, a date vs a number) that
`<` raises `TypeError` (inside `Triangle(...)`: `TriangleError`). `bool`, `int`, `float` compare with each other
(all folded into `MVal.num`). `cmp?` below is that comparison; `detailKindsComparable` is the decidable domain on
which it is total and coincides with `Metadata.cmp` (`Properties/C01.lean: metadata_cmpPy_eq`).
Core Lean only.
-/
import Bermuda.Model.Order
namespace Bermuda

/-- `<` between two detail values that differ under `==`: same kind required -/
def MVal.cmp? (a b : MVal) : Except Err Ordering :=
  if a == b then .ok .eq
  else if a.rank == b.rank then .ok (MVal.cmp a b) else .error .typeError

/-- `(k₁, v₁)` against `(k₂, v₂)`: the keys decide unless they are equal -/
def itemCmp? (a b : String × MVal) : Except Err Ordering :=
  match compare a.1 b.1 with
  | .eq => MVal.cmp? a.2 b.2
  | o => .ok o

/-- tuple comparison of two item tuples: first differing position decides; a proper prefix is smaller -/
def itemsLex? : List (String × MVal) → List (String × MVal) → Except Err Ordering
  | [], [] => .ok .eq
  | [], _ :: _ => .ok .lt
  | _ :: _, [] => .ok .gt
  | a :: as, b :: bs =>
    match itemCmp? a b with
    | .error e => .error e
    | .ok .eq => itemsLex? as bs
    | .ok o => .ok o

def itemsCmp? (a b : Dict MVal) : Except Err Ordering := itemsLex? (sortItems a) (sortItems b)

/-- the six leading components of the compared tuple (total) -/
def Metadata.headCmp : Metadata → Metadata → Ordering :=
  compareLex (cmpOn (·.riskBasis) optStrCmp) <|
  compareLex (cmpOn (·.country) optStrCmp) <|
  compareLex (cmpOn (·.currency) optStrCmp) <|
  compareLex (cmpOn (·.reinsuranceBasis) optStrCmp) <|
  compareLex (cmpOn (·.lossDefinition) optStrCmp) (cmpOn (·.limit) limCmp)

/-- three-way form of `Metadata.__lt__`: `a < b` is `cmp? a b = .ok .lt`, it raises iff `cmp?` is an error -/
def Metadata.cmp? (a b : Metadata) : Except Err Ordering :=
  match Metadata.headCmp a b with
  | .eq =>
    match itemsCmp? a.details b.details with
    | .error e => .error e
    | .ok .eq => itemsCmp? a.lossDetails b.lossDetails
    | .ok o => .ok o
  | o => .ok o

/-- values under a shared key have the same kind -/
def dictComparable (d e : Dict MVal) : Bool :=
  d.all fun kv => e.all fun kw => kv.1 != kw.1 || kv.2.rank == kw.2.rank

/-- the domain on which `Metadata.__lt__` cannot raise: same kind per shared detail / loss-detail key -/
def Metadata.detailKindsComparable (a b : Metadata) : Bool :=
  dictComparable a.details b.details && dictComparable a.lossDetails b.lossDetails

/-- every comparison `sorted(cells)` could make is defined -/
def cellsComparable (l : List Cell) : Bool :=
  l.all fun a => l.all fun b => a.md.detailKindsComparable b.md

end Bermuda
