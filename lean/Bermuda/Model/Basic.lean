/-
Core data model of bermuda-ledger: dates, values, metadata, cells.
Core Lean only (no Mathlib) so that the drivers can be compiled natively.

Conventions (DESIGN §4): numbers are exact rationals tagged with their Python kind;
dicts are association lists in insertion order; detail values are canonicalised to
`num` (bool/int/float all compare numerically in Python), `str`, `date`, `none`.
-/
namespace Bermuda

/-! ## Dates (proleptic Gregorian, as `datetime.date`) -/

structure Date where
  y : Int
  m : Nat
  d : Nat
deriving DecidableEq, Repr, Inhabited, Hashable

def isLeap (y : Int) : Bool := (y % 4 == 0 && y % 100 != 0) || y % 400 == 0

/-- days in month -/
def dim (y : Int) (m : Nat) : Nat :=
  match m with
  | 2 => if isLeap y then 29 else 28
  | 4 | 6 | 9 | 11 => 30
  | _ => 31

def Date.valid (dt : Date) : Bool :=
  1 ≤ dt.m && dt.m ≤ 12 && 1 ≤ dt.d && dt.d ≤ dim dt.y dt.m

/-- the day before -/
def Date.pred (dt : Date) : Date :=
  if dt.d > 1 then { dt with d := dt.d - 1 }
  else if dt.m > 1 then { dt with m := dt.m - 1, d := dim dt.y (dt.m - 1) }
  else { y := dt.y - 1, m := 12, d := 31 }

/-- the day after -/
def Date.succ (dt : Date) : Date :=
  if dt.d < dim dt.y dt.m then { dt with d := dt.d + 1 }
  else if dt.m < 12 then { dt with m := dt.m + 1, d := 1 }
  else { y := dt.y + 1, m := 1, d := 1 }

def Date.isMonthEnd (dt : Date) : Bool := dt.d == dim dt.y dt.m

/-- CPython `_days_before_year` -/
def daysBeforeYear (y : Int) : Int :=
  let y' := y - 1
  y' * 365 + y' / 4 - y' / 100 + y' / 400

def daysBeforeMonth (y : Int) (m : Nat) : Nat :=
  (List.range (m - 1)).foldl (fun acc i => acc + dim y (i + 1)) 0

/-- `date.toordinal()` -/
def Date.ordinal (dt : Date) : Int :=
  daysBeforeYear dt.y + daysBeforeMonth dt.y dt.m + dt.d

/-- inverse of `ordinal` (`date.fromordinal`), by search on year then month. -/
def Date.ofOrdinal (n : Int) : Date :=
  -- estimate the year, then correct
  let y0 : Int := (n - 1) / 366 + 1
  let rec findYear (fuel : Nat) (y : Int) : Int :=
    match fuel with
    | 0 => y
    | fuel + 1 => if daysBeforeYear (y + 1) < n then findYear fuel (y + 1) else y
  let y := findYear 400 y0
  let rest : Int := n - daysBeforeYear y
  let rec findMonth (fuel : Nat) (m : Nat) (rest : Int) : Nat × Int :=
    match fuel with
    | 0 => (m, rest)
    | fuel + 1 => if rest > dim y m then findMonth fuel (m + 1) (rest - dim y m) else (m, rest)
  let (m, d) := findMonth 12 1 rest
  { y := y, m := m, d := d.toNat }

def ratCmp : Rat → Rat → Ordering := fun a b => compareOfLessAndEq a b

def Date.addDays (dt : Date) (n : Int) : Date := Date.ofOrdinal (dt.ordinal + n)

/-- `cmp` after projecting: `cmpOn f cmp a b = cmp (f a) (f b)` -/
def cmpOn {α β : Type} (f : α → β) (cmp : β → β → Ordering) : α → α → Ordering :=
  fun a b => cmp (f a) (f b)

/-- lexicographic `(y, m, d)` — Python's `date.__lt__` -/
def Date.cmp : Date → Date → Ordering :=
  compareLex (cmpOn (·.y) compare) (compareLex (cmpOn (·.m) compare) (cmpOn (·.d) compare))

instance : Ord Date := ⟨Date.cmp⟩
instance : LT Date := ⟨fun a b => Date.cmp a b = .lt⟩
instance : LE Date := ⟨fun a b => Date.cmp a b ≠ .gt⟩
instance (a b : Date) : Decidable (a < b) := inferInstanceAs (Decidable (Date.cmp a b = .lt))
instance (a b : Date) : Decidable (a ≤ b) := inferInstanceAs (Decidable (Date.cmp a b ≠ .gt))

def Date.min : Date := ⟨1, 1, 1⟩
def Date.max : Date := ⟨9999, 12, 31⟩


/-! ## Cell values (numeric view) -/

/-- A cell value. `int`/`flt` are Python scalars (numpy scalar types are folded in by the
harness), `arr isInt shape data` is an ndarray of dtype int64 (`isInt`) or float64. -/
inductive Val where
  | none
  | int (i : Int)
  | flt (q : Rat)
  | arr (isInt : Bool) (shape : List Nat) (data : List Rat)
deriving DecidableEq, Repr, Inhabited

/-- numeric content with shape, forgetting the Python kind: `np.asarray(v)` -/
def Val.shape : Val → List Nat
  | .arr _ s _ => s
  | _ => []

def Val.data : Val → Option (List Rat)
  | .none => Option.none
  | .int i => some [(i : Rat)]
  | .flt q => some [q]
  | .arr _ _ d => some d

/-- `np.array_equal(a, b)` on NaN-free data -/
def Val.eqv (a b : Val) : Bool :=
  a.shape == b.shape && a.data == b.data

/-! ## Metadata -/

/-- canonicalised `MetadataValue` -/
inductive MVal where
  | none
  | num (q : Rat)
  | str (s : String)
  | date (dt : Date)
deriving DecidableEq, Repr, Inhabited

abbrev Dict (α : Type) := List (String × α)

structure Metadata where
  riskBasis : Option String := some "Accident"
  country : Option String := Option.none
  currency : Option String := Option.none
  reinsuranceBasis : Option String := Option.none
  lossDefinition : Option String := Option.none
  limit : Option Rat := Option.none
  details : Dict MVal := []
  lossDetails : Dict MVal := []
deriving DecidableEq, Repr, Inhabited

/-! ## Cells -/

inductive CellKind where
  | cell        -- `Cell`
  | cumulative  -- `CumulativeCell`
  | incremental -- `IncrementalCell`
deriving DecidableEq, Repr, Inhabited

structure Cell where
  kind : CellKind := .cell
  ps : Date
  pe : Date
  ev : Date
  /-- `prev_evaluation_date`; meaningful only for incremental cells -/
  prev : Option Date := Option.none
  values : Dict Val := []
  md : Metadata := {}
deriving DecidableEq, Repr, Inhabited

/-- error classes, a small enum (DESIGN §4) -/
inductive Err where
  | triangleError | valueError | typeError | keyError | indexError | structError | eof | other
deriving DecidableEq, Repr, Inhabited

def Err.name : Err → String
  | .triangleError => "TriangleError" | .valueError => "ValueError" | .typeError => "TypeError"
  | .keyError => "KeyError" | .indexError => "IndexError" | .structError => "StructError"
  | .eof => "EOF" | .other => "Other"

/-! ## Dict helpers (Python dict semantics on association lists) -/

def Dict.get? {α} (d : Dict α) (k : String) : Option α :=
  (d.find? (·.1 == k)).map (·.2)

def Dict.keys {α} (d : Dict α) : List String := d.map (·.1)

def Dict.contains {α} (d : Dict α) (k : String) : Bool := d.any (·.1 == k)

/-- `d[k] = v`: replace in place if present (keeps position), else append -/
def Dict.set {α} (d : Dict α) (k : String) (v : α) : Dict α :=
  if d.contains k then d.map (fun p => if p.1 == k then (k, v) else p) else d ++ [(k, v)]

/-- `{**a, **b}` -/
def Dict.union {α} (a b : Dict α) : Dict α := b.foldl (fun acc p => acc.set p.1 p.2) a

/-- insertion sort of strings by `<`; `sorted(keys)` (keys are distinct so stability is moot) -/
def sortStrings (l : List String) : List String :=
  l.mergeSort (fun a b => compare a b != .gt)

end Bermuda
