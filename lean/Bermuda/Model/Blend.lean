/-
`bermuda/utils/summarize.py`: `blend`, `blend_cells`, `blend_samples`, `_linear_blend`,
`_mixture_blend` — statement by statement, over exact rationals.

What is a PARAMETER of the model (outside it): numpy's legacy RNG. `_mixture_blend` calls
`np.random.seed(seed); np.random.choice(range(M), S, p=weights)`; the vector it returns is the
argument `idx` here (one vector per cell position and field). numpy's own argument checks of
`choice` (p non-negative, |Σp − 1| ≤ sqrt(eps) = 2⁻²⁶) ARE modelled, because they decide refusal.

Modelled domain of values: `None`, Python `int`/`float`, 1-D arrays. Arrays of other rank answer
`Err.other` (never generated).  Quirks kept:
* (D17, fixed in /repo: the single-triangle weight test now applies to list weights only)
* `fields = set(...)`: the iteration order of the fields is unspecified in Python. The model uses
  the first cell's key order; consumers compare value dicts order-insensitively, and
  `blendCellErrs` gives every error class some field order could raise first;
* linear blending always returns a float64 array of shape `(S,)`, also for scalars (`S = 1`);
* an array of length 1 is broadcast like a scalar in linear blending;
* weights `None` become `1/M` in `blend_samples` (this is the only division).
-/
import Bermuda.Model.Triangle
namespace Bermuda.Blend

inductive Method where
  | mixture | linear
deriving DecidableEq, Repr, Inhabited

/-- `method.lower() in ("mixture", "linear")` -/
def parseMethod (s : String) : Option Method :=
  let l := s.toLower
  if l == "mixture" then some .mixture else if l == "linear" then some .linear else none

/-- one value of a weights dictionary, as handed to `np.atleast_2d` -/
inductive WArr where
  | scalar (q : Rat)
  | vec (l : List Rat)
  /-- a 2-D array given by its (non-empty list of) rows -/
  | mat (rows : List (List Rat))
deriving Repr, Inhabited

def WArr.atleast2d : WArr → List (List Rat)
  | .scalar q => [[q]]
  | .vec l => [l]
  | .mat rows => rows

/-- the `weights` argument of `blend` -/
inductive Weights where
  | none
  | list (w : List Rat)
  /-- dict values in insertion order (keys are never looked at) -/
  | dict (vals : List WArr)
  /-- anything else (tuple, ndarray, …) -/
  | other
deriving Repr, Inhabited

/-- column `j` of a list of rows -/
def column (rows : List (List Rat)) (j : Nat) : List Rat := rows.map (·.getD j 0)

/-- "re-structure weights dependent on input type": one weight vector (or `None`) per cell of
the first triangle. dict: `np.concatenate(list(map(np.atleast_2d, values))).T` row by row. -/
def weightList (w : Weights) (nCells : Nat) : Except Err (List (Option (List Rat))) :=
  match w with
  | .none => .ok (List.replicate nCells Option.none)
  | .list l => .ok (List.replicate nCells (some l))
  | .other => .error .typeError
  | .dict vals =>
    let rows := vals.flatMap WArr.atleast2d
    match rows with
    | [] => .error .valueError                      -- "need at least one array to concatenate"
    | r0 :: _ =>
      if rows.all (·.length == r0.length) then
        let nCols := r0.length
        if nCols != 1 && nCols != nCells then .error .valueError
        else if nCols == 1 then .ok (List.replicate nCells (some (column rows 0)))
        else .ok ((List.range nCols).map fun j => some (column rows j))
      else .error .valueError                       -- numpy: dimensions must match exactly

/-! ### values -/

/-- `[f(x) for x in l]` where `f` may raise: the first error wins -/
def mapE {α β} (f : α → Except Err β) : List α → Except Err (List β)
  | [] => .ok []
  | a :: as =>
    match f a with
    | .error e => .error e
    | .ok b =>
      match mapE f as with
      | .error e => .error e
      | .ok bs => .ok (b :: bs)

/-- `[v] if isinstance(v, (float, int)) else v`, then `len(v)` must work -/
def rowOf : Val → Except Err (List Rat)
  | .int i => .ok [(i : Rat)]
  | .flt q => .ok [q]
  | .arr _ [_] d => .ok d
  | .none => .error .typeError                      -- object of type 'NoneType' has no len()
  | .arr _ [] _ => .error .typeError                -- len() of unsized object
  | .arr _ _ _ => .error .other

def dot : List Rat → List Rat → Rat
  | w :: ws, x :: xs => w * x + dot ws xs
  | _, _ => 0

/-- `np.tile(val, S)` for length 1, else the value itself: entry `s` of the matched column -/
def bcast (row : List Rat) (s : Nat) : Rat :=
  if row.length = 1 then row.getD 0 0 else row.getD s 0

def maxLen (rows : List (List Rat)) : Nat := rows.foldl (fun m r => max m r.length) 0

/-- the entries of `matched_values @ weights` -/
def linearOut (rows : List (List Rat)) (w : List Rat) (S : Nat) : List Rat :=
  (List.range S).map fun s => dot w (rows.map (bcast · s))

/-- `_linear_blend` -/
def linearBlend (vals : List Val) (w : List Rat) : Except Err Val :=
  match mapE rowOf vals with
  | .error e => .error e
  | .ok rows =>
    let S := maxLen rows
    if rows.all (fun r => r.length == S || r.length == 1) then
      .ok (.arr false [S] (linearOut rows w S))
    else .error .valueError

def sumW (w : List Rat) : Rat := w.foldr (· + ·) 0

def absR (q : Rat) : Rat := if q < 0 then -q else q

/-- `round(sum(weights), 6) == 1` (half-even; a tie at ±5·10⁻⁷ rounds to 1.000000 on both sides) -/
def roundOk (w : List Rat) : Bool := absR (sumW w - 1) ≤ 1 / 2000000

/-- the argument checks of `np.random.choice(..., p=w)`: non-negative, |Σp − 1| ≤ sqrt(eps) -/
def choiceOk (w : List Rat) : Bool := w.all (fun x => 0 ≤ x) && absR (sumW w - 1) ≤ 1 / 67108864

/-- `np.shape(v)[0]` -/
def sampleLen : Val → Except Err Nat
  | .arr _ [_] d => .ok d.length
  | .arr _ [] _ => .error .indexError
  | .arr _ _ _ => .error .other
  | _ => .error .indexError                         -- np.shape(None) == ()

/-- `v[mask]` needs a subscriptable `v` -/
def samplesOf : Val → Except Err (List Rat)
  | .arr _ [_] d => .ok d
  | .arr _ [] _ => .error .indexError
  | .arr _ _ _ => .error .other
  | _ => .error .typeError

/-- `new_cell_values[blend_idx == j] = v_j[blend_idx == j]` for all `j`: entry `i` is taken from
input `idx[i]` at the SAME position `i` -/
def mixtureOut (rows : List (List Rat)) (idx : List Nat) (S : Nat) : List Rat :=
  (List.range S).map fun i => (rows.getD (idx.getD i 0) []).getD i 0

/-- `_mixture_blend`, with the drawn index vector `idx` (length `S`, entries `< M`) a parameter -/
def mixtureBlend (vals : List Val) (w : List Rat) (idx : List Nat) : Except Err Val :=
  if !roundOk w then .error .valueError else
  match vals with
  | [] => .error .indexError
  | v0 :: _ =>
    match sampleLen v0 with
    | .error e => .error e
    | .ok S =>
      if !choiceOk w then .error .valueError else
      match mapE samplesOf vals with
      | .error e => .error e
      | .ok rows =>
        -- boolean mask of length S applied to every v_j, chosen or not
        if rows.all (·.length == S) then .ok (.arr false [S] (mixtureOut rows idx S))
        else .error .indexError

/-- `blend_samples` -/
def blendSamples (vals : List Val) (w : Option (List Rat)) (m : Method) (idx : List Nat) :
    Except Err Val :=
  let M := vals.length
  let w' := match w with
    | Option.none => List.replicate M (1 / (M : Rat))
    | some w => w
  if w'.length != M then .error .valueError else
  match m with
  | .mixture => mixtureBlend vals w' idx
  | .linear => linearBlend vals w'

/-- `isinstance(val, type(first))` on the value kinds that occur (None, int, float, ndarray) -/
def sameType : Val → Val → Bool
  | .none, .none => true
  | .int _, .int _ => true
  | .flt _, .flt _ => true
  | .arr _ _ _, .arr _ _ _ => true
  | _, _ => false

/-- `np.isscalar` -/
def isScalar : Val → Bool
  | .int _ => true
  | .flt _ => true
  | _ => false

/-- one field of `blend_cells` -/
def blendField (m : Method) (vals : List Val) (w : Option (List Rat)) (idx : List Nat) :
    Except Err Val :=
  match vals with
  | [] => .error .indexError
  | v0 :: rest =>
    if m == .mixture && !(rest.all (sameType v0)) then .error .typeError
    else if m == .mixture && isScalar v0 then
      if rest.any (· != v0) then .error .valueError else .ok v0
    else blendSamples vals w m idx

def sameKeySet (a b : List String) : Bool := a.all (b.contains ·) && b.all (a.contains ·)

def fieldVals (cells : List Cell) (f : String) : List Val :=
  cells.map fun c => (c.values.get? f).getD .none

/-- the fields of the first cell blended one by one (first cell's key order) -/
def blendFields (cells : List Cell) (w : Option (List Rat)) (m : Method)
    (idx : String → List Nat) : List String → Except Err (Dict Val)
  | [] => .ok []
  | f :: fs =>
    match blendField m (fieldVals cells f) w (idx f) with
    | .error e => .error e
    | .ok v =>
      match blendFields cells w m idx fs with
      | .error e => .error e
      | .ok rest => .ok ((f, v) :: rest)

/-- `blend_cells`: result is `cells[0].replace(values=clean_values)` -/
def blendCells (cells : List Cell) (w : Option (List Rat)) (m : Method)
    (idx : String → List Nat) : Except Err Cell :=
  match cells with
  | [] => .error .indexError
  | c0 :: rest =>
    if rest.all (fun c => sameKeySet c.values.keys c0.values.keys) then
      match blendFields cells w m idx c0.values.keys with
      | .error e => .error e
      | .ok vs => .ok { c0 with values := vs }
    else .error .valueError

/-- every error class that SOME iteration order of `set(fields)` raises first (empty: no error) -/
def blendCellErrs (cells : List Cell) (w : Option (List Rat)) (m : Method)
    (idx : String → List Nat) : List Err :=
  match cells with
  | [] => [.indexError]
  | c0 :: rest =>
    if rest.all (fun c => sameKeySet c.values.keys c0.values.keys) then
      c0.values.keys.filterMap fun f =>
        match blendField m (fieldVals cells f) w (idx f) with
        | .error e => some e
        | .ok _ => Option.none
    else [.valueError]

/-! ### coordinate index -/

/-- `d[key] = cell` on a dict keyed by `(metadata, period, evaluation_date[, prev])` -/
def indexSet (d : List (Coord × Cell)) (c : Cell) : List (Coord × Cell) :=
  if d.any (·.1 == c.coord) then d.map (fun p => if p.1 == c.coord then (p.1, c) else p)
  else d ++ [(c.coord, c)]

/-- `{key(cell): cell for cell in tri}` -/
def indexTriangle (t : List Cell) : List (Coord × Cell) := t.foldl indexSet []

def lookup (d : List (Coord × Cell)) (k : Coord) : Option Cell := (d.find? (·.1 == k)).map (·.2)

/-- `[ndx_tri[ndx] for ndx_tri in index_triangles]`; `KeyError` is re-raised as `ValueError` -/
def gatherCells : List (List (Coord × Cell)) → Coord → Except Err (List Cell)
  | [], _ => .ok []
  | d :: ds, k =>
    match lookup d k with
    | Option.none => .error .valueError
    | some c =>
      match gatherCells ds k with
      | .error e => .error e
      | .ok cs => .ok (c :: cs)

/-- the loop `for ndx, cell_weights in zip(index_triangles[0], weight_list)`; `i` is the position
in the first triangle (the RNG parameter is indexed by it) -/
def blendLoop (idxs : List (List (Coord × Cell))) (m : Method) (idx : Nat → String → List Nat) :
    Nat → List (Coord × Cell) → List (Option (List Rat)) → Except Err (List Cell)
  | _, [], _ => .ok []
  | _, _ :: _, [] => .ok []
  | i, (k, _) :: ks, w :: ws =>
    match gatherCells idxs k with
    | .error e => .error e
    | .ok cs =>
      match blendCells cs w m (idx i) with
      | .error e => .error e
      | .ok c =>
        match blendLoop idxs m idx (i + 1) ks ws with
        | .error e => .error e
        | .ok r => .ok (c :: r)

/-- error classes the first failing cell may raise (see `blendCellErrs`) -/
def blendLoopErrs (idxs : List (List (Coord × Cell))) (m : Method) (idx : Nat → String → List Nat) :
    Nat → List (Coord × Cell) → List (Option (List Rat)) → List Err
  | _, [], _ => []
  | _, _ :: _, [] => []
  | i, (k, _) :: ks, w :: ws =>
    match gatherCells idxs k with
    | .error e => [e]
    | .ok cs =>
      match blendCellErrs cs w m (idx i) with
      | [] => blendLoopErrs idxs m idx (i + 1) ks ws
      | es => es

/-- `len(triangles) <= 1 and isinstance(weights, list) and weights[0] != 1.0`
(before the fix of D17 the test was `weights is not None`, so a dict raised `KeyError: 0`) -/
def singleGuard (n : Nat) (w : Weights) : Except Err Unit :=
  if n ≤ 1 then
    match w with
    | .list [] => .error .indexError
    | .list (w0 :: _) => if w0 != 1 then .error .valueError else .ok ()
    | _ => .ok ()
  else .ok ()

/-- everything `blend` does before the loop: method, lengths, cell types, weights -/
def blendPrep (ts : List (List Cell)) (w : Weights) (method : String) :
    Except Err (Method × List Cell × List (Option (List Rat))) :=
  match singleGuard ts.length w with
  | .error e => .error e
  | .ok () =>
  match parseMethod method with
  | Option.none => .error .valueError
  | some m =>
  match ts with
  | [] => .error .indexError
  | t0 :: rest =>
    if rest.any (·.length != t0.length) then .error .valueError
    -- `tri.cells[0]` is evaluated for every later triangle before `any` looks at the result
    else if !rest.isEmpty && t0.isEmpty then .error .indexError
    else if rest.any (fun t => t.head?.map (·.kind) != t0.head?.map (·.kind)) then .error .valueError
    else
      match weightList w t0.length with
      | .error e => .error e
      | .ok wl => .ok (m, t0, wl)

/-- `blend(triangles, weights, method, seed)`; `idx i f` is the vector `np.random.choice` returns
for field `f` of the `i`-th cell of the first triangle -/
def blend (ts : List (List Cell)) (w : Weights) (method : String)
    (idx : Nat → String → List Nat) : Except Err (List Cell) :=
  match blendPrep ts w method with
  | .error e => .error e
  | .ok (m, t0, wl) =>
    match blendLoop (ts.map indexTriangle) m idx 0 (indexTriangle t0) wl with
    | .error e => .error e
    | .ok cells => Triangle.ofCells cells

/-- acceptable error classes of `blend` (a singleton except where the order of `set(fields)`
decides which field fails first) -/
def blendErrs (ts : List (List Cell)) (w : Weights) (method : String)
    (idx : Nat → String → List Nat) : List Err :=
  match blendPrep ts w method with
  | .error e => [e]
  | .ok (m, t0, wl) =>
    match blendLoopErrs (ts.map indexTriangle) m idx 0 (indexTriangle t0) wl with
    | [] => (match blend ts w method idx with | .error e => [e] | .ok _ => [])
    | es => es

end Bermuda.Blend
