/-
Byte-level model of the `.trib` codec (C05 round trip · C06 documented v1 layout · C19 torn files).

*Bit view* of the data (DESIGN §4): no float semantics anywhere — a float is its eight bytes, an
array is its dims plus payload bytes, a string is its UTF-8 bytes.

* `encode` is written FROM THE LAYOUT COMMENT at the top of `bermuda/io/binary_output.py`
  (+ the placeholder rule of `_write_string_pool`): it is the independent encoder of C06.
* `decode` mirrors `bermuda/io/binary_input.py` statement by statement, including its stream
  semantics: `struct.unpack(fmt, stream.read(n))` on a short read raises (`structError`);
  a plain `stream.read(n)` returns what is left, silently; `peek`; EOF or an unknown marker stops
  the record loop; an unknown value tag yields `None`; a `<h` length of −1 yields `None`;
  a NaN limit yields `None`; string lengths are read SIGNED.
  `decode` returns the list handed to the final `Triangle(cells)` call; that call is the C01
  constructor (`Triangle.ofCells`), the identity on an already canonical sequence.
* every tag / magic / version constant is taken from `Bermuda.Generated.Binary`, regenerated
  from `/repo` on every run.

Core Lean only.
-/
import Bermuda.Model.Triangle
import Bermuda.Generated.Binary
namespace Bermuda.Codec
open Bermuda

abbrev Bytes := List UInt8

/-! ## Raw data -/

/-- bit view of a `MetadataValue` / `CellValue` -/
inductive RawVal where
  | none
  | bool (b : Bool)
  /-- Python `int` (or `np.int64`), written `<q` -/
  | int (i : Int)
  /-- Python `float`: the 8 bytes of `struct.pack("<d", x)` -/
  | flt (bits : Bytes)
  /-- `str`: its UTF-8 bytes -/
  | str (s : Bytes)
  | date (d : Date)
  /-- `np.ndarray` of dtype int64: shape and `tobytes()` -/
  | intArr (dims : List Nat) (payload : Bytes)
  /-- `np.ndarray` of dtype float64 -/
  | fltArr (dims : List Nat) (payload : Bytes)
deriving DecidableEq, Repr, Inhabited

/-- a Python dict with `str` keys (UTF-8 bytes), in insertion order -/
abbrev RawDict := List (Bytes × RawVal)

structure RawMetadata where
  riskBasis : Option Bytes
  country : Option Bytes
  currency : Option Bytes
  reinsuranceBasis : Option Bytes
  lossDefinition : Option Bytes
  /-- `per_occurrence_limit`: 8 bytes of the float, `none` = `None` -/
  limit : Option Bytes
  details : RawDict
  lossDetails : RawDict
deriving DecidableEq, Repr, Inhabited

structure RawCell where
  kind : CellKind
  ps : Date
  pe : Date
  ev : Date
  /-- `prev_evaluation_date`, present exactly for incremental cells -/
  prev : Option Date
  values : RawDict
  md : RawMetadata
deriving DecidableEq, Repr, Inhabited

abbrev RawTriangle := List RawCell

/-! ## Constants (from the regenerated table) -/

namespace K
open Bermuda.Generated.Binary
def ofNats (l : List Nat) : Bytes := l.map UInt8.ofNat
def tag (l : List Nat) : UInt8 := UInt8.ofNat (l.headD 0)
def magic : Bytes := ofNats magicBytes
def version : Bytes := ofNats versionBytes
def tString : UInt8 := tag stringBytes
def tInt : UInt8 := tag intBytes
def tFloat : UInt8 := tag floatBytes
def tBool : UInt8 := tag boolBytes
def tNone : UInt8 := tag noneBytes
def tDate : UInt8 := tag dateBytes
def tIntArr : UInt8 := tag int_arrayBytes
def tFltArr : UInt8 := tag float_arrayBytes
def tDictEnd : UInt8 := tag dict_endBytes
def tMetadata : UInt8 := tag metadataBytes
def tCell : UInt8 := tag cellBytes
def tCumulative : UInt8 := tag cumulative_cellBytes
def tIncremental : UInt8 := tag incremental_cellBytes
end K

/-! ## Fixed-width little-endian integers (`struct`) -/

/-- `k` little-endian bytes of `n` (low `k` bytes) -/
def natLE : Nat → Nat → Bytes
  | 0, _ => []
  | k + 1, n => UInt8.ofNat (n % 256) :: natLE k (n / 256)

def leNat : Bytes → Nat
  | [] => 0
  | b :: r => b.toNat + 256 * leNat r

/-- two's complement on `k` bytes: `struct.pack("<h"/"<q", i)` -/
def intLE (k : Nat) (i : Int) : Bytes := natLE k (i % ((256 : Int) ^ k)).toNat

/-- signed reading of little-endian bytes: `struct.unpack("<h"/"<q", b)` -/
def leInt (b : Bytes) : Int :=
  let n := leNat b
  if 2 * n < 256 ^ b.length then (n : Int) else (n : Int) - ((256 ^ b.length : Nat) : Int)

/-! ## Stream primitives -/

abbrev P (α : Type) := Bytes → Except Err (α × Bytes)

/-- `struct.unpack(fmt, stream.read(n))`: fewer than `n` bytes left ⇒ `struct.error` -/
def readExact (n : Nat) : P Bytes := fun s =>
  if s.length < n then .error .structError else .ok (s.take n, s.drop n)

/-- plain `stream.read(n)`: silently short at end of file -/
def readUpTo (n : Nat) : P Bytes := fun s => .ok (s.take n, s.drop n)

/-- one statement after the other on the same stream; an exception propagates -/
def bindP {α β : Type} (p : P α) (f : α → P β) : P β := fun s =>
  match p s with
  | .error e => .error e
  | .ok (a, s') => f a s'

/-! ## UTF-8 (Python's strict decoder: no overlongs, no surrogates, ≤ U+10FFFF) -/

def isCont (b : UInt8) : Bool := 0x80 ≤ b && b ≤ 0xBF

def utf8ValidAux : Nat → Bytes → Bool
  | 0, _ => false
  | _ + 1, [] => true
  | f + 1, b0 :: r =>
    if b0 < 0x80 then utf8ValidAux f r
    else if 0xC2 ≤ b0 && b0 ≤ 0xDF then
      match r with
      | b1 :: r => isCont b1 && utf8ValidAux f r
      | _ => false
    else if 0xE0 ≤ b0 && b0 ≤ 0xEF then
      match r with
      | b1 :: b2 :: r =>
        isCont b1 && isCont b2 && (b0 != 0xE0 || 0xA0 ≤ b1) && (b0 != 0xED || b1 ≤ 0x9F)
          && utf8ValidAux f r
      | _ => false
    else if 0xF0 ≤ b0 && b0 ≤ 0xF4 then
      match r with
      | b1 :: b2 :: b3 :: r =>
        isCont b1 && isCont b2 && isCont b3 && (b0 != 0xF0 || 0x90 ≤ b1) && (b0 != 0xF4 || b1 ≤ 0x8F)
          && utf8ValidAux f r
      | _ => false
    else false

/-- `bytes.decode("utf-8")` succeeds -/
def utf8Valid (s : Bytes) : Bool := utf8ValidAux (s.length + 1) s

/-! ## Dates: `<hBB` -/

def yearOk (y : Int) : Bool := 1 ≤ y && y ≤ 9999

/-- `datetime.date(y, m, d)` does not raise -/
def dateOk (d : Date) : Bool := yearOk d.y && d.valid

def writeDate (d : Date) : Bytes := intLE 2 d.y ++ [UInt8.ofNat d.m, UInt8.ofNat d.d]

def readDate : P Date := fun s =>
  match s with
  | y0 :: y1 :: m :: d :: rest =>
    let dt : Date := ⟨leInt [y0, y1], m.toNat, d.toNat⟩
    if dateOk dt then .ok (dt, rest) else .error .valueError
  | _ => .error .structError

/-! ## Strings: `<H` length (read back as `<h`), UTF-8 bytes; `None` = length −1 -/

def writeStr : Option Bytes → Bytes
  | none => [0xFF, 0xFF]
  | some s => natLE 2 s.length ++ s

def readStr : P (Option Bytes) := fun s =>
  match s with
  | l0 :: l1 :: rest =>
    let n := leInt [l0, l1]
    if n = -1 then .ok (none, rest)
    else if n < 0 then .error .valueError            -- stream.read(negative ≠ −1)
    else
      let body := rest.take n.toNat                   -- silently short
      if utf8Valid body then .ok (some body, rest.drop n.toNat) else .error .valueError
  | _ => .error .structError

/-! ## `per_occurrence_limit`: `<d`, NaN = `None` -/

/-- `struct.pack("<d", math.nan)` -/
def nanBytes : Bytes := [0, 0, 0, 0, 0, 0, 0xF8, 0x7F]

/-- `math.isnan` on the 8 little-endian bytes of a double -/
def isNaN8 (b : Bytes) : Bool :=
  match b with
  | [b0, b1, b2, b3, b4, b5, b6, b7] =>
    (b7 &&& 0x7F == 0x7F) && (b6 &&& 0xF0 == 0xF0) &&
      ((b6 &&& 0x0F != 0) || b0 != 0 || b1 != 0 || b2 != 0 || b3 != 0 || b4 != 0 || b5 != 0)
  | _ => false

def writeLimit : Option Bytes → Bytes
  | none => nanBytes
  | some b => b

def readLimit : P (Option Bytes) := fun s =>
  match readExact 8 s with
  | .error e => .error e
  | .ok (h, rest) => if isNaN8 h then .ok (none, rest) else .ok (some h, rest)

/-! ## Arrays: dtype tag, `<B` ndim, `<L` dims, raw bytes -/

def dimsProd (dims : List Nat) : Nat := dims.foldl (· * ·) 1

def writeDims (dims : List Nat) : Bytes := dims.flatMap (natLE 4)

/-- body of an array after its tag byte -/
def writeArrBody (dims : List Nat) (payload : Bytes) : Bytes :=
  UInt8.ofNat dims.length :: (writeDims dims ++ payload)

def readDims : Nat → P (List Nat)
  | 0 => fun s => .ok ([], s)
  | n + 1 => fun s =>
    match readExact 4 s with
    | .error e => .error e
    | .ok (h, rest) =>
      match readDims n rest with
      | .error e => .error e
      | .ok (tl, rest') => .ok (leNat h :: tl, rest')

/-- `_read_array`: `np.frombuffer(stream.read(8·n)).reshape(shape)` raises `ValueError` when the
buffer is short (not a multiple of 8, or not `n` items) -/
def readArrBody : P (List Nat × Bytes) := fun s =>
  match s with
  | [] => .error .structError
  | nd :: rest =>
    match readDims nd.toNat rest with
    | .error e => .error e
    | .ok (dims, rest') =>
      let want := 8 * dimsProd dims
      let payload := rest'.take want                    -- silently short
      if payload.length = want then .ok ((dims, payload), rest'.drop want) else .error .valueError

/-! ## Polymorphic values: tag byte + payload -/

def writeVal : RawVal → Bytes
  | .none => [K.tNone]
  | .bool b => [K.tBool, if b then 1 else 0]
  | .int i => K.tInt :: intLE 8 i
  | .flt bits => K.tFloat :: bits
  | .str s => K.tString :: writeStr (some s)
  | .date d => K.tDate :: writeDate d
  | .intArr dims p => K.tIntArr :: writeArrBody dims p
  | .fltArr dims p => K.tFltArr :: writeArrBody dims p

/-- `_read_generic_value`. At EOF `stream.read(1)` is `b""`, no branch matches and the function
returns `None`; the same for an unknown tag (the tag byte stays consumed). -/
def readVal : P RawVal := fun s =>
  match s with
  | [] => .ok (.none, [])
  | t :: rest =>
    if t == K.tString then
      match readStr rest with
      | .error e => .error e
      | .ok (none, r) => .ok (.none, r)
      | .ok (some b, r) => .ok (.str b, r)
    else if t == K.tBool then
      match rest with
      | [] => .error .structError
      | b :: r => .ok (.bool (b != 0), r)
    else if t == K.tInt then
      match readExact 8 rest with
      | .error e => .error e
      | .ok (h, r) => .ok (.int (leInt h), r)
    else if t == K.tFloat then
      match readExact 8 rest with
      | .error e => .error e
      | .ok (h, r) => .ok (.flt h, r)
    else if t == K.tIntArr then
      match readArrBody rest with
      | .error e => .error e
      | .ok ((dims, p), r) => .ok (.intArr dims p, r)
    else if t == K.tFltArr then
      match readArrBody rest with
      | .error e => .error e
      | .ok ((dims, p), r) => .ok (.fltArr dims p, r)
    else if t == K.tDate then
      match readDate rest with
      | .error e => .error e
      | .ok (d, r) => .ok (.date d, r)
    else .ok (.none, rest)

/-! ## String pool -/

/-- lexicographic order on UTF-8 bytes = code-point order of the strings (`sorted(set_of_str)`) -/
def bytesLe : Bytes → Bytes → Bool
  | [], _ => true
  | _ :: _, [] => false
  | a :: as, b :: bs => if a < b then true else if b < a then false else bytesLe as bs

/-- remove adjacent duplicates (on a sorted list: all duplicates) -/
def dedupAdj : List Bytes → List Bytes
  | [] => []
  | [a] => [a]
  | a :: b :: r => if a = b then dedupAdj (b :: r) else a :: dedupAdj (b :: r)

def dictKeys (d : RawDict) : List Bytes := d.map (·.1)

def cellKeys (c : RawCell) : List Bytes :=
  dictKeys c.values ++ dictKeys c.md.details ++ dictKeys c.md.lossDetails

/-- every dictionary key used anywhere in the triangle -/
def allKeys (t : RawTriangle) : List Bytes := t.flatMap cellKeys

/-- `sorted(all_keys)` of the set of keys -/
def sortedKeys (t : RawTriangle) : List Bytes := dedupAdj ((allKeys t).mergeSort bytesLe)

/-- the placeholder rule of `_write_string_pool`: before appending a key at a position whose
low byte is the `DICT_END` byte, an unused empty string is appended. `n` = current length. -/
def padPool : List Bytes → Nat → List Bytes
  | [], _ => []
  | k :: ks, n =>
    if n % 256 = K.tDictEnd.toNat then [] :: k :: padPool ks (n + 2) else k :: padPool ks (n + 1)

def poolOf (t : RawTriangle) : List Bytes := padPool (sortedKeys t) 0

/-- `pool_lookup`: index of `k`, skipping the placeholder slots (`ndx % 256 == DICT_END`) -/
def poolLookupFrom (k : Bytes) : List Bytes → Nat → Option Nat
  | [], _ => none
  | s :: r, i =>
    if i % 256 ≠ K.tDictEnd.toNat ∧ s = k then some i else poolLookupFrom k r (i + 1)

def poolLookup (pool : List Bytes) (k : Bytes) : Option Nat := poolLookupFrom k pool 0

/-- `struct.pack("<h", len(pool))` then the strings -/
def writePool (pool : List Bytes) : Bytes :=
  intLE 2 pool.length ++ pool.flatMap (fun s => writeStr (some s))

def readStrs : Nat → P (List (Option Bytes))
  | 0 => fun s => .ok ([], s)
  | n + 1 => fun s =>
    match readStr s with
    | .error e => .error e
    | .ok (x, rest) =>
      match readStrs n rest with
      | .error e => .error e
      | .ok (tl, rest') => .ok (x :: tl, rest')

/-- `_read_string_pool`: count read UNSIGNED (`<H`) -/
def readPool : P (List (Option Bytes)) := fun s =>
  match s with
  | c0 :: c1 :: rest => readStrs (leNat [c0, c1]) rest
  | _ => .error .structError

/-! ## Dictionaries: (`<H` pool index, value)*, `DICT_END` -/

def writeEntry (pool : List Bytes) (e : Bytes × RawVal) : Bytes :=
  natLE 2 ((poolLookup pool e.1).getD 0) ++ writeVal e.2

def writeDict (pool : List Bytes) (d : RawDict) : Bytes :=
  d.flatMap (writeEntry pool) ++ [K.tDictEnd]

/-- Python `result[key] = value` -/
def dictSet (d : RawDict) (k : Bytes) (v : RawVal) : RawDict :=
  if d.any (·.1 == k) then d.map (fun p => if p.1 == k then (k, v) else p) else d ++ [(k, v)]

/-- `_read_dict`; `fuel` bounds the loop (every iteration consumes at least two bytes).
`stream.peek(1)[:1] != DICT_END`: at EOF the peek is `b""`, the loop body runs and the `<H`
unpack raises. A pool entry that is `None` cannot be a `str` key (unreachable for files written
by `to_binary` and their prefixes): reported as `other`. -/
def readDictAux (pool : List (Option Bytes)) : Nat → RawDict → P RawDict
  | 0, _ => fun _ => .error .other
  | f + 1, acc => fun s =>
    match s with
    | [] => .error .structError
    | b :: rest =>
      if b == K.tDictEnd then .ok (acc, rest)
      else
        match rest with
        | [] => .error .structError
        | c :: rest' =>
          match pool[leNat [b, c]]? with
          | none => .error .indexError
          | some none => .error .other
          | some (some key) =>
            match readVal rest' with
            | .error e => .error e
            | .ok (v, rest'') => readDictAux pool f (dictSet acc key v) rest''

def readDict (pool : List (Option Bytes)) : P RawDict := fun s =>
  readDictAux pool (s.length + 1) [] s

/-! ## Metadata record (after its marker byte) -/

def writeMetaBody (pool : List Bytes) (m : RawMetadata) : Bytes :=
  writeStr m.riskBasis ++ (writeStr m.country ++ (writeStr m.currency ++
    (writeStr m.reinsuranceBasis ++ (writeStr m.lossDefinition ++ (writeLimit m.limit ++
      (writeDict pool m.details ++ writeDict pool m.lossDetails))))))

def readMetaBody (pool : List (Option Bytes)) : P RawMetadata :=
  bindP readStr fun rb => bindP readStr fun co => bindP readStr fun cu => bindP readStr fun re =>
  bindP readStr fun ld => bindP readLimit fun lim => bindP (readDict pool) fun det =>
  bindP (readDict pool) fun ldet => fun s =>
    .ok ({ riskBasis := rb, country := co, currency := cu, reinsuranceBasis := re,
           lossDefinition := ld, limit := lim, details := det, lossDetails := ldet }, s)

/-- `Metadata()` -/
def defaultMetadata : RawMetadata :=
  { riskBasis := some [65, 99, 99, 105, 100, 101, 110, 116], country := none, currency := none,
    reinsuranceBasis := none, lossDefinition := none, limit := none, details := [], lossDetails := [] }

/-! ## Cell record (after its marker byte) -/

def kindTag : CellKind → UInt8
  | .cell => K.tCell
  | .cumulative => K.tCumulative
  | .incremental => K.tIncremental

/-- `_write_cell` minus the marker byte: three dates, the values dict, and for incremental cells
the previous evaluation date -/
def writeCellBody (pool : List Bytes) (c : RawCell) : Bytes :=
  writeDate c.ps ++ (writeDate c.pe ++ (writeDate c.ev ++ (writeDict pool c.values ++
    (match c.prev with
     | some p => writeDate p
     | none => []))))

/-- a value a `Cell` accepts (`CellValue`): not `str`, not `date` -/
def cellValOk : RawVal → Bool
  | .str _ => false
  | .date _ => false
  | _ => true

/-- the checks of `Cell.__init__` / `IncrementalCell.__init__` that can raise on decoded data -/
def cellInit (c : RawCell) : Except Err RawCell :=
  if !(c.values.all (fun e => cellValOk e.2)) then .error .typeError
  else if c.pe < c.ps then .error .valueError
  else if c.ev < c.ps then .error .valueError
  else if c.ev == Date.max then .error .valueError
  else match c.prev with
    | some p => if c.ev ≤ p then .error .valueError else .ok c
    | none => .ok c

/-- the constructor call at the end of `_read_cell` -/
def finishCell (c : RawCell) : P RawCell := fun s =>
  match cellInit c with
  | .error e => .error e
  | .ok c => .ok (c, s)

/-- `_read_cell`: keyword arguments are evaluated in order — three dates, the values dict, and for
`IncrementalCell` the previous evaluation date — then the constructor runs -/
def readCellBody (pool : List (Option Bytes)) (kind : CellKind) (md : RawMetadata) : P RawCell :=
  bindP readDate fun ps => bindP readDate fun pe => bindP readDate fun ev =>
  bindP (readDict pool) fun vals =>
    match kind with
    | .incremental => bindP readDate fun pv =>
        finishCell { kind := kind, ps := ps, pe := pe, ev := ev, prev := some pv, values := vals, md := md }
    | _ => finishCell { kind := kind, ps := ps, pe := pe, ev := ev, prev := none, values := vals, md := md }

/-! ## The record loop and the file -/

/-- metadata record only when it differs from the previous cell's (first cell: previous = None) -/
def writeRecords (pool : List Bytes) : Option RawMetadata → List RawCell → Bytes
  | _, [] => []
  | prev, c :: cs =>
    (if prev = some c.md then [] else K.tMetadata :: writeMetaBody pool c.md) ++
      ((kindTag c.kind :: writeCellBody pool c) ++ writeRecords pool (some c.md) cs)

def markerKind (m : UInt8) : Option CellKind :=
  if m == K.tCell then some .cell
  else if m == K.tCumulative then some .cumulative
  else if m == K.tIncremental then some .incremental
  else none

/-- the `while True` loop of `_read_triangle`: EOF or any other marker byte ends it silently.
`fuel` bounds the loop (every iteration consumes the marker byte). -/
def readRecords (pool : List (Option Bytes)) : Nat → Option RawMetadata → Bytes → Except Err (List RawCell)
  | 0, _, _ => .error .other
  | _ + 1, _, [] => .ok []
  | f + 1, cur, m :: rest =>
    if m == K.tMetadata then
      match readMetaBody pool rest with
      | .error e => .error e
      | .ok (md, rest') => readRecords pool f (some md) rest'
    else
      match markerKind m with
      | some kind =>
        match readCellBody pool kind (cur.getD defaultMetadata) rest with
        | .error e => .error e
        | .ok (c, rest') =>
          match readRecords pool f cur rest' with
          | .error e => .error e
          | .ok tl => .ok (c :: tl)
      | none => .ok []

/-- the bytes `_write_triangle` writes -/
def encode (t : RawTriangle) : Bytes :=
  K.magic ++ (K.version ++ (writePool (poolOf t) ++ writeRecords (poolOf t) none t))

/-- `_read_triangle` up to the final `Triangle(cells)` -/
def decode (s : Bytes) : Except Err RawTriangle :=
  if s.take 4 ≠ K.magic then .error .valueError
  else if (s.drop 4).take 1 ≠ K.version then .error .valueError
  else
    match readPool (s.drop 5) with
    | .error e => .error e
    | .ok (pool, rest) => readRecords pool (rest.length + 1) none rest

/-! ## Compression flag and file extension (`binary_to_triangle`) -/

inductive Ext where
  | trib | tribc | other
deriving DecidableEq, Repr

/-- `if not compress:` infer from the extension (an explicit `False` is also re-inferred!) else
keep `True` (a wrong extension only warns) -/
def inferCompress (ext : Ext) (flag : Option Bool) : Except Err Bool :=
  match flag with
  | some true => .ok true
  | _ =>
    match ext with
    | .trib => .ok false
    | .tribc => .ok true
    | .other => .error .valueError

/-- reading a file: `gunzip` is a parameter (library) -/
def decodeFile (gunzip : Bytes → Except Err Bytes) (ext : Ext) (flag : Option Bool) (file : Bytes) :
    Except Err RawTriangle :=
  match inferCompress ext flag with
  | .error e => .error e
  | .ok true =>
    match gunzip file with
    | .error e => .error e
    | .ok raw => decode raw
  | .ok false => decode file

/-- writing a file: the flag is used as given (extension mismatch only warns) -/
def encodeFile (gzip : Bytes → Bytes) (compress : Bool) (t : RawTriangle) : Bytes :=
  if compress then gzip (encode t) else encode t

/-! ## Well-formedness: the domain on which the format is lossless (executable) -/

def strOk (s : Bytes) : Bool := s.length < 32768 && utf8Valid s

def optStrOk : Option Bytes → Bool
  | none => true
  | some s => strOk s

def int64Ok (i : Int) : Bool := -9223372036854775808 ≤ i && i ≤ 9223372036854775807

def arrOk (dims : List Nat) (p : Bytes) : Bool :=
  dims.length < 256 && dims.all (· < 4294967296) && p.length == 8 * dimsProd dims

def valOk : RawVal → Bool
  | .none => true
  | .bool _ => true
  | .int i => int64Ok i
  | .flt b => b.length == 8
  | .str s => strOk s
  | .date d => dateOk d
  | .intArr dims p => arrOk dims p
  | .fltArr dims p => arrOk dims p

def nodupKeys : List Bytes → Bool
  | [] => true
  | k :: r => !(r.contains k) && nodupKeys r

def dictOk (d : RawDict) : Bool :=
  d.all (fun e => strOk e.1 && valOk e.2) && nodupKeys (dictKeys d)

def limitOk : Option Bytes → Bool
  | none => true
  | some b => b.length == 8 && !isNaN8 b

def metaOk (m : RawMetadata) : Bool :=
  optStrOk m.riskBasis && optStrOk m.country && optStrOk m.currency &&
  optStrOk m.reinsuranceBasis && optStrOk m.lossDefinition && limitOk m.limit &&
  dictOk m.details && dictOk m.lossDetails

def cellOk (c : RawCell) : Bool :=
  dateOk c.ps && dateOk c.pe && dateOk c.ev && dictOk c.values && metaOk c.md &&
  (match c.kind, c.prev with
   | .incremental, some p => dateOk p
   | .incremental, none => false
   | _, some _ => false
   | _, none => true) &&
  (match cellInit c with
   | .ok _ => true
   | .error _ => false)

/-- the documented limits of the format -/
def wf (t : RawTriangle) : Bool :=
  t.all cellOk && (poolOf t).length < 32768

/-! ## Python's `Metadata.__eq__` on the bit view, and the writer as it really decides

`_write_triangle` emits a metadata record when `prev_metadata != cell.metadata` — the dataclass
`__eq__`: attribute tuples compared with `==`, so details dicts compare as Python dicts (insertion
order ignored) and numbers compare by VALUE across bool/int/float (`1 == 1.0 == True`,
`0.0 == -0.0`). `encode` above decides by identity of representation; the two agree on triangles
that are `coherent` (adjacent metadata are Python-equal exactly when they are identical), which is
the domain of the round-trip theorems. `encodePy` is the writer for ALL triangles: a run of
Python-equal metadata gets ONE record, carrying the representation of the run's first cell. -/

/-- the value of a Python number -/
inductive NumV where
  | fin (q : Rat)
  | posInf
  | negInf
  | nan
deriving DecidableEq, Repr

/-- IEEE-754 binary64 from its 8 little-endian bytes, exactly -/
def f64Val (b : Bytes) : NumV :=
  let bits : Nat := leNat b
  let neg : Bool := bits / 2 ^ 63 % 2 == 1
  let e : Nat := bits / 2 ^ 52 % 2048
  let m : Nat := bits % 2 ^ 52
  if e == 2047 then
    if m == 0 then (if neg then .negInf else .posInf) else .nan
  else
    let mant : Int := if e == 0 then (m : Int) else ((2 ^ 52 + m : Nat) : Int)
    let ex : Nat := if e == 0 then 1 else e
    let mag : Rat := if 1075 ≤ ex then ((mant * 2 ^ (ex - 1075) : Int) : Rat) else mkRat mant (2 ^ (1075 - ex))
    .fin (if neg then -mag else mag)

def numOf : RawVal → Option NumV
  | .bool b => some (.fin (if b then 1 else 0))
  | .int i => some (.fin i)
  | .flt b => some (f64Val b)
  | _ => none

/-- `a == b` for two detail values (NaN is never equal; distinct objects assumed) -/
def pyValEq (a b : RawVal) : Bool :=
  match numOf a, numOf b with
  | some x, some y => x != .nan && x == y
  | none, none => a == b
  | _, _ => false

def pyGet? (d : RawDict) (k : Bytes) : Option RawVal := (d.find? (·.1 == k)).map (·.2)

/-- `dict.__eq__`: same size, every key of `a` in `b` with an equal value -/
def pyDictEq (a b : RawDict) : Bool :=
  a.length == b.length && a.all (fun e => match pyGet? b e.1 with
    | some v => pyValEq e.2 v
    | none => false)

def pyLimitEq : Option Bytes → Option Bytes → Bool
  | none, none => true
  | some a, some b => pyValEq (.flt a) (.flt b)
  | _, _ => false

/-- `Metadata.__eq__` (dataclass `eq=True`) -/
def pyMetaEq (a b : RawMetadata) : Bool :=
  a.riskBasis == b.riskBasis && a.country == b.country && a.currency == b.currency &&
  a.reinsuranceBasis == b.reinsuranceBasis && a.lossDefinition == b.lossDefinition &&
  pyLimitEq a.limit b.limit && pyDictEq a.details b.details && pyDictEq a.lossDetails b.lossDetails

/-- `prev_metadata != cell.metadata` with `prev_metadata = None` before the first cell -/
def pyChanged (prev : Option RawMetadata) (m : RawMetadata) : Bool :=
  match prev with
  | none => true
  | some p => !pyMetaEq p m

/-- `_write_triangle`'s loop as written: `prev_metadata` is the previous CELL's metadata -/
def writeRecordsPy (pool : List Bytes) : Option RawMetadata → List RawCell → Bytes
  | _, [] => []
  | prev, c :: cs =>
    (if pyChanged prev c.md then K.tMetadata :: writeMetaBody pool c.md else []) ++
      ((kindTag c.kind :: writeCellBody pool c) ++ writeRecordsPy pool (some c.md) cs)

def encodePy (t : RawTriangle) : Bytes :=
  K.magic ++ (K.version ++ (writePool (poolOf t) ++ writeRecordsPy (poolOf t) none t))

/-- number of metadata changes along the cell sequence (the first cell counts) -/
def metaChanges : Option RawMetadata → List RawCell → Nat
  | _, [] => 0
  | prev, c :: cs => (if pyChanged prev c.md then 1 else 0) + metaChanges (some c.md) cs

/-- adjacent metadata are Python-equal exactly when they are the same representation -/
def coherentFrom : Option RawMetadata → List RawCell → Bool
  | _, [] => true
  | prev, c :: cs => (pyChanged prev c.md == !(prev == some c.md)) && coherentFrom (some c.md) cs

def coherent (t : RawTriangle) : Bool := coherentFrom none t

/-- what `from_binary` hands back for the file `to_binary` really wrote (`encodePy`): the writer emits a metadata
record only when Python's `!=` says the metadata changed, the reader attaches the LAST RECORD READ to every cell —
so a cell whose metadata is Python-equal to its predecessor's (1 vs 1.0 vs True, 0.0 vs -0.0, another insertion
order of a detail dict) comes back with the representation of the first cell of its run. `prev` = the previous
cell's own metadata (what the writer compares with), `cur` = the last record written. -/
def firstReprFrom : Option RawMetadata → Option RawMetadata → List RawCell → List RawCell
  | _, _, [] => []
  | prev, cur, c :: cs =>
    if pyChanged prev c.md then c :: firstReprFrom (some c.md) (some c.md) cs
    else { c with md := cur.getD c.md } :: firstReprFrom (some c.md) cur cs

def firstRepr (t : RawTriangle) : RawTriangle := firstReprFrom none none t

/-- walk over a cell record without building the cell -/
def skipCellBody (pool : List (Option Bytes)) (kind : CellKind) : P Unit :=
  bindP readDate fun _ => bindP readDate fun _ => bindP readDate fun _ =>
  bindP (readDict pool) fun _ =>
    match kind with
    | .incremental => bindP readDate fun _ => fun s => .ok ((), s)
    | _ => fun s => .ok ((), s)

/-- the record loop of the reader, counting the metadata records (`0x10`) it meets -/
def countMetaRecords (pool : List (Option Bytes)) : Nat → Bytes → Except Err Nat
  | 0, _ => .error .other
  | _ + 1, [] => .ok 0
  | f + 1, m :: rest =>
    if m == K.tMetadata then
      match readMetaBody pool rest with
      | .error e => .error e
      | .ok (_, rest') => (countMetaRecords pool f rest').map (· + 1)
    else
      match markerKind m with
      | some kind =>
        match skipCellBody pool kind rest with
        | .error e => .error e
        | .ok (_, rest') => countMetaRecords pool f rest'
      | none => .ok 0

/-- metadata records in a file -/
def fileMetaRecords (s : Bytes) : Except Err Nat :=
  if s.take 4 ≠ K.magic then .error .valueError
  else if (s.drop 4).take 1 ≠ K.version then .error .valueError
  else
    match readPool (s.drop 5) with
    | .error e => .error e
    | .ok (pool, rest) => countMetaRecords pool (rest.length + 1) rest

end Bermuda.Codec
