/-
Wire format of the codec drivers (drv_c05 / drv_c06 / drv_c19). Bytes travel as lowercase hex strings.
  RawVal       null | ["b",bool] | ["i",n] | ["f",hex8] | ["s",hex] | ["d",[y,m,d]]
               | ["ai",[dims],hex] | ["af",[dims],hex]
  RawDict      [[hexkey, RawVal], ...]                    (insertion order)
  RawMetadata  {"rb","co","cu","re","ld": hex|null, "lim": hex8|null, "det": RawDict, "ldet": RawDict}
  RawCell      {"k":"C"|"U"|"I","ps","pe","ev","prev","v":RawDict,"m":RawMetadata}
Requests: see `handle`.
-/
import Lean.Data.Json
import Bermuda.Model.Json
import Bermuda.Model.Codec
import Bermuda.Spec.C19
import Bermuda.Spec.C06
open Lean
namespace Bermuda.Codec

def hexDigit (n : Nat) : Char := if n < 10 then Char.ofNat (48 + n) else Char.ofNat (87 + n)

def toHex (b : Bytes) : String :=
  String.ofList (b.foldr (fun x acc => hexDigit (x.toNat / 16) :: hexDigit (x.toNat % 16) :: acc) [])

def nibble? (c : Char) : Option Nat :=
  let n := c.toNat
  if 48 ≤ n ∧ n ≤ 57 then some (n - 48)
  else if 97 ≤ n ∧ n ≤ 102 then some (n - 87)
  else if 65 ≤ n ∧ n ≤ 70 then some (n - 55)
  else none

def ofHexChars : List Char → List UInt8 → Except String Bytes
  | [], acc => .ok acc.reverse
  | [_], _ => .error "hex: odd length"
  | a :: b :: r, acc =>
    match nibble? a, nibble? b with
    | some x, some y => ofHexChars r (UInt8.ofNat (16 * x + y) :: acc)
    | _, _ => .error "hex: bad digit"

def ofHex (s : String) : Except String Bytes := ofHexChars s.toList []

def hexJson (b : Bytes) : Json := Json.str (toHex b)
def hexFromJson (j : Json) : Except String Bytes := do ofHex (← j.getStr?)

def natsJson (l : List Nat) : Json := Json.arr (l.map (fun (n : Nat) => (n : Json))).toArray
def natsFromJson (j : Json) : Except String (List Nat) := do (← j.getArr?).toList.mapM (·.getNat?)

def RawVal.toJson : RawVal → Json
  | .none => Json.null
  | .bool b => Json.arr #["b", Json.bool b]
  | .int i => Json.arr #["i", Json.num (JsonNumber.fromInt i)]
  | .flt b => Json.arr #["f", hexJson b]
  | .str s => Json.arr #["s", hexJson s]
  | .date d => Json.arr #["d", d.toJson]
  | .intArr dims p => Json.arr #["ai", natsJson dims, hexJson p]
  | .fltArr dims p => Json.arr #["af", natsJson dims, hexJson p]

def RawVal.fromJson (j : Json) : Except String RawVal := do
  if j.isNull then return .none
  let a ← j.getArr?
  if a.size < 2 then throw "rawval: short"
  match (← a[0]!.getStr?) with
  | "b" => return .bool (← a[1]!.getBool?)
  | "i" => return .int (← jInt? a[1]!)
  | "f" => return .flt (← hexFromJson a[1]!)
  | "s" => return .str (← hexFromJson a[1]!)
  | "d" => return .date (← Date.fromJson a[1]!)
  | "ai" => if a.size != 3 then throw "rawval: ai wants 3" else
      return .intArr (← natsFromJson a[1]!) (← hexFromJson a[2]!)
  | "af" => if a.size != 3 then throw "rawval: af wants 3" else
      return .fltArr (← natsFromJson a[1]!) (← hexFromJson a[2]!)
  | t => throw s!"rawval: bad tag {t}"

def rawDictToJson (d : RawDict) : Json :=
  Json.arr (d.map (fun p => Json.arr #[hexJson p.1, p.2.toJson])).toArray

def rawDictFromJson (j : Json) : Except String RawDict := do
  (← j.getArr?).toList.mapM fun e => do
    let a ← e.getArr?
    if a.size != 2 then throw "rawdict: want pairs"
    return (← hexFromJson a[0]!, ← RawVal.fromJson a[1]!)

def RawMetadata.toJson (m : RawMetadata) : Json :=
  Json.mkObj [
    ("rb", optToJson hexJson m.riskBasis), ("co", optToJson hexJson m.country),
    ("cu", optToJson hexJson m.currency), ("re", optToJson hexJson m.reinsuranceBasis),
    ("ld", optToJson hexJson m.lossDefinition), ("lim", optToJson hexJson m.limit),
    ("det", rawDictToJson m.details), ("ldet", rawDictToJson m.lossDetails)]

def RawMetadata.fromJson (j : Json) : Except String RawMetadata := do
  let s (k : String) : Except String (Option Bytes) := do
    optFromJson hexFromJson (← j.getObjVal? k)
  return {
    riskBasis := ← s "rb", country := ← s "co", currency := ← s "cu",
    reinsuranceBasis := ← s "re", lossDefinition := ← s "ld", limit := ← s "lim",
    details := ← rawDictFromJson (← j.getObjVal? "det"),
    lossDetails := ← rawDictFromJson (← j.getObjVal? "ldet") }

def RawCell.toJson (c : RawCell) : Json :=
  Json.mkObj [
    ("k", Json.str c.kind.toStr), ("ps", c.ps.toJson), ("pe", c.pe.toJson), ("ev", c.ev.toJson),
    ("prev", optToJson Date.toJson c.prev), ("v", rawDictToJson c.values), ("m", c.md.toJson)]

def RawCell.fromJson (j : Json) : Except String RawCell := do
  return {
    kind := ← CellKind.ofStr (← (← j.getObjVal? "k").getStr?),
    ps := ← Date.fromJson (← j.getObjVal? "ps"),
    pe := ← Date.fromJson (← j.getObjVal? "pe"),
    ev := ← Date.fromJson (← j.getObjVal? "ev"),
    prev := ← optFromJson Date.fromJson (← j.getObjVal? "prev"),
    values := ← rawDictFromJson (← j.getObjVal? "v"),
    md := ← RawMetadata.fromJson (← j.getObjVal? "m") }

def rawCellsToJson (cs : List RawCell) : Json := Json.arr (cs.map RawCell.toJson).toArray

def rawCellsFromJson (j : Json) : Except String (List RawCell) := do
  (← j.getArr?).toList.mapM RawCell.fromJson

def optCells (j : Json) (k : String) : Except String (Option (List RawCell)) :=
  match j.getObjVal? k with
  | .ok v => optFromJson rawCellsFromJson v
  | .error _ => .ok none

def resultJson (r : Except Err RawTriangle) : Json := exceptToJson rawCellsToJson r

/-- the result is `ok t` exactly -/
def isOk (r : Except Err RawTriangle) (t : RawTriangle) : Bool :=
  match r with
  | .ok x => x == t
  | .error _ => false

/-- all prefixes of a file: model `decode (file.take n)` against what the implementation did
(`per[n]` = index into `outs`, or −1 when the implementation raised) -/
def prefixesJson (file : Bytes) (orig : RawTriangle) (outs : Array RawTriangle) (per : List Int) : Json :=
  let step := fun (st : Nat × Nat × Nat × List Json) (p : Int) =>
    let (n, nOk, nErr, mism) := st
    let r := decode (file.take n)
    let agree := match r with
      | .error _ => p < 0
      | .ok t => if p < 0 then false else outs[p.toNat]? == some t
    let mism := if agree || mism.length ≥ 5 then mism
      else mism ++ [Json.mkObj [("n", (n : Nat)), ("model", resultJson r), ("impl", Json.num (JsonNumber.fromInt p))]]
    match r with
    | .ok _ => (n + 1, nOk + 1, nErr, mism)
    | .error _ => (n + 1, nOk, nErr + 1, mism)
  let (_, nOk, nErr, mism) := per.foldl step (0, 0, 0, [])
  Json.mkObj [
    ("spec", Json.arr (outs.map (fun o => Json.bool (Spec.C19.prefixSafe orig o)))),
    ("modelOk", (nOk : Nat)), ("modelErr", (nErr : Nat)), ("mismatch", Json.arr mism.toArray)]

def extOfString : String → Ext
  | "trib" => .trib
  | "tribc" => .tribc
  | _ => .other

def handle (j : Json) : Except String Json := do
  match (← (← j.getObjVal? "op").getStr?) with
  | "case" =>
    -- cells: the triangle; file: the bytes the implementation wrote (optional);
    -- impl: what the implementation read back (optional)
    let cells ← rawCellsFromJson (← j.getObjVal? "cells")
    let bytes := encode cells
    let self := decode bytes
    let mut fields : List (String × Json) :=
      [("bytes", hexJson bytes), ("wf", Json.bool (wf cells)), ("coherent", Json.bool (coherent cells)),
       ("pyBytesEq", Json.bool (encodePy cells == bytes)),
       ("selfRoundTrip", Json.bool (isOk self cells))]
    match j.getObjVal? "file" with
    | .ok f =>
      if !f.isNull then
        let fb ← hexFromJson f
        let r := decode fb
        fields := fields ++ [("fileDecodeEq", Json.bool (isOk r cells))]
        if !(isOk r cells) then fields := fields ++ [("fileDecode", resultJson r)]
    | .error _ => pure ()
    match ← optCells j "impl" with
    | some t => fields := fields ++ [("spec", Json.bool (Spec.C05.roundTrip cells t)),
                                     ("implEq", Json.bool (t == cells))]
    | none => pure ()
    return Json.mkObj fields
  | "pycase" =>
    -- cells whose adjacent metadata may be Python-equal in different representations:
    -- the writer as it really decides, and the record-count Spec on the implementation's file
    let cells ← rawCellsFromJson (← j.getObjVal? "cells")
    let fb ← hexFromJson (← j.getObjVal? "file")
    let recs : Json := match fileMetaRecords fb with
      | .ok n => (n : Nat)
      | .error e => Json.str e.name
    return Json.mkObj [("bytes", hexJson (encodePy cells)), ("wf", Json.bool (wf cells)),
                       ("coherent", Json.bool (coherent cells)),
                       ("changes", (metaChanges none cells : Nat)), ("fileRecords", recs),
                       ("spec", Json.bool (Spec.C06.recordsOnChange cells fb))]
  | "decode" =>
    let fb ← hexFromJson (← j.getObjVal? "hex")
    let r := decode fb
    let mut fields : List (String × Json) := [("model", resultJson r)]
    match r with
    | .ok t => fields := fields ++ [("reencode", hexJson (encode t)), ("wf", Json.bool (wf t))]
    | .error _ => pure ()
    match ← optCells j "impl" with
    | some t => fields := fields ++ [("implEq", Json.bool (isOk r t))]
    | none => pure ()
    return Json.mkObj fields
  | "spec" =>
    let cells ← rawCellsFromJson (← j.getObjVal? "cells")
    let impl ← rawCellsFromJson (← j.getObjVal? "impl")
    return Json.mkObj [("spec", Json.bool (Spec.C05.roundTrip cells impl)), ("implEq", Json.bool (impl == cells)),
                       ("prefixSafe", Json.bool (Spec.C19.prefixSafe cells impl))]
  | "prefixes" =>
    let fb ← hexFromJson (← j.getObjVal? "hex")
    let cells ← rawCellsFromJson (← j.getObjVal? "cells")
    let outs ← (← (← j.getObjVal? "outs").getArr?).mapM rawCellsFromJson
    let per ← (← (← j.getObjVal? "per").getArr?).toList.mapM jInt?
    return prefixesJson fb cells outs per
  | "constants" =>
    -- what this binary was compiled with (cross-check of the regenerated table, DESIGN §5)
    let tags : List UInt8 := [K.tString, K.tInt, K.tFloat, K.tBool, K.tNone, K.tDate, K.tIntArr, K.tFltArr,
      K.tDictEnd, K.tMetadata, K.tCell, K.tCumulative, K.tIncremental]
    return Json.mkObj [("magic", hexJson K.magic), ("version", hexJson K.version), ("tags", hexJson tags),
                       ("tableOk", Json.bool Generated.Binary.ok)]
  | "infer" =>
    let ext := extOfString (← (← j.getObjVal? "ext").getStr?)
    let flag ← optFromJson (·.getBool?) (← j.getObjVal? "flag")
    return match inferCompress ext flag with
      | .ok b => Json.mkObj [("ok", Json.bool b)]
      | .error e => Json.mkObj [("err", Json.str e.name)]
  | o => throw s!"unknown op {o}"

end Bermuda.Codec
