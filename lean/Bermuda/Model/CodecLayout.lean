/-
A decoder of the .trib format written STRICTLY from the layout comment of `bermuda/io/binary_output.py`
(lines 21-74) and the documented constants — NOT a mirror of `binary_input.py`:
  * magic number, version 1, string pool, then records;
  * a string is a two-byte length followed by EXACTLY that many bytes of UTF-8 (0xFFFF marks an absent string);
    a short body is an error (the reader's `stream.read(n)` would return it silently);
  * a dictionary is a series of (two-byte pool index, value) pairs closed by the end-of-dictionary byte; an index
    outside the pool, or end of input inside a dictionary, is an error;
  * a polymorphic value is a type byte followed by the value; an unknown type byte or end of input is an error
    (the reader returns `None` there); a string value cannot be absent;
  * an object is its fields in the specified order; a metadata record only when the metadata changes, so a cell
    record before any metadata record is an error; an unknown record marker is an error (the reader stops there).
No constructor rules (date order …) are applied: this is the layout only. Core Lean only.
-/
import Bermuda.Model.Codec
namespace Bermuda.Codec

def readStrL : P (Option Bytes) := fun s =>
  match s with
  | l0 :: l1 :: rest =>
    let n := leInt [l0, l1]
    if n = -1 then .ok (none, rest)
    else if n < 0 then .error .valueError
    else if rest.length < n.toNat then .error .structError          -- strict: the whole body must be there
    else
      let body := rest.take n.toNat
      if utf8Valid body then .ok (some body, rest.drop n.toNat) else .error .valueError
  | _ => .error .structError

def readValL : P RawVal := fun s =>
  match s with
  | [] => .error .structError                                        -- strict: a value needs its type byte
  | t :: rest =>
    if t == K.tString then
      match readStrL rest with
      | .error e => .error e
      | .ok (none, _) => .error .valueError                          -- a string VALUE is never absent
      | .ok (some b, r) => .ok (.str b, r)
    else if t == K.tBool then
      match rest with
      | [] => .error .structError
      | b :: r => .ok (.bool (b != 0), r)
    else if t == K.tInt then
      match readExact 8 rest with
      | .error e => .error e
      | .ok (h, r) => .ok (.int (leInt h), r)
    else if t == K.tFloat then
      match readExact 8 rest with
      | .error e => .error e
      | .ok (h, r) => .ok (.flt h, r)
    else if t == K.tIntArr then
      match readArrBody rest with
      | .error e => .error e
      | .ok ((dims, p), r) => .ok (.intArr dims p, r)
    else if t == K.tFltArr then
      match readArrBody rest with
      | .error e => .error e
      | .ok ((dims, p), r) => .ok (.fltArr dims p, r)
    else if t == K.tDate then
      match readDate rest with
      | .error e => .error e
      | .ok (d, r) => .ok (.date d, r)
    else if t == K.tNone then .ok (.none, rest)
    else .error .valueError                                          -- strict: unknown type byte

def readDictAuxL (pool : List (Option Bytes)) : Nat → RawDict → P RawDict
  | 0, _ => fun _ => .error .other
  | f + 1, acc => fun s =>
    match s with
    | [] => .error .structError
    | b :: rest =>
      if b == K.tDictEnd then .ok (acc, rest)
      else
        match rest with
        | [] => .error .structError
        | c :: rest' =>
          match pool[leNat [b, c]]? with
          | none => .error .indexError
          | some none => .error .other
          | some (some key) =>
            match readValL rest' with
            | .error e => .error e
            | .ok (v, rest'') => readDictAuxL pool f (dictSet acc key v) rest''

def readDictL (pool : List (Option Bytes)) : P RawDict := fun s =>
  readDictAuxL pool (s.length + 1) [] s

def readMetaBodyL (pool : List (Option Bytes)) : P RawMetadata :=
  bindP readStrL fun rb => bindP readStrL fun co => bindP readStrL fun cu => bindP readStrL fun re =>
  bindP readStrL fun ld => bindP readLimit fun lim => bindP (readDictL pool) fun det =>
  bindP (readDictL pool) fun ldet => fun s =>
    .ok ({ riskBasis := rb, country := co, currency := cu, reinsuranceBasis := re,
           lossDefinition := ld, limit := lim, details := det, lossDetails := ldet }, s)

/-- three dates, the values dictionary, and for an incremental cell the previous evaluation date -/
def readCellBodyL (pool : List (Option Bytes)) (kind : CellKind) (md : RawMetadata) : P RawCell :=
  bindP readDate fun ps => bindP readDate fun pe => bindP readDate fun ev =>
  bindP (readDictL pool) fun vals =>
    match kind with
    | .incremental => bindP readDate fun pv => fun s =>
        .ok ({ kind := kind, ps := ps, pe := pe, ev := ev, prev := some pv, values := vals, md := md }, s)
    | _ => fun s => .ok ({ kind := kind, ps := ps, pe := pe, ev := ev, prev := none, values := vals, md := md }, s)

def readRecordsL (pool : List (Option Bytes)) : Nat → Option RawMetadata → Bytes → Except Err (List RawCell)
  | 0, _, _ => .error .other
  | _ + 1, _, [] => .ok []
  | f + 1, cur, m :: rest =>
    if m == K.tMetadata then
      match readMetaBodyL pool rest with
      | .error e => .error e
      | .ok (md, rest') => readRecordsL pool f (some md) rest'
    else
      match markerKind m with
      | some kind =>
        match cur with
        | none => .error .valueError                                 -- strict: a cell before any metadata record
        | some md =>
          match readCellBodyL pool kind md rest with
          | .error e => .error e
          | .ok (c, rest') =>
            match readRecordsL pool f cur rest' with
            | .error e => .error e
            | .ok tl => .ok (c :: tl)
      | none => .error .valueError                                   -- strict: unknown record marker

def readStrsL : Nat → P (List (Option Bytes))
  | 0 => fun s => .ok ([], s)
  | n + 1 => fun s =>
    match readStrL s with
    | .error e => .error e
    | .ok (x, rest) =>
      match readStrsL n rest with
      | .error e => .error e
      | .ok (tl, rest') => .ok (x :: tl, rest')

def readPoolL : P (List (Option Bytes)) := fun s =>
  match s with
  | c0 :: c1 :: rest => readStrsL (leNat [c0, c1]) rest
  | _ => .error .structError

/-- the layout decoder -/
def decodeLayout (s : Bytes) : Except Err RawTriangle :=
  if s.take 4 ≠ K.magic then .error .valueError
  else if (s.drop 4).take 1 ≠ K.version then .error .valueError
  else
    match readPoolL (s.drop 5) with
    | .error e => .error e
    | .ok (pool, rest) => readRecordsL pool (rest.length + 1) none rest

end Bermuda.Codec
