/-
`bermuda/date_utils.py`, line by line, over exact rationals.
The Python code computes in IEEE doubles; the model is exact (DESIGN §7 C12: the tie is an
exhaustive correspondence on the property's finite domain).
-/
import Bermuda.Model.Basic
namespace Bermuda

/-- `_month_fraction` -/
def monthFraction (dt : Date) : Rat := (dt.d : Rat) / (dim dt.y dt.m : Rat)

/-- `dev_lag_months(start, stop)` -/
def devLagMonths (s e : Date) : Rat :=
  ((12 * (e.y - s.y) + ((e.m : Int) - (s.m : Int)) : Int) : Rat) - monthFraction s + monthFraction e

/-- Python `round()` on a non-negative rational: half to even -/
def roundHalfEven (q : Rat) : Int :=
  let f := q.floor
  let r := q - f
  if r < 1/2 then f else if 1/2 < r then f + 1 else if f % 2 == 0 then f else f + 1

/-- Python `int(x)`: truncation toward zero -/
def truncInt (q : Rat) : Int := if 0 ≤ q then q.floor else -((-q).floor)

/-- `add_months(dt, delta)` for finite `delta` (the `delta == inf` short-circuit returns
`date.max` and is handled by callers) -/
def addMonths (dt : Date) (delta : Rat) : Date :=
  let initLag := devLagMonths ⟨1969, 12, 31⟩ dt
  let finalLag := initLag + delta
  let fr := finalLag - finalLag.floor             -- Python `% 1` (non-negative)
  let months : Int := if fr == 0 then truncInt finalLag - 1 else truncInt finalLag
  let frac : Rat := if fr == 0 then 1 else fr
  let month : Nat := (months % 12).toNat + 1      -- Python `%`: non-negative for positive modulus
  let year : Int := 1970 + months / 12            -- Python `//`: floor division (= Int `/` for 12 > 0)
  let day := roundHalfEven (frac * (dim year month : Rat))
  if day == 0 then (Date.mk year month 1).pred else ⟨year, month, day.toNat⟩

/-- `month_to_id` -/
def monthToId (dt : Date) : Int := 12 * (dt.y - 1970) + dt.m - 1

/-- `id_to_month(id, beginning)` -/
def idToMonth (id : Int) (beginning : Bool := true) : Date :=
  if beginning then ⟨1970 + id / 12, (id % 12).toNat + 1, 1⟩
  else
    let id := id + 1
    (Date.mk (1970 + id / 12) ((id % 12).toNat + 1) 1).pred

/-- `sub in s` for Python strings, on character lists (structural recursion, so that the kernel can
evaluate it: `String.splitOn` is not kernel-reducible) -/
def isPrefixL : List Char → List Char → Bool
  | [], _ => true
  | _ :: _, [] => false
  | a :: as, b :: bs => a == b && isPrefixL as bs

def hasInfixL (sub : List Char) : List Char → Bool
  | [] => sub.isEmpty
  | c :: cs => isPrefixL sub (c :: cs) || hasInfixL sub cs

/-- `sub in s.lower()` (ASCII lower-casing, as the unit spellings are ASCII) -/
def lowerHas (s sub : String) : Bool := hasInfixL sub.toList (s.toList.map Char.toLower)

inductive LagUnit where | month | day | timedelta
deriving DecidableEq, Repr, Inhabited

/-- unit dispatch of `calculate_dev_lag` (`"month" in unit`, `"day" in unit`, `== "timedelta"`) -/
def LagUnit.parse? (u : String) : Option LagUnit :=
  if lowerHas u "month" then some .month
  else if lowerHas u "day" then some .day
  else if u.toList.map Char.toLower == "timedelta".toList then some .timedelta
  else none

/-- `calculate_dev_lag(period_end, evaluation_date, unit)` for evaluation dates below `date.max`;
days and timedelta are both the ordinal difference -/
def calculateDevLag (pe ev : Date) : LagUnit → Rat
  | .month => devLagMonths pe ev
  | .day => ((ev.ordinal - pe.ordinal : Int) : Rat)
  | .timedelta => ((ev.ordinal - pe.ordinal : Int) : Rat)

def Cell.devLag (c : Cell) (u : LagUnit := .month) : Rat := calculateDevLag c.pe c.ev u

inductive ResUnit where | month | day
deriving DecidableEq, Repr, Inhabited

/-- `standardize_resolution((quantity, units))` -/
def standardizeResolution (q : Int) (units : String) : Except Err (Int × ResUnit) :=
  let has (s : String) : Bool := lowerHas units s
  if has "month" then .ok (q, .month)
  else if has "quarter" then .ok (q * 3, .month)
  else if has "year" then .ok (q * 12, .month)
  else if has "day" then .ok (q, .day)
  else if has "week" then .ok (q * 7, .day)
  else .error .valueError

/-- `resolution_delta(date, (quantity, units), negative)` -/
def resolutionDelta (d : Date) (q : Int) (u : ResUnit) (negative : Bool := false) : Date :=
  let q := if negative then -q else q
  match u with
  | .month => addMonths d q
  | .day => d.addDays q

end Bermuda
