/-
Sentinel extension of the development-lag / month arithmetic (bermuda/date_utils.py:29-60):
`calculate_dev_lag` short-circuits on `evaluation_date == date.max` BEFORE the unit dispatch
(so every unit string, even an unrecognised one, is answered: `timedelta.max` for the lower-cased
spelling "timedelta", `np.inf` otherwise) and `add_months(d, inf)` is `date.max`.

Kept as wrappers so that `calculateDevLag` / `addMonths` (finite arithmetic, used by many property
files) stay untouched.
-/
import Bermuda.Model.DateUtils
namespace Bermuda

/-- a development lag as `calculate_dev_lag` can return it: a finite number, `np.inf`, `timedelta.max` -/
inductive LagExt where
  | fin (q : Rat)
  | inf
  | tdMax
deriving DecidableEq, Repr, Inhabited

/-- `calculate_dev_lag(period_end, evaluation_date, unit)` on EVERY evaluation date, unit given as the
caller's string: the `date.max` short-circuit comes first (date_utils.py:36-40), then the unit dispatch
(`none` = ValueError) -/
def calculateDevLagExt (pe ev : Date) (unit : String) : Option LagExt :=
  if ev == Date.max then
    if unit.toList.map Char.toLower == "timedelta".toList then some .tdMax else some .inf
  else
    match LagUnit.parse? unit with
    | some u => some (.fin (calculateDevLag pe ev u))
    | none => none

/-- `add_months(dt, delta)` for a delta that may be `np.inf` (date_utils.py:58-59). `tdMax` is not a
number (`init_lag + timedelta` raises TypeError): `none` -/
def addMonthsExt (d : Date) : LagExt → Option Date
  | .inf => some Date.max
  | .fin q => some (addMonths d q)
  | .tdMax => none

/-- `resolution_delta(date, (quantity, units), negative)` AS WRITTEN (date_utils.py:121-129), the unit being the caller's
RAW string: only the exact string `"month"` goes to `add_months`; EVERY other string — `"months"`, `"quarter"`, `"year"`,
`"week"`, `"day"`, `"days"`, anything — is day arithmetic with the unscaled quantity. `resolutionDelta` (two-constructor
`ResUnit`) is this function on the output of `standardize_resolution`, which is how `aggregate` calls it; the library's other
callers pass the raw `(±1, "days")`. -/
def resolutionDeltaRaw (d : Date) (q : Int) (units : String) (negative : Bool := false) : Date :=
  let q := if negative then -q else q
  if units == "month" then addMonths d q else d.addDays q

/-- the unit string `standardize_resolution` returns -/
def ResUnit.name : ResUnit → String
  | .month => "month"
  | .day => "day"

end Bermuda
