/-
Equality, hashing and the `collections.abc.Set` mixins of `Triangle`, `Cell`, `Metadata`
(triangle.py `__eq__/__hash__/__contains__/__len__/__iter__`, base/cell.py `__eq__/__hash__/
values_eq`, base/incremental.py `__eq__/__hash__`, base/metadata.py dataclass eq + `__hash__`,
CPython 3.12 `_collections_abc.Set.__le__/__and__/__sub__/isdisjoint`).  Core Lean only.

Everything follows the code as written:

* `values_eq(val1, val2)`: `sorted(val1.keys()) == sorted(val2.keys())`, then for every key of
  `val1` (in `val1`'s order) `np.array_equal(val1[k], val2[k])` (= `Val.eqv`, Model/Basic.lean).
* `Cell.__eq__`: `(isinstance(self, other.__class__) or isinstance(other, self.__class__))
  and period_start == and period_end == and evaluation_date == and metadata == and values_eq`.
* `IncrementalCell.__eq__`: `super().__eq__(other) and prev == prev`.
* `Triangle.__eq__`: `len(self.cells) == len(other.cells) and all([c1 == c2 for c1, c2 in zip(..)])`.
* `Triangle.__contains__`: `cell in self._cells` — `list.__contains__` compares
  `item == cell` (list item on the left) for each item in order.
-/
import Bermuda.Model.Triangle
namespace Bermuda

/-! ## `values_eq` -/

/-- `sorted(val1.keys()) == sorted(val2.keys())` -/
def keysEq (a b : Dict Val) : Bool := sortStrings a.keys == sortStrings b.keys

/-- one iteration of the loop of `values_eq`: `np.array_equal(val1[k], val2[k])`.  A missing key
on either side cannot occur after the key-list comparison (it would be a `KeyError`); the model
answers `false` there. -/
def valueEqAt (a b : Dict Val) (k : String) : Bool :=
  match a.get? k, b.get? k with
  | some x, some y => x.eqv y
  | _, _ => false

/-- `values_eq(val1, val2)` -/
def valuesEq (a b : Dict Val) : Bool :=
  keysEq a b && a.keys.all (valueEqAt a b)

/-! ## cell classes -/

/-- `isinstance(x, Cls)` for the three classes: `CumulativeCell` and `IncrementalCell` both derive
from `Cell` and from nothing else. -/
def CellKind.isInstanceOf (k cls : CellKind) : Bool := k == cls || cls == .cell

/-- `isinstance(self, other.__class__) or isinstance(other, self.__class__)` -/
def classCompat (a b : CellKind) : Bool := a.isInstanceOf b || b.isInstanceOf a

/-! ## `Cell.__eq__`, `IncrementalCell.__eq__` -/

/-- body of `Cell.__eq__(self, other)` -/
def Cell.baseEq (self other : Cell) : Bool :=
  classCompat self.kind other.kind &&
  self.ps == other.ps && self.pe == other.pe && self.ev == other.ev &&
  self.md.eqv other.md && valuesEq self.values other.values

/-- body of `IncrementalCell.__eq__(self, other)` -/
def Cell.incEq (self other : Cell) : Bool :=
  self.baseEq other && self.prev == other.prev

/-- `a == b` with CPython's dispatch of `==`: the left operand's `__eq__`, except that the right
operand's is tried first when its class is a proper subclass of the left one's (only
`Cell == IncrementalCell`, since `CumulativeCell` inherits `Cell.__eq__` unchanged).  Neither
method ever returns `NotImplemented`, so there is no fall-back.

Outside the model's Bool answer: when one operand is a plain `Cell`, the other an
`IncrementalCell` and everything `Cell.__eq__` looks at agrees, Python raises `AttributeError`
(`other._prev_evaluation_date`); see `cellEqRaises`.  A Triangle never mixes the two classes. -/
def cellEq (a b : Cell) : Bool :=
  match a.kind, b.kind with
  | .incremental, _ => a.incEq b
  | .cell, .incremental => b.incEq a
  | _, _ => a.baseEq b

/-- the inputs on which `a == b` raises `AttributeError` instead of answering -/
def cellEqRaises (a b : Cell) : Bool :=
  match a.kind, b.kind with
  | .incremental, .cell => a.baseEq b
  | .cell, .incremental => b.baseEq a
  | _, _ => false

/-! ## `Triangle.__eq__` -/

/-- `len(self.cells) == len(other.cells) and all([c1 == c2 for c1, c2 in zip(...)])` -/
def triEq (a b : List Cell) : Bool :=
  a.length == b.length && (List.zipWith cellEq a b).all id

/-! ## hash keys

`hash` itself (SipHash of strings, the tuple mixer, …) is not modelled.  The model gives the
*key*: the nested tuple handed to `hash`, with every leaf replaced by the canonical representative
of its `==`-class under which CPython's `hash` is invariant (`hash(1) == hash(1.0) == hash(True)
== hash(np.int64(1)) == hash(np.float64(1.0))`: all numbers become one ℚ; `frozenset(d.items())`
becomes the key-sorted item list; `tuple(sorted(value_hashes))` — a sorted list of integers, i.e.
the multiset of per-item hashes — becomes the list of `(key, value key)` in sorted key order).
Equal keys ⇒ equal Python hashes (trusted: builtin `hash` respects `==` on
int/float/str/date/None/tuple/frozenset).
-/

/-- hash key of one value: `hash((k, v))` for scalars and `None`, `hash((k, tuple(v)))` for arrays -/
inductive HVal where
  | none
  | num (q : Rat)
  | tup (l : List Rat)
deriving DecidableEq, Repr, Inhabited

/-- `tuple(v)` of a 1-d array is a tuple of numpy scalars (hashable, hash like the number);
of a 0-d array it raises `TypeError` (iteration over a 0-d array); of an array with ≥ 2
dimensions it is a tuple of arrays and `hash` raises `TypeError` (unhashable). -/
def Val.hkey : Val → Except Err HVal
  | .none => .ok .none
  | .int i => .ok (.num (i : Rat))
  | .flt q => .ok (.num q)
  | .arr _ [_] d => .ok (.tup d)
  | .arr _ _ _ => .error .typeError

/-- the tuple hashed by `Metadata.__hash__`: six scalar attributes and two `frozenset`s of items.
The canonical representative is the Metadata with both dicts sorted by key. -/
def Metadata.hashKey (m : Metadata) : Metadata :=
  { m with details := sortItems m.details, lossDetails := sortItems m.lossDetails }

structure HKey where
  /-- `"Cell" if cls == "CumulativeCell" else cls` -/
  cls : String
  ps : Date
  pe : Date
  ev : Date
  md : Metadata
  /-- `tuple(sorted(value_hashes))` -/
  vals : List (String × HVal)
  /-- `IncrementalCell.__hash__` = `hash((super().__hash__(), prev))`: `some` marks the outer pair -/
  prev : Option (Option Date)
deriving DecidableEq, Repr

/-- the class name that enters the hash -/
def CellKind.hashName : CellKind → String
  | .cell => "Cell"
  | .cumulative => "Cell"
  | .incremental => "IncrementalCell"

/-- per-item hash keys in sorted key order; `TypeError` if some value is unhashable -/
def valsHashKey (v : Dict Val) : Except Err (List (String × HVal)) :=
  (sortStrings v.keys).mapM fun k =>
    match v.get? k with
    | some x => x.hkey.map (fun h => (k, h))
    | none => .error .keyError

/-- `hash(cell)` as a key -/
def Cell.hashKey (c : Cell) : Except Err HKey := do
  let vals ← valsHashKey c.values
  return { cls := c.kind.hashName, ps := c.ps, pe := c.pe, ev := c.ev, md := c.md.hashKey,
           vals := vals,
           prev := match c.kind with
             | .incremental => some c.prev
             | _ => none }

/-- `hash(triangle)` = `hash(tuple(self._cells))` -/
def triHashKey (t : List Cell) : Except Err (List HKey) := t.mapM Cell.hashKey

/-! ## `collections.abc.Set` mixins on top of `__contains__` / `__iter__` / `__len__` -/

/-- `cell in triangle` -/
def Triangle.mem (c : Cell) (t : List Cell) : Bool := t.any (fun x => cellEq x c)

/-- `a <= b` (`Set.__le__`): `len(a) > len(b)` → False; else every element of `a` is in `b` -/
def Triangle.le (a b : List Cell) : Bool :=
  if a.length > b.length then false else a.all (fun c => Triangle.mem c b)

/-- `a >= b` (`Set.__ge__`) -/
def Triangle.ge (a b : List Cell) : Bool :=
  if a.length < b.length then false else b.all (fun c => Triangle.mem c a)

/-- `a < b` (`Set.__lt__`) -/
def Triangle.lt (a b : List Cell) : Bool := decide (a.length < b.length) && Triangle.le a b

/-- `a & b` (`Set.__and__`): `Triangle(value for value in other if value in self)` -/
def Triangle.inter (a b : List Cell) : Except Err (List Cell) :=
  Triangle.ofCells (b.filter (fun c => Triangle.mem c a))

/-- `a - b` (`Set.__sub__`): `Triangle(value for value in self if value not in other)` -/
def Triangle.diff (a b : List Cell) : Except Err (List Cell) :=
  Triangle.ofCells (a.filter (fun c => !Triangle.mem c b))

/-- `a | b` (`Set.__or__`): `Triangle(e for s in (self, other) for e in s)`.  Nothing de-duplicates:
the chain yields every cell of both operands and the constructor keeps duplicates, so `a | b`
is `a + b`. -/
def Triangle.union (a b : List Cell) : Except Err (List Cell) := Triangle.ofCells (a ++ b)

/-- `a ^ b` (`Set.__xor__`): `(self - other) | (other - self)` -/
def Triangle.symdiff (a b : List Cell) : Except Err (List Cell) := do
  let x ← Triangle.diff a b
  let y ← Triangle.diff b a
  Triangle.union x y

/-- `a.isdisjoint(b)`: no value of `other` is in `self` -/
def Triangle.isdisjoint (a b : List Cell) : Bool := b.all (fun c => !Triangle.mem c a)

end Bermuda
