/-
Extension operators: `bermuda/utils/extend.py` (`make_right_triangle`, `make_right_diagonal`,
`_fix_prev_evaluation_date`), `bermuda/utils/fill.py` (`fill_forward_gaps`),
`bermuda/utils/backfill.py` (`backfill`) and the Triangle helpers they read
(`periods`, `period_rows`, `slice_period_rows`, `eval_date_resolution`, `period_resolution`).
Core Lean only.

Statement-by-statement correspondence
* `triangle.is_incremental`, `to_cumulative`, `to_incremental`            → `Model/Basis.lean`
* `cum_tri.slices.values()` (first-appearance order, each value a Triangle) → `Triangle.slices`
* `{cell.dev_lag(unit) for cell in slice_}` — a Python set; its iteration order is hash order and not
  observable because the result goes through `Triangle(...)` and cells created at one coordinate are
  identical (`values={}`) → `eraseDups` of the lag list
* `for dev_lag in dev_lags for cell in slice_.right_edge if dev_lag > cell.dev_lag(unit)` → `rawRightCells`
* every `CumulativeCell(...)`, `cell.replace(...)` → `Cell.mk?` (validating constructor)
* `_add_dev_lag` → `addDevLag` (`timedelta(timedelta)` is a `TypeError`: the `"timedelta"` unit can only
  succeed when nothing has to be added)
* `Triangle(list(new_cells))` → `Triangle.ofCells`
* `period_rows` groups ALL slices of a period (rows sorted by `(metadata, evaluation_date)`);
  `slice_period_rows` groups by `(metadata, period)`, keys sorted, rows sorted by evaluation date.
  `backfill` iterates `period_rows` (so only the first slice of each period is backfilled — mirrored),
  `fill_forward_gaps` iterates `slice_period_rows`.
* `period_cells = {cell.dev_lag(): cell ...}` — dict keyed by lag: `lagSet` / `lagGet`
* `range(int(first), int(last + res), res)` → `pyRange` with `truncInt`
* `while (cur - res >= min_dev_lag) and (cur - res >= min_allowed_lag)` with `try/except ValueError: break`
  → `backfillSteps` (closed form of the number of iterations) + `takeValid`

Bounds of the model: `eval_resolution ≤ 0` makes `backfill` loop forever when the loop is entered
(the model answers `Err.other`; never generated); `OverflowError` of date arithmetic outside
years 1..9999 is not modelled.
-/
import Bermuda.Model.Basis
import Bermuda.Model.DateUtils
namespace Bermuda.Extend
open Bermuda

/-! ## Triangle helpers -/

abbrev Period := Date × Date

def periodCmp : Period → Period → Ordering :=
  compareLex (cmpOn (·.1) Date.cmp) (cmpOn (·.2) Date.cmp)

def cellPeriod (c : Cell) : Period := (c.ps, c.pe)

/-- `triangle.periods`: `sorted({cell.period for cell in cells})` -/
def periods (t : List Cell) : List Period :=
  ((t.map cellPeriod).eraseDups).mergeSort (fun a b => periodCmp a b != .gt)

/-- sort key `(cell.metadata, cell.evaluation_date)` -/
def mdEvCmp : Cell → Cell → Ordering :=
  compareLex (cmpOn (·.md) Metadata.cmp) (cmpOn (·.ev) Date.cmp)

def evLe (a b : Cell) : Bool := Date.cmp a.ev b.ev != .gt

/-- `triangle.period_rows` -/
def periodRows (t : List Cell) : List (Period × List Cell) :=
  (periods t).map fun p =>
    (p, (t.filter fun c => cellPeriod c == p).mergeSort (fun a b => mdEvCmp a b != .gt))

abbrev SliceKey := Metadata × Period

def sliceKey (c : Cell) : SliceKey := (c.md, (c.ps, c.pe))

def sliceKeyCmp : SliceKey → SliceKey → Ordering :=
  compareLex (cmpOn (·.1) Metadata.cmp) (cmpOn (·.2) periodCmp)

/-- `triangle.slice_period_rows`: `sorted(groupby((metadata, period)).items())`, each row sorted by
evaluation date (stable) -/
def slicePeriodRows (t : List Cell) : List (SliceKey × List Cell) :=
  (((t.map sliceKey).eraseDups).mergeSort (fun a b => sliceKeyCmp a b != .gt)).map fun k =>
    (k, (t.filter fun c => sliceKey c == k).mergeSort evLe)

/-- `_diff` -/
def diffs : List Int → List Int
  | a :: b :: rest => (b - a) :: diffs (b :: rest)
  | _ => []

/-- `_multi_gcd` on a non-empty list of non-negative ints (`None` for the empty list is decided by
the callers) -/
def multiGcd : List Int → Option Int
  | [] => none
  | d :: ds => some (Int.ofNat (ds.foldl (fun g x => Nat.gcd g x.natAbs) d.natAbs))

def intLe (a b : Int) : Bool := decide (a ≤ b)

/-- `eval_date_resolution(tri)` -/
def evalDateResolution (t : List Cell) : Option Int :=
  let ids := (((t.map (·.ev)).eraseDups).map monthToId).mergeSort intLe
  multiGcd (diffs ids)

/-- `period_resolution(tri)` for a non-empty triangle (`zip(*[])` raises `ValueError` on the empty one) -/
def periodResolution (t : List Cell) : Option Int :=
  let ps := periods t
  let ids := ((ps.map fun p => monthToId p.1) ++ (ps.map fun p => monthToId p.2 + 1)).eraseDups.mergeSort intLe
  multiGcd (diffs ids)

/-- Python `range(a, b, step)` for `step ≠ 0` -/
def pyRange (a b step : Int) : List Int :=
  if step > 0 then
    (List.range ((b - a + step - 1) / step).toNat).map fun (i : Nat) => a + step * (i : Int)
  else if step < 0 then
    (List.range ((a - b + (-step) - 1) / (-step)).toNat).map fun (i : Nat) => a + step * (i : Int)
  else []

/-- latest evaluation date of a non-empty slice: `max(cell.evaluation_date for cell in slice_)` -/
def maxEval : List Cell → Option Date
  | [] => none
  | c :: rest => some (rest.foldl (fun m x => if m < x.ev then x.ev else m) c.ev)

/-! ## `make_right_triangle` -/

/-- `_add_dev_lag(cell, dev_lag, unit)`; `date + timedelta(days=x)` adds `floor x` whole days -/
def addDevLag (pe : Date) (lag : Rat) : LagUnit → Except Err Date
  | .month => .ok (addMonths pe lag)
  | .day => .ok (pe.addDays lag.floor)
  | .timedelta => .error .typeError

/-- the cells the comprehension of `_make_right_triangle_slice` asks for, before construction:
`(lag, right-edge cell)` pairs with `lag > cell.dev_lag(unit)`, lag-major -/
def rightPairs (lags : List Rat) (u : LagUnit) (edge : List Cell) : List (Rat × Cell) :=
  lags.flatMap fun lag => (edge.filter fun c => lag > c.devLag u).map fun c => (lag, c)

/-- a new empty `CumulativeCell` on the row of `c` at evaluation date `ev` -/
def emptyCell (c : Cell) (ev : Date) : Cell :=
  { kind := .cumulative, ps := c.ps, pe := c.pe, ev := ev, prev := none, values := [], md := c.md }

/-- the lag list of a slice: the requested one, or `{cell.dev_lag(unit) for cell in slice_}` -/
def lagListOf (lags : Option (List Rat)) (u : LagUnit) (slice : List Cell) : List Rat :=
  match lags with
  | some l => l
  | none => (slice.map fun c => c.devLag u).eraseDups

/-- one `CumulativeCell(...)` of the comprehension: evaluation date, then the validating constructor -/
def rightCellOf (u : LagUnit) (p : Rat × Cell) : Except Err Cell := do
  let ev ← addDevLag p.2.pe p.1 u
  (emptyCell p.2 ev).mk?

/-- `_make_right_triangle_slice(dev_lags, unit, slice_)` -/
def rightTriangleSlice (lags : Option (List Rat)) (u : LagUnit) (slice : List Cell) :
    Except Err (List Cell) := do
  let edge ← Triangle.rightEdge slice
  -- `int > timedelta` is a `TypeError` at the first comparison
  if u == .timedelta && lags.isSome && !(lagListOf lags u slice).isEmpty && !edge.isEmpty then
    throw .typeError
  (rightPairs (lagListOf lags u slice) u edge).mapM (rightCellOf u)

/-- `_fix_prev_evaluation_date(triangle, right_tri)` -/
def fixPrevEvaluationDate (t right : List Cell) : Except Err (List Cell) := do
  let edgeCells : List Cell := (Triangle.slices right).flatMap fun (_, slc) =>
    (periodRows slc).filterMap fun (_, row) => row.head?
  let obsEdge ← Triangle.rightEdge t
  let fixed ← (obsEdge.flatMap fun cell =>
      (edgeCells.filter fun ob => cellPeriod ob == cellPeriod cell && ob.md == cell.md).map fun ob =>
        { ob with prev := some cell.ev }).mapM Cell.mk?
  Triangle.ofCells ((right.filter fun c => !edgeCells.contains c) ++ fixed)

/-- the common tail of `make_right_triangle` / `make_right_diagonal` -/
def finishRight (t newCells : List Cell) : Except Err (List Cell) := do
  let right ← Triangle.ofCells newCells
  if Triangle.isIncremental t then
    fixPrevEvaluationDate t (← Triangle.toIncremental right)
  else pure right

/-- the new cells of `make_right_triangle` on the cumulative triangle `cum`, before `Triangle(...)`,
for an already dispatched unit (`none` = unrecognised). An unrecognised unit raises `ValueError` at the
first `cell.dev_lag(unit)` — i.e. whenever at least one lag/cell pair is looked at. -/
def rightTriangleCells (cum : List Cell) (lags : Option (List Rat)) (u? : Option LagUnit) :
    Except Err (List Cell) :=
  match u? with
  | none => if cum.isEmpty || lags == some [] then pure [] else throw .valueError
  | some u => do
    let new ← (Triangle.slices cum).mapM fun p => rightTriangleSlice lags u p.2
    pure new.flatten

/-- `make_right_triangle` after the unit string has been dispatched -/
def makeRightTriangleU (t : List Cell) (lags : Option (List Rat)) (u? : Option LagUnit) :
    Except Err (List Cell) := do
  let cum ← if Triangle.isIncremental t then Triangle.toCumulative t else pure t
  let new ← rightTriangleCells cum lags u?
  finishRight t new

/-- `make_right_triangle(triangle, dev_lags, dev_lag_unit)` -/
def makeRightTriangle (t : List Cell) (lags : Option (List Rat)) (unit : String) :
    Except Err (List Cell) :=
  makeRightTriangleU t lags (LagUnit.parse? unit)

/-! ## `make_right_diagonal` -/

/-- the `(right-edge cell, date)` pairs of `_make_right_diagonal_slice`, cell-major -/
def diagPairs (dates : List Date) (edge : List Cell) : List (Cell × Date) :=
  edge.flatMap fun c => (dates.filter fun d => c.ps ≤ d).map fun d => (c, d)

/-- `_make_right_diagonal_slice(evaluation_dates, include_historic, slice_)` -/
def rightDiagonalSlice (dates : List Date) (hist : Bool) (slice : List Cell) :
    Except Err (List Cell) := do
  let dates' := if hist then dates else
    match maxEval slice with
    | some m => dates.filter fun d => m < d
    | none => dates
  let edge ← Triangle.rightEdge slice
  (diagPairs dates' edge).mapM fun p => (emptyCell p.1 p.2).mk?

/-- the new cells of `make_right_diagonal` on the cumulative triangle `cum` -/
def rightDiagonalCells (cum : List Cell) (dates : List Date) (hist : Bool) : Except Err (List Cell) := do
  let new ← (Triangle.slices cum).mapM fun p => rightDiagonalSlice dates hist p.2
  pure new.flatten

/-- `make_right_diagonal(triangle, evaluation_dates, include_historic)` -/
def makeRightDiagonal (t : List Cell) (dates : List Date) (hist : Bool) :
    Except Err (List Cell) := do
  let cum ← if Triangle.isIncremental t then Triangle.toCumulative t else pure t
  let new ← rightDiagonalCells cum dates hist
  finishRight t new

/-! ## `fill_forward_gaps` -/

abbrev LagDict := List (Rat × Cell)

def lagGet (d : LagDict) (k : Rat) : Option Cell := (d.find? (·.1 == k)).map (·.2)

/-- `d[k] = v` (position of an existing key is kept) -/
def lagSet (d : LagDict) (k : Rat) (v : Cell) : LagDict :=
  if d.any (·.1 == k) then d.map (fun p => if p.1 == k then (p.1, v) else p) else d ++ [(k, v)]

/-- `{cell.dev_lag(): cell for cell in period}` -/
def lagDictOf (row : List Cell) : LagDict := row.foldl (fun d c => lagSet d c.devLag c) []

/-- the lags `sorted(required_lags - set(period_cells.keys()))` of one row -/
def newLags (res : Int) (row : List Cell) : List Int :=
  match row.head?, row.getLast? with
  | some f, some l =>
    let required := pyRange (truncInt f.devLag) (truncInt (l.devLag + res)) res
    let keys := lagDictOf row
    ((required.eraseDups).filter fun (x : Int) => !(keys.any (·.1 == (x : Rat)))).mergeSort intLe
  | _, _ => []

/-- one step of the inner loop: copy the cell one resolution step earlier to lag `lag` -/
def fillStep (res : Int) (noneFlag : Bool) (d : LagDict) (lag : Int) : Except Err LagDict := do
  match lagGet d ((lag - res : Int) : Rat) with
  | none => throw .keyError
  | some src =>
    let c ← ({ src with ev := addMonths src.pe (lag : Rat) }).mk?
    let c ← if noneFlag then ({ c with values := c.values.map fun (kv : String × Val) => (kv.1, Val.none) }).mk? else pure c
    pure (lagSet d lag c)

/-- body of the loop over `slice_period_rows` -/
def fillRow (res : Int) (noneFlag : Bool) (row : List Cell) : Except Err (List Cell) := do
  if row.isEmpty then return []
  if res == 0 then throw .valueError          -- `range()` arg 3 must not be zero
  let d ← (newLags res row).foldlM (fillStep res noneFlag) (lagDictOf row)
  pure (d.map (·.2))

/-- `fill_forward_gaps(triangle, eval_resolution, fill_with_none)`; an inferred resolution of `None`
(single evaluation date) makes `last_lag + None` a `TypeError` -/
def fillForwardGaps (t : List Cell) (res? : Option Int) (noneFlag : Bool) : Except Err (List Cell) := do
  let rows := slicePeriodRows t
  if rows.isEmpty then return ← Triangle.ofCells []
  let res ← match res? with
    | some r => pure r
    | none => match evalDateResolution t with
      | some r => pure r
      | none => throw .typeError
  let filled ← rows.mapM fun r => fillRow res noneFlag r.2
  Triangle.ofCells filled.flatten

/-! ## `backfill` -/

/-- `{k: 0 for k in first.values}` then `d[field] = first.values[field]` for the static fields -/
def replacementValues (first : Cell) (statics : List String) : Except Err (Dict Val) :=
  statics.foldlM (fun d f => match first.values.get? f with
    | some v => pure (d.set f v)
    | none => throw .keyError) (first.values.map fun kv => (kv.1, Val.int 0))

/-- number of iterations of the `while` loop for `res > 0`: the `k ≥ 1` with
`cur - k*res ≥ max(min_dev_lag, min_allowed_lag)` -/
def backfillSteps (cur : Rat) (res lo : Int) : Nat :=
  (((cur - (lo : Rat)) / (res : Rat)).floor).toNat

/-- `try: append(...) except ValueError: break` — keep cells up to the first invalid one -/
def takeValid : List Cell → List Cell
  | [] => []
  | c :: rest => if c.datesOk then c :: takeValid rest else []

/-- body of the loop over `period_rows` -/
def backfillRow (statics : List String) (res? : Option Int) (minLag minAllowed : Int) (row : List Cell) :
    Except Err (List Cell) :=
  match row.head? with
  | none => .ok []
  | some first => do
    let repl ← replacementValues first statics
    let res ← match res? with
      | some r => pure r
      | none => throw .typeError                -- `current_lag - None`
    let lo := max minLag minAllowed
    let cur := first.devLag
    if res ≤ 0 then
      if cur - (res : Rat) ≥ (lo : Rat) then throw .other   -- the Python loop does not terminate
      else pure []
    else
      pure (takeValid ((List.range (backfillSteps cur res lo)).map fun (i : Nat) =>
        { first with ev := addMonths first.pe (cur - (((i : Int) + 1 : Int) : Rat) * (res : Rat)), values := repl }))

/-- `backfill(triangle, static_fields, eval_resolution, min_dev_lag)` -/
def backfill (t : List Cell) (statics : List String) (res? : Option Int) (minLag : Int) :
    Except Err (List Cell) := do
  let pres ← match periodResolution t with
    | some r => pure r
    | none => throw .valueError                 -- `zip(*[])` cannot be unpacked
  let minAllowed := -pres + 1
  let res? := match res? with
    | some r => some r
    | none => evalDateResolution t
  let added ← (periodRows t).mapM fun r => backfillRow statics res? minLag minAllowed r.2
  let addTri ← Triangle.ofCells added.flatten
  Triangle.add t addTri

end Bermuda.Extend
