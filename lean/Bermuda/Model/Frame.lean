/-
Row algebra of the tabular forms (property C14): `bermuda/io/data_frame_output.py`,
`data_frame_input.py`, `array.py`, `matrix.py`, `matrix/index.py`.

pandas (CSV text, dtype inference, NaN handling, date parsing, float formatting) is the trusted /
opaque layer: a table here is a list of rows, a row a dict column → entry, an entry `MVal`
(`none` = NaN / empty, `num`, `str`, `date`). What is modelled is which rows are written for a
triangle and how rows are grouped back into cells — in particular the GROUP-BY KEY LIST, which is
not written here but read from `Bermuda.Generated.FrameKeys.groupByKeys` (OBSERVED on probe frames:
harness/translate_c14.py wraps `DataFrame.groupby` and records the `by` lists; regenerated from /repo on
every run).

Numbers come back from a CSV as floats; kinds are not tracked on the way back (`Val.flt`, arrays
float64), see `Spec/C14.lean` for the comparison used.
Core Lean only.
-/
import Bermuda.Model.Ops
import Bermuda.Model.DateUtils
import Bermuda.Generated.Frame
import Bermuda.Generated.FrameKeys
namespace Bermuda.Frame
open Bermuda

abbrev Row := Dict MVal

structure Table where
  cols : List String
  rows : List Row
deriving Repr, Inhabited

def Row.col (r : Row) (c : String) : MVal := (Dict.get? r c).getD .none

def optStr : Option String → MVal
  | none => .none | some s => .str s

def optNum : Option Rat → MVal
  | none => .none | some q => .num q

/-- `Metadata.as_flat_dict()`: the six attributes (in ITS order), then `**details`,
`**loss_details` (a later key overrides an earlier one) -/
def flatDict (m : Metadata) : Row :=
  Dict.union (Dict.union
    [("currency", optStr m.currency), ("country", optStr m.country),
     ("risk_basis", optStr m.riskBasis), ("reinsurance_basis", optStr m.reinsuranceBasis),
     ("loss_definition", optStr m.lossDefinition), ("per_occurrence_limit", optNum m.limit)]
    m.details) m.lossDetails

def addNew (acc : List String) (xs : List String) : List String :=
  xs.foldl (fun a x => if a.contains x then a else a ++ [x]) acc

/-- `_all_metadata_names`: columns that are not `None` in at least one slice (a Python `set`: the
order is unspecified, rows are dicts) -/
def allMetadataNames (t : List Cell) : List String :=
  (Triangle.metadata t).foldl
    (fun acc m => addNew acc ((flatDict m).filterMap fun kv => if kv.2 == .none then none else some kv.1)) []

/-- `_all_fields` -/
def allFields (t : List Cell) : List String :=
  t.foldl (fun acc c => addNew acc c.values.keys) []

def valSize : Val → Nat
  | .arr _ _ data => data.length
  | _ => 1

/-- the length a field contributes: an array its size (more than one dimension is refused), a
scalar, `None` or a missing field 1 -/
def fieldLen (c : Cell) (f : String) : Except Err Nat :=
  match Dict.get? c.values f with
  | some (.arr _ shape data) => if shape.length > 1 then .error .valueError else .ok data.length
  | _ => .ok 1

/-- at most one length other than 1 -/
def pickLength (lens : List Nat) : Except Err Nat :=
  match (lens.filter (· != 1)).eraseDups with
  | [] => .ok 1
  | [n] => .ok n
  | _ => .error .valueError

/-- `_common_field_length` -/
def commonFieldLength (c : Cell) (fieldNames : List String) : Except Err Nat :=
  (fieldNames.mapM (fieldLen c)).bind pickLength

/-- `float(value)` of a non-array, or element `ndx` of a sample array -/
def fieldEntry (v : Val) (ndx : Nat) : Except Err (Option Rat) :=
  match v with
  | .none => .ok none
  | .int i => .ok (some i)
  | .flt q => .ok (some q)
  | .arr _ _ data =>
    if data.length > 1 then .ok (data[ndx]?) else
    match data with
    | [q] => .ok (some q)
    | _ => .error .typeError     -- `float(np.array([]))`

/-- one field of one scenario: absent / `None` → no entry -/
def fieldEntryAt (c : Cell) (ndx : Nat) (f : String) : Except Err (Option (String × Rat)) :=
  match Dict.get? c.values f with
  | none => .ok none
  | some v => (fieldEntry v ndx).map fun o => o.map fun q => (f, q)

/-- the field dict of scenario `ndx` -/
def fieldDictAt (c : Cell) (fieldNames : List String) (ndx : Nat) : Except Err (Dict Rat) :=
  (fieldNames.mapM (fieldEntryAt c ndx)).map fun es => es.filterMap id

/-- `_clean_field_dicts` -/
def cleanFieldDicts (c : Cell) (fieldNames : List String) : Except Err (List (Dict Rat)) :=
  (commonFieldLength c fieldNames).bind fun n => (List.range n).mapM (fieldDictAt c fieldNames)

def baseDict (c : Cell) : Row :=
  [("period_start", MVal.date c.ps), ("period_end", .date c.pe), ("evaluation_date", .date c.ev)]
  ++ (match c.kind, c.prev with
      | .incremental, some p => [("prev_evaluation_date", MVal.date p)]
      | _, _ => [])

def metadataDict (c : Cell) (names : List String) : Row :=
  names.map fun n => (n, Row.col (flatDict c.md) n)

/-- one wide row: `{**base, "scenario": ndx + 1, **field_dict, **metadata_dict}` -/
def wideRow (c : Cell) (mdNames : List String) (p : Nat × Dict Rat) : Row :=
  Dict.union (Dict.union (baseDict c ++ [("scenario", MVal.num ((p.1 : Nat) + 1 : Nat))])
    (p.2.map fun kv => (kv.1, MVal.num kv.2))) (metadataDict c mdNames)

/-- `_cell_to_wide_dict` -/
def cellWideRows (c : Cell) (mdNames fieldNames : List String) : Except Err (List Row) :=
  (cleanFieldDicts c fieldNames).map fun fds =>
    (List.zip (List.range fds.length) fds).map (wideRow c mdNames)

/-- Python scalars only (`isinstance(v, (float, int))`) -/
def isConstantField : Val → Bool
  | .int _ => true | .flt _ => true | _ => false

/-- `_cell_to_long_dict`: per scenario, per field of that scenario's dict, one row -/
def longRow (c : Cell) (mdNames : List String) (ndx : Nat) (kv : String × Rat) : Row :=
  Dict.union (Dict.union (baseDict c) (metadataDict c mdNames))
    [("scenario", if ((Dict.get? c.values kv.1).map isConstantField).getD false then MVal.none
                  else MVal.num ((ndx : Nat) + 1 : Nat)),
     ("field", MVal.str kv.1), ("value", MVal.num kv.2)]

def cellLongRows (c : Cell) (mdNames : List String) : Except Err (List Row) :=
  (cleanFieldDicts c c.values.keys).map fun fds =>
    (List.zip (List.range fds.length) fds).flatMap fun p => p.2.map (longRow c mdNames p.1)

/-- `_drop_constant_scenario` (`df["scenario"]` on an empty frame raises `KeyError`) -/
def eraseScenario (r : Row) : Row := r.filter (·.1 != "scenario")

/-- `np.all(scenario[0] == scenario) or np.all(pd.isnull(scenario))` (NaN ≠ NaN) -/
def scenarioConstant (rows : List Row) (r : Row) : Bool :=
  (Row.col r "scenario" != .none && (rows.map (Row.col · "scenario")).all (· == Row.col r "scenario")) ||
  (rows.map (Row.col · "scenario")).all (· == .none)

def dropConstantScenario (rows : List Row) : Except Err (List Row) :=
  match rows with
  | [] => .error .keyError
  | r :: _ => if scenarioConstant rows r then .ok (rows.map eraseScenario) else .ok rows

def colsOf (rows : List Row) : List String := rows.foldl (fun acc r => addNew acc (Dict.keys r)) []

/-- `triangle_to_wide_data_frame` (rows in triangle order, scenarios ascending) -/
def mkTable (rows : List Row) : Table := { cols := colsOf rows, rows := rows }

def toWideRows (t : List Cell) : Except Err Table :=
  (t.mapM fun c => cellWideRows c (allMetadataNames t) (allFields t)).bind fun blocks =>
    (dropConstantScenario blocks.flatten).map mkTable

/-- `triangle_to_long_data_frame` -/
def toLongRows (t : List Cell) : Except Err Table :=
  (t.mapM fun c => cellLongRows c (allMetadataNames t)).bind fun blocks =>
    (dropConstantScenario blocks.flatten).map mkTable

/-! ## Reading -/

def mvalStr? : MVal → Option String
  | .str s => some s | _ => none

def mvalNum? : MVal → Option Rat
  | .num q => some q | _ => none

def mvalDate? : MVal → Except Err Date
  | .date d => .ok d | _ => .error .other

/-- `_create_metadata` for one row: the six columns with NaN / missing column → the default's
attribute (`Metadata()`: risk_basis "Accident", the rest `None`), detail columns with NaN → absent -/
def rowStr (r : Row) (k : String) (d : Option String) : Option String :=
  match Row.col r k with
  | .str x => some x
  | _ => d

def rowDetail (r : Row) (c : String) : Option (String × MVal) :=
  match Row.col r c with
  | .none => none
  | v => some (c, v)

def rowDetails (r : Row) (cols : List String) : Dict MVal := sortItems (cols.filterMap (rowDetail r))

def rowMetadata (r : Row) (detailCols lossDetailCols : List String) : Metadata :=
  let dflt : Metadata := {}
  { riskBasis := rowStr r "risk_basis" dflt.riskBasis, country := rowStr r "country" dflt.country,
    currency := rowStr r "currency" dflt.currency,
    reinsuranceBasis := rowStr r "reinsurance_basis" dflt.reinsuranceBasis,
    lossDefinition := rowStr r "loss_definition" dflt.lossDefinition,
    limit := mvalNum? (Row.col r "per_occurrence_limit"),
    details := rowDetails r (detailCols.filter (!lossDetailCols.contains ·)),
    lossDetails := rowDetails r lossDetailCols }

/-- the key list of `df.groupby([...])` in reader `fn`, from the GENERATED table, with the local
variables expanded -/
def expandKey (detailCols lossDetailCols : List String) (k : String) : List String :=
  if k == "$detail_cols" then detailCols
  else if k == "$loss_detail_cols" then lossDetailCols
  else [k]

def groupCols (fn : String) (detailCols lossDetailCols : List String) : List String :=
  match Generated.FrameKeys.groupByKeys.find? (·.1 == fn) with
  | none => []
  | some (_, ks) => ks.flatMap (expandKey detailCols lossDetailCols)

/-- the value a row has in a key column. A metadata column missing from the table was filled in by
`df.assign(**{column: [getattr(cell, column) …]})` from the row's metadata -/
def keyEntry (cols : List String) (detailCols lossDetailCols : List String) (r : Row) (k : String) : MVal :=
  if cols.contains k then Row.col r k
  else Row.col (flatDict (rowMetadata r detailCols lossDetailCols)) k

def scenarioLe (a b : Row) : Bool :=
  match Row.col a "scenario", Row.col b "scenario" with
  | .num x, .num y => x ≤ y
  | .none, _ => false     -- NaN sorts last
  | _, .none => true
  | _, _ => true

/-- the rows of one group: `sort_values(["scenario"])` when there is more than one
(`KeyError` → `Exception` without a scenario column) -/
def sortGroup (cols : List String) (g : List Row) : Except Err (List Row) :=
  if g.length > 1 then
    if cols.contains "scenario" then .ok (g.mergeSort scenarioLe) else .error .other
  else .ok g

/-- the value of field `f` from its entries in a group of rows (already scenario-sorted): one row →
the scalar (NaN → absent); several rows → absent when EVERY row lacks it (fix D24: a field the cell
does not have is empty in every scenario row), else the sample array. A field missing in SOME of several
rows gives `np.array([1.0, None])`, an object array the constructor keeps as it is (numpy's object →
float64 `astype` turns `None` into nan and `Cell.__init__` discards the converted array): `Val` has no such
value, the `.error .typeError` below only marks "outside the model" — the writers never produce such rows
(a sample array has the cell's common length) -/
def assembleField (f : String) (es : List (Option Rat)) : Except Err (Option (String × Val)) :=
  match es with
  | [e] => .ok (e.map fun q => (f, Val.flt q))
  | _ => if es.all Option.isNone then .ok none
         else if es.all Option.isSome then .ok (some (f, Val.arr false [es.length] (es.filterMap id)))
         else .error .typeError

def groupFieldVal (g : List Row) (f : String) : Except Err (Option (String × Val)) :=
  assembleField f (g.map fun row => mvalNum? (Row.col row f))

/-- cumulative branch of `wide_data_frame_to_triangle`: one cell per group -/
def wideGroupCell (cols fieldCols detailCols lossDetailCols : List String) (g : List Row) :
    Except Err Cell :=
  (sortGroup cols g).bind fun g =>
  match g with
  | [] => .error .other
  | r :: _ =>
    (fieldCols.mapM (groupFieldVal g)).bind fun vals =>
    (mvalDate? (Row.col r "period_start")).bind fun ps =>
    (mvalDate? (Row.col r "period_end")).bind fun pe =>
    (mvalDate? (Row.col r "evaluation_date")).bind fun ev =>
    .ok { kind := .cumulative, ps := ps, pe := pe, ev := ev, prev := none,
          values := vals.filterMap id, md := rowMetadata r detailCols lossDetailCols }

def wideKey (cols detailCols lossDetailCols : List String) (r : Row) : List MVal :=
  (groupCols "wide_data_frame_to_triangle" detailCols lossDetailCols).map
    (keyEntry cols detailCols lossDetailCols r)

def wideGroupToCell (cols fieldCols detailCols lossDetailCols : List String)
    (g : List MVal × List Row) : Except Err Cell :=
  (wideGroupCell cols fieldCols detailCols lossDetailCols g.2).bind Cell.mk?

/-- cumulative branch: group by the generated key list, one `CumulativeCell` per group -/
def fromWideCum (tb : Table) (fieldCols detailCols lossDetailCols : List String) :
    Except Err (List Cell) :=
  ((groupBy (wideKey tb.cols detailCols lossDetailCols) tb.rows).mapM
    (wideGroupToCell tb.cols fieldCols detailCols lossDetailCols)).bind Triangle.ofCells

/-- incremental branch: one `IncrementalCell` per ROW; every present value a 0-d array -/
def wideIncrCell (fieldCols detailCols lossDetailCols : List String) (r : Row) : Except Err Cell :=
  (mvalDate? (Row.col r "period_start")).bind fun ps =>
  (mvalDate? (Row.col r "period_end")).bind fun pe =>
  (mvalDate? (Row.col r "evaluation_date")).bind fun ev =>
  (mvalDate? (Row.col r "prev_evaluation_date")).bind fun prev =>
  Cell.mk? { kind := .incremental, ps := ps, pe := pe, ev := ev, prev := some prev,
             values := fieldCols.filterMap fun f =>
               (mvalNum? (Row.col r f)).map fun q => (f, Val.arr false [] [q]),
             md := rowMetadata r detailCols lossDetailCols }

def fromWideIncr (tb : Table) (fieldCols detailCols lossDetailCols : List String) :
    Except Err (List Cell) :=
  (tb.rows.mapM (wideIncrCell fieldCols detailCols lossDetailCols)).bind Triangle.ofCells

/-- `wide_data_frame_to_triangle(df, field_cols, detail_cols, loss_detail_cols)` -/
def fromWideRows (tb : Table) (fieldCols detailCols lossDetailCols : List String) :
    Except Err (List Cell) :=
  if tb.cols.contains "prev_evaluation_date" then fromWideIncr tb fieldCols detailCols lossDetailCols
  else fromWideCum tb fieldCols detailCols lossDetailCols

/-- detail columns of the long reader: every column that is not a core / field / value column -/
def coreSet : List String :=
  Generated.Frame.indexColumns ++ Generated.Frame.metadataColumns ++ ["scenario"]

def longDetailCols (cols lossDetailCols : List String) : List String :=
  cols.filter fun c => !coreSet.contains c && c != "field" && c != "value" && !lossDetailCols.contains c

/-- `cells[index].values[field] = value` on the cell at `index`; a repeated field raises -/
def addFieldTo (c : Cell) (f : String) (v : Val) (x : Cell) : Except Err Cell :=
  if x.coord == c.coord then
    if x.values.contains f then .error .other else .ok { x with values := x.values ++ [(f, v)] }
  else .ok x

/-- add a field to the cell at `index` (dict of cells keyed by coordinates + metadata, insertion
order), creating the cell when it is not there yet -/
def addField (cells : List Cell) (c : Cell) (f : String) (v : Val) : Except Err (List Cell) :=
  if cells.any (·.coord == c.coord) then cells.mapM (addFieldTo c f v)
  else (Cell.mk? { c with values := [(f, v)] }).map fun c' => cells ++ [c']

def longKey (cols detailCols lossDetailCols : List String) (r : Row) : List MVal :=
  (groupCols "long_data_frame_to_triangle" detailCols lossDetailCols).map
    (keyEntry cols detailCols lossDetailCols r)

/-- `value = group_df["value"].values`, reduced to `value[0]` for a one-row group or an all-NaN
scenario column -/
def longGroupVal (cols : List String) (rows : List Row) : Option Val :=
  let vs := rows.filterMap fun row => mvalNum? (Row.col row "value")
  let scalar := rows.length == 1 ||
    (cols.contains "scenario" && rows.all fun row => Row.col row "scenario" == .none)
  match vs with
  | q :: _ => some (if scalar then .flt q else .arr false [vs.length] vs)
  | [] => none

def longAdd (acc : List Cell) (c : Cell) (fld : MVal) (v : Option Val) : Except Err (List Cell) :=
  match fld, v with
  | .str f, some v => addField acc c f v
  | _, _ => .error .other

/-- one group (coordinates × field × metadata) of the cumulative long reader -/
def longStep (cols detailCols lossDetailCols : List String) (acc : List Cell)
    (g : List MVal × List Row) : Except Err (List Cell) :=
  (sortGroup cols g.2).bind fun rows =>
  match rows with
  | [] => .error .other
  | r :: _ =>
    (mvalDate? (Row.col r "period_start")).bind fun ps =>
    (mvalDate? (Row.col r "period_end")).bind fun pe =>
    (mvalDate? (Row.col r "evaluation_date")).bind fun ev =>
    longAdd acc { kind := .cumulative, ps := ps, pe := pe, ev := ev,
                  md := rowMetadata r detailCols lossDetailCols }
      (Row.col r "field") (longGroupVal cols rows)

def fromLongCum (tb : Table) (lossDetailCols : List String) : Except Err (List Cell) :=
  ((groupBy (longKey tb.cols (longDetailCols tb.cols lossDetailCols) lossDetailCols) tb.rows).foldlM
    (longStep tb.cols (longDetailCols tb.cols lossDetailCols) lossDetailCols) []).bind Triangle.ofCells

/-- one row of the incremental long reader: a 0-d array under the row's field -/
def longIncrStep (detailCols lossDetailCols : List String) (acc : List Cell) (r : Row) :
    Except Err (List Cell) :=
  (mvalDate? (Row.col r "period_start")).bind fun ps =>
  (mvalDate? (Row.col r "period_end")).bind fun pe =>
  (mvalDate? (Row.col r "evaluation_date")).bind fun ev =>
  (mvalDate? (Row.col r "prev_evaluation_date")).bind fun prev =>
  longAdd acc { kind := .incremental, ps := ps, pe := pe, ev := ev, prev := some prev,
                md := rowMetadata r detailCols lossDetailCols }
    (Row.col r "field") ((mvalNum? (Row.col r "value")).map fun q => Val.arr false [] [q])

def fromLongIncr (tb : Table) (lossDetailCols : List String) : Except Err (List Cell) :=
  (tb.rows.foldlM (longIncrStep (longDetailCols tb.cols lossDetailCols) lossDetailCols) []).bind
    Triangle.ofCells

/-- `long_data_frame_to_triangle(df, loss_detail_cols)`; `long_csv_to_triangle` passes NO
`loss_detail_cols`, so after a long CSV every loss-detail column is a `details` entry -/
def fromLongRows (tb : Table) (lossDetailCols : List String := []) : Except Err (List Cell) :=
  if tb.cols.contains "prev_evaluation_date" then fromLongIncr tb lossDetailCols
  else fromLongCum tb lossDetailCols

/-! ## Array data frame (`io/array.py`) -/

/-- one row of the array frame: the period start and the values under `str(int(dev_lag))` -/
structure ArrayRow where
  period : Date
  entries : List (Int × Val)
deriving Repr, Inhabited

def periodsOf (t : List Cell) : List (Date × Date) :=
  ((t.map fun c => (c.ps, c.pe)).eraseDups).mergeSort fun a b =>
    compareLex (cmpOn (·.1) Date.cmp) (cmpOn (·.2) Date.cmp) a b != .gt

def setEntry (es : List (Int × Val)) (k : Int) (v : Val) : List (Int × Val) :=
  if es.any (·.1 == k) then es.map fun e => if e.1 == k then (k, v) else e else es ++ [(k, v)]

/-- the cells of one period, as `period_rows` yields them: sorted by (metadata, evaluation date) -/
def periodCells (filtered : List Cell) (p : Date × Date) : List Cell :=
  (filtered.filter fun c => c.ps == p.1 && c.pe == p.2).mergeSort fun a b =>
    compareLex (cmpOn (·.md) Metadata.cmp) (cmpOn (·.ev) Date.cmp) a b != .gt

/-- `row[str(int(cell.dev_lag()))] = cell[field]` for the cells of a row (a later cell with the same
integer lag overwrites) -/
def rowEntries (cells : List Cell) (field : String) : List (Int × Val) :=
  cells.foldl (fun es c =>
    setEntry es (truncInt (c.devLag .month)) ((Dict.get? c.values field).getD .none)) []

def arrayRowOf (filtered : List Cell) (field : String) (p : Date × Date) : ArrayRow :=
  { period := p.1, entries := rowEntries (periodCells filtered p) field }

/-- `triangle.is_incremental` -/
def firstIsIncremental : List Cell → Bool
  | c :: _ => c.kind == CellKind.incremental
  | [] => false

/-- `triangle_to_array_data_frame(triangle, field)` -/
def toArrayFrame (t : List Cell) (field : String) : Except Err (List ArrayRow) :=
  (Triangle.ofCells (t.filter fun c => c.values.contains field)).bind fun filtered =>
  if (metasOf t).length > 1 then .error .valueError
  else if firstIsIncremental t then .error .valueError
  else .ok ((periodsOf filtered).map (arrayRowOf filtered field))

def valNum? : Val → Option Rat
  | .int i => some i | .flt q => some q
  | .arr _ _ [q] => some q
  | _ => none

def addLag (acc : List Int) (k : Int) : List Int := if acc.contains k then acc else acc ++ [k]

/-- the development-lag columns of the frame, in first-appearance order -/
def frameCols (rows : List ArrayRow) : List Int :=
  rows.foldl (fun acc r => r.entries.foldl (fun a e => addLag a e.1) acc) []

/-- the period resolution: given, or the library's inference
`int(round(calculate_dev_lag(p₀, p₁)))` from the first two period STARTS (before fix D19 the lag
was truncated: 3 - 1/30 + 1/31 became 2) -/
def frameResolution (rows : List ArrayRow) : Option Int → Except Err Int
  | some r => .ok r
  | none => match rows with
    | r0 :: r1 :: _ => .ok (roundHalfEven (devLagMonths r0.period r1.period))
    | _ => .error .valueError

/-- the cell under column `lag` of row `r` (none when the entry is missing / NaN) -/
def frameCell (field : String) (md : Metadata) (r : ArrayRow) (pe : Date) (lag : Int) : Option Cell :=
  ((r.entries.find? (·.1 == lag)).bind fun e => valNum? e.2).map fun q =>
    { kind := .cumulative, ps := r.period, pe := pe, ev := addMonths pe lag,
      values := [(field, Val.flt q)], md := md }

def rowCells (field : String) (md : Metadata) (res : Int) (cols : List Int) (r : ArrayRow) :
    Except Err (List Cell) :=
  (cols.filterMap (frameCell field md r (addMonths r.period res).pred)).mapM Cell.mk?

/-- `array_data_frame_to_triangle(df, field, period_resolution, metadata=md)` with integer column
names and `eval_resolution=None` -/
def fromArrayFrame (rows : List ArrayRow) (field : String) (md : Metadata)
    (periodResolution : Option Int := none) : Except Err (List Cell) :=
  (frameResolution rows periodResolution).bind fun res =>
  (rows.mapM (rowCells field md res (frameCols rows))).bind fun cells =>
  Triangle.ofCells cells.flatten

/-! ## Matrix (`io/matrix.py`, `matrix/index.py`) -/

structure MatrixIndex where
  slices : List Metadata
  fields : List String
  expOrigin : Int
  devOrigin : Int
  expResolution : Int
  devResolution : Int
deriving Repr, Inhabited

structure Matrix where
  index : MatrixIndex
  nPeriods : Nat
  nDevs : Nat
  /-- the non-NaN entries `((slice, field, period, dev), value)`, later assignments last -/
  entries : List ((Nat × Nat × Nat × Nat) × Rat)
  incremental : Bool
deriving Repr, Inhabited

def diffs (xs : List Int) : List Int := (xs.zip xs.tail).map fun (a, b) => b - a

/-- `_multi_gcd(_diff(sorted …))`, `None` when there is no difference -/
def multiGcd (xs : List Int) : Option Int :=
  match xs with
  | [] => none
  | x :: rest => some (rest.foldl (fun g y => (Int.gcd g y : Int)) x)

def sortInts (l : List Int) : List Int := l.mergeSort fun a b => a ≤ b

/-- `period_resolution(tri)` -/
def periodResolution (t : List Cell) : Option Int :=
  let ps := periodsOf t
  let starts := ps.map fun p => monthToId p.1
  let nexts := ps.map fun p => monthToId p.2 + 1
  multiGcd (diffs (sortInts (starts ++ nexts).eraseDups))

/-- `eval_date_resolution(tri)` -/
def evalDateResolution (t : List Cell) : Option Int :=
  multiGcd (diffs (sortInts ((t.map fun c => monthToId c.ev).eraseDups)))

def isMonthly (t : List Cell) : Bool :=
  t.all fun c => c.ps.d == 1 && c.pe.isMonthEnd && c.ev.isMonthEnd

/-- `is_semi_regular()`: disjoint periods of one length -/
def isSemiRegular (t : List Cell) : Bool :=
  let ps := periodsOf t
  (ps.zip ps.tail).all (fun (a, b) => a.2 < b.1) &&
  match ps with
  | [] => true
  | p :: rest => rest.all fun q => devLagMonths q.1.pred q.2 == devLagMonths p.1.pred p.2

def minInt (l : List Int) : Option Int := l.foldl (fun m x => match m with | none => some x | some y => some (min x y)) none

/-- `MatrixIndex.from_triangle(tri)` with default arguments (a single evaluation date gives no
evaluation resolution: "Must supply eval_resolution") -/
def MatrixIndex.ofTriangle (t : List Cell) : Except Err MatrixIndex :=
  match minInt (t.map fun c => monthToId c.ps), periodResolution t,
        minInt (t.map fun c => truncInt (c.devLag .month)), evalDateResolution t with
  | some expOrigin, some expRes, some devOrigin, some devRes =>
    .ok { slices := Triangle.metadata t, fields := sortStrings (allFields t), expOrigin := expOrigin,
          devOrigin := devOrigin, expResolution := expRes, devResolution := devRes }
  | none, _, _, _ => .error .valueError
  | some _, none, _, _ => .error .typeError
  | some _, some _, none, _ => .error .valueError
  | some _, some _, some _, none => .error .other

def indexOf? {α} [BEq α] (l : List α) (a : α) : Option Nat :=
  let i := l.findIdx (· == a)
  if i < l.length then some i else none

/-- `_resolve_exp_ndx` (Python `//`) -/
def MatrixIndex.expNdx (ix : MatrixIndex) (ps : Date) : Except Err Nat :=
  let n := (monthToId ps - ix.expOrigin) / ix.expResolution
  if n < 0 then .error .other else .ok n.toNat

/-- `_resolve_dev_ndx`: `int((lag - dev_origin) / min(dev_resolution, exp_resolution))` -/
def MatrixIndex.devNdx (ix : MatrixIndex) (lag : Rat) : Except Err Nat :=
  let n := truncInt ((lag - ix.devOrigin) / (min ix.devResolution ix.expResolution : Int))
  if n < 0 then .error .other else .ok n.toNat

/-- `float(value)` of a cell value that is a scalar (or a one-element array) -/
def scalarNum? : Val → Option Rat
  | .int i => some i
  | .flt q => some q
  | .arr _ _ [q] => some q
  | _ => none

/-- `data[index.resolve_indices(cell.metadata, field, cell.period_start, cell.dev_lag())] = float(value)`
for one field of one cell -/
def cellEntry (ix : MatrixIndex) (c : Cell) (si p d : Nat) (kv : String × Val) :
    Except Err ((Nat × Nat × Nat × Nat) × Rat) :=
  match indexOf? ix.fields kv.1 with
  | none => .error .keyError
  | some fi => match scalarNum? kv.2 with
    | some q => .ok ((si, fi, p, d), q)
    | none => .error .typeError

def cellEntries (ix : MatrixIndex) (c : Cell) : Except Err (List ((Nat × Nat × Nat × Nat) × Rat)) :=
  match indexOf? ix.slices c.md with
  | none => .error .keyError
  | some si =>
    (ix.expNdx c.ps).bind fun p =>
    (ix.devNdx (c.devLag .month)).bind fun d =>
    c.values.mapM (cellEntry ix c si p d)

def maxLagOf (t : List Cell) : Rat :=
  let lags := t.map fun c => c.devLag .month
  lags.foldl (fun m x => if m < x then x else m) (lags.headD 0)

def lastPeriodStart (t : List Cell) : Date := (periodsOf t).getLast?.map (·.1) |>.getD Date.min

/-- the data part of `triangle_to_matrix`, for a given index -/
def toMatrixWith (ix : MatrixIndex) (t : List Cell) : Except Err Matrix :=
  (ix.expNdx (lastPeriodStart t)).bind fun maxP =>
  (ix.devNdx (maxLagOf t)).bind fun maxD =>
  (t.mapM (cellEntries ix)).bind fun entries =>
  if entries.flatten.any (fun e => e.1.2.2.1 > maxP || e.1.2.2.2 > maxD) then .error .indexError
  else .ok { index := ix, nPeriods := maxP + 1, nDevs := maxD + 1, entries := entries.flatten,
             incremental := firstIsIncremental t }

/-- `triangle_to_matrix(tri)` -/
def toMatrix (t : List Cell) : Except Err Matrix :=
  if t.isEmpty then .error .valueError
  else if !isMonthly t then .error .other
  else if !isSemiRegular t then .error .other
  else (MatrixIndex.ofTriangle t).bind fun ix => toMatrixWith ix t

/-- last assignment to a position wins -/
def Matrix.get? (m : Matrix) (pos : Nat × Nat × Nat × Nat) : Option Rat :=
  (m.entries.reverse.find? (·.1 == pos)).map (·.2)

/-- the spacing `matrix_to_triangle` gives to the development axis, from the GENERATED source
facts: `min(exp, dev)` (after fix D10) -/
def devSpacing (ix : MatrixIndex) : Int := min ix.expResolution ix.devResolution

def matrixLag (ix : MatrixIndex) (k : Nat) : Rat := ((ix.devOrigin + (k : Int) * devSpacing ix : Int) : Rat)

def matrixValues (m : Matrix) (i j k : Nat) : Dict Val :=
  (List.zip (List.range m.index.fields.length) m.index.fields).filterMap fun p =>
    (m.get? (i, p.1, j, k)).map fun q => (p.2, Val.flt q)

/-- the cell at position `(i, j, k)` of the matrix, if any value is there -/
def matrixCell (m : Matrix) (i j k : Nat) : Except Err (Option Cell) :=
  let ix := m.index
  let ps := idToMonth (ix.expOrigin + (j : Int) * ix.expResolution)
  let pe := idToMonth (ix.expOrigin + ((j : Int) + 1) * ix.expResolution - 1) false
  let values := matrixValues m i j k
  if values.isEmpty then .ok none
  else if !m.incremental then
    (Cell.mk? { kind := .cumulative, ps := ps, pe := pe, ev := addMonths pe (matrixLag ix k),
                values := values, md := ix.slices[i]?.getD {} }).map some
  else
    (Cell.mk? { kind := .incremental, ps := ps, pe := pe, ev := addMonths pe (matrixLag ix k),
                prev := some (if k == 0 then ps.pred else addMonths pe (matrixLag ix (k - 1))),
                values := values, md := ix.slices[i]?.getD {} }).map some

/-- `matrix_to_triangle(mat)` -/
def fromMatrix (m : Matrix) : Except Err (List Cell) :=
  ((List.range m.index.slices.length).mapM fun i =>
    (List.range m.nPeriods).mapM fun j =>
      (List.range m.nDevs).mapM fun k => matrixCell m i j k).bind fun cells =>
  Triangle.ofCells ((cells.flatten.flatten).filterMap id)

end Bermuda.Frame
