/-
The in-memory data-frame entry points (property C14, second part): `Triangle.to_wide_data_frame` /
`to_long_data_frame` and `Triangle.from_wide_data_frame` / `from_long_data_frame` WITHOUT the CSV text
in between. The rows are those of the CSV path (`toWideRows` / `toLongRows`, Model/Frame.lean); what
differs is the TYPE of the date columns the writers produce and the readers' `_check_index_columns`:

* wide writer: `period_start`, `period_end` → `datetime64` (`pd.to_datetime`), `evaluation_date` →
  `PeriodIndex(...).to_timestamp()` = `datetime64`, `prev_evaluation_date` (incremental) → `PeriodIndex`
  = `period[D]`;
* long writer: `evaluation_date` → `PeriodIndex` = `period[D]` (no `.to_timestamp()`), `prev_evaluation_date`
  → `period[D]`;
* reader check: each of the three coordinate columns must be `datetime64`, or an object column of
  `datetime.date`s; `prev_evaluation_date`, when present, must be `datetime64`.
Core Lean only.
-/
import Bermuda.Model.Frame
namespace Bermuda.Frame
open Bermuda

inductive DateDtype where
  | datetime64        -- `datetime64[ns]`
  | period            -- `period[D]` (a `PeriodIndex`)
  | dates             -- object column holding `datetime.date`s
deriving DecidableEq, Repr, Inhabited

abbrev DateDtypes := List (String × DateDtype)

/-- the date columns of `triangle_to_wide_data_frame(tri)` -/
def wideFrameDtypes (t : List Cell) : DateDtypes :=
  [("period_start", .datetime64), ("period_end", .datetime64), ("evaluation_date", .datetime64)] ++
  (if firstIsIncremental t then [("prev_evaluation_date", DateDtype.period)] else [])

/-- the date columns of `triangle_to_long_data_frame(tri)` -/
def longFrameDtypes (t : List Cell) : DateDtypes :=
  [("period_start", .datetime64), ("period_end", .datetime64), ("evaluation_date", .period)] ++
  (if firstIsIncremental t then [("prev_evaluation_date", DateDtype.period)] else [])

/-- the date columns after a CSV round trip read with `parse_dates` (what `*_csv_to_triangle` hands on) -/
def csvDtypes (t : List Cell) : DateDtypes :=
  [("period_start", .datetime64), ("period_end", .datetime64), ("evaluation_date", .datetime64)] ++
  (if firstIsIncremental t then [("prev_evaluation_date", DateDtype.datetime64)] else [])

def coordColumnOk (dts : DateDtypes) (c : String) : Bool :=
  match dts.find? (·.1 == c) with
  | some (_, .datetime64) => true
  | some (_, .dates) => true          -- converted by `pd.to_datetime`
  | _ => false                        -- missing, or `period[D]`: `Exception`

/-- `_check_index_columns(df)` -/
def checkIndexColumns (dts : DateDtypes) : Except Err Unit :=
  if !(["period_start", "period_end", "evaluation_date"].all (coordColumnOk dts)) then .error .other
  else match dts.find? (·.1 == "prev_evaluation_date") with
    | some (_, .datetime64) => .ok ()
    | some _ => .error .other
    | none => .ok ()

/-- `Triangle.from_wide_data_frame(tri.to_wide_data_frame(), field_cols, detail_cols, loss_detail_cols)` -/
def wideFrameRoundTrip (t : List Cell) (fieldCols detailCols lossDetailCols : List String) :
    Except Err (List Cell) :=
  (toWideRows t).bind fun tb =>
  (checkIndexColumns (wideFrameDtypes t)).bind fun _ => fromWideRows tb fieldCols detailCols lossDetailCols

/-- `Triangle.from_long_data_frame(tri.to_long_data_frame(), loss_detail_cols)` -/
def longFrameRoundTrip (t : List Cell) (lossDetailCols : List String) : Except Err (List Cell) :=
  (toLongRows t).bind fun tb =>
  (checkIndexColumns (longFrameDtypes t)).bind fun _ => fromLongRows tb lossDetailCols

/-! ## the column lists `wide_data_frame_to_triangle` infers -/

/-- `list(set(df.columns) - CORE_SET - set(given))` (a Python set: the order is unspecified; here column
order — the reader's result does not depend on it: details are sorted, values keyed) -/
def inferCols (cols given : List String) : List String :=
  cols.filter fun c => !coreSet.contains c && !given.contains c

/-- `wide_data_frame_to_triangle(df, field_cols, detail_cols, loss_detail_cols)` with `None` for a list the
caller leaves out: at least one of the two must be given, given lists must be disjoint, the loss-detail
columns must be detail columns (each refusal an `Exception`) -/
def fromWideRowsInfer (tb : Table) (fieldCols detailCols : Option (List String)) (lossDetailCols : List String) :
    Except Err (List Cell) :=
  match fieldCols, detailCols with
  | none, none => .error .other
  | some f, some d =>
    if f.any d.contains then .error .other
    else if !(lossDetailCols.all d.contains) then .error .other
    else fromWideRows tb f d lossDetailCols
  | some f, none =>
    let d := inferCols tb.cols f
    if !(lossDetailCols.all d.contains) then .error .other else fromWideRows tb f d lossDetailCols
  | none, some d =>
    if !(lossDetailCols.all d.contains) then .error .other
    else fromWideRows tb (inferCols tb.cols d) d lossDetailCols


end Bermuda.Frame
