/-
Rich matrix form (property C14, second part): `bermuda/io/rich_matrix.py`
(`triangle_to_rich_matrix`, `rich_matrix_to_triangle`), the optional arguments of
`MatrixIndex.from_triangle` / `triangle_to_matrix` (`eval_resolution`, `fields`), and the rest of
`bermuda/io/array.py` (`statics_data_frame_to_triangle`, `triangle_to_right_edge_data_frame`,
`array_triangle_builder`, `parse_date`).

The object array of a rich matrix holds, per position (slice, field, period, development):
`None`, a Python number exactly as it was in the cell (kind kept: `int` stays `int`), a
`PredictedValue(ndarray)`, a `DisaggregatedValue(id, value)` / `DisaggregatedPredictedValue(id, ndarray)`
on the anti-diagonal of a cell whose period spans several index periods, or a `MissingValue(id)` where a
position is covered by some cell but a field has no value there.
Core Lean only.
-/
import Bermuda.Model.Frame
namespace Bermuda.Frame
open Bermuda

abbrev Pos := Nat × Nat × Nat × Nat

/-- one entry of the object array -/
inductive RVal where
  | plain (v : Val)
  | predicted (v : Val)
  | disagg (id : Nat) (v : Val)
  | disaggPred (id : Nat) (v : Val)
  | missing (id : Nat)
deriving DecidableEq, Repr, Inhabited

structure RichMatrix where
  index : MatrixIndex
  nPeriods : Nat
  nDevs : Nat
  /-- the assignments `data[pos] = x` in program order (`None` is assigned too); the last one to a
  position is what the array holds -/
  assigns : List (Pos × Option RVal)
  incremental : Bool
deriving Repr, Inhabited

/-- what the array holds at `pos` -/
def lastAssign (as : List (Pos × Option RVal)) (pos : Pos) : Option RVal :=
  (as.reverse.find? (·.1 == pos)).bind (·.2)

def RichMatrix.get? (m : RichMatrix) (pos : Pos) : Option RVal := lastAssign m.assigns pos

/-! ## `MatrixIndex.from_triangle(tri, eval_resolution, fields)` -/

/-- `if not fields: fields = tri.fields; if not fields: raise Exception` -/
def indexFields (t : List Cell) : Option (List String) → Except Err (List String)
  | some (f :: fs) => .ok (f :: fs)
  | _ => match sortStrings (allFields t) with
    | [] => .error .other
    | fs => .ok fs

/-- `if not eval_resolution: (if not dev_resolution: raise Exception) eval_resolution = dev_resolution`
(`None` and `0` are both falsy) -/
def indexDevResolution (inferred given : Option Int) : Except Err Int :=
  match given.filter (· != 0) with
  | some r => .ok r
  | none => match inferred.filter (· != 0) with
    | some d => .ok d
    | none => .error .other

/-- `MatrixIndex.from_triangle(tri, eval_resolution=evalRes, fields=fields)` -/
def MatrixIndex.ofTriangleWith (t : List Cell) (evalRes : Option Int) (fields : Option (List String)) :
    Except Err MatrixIndex :=
  match minInt (t.map fun c => monthToId c.ps), periodResolution t,
        minInt (t.map fun c => truncInt (c.devLag .month)) with
  | some expOrigin, some expRes, some devOrigin =>
    (indexFields t fields).bind fun fs =>
    (indexDevResolution (evalDateResolution t) evalRes).bind fun devRes =>
    .ok { slices := Triangle.metadata t, fields := fs, expOrigin := expOrigin,
          devOrigin := devOrigin, expResolution := expRes, devResolution := devRes }
  | none, _, _ => .error .valueError
  | some _, none, _ => .error .typeError
  | some _, some _, none => .error .valueError

/-! ## `triangle_to_rich_matrix` -/

/-- the local `value` of one field: (is it a `PredictedValue`?, the value / the wrapped array).
An array of size 1 becomes `float(raw_value)` -/
def richValue : Val → Bool × Val
  | .arr isInt shape data =>
    match data with
    | [q] => (false, .flt q)
    | _ => (true, .arr isInt shape data)
  | v => (false, v)

/-- a stored value (`None` stays `None`) -/
def richPlain (pv : Bool × Val) : Option RVal :=
  if pv.1 then some (.predicted pv.2) else
  match pv.2 with
  | .none => none
  | v => some (.plain v)

/-- one (cell, field) of the filling loop, after `resolve_indices` -/
structure RichItem where
  si : Nat
  fi : Nat
  s : Nat        -- exp_start_ndx
  e : Nat        -- exp_end_ndx
  d : Nat        -- dev_ndx
  pv : Bool × Val
deriving Repr, Inhabited

/-- `enumerate(range(exp_end_ndx, exp_start_ndx - 1, -1))` with `dev_ndx + i` -/
def antiDiag (s e d : Nat) : List (Nat × Nat) :=
  (List.range (e + 1 - s)).map fun i => (e - i, d + i)

/-- index resolution and the `is_covered[...] = True` marks of one field of one cell (`IndexError`
when a mark falls outside the array); `none` for a field that is not in `fields` -/
def richItem (ix : MatrixIndex) (fields : List String) (nP nD : Nat) (c : Cell) (kv : String × Val) :
    Except Err (Option RichItem) :=
  if !fields.contains kv.1 then .ok none else
  match indexOf? ix.slices c.md with
  | none => .error .keyError
  | some si =>
  match indexOf? ix.fields kv.1 with
  | none => .error .keyError
  | some fi =>
    (ix.expNdx c.ps).bind fun s =>
    (ix.devNdx (c.devLag .month)).bind fun d =>
    (ix.expNdx c.pe).bind fun e =>
    if (antiDiag s e d).any (fun p => decide (p.1 ≥ nP) || decide (p.2 ≥ nD)) then .error .indexError
    else .ok (some { si := si, fi := fi, s := s, e := e, d := d, pv := richValue kv.2 })

def cellItems (ix : MatrixIndex) (fields : List String) (nP nD : Nat) (c : Cell) :
    Except Err (List RichItem) :=
  (c.values.mapM (richItem ix fields nP nD c)).map fun os => os.filterMap id

/-- the assignments of one item; `id` is `next_disagg_id` before it -/
def itemAssigns (it : RichItem) (id : Nat) : List (Pos × Option RVal) :=
  if it.s == it.e then [((it.si, it.fi, it.s, it.d), richPlain it.pv)]
  else (antiDiag it.s it.e it.d).map fun p =>
    ((it.si, it.fi, p.1, p.2),
     some (if it.pv.1 then RVal.disaggPred id it.pv.2 else RVal.disagg id it.pv.2))

/-- all assignments of the filling loop, `next_disagg_id` threaded through -/
def itemsAssigns : List RichItem → Nat → List (Pos × Option RVal)
  | [], _ => []
  | it :: rest, id => itemAssigns it id ++ itemsAssigns rest (if it.s == it.e then id else id + 1)

def itemCovered (it : RichItem) : List (Nat × Nat × Nat) :=
  (antiDiag it.s it.e it.d).map fun p => (it.si, p.1, p.2)

/-- covered positions whose entry is still `None`, in the scan order slice, period, development,
field -/
def holes (nS nF nP nD : Nat) (covered : List (Nat × Nat × Nat)) (as : List (Pos × Option RVal)) : List Pos :=
  (List.range nS).flatMap fun i => (List.range nP).flatMap fun j => (List.range nD).flatMap fun k =>
    if covered.contains (i, j, k) then
      (List.range nF).filterMap fun f => if (lastAssign as (i, f, j, k)).isNone then some (i, f, j, k) else none
    else []

/-- `MissingValue(next_missing_id)` for every hole -/
def missingAssigns (hs : List Pos) : List (Pos × Option RVal) :=
  (List.zip hs (List.range hs.length)).map fun p => (p.1, some (RVal.missing p.2))

/-- the data part of `triangle_to_rich_matrix` for a given index and the local `fields` list -/
def toRichWith (ix : MatrixIndex) (fields : List String) (t : List Cell) : Except Err RichMatrix :=
  match fields with
  | [] => .error .indexError          -- `fields[0]`
  | f0 :: _ =>
  if !ix.fields.contains f0 then .error .keyError else
  (ix.expNdx (lastPeriodStart t)).bind fun maxP =>
  (ix.devNdx (maxLagOf t)).bind fun maxD =>
  (t.mapM (cellItems ix fields (maxP + 1) (maxD + 1))).bind fun items =>
  let as := itemsAssigns items.flatten 0
  let covered := items.flatten.flatMap itemCovered
  .ok { index := ix, nPeriods := maxP + 1, nDevs := maxD + 1,
        assigns := as ++ missingAssigns (holes ix.slices.length fields.length (maxP + 1) (maxD + 1) covered as),
        incremental := firstIsIncremental t }

/-- the local `fields` of `triangle_to_rich_matrix`: the argument when it is not `None` (an empty
list stays empty), else `tri.fields` -/
def localFields (t : List Cell) : Option (List String) → List String
  | some fs => fs
  | none => sortStrings (allFields t)

/-- `triangle_to_rich_matrix(tri, eval_resolution, fields)` -/
def toRich (t : List Cell) (evalRes : Option Int := none) (fields : Option (List String) := none) :
    Except Err RichMatrix :=
  if t.isEmpty then .error .valueError
  else if !isMonthly t then .error .valueError
  else (MatrixIndex.ofTriangleWith t evalRes fields).bind fun ix => toRichWith ix (localFields t fields) t

/-! ## `rich_matrix_to_triangle` -/

/-- what a stored entry contributes to a cell: plain numbers and the arrays of predicted values;
`None`, missing and disaggregated entries contribute nothing -/
def RVal.back? : Option RVal → Option Val
  | some (.plain v) => some v
  | some (.predicted v) => some v
  | _ => none

def richValues (m : RichMatrix) (i j k : Nat) : Dict Val :=
  (List.zip (List.range m.index.fields.length) m.index.fields).filterMap fun p =>
    (RVal.back? (m.get? (i, p.1, j, k))).map fun v => (p.2, v)

/-- the cell at position `(i, j, k)`, if any value is there (same dates as `matrix_to_triangle`) -/
def richCell (m : RichMatrix) (i j k : Nat) : Except Err (Option Cell) :=
  let ix := m.index
  let ps := idToMonth (ix.expOrigin + (j : Int) * ix.expResolution)
  let pe := idToMonth (ix.expOrigin + ((j : Int) + 1) * ix.expResolution - 1) false
  let values := richValues m i j k
  if values.isEmpty then .ok none
  else if !m.incremental then
    (Cell.mk? { kind := .cumulative, ps := ps, pe := pe, ev := addMonths pe (matrixLag ix k),
                values := values, md := ix.slices[i]?.getD {} }).map some
  else
    (Cell.mk? { kind := .incremental, ps := ps, pe := pe, ev := addMonths pe (matrixLag ix k),
                prev := some (if k == 0 then ps.pred else addMonths pe (matrixLag ix (k - 1))),
                values := values, md := ix.slices[i]?.getD {} }).map some

/-- `rich_matrix_to_triangle(mat)` -/
def fromRich (m : RichMatrix) : Except Err (List Cell) :=
  ((List.range m.index.slices.length).mapM fun i =>
    (List.range m.nPeriods).mapM fun j =>
      (List.range m.nDevs).mapM fun k => richCell m i j k).bind fun cells =>
  Triangle.ofCells ((cells.flatten.flatten).filterMap id)

/-- the final content of the array, position by position (row-major), for comparison with a dump -/
def RichMatrix.entries (m : RichMatrix) (nF : Nat) : List (Pos × RVal) :=
  (List.range m.index.slices.length).flatMap fun i => (List.range nF).flatMap fun f =>
    (List.range m.nPeriods).flatMap fun j => (List.range m.nDevs).filterMap fun k =>
      (m.get? (i, f, j, k)).map fun v => ((i, f, j, k), v)

/-! ## `triangle_to_matrix(tri, eval_resolution, fields)` with its optional arguments -/

/-- the cell loop of `triangle_to_matrix` restricted to `fields` (`if field in fields`) -/
def cellEntriesIn (ix : MatrixIndex) (fields : List String) (c : Cell) :
    Except Err (List ((Nat × Nat × Nat × Nat) × Rat)) :=
  if (c.values.filter fun kv => fields.contains kv.1).isEmpty then .ok []
  else cellEntries ix { c with values := c.values.filter fun kv => fields.contains kv.1 }

def toMatrixWithIn (ix : MatrixIndex) (fields : List String) (t : List Cell) : Except Err Matrix :=
  match fields with
  | [] => .error .indexError
  | f0 :: _ =>
  if !ix.fields.contains f0 then .error .keyError else
  (ix.expNdx (lastPeriodStart t)).bind fun maxP =>
  (ix.devNdx (maxLagOf t)).bind fun maxD =>
  (t.mapM (cellEntriesIn ix fields)).bind fun entries =>
  if entries.flatten.any (fun e => e.1.2.2.1 > maxP || e.1.2.2.2 > maxD) then .error .indexError
  else .ok { index := ix, nPeriods := maxP + 1, nDevs := maxD + 1, entries := entries.flatten,
             incremental := firstIsIncremental t }

/-- `if fields is None: (if not tri.fields: raise Exception) fields = tri.fields` -/
def matrixFields (t : List Cell) : Option (List String) → Except Err (List String)
  | some fs => .ok fs
  | none => match sortStrings (allFields t) with
    | [] => .error .other
    | fs => .ok fs

/-- `triangle_to_matrix(tri, eval_resolution, fields)`: here `fields is None` falls back to
`tri.fields` BEFORE the index is built (`Exception` when the triangle has none) -/
def toMatrixOpt (t : List Cell) (evalRes : Option Int) (fields : Option (List String)) : Except Err Matrix :=
  if t.isEmpty then .error .valueError
  else if !isMonthly t then .error .other
  else if !isSemiRegular t then .error .other
  else
    (matrixFields t fields).bind fun fs =>
    (MatrixIndex.ofTriangleWith t evalRes (some fs)).bind fun ix => toMatrixWithIn ix fs t

end Bermuda.Frame
