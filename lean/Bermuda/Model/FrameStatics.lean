/-
The rest of `bermuda/io/array.py` (property C14, second part): `parse_date`,
`statics_data_frame_to_triangle`, `triangle_to_right_edge_data_frame`, `array_triangle_builder`, and
`array_data_frame_to_triangle` with ALL its arguments (`eval_resolution`, `dev_lag_from_period_end`,
column names that are not integers).

pandas is the opaque layer: a frame is a list of rows; the period column arrives as the strings /
dates the caller wrote; a missing entry (NaN) is `Val.none`.
Core Lean only.
-/
import Bermuda.Model.Frame
import Bermuda.Model.Join
namespace Bermuda.Frame
open Bermuda

/-! ## `parse_date` on the documented spellings -/

/-- the number a run of ASCII digits spells -/
def digitsVal (cs : List Char) : Nat := cs.foldl (fun n c => n * 10 + (c.toNat - 48)) 0

def digits? (cs : List Char) : Option Nat :=
  if cs.isEmpty || !cs.all Char.isDigit then none else some (digitsVal cs)

def mkDate? (y m d : Nat) : Except Err Date :=
  let dt : Date := ⟨(y : Int), m, d⟩
  if 1 ≤ y && y ≤ 9999 && dt.valid then .ok dt else .error .valueError

/-- `parse_date` on the characters of the stripped text: `YYYY`, `YYYYQn`, `YYYYHn`, `YYYY-MM`,
`YYYY-MM-DD`; everything else the model refuses with `ValueError` (pandas accepts many more spellings —
those are outside the model and not generated) -/
def parseDateChars : List Char → Except Err Date
  | [a, b, c, d] =>
    match digits? [a, b, c, d] with
    | some y => mkDate? y 1 1
    | none => .error .valueError
  | [a, b, c, d, 'Q', q] =>
    match digits? [a, b, c, d], digits? [q] with
    | some y, some n => if 1 ≤ n && n ≤ 4 then mkDate? y ((n - 1) * 3 + 1) 1 else .error .valueError
    | _, _ => .error .valueError
  | [a, b, c, d, 'H', q] =>
    match digits? [a, b, c, d], digits? [q] with
    | some y, some n => if 1 ≤ n && n ≤ 2 then mkDate? y (if n == 1 then 1 else 7) 1 else .error .valueError
    | _, _ => .error .valueError
  | [a, b, c, d, '-', m1, m2] =>
    match digits? [a, b, c, d], digits? [m1, m2] with
    | some y, some m => mkDate? y m 1
    | _, _ => .error .valueError
  | [a, b, c, d, '-', m1, m2, '-', d1, d2] =>
    match digits? [a, b, c, d], digits? [m1, m2], digits? [d1, d2] with
    | some y, some m, some dd => mkDate? y m dd
    | _, _, _ => .error .valueError
  | _ => .error .valueError

/-- `parse_date(value)` for a string (surrounding blanks stripped) -/
def parseDate (s : String) : Except Err Date := parseDateChars s.trimAscii.toString.toList

/-- a period entry as the caller wrote it -/
inductive PeriodEntry where
  | date (d : Date)
  | text (s : String)
deriving Repr, Inhabited

def PeriodEntry.parse : PeriodEntry → Except Err Date
  | .date d => .ok d
  | .text s => parseDate s

/-! ## `statics_data_frame_to_triangle` -/

structure StaticsRow where
  period : PeriodEntry
  entries : Dict Val
deriving Repr, Inhabited

/-- the period resolution: given, or `(p₁ - p₀).days // 30` from the first two rows (so 28 or 29
days — monthly periods starting in February — give 0) -/
def staticsResolution (periods : List Date) : Option Int → Except Err Int
  | some r => .ok r
  | none => match periods with
    | p0 :: p1 :: _ => .ok ((p1.ordinal - p0.ordinal) / 30)
    | _ => .error .valueError

def maxDate : List Date → Option Date
  | [] => none
  | d :: ds => some (ds.foldl (fun m x => if Date.cmp m x == .lt then x else m) d)

/-- the evaluation date: given, or the end of the latest period -/
def staticsEvaluation (periods : List Date) (res : Int) : Option Date → Except Err Date
  | some e => .ok e
  | none => match maxDate periods with
    | some p => .ok (addMonths p res).pred
    | none => .error .other        -- `NaN.year`: AttributeError

def staticsCell (md : Metadata) (res : Int) (ev : Date) (p : Date × Dict Val) : Except Err Cell :=
  Cell.mk? { kind := .cumulative, ps := p.1, pe := (addMonths p.1 res).pred, ev := ev, values := p.2, md := md }

/-- `statics_data_frame_to_triangle(df, evaluation_date, period_resolution, metadata)` -/
def fromStatics (rows : List StaticsRow) (evaluation : Option Date) (periodResolution : Option Int)
    (md : Metadata) : Except Err (List Cell) :=
  (rows.mapM fun (r : StaticsRow) => r.period.parse).bind fun periods =>
  (staticsResolution periods periodResolution).bind fun res =>
  (staticsEvaluation periods res evaluation).bind fun ev =>
  ((periods.zip (rows.map (·.entries))).mapM (staticsCell md res ev)).bind Triangle.ofCells

/-! ## `triangle_to_right_edge_data_frame` -/

structure EdgeRow where
  period : Date
  evaluation : Date
  entries : Dict Val
deriving Repr, Inhabited, DecidableEq

def edgeRow (c : Cell) : EdgeRow := { period := c.ps, evaluation := c.ev, entries := c.values }

/-- `triangle_to_right_edge_data_frame(triangle)`: one row per cell of `triangle.right_edge` -/
def toRightEdgeFrame (t : List Cell) : Except Err (List EdgeRow) :=
  if (metasOf t).length > 1 then .error .valueError
  else if firstIsIncremental t then .error .valueError
  else (Triangle.rightEdge t).map fun cells => cells.map edgeRow

/-! ## `array_data_frame_to_triangle` with all its arguments -/

/-- a triangular array frame: the development columns `df.columns[1:]` and per row the period entry
and the values under these columns (`Val.none` = NaN) -/
structure ArrayFrame where
  cols : List String
  rows : List (PeriodEntry × List Val)
deriving Repr, Inhabited

/-- Python `int(x)` of a column label (optional sign, digits, surrounding blanks) -/
def pyInt? (s : String) : Option Int := s.trimAscii.toString.toInt?

/-- the local `eval_resolution` after the inference step: given, or — when some column label is not
an integer — the period resolution (with a warning); `none` = read the lag from the label -/
def effectiveEvalResolution (cols : List String) (res : Int) : Option Int → Option Int
  | some e => some e
  | none => if cols.all fun c => (pyInt? c).isSome then none else some res

/-- the `current_lag` of every column -/
def columnLags (cols : List String) (evalRes : Option Int) : List Int :=
  match evalRes with
  | none => cols.map fun c => (pyInt? c).getD 0
  | some e => (List.range cols.length).map fun (i : Nat) => (i : Int) * e

def arrayCell (field : String) (md : Metadata) (fromEnd : Bool) (evalRes : Option Int) (ps pe : Date)
    (lv : Int × Val) : Option Cell :=
  match lv.2 with
  | .none => none
  | v => some { kind := .cumulative, ps := ps, pe := pe,
                ev := if fromEnd || evalRes.isSome then addMonths pe lv.1 else (addMonths ps lv.1).pred,
                values := [(field, v)], md := md }

def arrayRowCells (field : String) (md : Metadata) (fromEnd : Bool) (evalRes : Option Int) (res : Int)
    (lags : List Int) (r : Date × List Val) : Except Err (List Cell) :=
  ((lags.zip r.2).filterMap (arrayCell field md fromEnd evalRes r.1 (addMonths r.1 res).pred)).mapM Cell.mk?

/-- the period resolution: given, or `int(round(calculate_dev_lag(p₀, p₁)))` -/
def arrayResolution (periods : List Date) : Option Int → Except Err Int
  | some r => .ok r
  | none => match periods with
    | p0 :: p1 :: _ => .ok (roundHalfEven (devLagMonths p0 p1))
    | _ => .error .valueError

/-- `array_data_frame_to_triangle(df, field, period_resolution, eval_resolution,
dev_lag_from_period_end, metadata)` -/
def fromArrayFrameFull (fr : ArrayFrame) (field : String) (periodResolution evalResolution : Option Int)
    (fromEnd : Bool) (md : Metadata) : Except Err (List Cell) :=
  (fr.rows.mapM fun (r : PeriodEntry × List Val) => r.1.parse).bind fun periods =>
  (arrayResolution periods periodResolution).bind fun res =>
  let evalRes := effectiveEvalResolution fr.cols res evalResolution
  ((periods.zip (fr.rows.map fun (r : PeriodEntry × List Val) => r.2)).mapM
    (arrayRowCells field md fromEnd evalRes res (columnLags fr.cols evalRes))).bind fun cells =>
  Triangle.ofCells cells.flatten

/-! ## `array_triangle_builder` -/

/-- `array_triangle_builder(dfs, fields, **kwargs)`: the first frame read, every further one read and
`merge`d (full join, the right operand's values win) onto the result -/
def arrayTriangleBuilder (frames : List ArrayFrame) (fields : List String)
    (periodResolution evalResolution : Option Int) (fromEnd : Bool) (md : Metadata) : Except Err (List Cell) :=
  if frames.length != fields.length then .error .valueError else
  match frames.zip fields with
  | [] => .error .indexError                      -- `dfs[0]`
  | (f0, n0) :: rest =>
    (fromArrayFrameFull f0 n0 periodResolution evalResolution fromEnd md).bind fun t0 =>
    rest.foldlM (fun acc p =>
      (fromArrayFrameFull p.1 p.2 periodResolution evalResolution fromEnd md).bind fun t =>
        merge (some .full) none acc t) t0

end Bermuda.Frame
