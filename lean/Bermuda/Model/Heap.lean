/-
A small heap with Python's reference semantics, for property C03 ("no operation mutates its
arguments"). A pure functional model satisfies C03 vacuously, so this one is not pure: objects live
at locations, `x += v` writes IN PLACE when `x` is an array location and REBINDS when `x` is an
immutable scalar, dict displays / comprehensions / `copy.deepcopy` ALLOCATE, `d[k] = v`,
`d.update`, `a[i] = v`, `a += b` WRITE.

On this heap the accumulating helpers of the property's mechanism list are modelled statement by
statement, each parameterised by its ACCUMULATOR PATTERN — how every write target of the function
is initialised — which `harness/translate_c03.py` regenerates from the AST
(`Generated/Accum.lean`). Core Lean only.
-/
import Bermuda.Model.Basic
namespace Bermuda.Heap
open Bermuda

abbrev Loc := Nat

/-- a Python value as seen by a variable: an immutable scalar (`None`, int, float) or a reference
to a heap object -/
inductive Ref where
  | none
  | scalar (q : Rat)
  | loc (l : Loc)
deriving DecidableEq, Repr, Inhabited

inductive Obj where
  | arr (data : List Rat)
  | dict (entries : List (String × Ref))
  | scalar
deriving DecidableEq, Repr, Inhabited

/-- finite map `Loc → Obj`: location = index; allocation appends, so a location allocated later
is larger than every location that existed before -/
structure Heap where
  objs : List Obj := []
deriving DecidableEq, Repr, Inhabited

def Heap.size (h : Heap) : Nat := h.objs.length
def Heap.get (h : Heap) (l : Loc) : Option Obj := h.objs[l]?
/-- write: replace the object at an existing location -/
def Heap.set (h : Heap) (l : Loc) (o : Obj) : Heap := ⟨h.objs.set l o⟩
/-- fresh allocation -/
def Heap.alloc (h : Heap) (o : Obj) : Heap × Loc := (⟨h.objs ++ [o]⟩, h.objs.length)

/-! ## accumulator patterns (regenerated from the AST) -/

/-- how a write target is initialised inside the function -/
inductive Init where
  | literal    -- `total = 0`
  | fresh      -- `{..}`, `[..]`, comprehension, `dict(..)`, `defaultdict(..)`
  | copy       -- `copy.deepcopy(..)`, `.copy()`
  | computed   -- result of an arithmetic expression / call: a new object
  | element    -- element of a local container
  | param      -- an expression reaching a parameter: `values[0]`, `cell.values`, a loop variable over a parameter
  | unknown
deriving DecidableEq, Repr, Inhabited

def Init.isFresh : Init → Bool
  | .param | .unknown | .element => false
  | _ => true

structure Target where
  name : String
  /-- `aug` (x += e), `elemAug` (x[k] += e), `store` (x[k] = e), `method:<m>` (x.update(..) …) -/
  kind : String
  inits : List Init
deriving DecidableEq, Repr, Inhabited

structure Pattern where
  fn : String
  targets : List Target
deriving DecidableEq, Repr, Inhabited

/-- every write target of the function is initialised, and only by literals, fresh containers,
copies or computed values — never by an expression reaching a parameter -/
def Pattern.targetsFresh (p : Pattern) : Bool :=
  p.targets.all fun t => !t.inits.isEmpty && t.inits.all Init.isFresh

/-- the initialisers of the target called `name` (all of them must be fresh for the accumulator to
be fresh) -/
def Pattern.initOf (p : Pattern) (name : String) : Init :=
  match p.targets.find? (·.name == name) with
  | some t => if !t.inits.isEmpty && t.inits.all Init.isFresh then t.inits.headD .unknown else .param
  | none => .literal

/-! ## Python statements on the heap -/

inductive Err where
  | valueError | typeError | keyError | triangleError | zeroDivision
deriving DecidableEq, Repr, Inhabited

def Err.name : Err → String
  | .valueError => "ValueError" | .typeError => "TypeError" | .keyError => "KeyError"
  | .triangleError => "TriangleError" | .zeroDivision => "ZeroDivisionError"

def zipWith? (f : Rat → Rat → Rat) (a b : List Rat) : Except Err (List Rat) :=
  if a.length == b.length then .ok (List.zipWith f a b) else .error .valueError

/-- `x = a ⊕ b` for numbers / arrays: a NEW object (numpy binary operators allocate) -/
def binop (f : Rat → Rat → Rat) (h : Heap) (a b : Ref) : Except Err (Heap × Ref) :=
  match a, b with
  | .scalar x, .scalar y => .ok (h, .scalar (f x y))
  | .scalar x, .loc lb => match h.get lb with
    | some (.arr d) => let (h', l) := h.alloc (.arr (d.map (f x ·))); .ok (h', .loc l)
    | _ => .error .typeError
  | .loc la, .scalar y => match h.get la with
    | some (.arr d) => let (h', l) := h.alloc (.arr (d.map (f · y))); .ok (h', .loc l)
    | _ => .error .typeError
  | .loc la, .loc lb => match h.get la, h.get lb with
    | some (.arr da), some (.arr db) => do
      let d ← zipWith? f da db
      let (h', l) := h.alloc (.arr d)
      .ok (h', .loc l)
    | _, _ => .error .typeError
  | _, _ => .error .typeError

/-- `x += v` as Python really does it: `x = x.__iadd__(v)`. An array location is updated IN
PLACE and `x` keeps pointing to it; an immutable scalar has no `__iadd__`, so `x = x + v` binds
`x` to a new value (a new array when `v` is an array). -/
def iadd (h : Heap) (x v : Ref) : Except Err (Heap × Ref) :=
  match x with
  | .loc lx => match h.get lx with
    | some (.arr dx) => match v with
      | .scalar y => .ok (h.set lx (.arr (dx.map (· + y))), .loc lx)
      | .loc lv => match h.get lv with
        | some (.arr dv) => do
          let d ← zipWith? (· + ·) dx dv
          .ok (h.set lx (.arr d), .loc lx)
        | _ => .error .typeError
      | .none => .error .typeError
    | _ => .error .typeError
  | .scalar _ => binop (· + ·) h x v
  | .none => .error .typeError

/-- `copy.deepcopy(r)` of a number or an array -/
def deepcopyVal (h : Heap) (r : Ref) : Heap × Ref :=
  match r with
  | .loc l => match h.get l with
    | some o => let (h', l') := h.alloc o; (h', .loc l')
    | none => (h, r)
  | _ => (h, r)

/-- the accumulator right after its initialising statement, according to the pattern:
`total = 0` / `total = copy(values[0])` / `total = values[0]` -/
def initAccumulator (i : Init) (h : Heap) (values : List Ref) : Heap × Ref :=
  match i with
  | .literal => (h, .scalar 0)
  | .fresh | .copy | .computed => deepcopyVal h (values.headD (.scalar 0))
  | .param | .unknown | .element => (h, values.headD (.scalar 0))

def shapeOf (h : Heap) : Ref → Option Nat
  | .loc l => match h.get l with
    | some (.arr d) => some d.length
    | _ => none
  | _ => none

/-- the shape check of `_conforming_sum`: both arrays ⇒ shapes must agree -/
def shapesConform (h : Heap) (total v : Ref) : Bool :=
  match shapeOf h total, shapeOf h v with
  | some a, some b => a == b
  | _, _ => true

/-- what a call leaves behind: the heap at the moment it returned OR raised, and its result -/
abbrev Res := Heap × Except Err Ref

/-- the loop of `_conforming_sum`:
```
for val in values:
    if val is None: continue
    if <both arrays and shapes differ>: raise ValueError
    total += val
```-/
def sumLoop (h : Heap) (total : Ref) : List Ref → Res
  | [] => (h, .ok total)
  | .none :: vs => sumLoop h total vs
  | v :: vs =>
    if !shapesConform h total v then (h, .error .valueError)
    else match iadd h total v with
      | .ok (h', t') => sumLoop h' t' vs
      | .error e => (h, .error e)

/-- `_conforming_sum(values)` under accumulator pattern `p` -/
def conformingSum (p : Pattern) (h : Heap) (values : List Ref) : Res :=
  let (h0, t0) := initAccumulator (p.initOf "total") h values
  sumLoop h0 t0 values

/-- the loop of `_conforming_weighted_average`: `total += val * weight` (the product is a new object) -/
def wavgLoop (h : Heap) (total : Ref) : List (Ref × Rat) → Res
  | [] => (h, .ok total)
  | (.none, _) :: vs => wavgLoop h total vs
  | (v, w) :: vs =>
    if !shapesConform h total v then (h, .error .valueError)
    else match binop (· * ·) h v (.scalar w) with
      | .error e => (h, .error e)
      | .ok (h1, prod) => match iadd h1 total prod with
        | .ok (h2, t') => wavgLoop h2 t' vs
        | .error e => (h1, .error e)

/-- `_conforming_weighted_average(values, weights)` (identity `post_transform`):
`total / sum(weights)` is a new object; a zero weight sum raises for scalars -/
def conformingWeightedAverage (p : Pattern) (h : Heap) (values : List Ref) (weights : List Rat) : Res :=
  let (h0, t0) := initAccumulator (p.initOf "total") h values
  match wavgLoop h0 t0 (values.zip weights) with
  | (h1, .error e) => (h1, .error e)
  | (h1, .ok t) =>
    let s := weights.foldl (· + ·) 0
    if s == 0 then (h1, .error .zeroDivision)
    else match binop (· / ·) h1 t (.scalar s) with
      | .ok (h2, r) => (h2, .ok r)
      | .error e => (h1, .error e)

/-! ### dict-building helpers (no accumulator in today's source) -/

def dictGet (es : List (String × Ref)) (k : String) : Option Ref := (es.find? (·.1 == k)).map (·.2)

def dictSet (es : List (String × Ref)) (k : String) (v : Ref) : List (String × Ref) :=
  if es.any (·.1 == k) then es.map (fun p => if p.1 == k then (k, v) else p) else es ++ [(k, v)]

/-- `{**a, **b}` on entry lists -/
def dictUnion (a b : List (String × Ref)) : List (String × Ref) :=
  b.foldl (fun acc p => dictSet acc p.1 p.2) a

def sameKeys (a b : List (String × Ref)) : Bool :=
  a.all (fun p => b.any (·.1 == p.1)) && b.all (fun p => a.any (·.1 == p.1))

/-- the comprehension `{k: (nxt[k] if k == "earned_premium" else cur[k] ⊕ nxt[k]) for k in keys}`:
premium entries ALIAS the argument's object, the others are new objects. Returns the heap reached
and the entries built, or the error raised. -/
def combineEntries (f : Rat → Rat → Rat) (h : Heap) (cur nxt : List (String × Ref)) :
    List (String × Ref) → Heap × Except Err (List (String × Ref))
  | [] => (h, .ok [])
  | (k, _) :: rest =>
    match dictGet cur k, dictGet nxt k with
    | some a, some b =>
      if k == "earned_premium" then
        match combineEntries f h cur nxt rest with
        | (h', .ok es) => (h', .ok ((k, b) :: es))
        | (h', .error e) => (h', .error e)
      else match binop f h a b with
        | .error e => (h, .error e)
        | .ok (h1, r) => match combineEntries f h1 cur nxt rest with
          | (h', .ok es) => (h', .ok ((k, r) :: es))
          | (h', .error e) => (h', .error e)
    | _, _ => (h, .error .keyError)

/-- `_values_add` (f = +, cur ⊕ nxt) / `_values_diff` (f = fun p n => n − p) on two dict locations.
With a pattern that has a non-fresh write target (the source was changed to write through a
parameter) the model performs that write: the FIRST argument's dict is updated in place. -/
def valuesCombine (p : Pattern) (f : Rat → Rat → Rat) (h : Heap) (a b : Loc) : Res :=
  match h.get a, h.get b with
  | some (.dict ea), some (.dict eb) =>
    if !sameKeys ea eb then (h, .error .triangleError)
    else match combineEntries f h ea eb ea with
      | (h1, .error e) => (h1, .error e)
      | (h1, .ok es) =>
        if p.targetsFresh then
          let (h2, l) := h1.alloc (.dict es)
          (h2, .ok (.loc l))
        else (h1.set a (.dict es), .ok (.loc a))
  | _, _ => (h, .error .typeError)

def valuesAdd (p : Pattern) := valuesCombine p (· + ·)
def valuesDiff (p : Pattern) := valuesCombine p (fun prev next => next - prev)

/-- `_merge_cell_pair(cell1, cell2)` on the cells' values dicts: `None` ⇒ the other cell itself;
otherwise `cell1.replace(values={**cell1.values, **cell2.values})` — a NEW dict whose entries alias
the arguments' objects. Non-fresh pattern: `cell1.values.update(cell2.values)`. -/
def mergeCellPair (p : Pattern) (h : Heap) (a b : Ref) : Res :=
  match a, b with
  | .none, _ => (h, .ok b)
  | _, .none => (h, .ok a)
  | .loc la, .loc lb => match h.get la, h.get lb with
    | some (.dict ea), some (.dict eb) =>
      if p.targetsFresh then
        let (h1, l) := h.alloc (.dict (dictUnion ea eb))
        (h1, .ok (.loc l))
      else (h.set la (.dict (dictUnion ea eb)), .ok (.loc la))
    | _, _ => (h, .error .typeError)
  | _, _ => (h, .error .typeError)

/-! ## the frame -/

/-- every location that existed at entry (`< n`) still holds the same object; in particular every
location reachable from the arguments -/
def Preserves (n : Nat) (h h' : Heap) : Prop :=
  n ≤ h'.size ∧ ∀ l, l < n → h'.get l = h.get l

/-- executable version, for the driver -/
def preservesB (h h' : Heap) : Bool :=
  decide (h.size ≤ h'.size) && (List.range h.size).all fun l => h'.get l == h.get l

/-- locations reachable from a reference (bounded depth: dicts of arrays) -/
def reach (h : Heap) : Ref → List Loc
  | .loc l => l :: (match h.get l with
    | some (.dict es) => es.filterMap fun e => match e.2 with | .loc l' => some l' | _ => none
    | _ => [])
  | _ => []

end Bermuda.Heap
