/-
A small heap with Python's reference semantics, for property C03 ("no operation mutates its
arguments"). A pure functional model satisfies C03 vacuously, so this one is not pure: objects live
at locations, `x += v` writes IN PLACE when `x` is an array location and REBINDS when `x` is an
immutable scalar, dict displays / comprehensions / `copy.deepcopy` ALLOCATE, `d[k] = v`,
`d.update`, `a[i] = v`, `a += b` WRITE.

On this heap the accumulating helpers of the property's mechanism list are modelled statement by
statement, each parameterised by its ACCUMULATOR PATTERN — how every write target of the function
is initialised — which `harness/translate_c03.py` regenerates from the AST
(`Generated/Accum.lean`). Core Lean only.
-/
import Bermuda.Model.Basic
namespace Bermuda.Heap
open Bermuda

abbrev Loc := Nat

/-- a Python value as seen by a variable: an immutable scalar (`None`, int, float) or a reference
to a heap object -/
inductive Ref where
  | none
  | scalar (q : Rat)
  | loc (l : Loc)
deriving DecidableEq, Repr, Inhabited

inductive Obj where
  | arr (data : List Rat)
  | dict (entries : List (String × Ref))
  | scalar
deriving DecidableEq, Repr, Inhabited

/-- finite map `Loc → Obj`: location = index; allocation appends, so a location allocated later
is larger than every location that existed before -/
structure Heap where
  objs : List Obj := []
deriving DecidableEq, Repr, Inhabited

def Heap.size (h : Heap) : Nat := h.objs.length
def Heap.get (h : Heap) (l : Loc) : Option Obj := h.objs[l]?
/-- write: replace the object at an existing location -/
def Heap.set (h : Heap) (l : Loc) (o : Obj) : Heap := ⟨h.objs.set l o⟩
/-- fresh allocation -/
def Heap.alloc (h : Heap) (o : Obj) : Heap × Loc := (⟨h.objs ++ [o]⟩, h.objs.length)

/-! ## accumulator patterns (regenerated from the AST) -/

/-- how a write target is initialised inside the function -/
inductive Init where
  | literal    -- `total = 0`
  | fresh      -- `{..}`, `[..]`, comprehension, `dict(..)`, `defaultdict(..)`
  | copy       -- `copy.deepcopy(..)`, `.copy()`
  | computed   -- result of an arithmetic expression / call: a new object
  | element    -- element of a local container
  | param      -- an expression reaching a parameter: `values[0]`, `cell.values`, a loop variable over a parameter
  | unknown
deriving DecidableEq, Repr, Inhabited

def Init.isFresh : Init → Bool
  | .param | .unknown | .element => false
  | _ => true

structure Target where
  name : String
  /-- `aug` (x += e), `elemAug` (x[k] += e), `store` (x[k] = e), `method:<m>` (x.update(..) …) -/
  kind : String
  inits : List Init
deriving DecidableEq, Repr, Inhabited

structure Pattern where
  fn : String
  targets : List Target
deriving DecidableEq, Repr, Inhabited

/-- every write target of the function is initialised, and only by literals, fresh containers,
copies or computed values — never by an expression reaching a parameter -/
def Pattern.targetsFresh (p : Pattern) : Bool :=
  p.targets.all fun t => !t.inits.isEmpty && t.inits.all Init.isFresh

/-- the initialisers of the target called `name` (all of them must be fresh for the accumulator to
be fresh) -/
def Pattern.initOf (p : Pattern) (name : String) : Init :=
  match p.targets.find? (·.name == name) with
  | some t => if !t.inits.isEmpty && t.inits.all Init.isFresh then t.inits.headD .unknown else .param
  | none => .literal

/-! ## Python statements on the heap -/

inductive Err where
  | valueError | typeError | keyError | triangleError | zeroDivision
deriving DecidableEq, Repr, Inhabited

def Err.name : Err → String
  | .valueError => "ValueError" | .typeError => "TypeError" | .keyError => "KeyError"
  | .triangleError => "TriangleError" | .zeroDivision => "ZeroDivisionError"

def zipWith? (f : Rat → Rat → Rat) (a b : List Rat) : Except Err (List Rat) :=
  if a.length == b.length then .ok (List.zipWith f a b) else .error .valueError

/-- `x = a ⊕ b` for numbers / arrays: a NEW object (numpy binary operators allocate) -/
def binop (f : Rat → Rat → Rat) (h : Heap) (a b : Ref) : Except Err (Heap × Ref) :=
  match a, b with
  | .scalar x, .scalar y => .ok (h, .scalar (f x y))
  | .scalar x, .loc lb => match h.get lb with
    | some (.arr d) => let (h', l) := h.alloc (.arr (d.map (f x ·))); .ok (h', .loc l)
    | _ => .error .typeError
  | .loc la, .scalar y => match h.get la with
    | some (.arr d) => let (h', l) := h.alloc (.arr (d.map (f · y))); .ok (h', .loc l)
    | _ => .error .typeError
  | .loc la, .loc lb => match h.get la, h.get lb with
    | some (.arr da), some (.arr db) => do
      let d ← zipWith? f da db
      let (h', l) := h.alloc (.arr d)
      .ok (h', .loc l)
    | _, _ => .error .typeError
  | _, _ => .error .typeError

/-- `x += v` as Python really does it: `x = x.__iadd__(v)`. An array location is updated IN
PLACE and `x` keeps pointing to it; an immutable scalar has no `__iadd__`, so `x = x + v` binds
`x` to a new value (a new array when `v` is an array). -/
def iadd (h : Heap) (x v : Ref) : Except Err (Heap × Ref) :=
  match x with
  | .loc lx => match h.get lx with
    | some (.arr dx) => match v with
      | .scalar y => .ok (h.set lx (.arr (dx.map (· + y))), .loc lx)
      | .loc lv => match h.get lv with
        | some (.arr dv) => do
          let d ← zipWith? (· + ·) dx dv
          .ok (h.set lx (.arr d), .loc lx)
        | _ => .error .typeError
      | .none => .error .typeError
    | _ => .error .typeError
  | .scalar _ => binop (· + ·) h x v
  | .none => .error .typeError

/-- `copy.deepcopy(r)` of a number or an array -/
def deepcopyVal (h : Heap) (r : Ref) : Heap × Ref :=
  match r with
  | .loc l => match h.get l with
    | some o => let (h', l') := h.alloc o; (h', .loc l')
    | none => (h, r)
  | _ => (h, r)

/-- the accumulator right after its initialising statement, according to the pattern:
`total = 0` / `total = copy(values[0])` / `total = values[0]` -/
def initAccumulator (i : Init) (h : Heap) (values : List Ref) : Heap × Ref :=
  match i with
  | .literal => (h, .scalar 0)
  | .fresh | .copy | .computed => deepcopyVal h (values.headD (.scalar 0))
  | .param | .unknown | .element => (h, values.headD (.scalar 0))

def shapeOf (h : Heap) : Ref → Option Nat
  | .loc l => match h.get l with
    | some (.arr d) => some d.length
    | _ => none
  | _ => none

/-- the shape check of `_conforming_sum`: both arrays ⇒ shapes must agree -/
def shapesConform (h : Heap) (total v : Ref) : Bool :=
  match shapeOf h total, shapeOf h v with
  | some a, some b => a == b
  | _, _ => true

/-- what a call leaves behind: the heap at the moment it returned OR raised, and its result -/
abbrev Res := Heap × Except Err Ref

/-- the loop of `_conforming_sum`:
```
for val in values:
    if val is None: continue
    if <both arrays and shapes differ>: raise ValueError
    total += val
```-/
def sumLoop (h : Heap) (total : Ref) : List Ref → Res
  | [] => (h, .ok total)
  | .none :: vs => sumLoop h total vs
  | v :: vs =>
    if !shapesConform h total v then (h, .error .valueError)
    else match iadd h total v with
      | .ok (h', t') => sumLoop h' t' vs
      | .error e => (h, .error e)

/-- `_conforming_sum(values)` under accumulator pattern `p` -/
def conformingSum (p : Pattern) (h : Heap) (values : List Ref) : Res :=
  let (h0, t0) := initAccumulator (p.initOf "total") h values
  sumLoop h0 t0 values

/-- the loop of `_conforming_weighted_average`: `total += val * weight` (the product is a new object) -/
def wavgLoop (h : Heap) (total : Ref) : List (Ref × Rat) → Res
  | [] => (h, .ok total)
  | (.none, _) :: vs => wavgLoop h total vs
  | (v, w) :: vs =>
    if !shapesConform h total v then (h, .error .valueError)
    else match binop (· * ·) h v (.scalar w) with
      | .error e => (h, .error e)
      | .ok (h1, prod) => match iadd h1 total prod with
        | .ok (h2, t') => wavgLoop h2 t' vs
        | .error e => (h1, .error e)

/-- `_conforming_weighted_average(values, weights)` (identity `post_transform`):
`total / sum(weights)` is a new object; a zero weight sum raises for scalars -/
def conformingWeightedAverage (p : Pattern) (h : Heap) (values : List Ref) (weights : List Rat) : Res :=
  let (h0, t0) := initAccumulator (p.initOf "total") h values
  match wavgLoop h0 t0 (values.zip weights) with
  | (h1, .error e) => (h1, .error e)
  | (h1, .ok t) =>
    let s := weights.foldl (· + ·) 0
    if s == 0 then (h1, .error .zeroDivision)
    else match binop (· / ·) h1 t (.scalar s) with
      | .ok (h2, r) => (h2, .ok r)
      | .error e => (h1, .error e)

/-! ### dict-building helpers (no accumulator in today's source) -/

def dictGet (es : List (String × Ref)) (k : String) : Option Ref := (es.find? (·.1 == k)).map (·.2)

def dictSet (es : List (String × Ref)) (k : String) (v : Ref) : List (String × Ref) :=
  if es.any (·.1 == k) then es.map (fun p => if p.1 == k then (k, v) else p) else es ++ [(k, v)]

/-- `{**a, **b}` on entry lists -/
def dictUnion (a b : List (String × Ref)) : List (String × Ref) :=
  b.foldl (fun acc p => dictSet acc p.1 p.2) a

def sameKeys (a b : List (String × Ref)) : Bool :=
  a.all (fun p => b.any (·.1 == p.1)) && b.all (fun p => a.any (·.1 == p.1))

/-- the comprehension `{k: (nxt[k] if k == "earned_premium" else cur[k] ⊕ nxt[k]) for k in keys}`:
premium entries ALIAS the argument's object, the others are new objects. Returns the heap reached
and the entries built, or the error raised. -/
def combineEntries (f : Rat → Rat → Rat) (h : Heap) (cur nxt : List (String × Ref)) :
    List (String × Ref) → Heap × Except Err (List (String × Ref))
  | [] => (h, .ok [])
  | (k, _) :: rest =>
    match dictGet cur k, dictGet nxt k with
    | some a, some b =>
      if k == "earned_premium" then
        match combineEntries f h cur nxt rest with
        | (h', .ok es) => (h', .ok ((k, b) :: es))
        | (h', .error e) => (h', .error e)
      else match binop f h a b with
        | .error e => (h, .error e)
        | .ok (h1, r) => match combineEntries f h1 cur nxt rest with
          | (h', .ok es) => (h', .ok ((k, r) :: es))
          | (h', .error e) => (h', .error e)
    | _, _ => (h, .error .keyError)

/-- `_values_add` (f = +, cur ⊕ nxt) / `_values_diff` (f = fun p n => n − p) on two dict locations.
With a pattern that has a non-fresh write target (the source was changed to write through a
parameter) the model performs that write: the FIRST argument's dict is updated in place. -/
def valuesCombine (p : Pattern) (f : Rat → Rat → Rat) (h : Heap) (a b : Loc) : Res :=
  match h.get a, h.get b with
  | some (.dict ea), some (.dict eb) =>
    if !sameKeys ea eb then (h, .error .triangleError)
    else match combineEntries f h ea eb ea with
      | (h1, .error e) => (h1, .error e)
      | (h1, .ok es) =>
        if p.targetsFresh then
          let (h2, l) := h1.alloc (.dict es)
          (h2, .ok (.loc l))
        else (h1.set a (.dict es), .ok (.loc a))
  | _, _ => (h, .error .typeError)

def valuesAdd (p : Pattern) := valuesCombine p (· + ·)
def valuesDiff (p : Pattern) := valuesCombine p (fun prev next => next - prev)

/-- `_merge_cell_pair(cell1, cell2)` on the cells' values dicts: `None` ⇒ the other cell itself;
otherwise `cell1.replace(values={**cell1.values, **cell2.values})` — a NEW dict whose entries alias
the arguments' objects. Non-fresh pattern: `cell1.values.update(cell2.values)`. -/
def mergeCellPair (p : Pattern) (h : Heap) (a b : Ref) : Res :=
  match a, b with
  | .none, _ => (h, .ok b)
  | _, .none => (h, .ok a)
  | .loc la, .loc lb => match h.get la, h.get lb with
    | some (.dict ea), some (.dict eb) =>
      if p.targetsFresh then
        let (h1, l) := h.alloc (.dict (dictUnion ea eb))
        (h1, .ok (.loc l))
      else (h.set la (.dict (dictUnion ea eb)), .ok (.loc la))
    | _, _ => (h, .error .typeError)
  | _, _ => (h, .error .typeError)


/-! ## cells on the heap

A cell object is `dict [("values", loc v), ("metadata", m)]`; `v` is the values dict (field ↦ number or
array location); a metadata object is `dict [("details", loc d), …attributes…]`. The constructor
`Cell(values=d, …)` stores the dict it is GIVEN (`self._values = values`): no copy. -/

def mkCell (h : Heap) (values metadata : Ref) : Heap × Loc :=
  h.alloc (.dict [("values", values), ("metadata", metadata)])

/-- the values dict of a cell: its location and entries -/
def cellValues (h : Heap) (c : Loc) : Option (Loc × List (String × Ref)) :=
  match h.get c with
  | some (.dict es) => match dictGet es "values" with
    | some (.loc v) => match h.get v with
      | some (.dict ev) => some (v, ev)
      | _ => none
    | _ => none
  | _ => none

def cellMeta (h : Heap) (c : Loc) : Ref :=
  match h.get c with
  | some (.dict es) => (dictGet es "metadata").getD .none
  | _ => .none

/-- `cell.replace(values=<new dict with these entries>)` as the fresh source does it: the new dict
is allocated, `_base_replace` builds a fresh `attrs` dict and constructs a NEW cell around it. With a
pattern whose target reaches a parameter (`cell.values[k] = …`, `attrs = self.__dict__`) the write
goes into the ARGUMENT's values dict instead. -/
def replaceValues (p : Pattern) (h : Heap) (c : Loc) (entries : List (String × Ref)) : Res :=
  match cellValues h c with
  | none => (h, .error .typeError)
  | some (v, _) =>
    if p.targetsFresh then
      let (h1, nv) := h.alloc (.dict entries)
      let (h2, nc) := mkCell h1 (.loc nv) (cellMeta h c)
      (h2, .ok (.loc nc))
    else (h.set v (.dict entries), .ok (.loc c))

/-- `Cell._base_replace` / `Cell.replace(values=d)` with an existing dict `d`: the new cell holds `d` itself -/
def cellReplace (p : Pattern) (h : Heap) (c : Loc) (values : Ref) : Res :=
  match h.get c with
  | some (.dict es) =>
    if p.targetsFresh then
      let (h1, nc) := mkCell h (values) (cellMeta h c)
      (h1, .ok (.loc nc))
    else (h.set c (.dict (dictSet es "values" values)), .ok (.loc c))     -- attrs = self.__dict__; attrs.update(..)
  | _ => (h, .error .typeError)

/-- `Cell.select(keys)`: `{k: v for k, v in self.values.items() if k in keys}` -/
def cellSelect (p : Pattern) (h : Heap) (c : Loc) (keys : List String) : Res :=
  match cellValues h c with
  | none => (h, .error .typeError)
  | some (_, ev) => replaceValues p h c (ev.filter fun e => keys.contains e.1)

/-- `Cell.derive_fields(**definitions)` with already evaluated definitions: every step builds
`{**cell.values, name: value}` and a new cell -/
def cellDeriveFields (p : Pattern) (h : Heap) (c : Loc) : List (String × Ref) → Res
  | [] => (h, .ok (.loc c))
  | (name, value) :: rest =>
    match cellValues h c with
    | none => (h, .error .typeError)
    | some (_, ev) =>
      match replaceValues p h c (dictSet ev name value) with
      | (h1, .ok (.loc c1)) => cellDeriveFields p h1 c1 rest
      | (h1, .ok _) => (h1, .error .typeError)
      | (h1, .error e) => (h1, .error e)

/-- `Cell.add_statics(source_cell, fields)` -/
def cellAddStatics (p : Pattern) (h : Heap) (c src : Loc) (fields : List String) : Res :=
  match cellValues h c, cellValues h src with
  | some (_, ev), some (_, es) => replaceValues p h c (dictUnion ev (es.filter fun e => fields.contains e.1))
  | _, _ => (h, .error .typeError)

/-- `_overwrite_values(cell1, cell2, suffix)`: `{**cell1.values, **replace_map}` -/
def overwriteValues (p : Pattern) (h : Heap) (c1 c2 : Loc) (suffix : Option String) : Res :=
  match cellValues h c1, cellValues h c2 with
  | some (_, e1), some (_, e2) =>
    let replaceMap := match suffix with
      | some s => e2.map fun e => (e.1 ++ s, e.2)
      | none => e2
    replaceValues p h c1 (dictUnion e1 replaceMap)
  | _, _ => (h, .error .typeError)

/-- the comprehension `{k: f(k, v) for k, v in entries}`, threading the heap through `f` -/
def mapEntries (f : Heap → String → Ref → Except Err (Heap × Ref)) (h : Heap) :
    List (String × Ref) → Heap × Except Err (List (String × Ref))
  | [] => (h, .ok [])
  | (k, v) :: rest =>
    match f h k v with
    | .error e => (h, .error e)
    | .ok (h1, r) => match mapEntries f h1 rest with
      | (h2, .ok es) => (h2, .ok ((k, r) :: es))
      | (h2, .error e) => (h2, .error e)

/-- `v[ndxs]` for an array with more than one element: a NEW array; anything else: `v` itself -/
def thinValue (ndxs : List Nat) (h : Heap) (_k : String) (v : Ref) : Except Err (Heap × Ref) :=
  match v with
  | .loc l => match h.get l with
    | some (.arr d) =>
      if d.length > 1 then
        let (h1, l1) := h.alloc (.arr (ndxs.map fun i => d.getD i 0))
        .ok (h1, .loc l1)
      else .ok (h, v)
    | _ => .ok (h, v)
  | _ => .ok (h, v)

/-- `_thin_cell(cell, ndxs)` -/
def thinCell (p : Pattern) (h : Heap) (c : Loc) (ndxs : List Nat) : Res :=
  match cellValues h c with
  | none => (h, .error .typeError)
  | some (_, ev) => match mapEntries (thinValue ndxs) h ev with
    | (h1, .ok es) => replaceValues p h1 c es
    | (h1, .error e) => (h1, .error e)

/-- `v * exchange_rate if k in CURRENCY_FIELDS else v` (the product is a new object) -/
def convertValue (fields : List String) (rate : Rat) (h : Heap) (k : String) (v : Ref) : Except Err (Heap × Ref) :=
  if fields.contains k then binop (· * ·) h v (.scalar rate) else .ok (h, v)

/-- `v *= exchange_rate` on an array location: in place -/
def imulValue (fields : List String) (rate : Rat) (h : Heap) (k : String) (v : Ref) : Except Err (Heap × Ref) :=
  if fields.contains k then
    match v with
    | .loc l => match h.get l with
      | some (.arr d) => .ok (h.set l (.arr (d.map (· * rate))), v)
      | _ => .error .typeError
    | .scalar q => .ok (h, .scalar (q * rate))
    | .none => .error .typeError
  else .ok (h, v)

/-- `_convert_cell_currency(cell, rate, target)`: converted values dict, `dataclasses.replace` of the
metadata (a new metadata object), a new cell. A pattern with an `aug` target reaching the parameter
(`v *= exchange_rate` on the loop variable) multiplies the argument's arrays in place. -/
def convertCellCurrency (p : Pattern) (h : Heap) (c : Loc) (fields : List String) (rate : Rat) (currency : Ref) : Res :=
  match cellValues h c with
  | none => (h, .error .typeError)
  | some (_, ev) =>
    match mapEntries (if p.targetsFresh then convertValue fields rate else imulValue fields rate) h ev with
    | (h1, .error e) => (h1, .error e)
    | (h1, .ok es) =>
      let metaEntries := match cellMeta h1 c with
        | .loc m => match h1.get m with
          | some (.dict em) => em
          | _ => []
        | _ => []
      let (h2, nm) := h1.alloc (.dict (dictSet metaEntries "currency" currency))
      let (h3, nv) := h2.alloc (.dict es)
      let (h4, nc) := mkCell h3 (.loc nv) (.loc nm)
      (h4, .ok (.loc nc))

/-- one definition of `Cell.derive_metadata`: a top-level attribute (`dataclasses.replace(metadata,
name=value)`: new metadata object, SAME details dict) or a detail key (`{**details, name: value}`: new
details dict, new metadata object); then `_base_replace(metadata=new)`: a new cell. With a pattern
that has a store reaching the parameter (`cell.metadata.details[name] = value` once `cell is not
self`) the detail is written into the details dict of the current cell — which an earlier attribute
definition left SHARED with the argument. -/
def deriveMetadataStep (p : Pattern) (h : Heap) (self c : Loc) (name : String) (isAttr : Bool) (value : Ref) : Res :=
  match cellMeta h c with
  | .loc m => match h.get m with
    | some (.dict em) =>
      if isAttr then
        let (h1, nm) := h.alloc (.dict (dictSet em name value))
        let (h2, nc) := mkCell h1 ((cellValues h c).map (fun x => Ref.loc x.1) |>.getD .none) (.loc nm)
        (h2, .ok (.loc nc))
      else match dictGet em "details" with
        | some (.loc d) => match h.get d with
          | some (.dict ed) =>
            if !p.targetsFresh && c != self then (h.set d (.dict (dictSet ed name value)), .ok (.loc c))
            else
              let (h1, nd) := h.alloc (.dict (dictSet ed name value))
              let (h2, nm) := h1.alloc (.dict (dictSet em "details" (.loc nd)))
              let (h3, nc) := mkCell h2 ((cellValues h c).map (fun x => Ref.loc x.1) |>.getD .none) (.loc nm)
              (h3, .ok (.loc nc))
          | _ => (h, .error .typeError)
        | _ => (h, .error .typeError)
    | _ => (h, .error .typeError)
  | _ => (h, .error .typeError)

/-- `Cell.derive_metadata(**definitions)` (definitions already evaluated): `(name, is top-level attribute, value)` -/
def cellDeriveMetadata (p : Pattern) (h : Heap) (self c : Loc) : List (String × Bool × Ref) → Res
  | [] => (h, .ok (.loc c))
  | (name, isAttr, value) :: rest =>
    match deriveMetadataStep p h self c name isAttr value with
    | (h1, .ok (.loc c1)) => cellDeriveMetadata p h1 self c1 rest
    | (h1, .ok _) => (h1, .error .typeError)
    | (h1, .error e) => (h1, .error e)

/-- `summarize_cell_values` for sum-type rules: per key the list `[cell.values.get(key) …]` (aliases
or `None`) goes through `_conforming_sum`; the results are collected in a new dict -/
def summarizeKeys (p : Pattern) (h : Heap) (cells : List (List (String × Ref))) :
    List String → Heap × Except Err (List (String × Ref))
  | [] => (h, .ok [])
  | k :: ks =>
    match conformingSum p h (cells.map fun ev => (dictGet ev k).getD .none) with
    | (h1, .error e) => (h1, .error e)
    | (h1, .ok r) => match summarizeKeys p h1 cells ks with
      | (h2, .ok es) => (h2, .ok ((k, r) :: es))
      | (h2, .error e) => (h2, .error e)

def summarizeCellValues (p : Pattern) (h : Heap) (cells : List Loc) (keys : List String) : Res :=
  let evs := cells.map fun c => ((cellValues h c).map (·.2)).getD []
  match summarizeKeys p h evs keys with
  | (h1, .error e) => (h1, .error e)
  | (h1, .ok es) =>
    let (h2, l) := h1.alloc (.dict es)
    (h2, .ok (.loc l))

/-- the accumulation `vals_dict[field] += val * py_share` of `_accident_quarter_to_policy_year_slice`
over one cell's items: `vals_dict[field]` is read (missing ⇒ the `defaultdict(float)` zero), the
product is a new object, `+=` rebinds a scalar / updates the accumulated array in place, the result
is stored back into `vals_dict` -/
def accumulateItems (h : Heap) (dl : Loc) (share : Rat) : List (String × Ref) → Heap × Except Err Unit
  | [] => (h, .ok ())
  | (field, val) :: rest =>
    match h.get dl with
    | some (.dict es) =>
      match binop (· * ·) h val (.scalar share) with
      | .error e => (h, .error e)
      | .ok (h1, prod) =>
        match iadd h1 ((dictGet es field).getD (.scalar 0)) prod with
        | .error e => (h1, .error e)
        | .ok (h2, r) =>
          match h2.get dl with
          | some (.dict es2) => accumulateItems (h2.set dl (.dict (dictSet es2 field r))) dl share rest
          | _ => (h2, .error .typeError)
    | _ => (h, .error .typeError)

def accumulateCells (h : Heap) (dl : Loc) : List (List (String × Ref) × Rat) → Heap × Except Err Unit
  | [] => (h, .ok ())
  | (ev, share) :: rest =>
    match accumulateItems h dl share ev with
    | (h1, .ok ()) => accumulateCells h1 dl rest
    | (h1, .error e) => (h1, .error e)

/-- the `vals_dict` loop under its pattern: `vals_dict = defaultdict(float)` (fresh) or, with an
initialiser reaching a parameter, the first cell's own values dict -/
def aqpyAccumulate (p : Pattern) (h : Heap) (cells : List (Loc × Rat)) : Res :=
  let items := cells.map fun cs => (((cellValues h cs.1).map (·.2)).getD [], cs.2)
  let (h0, dl) :=
    if (p.initOf "vals_dict").isFresh then h.alloc (.dict [])
    else match cells.head? with
      | some (c, _) => match cellValues h c with
        | some (v, _) => (h, v)
        | none => h.alloc (.dict [])
      | none => h.alloc (.dict [])
  match accumulateCells h0 dl items with
  | (h1, .ok ()) => (h1, .ok (.loc dl))
  | (h1, .error e) => (h1, .error e)

/-- linear blend of one field: `Σ wᵢ·vᵢ` built from new objects only -/
def linearBlend (h : Heap) (acc : Ref) : List (Ref × Rat) → Heap × Except Err Ref
  | [] => (h, .ok acc)
  | (v, w) :: rest =>
    match binop (· * ·) h v (.scalar w) with
    | .error e => (h, .error e)
    | .ok (h1, prod) => match binop (· + ·) h1 acc prod with
      | .error e => (h1, .error e)
      | .ok (h2, acc') => linearBlend h2 acc' rest

/-- the field loop of `blend_cells` (linear): `clean_values[field] = blend_samples(field_vals, …)`,
a store into the dict `clean_values` -/
def blendFields (h : Heap) (dl : Loc) (cells : List (List (String × Ref))) (weights : List Rat) :
    List String → Heap × Except Err Unit
  | [] => (h, .ok ())
  | f :: fs =>
    match linearBlend h (.scalar 0) ((cells.map fun ev => (dictGet ev f).getD .none).zip weights) with
    | (h1, .error e) => (h1, .error e)
    | (h1, .ok r) =>
      match h1.get dl with
      | some (.dict es) => blendFields (h1.set dl (.dict (dictSet es f r))) dl cells weights fs
      | _ => (h1, .error .typeError)

/-- `blend_cells(cells, weights, "linear", seed)`: `clean_values = {}` (or, under a pattern whose
store reaches a parameter, the first cell's values dict), then `cells[0].replace(values=clean_values)` -/
def blendCells (pb pr : Pattern) (h : Heap) (cells : List Loc) (weights : List Rat) : Res :=
  match cells with
  | [] => (h, .error .typeError)
  | c0 :: _ =>
    match cellValues h c0 with
    | none => (h, .error .typeError)
    | some (v0, ev0) =>
      let evs := cells.map fun c => ((cellValues h c).map (·.2)).getD []
      let (h0, dl) := if (pb.initOf "clean_values").isFresh then h.alloc (.dict []) else (h, v0)
      match blendFields h0 dl evs weights (ev0.map (·.1)) with
      | (h1, .error e) => (h1, .error e)
      | (h1, .ok ()) => cellReplace pr h1 c0 (.loc dl)

/-- `_weight_cell_values(cell, weights, subperiods)`: per sub-period a new dict of new values `v·wᵢ` -/
def weightCellValues (h : Heap) (ev : List (String × Ref)) : List Rat → Heap × Except Err (List Ref)
  | [] => (h, .ok [])
  | w :: ws =>
    match mapEntries (fun h _ v => binop (· * ·) h v (.scalar w)) h ev with
    | (h1, .error e) => (h1, .error e)
    | (h1, .ok es) =>
      let (h2, l) := h1.alloc (.dict es)
      match weightCellValues h2 ev ws with
      | (h3, .ok ls) => (h3, .ok (.loc l :: ls))
      | (h3, .error e) => (h3, .error e)

/-! ## the frame -/

/-- every location that existed at entry (`< n`) still holds the same object; in particular every
location reachable from the arguments -/
def Preserves (n : Nat) (h h' : Heap) : Prop :=
  n ≤ h'.size ∧ ∀ l, l < n → h'.get l = h.get l

/-- executable version, for the driver -/
def preservesB (h h' : Heap) : Bool :=
  decide (h.size ≤ h'.size) && (List.range h.size).all fun l => h'.get l == h.get l

/-- locations reachable from a reference (bounded depth: dicts of arrays) -/
def reach (h : Heap) : Ref → List Loc
  | .loc l => l :: (match h.get l with
    | some (.dict es) => es.filterMap fun e => match e.2 with | .loc l' => some l' | _ => none
    | _ => [])
  | _ => []

/-- REACHABILITY (transitive): the object a reference points to, and every object stored in an entry of a
reachable dict-like object (Triangle → cells → Cell → values → arrays, at any depth) -/
inductive Reach (h : Heap) : Ref → Loc → Prop where
  | self (l : Loc) : Reach h (.loc l) l
  | step {r : Ref} {l l' : Loc} {es : List (String × Ref)} {k : String} :
      Reach h r l → h.get l = some (.dict es) → (k, Ref.loc l') ∈ es → Reach h r l'

/-- a heap without dangling references: every location stored in an object exists -/
def Heap.Closed (h : Heap) : Prop :=
  ∀ l es k l', h.get l = some (.dict es) → (k, Ref.loc l') ∈ es → l' < h.size

end Bermuda.Heap
