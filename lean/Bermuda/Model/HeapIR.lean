/-
HeapIR — a small imperative language for the HEAP EFFECTS of a Python function body (property C03,
"no operation mutates its arguments"), with an executable big-step semantics on the heap of
`Model/Heap.lean` and a decidable static discipline `writesOnlyFresh`.

`harness/translate_c03ir.py` translates the Python AST of /repo into this language on every run
(`Generated/HeapIR.lean`); `Properties/C03.lean` proves ONCE that a disciplined program leaves every
location that existed at entry unchanged (`frame_of_discipline`) and re-proves by `decide` that the
generated programs are disciplined.

Semantics. Values are `Heap.Ref` (immutable scalar / `None` / location). All nondeterminism — which
branch of an `if`, how many times a loop body runs, which key a subscript hits, what data an
arithmetic result holds, what a pure callback returns — is read from an ORACLE (a list of choices
given as an argument), so the semantics is a total function defined by structural recursion on the
program, and a theorem quantified over all oracles covers all branch choices and all iteration
counts. Calls are resolved through a `CallSem`; `sem P d` is the semantics of program `P` with call
depth at most `d` (a deeper call raises), the theorems quantify over every `d`.

Protected / unprotected parameters. The property protects Triangle / Cell / Metadata arguments. A parameter
listed in `Fn.wparams` (a `pd.DataFrame`) is unprotected: the function may write the object it refers to
(level `ext`), not what that object contains; the frame theorems are about everything else.
Core Lean only.
-/
import Bermuda.Model.Heap
namespace Bermuda.HeapIR
open Bermuda.Heap

abbrev Var := Nat

/-! ## syntax -/

/-- allocation LEVEL of an object created inside the call (a ghost type, chosen by the translator,
checked by the discipline): `sh 0` = a new container whose entries may be anything (e.g. a new list of
the argument's cells); `sh (k+1)` = a new container all of whose entries are immutable values or
objects of level `sh k` (a new dict of new lists of cells is `sh 1`); `deep` = a new container/array
whose entries are immutable values or `deep`/`num` objects (nothing reachable from it existed at
entry); `num` = a new ARRAY (it has no entries and stays an array: `x += v` on it can only change
its numbers). -/
inductive Lvl where
  | sh (k : Nat)
  | deep
  | num
  | nums    -- a new container of immutable values and new arrays only (a dict of accumulators)
  | ext     -- NOT allocated in this call: the object an UNPROTECTED parameter (a data frame) refers to; entries arbitrary
deriving DecidableEq, Repr, Inhabited

/-- the level of the entries (`none`: unconstrained / no entries) -/
def Lvl.elem : Lvl → Option Lvl
  | .sh 0 => none
  | .sh (k + 1) => some (.sh k)
  | .deep => some .deep
  | .num => none
  | .nums => some .num
  | .ext => none

/-- an array has no entries, so a `num` object may stand wherever an object of any level is expected
(written by cases: these functions are evaluated by the kernel on every check) -/
def Lvl.sub : Lvl → Lvl → Bool
  | .num, .ext => false
  | .num, _ => true
  | .deep, .deep => true
  | .ext, .ext => true
  | .nums, .nums => true
  | .sh a, .sh b => a == b
  | _, _ => false

def Lvl.isExt : Lvl → Bool
  | .ext => true
  | _ => false

def Lvl.isNum : Lvl → Bool
  | .num => true
  | _ => false

def Lvl.isDeep : Lvl → Bool
  | .deep => true
  | _ => false

/-- abstract class of a local variable: an immutable value; an immutable value or an object of level
`t` allocated in this call; anything (in particular: reachable from a parameter) -/
inductive Cls where
  | scalar
  | lv (t : Lvl)
  | any
deriving DecidableEq, Repr, Inhabited

inductive Key where
  | lit (s : String)     -- attribute name / constant subscript
  | dyn                  -- computed subscript: chosen by the oracle
deriving DecidableEq, Repr, Inhabited

/-- what a new object is built from -/
inductive Alloc where
  | dict                               -- `{}`, `[]`, `set()`, `defaultdict(..)`
  | arr                                -- a new array (np.zeros, arithmetic result, np.array(scalars)): data by oracle
  | lit (es : List (String × Var))     -- display / constructor call holding THESE references: `[a, b]`, `(a, b)`, `{k: a}`, `Cell(values=v, ..)`
  | union (ys : List Var)              -- shallow copy / merge of the entries: `dict(a)`, `{**a, **b}`, `list(a)`, `a.copy()`, `sorted(a)`, `a[1:]`, `np.array(a)`
  | deep (y : Var)                     -- `copy.deepcopy(y)`
deriving Repr, Inhabited

inductive Stmt where
  | skip
  | alloc (x : Var) (t : Lvl) (a : Alloc)
  | bind (x y : Var)                   -- `x = y` (aliasing)
  | const (x : Var)                    -- `x = <immutable value>`
  | arith (x : Var)                    -- `x = <arithmetic / numpy result>`: a number or a NEW array
  | havoc (x : Var)                    -- `x = <result of a pure callback / pure library call>`: any reference at all
  | load (x y : Var) (k : Key)         -- `x = y.attr`, `x = y[k]`, loop variable over `y`
  | store (x : Var) (k : Key) (v : Var)  -- `x[k] = v`, `x.attr = v`, `x.append(v)`, `x.insert(i, v)`, `x.add(v)`, `x.setdefault(k, v)`
  | merge (x y : Var)                  -- `x.update(y)`, `x.extend(y)`, `x |= y`
  | shrink (x : Var)                   -- `x.pop()`, `x.clear()`, `x.remove(..)`, `x.sort()`, `x.reverse()`, `del x[k]`, `x.fill(..)`, `shuffle(x)`, `np.f(.., out=x)`
  | aug (x v : Var)                    -- `x op= v`: in place when `x` is an array/list/dict location, rebinding otherwise
  | call (x : Var) (f : Nat) (args : List Var)   -- call of function number `f` of the program
  | unknown (args : List Var)          -- call of code that is not translated and not in the reviewed "pure" table
  | seq (s t : Stmt)
  | ite (s t : Stmt)                   -- nondeterministic choice
  | loop (inv : List Cls) (s : Stmt)   -- body runs `n` times, `n` from the oracle; `inv`: the translator's loop invariant (checked)
  | block (s : Stmt)                   -- target of `brk` (`continue`; `break` is over-approximated by it)
  | brk
  | try (s t : Stmt)                   -- `t` runs from the state in which `s` raised
  | ret (x : Var)
  | raise
deriving Repr, Inhabited

structure Fn where
  name : String
  params : List Var
  /-- positions (in `params`) of the UNPROTECTED parameters: arguments that are not a Triangle / Cell / Metadata
  (a data frame). The function may write into the object such an argument refers to (not into what that
  object contains); the frame theorem is about everything else. -/
  wparams : List Nat := []
  body : Stmt
  /-- declared class of the returned reference (checked by the discipline at every `return`) -/
  retCls : Cls
deriving Repr, Inhabited

/-! ## semantics -/

inductive Choice where
  | n (k : Nat)
  | d (xs : List Rat)
deriving Repr, Inhabited, DecidableEq

abbrev Oracle := List Choice

def popN : Oracle → Nat × Oracle
  | .n k :: o => (k, o)
  | _ :: o => (0, o)
  | [] => (0, [])

def popD : Oracle → List Rat × Oracle
  | .d xs :: o => (xs, o)
  | _ :: o => ([], o)
  | [] => ([], [])

/-- padded update of a positional list (variables are numbers; an unbound variable reads as the default) -/
def setPad {α : Type} (d : α) : List α → Nat → α → List α
  | [], 0, v => [v]
  | [], n + 1, v => d :: setPad d [] n v
  | _ :: l, 0, v => v :: l
  | a :: l, n + 1, v => a :: setPad d l n v

structure St where
  env : List Ref := []
  heap : Heap := {}
  orc : Oracle := []
deriving Repr, Inhabited, DecidableEq

def St.get (s : St) (x : Var) : Ref := s.env.getD x .none
def St.bind (s : St) (x : Var) (r : Ref) : St := { s with env := setPad .none s.env x r }

/-- how a statement ends: normally, by `return r`, by an exception, by `continue/break` -/
inductive Out where
  | norm (s : St)
  | ret (r : Ref) (s : St)
  | exc (s : St)
  | brk (s : St)
deriving Repr, Inhabited, DecidableEq

def Out.heap : Out → Heap
  | .norm s | .ret _ s | .exc s | .brk s => s.heap

/-- semantics of the calls: function number, arguments, heap, oracle ↦ heap when the call returned
or raised, result, rest of the oracle -/
abbrev CallSem := Nat → List Ref → Heap → Oracle → Heap × Except Unit Ref × Oracle

/-- the entries of a dict-like object -/
def contents (h : Heap) : Ref → List (String × Ref)
  | .loc l => match h.get l with
    | some (.dict es) => es
    | _ => []
  | _ => []

def dynKey (n : Nat) : String := "k" ++ toString n

def Key.resolve (k : Key) (n : Nat) : String :=
  match k with
  | .lit s => s
  | .dyn => dynKey n

/-- `copy.deepcopy` with a recursion bound (`h.size + 1` is exact on an acyclic heap): dicts are
rebuilt around copies of their entries, arrays and opaque objects are copied -/
def deepCopy : Nat → Heap → Ref → Heap × Ref
  | 0, h, _ => (h, .none)
  | n + 1, h, .loc l =>
    match h.get l with
    | some (.dict es) =>
      let (h1, es') := es.foldl (fun (acc : Heap × List (String × Ref)) e =>
        let (h2, r) := deepCopy n acc.1 e.2
        (h2, acc.2 ++ [(e.1, r)])) (h, [])
      let (h3, l') := h1.alloc (.dict es')
      (h3, .loc l')
    | some o => let (h', l') := h.alloc o; (h', .loc l')
    | none => (h, .none)
  | _ + 1, h, r => (h, r)

/-- the object built by a shallow copy / merge: a copy of the array when the first source is an
array, else a dict holding the entries of all sources -/
def unionObj (h : Heap) (refs : List Ref) : Obj :=
  let merged := Obj.dict (refs.foldl (fun acc r => dictUnion acc (contents h r)) [])
  match refs.head? with
  | some (.loc l) => match h.get l with
    | some (.arr d) => .arr d
    | _ => merged
  | _ => merged

def execAlloc (st : St) (x : Var) (a : Alloc) : Out :=
  match a with
  | .dict => let (h', l) := st.heap.alloc (.dict []); .norm ({ st with heap := h' }.bind x (.loc l))
  | .arr =>
    let (d, o) := popD st.orc
    let (h', l) := st.heap.alloc (.arr d)
    .norm ({ st with heap := h', orc := o }.bind x (.loc l))
  | .lit es =>
    let (h', l) := st.heap.alloc (.dict (es.map fun e => (e.1, st.get e.2)))
    .norm ({ st with heap := h' }.bind x (.loc l))
  | .union ys =>
    let (h', l) := st.heap.alloc (unionObj st.heap (ys.map st.get))
    .norm ({ st with heap := h' }.bind x (.loc l))
  | .deep y =>
    let (h', r) := deepCopy (st.heap.size + 1) st.heap (st.get y)
    .norm ({ st with heap := h' }.bind x r)

/-- `y.attr` / `y[k]`: an entry of a dict-like object (missing ⇒ raises), an element of an array
(immutable number), an attribute of an immutable value (immutable value) -/
def loadRef (h : Heap) (r : Ref) (k : Key) (n : Nat) : Option Ref :=
  match r with
  | .loc l => match h.get l with
    | some (.dict es) => match k with
      | .lit s => dictGet es s
      | .dyn => (es[n]?).map (·.2)
    | some (.arr d) => some (.scalar (d.getD n 0))
    | _ => none
  | _ => some .none

def execLoad (st : St) (x y : Var) (k : Key) : Out :=
  let (n, o) := popN st.orc
  let st := { st with orc := o }
  match loadRef st.heap (st.get y) k n with
  | some r => .norm (st.bind x r)
  | none => .exc st

/-- the WRITES. Each returns the new heap, or `none` when the target is not a mutable object
(Python raises TypeError/AttributeError) -/
def storeRef (h : Heap) (x : Ref) (key : String) (v : Ref) (data : List Rat) : Option Heap :=
  match x with
  | .loc l => match h.get l with
    | some (.dict es) => some (h.set l (.dict (dictSet es key v)))
    | some (.arr _) => some (h.set l (.arr data))
    | _ => none
  | _ => none

def mergeRef (h : Heap) (x v : Ref) (data : List Rat) : Option Heap :=
  match x with
  | .loc l => match h.get l with
    | some (.dict es) => some (h.set l (.dict (dictUnion es (contents h v))))
    | some (.arr _) => some (h.set l (.arr data))
    | _ => none
  | _ => none

/-- `clear` (0), `reverse`/`sort` (1), removal of one entry (n ≥ 2) -/
def shrinkEntries (n : Nat) (es : List (String × Ref)) : List (String × Ref) :=
  match n with
  | 0 => []
  | 1 => es.reverse
  | n + 2 => es.eraseIdx n

def shrinkRef (h : Heap) (x : Ref) (n : Nat) (data : List Rat) : Option Heap :=
  match x with
  | .loc l => match h.get l with
    | some (.dict es) => some (h.set l (.dict (shrinkEntries n es)))
    | some (.arr _) => some (h.set l (.arr data))
    | _ => none
  | _ => none

def execStore (st : St) (x : Var) (k : Key) (v : Var) : Out :=
  let (n, o) := popN st.orc
  let (d, o) := popD o
  let st := { st with orc := o }
  match storeRef st.heap (st.get x) (k.resolve n) (st.get v) d with
  | some h' => .norm { st with heap := h' }
  | none => .exc st

def execMerge (st : St) (x y : Var) : Out :=
  let (d, o) := popD st.orc
  let st := { st with orc := o }
  match mergeRef st.heap (st.get x) (st.get y) d with
  | some h' => .norm { st with heap := h' }
  | none => .exc st

def execShrink (st : St) (x : Var) : Out :=
  let (n, o) := popN st.orc
  let (d, o) := popD o
  let st := { st with orc := o }
  match shrinkRef st.heap (st.get x) n d with
  | some h' => .norm { st with heap := h' }
  | none => .exc st

/-- `x op= v` as Python does it (`x = x.__iop__(v)`): an array / list / dict location is updated IN
PLACE and `x` keeps pointing to it; an immutable value is REBOUND to the result of `x op v` — an
immutable value (oracle choice 0) or a new array -/
def execAug (st : St) (x v : Var) : Out :=
  let (n, o) := popN st.orc
  let (d, o) := popD o
  let st := { st with orc := o }
  match st.get x with
  | .loc _ =>
    match mergeRef st.heap (st.get x) (st.get v) d with
    | some h' => .norm { st with heap := h' }
    | none => .exc st
  | _ =>
    if n = 0 then .norm (st.bind x (.scalar (d.headD 0)))
    else
      let (h', l) := st.heap.alloc (.arr d)
      .norm ({ st with heap := h' }.bind x (.loc l))

def execHavoc (st : St) (x : Var) : Out :=
  let (n, o) := popN st.orc
  let st := { st with orc := o }
  .norm (st.bind x (if n = 0 then .none else .loc (n - 1)))

/-- the result of an arithmetic expression: an immutable number (choice 0) or a new array -/
def execArith (st : St) (x : Var) : Out :=
  let (n, o) := popN st.orc
  let (d, o) := popD o
  let st := { st with orc := o }
  if n = 0 then .norm (st.bind x (.scalar (d.headD 0)))
  else
    let (h', l) := st.heap.alloc (.arr d)
    .norm ({ st with heap := h' }.bind x (.loc l))

def execConst (st : St) (x : Var) : Out :=
  let (d, o) := popD st.orc
  let st := { st with orc := o }
  .norm (st.bind x (match d with | [] => .none | q :: _ => .scalar q))

/-- untranslated code: writes into one of the objects it receives -/
def execUnknown (st : St) (args : List Var) : Out :=
  let (i, o) := popN st.orc
  let (n, o) := popN o
  let (d, o) := popD o
  let st := { st with orc := o }
  match args[i]? with
  | some y =>
    match shrinkRef st.heap (st.get y) n d with
    | some h' => .norm { st with heap := h' }
    | none => .norm st
  | none => .norm st

def execCall (cs : CallSem) (st : St) (x : Var) (f : Nat) (args : List Var) : Out :=
  match cs f (args.map st.get) st.heap st.orc with
  | (h', .ok r, o) => .norm ({ st with heap := h', orc := o }.bind x r)
  | (h', .error _, o) => .exc { st with heap := h', orc := o }

/-- run `f` at most `n` times, as long as it ends normally -/
def iter (f : St → Out) : Nat → St → Out
  | 0, st => .norm st
  | n + 1, st => match f st with
    | .norm st' => iter f n st'
    | o => o

def exec (cs : CallSem) : Stmt → St → Out
  | .skip, st => .norm st
  | .alloc x _ a, st => execAlloc st x a
  | .bind x y, st => .norm (st.bind x (st.get y))
  | .const x, st => execConst st x
  | .arith x, st => execArith st x
  | .havoc x, st => execHavoc st x
  | .load x y k, st => execLoad st x y k
  | .store x k v, st => execStore st x k v
  | .merge x y, st => execMerge st x y
  | .shrink x, st => execShrink st x
  | .aug x v, st => execAug st x v
  | .call x f args, st => execCall cs st x f args
  | .unknown args, st => execUnknown st args
  | .seq s t, st => match exec cs s st with
    | .norm st' => exec cs t st'
    | o => o
  | .ite s t, st =>
    let (n, o) := popN st.orc
    if n = 0 then exec cs s { st with orc := o } else exec cs t { st with orc := o }
  | .loop _ s, st =>
    let (n, o) := popN st.orc
    iter (fun st' => exec cs s st') n { st with orc := o }
  | .block s, st => match exec cs s st with
    | .brk st' => .norm st'
    | o => o
  | .brk, st => .brk st
  | .try s t, st => match exec cs s st with
    | .exc st' => exec cs t st'
    | o => o
  | .ret x, st => .ret (st.get x) st
  | .raise, st => .exc st

/-- parameters bound to the arguments in order; a parameter without an argument is `None` -/
def bindParams : List Var → List Ref → List Ref → List Ref
  | [], _, e => e
  | p :: ps, [], e => bindParams ps [] (setPad Ref.none e p .none)
  | p :: ps, r :: rs, e => bindParams ps rs (setPad Ref.none e p r)

/-- a call of `f`: parameters bound to the arguments, everything else unbound; falling off the end
returns `None` -/
def runFn (cs : CallSem) (f : Fn) (args : List Ref) (h : Heap) (o : Oracle) : Heap × Except Unit Ref × Oracle :=
  match exec cs f.body ⟨bindParams f.params args [], h, o⟩ with
  | .norm st => (st.heap, .ok .none, st.orc)
  | .ret r st => (st.heap, .ok r, st.orc)
  | .exc st => (st.heap, .error (), st.orc)
  | .brk st => (st.heap, .ok .none, st.orc)

/-- the program's own call semantics, call depth at most `d` (deeper: the call raises at once) -/
def sem (P : List Fn) : Nat → CallSem
  | 0 => fun _ _ h o => (h, .error (), o)
  | d + 1 => fun i args h o =>
    match P[i]? with
    | some f => runFn (sem P d) f args h o
    | none => (h, .error (), o)

/-! ## the static discipline (an abstract interpretation over `Cls`) -/

def Cls.le : Cls → Cls → Bool
  | .scalar, _ => true
  | _, .any => true
  | .lv a, .lv b => a.sub b
  | _, _ => false

def Cls.isAny : Cls → Bool
  | .any => true
  | _ => false

def Cls.isScalar : Cls → Bool
  | .scalar => true
  | _ => false

def Cls.join (c d : Cls) : Cls :=
  if c.le d then d else if d.le c then c else .any

/-- abstract environment: class of variable `i` at position `i`; missing = unbound = `scalar` -/
abbrev AEnv := List Cls

def AEnv.get (a : AEnv) (x : Var) : Cls := a.getD x .scalar
def AEnv.set (a : AEnv) (x : Var) (c : Cls) : AEnv := setPad .scalar a x c

def AEnv.join : AEnv → AEnv → AEnv
  | [], b => b
  | a, [] => a
  | c :: a, d :: b => c.join d :: AEnv.join a b

def AEnv.le : AEnv → AEnv → Bool
  | [], _ => true
  | c :: a, [] => c.le .scalar && AEnv.le a []
  | c :: a, d :: b => c.le d && AEnv.le a b

def ojoin : Option AEnv → Option AEnv → Option AEnv
  | none, b => b
  | a, none => a
  | some a, some b => some (a.join b)

def ole : Option AEnv → AEnv → Bool
  | none, _ => true
  | some a, b => a.le b

/-- result of analysing a statement: discipline respected so far; abstract environment at the normal
exit / where an exception may leave it / where `brk` may leave it (`none` = not reachable) -/
structure ARes where
  ok : Bool
  norm : Option AEnv
  exc : Option AEnv
  brk : Option AEnv
deriving Repr, Inhabited, DecidableEq

/-- may a reference of class `c` be stored into an object of level `t`? -/
def storable (t : Lvl) (c : Cls) : Bool :=
  match t.elem with
  | none => true
  | some t' => c.le (.lv t')

/-- may the ENTRIES of an object of class `c` be copied into an object of level `t`? -/
def mergeable (t : Lvl) (c : Cls) : Bool :=
  match t.elem with
  | none => true
  | some _ => c.le (.lv t)

def storeOk (cx cv : Cls) : Bool :=
  match cx with
  | .scalar => true
  | .lv t => storable t cv
  | .any => false

def mergeOk (cx cv : Cls) : Bool :=
  match cx with
  | .scalar => true
  | .lv t => mergeable t cv
  | .any => false

def allocOk (a : AEnv) (t : Lvl) : Alloc → Bool
  | .dict => !t.isNum && !t.isExt
  | .arr => !t.isExt
  | .lit es => !t.isNum && !t.isExt && es.all fun e => storable t (a.get e.2)
  | .union ys => !t.isNum && !t.isExt && ys.all fun y => mergeable t (a.get y)
  | .deep _ => t.isDeep

/-- a primitive statement: it may end normally in `a'` or raise from `a`. The exceptional exit is only
consumed by an enclosing `try`, so it is tracked (`tr`) inside `try` bodies only. -/
def prim (tr ok : Bool) (a a' : AEnv) : ARes := ⟨ok, some a', if tr then some a else none, none⟩

def loadCls : Cls → Cls
  | .scalar => .scalar
  | .lv .num => .scalar
  | .lv t => match t.elem with
    | none => .any
    | some t' => .lv t'
  | .any => .any

/-- what a caller knows about a function: declared result class, positions of the unprotected parameters -/
abbrev Summary := Cls × List Nat

/-- an argument handed to an unprotected (written) parameter must be an immutable value, the object of one of
the caller's own unprotected parameters, or a new object without constraints on its entries (`sh 0`, `num`) -/
def Cls.isWritableArg : Cls → Bool
  | .scalar => true
  | .lv t => t.elem.isNone
  | .any => false

def callOk (a : AEnv) (wp : List Nat) (args : List Var) : Bool :=
  wp.all fun j => match args[j]? with
    | some y => (a.get y).isWritableArg
    | none => true

/-- `sums`: declared result class of every function of the program; `rc`: of this function; `tr`: inside
a `try` body (the exceptional exit is needed) -/
def absExec (sums : List Summary) (rc : Cls) : Bool → Stmt → AEnv → ARes
  | tr, .skip, a => prim tr true a a
  | tr, .alloc x t al, a => prim tr (allocOk a t al) a (a.set x (.lv t))
  | tr, .bind x y, a => prim tr true a (a.set x (a.get y))
  | tr, .const x, a => prim tr true a (a.set x .scalar)
  | tr, .arith x, a => prim tr true a (a.set x (.lv .num))
  | tr, .havoc x, a => prim tr true a (a.set x .any)
  | tr, .load x y _, a => prim tr true a (a.set x (loadCls (a.get y)))
  | tr, .store x _ v, a => prim tr (storeOk (a.get x) (a.get v)) a a
  | tr, .merge x y, a => prim tr (mergeOk (a.get x) (a.get y)) a a
  | tr, .shrink x, a => prim tr (!(a.get x).isAny) a a
  | tr, .aug x v, a =>
    match a.get x with
    | .scalar => prim tr true a (a.set x (.lv .num))
    | .lv t => prim tr (mergeable t (a.get v) && !t.isExt) a a
    | .any => prim tr false a a
  | tr, .call x f args, a =>
    prim tr (callOk a (sums.getD f (.any, [])).2 args) a (a.set x (sums.getD f (.any, [])).1)
  | tr, .unknown args, a => prim tr (args.all fun y => (a.get y).isScalar) a a
  | tr, .seq s t, a =>
    let r1 := absExec sums rc tr s a
    match r1.norm with
    | none => r1
    | some a1 =>
      let r2 := absExec sums rc tr t a1
      ⟨r1.ok && r2.ok, r2.norm, ojoin r1.exc r2.exc, ojoin r1.brk r2.brk⟩
  | tr, .ite s t, a =>
    let r1 := absExec sums rc tr s a
    let r2 := absExec sums rc tr t a
    ⟨r1.ok && r2.ok, ojoin r1.norm r2.norm, ojoin r1.exc r2.exc, ojoin r1.brk r2.brk⟩
  | tr, .loop inv s, a =>
    -- `inv` must hold at entry and be preserved by the body (one analysis of the body per loop)
    let r := absExec sums rc tr s inv
    ⟨r.ok && a.le inv && ole r.norm inv, some inv, r.exc, r.brk⟩
  | tr, .block s, a =>
    let r := absExec sums rc tr s a
    ⟨r.ok, ojoin r.norm r.brk, r.exc, none⟩
  | _, .brk, a => ⟨true, none, none, some a⟩
  | tr, .try s t, a =>
    let r1 := absExec sums rc true s a
    match r1.exc with
    | none => r1
    | some e =>
      let r2 := absExec sums rc tr t e
      ⟨r1.ok && r2.ok, ojoin r1.norm r2.norm, r2.exc, ojoin r1.brk r2.brk⟩
  | _, .ret x, a => ⟨(a.get x).le rc, none, none, none⟩
  | tr, .raise, a => ⟨true, none, if tr then some a else none, none⟩

def entryEnvAux (wp : List Nat) : Nat → List Var → AEnv → AEnv
  | _, [], a => a
  | i, p :: ps, a => entryEnvAux wp (i + 1) ps (a.set p (if wp.contains i then .lv .ext else .any))

/-- protected parameters may be anything; an unprotected parameter is an immutable value or its own object -/
def entryEnv (params : List Var) (wp : List Nat) : AEnv := entryEnvAux wp 0 params []

/-- THE DISCIPLINE: every store / merge / shrink / augmented assignment of the body targets a
variable known to hold an immutable value, an object allocated in this call (at its level) or the object of
an UNPROTECTED parameter (`wparams`, level `ext`); an argument handed to a written parameter of a callee is an
immutable value, such an object, or a new object without entry constraints; every returned reference has the
declared class (never `lv ext`); no call of unknown code receives an object -/
def Cls.isExt : Cls → Bool
  | .lv .ext => true
  | _ => false

def writesOnlyFresh (sums : List Summary) (f : Fn) : Bool :=
  (absExec sums f.retCls false f.body (entryEnv f.params f.wparams)).ok && !f.retCls.isExt

def summaries (P : List Fn) : List Summary := P.map fun f => (f.retCls, f.wparams)

def disciplined (P : List Fn) : Bool := P.all (writesOnlyFresh (summaries P))

end Bermuda.HeapIR
