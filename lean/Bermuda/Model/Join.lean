/-
Relational operators of bermuda: `join` (utils/join.py), `merge`, `period_merge`, `coalesce`
(utils/merge.py), `add_statics` (utils/fields.py, `Cell.add_statics` in base/cell.py).
Core Lean only.

Operands are Triangles, i.e. cell lists as `Triangle.cells` holds them (sorted, one cell class).
Three modelling remarks (every other statement is transcribed one to one):

* `cell.replace(metadata=…)` / `cell.replace(values=…)` re-run the validating constructor. The
  dates of the cell are not touched and a cell that exists in Python already satisfies the date
  rules, so the re-validation cannot raise; the model does not re-validate.
* A Python `dict` built as `{key(c): c for c in t}` is modelled extensionally: `dictGet` returns
  the LAST cell with the key (later assignments overwrite), and the key set
  `set(d1.keys()) | set(d2.keys())` — whose iteration order is unspecified in Python — is the
  duplicate-free list `dedupJ (keys1 ++ keys2)` (some fixed order; consumers may not depend on it).
* Key equality is Python's `==` on `(Metadata, date, …)` tuples. Metadata arrive canonicalised
  (details sorted by key, bool/int/float folded into `num`), for which `Metadata.__eq__` is
  structural equality (`Metadata.eqv`, Lemmas/Order); filtering details keeps them canonical.
-/
import Bermuda.Model.Ops
namespace Bermuda

/-! ## `on`: `_select_metadata` -/

/-- `metadata_mod` inside `_select_metadata`: every common attribute not listed becomes `None`
(also `risk_basis`), details / loss_details keep the listed keys (`tlz.keyfilter`). -/
def Metadata.selectOn (m : Metadata) (on : List String) : Metadata :=
  { riskBasis := if on.contains "risk_basis" then m.riskBasis else none
    country := if on.contains "country" then m.country else none
    currency := if on.contains "currency" then m.currency else none
    reinsuranceBasis := if on.contains "reinsurance_basis" then m.reinsuranceBasis else none
    lossDefinition := if on.contains "loss_definition" then m.lossDefinition else none
    limit := if on.contains "per_occurrence_limit" then m.limit else none
    details := m.details.filter (fun kv => on.contains kv.1)
    lossDetails := m.lossDetails.filter (fun kv => on.contains kv.1) }

def Cell.selectOn (c : Cell) (on : List String) : Cell := { c with md := c.md.selectOn on }

/-- `_select_metadata(triangle, on)`: patched cells go through `Triangle(...)` (re-sorted!) -/
def selectMetadata (t : List Cell) (on : List String) : Except Err (List Cell) :=
  Triangle.ofCells (t.map (·.selectOn on))

/-! ## `join` -/

inductive JoinType where
  | full | inner | left | right | leftAnti | rightAnti
deriving DecidableEq, Repr, Inhabited

def JoinType.ofString? : String → Option JoinType
  | "full" => some .full | "inner" => some .inner | "left" => some .left | "right" => some .right
  | "left_anti" => some .leftAnti | "right_anti" => some .rightAnti | _ => none

def JoinType.all : List JoinType := [.full, .inner, .left, .right, .leftAnti, .rightAnti]

/-- `triangle.is_incremental`: non-empty and the first cell is an `IncrementalCell` -/
def isIncremental : List Cell → Bool
  | [] => false
  | c :: _ => c.kind == .incremental

/-- the dictionary key of join.py: `(metadata, period_start, period_end, evaluation_date)` and, in
the incremental branch, `prev_evaluation_date`. The branch is chosen by the LEFT triangle
(`tri1.is_incremental`) for both dictionaries. -/
def joinKey (inc : Bool) (c : Cell) : Coord :=
  ⟨c.md, c.ps, c.pe, c.ev, if inc then c.prev else none⟩

/-- duplicate-free list with the same members (stands for a Python `set`) -/
def dedupJ {α} [BEq α] (l : List α) : List α :=
  l.foldr (fun a acc => if acc.contains a then acc else a :: acc) []

/-- `{key(c): c for c in t}.get(k)`: the last cell with key `k` -/
def dictGet (inc : Bool) : List Cell → Coord → Option Cell
  | [], _ => none
  | c :: t, k =>
    match dictGet inc t k with
    | some d => some d
    | none => if joinKey inc c == k then some c else none

abbrev CellPair := Option Cell × Option Cell

/-- `all_coordinates` -/
def allCoordinates (a b : List Cell) : List Coord :=
  let inc := isIncremental a
  dedupJ (a.map (joinKey inc) ++ b.map (joinKey inc))

/-- `cell_pairs` -/
def cellPairs (a b : List Cell) : List CellPair :=
  let inc := isIncremental a
  (allCoordinates a b).map fun k => (dictGet inc a k, dictGet inc b k)

/-- the six list-comprehension filters -/
def JoinType.keep : JoinType → CellPair → Bool
  | .full, _ => true
  | .left, p => p.1.isSome
  | .right, p => p.2.isSome
  | .inner, p => p.1.isSome && p.2.isSome
  | .leftAnti, p => p.2.isNone
  | .rightAnti, p => p.1.isNone

/-- join of two triangles whose metadata have already been reduced -/
def joinCore (ty : JoinType) (a b : List Cell) : List CellPair :=
  (cellPairs a b).filter ty.keep

/-- `min(len) > 0 and type(tri1.cells[0]) != type(tri2.cells[0])` -/
def kindMismatch : List Cell → List Cell → Bool
  | c :: _, d :: _ => c.kind != d.kind
  | _, _ => false

/-- the `if on:` step: `None` and `[]` are falsy -/
def reduceOn (on : Option (List String)) (t : List Cell) : Except Err (List Cell) :=
  match on with
  | some (x :: xs) => selectMetadata t (x :: xs)
  | _ => .ok t

/-- `join(tri1, tri2, join_type, on)`; `ty = none` stands for an unrecognised `join_type` string
(the `ValueError` of the final `else`). -/
def join (ty : Option JoinType) (on : Option (List String)) (a b : List Cell) :
    Except Err (List CellPair) := do
  if kindMismatch a b then throw .valueError
  let a' ← reduceOn on a
  let b' ← reduceOn on b
  match ty with
  | some ty => pure (joinCore ty a' b')
  | none => throw .valueError

/-! ## `merge` -/

/-- `_merge_cell_pair`; `(None, None)` never comes out of `join` (`Properties.C10.pair_not_both_none`, i.e. the
conjunct `none ∉ ks` of `Properties.C10.join_keys_on`);
Python would hand `None` to `Triangle(...)` -/
def mergeCellPair : CellPair → Option Cell
  | (none, c2) => c2
  | (some c1, none) => some c1
  | (some c1, some c2) => some { c1 with values := c1.values.union c2.values }

def merge (ty : Option JoinType) (on : Option (List String)) (a b : List Cell) :
    Except Err (List Cell) := do
  let pairs ← join ty on a b
  Triangle.ofCells (pairs.filterMap mergeCellPair)

/-! ## `coalesce` -/

/-- `(cell.metadata, cell.period, cell.evaluation_date)` — no `prev`, also for incremental cells
(merge.py:195; witness `Properties.C10.coalesce_ignores_prev`) -/
def coalKey (c : Cell) : Coord := ⟨c.md, c.ps, c.pe, c.ev, none⟩

/-- first element per key, in order of first appearance: `[v[0] for v in grouped.values()]` of a
`defaultdict(list)` filled in list order. `seen` = keys already in the dict. -/
def firstsBy {α κ} [BEq κ] (key : α → κ) (seen : List κ) : List α → List α
  | [] => []
  | a :: l =>
    if seen.contains (key a) then firstsBy key seen l
    else a :: firstsBy key (key a :: seen) l

/-- `coalesce(triangles)` (the "no overlap" warning is not modelled) -/
def coalesce (ts : List (List Cell)) : Except Err (List Cell) :=
  Triangle.ofCells (firstsBy coalKey [] ts.flatten)

/-! ## `add_statics` -/

def evLe (a b : Cell) : Bool := Date.cmp a.ev b.ev != .gt

/-- `Cell.add_statics(source_cell, fields)` -/
def Cell.addStatics (c src : Cell) (fields : List String) : Cell :=
  { c with values := c.values.union (src.values.filter (fun kv => fields.contains kv.1)) }

/-- `source.slices.get(cell.metadata)` → `groupby(period)` → `sorted(row, key=evaluation_date)[-1]`
→ `.get(cell.period)`: of the source cells with the cell's metadata and period (in triangle
order) the last one of the stable sort by evaluation date. -/
def sourceCell? (source : List Cell) (c : Cell) : Option Cell :=
  lastBy? evLe (source.filter (fun s => s.md == c.md && s.ps == c.ps && s.pe == c.pe))

/-- one cell of `_add_statics_slice` (also covers "no such slice in the source": no source cell) -/
def addStaticsCell (source : List Cell) (statics : List String) (c : Cell) : Cell :=
  match sourceCell? source c with
  | some s => c.addStatics s statics
  | none => c

/-- `add_statics(triangle, source, statics)`. Python walks `triangle.slices` (first-appearance
order of metadata, each slice in triangle order) and concatenates; cells that tie under the final
stable sort share their metadata, hence sit in the same slice in their original relative order,
so `Triangle(concatenation) = Triangle(map)` — proved: `addStaticsLit` below is the literal loop,
`Properties.C10.addStaticsLit_eq` the equality. -/
def addStatics (t source : List Cell) (statics : List String) : Except Err (List Cell) :=
  Triangle.ofCells (t.map (addStaticsCell source statics))

/-! ## `period_merge` -/

/-- `{f"{k}{suffix}": v …}` when `suffix` is truthy, else the dict itself -/
def applySuffix (suffix : Option String) (d : Dict Val) : Dict Val :=
  match suffix with
  | some s => if s.isEmpty then d else d.map (fun kv => (kv.1 ++ s, kv.2))
  | none => d

/-- `_overwrite_values` -/
def overwriteValues (c1 c2 : Cell) (suffix : Option String) : Cell :=
  { c1 with values := c1.values.union (applySuffix suffix c2.values) }

/-- index of `period_merge`: `(period_start, period_end, metadata)` -/
def samePeriodKey (c r : Cell) : Bool := r.ps == c.ps && r.pe == c.pe && r.md == c.md

/-- one left cell against `tri2_cells[idx]` -/
def periodMergeCell (b : List Cell) (suffix : Option String) (c : Cell) : Except Err Cell :=
  match b.filter (samePeriodKey c) with
  | [] => .ok c
  | [r] => .ok (overwriteValues c r suffix)
  | _ => .error .valueError

/-- `period_merge(tri1, tri2, suffix)`. Python regroups the left cells by index (first-appearance
order, original order inside a group) before `Triangle(...)`; as for `addStatics` ties of the final
stable sort lie inside one group, so the regrouping does not change the result; any group with
several right cells raises `ValueError` whichever group is visited first — proved:
`periodMergeLit` below is the literal loop, `Properties.C10.periodMergeLit_eq` the equality. -/
def periodMerge (a b : List Cell) (suffix : Option String) : Except Err (List Cell) := do
  if kindMismatch a b then throw .valueError
  let out ← a.mapM (periodMergeCell b suffix)
  Triangle.ofCells out

/-! ## the regrouping loops of `add_statics` / `period_merge`, literally

`addStatics` / `periodMerge` above leave out the regrouping Python performs before the final
`Triangle(...)`. The literal renderings below follow the loops statement by statement;
`Properties.C10.addStaticsLit_eq` / `periodMergeLit_eq` prove them equal to the direct forms on
triangles (distinct coordinates), so every theorem about the direct forms is a theorem about these. -/

/-- `groups.get(k, [])` / `defaultdict(list)[k]` on a `groupBy` table -/
def groupGet {α κ} [BEq κ] (g : List (κ × List α)) (k : κ) : List α :=
  match g.find? (fun e => e.1 == k) with
  | some p => p.2
  | none => []

/-- `source_indexed.get(cell.period)` with
`source_indexed = valmap(lambda row: sorted(row, key=evaluation_date)[-1], groupby(period, source_slice.cells))` -/
def sourceIndexedGet (srcSlice : List Cell) (c : Cell) : Option Cell :=
  match (groupBy (fun s : Cell => (s.ps, s.pe)) srcSlice).find? (fun e => e.1 == (c.ps, c.pe)) with
  | some e => lastBy? evLe e.2
  | none => none

/-- `_add_statics_slice(slice, source_slice, statics)` -/
def addStaticsSliceLit (slc srcSlice : List Cell) (statics : List String) : List Cell :=
  slc.map fun c =>
    match sourceIndexedGet srcSlice c with
    | some s => c.addStatics s statics
    | none => c

/-- body of `for key, slc in triangle.slices.items()`: `source_slices.get(key, None)` … -/
def addStaticsBlockLit (sourceSlices : List (Metadata × List Cell)) (statics : List String)
    (e : Metadata × List Cell) : List Cell :=
  match sourceSlices.find? (fun s => s.1 == e.1) with
  | some s => addStaticsSliceLit e.2 s.2 statics
  | none => e.2

/-- `add_statics`: loop over `triangle.slices.items()`, `source.slices.get(key)`, concatenate,
`Triangle(rich_cells)` -/
def addStaticsLit (t source : List Cell) (statics : List String) : Except Err (List Cell) :=
  Triangle.ofCells ((Triangle.slices t).flatMap (addStaticsBlockLit (Triangle.slices source) statics))

/-- one iteration of `for idx, cells in tri1_cells.items()` -/
def periodMergeGroupLit (tri2 : List ((Date × Date × Metadata) × List Cell)) (suffix : Option String)
    (e : (Date × Date × Metadata) × List Cell) : Except Err (List Cell) :=
  match groupGet tri2 e.1 with
  | [] => .ok e.2
  | [r] => .ok (e.2.map fun c => overwriteValues c r suffix)
  | _ => .error .valueError

/-- `period_merge`: two `defaultdict(list)` keyed `(period_start, period_end, metadata)`, loop over
the left one in insertion order, `Triangle(output_cells)` -/
def periodMergeLit (a b : List Cell) (suffix : Option String) : Except Err (List Cell) := do
  if kindMismatch a b then throw .valueError
  let idx := fun c : Cell => (c.ps, c.pe, c.md)
  let out ← (groupBy idx a).mapM (periodMergeGroupLit (groupBy idx b) suffix)
  Triangle.ofCells out.flatten

end Bermuda
