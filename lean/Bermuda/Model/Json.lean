/-
Wire format between the Python harness and the Lean drivers: one JSON document per line.
  Date      [y,m,d]
  Rat       "n/d" or "n"
  Val       null | ["i",n] | ["f","n/d"] | ["a",isInt,[shape],["n/d",...]]
  MVal      null | ["n","n/d"] | ["s","text"] | ["d",[y,m,d]]
  Metadata  {"rb","co","cu","re","ld","lim","det":[[k,v]..],"ldet":[[k,v]..]}
  Cell      {"k":"C"|"U"|"I","ps","pe","ev","prev","v":[[k,val]..],"m":Metadata}
-/
import Lean.Data.Json
import Bermuda.Model.Triangle
open Lean
namespace Bermuda

def ratToString (q : Rat) : String :=
  if q.den == 1 then toString q.num else s!"{q.num}/{q.den}"

def parseInt? (s : String) : Option Int := s.toInt?

def parseRat? (s : String) : Option Rat :=
  match s.splitOn "/" with
  | [n] => (parseInt? n).map (fun (i : Int) => (i : Rat))
  | [n, d] => do
      let n ← parseInt? n
      let d ← d.toNat?
      if d == 0 then none else some (mkRat n d)
  | _ => none

def Date.toJson (d : Date) : Json := Json.arr #[Json.num (JsonNumber.fromInt d.y), (d.m : Nat), (d.d : Nat)]

def jInt? (j : Json) : Except String Int :=
  match j.getInt? with
  | .ok i => .ok i
  | .error e => .error e

def Date.fromJson (j : Json) : Except String Date := do
  let a ← j.getArr?
  if a.size != 3 then throw "date: want [y,m,d]"
  let y ← jInt? a[0]!
  let m ← a[1]!.getNat?
  let d ← a[2]!.getNat?
  return ⟨y, m, d⟩

def optToJson {α} (f : α → Json) : Option α → Json
  | none => Json.null
  | some a => f a

def optFromJson {α} (f : Json → Except String α) (j : Json) : Except String (Option α) :=
  if j.isNull then .ok none else (f j).map some

def ratToJson (q : Rat) : Json := Json.str (ratToString q)

def ratFromJson (j : Json) : Except String Rat :=
  match j with
  | .str s => match parseRat? s with
    | some q => .ok q
    | none => .error s!"bad rational {s}"
  | .num _ => (jInt? j).map (fun (i : Int) => (i : Rat))
  | _ => .error "rational: want string or number"

def Val.toJson : Val → Json
  | .none => Json.null
  | .int i => Json.arr #["i", Json.num (JsonNumber.fromInt i)]
  | .flt q => Json.arr #["f", ratToJson q]
  | .arr isInt shape data =>
    Json.arr #["a", Json.bool isInt, Json.arr (shape.map (fun (n : Nat) => (n : Json))).toArray,
               Json.arr (data.map ratToJson).toArray]

def Val.fromJson (j : Json) : Except String Val := do
  if j.isNull then return .none
  let a ← j.getArr?
  if a.size < 2 then throw "val: short"
  let tag ← a[0]!.getStr?
  match tag with
  | "i" => return .int (← jInt? a[1]!)
  | "f" => return .flt (← ratFromJson a[1]!)
  | "a" =>
    if a.size != 4 then throw "val: arr wants 4"
    let isInt ← a[1]!.getBool?
    let shape ← (← a[2]!.getArr?).toList.mapM (·.getNat?)
    let data ← (← a[3]!.getArr?).toList.mapM ratFromJson
    return .arr isInt shape data
  | t => throw s!"val: bad tag {t}"

def MVal.toJson : MVal → Json
  | .none => Json.null
  | .num q => Json.arr #["n", ratToJson q]
  | .str s => Json.arr #["s", Json.str s]
  | .date d => Json.arr #["d", d.toJson]

def MVal.fromJson (j : Json) : Except String MVal := do
  if j.isNull then return .none
  let a ← j.getArr?
  if a.size != 2 then throw "mval: want pair"
  match (← a[0]!.getStr?) with
  | "n" => return .num (← ratFromJson a[1]!)
  | "s" => return .str (← a[1]!.getStr?)
  | "d" => return .date (← Date.fromJson a[1]!)
  | t => throw s!"mval: bad tag {t}"

def dictToJson {α} (f : α → Json) (d : Dict α) : Json :=
  Json.arr (d.map (fun p => Json.arr #[Json.str p.1, f p.2])).toArray

def dictFromJson {α} (f : Json → Except String α) (j : Json) : Except String (Dict α) := do
  (← j.getArr?).toList.mapM fun e => do
    let a ← e.getArr?
    if a.size != 2 then throw "dict: want pairs"
    return (← a[0]!.getStr?, ← f a[1]!)

def strToJson (s : String) : Json := Json.str s

def Metadata.toJson (m : Metadata) : Json :=
  Json.mkObj [
    ("rb", optToJson strToJson m.riskBasis), ("co", optToJson strToJson m.country),
    ("cu", optToJson strToJson m.currency), ("re", optToJson strToJson m.reinsuranceBasis),
    ("ld", optToJson strToJson m.lossDefinition), ("lim", optToJson ratToJson m.limit),
    ("det", dictToJson MVal.toJson m.details), ("ldet", dictToJson MVal.toJson m.lossDetails)]

def Metadata.fromJson (j : Json) : Except String Metadata := do
  let s (k : String) : Except String (Option String) := do
    optFromJson (·.getStr?) (← j.getObjVal? k)
  return {
    riskBasis := ← s "rb", country := ← s "co", currency := ← s "cu",
    reinsuranceBasis := ← s "re", lossDefinition := ← s "ld",
    limit := ← optFromJson ratFromJson (← j.getObjVal? "lim"),
    details := ← dictFromJson MVal.fromJson (← j.getObjVal? "det"),
    lossDetails := ← dictFromJson MVal.fromJson (← j.getObjVal? "ldet") }

def CellKind.toStr : CellKind → String
  | .cell => "C" | .cumulative => "U" | .incremental => "I"

def CellKind.ofStr : String → Except String CellKind
  | "C" => .ok .cell | "U" => .ok .cumulative | "I" => .ok .incremental
  | s => .error s!"bad cell kind {s}"

def Cell.toJson (c : Cell) : Json :=
  Json.mkObj [
    ("k", Json.str c.kind.toStr), ("ps", c.ps.toJson), ("pe", c.pe.toJson), ("ev", c.ev.toJson),
    ("prev", optToJson Date.toJson c.prev), ("v", dictToJson Val.toJson c.values),
    ("m", c.md.toJson)]

def Cell.fromJson (j : Json) : Except String Cell := do
  return {
    kind := ← CellKind.ofStr (← (← j.getObjVal? "k").getStr?),
    ps := ← Date.fromJson (← j.getObjVal? "ps"),
    pe := ← Date.fromJson (← j.getObjVal? "pe"),
    ev := ← Date.fromJson (← j.getObjVal? "ev"),
    prev := ← optFromJson Date.fromJson (← j.getObjVal? "prev"),
    values := ← dictFromJson Val.fromJson (← j.getObjVal? "v"),
    md := ← Metadata.fromJson (← j.getObjVal? "m") }

def cellsToJson (cs : List Cell) : Json := Json.arr (cs.map Cell.toJson).toArray

def cellsFromJson (j : Json) : Except String (List Cell) := do
  (← j.getArr?).toList.mapM Cell.fromJson

/-- result of an operation that may raise -/
def exceptToJson {α} (f : α → Json) : Except Err α → Json
  | .ok a => Json.mkObj [("ok", f a)]
  | .error e => Json.mkObj [("err", Json.str e.name)]

/-- generic line loop: one JSON request per line, one JSON answer per line. -/
partial def serve (handle : Json → Except String Json) : IO Unit := do
  let stdin ← IO.getStdin
  let stdout ← IO.getStdout
  let rec loop : IO Unit := do
    let line ← stdin.getLine
    if line.isEmpty then return ()
    let line := line.trimAscii.toString
    if line.isEmpty then loop else
    let out := match Json.parse line >>= handle with
      | .ok j => j
      | .error e => Json.mkObj [("protocol_error", Json.str e)]
    stdout.putStrLn out.compress
    loop
  loop
  stdout.flush

end Bermuda
