/-
`bermuda/io/json.py`, statement by statement (property C07).

* `JVal`   — a JSON document as an AST (what `json.loads` with NO hook returns / what `json.dumps`
             is given): null, bool, int, float (exact ℚ), string, list, object with ORDERED keys.
* `toDict` — `triangle_to_dict` (= the AST of `to_json()`'s text).
* `decode` — `json.JSONDecoder(object_hook=TriangleDecoder.object_hook)`: the hook is applied
             bottom-up to EVERY object of the document (so also to `values`, `details`,
             `loss_details` objects), then `Triangle(cells)`.
* `fromDict` — `json_string_to_triangle` on the text of an AST (`from_json`, `from_dict`).

JSON keeps more than `Metadata.__eq__` sees (`True`/`1`/`1.0`, insertion order of detail keys), so
this file has its own cell type `JCell` whose metadata keeps the Python kind of every detail value
and of the limit; `JCell.toCell` forgets that (the shared `Cell` used for ordering).

The text layer (`json.dumps`/`json.loads`, float `repr`) is outside the model (DESIGN §7 C07 Out).
Core Lean only.
-/
import Bermuda.Model.Ops
namespace Bermuda.JsonIO
open Bermuda

/-! ## JSON AST and the JSON-level cell -/

/-- scalar JSON values: what a detail value / the limit can be -/
inductive Scalar where
  | null | bool (b : Bool) | int (i : Int) | flt (q : Rat) | str (s : String)
deriving DecidableEq, Repr, Inhabited

inductive JVal where
  | null | bool (b : Bool) | int (i : Int) | flt (q : Rat) | str (s : String)
  | arr (l : List JVal) | obj (kvs : List (String × JVal))
deriving Repr, Inhabited, BEq

def Scalar.toJ : Scalar → JVal
  | .null => .null | .bool b => .bool b | .int i => .int i | .flt q => .flt q | .str s => .str s

/-- metadata with Python kinds kept (`per_occurrence_limit` 250000 vs 250000.0; detail `True` vs
`1`) and detail dicts in insertion order -/
structure JMeta where
  riskBasis : Option String := some "Accident"
  country : Option String := none
  currency : Option String := none
  reinsuranceBasis : Option String := none
  lossDefinition : Option String := none
  limit : Scalar := .null
  details : Dict Scalar := []
  lossDetails : Dict Scalar := []
deriving DecidableEq, Repr, Inhabited

structure JCell where
  kind : CellKind := .cell
  ps : Date
  pe : Date
  ev : Date
  prev : Option Date := none
  values : Dict Val := []
  md : JMeta := {}
deriving DecidableEq, Repr, Inhabited

def boolRat (b : Bool) : Rat := if b then 1 else 0

/-- what `Metadata.__eq__` / `__lt__` see of a detail value (bool, int, float compare as numbers) -/
def Scalar.toMVal : Scalar → MVal
  | .null => .none | .bool b => .num (boolRat b) | .int i => .num i | .flt q => .num q
  | .str s => .str s

def Scalar.toLimit : Scalar → Option Rat
  | .bool b => some (boolRat b) | .int i => some i | .flt q => some q | _ => none

/-- forget the Python kinds: the canonical shared `Metadata` (details sorted by key) -/
def JMeta.toMetadata (m : JMeta) : Metadata :=
  { riskBasis := m.riskBasis, country := m.country, currency := m.currency,
    reinsuranceBasis := m.reinsuranceBasis, lossDefinition := m.lossDefinition,
    limit := m.limit.toLimit,
    details := sortItems (m.details.map fun p => (p.1, p.2.toMVal)),
    lossDetails := sortItems (m.lossDetails.map fun p => (p.1, p.2.toMVal)) }

def JCell.toCell (c : JCell) : Cell :=
  { kind := c.kind, ps := c.ps, pe := c.pe, ev := c.ev, prev := c.prev, values := c.values,
    md := c.md.toMetadata }

def JCell.le (a b : JCell) : Bool := Cell.le a.toCell b.toCell

/-- `Triangle(cells)` on JSON-level cells: class check, then the stable sort by `Cell.__lt__` -/
def ofJCells (cells : List JCell) : Except Err (List JCell) :=
  if kindsConsistent (cells.map JCell.toCell) then .ok (cells.mergeSort JCell.le)
  else .error .triangleError

/-! ## ISO dates: `strftime("%Y-%m-%d")` and `strptime(s, "%Y-%m-%d")` -/

def digitChar (n : Nat) : Char :=
  match n % 10 with
  | 0 => '0' | 1 => '1' | 2 => '2' | 3 => '3' | 4 => '4'
  | 5 => '5' | 6 => '6' | 7 => '7' | 8 => '8' | _ => '9'

def pad2 (n : Nat) : List Char := [digitChar (n / 10), digitChar n]

/-- decimal digits of `n`, most significant first, `fuel` bounds the length -/
def natDigits : Nat → Nat → List Char
  | 0, _ => []
  | fuel + 1, n => if n < 10 then [digitChar n] else natDigits fuel (n / 10) ++ [digitChar n]

/-- glibc `%Y` does NOT zero-pad: year 999 prints as "999" (and does not read back) -/
def yearChars (y : Int) : List Char := natDigits 5 y.toNat

def dateIsoChars (d : Date) : List Char :=
  yearChars d.y ++ ['-'] ++ pad2 d.m ++ ['-'] ++ pad2 d.d

def dateIso (d : Date) : String := String.ofList (dateIsoChars d)

def digitVal? (c : Char) : Option Nat :=
  if 48 ≤ c.toNat ∧ c.toNat ≤ 57 then some (c.toNat - 48) else none

/-- `%m` = `1[0-2]|0[1-9]|[1-9]`, `%d` = `3[01]|[12]\d|0[1-9]|[1-9]| [1-9]`: one or two digits,
not zero (range checked by the caller); the day may be space-padded -/
def smallField? (allowSpace : Bool) : List Char → Option Nat
  | [a] => (digitVal? a).bind fun x => if x = 0 then none else some x
  | [a, b] =>
    if allowSpace && a == ' ' then (digitVal? b).bind fun x => if x = 0 then none else some x
    else (digitVal? a).bind fun x => (digitVal? b).bind fun y =>
      if x = 0 ∧ y = 0 then none else some (10 * x + y)
  | _ => none

/-- split a char list at the first `-` -/
def splitDash : List Char → List Char × Option (List Char)
  | [] => ([], none)
  | c :: rest =>
    if c == '-' then ([], some rest)
    else let (a, b) := splitDash rest; (c :: a, b)

/-- `datetime.strptime(s, "%Y-%m-%d").date()`: `%Y` is exactly four digits; every failure is a
`ValueError`. (ASCII digits only; `re`'s Unicode `\d` is outside the model.) -/
def parseIsoChars (s : List Char) : Except Err Date :=
  match splitDash s with
  | ([y1, y2, y3, y4], some rest) =>
    match splitDash rest with
    | (ms, some ds) =>
      match digitVal? y1, digitVal? y2, digitVal? y3, digitVal? y4, smallField? false ms,
            smallField? true ds with
      | some a, some b, some c, some d, some m, some dd =>
        let y : Nat := 1000 * a + 100 * b + 10 * c + d
        if y = 0 ∨ m > 12 ∨ dd > dim (y : Int) m then .error .valueError
        else .ok ⟨(y : Int), m, dd⟩
      | _, _, _, _, _, _ => .error .valueError
    | _ => .error .valueError
  | _ => .error .valueError

def parseIso (s : String) : Except Err Date := parseIsoChars s.toList

/-! ## Writing: `triangle_to_dict` -/

/-- `value.tolist() if isinstance(value, np.ndarray) else value` (0-d → the scalar, 1-d → list;
higher ranks are outside `WFjson` and written flat here) -/
def valToJ : Val → JVal
  | .none => .null
  | .int i => .int i
  | .flt q => .flt q
  | .arr isInt shape data =>
    let elem (q : Rat) : JVal := if isInt then .int q.floor else .flt q
    match shape, data with
    | [], [q] => elem q
    | _, _ => .arr (data.map elem)

/-- `_cell_to_dict`: `{**base_dict, **values_dict}` where `base_dict` got `prev_evaluation_date`
appended for an `IncrementalCell` -/
def cellToDict (c : JCell) : JVal :=
  .obj ([("period_start", .str (dateIso c.ps)), ("period_end", .str (dateIso c.pe)),
         ("evaluation_date", .str (dateIso c.ev))]
    ++ (match c.kind, c.prev with
        | .incremental, some p => [("prev_evaluation_date", JVal.str (dateIso p))]
        | _, _ => [])
    ++ [("values", .obj (c.values.map fun kv => (kv.1, valToJ kv.2)))])

def optStrEntry (k : String) : Option String → List (String × JVal)
  | none => []
  | some s => [(k, .str s)]

def detailsEntry (k : String) (d : Dict Scalar) : List (String × JVal) :=
  if d.isEmpty then [] else [(k, .obj (d.map fun kv => (kv.1, kv.2.toJ)))]

/-- the entries of `as_dict()` (in ITS order: currency, country, risk_basis, …) that are neither
`None` nor `{}` -/
def metaEntries (m : JMeta) : List (String × JVal) :=
  optStrEntry "currency" m.currency ++ optStrEntry "country" m.country ++
  optStrEntry "risk_basis" m.riskBasis ++ optStrEntry "reinsurance_basis" m.reinsuranceBasis ++
  optStrEntry "loss_definition" m.lossDefinition ++
  (if m.limit = .null then [] else [("per_occurrence_limit", m.limit.toJ)]) ++
  detailsEntry "details" m.details ++ detailsEntry "loss_details" m.lossDetails

/-- `_slice_to_dict`: the metadata of the slice's FIRST cell, then `cells` -/
def sliceToDict (cells : List JCell) : JVal :=
  .obj ((match cells with | [] => [] | c :: _ => metaEntries c.md)
        ++ [("cells", .arr (cells.map cellToDict))])

/-- `tri.slices.values()`: `toolz.groupby` by metadata (Python `Metadata.__eq__`/`__hash__`: kinds
and key order forgotten), groups in first-appearance order, each re-built by `Triangle(...)` -/
def slicesOf (t : List JCell) : List (List JCell) :=
  (groupBy (fun c : JCell => c.md.toMetadata) t).map fun g => g.2.mergeSort JCell.le

/-- `triangle_to_dict` -/
def toDict (t : List JCell) : JVal :=
  .obj [("slices", .arr ((slicesOf t).map sliceToDict))]

/-! ## Reading: the decoder with its object hook -/

/-- a decoded Python value: plain JSON data, or what the hook made of an object -/
inductive PVal where
  | null | bool (b : Bool) | int (i : Int) | flt (q : Rat) | str (s : String)
  | list (l : List PVal) | dict (kvs : List (String × PVal))
  | cell (c : JCell)
deriving Repr, Inhabited

/-- `dict(pairs)` as `json` builds it: a repeated key keeps its first position, last value -/
def mkDict (pairs : List (String × PVal)) : Dict PVal :=
  pairs.foldl (fun d p => Dict.set d p.1 p.2) []

/-- `acc + x`: only a list can be added to a list -/
def appendList (acc : List PVal) : PVal → Except Err (List PVal)
  | .list xs => .ok (acc ++ xs)
  | _ => .error .typeError

/-- `sum(v, [])` -/
def pySumLists : PVal → Except Err PVal
  | .list l => (l.foldlM appendList []).map PVal.list
  | .str s => if s.isEmpty then .ok (.list []) else .error .typeError
  | .dict kvs => if kvs.isEmpty then .ok (.list []) else .error .typeError
  | _ => .error .typeError

/-- `np.array(list)` for flat numeric lists: all ints → int64, ints and floats → float64,
empty → float64. Anything else (nested, strings, None, …) is outside the model. -/
def PVal.int? : PVal → Option Rat
  | .int i => some i | _ => none

def PVal.num? : PVal → Option Rat
  | .int i => some i | .flt q => some q | _ => none

def npArray (l : List PVal) : Except Err Val :=
  let ints := l.filterMap PVal.int?
  let nums := l.filterMap PVal.num?
  if l.isEmpty then .ok (.arr false [0] [])
  else if ints.length == l.length then .ok (.arr true [l.length] ints)
  else if nums.length == l.length then .ok (.arr false [l.length] nums)
  else .error .other

/-- a field value on its way into the cell constructor -/
inductive PreVal where
  | val (v : Val)
  | bad            -- not a `CellValue`: the constructor raises `TypeError`

def preVal : PVal → Except Err PreVal
  | .null => .ok (.val .none)
  | .bool b => .ok (.val (.int (if b then 1 else 0)))   -- `True` is an `int`; kind folded as on the wire
  | .int i => .ok (.val (.int i))
  | .flt q => .ok (.val (.flt q))
  | .list l => (npArray l).map .val
  | _ => .ok .bad

def getDate (d : Dict PVal) (k : String) : Except Err Date :=
  match d.get? k with
  | none => .error .keyError
  | some (.str s) => parseIso s
  | some _ => .error .typeError

/-- the date rules of `Cell.__init__` / `IncrementalCell.__init__` -/
def JCell.datesOk (c : JCell) : Bool :=
  ({ kind := c.kind, ps := c.ps, pe := c.pe, ev := c.ev, prev := c.prev } : Cell).datesOk

/-- `{k: np.array(v) if isinstance(v, list) else v for k, v in obj["values"].items()}` -/
def pValues (d : Dict PVal) : Except Err (List (String × PreVal)) :=
  match d.get? "values" with
  | some (.dict kvs) => kvs.mapM fun kv => (preVal kv.2).map fun v => (kv.1, v)
  | _ => .error .other                      -- no `.items()`: AttributeError

/-- the constructor's `isinstance(val, CellValue)` check -/
def checkValues (vals : List (String × PreVal)) : Except Err (Dict Val) :=
  vals.mapM fun kv => match kv.2 with
    | .val v => Except.ok (kv.1, v)
    | .bad => Except.error Err.typeError

def pPrev (d : Dict PVal) : Except Err (Option Date) :=
  if d.contains "prev_evaluation_date" then (getDate d "prev_evaluation_date").map some else .ok none

def mkObservation (incr : Bool) (ps pe ev : Date) (prev : Option Date) (values : Dict Val) : JCell :=
  { kind := if incr then .incremental else .cumulative, ps := ps, pe := pe, ev := ev, prev := prev,
    values := values, md := {} }

/-- `_parse_observation`: values first (numpy), then the dates left to right, then the cell
constructor (value types, then date rules) -/
def parseObservation (d : Dict PVal) : Except Err PVal :=
  (pValues d).bind fun vals =>
  (getDate d "period_start").bind fun ps =>
  (getDate d "period_end").bind fun pe =>
  (getDate d "evaluation_date").bind fun ev =>
  (pPrev d).bind fun prev =>
  (checkValues vals).bind fun values =>
  let c := mkObservation (d.contains "prev_evaluation_date") ps pe ev prev values
  if c.datesOk then .ok (.cell c) else .error .valueError

def PVal.scalar? : PVal → Option Scalar
  | .null => some .null | .bool b => some (.bool b) | .int i => some (.int i)
  | .flt q => some (.flt q) | .str s => some (.str s) | _ => none

/-- `obj.get(k, dflt)` for a string attribute, with `Metadata.__post_init__`'s type check -/
def pStrAttr (d : Dict PVal) (k : String) (dflt : Option String) : Except Err (Option String) :=
  match d.get? k with
  | none => .ok dflt
  | some .null => .ok none
  | some (.str s) => .ok (some s)
  | some _ => .error .typeError

/-- a detail value must be a `MetadataValue`: str / int / float / bool / None -/
def detailScalar (kv : String × PVal) : Except Err (String × Scalar) :=
  match kv.2.scalar? with
  | some s => .ok (kv.1, s)
  | none => .error .typeError

/-- `ob.replace(metadata=metadata)` on whatever is in the list -/
def replaceMeta (md : JMeta) : PVal → Except Err PVal
  | .cell c => .ok (.cell { c with md := md })
  | .str _ => .error .typeError       -- `str.replace` takes no keyword arguments
  | _ => .error .other                 -- AttributeError

/-- `obj.get(k, {})` for `details` / `loss_details`, with the type check -/
def pDetailAttr (d : Dict PVal) (k : String) : Except Err (Dict Scalar) :=
  match d.get? k with
  | none => .ok []
  | some (.dict kvs) => kvs.mapM detailScalar
  | some _ => .error .typeError

/-- `obj.get("per_occurrence_limit")`: int / float / None (`True` is an `int`) -/
def pLimit (d : Dict PVal) : Except Err Scalar :=
  match d.get? "per_occurrence_limit" with
  | none => .ok .null
  | some .null => .ok .null
  | some (.bool b) => .ok (.bool b)
  | some (.int i) => .ok (.int i)
  | some (.flt q) => .ok (.flt q)
  | some _ => .error .typeError

/-- `[ob.replace(metadata=metadata) for ob in obj["cells"]]` -/
def pCells (d : Dict PVal) (md : JMeta) : Except Err PVal :=
  match d.get? "cells" with
  | some (.list obs) =>
    (obs.mapM (replaceMeta md)).map PVal.list
  | some (.str s) => if s.isEmpty then .ok (.list []) else .error .typeError
  | some (.dict kvs) => if kvs.isEmpty then .ok (.list []) else .error .typeError
  | _ => .error .typeError

/-- `_parse_cell_set`: `Metadata(...)` (its `__post_init__` type checks) from `obj.get`s, then
the cells get that metadata -/
def parseCellSet (d : Dict PVal) : Except Err PVal :=
  (pStrAttr d "risk_basis" (some "Accident")).bind fun rb =>
  (pStrAttr d "country" none).bind fun co =>
  (pStrAttr d "currency" none).bind fun cu =>
  (pStrAttr d "reinsurance_basis" none).bind fun re =>
  (pStrAttr d "loss_definition" none).bind fun ld =>
  (pLimit d).bind fun lim =>
  (pDetailAttr d "details").bind fun det =>
  (pDetailAttr d "loss_details").bind fun ldet =>
  pCells d { riskBasis := rb, country := co, currency := cu, reinsuranceBasis := re,
             lossDefinition := ld, limit := lim, details := det, lossDetails := ldet }

/-- `TriangleDecoder.object_hook` -/
def objectHook (d : Dict PVal) : Except Err PVal :=
  if d.contains "slices" then pySumLists ((d.get? "slices").getD .null)
  else if d.contains "cells" then parseCellSet d
  else if d.contains "period_start" && d.contains "period_end" && d.contains "values" then
    parseObservation d
  else .ok (.dict d)

mutual
/-- `json.loads(text, cls=TriangleDecoder)` on the AST of `text`: post-order, left to right, the
hook replacing every object by its result -/
def decode : JVal → Except Err PVal
  | .null => .ok .null
  | .bool b => .ok (.bool b)
  | .int i => .ok (.int i)
  | .flt q => .ok (.flt q)
  | .str s => .ok (.str s)
  | .arr l => (decodeList l).map .list
  | .obj kvs => (decodeKvs kvs).bind fun ps => objectHook (mkDict ps)
def decodeList : List JVal → Except Err (List PVal)
  | [] => .ok []
  | x :: xs => (decode x).bind fun x' => (decodeList xs).map (x' :: ·)
def decodeKvs : List (String × JVal) → Except Err (List (String × PVal))
  | [] => .ok []
  | (k, v) :: rest => (decode v).bind fun v' => (decodeKvs rest).map ((k, v') :: ·)
end

def PVal.cell? : PVal → Option JCell
  | .cell c => some c
  | _ => none

/-- `Triangle(cells)` on whatever the decoder returned -/
def triangleOf : PVal → Except Err (List JCell)
  | .list l =>
    match l.mapM PVal.cell? with
    | some cells => ofJCells cells
    | none => .error .triangleError
  | .dict kvs => if kvs.isEmpty then .ok [] else .error .triangleError
  | .str s => if s.isEmpty then .ok [] else .error .triangleError
  | _ => .error .typeError

/-- `json_string_to_triangle(text of j)` = `from_json` = `from_dict` -/
def fromDict (j : JVal) : Except Err (List JCell) := (decode j).bind triangleOf

/-! ## Domain of the round trip -/

/-- keys that make `object_hook` treat a dict as something else -/
def triggerFree (keys : List String) : Bool :=
  !keys.contains "slices" && !keys.contains "cells" &&
  !(keys.contains "period_start" && keys.contains "period_end" && keys.contains "values")

def nodupKeys (keys : List String) : Bool :=
  match keys with
  | [] => true
  | k :: rest => !rest.contains k && nodupKeys rest

def int64 (q : Rat) : Bool := q.den == 1 && -(2 ^ 63 : Int) ≤ q.num && q.num < (2 ^ 63 : Int)

/-- JSON-representable cell value: Python int/float/None, 1-d int64 (non-empty) / float64 array -/
def wfVal : Val → Bool
  | .none => true
  | .int _ => true
  | .flt _ => true
  | .arr isInt shape data =>
    shape == [data.length] && (!isInt || (!data.isEmpty && data.all int64))

def wfDate (d : Date) : Bool := d.valid && 1000 ≤ d.y && d.y ≤ 9999

def wfDetail : Scalar → Bool
  | .null => false | _ => true

def wfDetails (d : Dict Scalar) : Bool :=
  triggerFree d.keys && nodupKeys d.keys && d.all fun kv => wfDetail kv.2

def wfMeta (m : JMeta) : Bool :=
  m.riskBasis.isSome &&
  (match m.limit with | .null | .int _ | .flt _ => true | _ => false) &&
  wfDetails m.details && wfDetails m.lossDetails

def wfCell (c : JCell) : Bool :=
  wfDate c.ps && wfDate c.pe && wfDate c.ev && (match c.prev with | some p => wfDate p | none => true) &&
  c.datesOk && triggerFree c.values.keys && nodupKeys c.values.keys &&
  c.values.all (fun kv => wfVal kv.2) && wfMeta c.md

/-- cells that Python puts in one slice (equal `Metadata`) carry the identical JSON-level metadata -/
def mdCoherent (t : List JCell) : Bool :=
  t.all fun a => t.all fun b => a.md.toMetadata != b.md.toMetadata || a.md == b.md

/-- adjacent-pairs sortedness -/
def sortedJ : List JCell → Bool
  | [] => true
  | [_] => true
  | a :: b :: rest => JCell.le a b && sortedJ (b :: rest)

/-- `WFjson`: a triangle (sorted, one class) whose contents JSON can carry (DESIGN §7 C07 H) -/
def WFjson (t : List JCell) : Bool :=
  t.all wfCell && kindsConsistent (t.map JCell.toCell) && sortedJ t && mdCoherent t

/-- the class a cell has after reading: `Cell` comes back as `CumulativeCell` -/
def typedKind : CellKind → CellKind
  | .cell => .cumulative | k => k

def asTyped (t : List JCell) : List JCell := t.map fun c => { c with kind := typedKind c.kind }

/-! ## The entry points (`bermuda/io/json.py:20-77,151-152`, `factory.py`)

The text layer is outside the model, so a string, an open handle and the file behind a path are
each identified with the AST of the text they hold; what IS modelled is which function each entry
point calls, the `isinstance(file_or_fname, str)` branch of `json_to_triangle` and the falsy test
`if file_or_fname:` of `triangle_to_json`. -/

/-- the `file_or_fname` argument of `json_to_triangle`: a path (`str`; the document is the file's
content) or an open handle -/
inductive Source where
  | path (doc : JVal)
  | handle (doc : JVal)

/-- `json_string_to_triangle(string)`: `json.loads(string, cls=TriangleDecoder)`, then `Triangle(cells)` -/
def jsonStringToTriangle (doc : JVal) : Except Err (List JCell) := (decode doc).bind triangleOf

/-- `json_to_triangle(file_or_fname)` = `Triangle.from_json`: both branches `json.load` with the
same decoder, then `Triangle(cells)` -/
def jsonToTriangle : Source → Except Err (List JCell)
  | .path doc => (decode doc).bind triangleOf
  | .handle doc => (decode doc).bind triangleOf

/-- `triangle_json_loads` (deprecated): warns, then `json_string_to_triangle` -/
def triangleJsonLoads (doc : JVal) : Except Err (List JCell) := jsonStringToTriangle doc

/-- `triangle_json_load` (deprecated): warns, then `json_to_triangle(file)` -/
def triangleJsonLoad (doc : JVal) : Except Err (List JCell) := jsonToTriangle (.handle doc)

/-- `dict_to_triangle(obj)` = `Triangle.from_dict`: `json_string_to_triangle(json.dumps(obj))`; the
AST of `json.dumps(obj)` is `obj` (text layer) -/
def dictToTriangle (obj : JVal) : Except Err (List JCell) := jsonStringToTriangle obj

/-- the `file_or_fname` argument of `triangle_to_json` -/
inductive Dest where
  | none                      -- `None` (the default)
  | path (name : String)      -- a `str`
  | handle                    -- an open file

/-- `triangle_to_json(tri, file_or_fname)` = `Triangle.to_json`: (returned text, written text), as
ASTs. `if file_or_fname:` is a truthiness test: the empty path `""` takes the return-a-string
branch (an open handle is truthy). `TriangleEncoder.default` = `triangle_to_dict`. -/
def triangleToJson (t : List JCell) : Dest → Option JVal × Option JVal
  | .none => (some (toDict t), none)
  | .path name => if name.isEmpty then (some (toDict t), none) else (none, some (toDict t))
  | .handle => (none, some (toDict t))

/-- the one document an export call produces, returned or written -/
def exported (r : Option JVal × Option JVal) : Option JVal := r.1.or r.2

end Bermuda.JsonIO
