/-
Basic public Triangle operations (triangle.py): slicing, concatenation, clip, filter, select,
derive_metadata, replace, right_edge. Each returns `Triangle(...)`, i.e. goes through
`Triangle.ofCells` exactly where the Python code calls the constructor.
-/
import Bermuda.Model.Triangle
namespace Bermuda

/-- Python slice `l[i:j]` with optional, possibly negative bounds (step 1) -/
def pySlice {α} (l : List α) (i j : Option Int) : List α :=
  let n : Int := l.length
  let norm (x : Int) : Nat := (if x < 0 then max 0 (x + n) else min x n).toNat
  let lo := match i with | none => 0 | some x => norm x
  let hi := match j with | none => l.length | some x => norm x
  (l.take hi).drop lo

/-- `t[i:j]` -/
def Triangle.getSlice (t : List Cell) (i j : Option Int) : Except Err (List Cell) :=
  Triangle.ofCells (pySlice t i j)

/-- indices selected by Python's `slice(i, j, k).indices(n)` for a non-zero step `k` -/
def pySliceIndices (n : Nat) (i j : Option Int) (k : Int) : List Nat :=
  let len : Int := n
  let lower : Int := if k < 0 then -1 else 0
  let upper : Int := if k < 0 then len - 1 else len
  let clampB (x : Int) : Int := if x < 0 then max (x + len) lower else min x upper
  let start : Int := match i with | none => (if k < 0 then upper else lower) | some x => clampB x
  let stop : Int := match j with | none => (if k < 0 then lower else upper) | some x => clampB x
  let rec go (fuel : Nat) (cur : Int) (acc : List Nat) : List Nat :=
    match fuel with
    | 0 => acc.reverse
    | fuel + 1 =>
      if (k > 0 && cur < stop) || (k < 0 && cur > stop) then go fuel (cur + k) (cur.toNat :: acc)
      else acc.reverse
  go (n + 1) start []

/-- `l[i:j:k]` -/
def pySliceStep {α} (l : List α) (i j : Option Int) (k : Int) : List α :=
  (pySliceIndices l.length i j k).filterMap (fun idx => l[idx]?)

/-- `t[i:j:k]`; a zero step raises `ValueError` -/
def Triangle.getSliceStep (t : List Cell) (i j : Option Int) (k : Int) : Except Err (List Cell) :=
  if k == 0 then .error .valueError else Triangle.ofCells (pySliceStep t i j k)

/-- `a + b` -/
def Triangle.add (a b : List Cell) : Except Err (List Cell) := Triangle.ofCells (a ++ b)

structure ClipArgs where
  minEval : Option Date := none
  maxEval : Option Date := none
  minPeriod : Option Date := none
  maxPeriod : Option Date := none
deriving Repr, Inhabited

def ClipArgs.keep (a : ClipArgs) (c : Cell) : Bool :=
  (match a.minEval with | none => true | some d => d ≤ c.ev) &&
  (match a.maxEval with | none => true | some d => c.ev ≤ d) &&
  (match a.minPeriod with | none => true | some d => d ≤ c.ps) &&
  (match a.maxPeriod with | none => true | some d => c.pe ≤ d)

/-- `t.clip(min_eval=, max_eval=, min_period=, max_period=)` (date bounds; lag bounds: C11) -/
def Triangle.clip (t : List Cell) (a : ClipArgs) : Except Err (List Cell) :=
  Triangle.ofCells (t.filter a.keep)

/-- `t.filter(pred)` with the predicate given extensionally as a mask over positions -/
def Triangle.filterMask (t : List Cell) (mask : List Bool) : Except Err (List Cell) :=
  Triangle.ofCells ((t.zip mask).filterMap fun (c, b) => if b then some c else none)

/-- `cell.select(keys)`: keep the listed keys, in the cell's own order -/
def Cell.select (c : Cell) (keys : List String) : Cell :=
  { c with values := c.values.filter (fun kv => keys.contains kv.1) }

/-- `t.select(keys)` — every new cell goes through the validating constructor -/
def Triangle.select (t : List Cell) (keys : List String) : Except Err (List Cell) := do
  Triangle.ofCells (← t.mapM (fun c => (c.select keys).mk?))

/-- insert into a canonical (key-sorted) details dict -/
def canonSet (d : Dict MVal) (k : String) (v : MVal) : Dict MVal :=
  match d with
  | [] => [(k, v)]
  | (k', v') :: rest =>
    match compare k k' with
    | .lt => (k, v) :: (k', v') :: rest
    | .eq => (k, v) :: rest
    | .gt => (k', v') :: canonSet rest k v

inductive MetaEdit where
  | riskBasis (s : Option String) | country (s : Option String) | currency (s : Option String)
  | reinsuranceBasis (s : Option String) | lossDefinition (s : Option String)
  | limit (q : Option Rat)
  | detail (k : String) (v : MVal)
deriving Repr, Inhabited

def Metadata.edit (m : Metadata) : MetaEdit → Metadata
  | .riskBasis s => { m with riskBasis := s }
  | .country s => { m with country := s }
  | .currency s => { m with currency := s }
  | .reinsuranceBasis s => { m with reinsuranceBasis := s }
  | .lossDefinition s => { m with lossDefinition := s }
  | .limit q => { m with limit := q }
  | .detail k v => { m with details := canonSet m.details k v }

/-- `t.derive_metadata(name=constant)` -/
def Triangle.deriveMetadata (t : List Cell) (e : MetaEdit) : Except Err (List Cell) := do
  Triangle.ofCells (← t.mapM (fun c => ({ c with md := c.md.edit e }).mk?))

/-- entries of `d` that every metadata's selected dict also holds with an equal value: the
`details` of the left fold of `common_metadata` over the triangle's metadata -/
def commonEntries (sel : Metadata → Dict MVal) (ms : List Metadata) : Dict MVal :=
  match ms with
  | [] => []
  | m :: rest => (sel m).filter fun kv => rest.all fun o => (sel o).get? kv.1 == some kv.2

/-- `t.remove_static_details()`: drop the detail / loss-detail keys common to all slices -/
def Triangle.removeStaticDetails (t : List Cell) : Except Err (List Cell) := do
  if t.isEmpty then return t
  let ms := Triangle.metadata t
  let cd := (commonEntries (·.details) ms).keys
  let cl := (commonEntries (·.lossDetails) ms).keys
  Triangle.ofCells (← t.mapM (fun c => ({ c with md := { c.md with
    details := c.md.details.filter (fun kv => !cd.contains kv.1),
    lossDetails := c.md.lossDetails.filter (fun kv => !cl.contains kv.1) } }).mk?))

/-- `t.replace(evaluation_date=constant)` -/
def Triangle.replaceEval (t : List Cell) (d : Date) : Except Err (List Cell) := do
  Triangle.ofCells (← t.mapM (fun c => ({ c with ev := d }).mk?))

/-- group consecutive-or-not cells by a key, keys in first-appearance order (`toolz.groupby`) -/
def groupBy {α κ} [BEq κ] (key : α → κ) (l : List α) : List (κ × List α) :=
  l.foldl (fun acc a =>
    let k := key a
    if acc.any (·.1 == k) then acc.map (fun p => if p.1 == k then (p.1, p.2 ++ [a]) else p)
    else acc ++ [(k, [a])]) []

def lastBy? {α} (le : α → α → Bool) (l : List α) : Option α := (l.mergeSort le).getLast?

/-- `t.right_edge`: for every slice (first-appearance order) and every period of the slice
(ascending), the last cell of the row sorted by `(metadata, evaluation_date)`. -/
def Triangle.rightEdge (t : List Cell) : Except Err (List Cell) :=
  let rows := (Triangle.slices t).flatMap fun (_, cs) =>
    (groupBy (fun c : Cell => (c.ps, c.pe)) cs).filterMap fun (_, row) =>
      lastBy? (fun a b => Date.cmp a.ev b.ev != .gt) row
  Triangle.ofCells rows

/-- the modelled public operations -/
inductive Op where
  | slice (i j : Option Int)
  | sliceStep (i j : Option Int) (k : Int)
  | removeStaticDetails
  | add (other : List Cell)
  | clip (a : ClipArgs)
  | filterMask (mask : List Bool)
  | select (keys : List String)
  | deriveMetadata (e : MetaEdit)
  | replaceEval (d : Date)
  | rightEdge

def step (t : List Cell) : Op → Except Err (List Cell)
  | .slice i j => Triangle.getSlice t i j
  | .sliceStep i j k => Triangle.getSliceStep t i j k
  | .removeStaticDetails => Triangle.removeStaticDetails t
  | .add o => Triangle.add t o
  | .clip a => Triangle.clip t a
  | .filterMask m => Triangle.filterMask t m
  | .select ks => Triangle.select t ks
  | .deriveMetadata e => Triangle.deriveMetadata t e
  | .replaceEval d => Triangle.replaceEval t d
  | .rightEdge => Triangle.rightEdge t


/-- run a sequence of operations, stopping at the first error -/
def run (t : List Cell) : List Op → Except Err (List Cell)
  | [] => .ok t
  | op :: ops => match step t op with
    | .ok t' => run t' ops
    | .error e => .error e


end Bermuda
