/-
Basic public Triangle operations (triangle.py): slicing, concatenation, clip, filter, select,
derive_metadata, replace, right_edge. Each returns `Triangle(...)`, i.e. goes through
`Triangle.ofCells` exactly where the Python code calls the constructor.
-/
import Bermuda.Model.Triangle
namespace Bermuda

/-- Python slice `l[i:j]` with optional, possibly negative bounds (step 1) -/
def pySlice {α} (l : List α) (i j : Option Int) : List α :=
  let n : Int := l.length
  let norm (x : Int) : Nat := (if x < 0 then max 0 (x + n) else min x n).toNat
  let lo := match i with | none => 0 | some x => norm x
  let hi := match j with | none => l.length | some x => norm x
  (l.take hi).drop lo

/-- `t[i:j]` -/
def Triangle.getSlice (t : List Cell) (i j : Option Int) : Except Err (List Cell) :=
  Triangle.ofCells (pySlice t i j)

/-- `a + b` -/
def Triangle.add (a b : List Cell) : Except Err (List Cell) := Triangle.ofCells (a ++ b)

structure ClipArgs where
  minEval : Option Date := none
  maxEval : Option Date := none
  minPeriod : Option Date := none
  maxPeriod : Option Date := none
deriving Repr, Inhabited

def ClipArgs.keep (a : ClipArgs) (c : Cell) : Bool :=
  (match a.minEval with | none => true | some d => d ≤ c.ev) &&
  (match a.maxEval with | none => true | some d => c.ev ≤ d) &&
  (match a.minPeriod with | none => true | some d => d ≤ c.ps) &&
  (match a.maxPeriod with | none => true | some d => c.pe ≤ d)

/-- `t.clip(min_eval=, max_eval=, min_period=, max_period=)` (date bounds; lag bounds: C11) -/
def Triangle.clip (t : List Cell) (a : ClipArgs) : Except Err (List Cell) :=
  Triangle.ofCells (t.filter a.keep)

/-- `t.filter(pred)` with the predicate given extensionally as a mask over positions -/
def Triangle.filterMask (t : List Cell) (mask : List Bool) : Except Err (List Cell) :=
  Triangle.ofCells ((t.zip mask).filterMap fun (c, b) => if b then some c else none)

/-- `cell.select(keys)`: keep the listed keys, in the cell's own order -/
def Cell.select (c : Cell) (keys : List String) : Cell :=
  { c with values := c.values.filter (fun kv => keys.contains kv.1) }

/-- `t.select(keys)` — every new cell goes through the validating constructor -/
def Triangle.select (t : List Cell) (keys : List String) : Except Err (List Cell) := do
  Triangle.ofCells (← t.mapM (fun c => (c.select keys).mk?))

/-- insert into a canonical (key-sorted) details dict -/
def canonSet (d : Dict MVal) (k : String) (v : MVal) : Dict MVal :=
  match d with
  | [] => [(k, v)]
  | (k', v') :: rest =>
    match compare k k' with
    | .lt => (k, v) :: (k', v') :: rest
    | .eq => (k, v) :: rest
    | .gt => (k', v') :: canonSet rest k v

inductive MetaEdit where
  | riskBasis (s : Option String) | country (s : Option String) | currency (s : Option String)
  | reinsuranceBasis (s : Option String) | lossDefinition (s : Option String)
  | limit (q : Option Rat)
  | detail (k : String) (v : MVal)
deriving Repr, Inhabited

def Metadata.edit (m : Metadata) : MetaEdit → Metadata
  | .riskBasis s => { m with riskBasis := s }
  | .country s => { m with country := s }
  | .currency s => { m with currency := s }
  | .reinsuranceBasis s => { m with reinsuranceBasis := s }
  | .lossDefinition s => { m with lossDefinition := s }
  | .limit q => { m with limit := q }
  | .detail k v => { m with details := canonSet m.details k v }

/-- `t.derive_metadata(name=constant)` -/
def Triangle.deriveMetadata (t : List Cell) (e : MetaEdit) : Except Err (List Cell) := do
  Triangle.ofCells (← t.mapM (fun c => ({ c with md := c.md.edit e }).mk?))

/-- `t.replace(evaluation_date=constant)` -/
def Triangle.replaceEval (t : List Cell) (d : Date) : Except Err (List Cell) := do
  Triangle.ofCells (← t.mapM (fun c => ({ c with ev := d }).mk?))

/-- group consecutive-or-not cells by a key, keys in first-appearance order (`toolz.groupby`) -/
def groupBy {α κ} [BEq κ] (key : α → κ) (l : List α) : List (κ × List α) :=
  l.foldl (fun acc a =>
    let k := key a
    if acc.any (·.1 == k) then acc.map (fun p => if p.1 == k then (p.1, p.2 ++ [a]) else p)
    else acc ++ [(k, [a])]) []

def lastBy? {α} (le : α → α → Bool) (l : List α) : Option α := (l.mergeSort le).getLast?

/-- `t.right_edge`: for every slice (first-appearance order) and every period of the slice
(ascending), the last cell of the row sorted by `(metadata, evaluation_date)`. -/
def Triangle.rightEdge (t : List Cell) : Except Err (List Cell) :=
  let rows := (Triangle.slices t).flatMap fun (_, cs) =>
    (groupBy (fun c : Cell => (c.ps, c.pe)) cs).filterMap fun (_, row) =>
      lastBy? (fun a b => Date.cmp a.ev b.ev != .gt) row
  Triangle.ofCells rows

/-- the modelled public operations -/
inductive Op where
  | slice (i j : Option Int)
  | add (other : List Cell)
  | clip (a : ClipArgs)
  | filterMask (mask : List Bool)
  | select (keys : List String)
  | deriveMetadata (e : MetaEdit)
  | replaceEval (d : Date)
  | rightEdge

def step (t : List Cell) : Op → Except Err (List Cell)
  | .slice i j => Triangle.getSlice t i j
  | .add o => Triangle.add t o
  | .clip a => Triangle.clip t a
  | .filterMask m => Triangle.filterMask t m
  | .select ks => Triangle.select t ks
  | .deriveMetadata e => Triangle.deriveMetadata t e
  | .replaceEval d => Triangle.replaceEval t d
  | .rightEdge => Triangle.rightEdge t


/-- run a sequence of operations, stopping at the first error -/
def run (t : List Cell) : List Op → Except Err (List Cell)
  | [] => .ok t
  | op :: ops => match step t op with
    | .ok t' => run t' ops
    | .error e => .error e


end Bermuda
