/-
The orderings the Python code sorts by: `Metadata.__lt__`, `Cell.__lt__`,
`IncrementalCell.__lt__`. Every comparison is a lexicographic combination (`compareLex`) of
projections (`cmpOn`), mirroring Python's tuple comparison. The ORDER of the attributes inside
the compared tuples is checked against the source by the translator
(`Generated/Order.lean`: `metadataLtPriority`, `cellLtPriority`, `incrementalLtPriority`).
-/
import Bermuda.Model.Basic
namespace Bermuda

/-- `(x is not None, x or "")`: `None` sorts before every string (= `Option`'s order) -/
def optStrCmp : Option String → Option String → Ordering := compare

/-- key `(x is None, x or 0)`: a missing limit sorts after every number -/
def limKey (l : Option Rat) : Bool × Rat := (l.isNone, l.getD 0)
def limCmp : Option Rat → Option Rat → Ordering :=
  cmpOn limKey (compareLex (cmpOn (·.1) compare) (cmpOn (·.2) ratCmp))

def MVal.rank : MVal → Nat
  | .none => 0 | .num _ => 1 | .str _ => 2 | .date _ => 3

/-- comparison key of a detail value: kind rank, then the payload of that kind. Only same-kind
comparisons occur for inputs Python accepts (a cross-kind `<` raises `TypeError`). -/
def MVal.key (v : MVal) : Nat × Rat × String × Date :=
  match v with
  | .none => (0, 0, "", Date.min)
  | .num q => (1, q, "", Date.min)
  | .str s => (2, 0, s, Date.min)
  | .date d => (3, 0, "", d)

def MVal.cmp : MVal → MVal → Ordering :=
  cmpOn MVal.key <|
    compareLex (cmpOn (·.1) compare) <|
    compareLex (cmpOn (·.2.1) ratCmp) <|
    compareLex (cmpOn (·.2.2.1) compare) (cmpOn (·.2.2.2) Date.cmp)

def itemCmp : String × MVal → String × MVal → Ordering :=
  compareLex (cmpOn (·.1) compare) (cmpOn (·.2) MVal.cmp)

/-- `sorted(d.items())` — keys of a dict are distinct, so this sorts by key -/
def sortItems (d : Dict MVal) : Dict MVal :=
  d.mergeSort (fun a b => itemCmp a b != .gt)

def itemsCmp : Dict MVal → Dict MVal → Ordering :=
  cmpOn sortItems (List.compareLex itemCmp)

/-- `Metadata.__lt__`'s tuple comparison -/
def Metadata.cmp : Metadata → Metadata → Ordering :=
  compareLex (cmpOn (·.riskBasis) optStrCmp) <|
  compareLex (cmpOn (·.country) optStrCmp) <|
  compareLex (cmpOn (·.currency) optStrCmp) <|
  compareLex (cmpOn (·.reinsuranceBasis) optStrCmp) <|
  compareLex (cmpOn (·.lossDefinition) optStrCmp) <|
  compareLex (cmpOn (·.limit) limCmp) <|
  compareLex (cmpOn (·.details) itemsCmp) (cmpOn (·.lossDetails) itemsCmp)

/-- Python `Metadata.__eq__` (dataclass eq): attribute-wise `==`; dict equality ignores
insertion order. -/
def Metadata.eqv (a b : Metadata) : Bool :=
  a.riskBasis == b.riskBasis && a.country == b.country && a.currency == b.currency &&
  a.reinsuranceBasis == b.reinsuranceBasis && a.lossDefinition == b.lossDefinition &&
  a.limit == b.limit && sortItems a.details == sortItems b.details &&
  sortItems a.lossDetails == sortItems b.lossDetails

def optDateKey (d : Option Date) : Bool × Date := (d.isSome, d.getD Date.min)
def optDateCmp : Option Date → Option Date → Ordering :=
  cmpOn optDateKey (compareLex (cmpOn (·.1) compare) (cmpOn (·.2) Date.cmp))

/-- `Cell.__lt__`: `(metadata, period_start, period_end, evaluation_date)`;
`IncrementalCell.__lt__`: the same plus `prev_evaluation_date` (for non-incremental cells `prev`
is `none` on both sides and the last component is `.eq`). -/
def Cell.cmp : Cell → Cell → Ordering :=
  compareLex (cmpOn (·.md) Metadata.cmp) <|
  compareLex (cmpOn (·.ps) Date.cmp) <|
  compareLex (cmpOn (·.pe) Date.cmp) <|
  compareLex (cmpOn (·.ev) Date.cmp) (cmpOn (·.prev) optDateCmp)

def Cell.lt (a b : Cell) : Bool := Cell.cmp a b == .lt

/-- the `le` handed to the stable sort: `not (b < a)` -/
def Cell.le (a b : Cell) : Bool := Cell.cmp a b != .gt

/-- `cell.coordinates` + metadata: what makes two cells "the same cell position" -/
structure Coord where
  md : Metadata
  ps : Date
  pe : Date
  ev : Date
  prev : Option Date
deriving DecidableEq, Repr

def Cell.coord (c : Cell) : Coord := ⟨c.md, c.ps, c.pe, c.ev, c.prev⟩

end Bermuda
