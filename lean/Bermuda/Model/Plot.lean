/-
`bermuda/plot.py`: `build_plot_data`, `FieldSummary`, `_calculate_field_summary`,
`_safe_apply_metric`, statement by statement, over exact rationals. Core Lean only.

What is modelled
* `COMMON_METRIC_DICT` is NOT written here: every metric is a term of the expression language
  `MExpr`, regenerated from the source's lambdas by `harness/translate_c20.py`
  (`Generated/PlotMetrics.lean`). `buildPlotData` takes the metric list as a parameter.
* rows come from `triangle.slice_period_rows` (group by `(metadata, period)`, groups sorted by key,
  each row stably sorted by evaluation date); every cell gets its predecessor and successor IN THAT
  ROW. The summaries are stored in a dict keyed by the cell (later equal key overrides), and the
  returned list is `for cell in triangle`: one record per cell in the triangle's own order.
* `FieldSummary`: a scalar (or length-1) metric yields `mean` only; a sample yields the positional
  constructor call `cls(name, metric, mean, median, std, min, max, *quantile(metric, levels))`, so
  the statistics are attached to the dataclass FIELD NAMES by position
  (`Generated.Plot.fieldSummaryFields`, `Generated.Plot.quantileLevels`).
* `np.quantile` default method (linear interpolation, virtual index `q·(n−1)`), `np.median`,
  `np.std` (population, ddof = 0). The square root of `sd` is outside the model: the entry carries
  the variance tagged `SVal.sqrt`.
Outside the model: altair charts, tooltips, units, `last_lag`, resolutions, `keep_samples=True`,
`flat=True`, `remove_empties=False`, multi-dimensional arrays, IEEE `inf/nan` from a numpy division
by zero (a Python scalar division by zero raises and yields no summary, which is modelled).
-/
import Bermuda.Model.Ops
import Bermuda.Model.DateUtils
import Bermuda.Generated.Plot
namespace Bermuda.Plot
open Bermuda

/-! ## metric expressions -/

/-- which argument of the lambda: the cell, its predecessor or its successor in the row -/
inductive Who where | cell | prev | next
deriving DecidableEq, Repr, Inhabited

inductive MExpr where
  | num (q : Rat)
  | field (w : Who) (k : String)
  | add (a b : MExpr) | sub (a b : MExpr) | mul (a b : MExpr) | div (a b : MExpr)
  | opaque
deriving DecidableEq, Repr, Inhabited

structure Metric where
  name : String
  /-- number of positional parameters of the lambda -/
  arity : Nat
  body : MExpr
deriving DecidableEq, Repr, Inhabited

/-- value of a metric: a Python/numpy scalar or a 1-D sample -/
inductive MV where
  | scalar (q : Rat)
  | sample (xs : List Rat)
deriving DecidableEq, Repr, Inhabited

/-- a cell value as an operand. `None` makes every arithmetic raise (`TypeError`), and a bare
`None` metric has no summary either: both are `none`. -/
def MV.ofVal : Val → Option MV
  | .none => none
  | .int i => some (.scalar i)
  | .flt q => some (.scalar q)
  | .arr _ [_] d => some (.sample d)
  | .arr _ _ _ => none

/-- elementwise binary operation with numpy broadcasting between scalars, length-1 and length-n
samples; `none` = the operation raised (shape mismatch, division by zero) -/
def MV.bin (f : Rat → Rat → Option Rat) : MV → MV → Option MV
  | .scalar a, .scalar b => (f a b).map .scalar
  | .scalar a, .sample ys => (ys.mapM (f a ·)).map .sample
  | .sample xs, .scalar b => (xs.mapM (f · b)).map .sample
  | .sample xs, .sample ys =>
    if xs.length == ys.length then ((xs.zip ys).mapM fun p => f p.1 p.2).map .sample
    else match xs, ys with
      | [a], _ => (ys.mapM (f a ·)).map .sample
      | _, [b] => (xs.mapM (f · b)).map .sample
      | _, _ => none

def ratAdd (a b : Rat) : Option Rat := some (a + b)
def ratSub (a b : Rat) : Option Rat := some (a - b)
def ratMul (a b : Rat) : Option Rat := some (a * b)
/-- true division; a zero divisor raises (Python scalars) -/
def ratDiv (a b : Rat) : Option Rat := if b == 0 then none else some (a / b)

/-- `cell[key]` on an optional cell: `None[...]` raises `TypeError`, a missing key `KeyError` -/
def readField (c : Option Cell) (k : String) : Option MV := do
  let cell ← c
  let v ← cell.values.get? k
  MV.ofVal v

def MExpr.eval (c : Cell) (p n : Option Cell) : MExpr → Option MV
  | .num q => some (.scalar q)
  | .field .cell k => readField (some c) k
  | .field .prev k => readField p k
  | .field .next k => readField n k
  | .add a b => do MV.bin ratAdd (← a.eval c p n) (← b.eval c p n)
  | .sub a b => do MV.bin ratSub (← a.eval c p n) (← b.eval c p n)
  | .mul a b => do MV.bin ratMul (← a.eval c p n) (← b.eval c p n)
  | .div a b => do MV.bin ratDiv (← a.eval c p n) (← b.eval c p n)
  | .opaque => none

/-- `_safe_apply_metric`: `func(cell, prev, next)`; on ANY exception `func(cell)`; on any
exception `None`. A one-parameter lambda always raises `TypeError` in the first attempt, a
three-parameter lambda always raises in the second. -/
def safeApplyMetric (m : Metric) (c : Cell) (p n : Option Cell) : Option MV :=
  if m.arity == 3 then m.body.eval c p n
  else if m.arity == 1 then m.body.eval c none none
  else none

/-! ## statistics -/

def sum (xs : List Rat) : Rat := xs.foldl (· + ·) 0
def mean (xs : List Rat) : Rat := sum xs / (xs.length : Rat)
/-- `np.std(x)**2` (population variance) -/
def variance (xs : List Rat) : Rat :=
  let m := mean xs
  sum (xs.map fun x => (x - m) * (x - m)) / (xs.length : Rat)

def sortRat (xs : List Rat) : List Rat := xs.mergeSort (fun a b => decide (a ≤ b))

/-- element `i` of a sorted sample, index clamped to the last element -/
def nth (s : List Rat) (i : Nat) : Rat := s.getD (min i (s.length - 1)) 0

/-- `np.quantile(xs, q)` (default `method="linear"`): virtual index `h = q·(n−1)`,
`s[⌊h⌋] + (s[⌊h⌋+1] − s[⌊h⌋])·(h − ⌊h⌋)` on the sorted sample -/
def quantile (xs : List Rat) (q : Rat) : Rat :=
  let s := sortRat xs
  let h := q * ((xs.length : Rat) - 1)
  let lo := h.floor.toNat
  nth s lo + (nth s (lo + 1) - nth s lo) * (h - (h.floor : Rat))

/-- `np.median`: the middle element, or the mean of the two middle elements -/
def median (xs : List Rat) : Rat :=
  let s := sortRat xs
  let n := xs.length
  if n % 2 == 1 then nth s (n / 2) else (nth s (n / 2 - 1) + nth s (n / 2)) / 2

def minimum (xs : List Rat) : Rat := nth (sortRat xs) 0
def maximum (xs : List Rat) : Rat := nth (sortRat xs) (xs.length - 1)

/-- an entry of a summary: an exact rational, or the square root of one (`sd`) -/
inductive SVal where
  | exact (q : Rat)
  | sqrt (q : Rat)
deriving DecidableEq, Repr, Inhabited

structure Summary where
  /-- (dataclass field name, value) for the statistics that are not `None` -/
  stats : List (String × SVal)
  isForecast : Bool
deriving DecidableEq, Repr, Inhabited

/-- dataclass fields that receive the positional arguments after `(field, metric)` -/
def statNames : List String := Generated.Plot.fieldSummaryFields.drop 2

/-- the positional argument list of `FieldSummary.from_metric` after `(name, metric)` -/
def statValues (xs : List Rat) : List SVal :=
  [.exact (mean xs), .exact (median xs), .sqrt (variance xs), .exact (minimum xs),
   .exact (maximum xs)] ++ Generated.Plot.quantileLevels.map fun q => .exact (quantile xs q)

/-- `_calculate_field_summary` on a metric that is not `None` -/
def fieldSummary : MV → Summary
  | .scalar q => ⟨[("mean", .exact q)], false⟩
  | .sample [x] => ⟨[("mean", .exact x)], false⟩
  | .sample xs => ⟨statNames.zip (statValues xs), variance xs != 0⟩

/-! ## build_plot_data -/

structure Record where
  ps : Date
  pe : Date
  ev : Date
  devLag : Rat
  /-- `list(cell.values)` -/
  fields : List String
  /-- (snake-case metric name, summary) in metric-dict order; empty summaries removed -/
  metrics : List (String × Summary)
deriving DecidableEq, Repr, Inhabited

/-- `_to_snake_case`: `x.replace(" ", "_").lower()` (character-wise, so that the kernel can
evaluate it on the generated names; ASCII lower-casing) -/
def toSnake (s : String) : String :=
  String.ofList (s.toList.map fun c => if c == ' ' then '_' else c.toLower)

abbrev RowKey := Metadata × Date × Date

def rowKey (c : Cell) : RowKey := (c.md, c.ps, c.pe)

def rowKeyCmp : RowKey → RowKey → Ordering :=
  compareLex (cmpOn (·.1) Metadata.cmp) (compareLex (cmpOn (·.2.1) Date.cmp) (cmpOn (·.2.2) Date.cmp))

/-- `triangle.slice_period_rows`: toolz.groupby on `(metadata, period)`, `sorted(items)` (keys
are distinct, rows are never compared), each row `sorted(key=evaluation_date)` (stable) -/
def slicePeriodRows (t : List Cell) : List (RowKey × List Cell) :=
  let grouped := groupBy rowKey t
  let sorted := grouped.mergeSort (fun a b => rowKeyCmp a.1 b.1 != .gt)
  sorted.map fun kr => (kr.1, kr.2.mergeSort (fun a b => Date.cmp a.ev b.ev != .gt))

def zip3 {α β γ} : List α → List β → List γ → List (α × β × γ)
  | a :: as, b :: bs, c :: cs => (a, b, c) :: zip3 as bs cs
  | _, _, _ => []

/-- `zip(row, [None, *row[:-1]], [*row[1:], None])` -/
def rowTriples (row : List Cell) : List (Cell × Option Cell × Option Cell) :=
  zip3 row (none :: row.dropLast.map some) ((row.drop 1).map some ++ [none])

/-- the inner dict comprehension + `remove_empties` filter: metrics whose summary is empty
(`mean is None`) are dropped -/
def cellSummaries (ms : List Metric) (c : Cell) (p n : Option Cell) : List (String × Summary) :=
  ms.filterMap fun m => (safeApplyMetric m c p n).map fun mv => (toSnake m.name, fieldSummary mv)

/-- `values_eq` -/
def valuesEq (a b : Dict Val) : Bool :=
  sortStrings a.keys == sortStrings b.keys &&
  a.all fun kv => match b.get? kv.1 with
    | some v => kv.2.eqv v
    | none => false

/-- `Cell.__eq__` inside one triangle (one cell class) -/
def cellEq (a b : Cell) : Bool :=
  a.ps == b.ps && a.pe == b.pe && a.ev == b.ev && a.md == b.md && a.prev == b.prev &&
  valuesEq a.values b.values

/-- the dict `field_summaries`, as the sequence of its assignments -/
def fieldSummaries (ms : List Metric) (t : List Cell) : List (Cell × List (String × Summary)) :=
  (slicePeriodRows t).flatMap fun kr =>
    (rowTriples kr.2).map fun (c, p, n) => (c, cellSummaries ms c p n)

/-- `field_summaries[cell]`: the value of the LAST assignment to an equal key -/
def lookupLast (c : Cell) (l : List (Cell × List (String × Summary))) : List (String × Summary) :=
  match (l.filter fun e => cellEq e.1 c).getLast? with
  | some e => e.2
  | none => []

def mkRecord (c : Cell) (metrics : List (String × Summary)) : Record :=
  { ps := c.ps, pe := c.pe, ev := c.ev, devLag := c.devLag, fields := c.values.keys,
    metrics := metrics }

/-- `build_plot_data(triangle, metric_dict)` with the default flags -/
def buildPlotData (ms : List Metric) (t : List Cell) : List Record :=
  let fs := fieldSummaries ms t
  t.map fun c => mkRecord c (lookupLast c fs)

/-! ## build_plot_data with the option `remove_empties`

`remove_empties=False` keeps, for every metric of the table, an entry in the record: the summary, or the EMPTY
summary `{}` (`FieldSummary.dict()` of a summary whose `mean is None`) when the metric has no inputs. The tooltip
is joined from the NON-EMPTY summaries whose `snake_case_field` is one of the cell's value keys
(`if v and v["snake_case_field"] in cell.values`). `flat` / `keep_samples` do not change which records and
statistics there are (`flat` renames keys, `keep_samples` changes the `metric` entry only). -/

/-- a summary slot of a record: `none` = the empty summary `{}` -/
abbrev Entry := String × Option Summary

/-- the inner dict comprehension BEFORE the `remove_empties` filter: one entry per metric -/
def cellSummariesAll (ms : List Metric) (c : Cell) (p n : Option Cell) : List Entry :=
  ms.map fun m => (toSnake m.name, (safeApplyMetric m c p n).map fieldSummary)

/-- the non-empty summaries among the entries (`if summary`) -/
def nonEmpty (l : List Entry) : List (String × Summary) :=
  l.filterMap fun e => e.2.map fun s => (e.1, s)

def fieldSummariesAll (ms : List Metric) (t : List Cell) : List (Cell × List Entry) :=
  (slicePeriodRows t).flatMap fun kr =>
    (rowTriples kr.2).map fun (c, p, n) => (c, cellSummariesAll ms c p n)

def lookupLastAll (c : Cell) (l : List (Cell × List Entry)) : List Entry :=
  match (l.filter fun e => cellEq e.1 c).getLast? with
  | some e => e.2
  | none => []

/-- `{name: summary for name, summary in values.items() if summary}` when `remove_empties` -/
def keepEntries (removeEmpties : Bool) (l : List Entry) : List Entry :=
  if removeEmpties then l.filter (·.2.isSome) else l

/-- the metric names whose tooltips are joined: `if v and v["snake_case_field"] in cell.values` -/
def tooltipNames (c : Cell) (l : List Entry) : List String :=
  (l.filter fun e => e.2.isSome && c.values.keys.contains e.1).map (·.1)

structure RecordE where
  /-- coordinates, fields and the NON-EMPTY summaries (what the default call returns) -/
  base : Record
  /-- every metric entry of the record in dict order, empty summaries as `none` -/
  entries : List Entry
  /-- names of the summaries the tooltip is joined from -/
  tooltip : List String
deriving DecidableEq, Repr, Inhabited

/-- `build_plot_data(triangle, metric_dict, remove_empties)` -/
def buildPlotDataOpt (removeEmpties : Bool) (ms : List Metric) (t : List Cell) : List RecordE :=
  let fs := fieldSummariesAll ms t
  t.map fun c =>
    let kept := keepEntries removeEmpties (lookupLastAll c fs)
    { base := mkRecord c (nonEmpty kept), entries := kept, tooltip := tooltipNames c kept }

/-! ## the options `flat` and `keep_samples`

`flat=True` applies `_flatten_dict` to every record: the entry `record[metric][stat]` moves to the key
`"<metric>_<stat>"`, an empty summary `{}` leaves no key at all. `keep_samples=True` changes ONE entry of a
sample-valued summary, `metric`, from the mean of the metric to the dict `{0: x₀, 1: x₁, …}` of its samples
(`FieldSummary.__post_init__`); scalar and length-1 metrics go through `FieldSummary(name, metric)` without the
flag and keep their mean. -/

def flatKeyL (m k : List Char) : List Char := m ++ '_' :: k

/-- `_flatten_dict`: the key of `record[metric][stat]` in the flat record, `"<metric>_<stat>"` -/
def flatKey (m k : String) : String := String.ofList (flatKeyL m.toList k.toList)

/-- the metric part of a flat record: nested `{metric: {stat: v}}` ↦ `{metric_stat: v}`; an empty summary leaves
no key -/
def flattenSummaries (ne : List (String × Summary)) : List (String × SVal) :=
  ne.flatMap fun e => e.2.stats.map fun kv => (flatKey e.1 kv.1, kv.2)

/-- the `metric` entry of a summary -/
inductive MetricEntry where
  | mean (q : Rat)
  | samples (d : List (Nat × Rat))
deriving DecidableEq, Repr, Inhabited

/-- `{i: v for i, v in enumerate(metric)}` -/
def enumerate (xs : List Rat) : List (Nat × Rat) := (List.range xs.length).zip xs

def metricEntry (keepSamples : Bool) : MV → MetricEntry
  | .scalar q => .mean q
  | .sample [x] => .mean x
  | .sample xs => if keepSamples then .samples (enumerate xs) else .mean (mean xs)

/-- a summary together with its `metric` entry -/
structure SummaryK where
  summary : Summary
  metric : MetricEntry
deriving DecidableEq, Repr, Inhabited

/-- `_calculate_field_summary(..., keep_samples)` on a metric that is not `None` -/
def fieldSummaryK (keepSamples : Bool) (mv : MV) : SummaryK := ⟨fieldSummary mv, metricEntry keepSamples mv⟩

/-- the slots of one cell with the option `keep_samples` -/
def cellSummariesAllK (keepSamples : Bool) (ms : List Metric) (c : Cell) (p n : Option Cell) :
    List (String × Option SummaryK) :=
  ms.map fun m => (toSnake m.name, (safeApplyMetric m c p n).map (fieldSummaryK keepSamples))

/-- the `metric` entries of one cell's non-empty summaries (`record[name]["metric"]`) with the option `keep_samples` -/
def metricEntries (keepSamples : Bool) (ms : List Metric) (c : Cell) (p n : Option Cell) :
    List (String × MetricEntry) :=
  ms.filterMap fun m => (safeApplyMetric m c p n).map fun mv => (toSnake m.name, metricEntry keepSamples mv)

end Bermuda.Plot
