/-
`bermuda/utils/bootstrap.py`, `thin.py`, `method_moments.py` — the structural / algebraic part.

PARAMETERS of the model (outside it): numpy's RNG and everything that is floating-point statistics.
* `thin`: the vector `rng.choice(n, k, False)` is the argument `idx`.
* `moment_match`: the vector `np.random.normal/lognormal/gamma(...)` drawn for a cell and field is
  `draws i f`; the moments handed to the sampler are not modelled.
* bootstrap, age-to-age path: the resampled factor table `resampled_atas[i]` (`lag → field →
  array indexed by period`) is the argument `F`; how it is drawn (`_empirical_atas`, volume
  weights, `rng.choice`) is not modelled.
* bootstrap, maximum-entropy path: the quantile vector computed from the uniform draws is `qs`;
  only the last line of `maximum_entropy_ensemble` (re-imposing the source's rank order) and its
  two early returns are modelled.
Modelled value domain: `None`, Python numbers, 1-D arrays (`Err.other` marks what is outside).
-/
import Bermuda.Model.Ops
import Bermuda.Model.DateUtils
namespace Bermuda.Resample

/-! ### re-imposing a rank order -/

/-- `(x_j, j) < (x_i, i)` lexicographically — the order of `sorted([v, i] for i, v in enumerate(x))` -/
def keyLt (xs : List Rat) (j i : Nat) : Bool :=
  xs.getD j 0 < xs.getD i 0 || (xs.getD j 0 == xs.getD i 0 && j < i)

/-- number of positions that come before position `i` in that order -/
def rank (xs : List Rat) (i : Nat) : Nat := (List.range xs.length).countP (keyLt xs · i)

def sortQ (qs : List Rat) : List Rat := qs.mergeSort (fun a b => a ≤ b)

/-- sort `qs`, give the k-th smallest to the position of the k-th smallest `x` (ties by index):
`[q for _, q in sorted(zip(indices, sorted(quantiles)))]` and `np.array(sorted(x))[rank_y]` -/
def reimposeRank (xs qs : List Rat) : List Rat :=
  (List.range xs.length).map fun i => (sortQ qs).getD (rank xs i) 0

/-! ### `_develop_triangle_by_atas` -/

/-- `resampled_atas[i]`: lag → field → factors by period index -/
abbrev Factors := List (Rat × List (String × List Rat))

def dedup {α} [BEq α] (l : List α) : List α :=
  l.foldl (fun acc a => if acc.contains a then acc else acc ++ [a]) []

def periodCmp (a b : Date × Date) : Ordering :=
  compareLex (cmpOn (·.1) Date.cmp) (cmpOn (·.2) Date.cmp) a b

/-- `triangle.periods`: sorted distinct `(period_start, period_end)` -/
def periodsOf (t : List Cell) : List (Date × Date) :=
  (dedup (t.map fun c => (c.ps, c.pe))).mergeSort (fun a b => periodCmp a b != .gt)

def minRat : List Rat → Option Rat
  | [] => none
  | x :: xs => some (xs.foldl (fun m y => if y < m then y else m) x)

/-- `min(triangle.filter(period == p).dev_lags())` -/
def initialLag (t : List Cell) (p : Date × Date) : Option Rat :=
  minRat ((t.filter fun c => (c.ps, c.pe) == p).map (·.devLag))

/-- Python truthiness of a cell value (`if cell.values.get(field)`) -/
def truthy : Option Val → Except Err Bool
  | none => .ok false
  | some .none => .ok false
  | some (.int i) => .ok (i != 0)
  | some (.flt q) => .ok (q != 0)
  | some (.arr _ _ _) => .error .other

/-- `v * factor` with `factor` a numpy float -/
def mulVal (v : Val) (f : Rat) : Except Err Val :=
  match v with
  | .int i => .ok (.flt ((i : Rat) * f))
  | .flt q => .ok (.flt (q * f))
  | .none => .error .typeError
  | .arr _ _ _ => .error .other

def assoc? {κ α} [BEq κ] (l : List (κ × α)) (k : κ) : Option α := (l.find? (·.1 == k)).map (·.2)

/-- the dict comprehension over the PREVIOUS developed values: selected fields only -/
def developItems (c : Cell) (tbl : List (String × List Rat)) (pidx : Nat) :
    Dict Val → Except Err (Dict Val)
  | [] => .ok []
  | (f, v) :: rest =>
    match assoc? tbl f with
    | none => developItems c tbl pidx rest            -- `if field in resampled_atas[lag]`
    | some arr =>
      match truthy (c.values.get? f) with
      | .error e => .error e
      | .ok tr =>
        let item : Except Err Val :=
          if tr then
            match arr[pidx]? with
            | none => .error .indexError
            | some x => mulVal v x
          else .ok .none
        match item with
        | .error e => .error e
        | .ok nv =>
          match developItems c tbl pidx rest with
          | .error e => .error e
          | .ok r => .ok ((f, nv) :: r)

/-- the loop over the cells; `vals` is the variable `values` (developed values of the previous
cell) -/
def developLoop (t : List Cell) (F : Factors) (vals : Dict Val) : List Cell → Except Err (List Cell)
  | [] => .ok []
  | c :: cs =>
    if initialLag t (c.ps, c.pe) == some c.devLag then
      match developLoop t F c.values cs with
      | .error e => .error e
      | .ok r => .ok (c :: r)
    else
      let items : Except Err (Dict Val) :=
        if vals.isEmpty then .ok [] else
        match assoc? F c.devLag with
        | none => .error .keyError
        | some tbl => developItems c tbl ((periodsOf t).idxOf (c.ps, c.pe)) vals
      match items with
      | .error e => .error e
      | .ok its =>
        let nv := Dict.union c.values its
        match developLoop t F nv cs with
        | .error e => .error e
        | .ok r => .ok ({ c with values := nv } :: r)

/-- `_develop_triangle_by_atas(triangle, resampled_atas)` -/
def developByAtas (t : List Cell) (F : Factors) : Except Err (List Cell) :=
  match developLoop t F [] t with
  | .error e => .error e
  | .ok cells => Triangle.ofCells cells

/-! ### bootstrap -/

def mapMExcept {α β} (f : α → Except Err β) : List α → Except Err (List β)
  | [] => .ok []
  | a :: as =>
    match f a with
    | .error e => .error e
    | .ok b =>
      match mapMExcept f as with
      | .error e => .error e
      | .ok bs => .ok (b :: bs)


/-- `.derive_metadata(details=lambda cell: {**cell.metadata.details, "bootstrap": i})` -/
def tagBootstrap (t : List Cell) (i : Nat) : Except Err (List Cell) :=
  Triangle.deriveMetadata t (.detail "bootstrap" (.num (i : Rat)))

def numOf : Val → Except Err Rat
  | .int i => .ok (i : Rat)
  | .flt q => .ok q
  | _ => .error .other

/-- `maximum_entropy_ensemble(x, U, L)` given its quantile vector `qs`: unchanged when there is one
value or all are equal, otherwise the quantiles in the rank order of `x` (numpy floats) -/
def meEnsemble (xs : List Val) (qs : List Rat) : Except Err (List Val) :=
  match xs with
  | [] => .ok []
  | [x] => .ok [x]
  | _ :: _ =>
    match mapMExcept numOf xs with
    | .error e => .error e
    | .ok nums =>
      if nums.all (fun q => q == nums.headD 0) then .ok xs
      else .ok ((reimposeRank nums qs).map Val.flt)

/-- `cell.derive_fields(**{field: values[cell_idx] ...})` for every cell, one field -/
def setField (t : List Cell) (f : String) (vs : List Val) : List Cell :=
  (t.zip vs).map fun (c, v) => { c with values := c.values.set f v }

/-- one maximum-entropy replicate of a slice (before the bootstrap tag) -/
def meCells (s : List Cell) : List String → (String → List Rat) → Except Err (List Cell)
  | [], _ => .ok s
  | f :: fs, qs =>
    match mapMExcept (fun c : Cell => match c.values.get? f with
        | some v => Except.ok v | none => Except.error Err.keyError) s with
    | .error e => .error e
    | .ok xs =>
      match meEnsemble xs (qs f) with
      | .error e => .error e
      | .ok vs =>
        match meCells s fs qs with
        | .error e => .error e
        | .ok s' => .ok (setField s' f vs)

def lagsOf (t : List Cell) : List Rat := dedup (t.map (·.devLag))
def evalsOf (t : List Cell) : List Date := dedup (t.map (·.ev))

/-- `len(dev_lags()) > 1 and len(periods) > 1 and len(evaluation_dates) > 1` -/
def useAtas (s : List Cell) : Bool :=
  (lagsOf s).length > 1 && (periodsOf s).length > 1 && (evalsOf s).length > 1

/-- `triangle.fields` -/
def fieldsOf (t : List Cell) : List String := sortStrings (dedup (t.flatMap (·.values.keys)))

/-- what is drawn for one replicate of one slice -/
structure RepParam where
  F : Factors := []
  qs : String → List Rat := fun _ => []

/-- replicate `i` of one slice -/
def replicate (s : List Cell) (fields : List String) (p : RepParam) (i : Nat) :
    Except Err (List Cell) :=
  if useAtas s then
    match developByAtas s p.F with
    | .error e => .error e
    | .ok d => tagBootstrap d i
  else
    match meCells s fields p.qs with
    | .error e => .error e
    | .ok cells =>
      match Triangle.ofCells cells with
      | .error e => .error e
      | .ok t => tagBootstrap t i

/-- `_bootstrap_slice`: `n` replicates of a slice -/
def bootstrapSlice (s : List Cell) (n : Nat) (field : Option (List String)) (P : Nat → RepParam) :
    Except Err (List (List Cell)) :=
  mapMExcept (fun i => replicate s (field.getD (fieldsOf s)) (P i) i) (List.range n)

/-- `acc + b₁ + b₂ + …`, each `+` being `Triangle(x.cells + y.cells)` -/
def sumFrom : List Cell → List (List Cell) → Except Err (List Cell)
  | acc, [] => .ok acc
  | acc, b :: bs =>
    match Triangle.add acc b with
    | .error e => .error e
    | .ok a => sumFrom a bs

/-- `sum(boot)`: `0 + a` is `a`, then left to right -/
def sumTriangles : List (List Cell) → Except Err (List Cell)
  | [] => .ok []
  | a :: rest => sumFrom a rest

/-- `bootstrap(triangle, n, seed, field)`; `P k i` are the draws for slice `k`, replicate `i` -/
def bootstrap (t : List Cell) (n : Int) (field : Option (List String)) (P : Nat → Nat → RepParam) :
    Except Err (List (List Cell)) :=
  if n ≤ 0 then .error .valueError else
  let slices := (Triangle.slices t).map (·.2)
  match mapMExcept (fun (s, k) => bootstrapSlice s n.toNat field (P k)) slices.zipIdx with
  | .error e => .error e
  | .ok boots =>
    if boots.isEmpty then .ok []                       -- `zip()` of nothing
    else mapMExcept (fun i => sumTriangles (boots.map (·.getD i []))) (List.range n.toNat)

/-! ### thin -/

/-- `triangle.num_samples` -/
def numSamples (t : List Cell) : Except Err Nat :=
  let sizes := t.flatMap fun c => c.values.filterMap fun (_, v) =>
    match v with
    | .arr _ _ d => if d.length > 1 then some d.length else none
    | _ => none
  match sizes with
  | [] => .ok 1
  | n :: rest => if rest.all (· == n) then .ok n else .error .valueError

def gather (idx : List Nat) (d : List Rat) : List Rat := idx.map (d.getD · 0)

/-- `v[ndxs] if isinstance(v, np.ndarray) and len(v) > 1 else v` (1-D arrays) -/
def thinVal (idx : List Nat) : Val → Val
  | .arr isInt [n] d => if d.length > 1 then .arr isInt [idx.length] (gather idx d) else .arr isInt [n] d
  | v => v

def thinCell (idx : List Nat) (c : Cell) : Cell :=
  { c with values := c.values.map fun (k, v) => (k, thinVal idx v) }

inductive ThinResult where
  /-- `return triangle`: the very same object -/
  | same
  | fresh (t : List Cell)
deriving Repr

/-- `thin(triangle, num_samples, seed)` with `idx = rng.choice(n, k, False)` -/
def thin (t : List Cell) (k : Nat) (idx : List Nat) : Except Err ThinResult :=
  match numSamples t with
  | .error e => .error e
  | .ok n =>
    if n < k then .error .valueError
    else if n == k then .ok .same
    else
      match Triangle.ofCells (t.map (thinCell idx)) with
      | .error e => .error e
      | .ok r => .ok (.fresh r)

/-! ### moment_match -/

/-- `_generate_samples`: arrays are replaced by the drawn vector in the source's rank order -/
def generateSamples (v : Val) (drawn : List Rat) : Val :=
  match v with
  | .arr _ [n] d => .arr false [n] (reimposeRank d drawn)
  | v => v

def momentField (f : String) (draws : Nat → List Rat) : Nat → List Cell → Except Err (List Cell)
  | _, [] => .ok []
  | i, c :: cs =>
    match c.values.get? f with
    | none => .error .keyError                          -- `ob[field]`
    | some v =>
      match momentField f draws (i + 1) cs with
      | .error e => .error e
      | .ok r => .ok ({ c with values := c.values.set f (generateSamples v (draws i)) } :: r)

def momentLoop (draws : Nat → String → List Rat) : List String → List Cell → Except Err (List Cell)
  | [], t => .ok t
  | f :: fs, t =>
    match momentField f (fun i => draws i f) 0 t with
    | .error e => .error e
    | .ok cells =>
      match Triangle.ofCells cells with
      | .error e => .error e
      | .ok t' => momentLoop draws fs t'

/-- `moment_match(triangle, field_names, distribution)`; `distOk`: the name is one of the three -/
def momentMatch (t : List Cell) (fields : List String) (distOk : Bool)
    (draws : Nat → String → List Rat) : Except Err (List Cell) :=
  if fields.any (fun f => !(fieldsOf t).contains f) then .error .keyError
  else if !distOk && !fields.isEmpty && !t.isEmpty then .error .keyError
  else momentLoop draws fields t

end Bermuda.Resample
