/-
The arithmetic of the age-to-age bootstrap (bermuda/utils/bootstrap.py:91-114, 147-230), over exact rationals,
and the sampler parameters of `moment_match` (method_moments.py:19-36). numpy's draws stay PARAMETERS:
the index vectors `rng.choice(range(len(p)), size=len(p), p=p, replace=True)` are `I`.

    def _empirical_atas(triangle, fields):
        zipped_lags = zip(triangle.dev_lags()[1:], triangle.dev_lags()[:-1])
        for lag, prev_lag in zipped_lags:
            clipped_tri = triangle.clip(min_dev=prev_lag, max_dev=lag)
            lag_cells = [(next_cell, prev_cell) for next_cell, prev_cell in zip(clipped_tri[1:], clipped_tri[:-1])
                         if next_cell.period == prev_cell.period]
            atas[lag] = {field: np.array([_safe_ata_division(next_cell.values.get(field), prev_cell.values.get(field))
                                          for next_cell, prev_cell in lag_cells]) for field in fields}
    resampled_atas[i][lag][field] = atas[lag][field][rng.choice(...)]

The probability vector `p` handed to `rng.choice` is DETERMINISTIC (a function of the slice): `ataWeights`
below (`_normalize`, `eval_date_resolution`, `lag - resolution`); the harness compares it at the RNG interface.
OUTSIDE: only the distribution `Generator.choice` realises from `p`.
-/
import Bermuda.Model.ResampleME
namespace Bermuda.Resample

/-! ### `_empirical_atas` -/

/-- `triangle.dev_lags()`: `sorted({cell.dev_lag() for cell in cells})` -/
def sortedLags (s : List Cell) : List Rat := sortQ (lagsOf s)

/-- `1 if x is None or not x else x` (a missing key reads `None`; arrays are outside the model) -/
def safeOperand : Option Val → Except Err Rat
  | none => .ok 1
  | some .none => .ok 1
  | some (.int i) => .ok (if i == 0 then 1 else (i : Rat))
  | some (.flt q) => .ok (if q == 0 then 1 else q)
  | some (.arr _ _ _) => .error .other

/-- `_safe_ata_division(x, y)`: true division of the two safe operands -/
def safeAtaDiv (x y : Option Val) : Except Err Rat :=
  match safeOperand x with
  | .error e => .error e
  | .ok a =>
    match safeOperand y with
    | .error e => .error e
    | .ok b => .ok (a / b)

/-- `triangle.clip(min_dev=lo, max_dev=hi)` -/
def clipLags (s : List Cell) (lo hi : Rat) : Except Err (List Cell) :=
  Triangle.ofCells (s.filter fun c => decide (lo ≤ c.devLag) && decide (c.devLag ≤ hi))

/-- `[(next, prev) for next, prev in zip(cl[1:], cl[:-1]) if next.period == prev.period]` -/
def lagPairs (cl : List Cell) : List (Cell × Cell) :=
  (cl.tail.zip cl).filter fun p => (p.1.ps, p.1.pe) == (p.2.ps, p.2.pe)

/-- `atas[lag][field]` for one field -/
def ataColumn (pairs : List (Cell × Cell)) (f : String) : Except Err (String × List Rat) :=
  match mapMExcept (fun p : Cell × Cell => safeAtaDiv (p.1.values.get? f) (p.2.values.get? f)) pairs with
  | .error e => .error e
  | .ok r => .ok (f, r)

/-- `atas`: lag → field → the slice's empirical factors into that lag, in triangle order -/
def ataTable (s : List Cell) (fields : List String) : Except Err Factors :=
  let lags := sortedLags s
  mapMExcept (fun lp : Rat × Rat =>
    match clipLags s lp.2 lp.1 with
    | .error e => .error e
    | .ok cl =>
      match mapMExcept (ataColumn (lagPairs cl)) fields with
      | .error e => .error e
      | .ok tbl => .ok (lp.1, tbl)) (lags.tail.zip lags)

/-! ### the volume weights `p` handed to `rng.choice` -/

/-- `eval_date_resolution(triangle)`: gcd of the differences of consecutive month ids of the sorted distinct
evaluation dates (`None` with fewer than two dates) -/
def evalResolution (s : List Cell) : Option Int :=
  let ids := ((evalsOf s).mergeSort fun a b => Date.cmp a b != .gt).map monthToId
  match (ids.tail.zip ids).map fun p => p.1 - p.2 with
  | [] => none
  | ds => some ((ds.foldl (fun g d => Nat.gcd g d.natAbs) 0 : Nat) : Int)

/-- `_normalize(x)`: uniform when the sum is 0 (`1 / x.size` raises on an empty vector), else `x / x.sum()` -/
def normalizeW (x : List Rat) : Except Err (List Rat) :=
  if sumQ x == 0 then
    if x.isEmpty then .error .other else .ok (x.map fun _ => 1 / (x.length : Rat))
  else .ok (x.map fun v => v / sumQ x)

/-- `cell[field]` as a number (`KeyError` when missing; `None`/arrays make numpy fail: outside) -/
def fieldNum (c : Cell) (f : String) : Except Err Rat :=
  match c.values.get? f with
  | none => .error .keyError
  | some (.int i) => .ok (i : Rat)
  | some (.flt q) => .ok q
  | some _ => .error .other

/-- `volume_weight[lag][field]`: the values of the cells at `lag - resolution` (triangle order), cut to the number
of factors, normalised -/
def ataWeights (s : List Cell) (fields : List String) : Except Err Factors :=
  match ataTable s fields with
  | .error e => .error e
  | .ok A =>
    match evalResolution s with
    | none => .error .typeError                              -- `lag - None`
    | some res =>
      mapMExcept (fun lt : Rat × List (String × List Rat) =>
        let prev := s.filter fun c => c.devLag == lt.1 - (res : Rat)
        match mapMExcept (fun fa : String × List Rat =>
            match mapMExcept (fun c => fieldNum c fa.1) prev with
            | .error e => Except.error e
            | .ok col =>
              match normalizeW (col.take fa.2.length) with
              | .error e => Except.error e
              | .ok p => Except.ok (fa.1, p)) lt.2 with
        | .error e => .error e
        | .ok t => .ok (lt.1, t)) A

/-! ### resampling with given index draws -/

/-- lag → field → drawn positions -/
abbrev IdxTable := List (Rat × List (String × List Nat))

/-- numpy fancy indexing `arr[idx]` (non-negative positions) -/
def gatherE (arr : List Rat) (idx : List Nat) : Except Err (List Rat) :=
  mapMExcept (fun j => match arr[j]? with | some x => Except.ok x | none => Except.error Err.indexError) idx

def idxOf (I : IdxTable) (lag : Rat) (f : String) : List Nat :=
  match assoc? I lag with
  | none => []
  | some t => (assoc? t f).getD []

/-- `resampled_atas[i]` from the slice and the index draws of replicate `i` -/
def resampledAtas (s : List Cell) (fields : List String) (I : IdxTable) : Except Err Factors :=
  match ataTable s fields with
  | .error e => .error e
  | .ok A =>
    mapMExcept (fun lt : Rat × List (String × List Rat) =>
      match mapMExcept (fun fa : String × List Rat =>
          match gatherE fa.2 (idxOf I lt.1 fa.1) with
          | .error e => Except.error e
          | .ok r => Except.ok (fa.1, r)) lt.2 with
      | .error e => .error e
      | .ok t => .ok (lt.1, t)) A

/-- the draws that keep every period's own factor: `idx = [0, 1, …, len-1]` for every lag and field -/
def identityIdx (A : Factors) : IdxTable :=
  A.map fun lt => (lt.1, lt.2.map fun fa => (fa.1, List.range fa.2.length))

/-- what is drawn for one replicate of one slice, as numpy returns it -/
structure Draws where
  I : IdxTable := []
  qs : String → List Rat := fun _ => []

/-- replicate `i` of a slice from the raw index draws (age-to-age path) / quantiles (maximum-entropy path) -/
def replicateD (s : List Cell) (fields : List String) (d : Draws) (i : Nat) : Except Err (List Cell) :=
  if useAtas s then
    match resampledAtas s fields d.I with
    | .error e => .error e
    | .ok F => replicate s fields { F := F } i
  else replicate s fields { qs := d.qs } i

/-- the parameter of the older model (`Resample.replicate`: factor table / quantile vectors) that the raw draws
amount to -/
def paramOf (s : List Cell) (fields : List String) (d : Draws) : RepParam :=
  { F := match resampledAtas s fields d.I with
         | .ok F => F
         | .error _ => []
    qs := d.qs }

def bootstrapSliceD (s : List Cell) (n : Nat) (field : Option (List String)) (D : Nat → Draws) :
    Except Err (List (List Cell)) :=
  mapMExcept (fun i => replicateD s (field.getD (fieldsOf s)) (D i) i) (List.range n)

/-- `bootstrap(triangle, n, seed, field)` with the index draws (not the factor table) as parameter -/
def bootstrapD (t : List Cell) (n : Int) (field : Option (List String)) (D : Nat → Nat → Draws) :
    Except Err (List (List Cell)) :=
  if n ≤ 0 then .error .valueError else
  let slices := (Triangle.slices t).map (·.2)
  match mapMExcept (fun (s, k) => bootstrapSliceD s n.toNat field (D k)) slices.zipIdx with
  | .error e => .error e
  | .ok boots =>
    if boots.isEmpty then .ok []
    else mapMExcept (fun i => sumTriangles (boots.map (·.getD i []))) (List.range n.toNat)

/-! ### the chained product along one period's row -/

/-- values written along a row for one field: each previous DEVELOPED value times the next resampled factor
(`v * resampled_atas[lag][field][period_idx]`, `values` carried from cell to cell) -/
def chainTail (a : Rat) : List Rat → List Rat
  | [] => []
  | x :: xs => (a * x) :: chainTail (a * x) xs

def prodQ (l : List Rat) : Rat := l.foldr (· * ·) 1

/-- consecutive ratios `v₁/v₀, v₂/v₁, …` (a period's own factors) -/
def ratiosOf : List Rat → List Rat
  | a :: b :: rest => (b / a) :: ratiosOf (b :: rest)
  | _ => []

/-- the numeric reading of a field of a value dict -/
def numGet (d : Dict Val) (f : String) : Option Rat :=
  match d.get? f with
  | some (.int i) => some (i : Rat)
  | some (.flt q) => some q
  | _ => none

/-! ### `moment_match`: what the sampler is asked for -/

/-- `np.mean(samples)` -/
def meanQ (d : List Rat) : Rat := sumQ d / (d.length : Rat)

/-- `np.var(samples)` (population variance: mean of the squared deviations) -/
def varQ (d : List Rat) : Rat := sumQ (d.map fun x => (x - meanQ d) * (x - meanQ d)) / (d.length : Rat)

/-- `_get_sample_moments` -/
def sampleMoments (d : List Rat) : Rat × Rat × Nat := (meanQ d, varQ d, d.length)

/-- `_sample_gamma_dist`: `shape = mu**2 / sigma2`, `scale = 1 / (mu / sigma2)` -/
def gammaParams (mu s2 : Rat) : Rat × Rat := (mu * mu / s2, 1 / (mu / s2))

end Bermuda.Resample
