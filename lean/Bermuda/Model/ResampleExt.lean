/-
The guards of `maximum_entropy_ensemble(x, U, L)` (bermuda/utils/bootstrap.py:250-258) on a raw Python list
that may contain `None`, in the order the code evaluates them. Wrapper around `Resample.meEnsemble`
(`Model/Resample.lean`, untouched), which models the None-free series the bootstrap hands in.

    if len(x) == 1: return x
    if all(x[0] == i for i in x[1:]): return x          # [None, None] is "constant": returned, not refused
    if any(i is None for i in x): raise ValueError
    if any(0 > u > 1 for u in U): raise ValueError      # never true (chained comparison): no U is ever refused
-/
import Bermuda.Model.Resample
namespace Bermuda.Resample

/-- Python `==` between two list elements that are `None`, `int` or `float` -/
def scalarEq : Val → Val → Bool
  | .none, .none => true
  | .int a, .int b => (a : Rat) == (b : Rat)
  | .int a, .flt b => (a : Rat) == b
  | .flt a, .int b => a == (b : Rat)
  | .flt a, .flt b => a == b
  | _, _ => false

/-- `maximum_entropy_ensemble` with its guards, given the quantile vector `qs` of the non-degenerate case -/
def meEnsembleRaw (xs : List Val) (qs : List Rat) : Except Err (List Val) :=
  match xs with
  | [] => .ok []
  | [x] => .ok [x]
  | x :: rest =>
    if rest.all (scalarEq x) then .ok xs
    else if xs.any (fun v => v == Val.none) then .error .valueError
    else meEnsemble xs qs

/-- `int` or `float` -/
def isNum : Val → Bool
  | .int _ => true | .flt _ => true | _ => false

end Bermuda.Resample
