/-
`maximum_entropy_ensemble(x, U, L)` (bermuda/utils/bootstrap.py:234-290) statement by statement, over exact
rationals; the uniform draws `U` are a PARAMETER (numpy's `rng.uniform` is outside).

    LIMITS = 0.1
    (guards: `Model/ResampleExt.lean`, `meEnsembleRaw`)
    sorted_x, indices = map(np.array, zip(*sorted([v, i] for i, v in enumerate(x))))
    if L is None: trimmed_mean = stat.trim_mean(abs(np.diff(x)), LIMITS)
    z_t = [L[0] if L else sorted_x[0] - trimmed_mean, *(sorted_x[:-1] + sorted_x[1:]) / 2,
           L[1] if L else sorted_x[-1] + trimmed_mean]
    desired_means = [0.75*sorted_x[0] + 0.25*sorted_x[1],
                     *(0.25*sorted_x[:-2] + 0.5*sorted_x[1:-1] + 0.25*sorted_x[2:]),
                     0.75*sorted_x[-1] + 0.25*sorted_x[-2]]
    xr = np.linspace(0, 1, len(x) + 1)
    U = sorted(U)
    inds = np.searchsorted(xr, U, side="right") - 1
    interpolated = [desired_means[i] - (z_t[i] + z_t[i + 1]) / 2 for i in inds]
    y0, y1 = zip(*[(z_t[i] + interpolated[j], z_t[i + 1] + interpolated[j]) for i, j in zip(inds, range(len(x)))])
    quantiles = [y0[j] + ((U[j] - xr[i]) * (y1[j] - y0[j])) / (xr[i + 1] - xr[i]) for i, j in zip(inds, range(len(x)))]
    replicate = [q for _, q in sorted(zip(indices, sorted(quantiles)))]

What "the limits" are in the code: `L = (L0, L1)` REPLACES the two outer interval ends `z_t[0]`, `z_t[-1]`;
without `L` they are `min x - tm` and `max x + tm`, `tm` = the 10 %-trimmed mean (`LIMITS = 0.1`, a fraction
cut from each end of the sorted |consecutive differences| of the series in its GIVEN order). `bootstrap` always
passes `L = (0, max x)`.

Exactness: everything is ℚ. The implementation works in float64 (true division, `np.linspace`), the
harness compares with a relative tolerance 2^-40. `xr[i]` is the exact `i / n` here.
-/
import Bermuda.Model.ResampleExt
namespace Bermuda.Resample

/-! ### `scipy.stats.trim_mean(a, 0.1)` -/

def sumQ (l : List Rat) : Rat := l.foldr (· + ·) 0

/-- `abs(np.diff(x))`: |x[i+1] - x[i]| in the GIVEN order of the series -/
def absDiffs : List Rat → List Rat
  | a :: b :: rest => (if b - a < 0 then -(b - a) else b - a) :: absDiffs (b :: rest)
  | _ => []

/-- `trim_mean(a, 0.1)`: `lowercut = int(0.1 * nobs)` (= `nobs // 10`: the double 0.1 exceeds 1/10 by less
than 2^-58, so the product never falls below an integer it should reach nor reaches the next one),
`uppercut = nobs - lowercut`, mean of the sorted values `[lowercut:uppercut]` (`np.partition` + `np.mean`) -/
def trimMean (a : List Rat) : Rat :=
  let k := a.length / 10
  let kept := ((sortQ a).drop k).take (a.length - 2 * k)
  sumQ kept / (kept.length : Rat)

/-! ### interval ends, interval means, the index of a draw -/

/-- the outer ends `(z_t[0], z_t[-1])`: `L` when given, else `sorted_x[0] - tm`, `sorted_x[-1] + tm` -/
def meLimits (xs : List Rat) (L : Option (Rat × Rat)) : Rat × Rat :=
  match L with
  | some l => l
  | none =>
    let sx := sortQ xs
    let tm := trimMean (absDiffs xs)
    (sx.getD 0 0 - tm, sx.getD (xs.length - 1) 0 + tm)

/-- `z_t[i]` for `0 ≤ i ≤ n` (`sx` = sorted series of length `n`, `lo`/`hi` the outer ends) -/
def zAt (sx : List Rat) (lo hi : Rat) (i : Nat) : Rat :=
  if i = 0 then lo else if i ≥ sx.length then hi else (sx.getD (i - 1) 0 + sx.getD i 0) / 2

/-- `desired_means[i]` for `0 ≤ i < n` (`n ≥ 2`) -/
def meanAt (sx : List Rat) (i : Nat) : Rat :=
  if i = 0 then 3 / 4 * sx.getD 0 0 + 1 / 4 * sx.getD 1 0
  else if i + 1 ≥ sx.length then 3 / 4 * sx.getD (sx.length - 1) 0 + 1 / 4 * sx.getD (sx.length - 2) 0
  else 1 / 4 * sx.getD (i - 1) 0 + 1 / 2 * sx.getD i 0 + 1 / 4 * sx.getD (i + 1) 0

/-- `xr[i] = i / n` (`np.linspace(0, 1, n + 1)`) -/
def xrAt (n i : Nat) : Rat := (i : Rat) / (n : Rat)

/-- `np.searchsorted(xr, u, side="right") - 1`: (number of grid points `≤ u`) − 1; `-1` below 0, `n` from 1 on -/
def meIdx (n : Nat) (u : Rat) : Int :=
  (((List.range (n + 1)).countP fun i => xrAt n i ≤ u : Nat) : Int) - 1

/-- `interpolated[j]`: the mean-preserving shift of interval `i` -/
def shiftAt (sx : List Rat) (lo hi : Rat) (i : Nat) : Rat :=
  meanAt sx i - (zAt sx lo hi i + zAt sx lo hi (i + 1)) / 2

def y0At (sx : List Rat) (lo hi : Rat) (i : Nat) : Rat := zAt sx lo hi i + shiftAt sx lo hi i
def y1At (sx : List Rat) (lo hi : Rat) (i : Nat) : Rat := zAt sx lo hi (i + 1) + shiftAt sx lo hi i

/-- the piecewise-linear quantile function on interval `i` at the draw `u` -/
def quantileOn (sx : List Rat) (lo hi : Rat) (i : Nat) (u : Rat) : Rat :=
  let n := sx.length
  y0At sx lo hi i + ((u - xrAt n i) * (y1At sx lo hi i - y0At sx lo hi i)) / (xrAt n (i + 1) - xrAt n i)

/-- Python's NEGATIVE index `-1` (a draw below 0, never refused because the guard `0 > u > 1` is dead):
`desired_means[-1]`, `z_t[-1]`, `z_t[0]`, `xr[-1] = 1`, `xr[0] = 0` -/
def quantileWrap (sx : List Rat) (lo hi : Rat) (u : Rat) : Rat :=
  let n := sx.length
  let sh := meanAt sx (n - 1) - (hi + lo) / 2
  let y0 := hi + sh
  let y1 := lo + sh
  y0 + ((u - 1) * (y1 - y0)) / (0 - 1)

/-- one entry of `quantiles`; `IndexError` for a draw `≥ 1` (`desired_means[n]`) -/
def meQuantile (sx : List Rat) (lo hi : Rat) (u : Rat) : Except Err Rat :=
  let i := meIdx sx.length u
  if i < 0 then .ok (quantileWrap sx lo hi u)
  else if i.toNat ≥ sx.length then .error .indexError
  else .ok (quantileOn sx lo hi i.toNat u)

/-- the list `quantiles` (before `sorted`): `U = sorted(U)`; EVERY draw is indexed (`interpolated` runs over all
of `inds`, so a surplus draw `≥ 1` raises as well), the first `len(x)` are used (`zip(inds, range(len(x)))`).
Fewer draws than values: outside the model (`Err.other`). -/
def meQuantiles (xs : List Rat) (U : List Rat) (L : Option (Rat × Rat)) : Except Err (List Rat) :=
  let sx := sortQ xs
  let lim := meLimits xs L
  let us := sortQ U
  if (us.drop xs.length).any (fun u => decide (meIdx sx.length u ≥ (sx.length : Int))) then .error .indexError
  else
    match mapMExcept (meQuantile sx lim.1 lim.2) (us.take xs.length) with
    | .error e => .error e
    | .ok qs => if us.length < xs.length then .error .other else .ok qs

/-! ### a faster executable for `reimposeRank` (same function: `@[csimp]` with a kernel-checked proof)

`Resample.rank` reads `xs.getD j 0` from a linked list inside a double loop (cubic time); series of 256-1000
values need arrays. Code compiled AFTER this point calls `reimposeRankA`; nothing changes for the theorems. -/

def keyLtA (a : Array Rat) (j i : Nat) : Bool :=
  a.getD j 0 < a.getD i 0 || (a.getD j 0 == a.getD i 0 && j < i)

def reimposeRankA (xs qs : List Rat) : List Rat :=
  let a := xs.toArray
  let sq := (sortQ qs).toArray
  let n := xs.length
  (List.range n).map fun i => sq.getD ((List.range n).countP (keyLtA a · i)) 0

theorem toArray_getD (l : List Rat) (i : Nat) : l.toArray.getD i 0 = l.getD i 0 := by
  simp [Array.getD, List.getD_eq_getElem?_getD]
  split <;> simp_all

@[csimp] theorem reimposeRank_eq_A : @reimposeRank = @reimposeRankA := by
  funext xs qs
  simp only [reimposeRank, reimposeRankA, rank, keyLt, keyLtA, toArray_getD]

/-- `maximum_entropy_ensemble(x, U, L)` on a raw Python list: the guards in code order, then the quantiles of the
sorted draws re-imposed on the rank order of `x` -/
def maxEntropy (xs : List Val) (U : List Rat) (L : Option (Rat × Rat)) : Except Err (List Val) :=
  match xs with
  | [] => .ok []
  | [x] => .ok [x]
  | x :: rest =>
    if rest.all (scalarEq x) then .ok xs
    else if xs.any (fun v => v == Val.none) then .error .valueError
    else
      match mapMExcept numOf xs with
      | .error e => .error e
      | .ok nums =>
        match meQuantiles nums U L with
        | .error e => .error e
        | .ok qs => .ok ((reimposeRank nums qs).map Val.flt)

/-- the limits `bootstrap` hands in: `L = (0, max(cell[field] for cell in triangle))` -/
def bootLimits (xs : List Rat) : Rat × Rat :=
  (0, match xs with | [] => 0 | x :: rest => rest.foldl (fun m y => if y > m then y else m) x)

/-! ### the interval envelope (used by `Spec.C17`) -/

/-- smallest / largest value the construction can return when `lo ≤ min x` and `max x ≤ hi`: the lower ends of
the (shifted) first and last interval, resp. the upper ends of the first and last interval; interior intervals
are not shifted and lie in `[min x, max x]` (`Properties.C17.me_envelope`) -/
def meLower (sx : List Rat) (lo hi : Rat) : Rat :=
  let n := sx.length
  let a := (lo + sx.getD 0 0) / 2
  let b := zAt sx lo hi (n - 1) - (hi - sx.getD (n - 1) 0) / 2
  if a ≤ b then a else b

def meUpper (sx : List Rat) (lo hi : Rat) : Rat :=
  let n := sx.length
  let a := zAt sx lo hi 1 + (sx.getD 0 0 - lo) / 2
  let b := (sx.getD (n - 1) 0 + hi) / 2
  if a ≤ b then b else a

/-- the limits `[lo, hi]` themselves bound the result when the slack on one side is at most twice the room on the
other (always so for the trimmed-mean limits) -/
def limitsBind (sx : List Rat) (lo hi : Rat) : Bool :=
  let n := sx.length
  decide (lo ≤ sx.getD 0 0) && decide (sx.getD (n - 1) 0 ≤ hi) &&
  decide (sx.getD 0 0 - lo ≤ 2 * (hi - zAt sx lo hi 1)) &&
  decide (hi - sx.getD (n - 1) 0 ≤ 2 * (zAt sx lo hi (n - 1) - lo))

end Bermuda.Resample
