/-
C11 — selection operators of `bermuda/triangle.py` and `bermuda/utils/summarize.py::split`:
`clip` (all six bounds), `filter`, `select`, `right_edge`, `slices`, `split`, the 3-index
`__getitem__`, `extract`. Statement by statement; every `Triangle(...)` call of the Python code is
a `Triangle.ofCells` here. Core Lean only.
-/
import Bermuda.Model.Ops
import Bermuda.Model.DateUtils
namespace Bermuda

/-! ## clip -/

/-- arguments of `Triangle.clip`. `unit = none` stands for an unrecognised `dev_lag_unit` string
(`calculate_dev_lag` raises `ValueError` when it is reached). Lag bounds are exact rationals:
months as such, days and timedeltas as a number of days. -/
structure ClipFull where
  minEval : Option Date := none
  maxEval : Option Date := none
  minPeriod : Option Date := none
  maxPeriod : Option Date := none
  minDev : Option Rat := none
  maxDev : Option Rat := none
  unit : Option LagUnit := some .month
deriving Repr, Inhabited

/-- `if b is not None: cells = filter(lambda cell: p(b, cell), cells)` -/
def optFilter {β} (b : Option β) (p : β → Cell → Bool) (l : List Cell) : List Cell :=
  match b with
  | none => l
  | some x => l.filter (p x)

/-- the two development-lag filters. The Python filters are lazy and chained, so `cell.dev_lag(unit)`
is evaluated only for cells that survive the earlier filters; with an unrecognised unit the first
such cell raises `ValueError`. -/
def devFilter (b : Option Rat) (u : Option LagUnit) (p : Rat → Rat → Bool) (l : List Cell) :
    Except Err (List Cell) :=
  match b with
  | none => .ok l
  | some q =>
    match u with
    | some u => .ok (l.filter fun c => p q (c.devLag u))
    | none => if l.isEmpty then .ok [] else .error .valueError

/-- `t.clip(min_eval=, max_eval=, min_period=, max_period=, min_dev=, max_dev=, dev_lag_unit=)`:
six chained filters in the order of the source, then `Triangle(list(cells))`. -/
def Triangle.clipFull (t : List Cell) (a : ClipFull) : Except Err (List Cell) := do
  let c := optFilter a.minEval (fun d c => d ≤ c.ev) t          -- cell.evaluation_date >= min_eval
  let c := optFilter a.maxEval (fun d c => c.ev ≤ d) c          -- cell.evaluation_date <= max_eval
  let c := optFilter a.minPeriod (fun d c => d ≤ c.ps) c        -- cell.period_start >= min_period
  let c := optFilter a.maxPeriod (fun d c => c.pe ≤ d) c        -- cell.period_end <= max_period
  let c ← devFilter a.minDev a.unit (fun q lag => q ≤ lag) c    -- cell.dev_lag(unit) >= min_dev
  let c ← devFilter a.maxDev a.unit (fun q lag => lag ≤ q) c    -- cell.dev_lag(unit) <= max_dev
  Triangle.ofCells c

/-! ## filter -/

/-- `t.filter(predicate)` -/
def Triangle.filterP (t : List Cell) (p : Cell → Bool) : Except Err (List Cell) :=
  Triangle.ofCells (t.filter p)

/-- the cells a positional mask keeps (`Triangle.filterMask` of Ops.lean sorts this list) -/
def maskKeep (t : List Cell) (mask : List Bool) : List Cell :=
  (t.zip mask).filterMap fun (c, b) => if b then some c else none

/-! ## split -/

/-- `key_fn` of `split`: `tuple(cell.metadata.details.get(key, None) for key in detail_keys)`.
A missing key and a key holding `None` give the same component. -/
def splitKey (keys : List String) (c : Cell) : List MVal :=
  keys.map fun k => (c.md.details.get? k).getD .none

/-- `split(triangle, detail_keys)`: `valmap(Triangle, groupby(key_fn, triangle.cells))`, a dict in
first-occurrence order of the keys. -/
def Triangle.split (t : List Cell) (keys : List String) :
    Except Err (List (List MVal × List Cell)) :=
  (groupBy (splitKey keys) t).mapM fun p => do
    let tri ← Triangle.ofCells p.2
    return (p.1, tri)

/-! ## `t[period, evaluation, metadata]` -/

/-- a period / evaluation index: a date, a slice `start:stop` (either side may be absent), or
anything else (refused with `ValueError`) -/
inductive DateIdx where
  | scalar (d : Date)
  | slice (start stop : Option Date)
  | bad
deriving Repr, Inhabited, DecidableEq

/-- the metadata index: `None` (falsy: no filtering, and not a slice), `:` or a `Metadata` -/
inductive MetaIdx where
  | none
  | all
  | is (m : Metadata)
deriving Repr, Inhabited, DecidableEq

def DateIdx.isSlice : DateIdx → Bool
  | .slice _ _ => true
  | _ => false

def MetaIdx.isSlice : MetaIdx → Bool
  | .all => true
  | _ => false

/-- `period_start, period_end` of `__getitem__` after the falsy-bound defaults
(`if not period_start: period_start = date.min`, likewise `date.max`) -/
def DateIdx.periodBounds : DateIdx → Except Err (Date × Date)
  | .slice s e => .ok (s.getD Date.min, e.getD Date.max)
  | .scalar d => .ok (d, d)
  | .bad => .error .valueError

/-- `evaluation_start, evaluation_end` (handed to `clip`, where `None` means "no bound") -/
def DateIdx.evalBounds : DateIdx → Except Err (Option Date × Option Date)
  | .slice s e => .ok (s, e)
  | .scalar d => .ok (some d, some d)
  | .bad => .error .valueError

/-- `Triangle.__getitem__` with a 3-tuple index. Returns a triangle when some index is a slice,
else the first cell of the clipped triangle (`IndexError` when it is empty). -/
def Triangle.getItem (t : List Cell) (p e : DateIdx) (m : MetaIdx) :
    Except Err (List Cell ⊕ Cell) := do
  -- if metadata and metadata != slice(None, None, None): filtered = self.filter(...)
  let filtered ← match m with
    | .is md => Triangle.filterP t (fun c => c.md == md)
    | _ => pure t
  let (ps, pe) ← p.periodBounds
  let filtered ← Triangle.filterP filtered (fun c => ps ≤ c.ps && c.ps ≤ pe)
  let (es, ee) ← e.evalBounds
  let clipped ← Triangle.clipFull filtered { minEval := es, maxEval := ee }
  if p.isSlice || e.isSlice || m.isSlice then
    return .inl clipped
  else
    match clipped with
    | [] => throw .indexError
    | c :: _ => return .inr c

/-! ## extract -/

/-- `t.extract(field_name)`: `cell.values.get(field)` per cell, in order -/
def Triangle.extract (t : List Cell) (field : String) : List Val :=
  t.map fun c => (c.values.get? field).getD .none

/-- `t.extract(fn)`: `fn(cell)` per cell, in order -/
def Triangle.extractWith {α} (t : List Cell) (f : Cell → α) : List α := t.map f

end Bermuda
