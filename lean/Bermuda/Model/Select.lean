/-
C11 — selection operators of `bermuda/triangle.py` and `bermuda/utils/summarize.py::split`:
`clip` (all six bounds), `filter`, `select`, `right_edge`, `is_right_edge_ragged`, `slices`, `split`,
`Triangle.__getitem__` (every index shape), `TriangleSlice.__init__` / `__getitem__`,
`utils/slice.py`, `extract`. Statement by statement; every `Triangle(...)` call of the Python code is
a `Triangle.ofCells` here. Core Lean only.
-/
import Bermuda.Model.Ops
import Bermuda.Model.DateUtils
namespace Bermuda

/-! ## clip -/

/-- arguments of `Triangle.clip`. `unit = none` stands for an unrecognised `dev_lag_unit` string
(`calculate_dev_lag` raises `ValueError` when it is reached). Lag bounds are exact rationals:
months as such, days and timedeltas as a number of days. -/
structure ClipFull where
  minEval : Option Date := none
  maxEval : Option Date := none
  minPeriod : Option Date := none
  maxPeriod : Option Date := none
  minDev : Option Rat := none
  maxDev : Option Rat := none
  unit : Option LagUnit := some .month
deriving Repr, Inhabited

/-- `if b is not None: cells = filter(lambda cell: p(b, cell), cells)` -/
def optFilter {β} (b : Option β) (p : β → Cell → Bool) (l : List Cell) : List Cell :=
  match b with
  | none => l
  | some x => l.filter (p x)

/-- the two development-lag filters. The Python filters are lazy and chained, so `cell.dev_lag(unit)`
is evaluated only for cells that survive the earlier filters; with an unrecognised unit the first
such cell raises `ValueError`. -/
def devFilter (b : Option Rat) (u : Option LagUnit) (p : Rat → Rat → Bool) (l : List Cell) :
    Except Err (List Cell) :=
  match b with
  | none => .ok l
  | some q =>
    match u with
    | some u => .ok (l.filter fun c => p q (c.devLag u))
    | none => if l.isEmpty then .ok [] else .error .valueError

/-- `t.clip(min_eval=, max_eval=, min_period=, max_period=, min_dev=, max_dev=, dev_lag_unit=)`:
six chained filters in the order of the source, then `Triangle(list(cells))`. -/
def Triangle.clipFull (t : List Cell) (a : ClipFull) : Except Err (List Cell) := do
  let c := optFilter a.minEval (fun d c => d ≤ c.ev) t          -- cell.evaluation_date >= min_eval
  let c := optFilter a.maxEval (fun d c => c.ev ≤ d) c          -- cell.evaluation_date <= max_eval
  let c := optFilter a.minPeriod (fun d c => d ≤ c.ps) c        -- cell.period_start >= min_period
  let c := optFilter a.maxPeriod (fun d c => c.pe ≤ d) c        -- cell.period_end <= max_period
  let c ← devFilter a.minDev a.unit (fun q lag => q ≤ lag) c    -- cell.dev_lag(unit) >= min_dev
  let c ← devFilter a.maxDev a.unit (fun q lag => lag ≤ q) c    -- cell.dev_lag(unit) <= max_dev
  Triangle.ofCells c

/-! ## filter -/

/-- `t.filter(predicate)` -/
def Triangle.filterP (t : List Cell) (p : Cell → Bool) : Except Err (List Cell) :=
  Triangle.ofCells (t.filter p)

/-- the cells a positional mask keeps (`Triangle.filterMask` of Ops.lean sorts this list) -/
def maskKeep (t : List Cell) (mask : List Bool) : List Cell :=
  (t.zip mask).filterMap fun (c, b) => if b then some c else none

/-! ## split -/

/-- `key_fn` of `split`: `tuple(cell.metadata.details.get(key, None) for key in detail_keys)`.
A missing key and a key holding `None` give the same component. -/
def splitKey (keys : List String) (c : Cell) : List MVal :=
  keys.map fun k => (c.md.details.get? k).getD .none

/-- `split(triangle, detail_keys)`: `valmap(Triangle, groupby(key_fn, triangle.cells))`, a dict in
first-occurrence order of the keys. -/
def Triangle.split (t : List Cell) (keys : List String) :
    Except Err (List (List MVal × List Cell)) :=
  (groupBy (splitKey keys) t).mapM fun p => do
    let tri ← Triangle.ofCells p.2
    return (p.1, tri)

/-! ## `t[period, evaluation, metadata]` -/

/-- a period / evaluation index: a date, a slice `start:stop` (either side may be absent), or
anything else (refused with `ValueError`) -/
inductive DateIdx where
  | scalar (d : Date)
  | slice (start stop : Option Date)
  | bad
deriving Repr, Inhabited, DecidableEq

/-- the metadata index: something falsy (`None`, `[]`, `0`, `""`: no filtering, and not a slice),
`:` (i.e. `slice(None, None, None)`), a `Metadata`, or any other truthy object (`junk`: a list of
metadata, a string, a date, a slice other than `:` …) — such an object is handed to
`cell.metadata == metadata`, which is `False` for every cell; `isSlice` records whether it is a
`slice` instance (it then counts for `any(isinstance(ind, slice) for ind in index)`) -/
inductive MetaIdx where
  | none
  | all
  | is (m : Metadata)
  | junk (isSlice : Bool)
deriving Repr, Inhabited, DecidableEq

def DateIdx.isSlice : DateIdx → Bool
  | .slice _ _ => true
  | _ => false

def MetaIdx.isSlice : MetaIdx → Bool
  | .all => true
  | .junk b => b
  | _ => false

/-- `period_start, period_end` of `__getitem__` after the falsy-bound defaults
(`if not period_start: period_start = date.min`, likewise `date.max`) -/
def DateIdx.periodBounds : DateIdx → Except Err (Date × Date)
  | .slice s e => .ok (s.getD Date.min, e.getD Date.max)
  | .scalar d => .ok (d, d)
  | .bad => .error .valueError

/-- `evaluation_start, evaluation_end` (handed to `clip`, where `None` means "no bound") -/
def DateIdx.evalBounds : DateIdx → Except Err (Option Date × Option Date)
  | .slice s e => .ok (s, e)
  | .scalar d => .ok (some d, some d)
  | .bad => .error .valueError

/-- `Triangle.__getitem__` with a 3-tuple index. Returns a triangle when some index is a slice,
else the first cell of the clipped triangle (`IndexError` when it is empty). -/
def Triangle.getItem (t : List Cell) (p e : DateIdx) (m : MetaIdx) :
    Except Err (List Cell ⊕ Cell) := do
  -- if metadata and metadata != slice(None, None, None): filtered = self.filter(...)
  let filtered ← match m with
    | .is md => Triangle.filterP t (fun c => c.md == md)
    | .junk _ => Triangle.filterP t (fun _ => false)   -- `cell.metadata == <non-Metadata>` is False
    | _ => pure t
  let (ps, pe) ← p.periodBounds
  let filtered ← Triangle.filterP filtered (fun c => ps ≤ c.ps && c.ps ≤ pe)
  let (es, ee) ← e.evalBounds
  let clipped ← Triangle.clipFull filtered { minEval := es, maxEval := ee }
  if p.isSlice || e.isSlice || m.isSlice then
    return .inl clipped
  else
    match clipped with
    | [] => throw .indexError
    | c :: _ => return .inr c

/-! ## the index object of `__getitem__`, whatever its shape -/

/-- one component of a tuple index: a date, a slice `start:stop`, a `Metadata`, a falsy object
(`None`, `0`, `""`, `[]`) or any other truthy object (`junk`: string, non-empty list, number) -/
inductive IdxVal where
  | date (d : Date)
  | slice (start stop : Option Date)
  | md (m : Metadata)
  | falsy
  | junk
deriving Repr, Inhabited, DecidableEq

/-- `isinstance(x, slice)` / `elif isinstance(x, datetime.date)` / `else: raise ValueError` -/
def IdxVal.toDateIdx : IdxVal → DateIdx
  | .date d => .scalar d
  | .slice s e => .slice s e
  | _ => .bad

/-- `if metadata and metadata != slice(None, None, None)` and the `cell.metadata == metadata` filter -/
def IdxVal.toMetaIdx : IdxVal → MetaIdx
  | .falsy => .none
  | .slice none none => .all
  | .slice _ _ => .junk true
  | .md m => .is m
  | .date _ => .junk false
  | .junk => .junk false

/-- the argument of `__getitem__`: an `int` (also `bool`), a positional `slice(i, j, k)`, something
with a `len` (tuple, list, string: its components), or something without (`None`, a date:
`len(index)` raises `TypeError`) -/
inductive Index where
  | int (i : Int)
  | slice (i j k : Option Int)
  | tuple (xs : List IdxVal)
  | noLen
deriving Repr, Inhabited

/-- `l[i]` for a Python list: negative indices count from the end, `IndexError` out of range -/
def pyIndex {α} (l : List α) (i : Int) : Except Err α :=
  let n : Int := l.length
  let k := if i < 0 then i + n else i
  if k < 0 then .error .indexError
  else match l[k.toNat]? with
    | some a => .ok a
    | none => .error .indexError

/-- `l[i:j:k]` for a Python list (`ValueError` for a zero step) -/
def pyGetSlice {α} (l : List α) (i j k : Option Int) : Except Err (List α) :=
  match k with
  | none => .ok (pySlice l i j)
  | some k => if k == 0 then .error .valueError else .ok (pySliceStep l i j k)

/-- `Triangle.__getitem__(index)`, every branch -/
def Triangle.getItemAny (t : List Cell) : Index → Except Err (List Cell ⊕ Cell)
  | .int i => do return .inr (← pyIndex t i)                  -- return self._cells[index]
  | .slice i j k => do                                         -- return Triangle(self._cells[index])
    let cs ← pyGetSlice t i j k
    return .inl (← Triangle.ofCells cs)
  | .tuple [p, e, m] => Triangle.getItem t p.toDateIdx e.toDateIdx m.toMetaIdx
  | .tuple _ => .error .valueError                             -- "Must pass three indices …"
  | .noLen => .error .typeError                                -- len(index)

/-! ## TriangleSlice -/

/-- `TriangleSlice(cells)`: `Triangle.__init__`, then
`if len(self.slices) > 1: raise TriangleError("TriangleSlice cannot have multiple slices.")` -/
def TriangleSlice.ofCells (cells : List Cell) : Except Err (List Cell) := do
  let t ← Triangle.ofCells cells
  if (Triangle.slices t).length > 1 then throw .triangleError
  return t

/-- `TriangleSlice.__getitem__` with a 2-tuple index `(period, evaluation)`. Returns a
`TriangleSlice` when some index is a slice, else the first cell of the clipped triangle
(`IndexError` when it is empty). `self.filter` and `.clip` return plain `Triangle`s; only the
final result goes through the `TriangleSlice` constructor. -/
def TriangleSlice.getItem (t : List Cell) (p e : DateIdx) : Except Err (List Cell ⊕ Cell) := do
  let (ps, pe) ← p.periodBounds
  -- filtered = self.filter(lambda cell: period_start <= cell.period_start <= period_end)
  let filtered ← Triangle.filterP t (fun c => ps ≤ c.ps && c.ps ≤ pe)
  let (es, ee) ← e.evalBounds
  let clipped ← Triangle.clipFull filtered { minEval := es, maxEval := ee }
  if p.isSlice || e.isSlice then
    return .inl (← TriangleSlice.ofCells clipped)             -- TriangleSlice(clipped.cells)
  else
    match clipped with
    | [] => throw .indexError                                  -- clipped._cells[0]
    | c :: _ => return .inr c

/-- `TriangleSlice.__getitem__(index)`, every branch -/
def TriangleSlice.getItemAny (t : List Cell) : Index → Except Err (List Cell ⊕ Cell)
  | .int i => do return .inr (← pyIndex t i)                  -- return self._cells[index]
  | .slice i j k => do                                         -- return TriangleSlice(self._cells[index])
    let cs ← pyGetSlice t i j k
    return .inl (← TriangleSlice.ofCells cs)
  | .tuple [p, e] => TriangleSlice.getItem t p.toDateIdx e.toDateIdx
  | .tuple _ => .error .valueError                             -- "Must pass two indices …"
  | .noLen => .error .typeError                                -- len(index)

/-- `slice_to_triangle(triangle_slice)` = `Triangle(triangle_slice.cells)`;
`triangle_to_slice(triangle)` = `TriangleSlice(triangle.cells)` (utils/slice.py) -/
def sliceToTriangle (s : List Cell) : Except Err (List Cell) := Triangle.ofCells s
def triangleToSlice (t : List Cell) : Except Err (List Cell) := TriangleSlice.ofCells t

/-- number of distinct elements (`len(set(xs))`) -/
def distinctCount {α} [BEq α] (xs : List α) : Nat :=
  (xs.foldl (fun acc x => if acc.contains x then acc else acc ++ [x]) []).length

/-- `t.is_right_edge_ragged`: some slice's right edge holds more than one evaluation date -/
def raggedIn : List (Metadata × List Cell) → Except Err Bool
  | [] => .ok false                                            -- return False
  | (_, slc) :: rest => do                                     -- for slc in self.slices.values():
    let re ← Triangle.rightEdge slc
    if distinctCount (re.map (·.ev)) > 1 then return true      -- len(slc.right_edge.evaluation_dates) > 1
    else raggedIn rest

def Triangle.isRightEdgeRagged (t : List Cell) : Except Err Bool := raggedIn (Triangle.slices t)

/-! ## extract -/

/-- `t.extract(field_name)`: `cell.values.get(field)` per cell, in order -/
def Triangle.extract (t : List Cell) (field : String) : List Val :=
  t.map fun c => (c.values.get? field).getD .none

/-- `t.extract(fn)`: `fn(cell)` per cell, in order -/
def Triangle.extractWith {α} (t : List Cell) (f : Cell → α) : List α := t.map f

end Bermuda
