/-
`bermuda/utils/summarize.py`: `summarize`, `summarize_cell_values`, `_conforming_sum`,
`_conforming_weighted_average`, `_non_loss_distinct_indices`, `_metadata_gcd`, `_details_gcd`,
`_metadata_attr_gcd` (not `blend*`, `split`). Core Lean only.

The per-field rules are NOT written here: they are read from `Generated/Summarize.lean`
(`summarizeRules`: (field, observed kind, keys read), regenerated from /repo by probing every closure of
`SUMMARIZE_DEFAULTS` on every run) and interpreted by `applyRule`.

Statement-by-statement correspondence
* `agg_fns = SUMMARIZE_DEFAULTS | agg_fns`                 → `ruleOf extra` (custom entries win)
* `value_keys = set(k for cell in cells for k in cell.values)` → `valueKeys` (first-occurrence order; the
  Python set order depends on string hashing, so dict order of the result is not an observable)
* `if key.lower() not in agg_fns: raise TriangleError`      → first statement of `summarizeCellValues`
* `cell_raw_values = {key: [cell.values.get(key, None) ...]}` → `rawValues` (None padding)
* `agg_fns[key.lower()](cell_raw_values)`                   → `applyRule` (the rule of the LOWER-CASED key reads
  its own keys from the raw values: a key missing there is a `KeyError`, e.g. `bf_weight` without any
  `reported_loss`, or the field `Paid_Loss` whose rule reads `paid_loss`)
* `_conforming_sum` / `_conforming_weighted_average`        → `conformingSum` / `conformingWavg`
  (`total = 0`; `None` skipped; shape check; `total += val` is IN PLACE once `total` is an ndarray, so an
  int64 total refuses a float addend with a `TypeError` (numpy same-kind casting); the weights in the
  denominator are those of ALL cells with a weight, also of cells whose value is `None`)
* `summarize_premium=False`: first non-None value of `cell_raw_values[key]` (D28 repaired) → `firstValue`; `nonLossDistinctIndices`,
  `pickIdx`; (the first distinct index is always 0, so the value is the FIRST cell's, `None` if it lacks the key)
* `summarize`: `_metadata_gcd` first, `tlz.groupby` by coordinates, one `CumulativeCell`/`IncrementalCell` per
  group (validating constructor), `Triangle(...)`.

Bounds of the model (documented; the harness does not generate beyond them)
* `np.exp` / `np.log` of the `log_industry_lr` rule are PARAMETERS (`Transc`): every theorem holds for all
  choices; the value is compared in Python with a tolerance.
* arrays of unequal shape are refused with `ValueError` (numpy would broadcast some of them); division of an
  ndarray by zero (numpy: inf/nan + warning) is reported as an error; int64 overflow is outside the model.
* `str.lower()` is modelled by `String.toLower` (ASCII); field names are ASCII.
* when several rules of one cell group raise different exception classes the class Python reports depends on
  set order; the harness compares the class only for `TriangleError`.
-/
import Bermuda.Model.Ops
import Bermuda.Generated.Summarize
namespace Bermuda
open Generated.Summarize

/-! ## sequencing helpers (first error wins, left to right) -/

def smMapE {α β} (f : α → Except Err β) : List α → Except Err (List β)
  | [] => .ok []
  | a :: l =>
    match f a with
    | .error e => .error e
    | .ok b =>
      match smMapE f l with
      | .error e => .error e
      | .ok bs => .ok (b :: bs)

def smFoldE {α β} (f : β → α → Except Err β) : β → List α → Except Err β
  | b, [] => .ok b
  | b, a :: l =>
    match f b a with
    | .error e => .error e
    | .ok b' => smFoldE f b' l

/-- distinct elements in order of first occurrence (iteration over a `set`/`dict` built from the list) -/
def smDedupAux {α} [BEq α] (seen : List α) : List α → List α
  | [] => []
  | a :: l => if seen.contains a then smDedupAux seen l else a :: smDedupAux (a :: seen) l

def smDedup {α} [BEq α] (l : List α) : List α := smDedupAux [] l

/-! ## Python / numpy arithmetic on cell values -/

def Val.isNone : Val → Bool
  | .none => true
  | _ => false

/-- `np.isscalar(v)` for the value kinds of the model (`None` is not a scalar) -/
def Val.isScalar : Val → Bool
  | .int _ => true
  | .flt _ => true
  | _ => false

/-- value at sample index `i`, scalars broadcast, `None` counts 0 -/
def Val.at (v : Val) (i : Nat) : Rat :=
  match v with
  | .none => 0
  | .int n => (n : Rat)
  | .flt q => q
  | .arr _ _ d => d.getD i 0

/-- index `i` addresses a sample of `v` (always true for scalars and `None`) -/
def Val.inRange (v : Val) (i : Nat) : Bool :=
  match v with
  | .arr _ _ d => i < d.length
  | _ => true

/-- `a + b` (new object). int+int = int, a float operand gives float, arrays elementwise (dtype int64 only
if both sides are integral), `None` operand: `TypeError`, unequal array shapes: `ValueError`. -/
def Val.nAdd : Val → Val → Except Err Val
  | .none, _ => .error .typeError
  | _, .none => .error .typeError
  | .int a, .int b => .ok (.int (a + b))
  | .int a, .flt b => .ok (.flt ((a : Rat) + b))
  | .flt a, .int b => .ok (.flt (a + (b : Rat)))
  | .flt a, .flt b => .ok (.flt (a + b))
  | .int a, .arr i s d => .ok (.arr i s (d.map fun x => (a : Rat) + x))
  | .flt a, .arr _ s d => .ok (.arr false s (d.map fun x => a + x))
  | .arr i s d, .int b => .ok (.arr i s (d.map fun x => x + (b : Rat)))
  | .arr _ s d, .flt b => .ok (.arr false s (d.map fun x => x + b))
  | .arr i s d, .arr i' s' d' =>
    if s = s' then .ok (.arr (i && i') s (List.zipWith (· + ·) d d')) else .error .valueError

/-- `a * b` -/
def Val.nMul : Val → Val → Except Err Val
  | .none, _ => .error .typeError
  | _, .none => .error .typeError
  | .int a, .int b => .ok (.int (a * b))
  | .int a, .flt b => .ok (.flt ((a : Rat) * b))
  | .flt a, .int b => .ok (.flt (a * (b : Rat)))
  | .flt a, .flt b => .ok (.flt (a * b))
  | .int a, .arr i s d => .ok (.arr i s (d.map fun x => (a : Rat) * x))
  | .flt a, .arr _ s d => .ok (.arr false s (d.map fun x => a * x))
  | .arr i s d, .int b => .ok (.arr i s (d.map fun x => x * (b : Rat)))
  | .arr _ s d, .flt b => .ok (.arr false s (d.map fun x => x * b))
  | .arr i s d, .arr i' s' d' =>
    if s = s' then .ok (.arr (i && i') s (List.zipWith (· * ·) d d')) else .error .valueError

/-- `a / b` (true division: always float). A zero divisor is an error (`ZeroDivisionError` for Python
scalars; for ndarrays numpy returns inf/nan with a warning — outside the model). -/
def Val.nDiv : Val → Val → Except Err Val
  | .none, _ => .error .typeError
  | _, .none => .error .typeError
  | .int a, .int b => if b == 0 then .error .other else .ok (.flt ((a : Rat) / (b : Rat)))
  | .int a, .flt b => if b == 0 then .error .other else .ok (.flt ((a : Rat) / b))
  | .flt a, .int b => if b == 0 then .error .other else .ok (.flt (a / (b : Rat)))
  | .flt a, .flt b => if b == 0 then .error .other else .ok (.flt (a / b))
  | .int a, .arr _ s d =>
    if d.any (· == 0) then .error .other else .ok (.arr false s (d.map fun x => (a : Rat) / x))
  | .flt a, .arr _ s d =>
    if d.any (· == 0) then .error .other else .ok (.arr false s (d.map fun x => a / x))
  | .arr _ s d, .int b => if b == 0 then .error .other else .ok (.arr false s (d.map fun x => x / (b : Rat)))
  | .arr _ s d, .flt b => if b == 0 then .error .other else .ok (.arr false s (d.map fun x => x / b))
  | .arr _ s d, .arr _ s' d' =>
    if s = s' then
      if d'.any (· == 0) then .error .other else .ok (.arr false s (List.zipWith (· / ·) d d'))
    else .error .valueError

/-- `total += v`: a new object while `total` is a Python scalar; IN PLACE once it is an ndarray, and then
numpy refuses to cast a float64 result into an int64 `total` (`UFuncTypeError`, a `TypeError`). -/
def Val.iAdd (total v : Val) : Except Err Val :=
  match Val.nAdd total v with
  | .error e => .error e
  | .ok r =>
    match total, r with
    | .arr true _ _, .arr false _ _ => .error .typeError
    | _, _ => .ok r

/-! ## `_conforming_sum`, `_conforming_weighted_average` -/

/-- the guard `not np.isscalar(total) and not np.isscalar(val) and total.shape != val.shape` -/
def shapeClash (total v : Val) : Bool := !total.isScalar && !v.isScalar && total.shape != v.shape

def sumStep (total v : Val) : Except Err Val :=
  if v.isNone then .ok total
  else if shapeClash total v then .error .valueError
  else Val.iAdd total v

/-- `_conforming_sum(values)` -/
def conformingSum (values : List Val) : Except Err Val := smFoldE sumStep (.int 0) values

def wavgStep (total : Val) (vw : Val × Val) : Except Err Val :=
  if vw.1.isNone then .ok total
  else if shapeClash total vw.1 then .error .valueError
  else
    match Val.nMul vw.1 vw.2 with
    | .error e => .error e
    | .ok p => Val.iAdd total p

/-- `sum(weight for weight in weights if weight is not None)` (builtin `sum`: `0 + w₁ + w₂ + …`) -/
def sumWeights (weights : List Val) : Except Err Val :=
  smFoldE Val.nAdd (.int 0) (weights.filter fun w => !w.isNone)

/-- `_conforming_weighted_average(values, weights)` before the post-transform -/
def conformingWavg (values weights : List Val) : Except Err Val :=
  match smFoldE wavgStep (.int 0) (values.zip weights) with
  | .error e => .error e
  | .ok total =>
    match sumWeights weights with
    | .error e => .error e
    | .ok sw => Val.nDiv total sw

/-! ## the transcendental part of the `log_industry_lr` rule (parameters) -/

/-- `np.exp` / `np.log` on one number: outside the model, universally quantified in the theorems -/
structure Transc where
  exp : Rat → Rat
  log : Rat → Rat

def Transc.id : Transc := ⟨fun x => x, fun x => x⟩

/-- elementwise application, result float -/
def Val.mapF (f : Rat → Rat) : Val → Except Err Val
  | .none => .error .typeError
  | .int a => .ok (.flt (f a))
  | .flt a => .ok (.flt (f a))
  | .arr _ s d => .ok (.arr false s (d.map f))

/-- `np.exp(list_of_values)`: the list becomes ONE ndarray first — a `None` entry makes it an object array
(`TypeError` in `exp`), scalars mixed with arrays or arrays of different shapes are inhomogeneous
(`ValueError`); iterating the result yields float scalars / float rows. -/
def expList (tr : Transc) (values : List Val) : Except Err (List Val) :=
  if values.any Val.isNone then .error .typeError
  else if values.all Val.isScalar then smMapE (Val.mapF tr.exp) values
  else
    match values with
    | [] => .ok []
    | v0 :: _ =>
      if values.all (fun v => !v.isScalar && v.shape == v0.shape) then smMapE (Val.mapF tr.exp) values
      else .error .valueError

/-! ## rules -/

inductive RuleKind where
  | sum | wavg | wavglog | unknown
deriving DecidableEq, Repr, Inhabited

structure Rule where
  kind : RuleKind
  keys : List String
deriving DecidableEq, Repr, Inhabited

def RuleKind.ofString (s : String) : RuleKind :=
  if s == "sum" then .sum else if s == "wavg" then .wavg else if s == "wavglog" then .wavglog else .unknown

abbrev RuleEntry := String × String × List String

def Rule.ofEntry (e : RuleEntry) : Rule := ⟨RuleKind.ofString e.2.1, e.2.2⟩

/-- `(SUMMARIZE_DEFAULTS | agg_fns).get(field)`; `extra` are the caller's `summary_fns` (of the three
observed shapes), which override the defaults -/
def ruleOf (extra : List RuleEntry) (field : String) : Option Rule :=
  ((extra ++ summarizeRules).find? (fun e => e.1 == field)).map Rule.ofEntry

/-- `key.lower()` (ASCII) -/
def lowerKey (k : String) : String := k.toLower

/-- `vd[key]` -/
def rawGet (raw : Dict (List Val)) (k : String) : Except Err (List Val) :=
  match raw.get? k with
  | some vs => .ok vs
  | none => .error .keyError

/-- calling one closure of the rule table on the raw values -/
def applyRule (tr : Transc) (r : Rule) (raw : Dict (List Val)) : Except Err Val :=
  match r.kind, r.keys with
  | .sum, [k] =>
    match rawGet raw k with
    | .error e => .error e
    | .ok vs => conformingSum vs
  | .wavg, [k, w] =>
    match rawGet raw k with
    | .error e => .error e
    | .ok vs =>
      match rawGet raw w with
      | .error e => .error e
      | .ok ws => conformingWavg vs ws
  | .wavglog, [k, w] =>
    match rawGet raw k with
    | .error e => .error e
    | .ok vs =>
      match expList tr vs with
      | .error e => .error e
      | .ok es =>
        match rawGet raw w with
        | .error e => .error e
        | .ok ws =>
          match conformingWavg es ws with
          | .error e => .error e
          | .ok a => Val.mapF tr.log a
  | _, _ => .error .other

/-! ## `summarize_cell_values` -/

def Cell.getV (c : Cell) (k : String) : Val := (c.values.get? k).getD .none

def valueKeys (cells : List Cell) : List String := smDedup (cells.flatMap fun c => c.values.keys)

/-- `{key: [cell.values.get(key, None) for cell in cells] for key in value_keys}` -/
def rawValues (cells : List Cell) (keys : List String) : Dict (List Val) :=
  keys.map fun k => (k, cells.map fun c => c.getV k)

def maxLimit (cells : List Cell) : Option Rat :=
  (cells.filterMap fun c => c.md.limit).foldl
    (fun acc x => match acc with
      | none => some x
      | some m => some (if m < x then x else m)) none

def distinctStep (st : List Metadata × List Nat) (mi : Metadata × Nat) : List Metadata × List Nat :=
  if st.1.any (fun m => Metadata.eqv m mi.1) then st else (st.1 ++ [mi.1], st.2 ++ [mi.2])

/-- `_non_loss_distinct_indices(cells)` -/
def nonLossDistinctIndices (cells : List Cell) : List Nat :=
  let mx := maxLimit cells
  let generic := cells.map fun c => { c.md with lossDetails := [], limit := mx }
  (generic.zipIdx.foldl distinctStep ([], [])).2

/-- `[elem for idx, elem in enumerate(values) if idx in indices]` -/
def pickIdx {α} (indices : List Nat) (values : List α) : List α :=
  (values.zipIdx.filter fun p => indices.contains p.2).map (·.1)

/-- one entry of the result: the rule of the lower-cased key applied to all raw values -/
def aggKey (tr : Transc) (extra : List RuleEntry) (raw : Dict (List Val)) (k : String) :
    Except Err (String × Val) :=
  match ruleOf extra (lowerKey k) with
  | none => .error .triangleError
  | some r =>
    match applyRule tr r raw with
    | .error e => .error e
    | .ok v => .ok (k, v)

/-- `next((val for val in values if val is not None), None)`: the first value that is not `None` -/
def firstValue : List Val → Val
  | [] => .none
  | .none :: rest => firstValue rest
  | v :: _ => v

/-- `next((val for val in cell_raw_values[key] if val is not None), None)` (repair of D28; before it was
`cell_non_loss_values[key][0]`, the FIRST cell's entry, `None` when that cell lacks the field): the value of the first
cell of the coordinate that has one, `None` if none has -/
def firstNonLoss (raw : Dict (List Val)) (k : String) : Except Err (String × Val) :=
  match raw.get? k with
  | some vs => .ok (k, firstValue vs)
  | none => .error .keyError

/-- `summarize_cell_values(cells, agg_fns, summarize_premium)` -/
def summarizeCellValues (tr : Transc) (extra : List RuleEntry) (cells : List Cell)
    (summarizePremium : Bool := true) : Except Err (Dict Val) :=
  let keys := valueKeys cells
  if keys.any (fun k => (ruleOf extra (lowerKey k)).isNone) then .error .triangleError
  else
    let raw := rawValues cells keys
    if summarizePremium then smMapE (aggKey tr extra raw) keys
    else
      -- (`_non_loss_distinct_indices` / `cell_non_loss_values` are still computed by the code but no longer read)
      let lossKeys := keys.filter fun k => !nonLossMetrics.contains k
      let nonLossKeys := keys.filter fun k => nonLossMetrics.contains k
      match smMapE (aggKey tr extra raw) lossKeys with
      | .error e => .error e
      | .ok loss =>
        match smMapE (firstNonLoss raw) nonLossKeys with
        | .error e => .error e
        | .ok nonLoss => .ok (loss ++ nonLoss)

/-! ## metadata gcd -/

/-- `len({x for x in l}) == 1` -/
def allSame {α} [BEq α] : List α → Bool
  | [] => false
  | a :: rest => rest.all (· == a)

/-- `_metadata_attr_gcd`: the first cell's attribute if every cell has it, else `None` -/
def attrGcd {α} [BEq α] (cells : List Cell) (f : Metadata → Option α) : Option α :=
  match cells with
  | [] => none
  | c :: _ => if cells.all (fun x => f x.md == f c.md) then f c.md else none

/-- `_details_gcd(dicts)`: entries of the first dict whose key is in every dict with an equal value,
`None` values dropped (Python iterates a set of keys; canonical dicts are key-sorted, a filter keeps that) -/
def detailsGcd : List (Dict MVal) → Dict MVal
  | [] => []
  | d0 :: rest => d0.filter fun kv => rest.all (fun d => d.get? kv.1 == some kv.2) && kv.2 != .none

/-- `_metadata_gcd(triangle)` -/
def metadataGcd (t : List Cell) : Except Err Metadata :=
  if !allSame (t.map (·.md.riskBasis)) then .error .triangleError
  else if !allSame (t.map (·.md.currency)) then .error .triangleError
  else
    match t with
    | [] => .error .indexError
    | c0 :: _ => .ok {
        riskBasis := c0.md.riskBasis
        currency := c0.md.currency
        country := attrGcd t (·.country)
        limit := attrGcd t (·.limit)
        lossDefinition := attrGcd t (·.lossDefinition)
        reinsuranceBasis := attrGcd t (·.reinsuranceBasis)
        details := detailsGcd (t.map (·.md.details))
        lossDetails := detailsGcd (t.map (·.md.lossDetails)) }

/-! ## `summarize` -/

abbrev CoordKey := Date × Date × Date × Option Date

/-- `triangle.is_incremental` -/
def smIsIncremental (t : List Cell) : Bool :=
  match t with
  | [] => false
  | c :: _ => c.kind == .incremental

/-- grouping key: `(period, evaluation_date)`, plus `prev_evaluation_date` on incremental triangles -/
def coordKey (incr : Bool) (c : Cell) : CoordKey := (c.ps, c.pe, c.ev, if incr then c.prev else none)

/-- one summary cell (values first — Python evaluates the arguments — then the validating constructor);
`summarize_premium` is only passed on the cumulative branch -/
def summaryCell (tr : Transc) (extra : List RuleEntry) (incr prem : Bool) (md : Metadata)
    (g : CoordKey × List Cell) : Except Err Cell :=
  match summarizeCellValues tr extra g.2 (if incr then true else prem) with
  | .error e => .error e
  | .ok vals =>
    Cell.mk? { kind := if incr then .incremental else .cumulative, ps := g.1.1, pe := g.1.2.1,
               ev := g.1.2.2.1, prev := g.1.2.2.2, values := vals, md := md }

/-- `summarize(triangle, summary_fns, summarize_premium)` -/
def summarize (tr : Transc) (extra : List RuleEntry) (t : List Cell) (prem : Bool := true) :
    Except Err (List Cell) :=
  match metadataGcd t with
  | .error e => .error e
  | .ok md =>
    let incr := smIsIncremental t
    match smMapE (summaryCell tr extra incr prem md) (groupBy (coordKey incr) t) with
    | .error e => .error e
    | .ok cells => Triangle.ofCells cells

end Bermuda
