/-
`Triangle.__init__` and the cell constructors.
-/
import Bermuda.Model.Order
namespace Bermuda

/-- the date rules of `Cell.__init__` / `IncrementalCell.__init__` (type checks are outside the
model: the harness only sends well-typed arguments) -/
def Cell.datesOk (c : Cell) : Bool :=
  !(c.pe < c.ps) && !(c.ev < c.ps) && c.ev != Date.max &&
  (match c.kind, c.prev with
   | .incremental, some p => p < c.ev
   | .incremental, none => false
   | _, some _ => false
   | _, none => true)

/-- constructor: `ValueError` unless the date rules hold -/
def Cell.mk? (c : Cell) : Except Err Cell :=
  if c.datesOk then .ok c else .error .valueError

def kindsConsistent (cells : List Cell) : Bool :=
  cells.all (·.kind == .cell) || cells.all (·.kind == .cumulative) ||
  cells.all (·.kind == .incremental)

/-- `Triangle(cells)`: class-consistency check, then Python's stable `sorted` -/
def Triangle.ofCells (cells : List Cell) : Except Err (List Cell) :=
  if kindsConsistent cells then .ok (cells.mergeSort Cell.le) else .error .triangleError

/-- distinct metadata in order of first appearance -/
def metasOf (cells : List Cell) : List Metadata :=
  cells.foldl (fun acc c => if acc.contains c.md then acc else acc ++ [c.md]) []

/-- `triangle.metadata`: sorted distinct metadata -/
def Triangle.metadata (cells : List Cell) : List Metadata :=
  (metasOf cells).mergeSort (fun a b => Metadata.cmp a b != .gt)

/-- `triangle.slices` (dict in first-appearance order; each value a Triangle) -/
def Triangle.slices (cells : List Cell) : List (Metadata × List Cell) :=
  (metasOf cells).map fun m => (m, (cells.filter (·.md == m)).mergeSort Cell.le)

end Bermuda
