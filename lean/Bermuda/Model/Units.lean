/-
C18 — the unit-changing utilities, statement by statement, over exact rationals:

* `convertCurrency`        bermuda/utils/currency.py        `convert_currency`
* `disaggregateExperience` bermuda/utils/disaggregate.py    `disaggregate_experience`
* `aqToPolicyYear`         bermuda/utils/basis.py           `accident_quarter_to_policy_year`
* `programEarnedPremium`   bermuda/utils/premium_pattern.py `program_earned_premium`

Core Lean only. Tables come from the translator (`Generated.Currency.currencyFields`,
`Generated.Units.defaultInterpolationFields`).

Scope notes (what the model does NOT follow; the harness never sends such inputs to the model):
* incremental triangles in `disaggregateExperience` (the `to_cumulative`/`to_incremental` wrapper is
  C04's subject): the model answers `Err.other`;
* period weights given as a dict (the code itself raises on `dict[:n]`, DESIGN §6);
* arrays of rank ≥ 2, empty arrays, broadcasting between arrays of different shape;
* numpy's nan/inf results when a pattern sums to zero or a resolution is 0 in
  `program_earned_premium` (`Err.other`), and `output_resolution = 0` (the code loops forever).
-/
import Bermuda.Model.Ops
import Bermuda.Model.DateUtils
import Bermuda.Generated.Currency
import Bermuda.Generated.Units
namespace Bermuda.Units
open Bermuda

/-! ## Python scalars and value arithmetic -/

/-- a Python scalar argument: `int` or `float` -/
inductive Num where
  | int (i : Int)
  | flt (q : Rat)
deriving DecidableEq, Repr, Inhabited

def Num.toRat : Num → Rat
  | .int i => (i : Rat)
  | .flt q => q

/-- `v * rate` for a cell value and a Python scalar (`None * x` raises `TypeError`);
int·int stays int, anything with a float becomes float -/
def Val.mulNum (v : Val) (r : Num) : Except Err Val :=
  match v, r with
  | .none, _ => .error .typeError
  | .int i, .int k => .ok (.int (i * k))
  | .int i, .flt q => .ok (.flt ((i : Rat) * q))
  | .flt x, r => .ok (.flt (x * r.toRat))
  | .arr isInt sh d, .int k => .ok (.arr isInt sh (d.map (· * (k : Rat))))
  | .arr _ sh d, .flt q => .ok (.arr false sh (d.map (· * q)))

/-- `v * w` for a Python/numpy float `w`: always a float result; a 0-d array gives a scalar -/
def Val.mulF (v : Val) (w : Rat) : Except Err Val :=
  match v with
  | .none => .error .typeError
  | .int i => .ok (.flt ((i : Rat) * w))
  | .flt x => .ok (.flt (x * w))
  | .arr _ [] [x] => .ok (.flt (x * w))
  | .arr _ sh d => .ok (.arr false sh (d.map (· * w)))

/-- `a + b` where `a` is a float scalar or float array (accumulator of a `defaultdict(float)`) -/
def Val.addF (a b : Val) : Except Err Val :=
  match a, b with
  | .flt x, .flt y => .ok (.flt (x + y))
  | .flt x, .arr _ sh d => .ok (.arr false sh (d.map (x + ·)))
  | .arr _ sh d, .flt y => .ok (.arr false sh (d.map (· + y)))
  | .arr _ sh d, .arr _ sh' d' =>
    if sh == sh' then .ok (.arr false sh (List.zipWith (· + ·) d d')) else .error .valueError
  | _, _ => .error .typeError

/-! ## Triangle properties used by the utilities -/

/-- distinct elements in order of first appearance (a Python `set`/`dict` before sorting) -/
def dedup {α} [BEq α] (l : List α) : List α :=
  l.foldl (fun acc a => if acc.contains a then acc else acc ++ [a]) []

def periodCmp : Date × Date → Date × Date → Ordering :=
  compareLex (cmpOn (·.1) Date.cmp) (cmpOn (·.2) Date.cmp)

/-- `triangle.periods`: sorted unique `(period_start, period_end)` -/
def periods (t : List Cell) : List (Date × Date) :=
  (dedup (t.map fun c => (c.ps, c.pe))).mergeSort (fun a b => periodCmp a b != .gt)

/-- `triangle.evaluation_dates`: sorted unique -/
def evaluationDates (t : List Cell) : List Date :=
  (dedup (t.map (·.ev))).mergeSort (fun a b => Date.cmp a b != .gt)

/-- `triangle.fields`: sorted unique field names -/
def triFields (t : List Cell) : List String :=
  sortStrings (dedup (t.flatMap (·.values.keys)))

/-- `triangle.is_incremental` -/
def isIncremental (t : List Cell) : Bool :=
  match t with
  | [] => false
  | c :: _ => c.kind == .incremental

/-- consecutive pairs `zip(l[:-1], l[1:])` -/
def pairs {α} : List α → List (α × α)
  | a :: b :: rest => (a, b) :: pairs (b :: rest)
  | _ => []

/-- `triangle.is_disjoint` -/
def isDisjoint (t : List Cell) : Bool :=
  (pairs (periods t)).all fun (p, n) => !(n.1 ≤ p.2)

/-- `triangle.is_semi_regular()` with the default month unit: disjoint and every period has the
same `dev_lag_months(start - 1 day, stop)` -/
def isSemiRegular (t : List Cell) : Bool :=
  isDisjoint t &&
  match periods t with
  | [] => true
  | (s, e) :: rest =>
    let base := devLagMonths s.pred e
    rest.all fun (s', e') => devLagMonths s'.pred e' == base

/-- `period_resolution(tri)`: gcd of the gaps between all period boundaries in months.
`zip(*[])` on an empty triangle fails to unpack (`ValueError`). -/
def periodResolution (t : List Cell) : Except Err Int :=
  match periods t with
  | [] => .error .valueError
  | ps =>
    let startMonths := ps.map fun p => monthToId p.1
    let nextStartMonths := ps.map fun p => monthToId p.2 + 1
    let ordered := (dedup (startMonths ++ nextStartMonths)).mergeSort (fun a b => a ≤ b)
    let diffs := (pairs ordered).map fun (a, b) => b - a
    match diffs with
    | [] => .error .typeError     -- `None`, then `int > None`; unreachable (end ≥ start)
    | _ => .ok ((diffs.foldl (fun g d => Int.gcd g d) 0 : Nat) : Int)

/-! ## convert_currency -/

open Generated.Currency in
/-- `_convert_cell_currency`'s dict comprehension -/
def convertValues (vals : Dict Val) (rate : Num) : Except Err (Dict Val) :=
  vals.mapM fun kv =>
    if currencyFields.contains kv.1 then (Val.mulNum kv.2 rate).map fun v => (kv.1, v) else .ok kv

/-- `_convert_cell_currency`: `cell.replace(values=…, metadata=replace(metadata, currency=target))` -/
def convertCell (c : Cell) (rate : Num) (target : String) : Except Err Cell := do
  let vs ← convertValues c.values rate
  ({ c with values := vs, md := { c.md with currency := some target } }).mk?

/-- what is done with one slice -/
def convertSlice (target : String) (rates : List (String × Num)) (sl : Metadata × List Cell) :
    Except Err (List Cell) :=
  match sl.1.currency with
  | none => .error .valueError
  | some cur =>
    if cur == target then .ok sl.2
    else match rates.find? (·.1 == cur) with
      | none => .error .valueError
      | some (_, rate) => sl.2.mapM (convertCell · rate target)

/-- `convert_currency(triangle, target_currency, exchange_rates)` -/
def convertCurrency (t : List Cell) (target : String) (rates : List (String × Num)) :
    Except Err (List Cell) := do
  let parts ← (Triangle.slices t).mapM (convertSlice target rates)
  Triangle.ofCells parts.flatten

/-! ## disaggregate_experience -/

/-- the `n` candidate sub-periods of a cell starting at `ps` -/
def subperiods (ps : Date) (res n : Nat) : List (Date × Date) :=
  (List.range n).map fun k =>
    (addMonths ps ((k * res : Nat) : Rat), (addMonths ps (((k + 1) * res : Nat) : Rat)).pred)

/-- weights of the observable sub-periods, renormalised to their own total -/
def renorm (ws : List Rat) : List Rat := ws.map (· / ws.sum)

/-- `_weight_cell_values` for one field: one value per weight. A Python scalar stays a scalar
(`v[0]`), an ndarray value (0-d arrays become 1-element arrays) is scaled elementwise. -/
def weightValue (v : Val) (ws : List Rat) : Except Err (List Val) :=
  ws.mapM fun w =>
    match v with
    | .none => .error .typeError
    | .int i => .ok (.flt ((i : Rat) * w))
    | .flt x => .ok (.flt (x * w))
    | .arr _ [] d => .ok (.arr false [1] (d.map (· * w)))
    | .arr _ [n] d => .ok (.arr false [n] (d.map (· * w)))
    | .arr _ _ _ => .error .other      -- rank ≥ 2: not modelled

/-- the sub-periods of a cell that are over at its evaluation date
(`[p for p in subperiods if p[1] <= cell.evaluation_date]`) -/
def obsSubs (c : Cell) (res n : Nat) : List (Date × Date) :=
  (subperiods c.ps res n).filter fun p => p.2 ≤ c.ev

/-- `_weight_cell_values`: every field (selected or not) is weighted; one part per weight -/
def weightedTable (c : Cell) (cw : List Rat) : Except Err (List (String × List Val)) :=
  c.values.mapM fun kv => do
    let parts ← weightValue kv.2 cw
    pure (kv.1, parts)

/-- `weighted_values[period][field]` for the k-th sub-period and every selected field of the cell;
`zip(subperiods, new_vals.T)` truncated to the weights ⇒ `KeyError` beyond them -/
def subValues (c : Cell) (fields : List String) (weighted : List (String × List Val)) (k : Nat) :
    Except Err (Dict Val) :=
  (c.values.filter fun kv => fields.contains kv.1).mapM fun kv =>
    match (weighted.find? (·.1 == kv.1)).bind (fun e => e.2[k]?) with
    | some v => .ok (kv.1, v)
    | none => .error .keyError

/-- the `Cell(...)` of the k-th observable sub-period -/
def subCell (c : Cell) (fields : List String) (weighted : List (String × List Val))
    (subs : List (Date × Date)) (k : Nat) : Except Err Cell := do
  let vals ← subValues c fields weighted k
  let p := subs[k]!
  ({ kind := .cell, ps := p.1, pe := p.2, ev := c.ev, values := vals, md := c.md } : Cell).mk?

/-- one cell of `_disaggregate_experience_slice` -/
def disaggCell (c : Cell) (res nPeriods : Nat) (weights : List Rat) (fields : List String) :
    Except Err (List Cell) := do
  let subs := obsSubs c res nPeriods
  let cw := weights.take subs.length            -- `period_weights[: len(subperiods)]`
  if !cw.isEmpty && cw.sum == 0 then throw .other   -- ZeroDivisionError
  let weighted ← weightedTable c (renorm cw)
  (List.range subs.length).mapM (subCell c fields weighted subs)

/-- `_disaggregate_experience_slice` -/
def disaggSlice (sl : List Cell) (res : Nat) (weights : List Rat) (fields : List String) :
    Except Err (List Cell) := do
  let sres ← periodResolution sl
  let nPeriods := (sres / (res : Int)).toNat
  let parts ← sl.mapM (disaggCell · res nPeriods weights fields)
  pure parts.flatten

/-- the slice loop and the final `Triangle(cells)` of `disaggregate_experience` -/
def disaggCore (t : List Cell) (res : Nat) (ws : List Rat) (fields : List String) :
    Except Err (List Cell) := do
  let parts ← (Triangle.slices t).mapM fun sl => disaggSlice sl.2 res ws fields
  Triangle.ofCells parts.flatten

/-- the weights in use: the given list, or `[1 / n] * n` -/
def weightsOrDefault (weights : Option (List Num)) (n : Nat) : List Rat :=
  match weights with
  | none => List.replicate n (1 / (n : Rat))
  | some l => l.map Num.toRat

open Generated.Units in
/-- `disaggregate_experience(triangle, resolution_months, period_weights, fields)` with list (or
absent) weights; the checks in the order of the code (each `raise` is one `if`) -/
def disaggregateExperience (t : List Cell) (res : Nat) (weights : Option (List Num))
    (fields : Option (List String)) : Except Err (List Cell) :=
  if !isSemiRegular t then .error .triangleError else
  match periodResolution t with
  | .error e => .error e
  | .ok triRes =>
    if (res : Int) > triRes then .error .valueError else
    if (res : Int) == triRes then .ok t else
    let fs := fields.getD defaultInterpolationFields
    if !(triFields t).any (fs.contains ·) then .error .valueError else
    if res == 0 then .error .other else              -- `% 0`: ZeroDivisionError
    if triRes % (res : Int) != 0 then .error .valueError else
    let n := (triRes / (res : Int)).toNat
    let ws := weightsOrDefault weights n
    -- `_validate_period_weights`
    if ws.length != n then .error .valueError else
    if !ws.all (fun w => 0 ≤ w && w ≤ 1) then .error .valueError else
    if ws.sum != 1 then .error .valueError else
    if isIncremental t then .error .other else       -- not modelled (see header)
    disaggCore t res ws fs

/-! ## accident_quarter_to_policy_year -/

/-- `datetime.date(y, m, d)`: `ValueError` for an impossible date -/
def mkDate (y : Int) (m d : Nat) : Except Err Date :=
  let dt : Date := ⟨y, m, d⟩
  if dt.valid then .ok dt else .error .valueError

/-- the `while py_start < last_end` loop (fuel: one step per year is enough) -/
def pyStarts (lastEnd : Date) : Nat → Date → List Date
  | 0, _ => []
  | fuel + 1, s =>
    if s < lastEnd then
      let s' := addMonths s 12
      s' :: pyStarts lastEnd fuel s'
    else []

/-- `policy_years_covered` -/
def policyYearsCovered (sl : List Cell) (origin : Date) : Except Err (List (Date × Date)) := do
  let ps := periods sl
  match ps.head?, ps.getLast? with
  | some first, some last =>
    let firstStart := first.1
    let lastEnd := last.2
    let s0 ← mkDate firstStart.y origin.m origin.d
    let s0 ← if firstStart < s0 then mkDate (firstStart.y - 1) origin.m origin.d else pure s0
    let fuel := (lastEnd.y - s0.y + 3).toNat
    let starts := s0 :: pyStarts lastEnd fuel s0
    pure (starts.map fun s => (s, (addMonths s 12).pred))
  | _, _ => .error .indexError

/-- `d[k] += x` on an association list with key `k` present -/
def addAt (d : List (Int × Rat)) (k : Int) (x : Rat) : List (Int × Rat) :=
  d.map fun p => if p.1 == k then (p.1, p.2 + x) else p

def intRange (lo hi : Int) : List Int := (List.range (hi - lo).toNat).map fun (i : Nat) => lo + (i : Int)

/-- `_policy_earned_premium_share_by_month` (no explicit earning pattern): month id ↦ share -/
def policyShareByMonth (riskStart riskEnd : Date) (policyLen : Nat) (continuous : Bool) :
    List (Int × Rat) :=
  let ws := monthToId riskStart
  let we := if continuous then monthToId riskEnd else ws
  let init : List (Int × Rat) := (intRange ws (we + policyLen + 1)).map fun i => (i, 0)
  let writtenMonths : Int := we - ws + 1
  let mv : Rat := 1 / (writtenMonths : Rat) / (policyLen : Rat)
  (intRange ws (we + 1)).foldl (fun acc wm =>
    let acc := addAt acc wm (mv / 2)
    let acc := (intRange 1 policyLen).foldl (fun a off => addAt a (wm + off) mv) acc
    addAt acc (wm + policyLen) (mv / 2)) init

/-- `monthly_ep_to_quarterly_ep`: share of every accident period that contains at least one of the
months (a period containing none has no key) -/
def monthlyToQuarterly (monthShare : List (Int × Rat)) (ps : List (Date × Date)) :
    List ((Date × Date) × Rat) :=
  ps.filterMap fun q =>
    let inside := monthShare.filter fun ms =>
      let month := idToMonth ms.1
      q.1 ≤ month && month ≤ q.2
    if inside.isEmpty then none else some (q, (inside.map (·.2)).sum)

/-- normalised share table: accident period ↦ [(policy year, share / total over policy years)] -/
def aqShares (ps : List (Date × Date)) (pys : List (Date × Date)) (policyLen : Nat)
    (continuous : Bool) : List ((Date × Date) × List ((Date × Date) × Rat)) :=
  let pyTables := pys.map fun py =>
    (py, monthlyToQuarterly (policyShareByMonth py.1 py.2 policyLen continuous) ps)
  ps.map fun aq =>
    let raw := pyTables.filterMap fun (py, tbl) => (tbl.find? (·.1 == aq)).map fun e => (py, e.2)
    let total := (raw.map (·.2)).sum
    (aq, raw.map fun (py, s) => (py, s / total))

/-- `vals_dict[field] += val * share` on a `defaultdict(float)` -/
def accumulate (acc : Dict Val) (field : String) (v : Val) (share : Rat) : Except Err (Dict Val) := do
  let x ← Val.mulF v share
  match acc.find? (·.1 == field) with
  | some (_, cur) =>
    let s ← Val.addF cur x
    pure (acc.map fun p => if p.1 == field then (p.1, s) else p)
  | none =>
    let s ← Val.addF (.flt 0) x
    pure (acc ++ [(field, s)])

/-- `py_share = accident_quarter_py_shares[cell.period]`, then `py_share[policy_period]` if present -/
def shareOf (shares : List ((Date × Date) × List ((Date × Date) × Rat))) (py : Date × Date)
    (c : Cell) : Option Rat :=
  let pyShare := ((shares.find? (·.1 == (c.ps, c.pe))).map (·.2)).getD []
  (pyShare.find? (·.1 == py)).map (·.2)

/-- body of `for cell in aq_cells`: every field of the cell is added with the cell's share -/
def stepCell (shares : List ((Date × Date) × List ((Date × Date) × Rat))) (py : Date × Date)
    (acc : Dict Val) (c : Cell) : Except Err (Dict Val) :=
  match shareOf shares py c with
  | some share => c.values.foldlM (fun a kv => accumulate a kv.1 kv.2 share) acc
  | none => pure acc

/-- the cell of one policy period at one evaluation date (if any field was accumulated) -/
def policyCell (sl : List Cell) (shares : List ((Date × Date) × List ((Date × Date) × Rat)))
    (py : Date × Date) (ev : Date) : Except Err (Option Cell) := do
  -- `slice[:, evaluation_date, :]` = `filter(...)` then `clip(min_eval=ev, max_eval=ev)`
  let all ← Triangle.ofCells sl
  let aqCells ← Triangle.clip all { minEval := some ev, maxEval := some ev }
  let vals ← aqCells.foldlM (stepCell shares py) []
  if vals.isEmpty then pure none
  else match aqCells.getLast? with
    | some last =>
      let c ← ({ kind := .cumulative, ps := py.1, pe := py.2, ev := ev, values := vals, md := last.md } : Cell).mk?
      pure (some c)
    | none => pure none

/-- `_accident_quarter_to_policy_year_slice` up to `Triangle(cells)` -/
def aqToPolicyYearCells (sl : List Cell) (policyLen : Nat) (origin : Date) (continuous : Bool) :
    Except Err (List Cell) := do
  let re ← Triangle.rightEdge sl
  if (evaluationDates re).length > 1 then throw .valueError
  let pys ← policyYearsCovered sl origin
  if policyLen == 0 then throw .other            -- `1 / written_months / 0`
  let shares := aqShares (periods sl) pys policyLen continuous
  let cells ← pys.mapM fun py => (evaluationDates sl).mapM fun ev => policyCell sl shares py ev
  let cells := cells.flatten.filterMap id
  Triangle.ofCells cells

/-- `_accident_quarter_to_policy_year_slice`: `Triangle(cells).derive_metadata(risk_basis="Policy")` -/
def aqToPolicyYearSlice (sl : List Cell) (policyLen : Nat) (origin : Date) (continuous : Bool) :
    Except Err (List Cell) := do
  let tri ← aqToPolicyYearCells sl policyLen origin continuous
  Triangle.deriveMetadata tri (.riskBasis (some "Policy"))

/-- `accident_quarter_to_policy_year(tri, policy_length_months, policy_year_origin,
continuous_issuance)` -/
def aqToPolicyYear (t : List Cell) (policyLen : Nat) (origin : Date) (continuous : Bool) :
    Except Err (List Cell) :=
  (Triangle.slices t).foldlM (fun results sl => do
    let r ← aqToPolicyYearSlice sl.2 policyLen origin continuous
    Triangle.add results r) []

/-! ## program_earned_premium -/

/-- `np.repeat(l, n)` -/
def repeatEach (l : List Rat) (n : Nat) : List Rat := l.flatMap (List.replicate n ·)

/-- `l[start:stop]` summed -/
def bucket (l : List Rat) (b : Nat × Nat) : Rat := ((l.take b.2).drop b.1).sum

/-- the `(start, stop)` pairs visited by the `while start < size` loop -/
def bounds (ores size : Nat) : Nat → Nat → Nat → List (Nat × Nat)
  | 0, _, _ => []
  | fuel + 1, start, stop =>
    if start < size then (start, stop) :: bounds ores size fuel stop (stop + ores) else []

/-- normalised monthly writing: `np.repeat(volume * w / sum(w) / res, res)` -/
def monthlyWriting (vol : Rat) (wp : List Rat) (wres : Nat) : List Rat :=
  repeatEach (wp.map fun w => vol * (w / wp.sum) / (wres : Rat)) wres

/-- monthly earning of one policy (sums to 1) -/
def monthlyEarning (ep : List Rat) (eres : Nat) (continuous : Bool) : List Rat :=
  let raw := repeatEach (ep.map fun e => e / ep.sum / (eres : Rat)) eres
  if continuous then List.zipWith (· + ·) (raw.map (· / 2) ++ [0]) (0 :: raw.map (· / 2)) else raw

/-- `np.sum([w_n * concat([0]*n, me, [0]*(N-n-1)) for n, w_n in enumerate(mw)], axis=0)` -/
def monthlyCombined (mw me : List Rat) : List Rat :=
  let N := mw.length
  let rows := (List.range N).map fun n =>
    ((List.replicate n (0 : Rat)) ++ me ++ List.replicate (N - n - 1) 0).map (mw[n]! * ·)
  rows.foldl (fun acc r => List.zipWith (· + ·) acc r) (List.replicate (N - 1 + me.length) 0)

/-- `program_earned_premium(...)`: `(writing pattern, earning pattern)` -/
def programEarnedPremium (vol : Rat) (wp : List Rat) (wres : Nat) (ep : List Rat) (eres ores : Nat)
    (offset : Int) (continuous : Bool) : Except Err (List Rat × List Rat) :=
  if wp.sum == 0 || ep.sum == 0 || wres == 0 || eres == 0 || ores == 0 then .error .other else
  let mw := monthlyWriting vol wp wres
  let me := monthlyEarning ep eres continuous
  let mc := monthlyCombined mw me
  let stop0 : Nat := if offset > 0 then offset.toNat else ores
  let bs := bounds ores mc.length (mc.length + 1) 0 stop0
  .ok (0 :: bs.map (bucket mw), 0 :: bs.map (bucket mc))

end Bermuda.Units
