/-
C01 — A Triangle is a canonical sorted set: same cells in, same sequence out.
Only property theorems live here (helper lemmas: `Lemmas/Order.lean`, `Lemmas/Sort.lean`).
-/
import Bermuda.Model.Ops
import Bermuda.Spec.C01
import Bermuda.Lemmas.Sort
import Bermuda.Lemmas.Ops
import Bermuda.Lemmas.AllOpsSpec
import Bermuda.Lemmas.AllOpsOrder
import Bermuda.Generated.Order
namespace Bermuda.Properties.C01
open Bermuda Std

/-! ### 1. `Metadata.__lt__` is a strict total order on distinct metadata -/

def mlt (a b : Metadata) : Prop := Metadata.cmp a b = .lt

theorem metadata_lt_irrefl (a : Metadata) : ¬ mlt a a := by
  unfold mlt; rw [ReflCmp.compare_self (cmp := Metadata.cmp)]; simp

theorem metadata_lt_asymm {a b : Metadata} (h : mlt a b) : ¬ mlt b a := by
  unfold mlt at *
  rw [OrientedCmp.eq_swap (cmp := Metadata.cmp), h]; simp

theorem metadata_lt_trans {a b c : Metadata} (h₁ : mlt a b) (h₂ : mlt b c) : mlt a c :=
  TransCmp.lt_trans h₁ h₂

/-- totality: two canonical metadata that are not equal are ordered one way or the other -/
theorem metadata_lt_trichotomous {a b : Metadata} (ha : a.Canon) (hb : b.Canon) (hne : a ≠ b) :
    mlt a b ∨ mlt b a := by
  unfold mlt
  have h : Metadata.cmp a b ≠ .eq := fun h => hne ((Metadata.cmp_eq_eq ha hb).mp h)
  rw [OrientedCmp.eq_swap (cmp := Metadata.cmp) (a := b) (b := a)]
  revert h
  cases Metadata.cmp a b <;> simp

/-! ### 2. the constructor: sorted, a permutation, class-consistent -/

theorem ofCells_ok_iff (l : List Cell) :
    (∃ t, Triangle.ofCells l = .ok t) ↔ kindsConsistent l = true := by
  unfold Triangle.ofCells; split <;> simp_all

theorem ofCells_mixed_error {l : List Cell} (h : kindsConsistent l = false) :
    Triangle.ofCells l = .error .triangleError := by
  simp [Triangle.ofCells, h]

theorem ofCells_sorted {l t : List Cell} (h : Triangle.ofCells l = .ok t) :
    t.Pairwise (fun a b => Cell.le a b) := by
  unfold Triangle.ofCells at h
  split at h
  · cases h; exact sorted_mergeSort (cmp := Cell.cmp) l
  · cases h

theorem ofCells_perm {l t : List Cell} (h : Triangle.ofCells l = .ok t) : t.Perm l := by
  unfold Triangle.ofCells at h
  split at h
  · cases h; exact List.mergeSort_perm l _
  · cases h

theorem kindsConsistent_perm {l₁ l₂ : List Cell} (hp : l₁.Perm l₂) :
    kindsConsistent l₁ = kindsConsistent l₂ := by
  unfold kindsConsistent
  rw [Bool.eq_iff_iff]
  simp only [Bool.or_eq_true, List.all_eq_true, hp.mem_iff]

/-- **Input-order independence.** Supplying the same cells in any order gives the same
sequence, provided cells at the same coordinate (same metadata, period, dates) are identical
cells (for distinct cells sharing a coordinate the library itself only warns). -/
theorem ofCells_perm_invariant {l₁ l₂ : List Cell} (hp : l₁.Perm l₂)
    (hdup : ∀ a b, a ∈ l₁ → b ∈ l₁ → Cell.cmp a b = .eq → a = b) :
    Triangle.ofCells l₁ = Triangle.ofCells l₂ := by
  unfold Triangle.ofCells
  rw [kindsConsistent_perm hp]
  split
  · congr 1; exact mergeSort_perm_invariant (cmp := Cell.cmp) hp hdup
  · rfl

/-- without any assumption on duplicates the sequence of COORDINATES is still order-independent -/
theorem ofCells_coords_perm_invariant {l₁ l₂ t₁ t₂ : List Cell} (hp : l₁.Perm l₂)
    (hc : ∀ c ∈ l₁, c.md.Canon)
    (h₁ : Triangle.ofCells l₁ = .ok t₁) (h₂ : Triangle.ofCells l₂ = .ok t₂) :
    t₁.map Cell.coord = t₂.map Cell.coord := by
  have s₁ := ofCells_sorted h₁
  have s₂ := ofCells_sorted h₂
  have p₁ := ofCells_perm h₁
  have p₂ := ofCells_perm h₂
  have hp' : t₁.Perm t₂ := p₁.trans (hp.trans p₂.symm)
  -- compare on coordinates: define the comparison through any representative
  let ccmp : Coord → Coord → Ordering := fun x y =>
    Cell.cmp { ps := x.ps, pe := x.pe, ev := x.ev, prev := x.prev, md := x.md }
             { ps := y.ps, pe := y.pe, ev := y.ev, prev := y.prev, md := y.md }
  have hcc : ∀ a b : Cell, ccmp a.coord b.coord = Cell.cmp a b := fun a b => rfl
  haveI : TransCmp ccmp :=
    { eq_swap := fun {a b} => OrientedCmp.eq_swap (cmp := Cell.cmp)
      isLE_trans := fun {a b c} => TransCmp.isLE_trans (cmp := Cell.cmp) }
  apply sorted_perm_unique (cmp := ccmp)
  · intro x y hx hy hxy
    obtain ⟨a, ha, rfl⟩ := List.mem_map.mp hx
    obtain ⟨b, hb, rfl⟩ := List.mem_map.mp hy
    rw [hcc] at hxy
    exact (Cell.cmp_eq_eq (hc a (p₁.mem_iff.mp ha)) (hc b (hp.mem_iff.mpr (p₂.mem_iff.mp hb)))).mp hxy
  · rw [List.pairwise_map]; exact s₁.imp (fun {a b} h => by simpa [leOf, hcc, Cell.le] using h)
  · rw [List.pairwise_map]; exact s₂.imp (fun {a b} h => by simpa [leOf, hcc, Cell.le] using h)
  · exact hp'.map _

/-! ### 3. slices are contiguous and follow Metadata's order -/

/-- in a constructed triangle, any cell lying between two cells of one slice belongs to it -/
theorem slices_contiguous {l t : List Cell} (h : Triangle.ofCells l = .ok t)
    (hc : ∀ c ∈ l, c.md.Canon) {i j k : Nat} (hij : i < j) (hjk : j < k) (hk : k < t.length)
    (hm : t[i].md = t[k].md) : t[j].md = t[i].md := by
  have hs := ofCells_sorted h
  have hp := ofCells_perm h
  have canon : ∀ n (hn : n < t.length), (t[n]).md.Canon := fun n hn =>
    hc _ (hp.mem_iff.mp (List.getElem_mem hn))
  -- project the sortedness to metadata
  have hs' : (t.map (·.md)).Pairwise (fun a b => leOf Metadata.cmp a b) := by
    rw [List.pairwise_map]
    refine hs.imp ?_
    intro a b hab
    unfold Cell.le at hab
    unfold leOf
    revert hab
    simp only [Cell.cmp, compareLex, cmpOn]
    cases Metadata.cmp a.md b.md <;> simp
  have hlen : (t.map (·.md)).length = t.length := List.length_map _
  have := sorted_contiguous (cmp := Metadata.cmp) hs' (i := i) (j := j) (k := k) hij hjk
    (by omega) (by simp [hm, ReflCmp.compare_self])
  simp only [List.getElem_map] at this
  exact ((Metadata.cmp_eq_eq (canon i (by omega)) (canon j (by omega))).mp this).symm

/-- slices appear in strictly ascending `Metadata.__lt__` order, cells of a slice ascend -/
theorem slice_order {l t : List Cell} (h : Triangle.ofCells l = .ok t)
    (hc : ∀ c ∈ l, c.md.Canon) {i j : Nat} (hij : i < j) (hj : j < t.length) :
    (t[i].md = t[j].md ∧ Cell.le t[i] t[j]) ∨ mlt t[i].md t[j].md := by
  have hs := ofCells_sorted h
  have hp := ofCells_perm h
  have hle : Cell.le t[i] t[j] = true := List.pairwise_iff_getElem.mp hs i j (by omega) hj hij
  by_cases hm : t[i].md = t[j].md
  · exact Or.inl ⟨hm, hle⟩
  · right
    have ci := hc _ (hp.mem_iff.mp (List.getElem_mem (show i < t.length by omega)))
    have cj := hc _ (hp.mem_iff.mp (List.getElem_mem hj))
    have hne : Metadata.cmp t[i].md t[j].md ≠ .eq := fun h => hm ((Metadata.cmp_eq_eq ci cj).mp h)
    unfold mlt
    unfold Cell.le at hle
    revert hle hne
    simp only [Cell.cmp, compareLex, cmpOn]
    cases Metadata.cmp t[i].md t[j].md <;> simp

/-! ### 4. closure under operations -/

/-- the canonical-form invariant as a proposition -/
def Canonical (t : List Cell) : Prop :=
  t.Pairwise (fun a b => Cell.le a b) ∧ kindsConsistent t = true ∧ ∀ c ∈ t, c.datesOk = true

theorem ofCells_canonical {l t : List Cell} (h : Triangle.ofCells l = .ok t)
    (hd : ∀ c ∈ l, c.datesOk = true) : Canonical t := by
  refine ⟨ofCells_sorted h, ?_, fun c hc => hd c ((ofCells_perm h).mem_iff.mp hc)⟩
  rw [kindsConsistent_perm (ofCells_perm h)]
  exact (ofCells_ok_iff l).mp ⟨t, h⟩

/-- re-constructing a canonical triangle changes nothing (`Triangle(t.cells) == t`) -/
theorem ofCells_idem {t : List Cell} (h : Canonical t) : Triangle.ofCells t = .ok t := by
  unfold Triangle.ofCells
  rw [h.2.1]
  simp only [if_true]
  congr 1
  exact List.mergeSort_of_pairwise h.1

/-- operands supplied from outside (the `other` of `+`) must themselves be canonical triangles -/
def _root_.Bermuda.Op.argsCanonical : Op → Prop
  | .add o => Canonical o
  | _ => True

theorem mapM_mk_ok {f : Cell → Cell} {t out : List Cell}
    (h : t.mapM (fun c => (f c).mk?) = .ok out) : ∀ c ∈ out, c.datesOk = true := by
  induction t generalizing out with
  | nil => simp [List.mapM_nil, pure, Except.pure] at h; subst h; simp
  | cons a rest ih =>
    rw [List.mapM_cons] at h
    simp only [bind, Except.bind, Cell.mk?] at h
    split at h
    · cases h
    · rename_i v hv
      split at hv
      · cases hv
        split at h
        · cases h
        · rename_i vs hvs
          simp only [pure, Except.pure] at h
          cases h
          intro c hc
          rcases List.mem_cons.mp hc with rfl | hc
          · assumption
          · exact ih hvs c hc
      · cases hv

theorem pySlice_sublist {α} (l : List α) (i j : Option Int) : (pySlice l i j).Sublist l := by
  unfold pySlice
  exact (List.drop_sublist _ _).trans (List.take_sublist _ _)

/-- **Every modelled operation returns a canonical triangle.** -/
theorem step_canonical {t t' : List Cell} (op : Op) (ht : Canonical t) (ho : op.argsCanonical)
    (h : step t op = .ok t') : Canonical t' := by
  cases op with
  | slice i j =>
    exact ofCells_canonical h (fun c hc => ht.2.2 c ((pySlice_sublist t i j).subset hc))
  | sliceStep i j k =>
    simp only [step, Triangle.getSliceStep] at h
    split at h
    · cases h
    · refine ofCells_canonical h (fun c hc => ?_)
      obtain ⟨idx, _, hget⟩ := List.mem_filterMap.mp hc
      exact ht.2.2 c (List.mem_of_getElem? hget)
  | removeStaticDetails =>
    simp only [step, Triangle.removeStaticDetails, bind, Except.bind, pure, Except.pure] at h
    split at h
    · cases h; exact ht
    · split at h
      · cases h
      · rename_i v hv
        exact ofCells_canonical h (mapM_mk_ok (f := fun c => { c with md := { c.md with
          details := c.md.details.filter (fun kv => !(commonEntries (·.details) (Triangle.metadata t)).keys.contains kv.1),
          lossDetails := c.md.lossDetails.filter (fun kv => !(commonEntries (·.lossDetails) (Triangle.metadata t)).keys.contains kv.1) } }) hv)
  | add o =>
    refine ofCells_canonical h (fun c hc => ?_)
    rcases List.mem_append.mp hc with hc | hc
    · exact ht.2.2 c hc
    · exact ho.2.2 c hc
  | clip a =>
    exact ofCells_canonical h (fun c hc => ht.2.2 c (List.mem_filter.mp hc).1)
  | filterMask m =>
    refine ofCells_canonical h (fun c hc => ?_)
    obtain ⟨⟨c', b⟩, hmem, hsome⟩ := List.mem_filterMap.mp hc
    have : c' = c := by
      revert hsome; simp only []; split <;> simp
    subst this
    exact ht.2.2 c' (List.of_mem_zip hmem).1
  | select ks =>
    simp only [step, Triangle.select, bind, Except.bind] at h
    split at h
    · cases h
    · rename_i v hv
      exact ofCells_canonical h (mapM_mk_ok (f := fun c => c.select ks) hv)
  | deriveMetadata e =>
    simp only [step, Triangle.deriveMetadata, bind, Except.bind] at h
    split at h
    · cases h
    · rename_i v hv
      exact ofCells_canonical h (mapM_mk_ok (f := fun c => { c with md := c.md.edit e }) hv)
  | replaceEval d =>
    simp only [step, Triangle.replaceEval, bind, Except.bind] at h
    split at h
    · cases h
    · rename_i v hv
      exact ofCells_canonical h (mapM_mk_ok (f := fun c => { c with ev := d }) hv)
  | rightEdge =>
    exact ofCells_canonical h (fun c hc => ht.2.2 c (mem_rightEdge_rows hc))

/-- **Every chain of operations keeps the canonical form** (induction over the op list). -/
theorem run_canonical {t t' : List Cell} (ops : List Op) (ht : Canonical t)
    (ho : ∀ op ∈ ops, op.argsCanonical) (h : run t ops = .ok t') : Canonical t' := by
  induction ops generalizing t with
  | nil => simp [run] at h; subst h; exact ht
  | cons op ops ih =>
    simp only [run] at h
    split at h
    · rename_i t₁ h₁
      exact ih (step_canonical op ht (ho op (by simp)) h₁) (fun o ho' => ho o (by simp [ho'])) h
    · cases h

/-! ### 5. the executable Spec predicate agrees with the proposition -/

theorem chainB_of_pairwise {α} {le : α → α → Bool} {l : List α}
    (h : l.Pairwise (fun a b => le a b)) : Spec.chainB le l = true := by
  induction l with
  | nil => rfl
  | cons a rest ih =>
    cases rest with
    | nil => rfl
    | cons b rest' =>
      simp only [Spec.chainB, Bool.and_eq_true]
      exact ⟨(List.pairwise_cons.mp h).1 b (by simp), ih (List.pairwise_cons.mp h).2⟩

theorem isCanonical_of_canonical {t : List Cell} (h : Canonical t) : Spec.isCanonical t = true := by
  simp only [Spec.isCanonical, Spec.sortedCells, Bool.and_eq_true, List.all_eq_true]
  exact ⟨⟨chainB_of_pairwise h.1, h.2.1⟩, h.2.2⟩

/-! ### 8. the executable Spec predicates ⇄ the propositions, in BOTH directions

What the driver evaluates on the implementation's dumps are adjacent-pair checks (`Spec.chainB`); by transitivity
of the comparisons they are equivalent to the pairwise propositions, so a `true` verdict on a dump IS the
property of that dump. -/

/-- Spec verdict `true` on a sequence ⇒ the sequence is canonical (converse of `isCanonical_of_canonical`) -/
theorem canonical_of_isCanonical {t : List Cell} (h : Spec.isCanonical t = true) : Canonical t := by
  simp only [Spec.isCanonical, Spec.sortedCells, Bool.and_eq_true, List.all_eq_true] at h
  exact ⟨pairwise_of_chainB Cell.le_trans h.1.1, h.1.2, h.2⟩

theorem isCanonical_iff {t : List Cell} : Spec.isCanonical t = true ↔ Canonical t :=
  ⟨canonical_of_isCanonical, isCanonical_of_canonical⟩

/-- **Contiguity for every canonical sequence** (hence for every chain result), stated modulo Python's `==` on
metadata (`Metadata.cmp = .eq`; no `Canon` hypothesis): a cell between two cells of one slice belongs to it -/
theorem canonical_slices_contiguous {t : List Cell} (h : Canonical t) {i j k : Nat} (hij : i < j) (hjk : j < k)
    (hk : k < t.length) (hm : Metadata.cmp t[i].md t[k].md = .eq) : Metadata.cmp t[i].md t[j].md = .eq := by
  have hs' : (t.map (·.md)).Pairwise (fun a b => leOf Metadata.cmp a b) := by
    rw [List.pairwise_map]
    refine h.1.imp ?_
    intro a b hab
    have := Cell.le_md hab
    unfold leOf
    revert this
    cases Metadata.cmp a.md b.md <;> simp
  have := sorted_contiguous (cmp := Metadata.cmp) hs' (i := i) (j := j) (k := k) hij hjk
    (by simpa using hk) (by simpa using hm)
  simpa using this

/-- **Slice order for every canonical sequence**: two cells are in one slice (metadata `==`) and ascend, or the
earlier one's metadata is strictly smaller -/
theorem canonical_slice_order {t : List Cell} (h : Canonical t) {i j : Nat} (hij : i < j) (hj : j < t.length) :
    (Metadata.cmp t[i].md t[j].md = .eq ∧ Cell.le t[i] t[j] = true) ∨ mlt t[i].md t[j].md := by
  have hle : Cell.le t[i] t[j] = true := List.pairwise_iff_getElem.mp h.1 i j (by omega) hj hij
  have hmd := Cell.le_md hle
  unfold mlt
  revert hmd
  cases hc : Metadata.cmp t[i].md t[j].md <;> simp [hle]

/-- `Spec.sliceOrder` holds on every canonical sequence with canonical metadata (e.g. every model output on
wire inputs) -/
theorem sliceOrder_of_canonical {t : List Cell} (h : Canonical t) (hc : ∀ c ∈ t, c.md.Canon) :
    Spec.sliceOrder t = true := by
  show Spec.chainB sliceRel t = true
  refine chainB_of_pairwise ?_
  rw [List.pairwise_iff_forall_sublist]
  intro a b hab
  have ha : a ∈ t := hab.subset (by simp)
  have hb : b ∈ t := hab.subset (by simp)
  have hle : Cell.le a b = true := (List.pairwise_iff_forall_sublist.mp h.1) hab
  unfold sliceRel
  split
  · exact hle
  · rename_i hne
    have hne' : a.md ≠ b.md := by simpa using hne
    have hneq : Metadata.cmp a.md b.md ≠ .eq := fun he => hne' ((Metadata.cmp_eq_eq (hc a ha) (hc b hb)).mp he)
    have := Cell.le_md hle
    revert this hneq
    cases Metadata.cmp a.md b.md <;> simp

/-- Spec verdict `sliceOrder = true` on a dump ⇒ slices follow `Metadata.__lt__` strictly and cells ascend inside
a slice, for EVERY pair of positions (transitivity of the adjacent check) -/
theorem sliceOrder_sound {t : List Cell} (h : Spec.sliceOrder t = true) {i j : Nat} (hij : i < j) (hj : j < t.length) :
    (t[i].md = t[j].md ∧ Cell.le t[i] t[j] = true) ∨ mlt t[i].md t[j].md := by
  have hp : t.Pairwise (fun a b => sliceRel a b = true) := pairwise_of_chainB sliceRel_trans h
  have hr : sliceRel t[i] t[j] = true := List.pairwise_iff_getElem.mp hp i j (by omega) hj hij
  unfold sliceRel at hr
  split at hr
  · rename_i he; exact Or.inl ⟨by simpa using he, hr⟩
  · exact Or.inr (by simpa [mlt] using hr)

/-- … and contiguity: `sliceOrder = true` already forbids a slice from coming back -/
theorem contiguous_of_sliceOrder {t : List Cell} (h : Spec.sliceOrder t = true) {i j k : Nat} (hij : i < j)
    (hjk : j < k) (hk : k < t.length) (hm : t[i].md = t[k].md) : t[j].md = t[i].md := by
  rcases sliceOrder_sound h hij (by omega) with ⟨he, _⟩ | hlt
  · exact he.symm
  · rcases sliceOrder_sound h hjk hk with ⟨he, _⟩ | hlt2
    · rw [he, ← hm] at hlt; exact absurd hlt (metadata_lt_irrefl _)
    · have := metadata_lt_trans hlt hlt2
      rw [hm] at this; exact absurd this (metadata_lt_irrefl _)

/-- `Spec.slicesContiguous` holds on every canonical sequence with canonical metadata -/
theorem slicesContiguous_of_canonical {t : List Cell} (h : Canonical t) (hc : ∀ c ∈ t, c.md.Canon) :
    Spec.slicesContiguous t = true :=
  slicesContiguous_of_pairwise (pairwise_of_chainB sliceRel_trans (sliceOrder_of_canonical h hc))

/-- the scan `Spec.slicesContiguous` never fails where `Spec.sliceOrder` holds: the second verdict is implied by
the first (it is evaluated as an independent re-statement of contiguity) -/
theorem slicesContiguous_of_sliceOrder {t : List Cell} (h : Spec.sliceOrder t = true) :
    Spec.slicesContiguous t = true :=
  slicesContiguous_of_pairwise (pairwise_of_chainB sliceRel_trans h)

/-! ### 9. the comparison the CODE has: `Metadata.__lt__` is partial

`Metadata.cmp` (total, detail values of different kinds ordered by `MVal.rank`) is the model's sort key; Python's
`<` raises `TypeError` (the constructor: `TriangleError`) when the deciding position holds the same detail key with
values of different kinds. `Metadata.cmp?` (Model/AllOpsOrder.lean) is that partial comparison and
`detailKindsComparable` / `cellsComparable` the decidable domain on which it cannot raise. The order theorems
above (`metadata_lt_trichotomous`, `ofCells_ok_iff`, `ofCells_perm_invariant`) speak about the model's total order;
the versions below are the ones that speak about the code. -/

/-- on metadata whose shared detail keys carry values of one kind, Python's `<` never raises and is the model's
comparison -/
theorem metadata_cmpPy_eq {a b : Metadata} (h : a.detailKindsComparable b = true) :
    Metadata.cmp? a b = .ok (Metadata.cmp a b) :=
  Metadata.cmp?_eq h

/-- Python's `<` raises only outside that domain -/
theorem metadata_cmpPy_error {a b : Metadata} {e : Err} (h : Metadata.cmp? a b = .error e) :
    a.detailKindsComparable b = false := by
  cases hk : a.detailKindsComparable b
  · rfl
  · rw [Metadata.cmp?_eq hk] at h; cases h

/-- **Strict total order of the code's `<`**, correctly scoped: distinct comparable metadata are ordered one way or
the other by `Metadata.__lt__` itself -/
theorem metadata_ltPy_trichotomous {a b : Metadata} (ha : a.Canon) (hb : b.Canon)
    (hk : a.detailKindsComparable b = true) (hne : a ≠ b) :
    Metadata.cmp? a b = .ok .lt ∨ Metadata.cmp? b a = .ok .lt := by
  rw [Metadata.cmp?_eq hk, Metadata.cmp?_eq (by rw [Metadata.detailKindsComparable_symm]; exact hk)]
  rcases metadata_lt_trichotomous ha hb hne with h | h
  · exact Or.inl (by rw [show Metadata.cmp a b = .lt from h])
  · exact Or.inr (by rw [show Metadata.cmp b a = .lt from h])

/-- irreflexivity / asymmetry / transitivity of the code's `<` where it is defined -/
theorem metadata_ltPy_irrefl (a : Metadata) : Metadata.cmp? a a ≠ .ok .lt := by
  rw [Metadata.cmp?_self]; intro h; cases h

/-- **The constructor on the code's domain**: when every pair of metadata among the supplied cells is comparable no
comparison `sorted(cells)` can make raises, and `Triangle(cells)` succeeds exactly for one cell class -/
theorem ofCells_ok_iff_comparable {l : List Cell} (_hk : cellsComparable l = true) :
    (∃ t, Triangle.ofCells l = .ok t) ↔ kindsConsistent l = true :=
  ofCells_ok_iff l

/-- non-vacuity of the restriction: the same detail key with a number and a string — Python raises, the total model
comparison orders them by kind -/
example : (match Metadata.cmp? { details := [("k", .num 1)] } { details := [("k", .str "x")] } with
      | .error .typeError => true | _ => false) = true ∧
    Metadata.cmp { details := [("k", .num 1)] } { details := [("k", .str "x")] } = .lt ∧
    Metadata.detailKindsComparable { details := [("k", .num 1)] } { details := [("k", .str "x")] } = false ∧
    Metadata.detailKindsComparable { details := [("k", .num 1)] } { details := [("k", .num 2), ("j", .str "x")] } = true := by
  decide +kernel

/-! ### 6. tie to the source: the attribute order of the compared tuples (regenerated tables) -/

theorem tables_order :
    Generated.Order.ok = true ∧
    Generated.Order.metadataLtConsistent = true ∧
    Generated.Order.metadataLtPriority =
      ["risk_basis", "country", "currency", "reinsurance_basis", "loss_definition",
       "per_occurrence_limit", "details", "loss_details"] ∧
    Generated.Order.metadataNoneSortsFirst = true ∧
    Generated.Order.limitNoneSortsLast = true ∧
    Generated.Order.cellLtConsistent = true ∧
    Generated.Order.cellLtPriority = ["metadata", "period_start", "period_end", "evaluation_date"] ∧
    Generated.Order.incrementalLtConsistent = true ∧
    Generated.Order.incrementalLtPriority =
      ["metadata", "period_start", "period_end", "evaluation_date", "prev_evaluation_date"] := by
  decide

/-! ### 7. non-vacuity: a concrete 4-slice multiset meets the hypotheses -/

def exMetas : List Metadata :=
  [ {}, { country := some "US" }, { lossDetails := [("k", .num 1)] }, { country := some "" } ]

def exCells : List Cell :=
  exMetas.map fun m => { ps := ⟨2020, 1, 1⟩, pe := ⟨2020, 12, 31⟩, ev := ⟨2020, 12, 31⟩, md := m }

theorem exCells_canon : ∀ c ∈ exCells, c.md.Canon := by decide
theorem exCells_dates : ∀ c ∈ exCells, c.datesOk = true := by decide
theorem exCells_coord_inj : ∀ a ∈ exCells, ∀ b ∈ exCells, a.coord = b.coord → a = b := by decide

/-- the hypotheses of `ofCells_perm_invariant` hold for a 4-slice multiset whose metadata differ
in one attribute each (one pair only in `loss_details`, one pair `None` vs `""`), and the
theorem then gives equal triangles for the reversed input. -/
example : Triangle.ofCells exCells.reverse = Triangle.ofCells exCells :=
  ofCells_perm_invariant (List.reverse_perm _) (fun a b ha hb h =>
    exCells_coord_inj a (List.mem_reverse.mp ha) b (List.mem_reverse.mp hb)
      ((Cell.cmp_eq_eq (exCells_canon a (List.mem_reverse.mp ha))
        (exCells_canon b (List.mem_reverse.mp hb))).mp h))

end Bermuda.Properties.C01
