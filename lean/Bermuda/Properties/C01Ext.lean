/-
C01 — closure clause, extended: "Every Triangle returned by ANY chain of public operations is again in
canonical form (sorted, single cell class, every cell satisfies the constructor's date rules)".

`Properties/C01.lean: run_canonical` covers the ten operations of `Model/Ops.lean`. Here the same theorem
is proved for chains over `Op2` (`Model/AllOps.lean`): those ten plus every operation the other topic
models cover — to_incremental, to_cumulative, aggregate, summarize, merge, coalesce, add_statics,
period_merge, make_right_triangle, make_right_diagonal, fill_forward_gaps, backfill, clip with all six
bounds, `t[p, e, m]`, split, slices, convert_currency, disaggregate_experience,
accident_quarter_to_policy_year, blend, thin, bootstrap, moment_match, and the JSON round trip
`Triangle.from_dict(t.to_dict())`.

Only property theorems live here; the per-operation lemmas are in `Lemmas/AllOps*.lean`.
How the proofs go: every model ends in `Triangle.ofCells l`, so sortedness and the single class come from
`ofCells_canonical`; the date rules of the cells of `l` hold because each of them is an input cell, an
input cell with other values / metadata (the rules only read the class and the dates), or was built
through the validating constructor `Cell.mk?` (all cells the models ADD — window cells of `aggregate`,
`prev` dates of `to_incremental`, the `addMonths` cells of the extension operators — are built that way,
exactly as the Python code builds them through `Cell(...)`/`cell.replace(...)`; when the constructor
refuses, the operation raises and the theorem's hypothesis `= .ok t'` is false).
No statement is weakened: there is no `step2_sorted_kind` fallback and no OPEN item.

Second extension (`Op3`, `Model/AllOps2.lean`, theorems `step3_canonical` / `run3_canonical` below): the
operations with FUNCTION arguments — `derive_fields`, `derive_metadata`, `replace`, `filter` with callables
given as expressions of `Fn.Ex` (whose leaf `opaque f` is an arbitrary function of the cell, so the theorems
speak about every callable) —, the Set mixins `| & - ^`, `sum`, `t[i]`, `loose_period_merge`,
`shift_origin`, `weight_geometric_decay`, `paid_bs_adjustment`, `reported_bs_adjustment` (value computations
as opaque callables) and the tabular round trips `reader ∘ writer` (wide, long, array frame, matrix).
-/
import Bermuda.Model.AllOps
import Bermuda.Properties.C01
import Bermuda.Lemmas.AllOps
import Bermuda.Lemmas.AllOpsBasis
import Bermuda.Lemmas.AllOpsExtend
import Bermuda.Lemmas.AllOpsUnits
import Bermuda.Lemmas.AllOpsJson
import Bermuda.Lemmas.AllOpsEval
import Bermuda.Model.AllOps2
import Bermuda.Lemmas.AllOps2
import Bermuda.Lemmas.AllOps3
import Bermuda.Model.AllOps3
import Bermuda.Lemmas.AllOps4
import Bermuda.Lemmas.AllOpsExamples
namespace Bermuda.Properties.C01Ext
open Bermuda Bermuda.Properties.C01 Bermuda.AllOps

/-- operands supplied from outside that contribute CELLS to the result (the `other` of `+`, `merge`,
the further triangles of `coalesce` and `blend`) must themselves be canonical triangles. Operands that
only contribute values (`add_statics`' source, `period_merge`'s right triangle) need nothing. -/
def _root_.Bermuda.Op2.argsCanonical : Op2 → Prop
  | .base op => op.argsCanonical
  | .merge _ _ other => Canonical other
  | .coalesce others => ∀ o ∈ others, Canonical o
  | .blend others _ _ _ => ∀ o ∈ others, Canonical o
  | _ => True

/-! ### operations returning several triangles, or a cell: the statement for EVERY returned object -/

/-- every triangle of `t.split(keys)` is canonical -/
theorem split_all_canonical {t : List Cell} {keys : List String} {parts : List (List MVal × List Cell)}
    (ht : Canonical t) (h : Triangle.split t keys = .ok parts) : ∀ p ∈ parts, Canonical p.2 :=
  AllOps.split_all_canonical (allOk_of ht) h

/-- every value of `t.slices` is canonical -/
theorem slices_all_canonical {t : List Cell} (ht : Canonical t) :
    ∀ p ∈ Triangle.slices t, Canonical p.2 :=
  AllOps.slices_all_canonical ht

/-- every replicate returned by `bootstrap` is canonical (whatever the RNG draws `P`) -/
theorem bootstrap_all_canonical {t : List Cell} {n : Int} {field : Option (List String)}
    {P : Nat → Nat → Resample.RepParam} {reps : List (List Cell)}
    (h : Resample.bootstrap t n field P = .ok reps) : ∀ r ∈ reps, Canonical r :=
  AllOps.bootstrap_all_canonical h

/-- `t[p, e, m]` returns a canonical triangle … -/
theorem getItem_triangle_canonical {t r : List Cell} {p e : DateIdx} {m : MetaIdx}
    (ht : Canonical t) (h : Triangle.getItem t p e m = .ok (.inl r)) : Canonical r :=
  getItem_ok ht h

/-- … or, when no index is a slice, a cell that satisfies the date rules -/
theorem getItem_cell_datesOk {t : List Cell} {c : Cell} {p e : DateIdx} {m : MetaIdx}
    (ht : Canonical t) (h : Triangle.getItem t p e m = .ok (.inr c)) : c.datesOk = true :=
  getItem_ok ht h

/-- `thin` returns the very same triangle or a canonical new one -/
theorem thin_fresh_canonical {t r : List Cell} {k : Nat} {idx : List Nat}
    (ht : Canonical t) (h : Resample.thin t k idx = .ok (.fresh r)) : Canonical r :=
  thin_canonical ht h

/-- `Triangle.from_dict(j)` is canonical for EVERY document `j` it accepts, not only `t.to_dict()` -/
theorem fromDict_canonical {j : JsonIO.JVal} {r : List JsonIO.JCell} (h : JsonIO.fromDict j = .ok r) :
    Canonical (r.map JsonIO.JCell.toCell) :=
  AllOps.fromDict_canonical h

/-! ### the closure theorem -/

/-- **Every modelled public operation returns a canonical triangle.** -/
theorem step2_canonical {t t' : List Cell} (op : Op2) (ht : Canonical t) (ho : op.argsCanonical)
    (h : step2 t op = .ok t') : Canonical t' := by
  cases op with
  | base op => exact step_canonical op ht ho h
  | toIncremental => exact toIncremental_canonical ht h
  | toCumulative => exact toCumulative_canonical ht h
  | aggregate tr a => exact aggregate_canonical ht h
  | summarize tr extra prem => exact summarize_canonical h
  | merge ty on other => exact merge_canonical (allOk_of ht) (allOk_of ho) h
  | coalesce others =>
    refine coalesce_canonical (fun x hx => ?_) h
    rcases List.mem_cons.mp hx with rfl | hx
    · exact allOk_of ht
    · exact allOk_of (ho x hx)
  | addStatics source statics => exact addStatics_canonical (allOk_of ht) h
  | periodMerge other suffix => exact periodMerge_canonical (allOk_of ht) h
  | makeRightTriangle lags unit => exact makeRightTriangle_canonical h
  | makeRightDiagonal dates hist => exact makeRightDiagonal_canonical h
  | fillForwardGaps res? noneFlag => exact fillForwardGaps_canonical (allOk_of ht) h
  | backfill statics res? minLag => exact backfill_canonical (allOk_of ht) h
  | clipFull a => exact clipFull_canonical (allOk_of ht) h
  | getItem p e m =>
    simp only [step2] at h
    split at h
    · cases h
    · rename_i r hr; cases h; exact getItem_ok ht hr
    · cases h
  | splitNth keys i =>
    simp only [step2] at h
    split at h
    · cases h
    · rename_i parts hparts
      obtain ⟨p, hp, rfl⟩ := map_ok' h
      exact AllOps.split_all_canonical (allOk_of ht) hparts p (nth_mem hp)
  | sliceNth i =>
    simp only [step2] at h
    obtain ⟨p, hp, rfl⟩ := map_ok' h
    exact AllOps.slices_all_canonical ht p (nth_mem hp)
  | convertCurrency target rates => exact convertCurrency_canonical (allOk_of ht) h
  | disaggregateExperience res weights fields => exact disaggregateExperience_canonical ht h
  | aqToPolicyYear policyLen origin continuous => exact aqToPolicyYear_canonical h
  | blend others w method idx =>
    refine blend_canonical (fun x hx => ?_) h
    rcases List.mem_cons.mp hx with rfl | hx
    · exact allOk_of ht
    · exact allOk_of (ho x hx)
  | thin k idx =>
    simp only [step2] at h
    split at h
    · cases h
    · cases h; exact ht
    · rename_i r hr; cases h; exact thin_canonical ht hr
  | bootstrapNth n field P i =>
    simp only [step2] at h
    split at h
    · cases h
    · rename_i reps hreps
      exact AllOps.bootstrap_all_canonical hreps t' (nth_mem h)
  | momentMatch fields distOk draws => exact momentMatch_canonical ht h
  | jsonRoundTrip => exact jsonRoundTrip_canonical h

/-- **Every chain of modelled public operations keeps the canonical form** (induction over the list). -/
theorem run2_canonical {t t' : List Cell} (ops : List Op2) (ht : Canonical t)
    (ho : ∀ op ∈ ops, op.argsCanonical) (h : run2 t ops = .ok t') : Canonical t' := by
  induction ops generalizing t with
  | nil => simp [run2] at h; subst h; exact ht
  | cons op ops ih =>
    simp only [run2] at h
    split at h
    · rename_i t₁ h₁
      exact ih (step2_canonical op ht (ho op (by simp)) h₁) (fun o ho' => ho o (by simp [ho'])) h
    · cases h

/-- the executable Spec predicate (what the driver evaluates on the IMPLEMENTATION's results) holds on
every model result of a chain -/
theorem run2_isCanonical {t t' : List Cell} (ops : List Op2) (ht : Canonical t)
    (ho : ∀ op ∈ ops, op.argsCanonical) (h : run2 t ops = .ok t') : Spec.isCanonical t' = true :=
  isCanonical_of_canonical (run2_canonical ops ht ho h)

/-- a chain over the old `Op` is a chain over `Op2` -/
theorem run2_base (t : List Cell) (ops : List Op) : run2 t (ops.map Op2.base) = run t ops := by
  induction ops generalizing t with
  | nil => rfl
  | cons op ops ih =>
    simp only [List.map_cons, run2, run, step2]
    split <;> simp_all

/-! ### second extension (`Op3`, Model/AllOps2.lean): function arguments, Set mixins, `sum`, `t[i]`,
`loose_period_merge`, `shift_origin`

The callables of `derive_fields` / `derive_metadata` / `replace` / `filter` are expressions of `Fn.Ex`; the
theorems hold for EVERY expression (the proofs never unfold `Fn.Ex.eval`): whatever a definition
computes, the new cell is built by the validating constructor, and `Triangle(...)` re-sorts. -/

/-- operands that contribute CELLS must be canonical triangles: the right operand of `| & ^`, the further
triangles of `sum`. `t - other`, `loose_period_merge` (right side contributes values only) and
`shift_origin` (the other triangle only fixes the shift) need nothing. -/
def _root_.Bermuda.Op3.argsCanonical : Op3 → Prop
  | .base op => op.argsCanonical
  | .union o => Canonical o
  | .inter o => Canonical o
  | .symdiff o => Canonical o
  | .sum others => ∀ o ∈ others, Canonical o
  | .makePredTriangleWithInit a => ∀ p, a.pred = some p → Canonical p
  | _ => True

/-- `t[i]` returns a cell of the triangle: it satisfies the date rules -/
theorem cellAt_datesOk {t : List Cell} {i : Int} {c : Cell} (ht : Canonical t)
    (h : Fn.cellAt t i = .ok c) : c.datesOk = true :=
  ht.2.2 c (cellAt_mem h)

/-- the wide reader (`from_wide_data_frame` / `from_wide_csv`) returns a canonical triangle for EVERY table
it accepts, not only for what `to_wide_*` writes -/
theorem fromWideRows_canonical {tb : Frame.Table} {f d l : List String} {r : List Cell}
    (h : Frame.fromWideRows tb f d l = .ok r) : Canonical r :=
  AllOps.fromWideRows_canonical h

/-- the long reader returns a canonical triangle for every table it accepts -/
theorem fromLongRows_canonical {tb : Frame.Table} {l : List String} {r : List Cell}
    (h : Frame.fromLongRows tb l = .ok r) : Canonical r :=
  AllOps.fromLongRows_canonical h

/-- the array-frame reader returns a canonical triangle for every frame it accepts -/
theorem fromArrayFrame_canonical {rows : List Frame.ArrayRow} {field : String} {md : Metadata}
    {res : Option Int} {r : List Cell} (h : Frame.fromArrayFrame rows field md res = .ok r) : Canonical r :=
  AllOps.fromArrayFrame_canonical h

/-- `matrix_to_triangle` returns a canonical triangle for every matrix it accepts -/
theorem fromMatrix_canonical {m : Frame.Matrix} {r : List Cell} (h : Frame.fromMatrix m = .ok r) :
    Canonical r :=
  AllOps.fromMatrix_canonical h

/-- **Every operation of `Op3` returns a canonical triangle.** -/
theorem step3_canonical {t t' : List Cell} (op : Op3) (ht : Canonical t) (ho : op.argsCanonical)
    (h : step3 t op = .ok t') : Canonical t' := by
  cases op with
  | base op => exact step2_canonical op ht ho h
  | deriveFields defs => exact deriveFields_canonical (allOk_of ht) h
  | deriveMetadataFn defs => exact deriveMetadataFn_canonical (allOk_of ht) h
  | replaceFn defs => exact replaceFn_canonical h
  | filterFn pred => exact filterFn_canonical (allOk_of ht) h
  | union o => exact union_canonical (allOk_of ht) (allOk_of ho) h
  | inter o => exact inter_canonical (allOk_of ho) h
  | diff o => exact diff_canonical (allOk_of ht) h
  | symdiff o => exact symdiff_canonical (allOk_of ht) (allOk_of ho) h
  | sum others => exact sumOf_canonical ht (fun o hmem => allOk_of (ho o hmem)) h
  | cellAt i =>
    simp only [step3] at h
    split at h <;> cases h
  | loosePeriodMerge o suffix => exact loosePeriodMerge_canonical (allOk_of ht) h
  | shiftOrigin m => exact shiftOrigin_canonical h
  | weightGeometricDecay a w scaled => exact weightGeometricDecay_canonical (allOk_of ht) h
  | paidBsAdjustment ult dr pl => exact paidBsAdjustment_canonical h
  | reportedBsAdjustment method first second trend => exact reportedBsAdjustment_canonical ht h
  | wideRoundTrip f d l => exact wideRoundTrip_canonical h
  | longRoundTrip l => exact longRoundTrip_canonical h
  | arrayRoundTrip field md res => exact arrayRoundTrip_canonical h
  | matrixRoundTrip => exact matrixRoundTrip_canonical h
  | dropOffDiagonals => exact dropOffDiagonals_canonical (allOk_of ht) h
  | toSlice => exact toSlice_canonical (allOk_of ht) h
  | sliceToTriangle => exact sliceToTriangle_canonical (allOk_of ht) h
  | makePredTriangleWithInit a => exact makePredTriangleWithInit_canonical ho h
  | disaggregateDevelopment a vals => exact disaggregateDevelopment_canonical ht h
  | disaggregate resExp weights a vals => exact disaggregate_canonical ht h

/-- **Every chain over `Op3` keeps the canonical form** (induction over the list). -/
theorem run3_canonical {t t' : List Cell} (ops : List Op3) (ht : Canonical t)
    (ho : ∀ op ∈ ops, op.argsCanonical) (h : run3 t ops = .ok t') : Canonical t' := by
  induction ops generalizing t with
  | nil => simp [run3] at h; subst h; exact ht
  | cons op ops ih =>
    simp only [run3] at h
    split at h
    · rename_i t₁ h₁
      exact ih (step3_canonical op ht (ho op (by simp)) h₁) (fun o ho' => ho o (by simp [ho'])) h
    · cases h

/-- the executable Spec predicate holds on every model result of an `Op3` chain -/
theorem run3_isCanonical {t t' : List Cell} (ops : List Op3) (ht : Canonical t)
    (ho : ∀ op ∈ ops, op.argsCanonical) (h : run3 t ops = .ok t') : Spec.isCanonical t' = true :=
  isCanonical_of_canonical (run3_canonical ops ht ho h)

/-- a chain over `Op2` is a chain over `Op3` -/
theorem run3_base (t : List Cell) (ops : List Op2) : run3 t (ops.map Op3.base) = run2 t ops := by
  induction ops generalizing t with
  | nil => rfl
  | cons op ops ih =>
    simp only [List.map_cons, run3, run2, step3]
    split <;> simp_all

/-! ### non-vacuity: concrete chains that meet the hypotheses and really run

The witnesses (triangles `exT…`, chains `exChain`, `exChain3`, `exChain4`, and the kernel evaluation of every step:
`exChain_runs`, `exChain3_runs`, `exChain4_runs`) are in `Lemmas/AllOpsExamples.lean`. `exChain`: six `Op2`
operations (`coalesce`, `add_statics`, `clip`, `to_incremental`, `to_cumulative`, `merge`). `exChain3`: five `Op3`
operations with function arguments; its first step (`derive_metadata` with a lambda) yields a list that is provably NOT
sorted (`exL1_not_sorted`) and the constructor re-sorts it. `exChain4`: `t[1:6]` through the general `__getitem__`
(an `Op4` constructor), then `derive_fields` and `filter`. -/

theorem exChain_args : ∀ op ∈ exChain, op.argsCanonical := by
  intro op hop
  simp only [exChain, List.mem_cons, List.not_mem_nil, or_false] at hop
  rcases hop with rfl | rfl | rfl | rfl | rfl | rfl
  · intro o ho
    simp only [List.mem_cons, List.not_mem_nil, or_false] at ho
    subst ho
    exact ⟨by decide +kernel, by decide +kernel, by decide +kernel⟩
  · trivial
  · trivial
  · trivial
  · trivial
  · exact ⟨by decide +kernel, by decide +kernel, by decide +kernel⟩


/-- the hypotheses of `run2_canonical` are met by a two-slice, 7-cell triangle and a chain of six new
operations, and the chain really runs (to a 4-cell triangle whose first cell carries the static field
and whose last cell — the one `coalesce` brought in — carries the merged field) -/
example : Canonical exT6 ∧ exT6.length = 4 ∧
    (exT6.head?.map fun c => c.values.keys) = some ["paid_loss", "earned_premium", "reported_loss"] ∧
    (exT6.getLast?.map fun c => c.values.keys) = some ["paid_loss", "earned_premium", "incurred_loss"] :=
  ⟨run2_canonical exChain exT_canonical exChain_args exChain_runs, by decide +kernel, by decide +kernel,
   by decide +kernel⟩

/-! ### third extension (`Op4`, Model/AllOps3.lean): the rest of `io/array.py`, rich matrix, `__getitem__` with
any index object on `Triangle` / `TriangleSlice`, `make_pred_triangle(_complement)` -/

/-- `statics_data_frame_to_triangle` returns a canonical triangle for EVERY frame it accepts -/
theorem fromStatics_canonical {rows : List Frame.StaticsRow} {ev : Option Date} {res : Option Int} {md : Metadata}
    {r : List Cell} (h : Frame.fromStatics rows ev res md = .ok r) : Canonical r :=
  AllOps.fromStatics_canonical h

/-- `array_data_frame_to_triangle` with all its arguments, for every frame it accepts -/
theorem fromArrayFrameFull_canonical {fr : Frame.ArrayFrame} {field : String} {res evalRes : Option Int}
    {fromEnd : Bool} {md : Metadata} {r : List Cell}
    (h : Frame.fromArrayFrameFull fr field res evalRes fromEnd md = .ok r) : Canonical r :=
  AllOps.fromArrayFrameFull_canonical h

/-- `array_triangle_builder`, for every list of frames it accepts -/
theorem arrayTriangleBuilder_canonical {frames : List Frame.ArrayFrame} {fields : List String}
    {res evalRes : Option Int} {fromEnd : Bool} {md : Metadata} {r : List Cell}
    (h : Frame.arrayTriangleBuilder frames fields res evalRes fromEnd md = .ok r) : Canonical r :=
  AllOps.arrayTriangleBuilder_canonical h

/-- `rich_matrix_to_triangle`, for every rich matrix it accepts -/
theorem fromRich_canonical {m : Frame.RichMatrix} {r : List Cell} (h : Frame.fromRich m = .ok r) : Canonical r :=
  AllOps.fromRich_canonical h

/-- `Triangle.from_binary`: canonical for EVERY byte string `_read_triangle` accepts (every decoded cell went
through the constructor's checks, `Bin.decode_spec`; the bridge to the shared cell type keeps class and dates) -/
theorem fromBinary_canonical {s : Codec.Bytes} {r : List Cell} (h : Fn.fromBinary s = .ok r) : Canonical r :=
  AllOps.fromBinary_canonical h

/-- `make_pred_triangle`: canonical whatever the arguments and whatever `statics_fn` returns or raises -/
theorem makePredTriangle_canonical {a : Fn.PredArgs} {statics : Fn.StaticsFn} {r : List Cell}
    (h : Fn.makePredTriangle a statics = .ok r) : Canonical r :=
  AllOps.makePredTriangle_canonical h

/-- `t[index]` for ANY index object: a canonical triangle, or a cell that satisfies the date rules -/
theorem getItemAny_itemOk {t : List Cell} {idx : Index} {res : List Cell ⊕ Cell} (ht : Canonical t)
    (h : Triangle.getItemAny t idx = .ok res) : ItemOk res :=
  getItemAny_ok ht h

/-- `TriangleSlice(cells)` is canonical; so is whatever `TriangleSlice(cells)[index]` returns -/
theorem triangleSlice_canonical {l r : List Cell} (hl : ∀ c ∈ l, c.datesOk = true)
    (h : TriangleSlice.ofCells l = .ok r) : Canonical r :=
  sliceOfCells_canonical hl h

theorem sliceGetItemAny_itemOk {t : List Cell} {idx : Index} {res : List Cell ⊕ Cell} (ht : Canonical t)
    (h : Fn.sliceGetItemAny t idx = .ok res) : ItemOk res :=
  sliceGetItemAny_ok (allOk_of ht) h

def _root_.Bermuda.Op4.argsCanonical : Op4 → Prop
  | .base op => op.argsCanonical
  | _ => True

/-- **Every operation of `Op4` returns a canonical triangle.** -/
theorem step4_canonical {t t' : List Cell} (op : Op4) (ht : Canonical t) (ho : op.argsCanonical)
    (h : step4 t op = .ok t') : Canonical t' := by
  cases op with
  | base op => exact step3_canonical op ht ho h
  | rightEdgeStatics ev res md => exact rightEdgeStatics_canonical h
  | arrayFullRoundTrip field res evalRes fromEnd md => exact arrayFullRoundTrip_canonical h
  | arrayBuilderRoundTrip fields res evalRes fromEnd md => exact arrayBuilderRoundTrip_canonical h
  | richRoundTrip evalRes fields => exact richRoundTrip_canonical h
  | matrixOptRoundTrip evalRes fields => exact matrixOptRoundTrip_canonical h
  | getItemAny idx => exact triangleOnly_canonical (fun _ hx => getItemAny_ok ht hx) h
  | sliceGetItemAny idx => exact triangleOnly_canonical (fun _ hx => sliceGetItemAny_ok (allOk_of ht) hx) h
  | makePredTriangle a statics => exact AllOps.makePredTriangle_canonical h
  | makePredTriangleComplement a => exact makePredTriangleComplement_canonical h
  | binaryRoundTrip ext wflag rflag => exact binaryRoundTrip_canonical h

/-- **Every chain over `Op4` keeps the canonical form** (induction over the list). -/
theorem run4_canonical {t t' : List Cell} (ops : List Op4) (ht : Canonical t)
    (ho : ∀ op ∈ ops, op.argsCanonical) (h : run4 t ops = .ok t') : Canonical t' := by
  induction ops generalizing t with
  | nil => simp [run4] at h; subst h; exact ht
  | cons op ops ih =>
    simp only [run4] at h
    split at h
    · rename_i t₁ h₁
      exact ih (step4_canonical op ht (ho op (by simp)) h₁) (fun o ho' => ho o (by simp [ho'])) h
    · cases h

theorem run4_isCanonical {t t' : List Cell} (ops : List Op4) (ht : Canonical t)
    (ho : ∀ op ∈ ops, op.argsCanonical) (h : run4 t ops = .ok t') : Spec.isCanonical t' = true :=
  isCanonical_of_canonical (run4_canonical ops ht ho h)

/-- a chain over `Op3` is a chain over `Op4` -/
theorem run4_base (t : List Cell) (ops : List Op3) : run4 t (ops.map Op4.base) = run3 t ops := by
  induction ops generalizing t with
  | nil => rfl
  | cons op ops ih =>
    simp only [List.map_cons, run4, run3, step4]
    split <;> simp_all

/-- **Contiguity is re-established by every chain**: in the result of any `Op4` chain a cell lying between two
cells of one slice (metadata equal under Python's `==`, i.e. `Metadata.cmp = .eq`) belongs to that slice -/
theorem run4_slices_contiguous {t t' : List Cell} (ops : List Op4) (ht : Canonical t)
    (ho : ∀ op ∈ ops, op.argsCanonical) (h : run4 t ops = .ok t') {i j k : Nat} (hij : i < j) (hjk : j < k)
    (hk : k < t'.length) (hm : Metadata.cmp t'[i].md t'[k].md = .eq) : Metadata.cmp t'[i].md t'[j].md = .eq :=
  canonical_slices_contiguous (run4_canonical ops ht ho h) hij hjk hk hm

/-- **Slice order is re-established by every chain**: slices follow `Metadata.__lt__` strictly, cells ascend
inside a slice -/
theorem run4_slice_order {t t' : List Cell} (ops : List Op4) (ht : Canonical t)
    (ho : ∀ op ∈ ops, op.argsCanonical) (h : run4 t ops = .ok t') {i j : Nat} (hij : i < j) (hj : j < t'.length) :
    (Metadata.cmp t'[i].md t'[j].md = .eq ∧ Cell.le t'[i] t'[j] = true) ∨ mlt t'[i].md t'[j].md :=
  canonical_slice_order (run4_canonical ops ht ho h) hij hj

section nonvacuity3
open Bermuda.Fn

theorem exChain3_args : ∀ op ∈ exChain3, op.argsCanonical := by
  intro op hop
  simp only [exChain3, List.mem_cons, List.not_mem_nil, or_false] at hop
  rcases hop with rfl | rfl | rfl | rfl | rfl
  · trivial
  · trivial
  · trivial
  · trivial
  · exact ⟨by decide +kernel, by decide +kernel, by decide +kernel⟩

/-- the hypotheses of `run3_canonical` are met and the chain really runs: the function-argument
`derive_metadata` produces an unsorted list that the constructor re-sorts into four slices; the final
triangle has six cells, the derived field is there, and every `period_end` was replaced -/
example : Canonical exS5 ∧ exS5.length = 6 ∧ (metasOf exS5).length = 3 ∧
    (exS5.head?.map fun c => (c.values.keys, c.pe == c.ev)) = some (["paid_loss", "earned_premium", "double"], true) :=
  ⟨run3_canonical exChain3 exT_canonical exChain3_args exChain3_runs, by decide +kernel, by decide +kernel,
   by decide +kernel⟩

end nonvacuity3

section nonvacuity4
open Bermuda.Fn

theorem exChain4_args : ∀ op ∈ exChain4, op.argsCanonical := by
  intro op hop
  simp only [exChain4, List.mem_cons, List.not_mem_nil, or_false] at hop
  rcases hop with rfl | rfl | rfl <;> trivial

/-- the hypotheses of `run4_canonical` (and of `run4_slices_contiguous` / `run4_slice_order`) are met by a chain
that starts with an `Op4` operation and really runs: four cells of one slice remain, each with the derived field -/
example : Canonical exG3 ∧ exG3.length = 4 ∧ (metasOf exG3).length = 1 ∧
    (exG3.map fun c => c.values.keys.contains "double") = [true, true, true, true] :=
  ⟨run4_canonical exChain4 exT_canonical exChain4_args exChain4_runs, by decide +kernel, by decide +kernel,
   by decide +kernel⟩

end nonvacuity4

end Bermuda.Properties.C01Ext
