/-
C02 — `==` means identical contents; hash, membership and subset tests agree.
Only property theorems live here (helper lemmas: `Lemmas/Eq.lean`, `Lemmas/EqHash.lean`,
`Lemmas/EqSet.lean`).  Model: `Model/Eq.lean`; Spec predicates run on the implementation:
`Spec/C02.lean`.

Standing hypotheses, where a theorem needs them, are stated as `Cell.datesOk` (the constructor's
rules: in particular exactly the incremental cells carry a `prev_evaluation_date`),
`Metadata.Canon` (detail dicts in key order: the wire form; Python's `==`/`hash` do not see
insertion order) and `Nodup` field names (Python dicts).  ℚ has no NaN: "NaN-free data" is the
harness's obligation and is recorded in the evidence.
-/
import Bermuda.Lemmas.EqSet
import Bermuda.Generated.HashDeps
namespace Bermuda.Properties.C02
open Bermuda Std Bermuda.Properties.C01

/-! ### 1. characterisation of `==` -/

/-- class compatibility as `isinstance` decides it: `Cell` ≈ `CumulativeCell`, a `CumulativeCell`
never equals an `IncrementalCell`; (`Cell`, `IncrementalCell`) passes the class test and is then
separated by `prev_evaluation_date` (see `cellEq_same_basis`). -/
theorem classCompat_table :
    classCompat .cell .cumulative = true ∧ classCompat .cumulative .cell = true ∧
    classCompat .cell .cell = true ∧ classCompat .cumulative .cumulative = true ∧
    classCompat .incremental .incremental = true ∧
    classCompat .cumulative .incremental = false ∧ classCompat .incremental .cumulative = false := by
  decide

/-- `np.array_equal`: numerically equal values of equal shape -/
theorem valEq_iff {x y : Val} : x.eqv y = true ↔ x.shape = y.shape ∧ x.data = y.data := Val.eqv_iff

/-- `values_eq`: same field names, numerically equal values of equal shape under every name -/
theorem valuesEq_iff {a b : Dict Val} :
    valuesEq a b = true ↔
      a.keys.Perm b.keys ∧
      ∀ k ∈ a.keys, ∃ x y, a.get? k = some x ∧ b.get? k = some y ∧ x.shape = y.shape ∧ x.data = y.data := by
  simp only [Bermuda.valuesEq_iff, Val.eqv_iff]

/-- `Cell.__eq__` / `IncrementalCell.__eq__` exactly as the code combines them (no hypotheses) -/
theorem cellEq_iff_code {a b : Cell} :
    cellEq a b = true ↔
      classCompat a.kind b.kind = true ∧ a.ps = b.ps ∧ a.pe = b.pe ∧ a.ev = b.ev ∧
      ((a.kind = .incremental ∨ b.kind = .incremental) → a.prev = b.prev) ∧
      a.md.eqv b.md = true ∧ valuesEq a.values b.values = true := cellEq_iff'

/-- an `IncrementalCell` only equals an `IncrementalCell` -/
theorem cellEq_same_basis {a b : Cell} (ha : a.datesOk = true) (hb : b.datesOk = true)
    (h : cellEq a b = true) : (a.kind = .incremental ↔ b.kind = .incremental) :=
  cellEq_sameBasis (Cell.kindOk_of_datesOk ha) (Cell.kindOk_of_datesOk hb) h

/-- **`c1 == c2` exactly when** the cells are of the same basis (`Cell` and `CumulativeCell`
interchangeable) and agree on period, evaluation date, previous evaluation date, metadata, field
names, and numerically equal values of equal shape. -/
theorem cellEq_iff {a b : Cell} (ha : a.datesOk = true) (hb : b.datesOk = true)
    (hma : a.md.Canon) (hmb : b.md.Canon) :
    cellEq a b = true ↔
      (a.kind = .incremental ↔ b.kind = .incremental) ∧ a.ps = b.ps ∧ a.pe = b.pe ∧ a.ev = b.ev ∧
      a.prev = b.prev ∧ a.md = b.md ∧ a.values.keys.Perm b.values.keys ∧
      ∀ k ∈ a.values.keys, ∃ x y, a.values.get? k = some x ∧ b.values.get? k = some y ∧
        x.shape = y.shape ∧ x.data = y.data := by
  have ka := Cell.kindOk_of_datesOk ha
  have kb := Cell.kindOk_of_datesOk hb
  constructor
  · intro h
    have hs := cellEq_sameBasis ka kb h
    obtain ⟨_, h2, h3, h4, h5, h6, h7⟩ := cellEq_iff'.mp h
    have hp : a.prev = b.prev := by
      by_cases hi : a.kind = .incremental
      · exact h5 (Or.inl hi)
      · have hj : ¬ b.kind = .incremental := fun h => hi (hs.mpr h)
        unfold Cell.KindOk at ka kb
        have h1 : a.prev = none := by
          cases hap : a.prev with
          | none => rfl
          | some d => exact absurd (ka.mpr (by simp [hap])) hi
        have h2 : b.prev = none := by
          cases hbp : b.prev with
          | none => rfl
          | some d => exact absurd (kb.mpr (by simp [hbp])) hj
        rw [h1, h2]
    exact ⟨hs, h2, h3, h4, hp, (Metadata.eqv_iff_eq hma hmb).mp h6, valuesEq_iff.mp h7⟩
  · rintro ⟨hs, h2, h3, h4, h5, h6, h7⟩
    exact cellEq_iff'.mpr ⟨classCompat_of_sameBasis hs, h2, h3, h4, fun _ => h5,
      (Metadata.eqv_iff_eq hma hmb).mpr h6, valuesEq_iff.mpr h7⟩

/-- **`a == b` exactly when** both have the same number of cells and are equal cell by cell -/
theorem triEq_iff {a b : List Cell} :
    triEq a b = true ↔ a.length = b.length ∧
      ∀ i (h₁ : i < a.length) (h₂ : i < b.length), cellEq a[i] b[i] = true := triEq_iff_getElem

/-- **the headline clause in one statement**: on well-formed cells (constructor date rules, key-sorted detail dicts)
`a == b` is True exactly when both have the same number of cells and, position by position, the cells are of the same
basis and agree on period, evaluation date, previous evaluation date, metadata, field names and — under every field —
shape and numbers -/
theorem triEq_iff_contents {a b : List Cell}
    (ha : ∀ x ∈ a, x.datesOk = true ∧ x.md.Canon) (hb : ∀ x ∈ b, x.datesOk = true ∧ x.md.Canon) :
    triEq a b = true ↔ a.length = b.length ∧
      ∀ i (h₁ : i < a.length) (h₂ : i < b.length),
        (a[i].kind = .incremental ↔ b[i].kind = .incremental) ∧ a[i].ps = b[i].ps ∧ a[i].pe = b[i].pe ∧
        a[i].ev = b[i].ev ∧ a[i].prev = b[i].prev ∧ a[i].md = b[i].md ∧
        a[i].values.keys.Perm b[i].values.keys ∧
        ∀ k ∈ a[i].values.keys, ∃ x y, a[i].values.get? k = some x ∧ b[i].values.get? k = some y ∧
          x.shape = y.shape ∧ x.data = y.data := by
  rw [triEq_iff]
  constructor
  · rintro ⟨hl, h⟩
    refine ⟨hl, fun i h₁ h₂ => ?_⟩
    exact (cellEq_iff (ha _ (List.getElem_mem h₁)).1 (hb _ (List.getElem_mem h₂)).1
      (ha _ (List.getElem_mem h₁)).2 (hb _ (List.getElem_mem h₂)).2).mp (h i h₁ h₂)
  · rintro ⟨hl, h⟩
    refine ⟨hl, fun i h₁ h₂ => ?_⟩
    exact (cellEq_iff (ha _ (List.getElem_mem h₁)).1 (hb _ (List.getElem_mem h₂)).1
      (ha _ (List.getElem_mem h₁)).2 (hb _ (List.getElem_mem h₂)).2).mpr (h i h₁ h₂)

/-- regression of D3: no proper prefix (in particular not the empty triangle) equals the triangle -/
theorem triEq_prefix_false {t : List Cell} {n : Nat} (h : n < t.length) :
    triEq (t.take n) t = false ∧ triEq t (t.take n) = false := by
  constructor <;> apply triEq_of_length_ne <;> simp <;> omega

/-! ### 2. `==` is an equivalence relation -/

theorem cellEq_refl (a : Cell) : cellEq a a = true := Bermuda.cellEq_refl a

theorem cellEq_symm {a b : Cell} (h : cellEq a b = true) : cellEq b a = true := Bermuda.cellEq_symm h

theorem cellEq_trans {a b c : Cell} (ha : a.datesOk = true) (hb : b.datesOk = true)
    (hc : c.datesOk = true) (h₁ : cellEq a b = true) (h₂ : cellEq b c = true) : cellEq a c = true :=
  Bermuda.cellEq_trans (Cell.kindOk_of_datesOk ha) (Cell.kindOk_of_datesOk hb)
    (Cell.kindOk_of_datesOk hc) h₁ h₂

theorem triEq_refl (a : List Cell) : triEq a a = true := Bermuda.triEq_refl a

theorem triEq_symm {a b : List Cell} (h : triEq a b = true) : triEq b a = true := Bermuda.triEq_symm h

theorem triEq_trans {a b c : List Cell} (ha : ∀ x ∈ a, x.datesOk = true)
    (hb : ∀ x ∈ b, x.datesOk = true) (hc : ∀ x ∈ c, x.datesOk = true)
    (h₁ : triEq a b = true) (h₂ : triEq b c = true) : triEq a c = true :=
  Bermuda.triEq_trans (fun x hx => Cell.kindOk_of_datesOk (ha x hx))
    (fun x hx => Cell.kindOk_of_datesOk (hb x hx)) (fun x hx => Cell.kindOk_of_datesOk (hc x hx)) h₁ h₂

/-! ### 3. any single edit makes it False

The edited triangle is `Triangle(cells with one replaced / added / dropped)`, i.e. it goes through
the sorting constructor; the edited cell may end up at another position. -/

/-- dropping the trailing cell -/
theorem triEq_dropLast_false {t : List Cell} (h : t ≠ []) :
    triEq t.dropLast t = false ∧ triEq t t.dropLast = false := by
  have : 0 < t.length := List.length_pos_iff.mpr h
  constructor <;> apply triEq_of_length_ne <;> simp <;> omega

/-- dropping the trailing cell of a canonical triangle and re-constructing -/
theorem triEq_ofCells_dropLast_false {t t' : List Cell} (h : t ≠ [])
    (ht : Triangle.ofCells t.dropLast = .ok t') : triEq t' t = false ∧ triEq t t' = false := by
  have hl : t'.length = t.length - 1 := by rw [(ofCells_perm ht).length_eq]; simp
  have : 0 < t.length := List.length_pos_iff.mpr h
  constructor <;> apply triEq_of_length_ne <;> omega

/-- adding one cell (wherever it sorts to) -/
theorem triEq_snoc_false {t t' : List Cell} {c : Cell} (ht : Triangle.ofCells (t ++ [c]) = .ok t') :
    triEq t' t = false ∧ triEq t t' = false := by
  have hl : t'.length = t.length + 1 := by rw [(ofCells_perm ht).length_eq]; simp
  constructor <;> apply triEq_of_length_ne <;> omega

/-- **replacing one cell by any cell that is not `==` to it** -/
theorem triEq_edit_false {t t' : List Cell} {i : Nat} {c' : Cell} (hi : i < t.length)
    (hwf : ∀ c ∈ t, c.datesOk = true) (hc' : c'.datesOk = true)
    (hne : cellEq t[i] c' = false) (ht : Triangle.ofCells (t.set i c') = .ok t') :
    triEq t t' = false ∧ triEq t' t = false := by
  have h1 : triEq t t' = false :=
    triEq_perm_set_false hi (fun c hc => Cell.kindOk_of_datesOk (hwf c hc))
      (Cell.kindOk_of_datesOk hc') hne (ofCells_perm ht)
  refine ⟨h1, ?_⟩
  cases h2 : triEq t' t
  · rfl
  · rw [Bermuda.triEq_symm h2] at h1; cases h1

/-- changing `period_start` of one cell -/
theorem triEq_edit_date_false_period_start {t t' : List Cell} {i : Nat} {d : Date} (hi : i < t.length)
    (hwf : ∀ c ∈ t, c.datesOk = true) (hd : d ≠ t[i].ps)
    (hc' : ({ t[i] with ps := d } : Cell).datesOk = true)
    (ht : Triangle.ofCells (t.set i { t[i] with ps := d }) = .ok t') :
    triEq t t' = false ∧ triEq t' t = false :=
  triEq_edit_false hi hwf hc' (cellEq_edit_ps_false hd) ht

/-- changing `period_end` of one cell -/
theorem triEq_edit_date_false_period_end {t t' : List Cell} {i : Nat} {d : Date} (hi : i < t.length)
    (hwf : ∀ c ∈ t, c.datesOk = true) (hd : d ≠ t[i].pe)
    (hc' : ({ t[i] with pe := d } : Cell).datesOk = true)
    (ht : Triangle.ofCells (t.set i { t[i] with pe := d }) = .ok t') :
    triEq t t' = false ∧ triEq t' t = false :=
  triEq_edit_false hi hwf hc' (cellEq_edit_pe_false hd) ht

/-- changing `evaluation_date` of one cell -/
theorem triEq_edit_date_false_evaluation_date {t t' : List Cell} {i : Nat} {d : Date} (hi : i < t.length)
    (hwf : ∀ c ∈ t, c.datesOk = true) (hd : d ≠ t[i].ev)
    (hc' : ({ t[i] with ev := d } : Cell).datesOk = true)
    (ht : Triangle.ofCells (t.set i { t[i] with ev := d }) = .ok t') :
    triEq t t' = false ∧ triEq t' t = false :=
  triEq_edit_false hi hwf hc' (cellEq_edit_ev_false hd) ht

/-- changing `prev_evaluation_date` of one incremental cell -/
theorem triEq_edit_date_false_prev_evaluation_date {t t' : List Cell} {i : Nat} {d : Date}
    (hi : i < t.length) (hwf : ∀ c ∈ t, c.datesOk = true) (hk : t[i].kind = .incremental)
    (hd : some d ≠ t[i].prev) (hc' : ({ t[i] with prev := some d } : Cell).datesOk = true)
    (ht : Triangle.ofCells (t.set i { t[i] with prev := some d }) = .ok t') :
    triEq t t' = false ∧ triEq t' t = false :=
  triEq_edit_false hi hwf hc' (cellEq_edit_prev_false hk hd) ht

/-- changing one value to a numerically different one (or to another shape, or to/from `None`) -/
theorem triEq_edit_value_false {t t' : List Cell} {i : Nat} {k : String} {v v' : Val} (hi : i < t.length)
    (hwf : ∀ c ∈ t, c.datesOk = true) (hk : t[i].values.get? k = some v) (hv : v.eqv v' = false)
    (ht : Triangle.ofCells (t.set i { t[i] with values := t[i].values.set k v' }) = .ok t') :
    triEq t t' = false ∧ triEq t' t = false :=
  triEq_edit_false hi hwf (by simpa [Cell.datesOk] using hwf _ (List.getElem_mem hi))
    (cellEq_edit_value_false hk hv) ht

/-- renaming one field to a name the cell does not have yet -/
theorem triEq_rename_field_false {t t' : List Cell} {i : Nat} {k k' : String} (hi : i < t.length)
    (hwf : ∀ c ∈ t, c.datesOk = true) (hk : k ∈ t[i].values.keys) (hk' : k' ∉ t[i].values.keys)
    (ht : Triangle.ofCells (t.set i { t[i] with values := t[i].values.rename k k' }) = .ok t') :
    triEq t t' = false ∧ triEq t' t = false :=
  triEq_edit_false hi hwf (by simpa [Cell.datesOk] using hwf _ (List.getElem_mem hi))
    (cellEq_rename_field_false hk hk') ht

/-- changing the metadata of one cell to a different metadata (any attribute: the eight attributes
are exactly the components of canonical `Metadata`) -/
theorem triEq_edit_meta_false {t t' : List Cell} {i : Nat} {m : Metadata} (hi : i < t.length)
    (hwf : ∀ c ∈ t, c.datesOk = true) (hm : t[i].md.Canon) (hm' : m.Canon) (hne : m ≠ t[i].md)
    (ht : Triangle.ofCells (t.set i { t[i] with md := m }) = .ok t') :
    triEq t t' = false ∧ triEq t' t = false := by
  refine triEq_edit_false hi hwf (by simpa [Cell.datesOk] using hwf _ (List.getElem_mem hi))
    (cellEq_edit_meta_false ?_) ht
  cases h : t[i].md.eqv m
  · rfl
  · exact absurd ((Metadata.eqv_iff_eq hm hm').mp h).symm hne

/-- each of the eight attributes is a real component: two metadata differing in one attribute differ -/
theorem metadata_attribute_edits_differ (m : Metadata) :
    (∀ x, x ≠ m.riskBasis → { m with riskBasis := x } ≠ m) ∧
    (∀ x, x ≠ m.country → { m with country := x } ≠ m) ∧
    (∀ x, x ≠ m.currency → { m with currency := x } ≠ m) ∧
    (∀ x, x ≠ m.reinsuranceBasis → { m with reinsuranceBasis := x } ≠ m) ∧
    (∀ x, x ≠ m.lossDefinition → { m with lossDefinition := x } ≠ m) ∧
    (∀ x, x ≠ m.limit → { m with limit := x } ≠ m) ∧
    (∀ x, x ≠ m.details → { m with details := x } ≠ m) ∧
    (∀ x, x ≠ m.lossDetails → { m with lossDetails := x } ≠ m) := by
  cases m
  refine ⟨?_, ?_, ?_, ?_, ?_, ?_, ?_, ?_⟩ <;> intro x hx h <;> simp_all

/-! ### 4. equal things hash alike -/

/-- equal Metadata have equal hash keys; on the hash key level `==` IS key equality -/
theorem metadata_hashKey_eq_of_eq {a b : Metadata} (h : a.eqv b = true) : a.hashKey = b.hashKey :=
  Metadata.eqv_iff_hashKey.mp h

theorem metadata_eq_iff_hashKey {a b : Metadata} : a.eqv b = true ↔ a.hashKey = b.hashKey :=
  Metadata.eqv_iff_hashKey

/-- equal cells have equal hash keys (regression of D4: `Cell` vs `CumulativeCell`; D5: incremental
cells are hashable and hash consistently) -/
theorem hashKey_eq_of_cellEq {a b : Cell} {ka kb : HKey} (ha : a.datesOk = true) (hb : b.datesOk = true)
    (h : cellEq a b = true) (h₁ : a.hashKey = .ok ka) (h₂ : b.hashKey = .ok kb) : ka = kb :=
  Cell.hashKey_eq_of_cellEq (Cell.kindOk_of_datesOk ha) (Cell.kindOk_of_datesOk hb) h h₁ h₂

/-- equal triangles have equal hash keys -/
theorem triHashKey_eq_of_triEq {a b : List Cell} {ka kb : List HKey}
    (ha : ∀ x ∈ a, x.datesOk = true) (hb : ∀ x ∈ b, x.datesOk = true)
    (h : triEq a b = true) (h₁ : triHashKey a = .ok ka) (h₂ : triHashKey b = .ok kb) : ka = kb :=
  triHashKey_eq_of_triEq' (fun x hx => Cell.kindOk_of_datesOk (ha x hx))
    (fun x hx => Cell.kindOk_of_datesOk (hb x hx)) h h₁ h₂

/-- **equal cells are hashable together** and then hash alike: if `a == b` and `hash(a)` answers, `hash(b)` answers
with the same key. The only value form excluded is the 0-d array (`np.array_equal(5, np.array(5))` is True while
`hash` of the cell holding the 0-d array raises `TypeError`; see the example below). -/
theorem hashKey_ok_of_cellEq {a b : Cell} {ka : HKey} (ha : a.datesOk = true) (hb : b.datesOk = true)
    (h : cellEq a b = true) (za : Dict.noZeroD a.values) (zb : Dict.noZeroD b.values)
    (h₁ : a.hashKey = .ok ka) : b.hashKey = .ok ka :=
  Cell.hashKey_ok_of_cellEq (Cell.kindOk_of_datesOk ha) (Cell.kindOk_of_datesOk hb) h za zb h₁

/-- … in both directions: equal cells without 0-d arrays are both hashable or both unhashable -/
theorem hashable_iff_of_cellEq {a b : Cell} (ha : a.datesOk = true) (hb : b.datesOk = true)
    (h : cellEq a b = true) (za : Dict.noZeroD a.values) (zb : Dict.noZeroD b.values) :
    (∃ k, a.hashKey = .ok k) ↔ (∃ k, b.hashKey = .ok k) :=
  ⟨fun ⟨k, hk⟩ => ⟨k, hashKey_ok_of_cellEq ha hb h za zb hk⟩,
   fun ⟨k, hk⟩ => ⟨k, hashKey_ok_of_cellEq hb ha (cellEq_symm h) zb za hk⟩⟩

/-- the excluded form is real: a scalar and the 0-d array holding it are `==`, the first hashes, the second does not -/
def exScalar : Cell := { kind := .cell, ps := ⟨2020, 1, 1⟩, pe := ⟨2020, 12, 31⟩, ev := ⟨2020, 12, 31⟩, prev := none,
                         values := [("x", .int 5)], md := default }
def exZeroD : Cell := { exScalar with values := [("x", .arr true [] [5])] }
example : cellEq exScalar exZeroD = true ∧ exScalar.hashKey.toBool = true ∧ exZeroD.hashKey.toBool = false := by
  decide +kernel

/-! tie to the source, regenerated on every run by `harness/translate_c02.py`: the hash DEPENDENCY
table, probed on the live objects (change exactly one component of random objects, observe whether
`hash` changes).  No AST: a refactoring that keeps the behaviour keeps the table. -/

/-- components of Metadata that `==` distinguishes (= components of `Metadata.hashKey`) -/
def metaSensitive : List String :=
  ["risk_basis", "country", "currency", "reinsurance_basis", "loss_definition", "per_occurrence_limit",
   "details", "details_key", "loss_details", "loss_details_key"]

/-- representation details of Metadata that `==` does not see (folded away in `Metadata.hashKey`) -/
def metaInsensitive : List String :=
  ["details_order", "details_number_type", "loss_details_order", "loss_details_number_type",
   "per_occurrence_limit_number_type"]

/-- components of a cell that `==` distinguishes (= components of `HKey`) -/
def cellSensitive (incremental : Bool) : List String :=
  ["period_start", "period_end", "evaluation_date"] ++
  (if incremental then ["prev_evaluation_date"] else []) ++
  metaSensitive.map ("metadata:" ++ ·) ++
  ["value_scalar", "value_array_element", "value_array_length", "value_none_vs_zero", "field_name",
   "field_added", "class_basis"]

/-- what `==` does not see: dict orders, int vs float, int64 vs float64, Cell vs CumulativeCell -/
def cellInsensitive (incremental : Bool) : List String :=
  metaInsensitive.map ("metadata:" ++ ·) ++
  ["values_order", "value_scalar_number_type", "value_array_dtype"] ++
  (if incremental then [] else ["class_cell_vs_cumulative"])

def hashRows (cls : String) (sens insens : List String) : List (String × String × String) :=
  sens.map (fun c => (cls, c, "all")) ++ insens.map (fun c => (cls, c, "none"))

def expectedHashDeps : List (String × String × String) :=
  hashRows "Metadata" metaSensitive metaInsensitive ++
  hashRows "Cell" (cellSensitive false) (cellInsensitive false) ++
  hashRows "CumulativeCell" (cellSensitive false) (cellInsensitive false) ++
  hashRows "IncrementalCell" (cellSensitive true) (cellInsensitive true)

/-- **the implementation's hashes depend on every component that `==` distinguishes (every probe
changed the hash) and on nothing else that was probed (no probe changed it)** — exactly the
components of the model's hash keys. -/
theorem tables_hash :
    Generated.HashDeps.ok = true ∧
    (∀ r ∈ expectedHashDeps, r ∈ Generated.HashDeps.table) ∧
    (∀ r ∈ Generated.HashDeps.table, r ∈ expectedHashDeps) := by
  decide +kernel

/-! ### 5. membership, subset, intersection, difference, disjointness agree with cell equality -/

theorem mem_iff {c : Cell} {t : List Cell} :
    Triangle.mem c t = true ↔ ∃ x ∈ t, cellEq x c = true := Triangle.mem_iff

/-- membership does not distinguish equal cells -/
theorem mem_congr {c c' : Cell} {t : List Cell} (hc : c.datesOk = true) (hc' : c'.datesOk = true)
    (ht : ∀ x ∈ t, x.datesOk = true) (h : cellEq c c' = true) : Triangle.mem c t = Triangle.mem c' t := by
  rw [Bool.eq_iff_iff, mem_iff, mem_iff]
  have k := Cell.kindOk_of_datesOk hc
  have k' := Cell.kindOk_of_datesOk hc'
  constructor
  · rintro ⟨x, hx, hxc⟩
    exact ⟨x, hx, Bermuda.cellEq_trans (Cell.kindOk_of_datesOk (ht x hx)) k k' hxc h⟩
  · rintro ⟨x, hx, hxc⟩
    exact ⟨x, hx, Bermuda.cellEq_trans (Cell.kindOk_of_datesOk (ht x hx)) k' k hxc (Bermuda.cellEq_symm h)⟩

theorem le_iff {a b : List Cell} :
    Triangle.le a b = true ↔ a.length ≤ b.length ∧ ∀ c ∈ a, ∃ x ∈ b, cellEq x c = true :=
  Triangle.le_iff

/-- equal triangles are subsets of each other -/
theorem le_of_triEq {a b : List Cell} (h : triEq a b = true) : Triangle.le a b = true := by
  rw [le_iff]
  obtain ⟨hl, hc⟩ := triEq_iff.mp h
  refine ⟨by omega, fun c hcm => ?_⟩
  obtain ⟨i, hi, rfl⟩ := List.getElem_of_mem hcm
  exact ⟨b[i]'(hl ▸ hi), List.getElem_mem _, Bermuda.cellEq_symm (hc i hi (hl ▸ hi))⟩

theorem isdisjoint_iff {a b : List Cell} :
    Triangle.isdisjoint a b = true ↔ ∀ c ∈ b, ∀ x ∈ a, cellEq x c = false := Triangle.isdisjoint_iff

/-- `a & b` succeeds and consists of exactly the cells of `b` that are `==` to a cell of `a`: a sorted
permutation of them, and — `b` being sorted, as every constructed triangle is — exactly them in
`b`'s order -/
theorem inter_spec {a b : List Cell} (hb : kindsConsistent b = true) :
    ∃ t, Triangle.inter a b = .ok t ∧ t.Perm (b.filter (fun c => Triangle.mem c a)) ∧
      t.Pairwise (fun x y => Cell.le x y) ∧
      (∀ c, c ∈ t ↔ c ∈ b ∧ ∃ x ∈ a, cellEq x c = true) ∧
      (b.Pairwise (fun x y => Cell.le x y) → t = b.filter (fun c => Triangle.mem c a)) := by
  obtain ⟨t, h1, h2, h3, h4⟩ := ofCells_filter (fun c => Triangle.mem c a) hb
  refine ⟨t, h1, h2, h3, fun c => ?_, h4⟩
  rw [h2.mem_iff, List.mem_filter, mem_iff]

/-- `a - b` succeeds and consists of exactly the cells of `a` that are `==` to no cell of `b` -/
theorem diff_spec {a b : List Cell} (ha : kindsConsistent a = true) :
    ∃ t, Triangle.diff a b = .ok t ∧ t.Perm (a.filter (fun c => !Triangle.mem c b)) ∧
      t.Pairwise (fun x y => Cell.le x y) ∧
      (∀ c, c ∈ t ↔ c ∈ a ∧ ∀ x ∈ b, cellEq x c = false) ∧
      (a.Pairwise (fun x y => Cell.le x y) → t = a.filter (fun c => !Triangle.mem c b)) := by
  obtain ⟨t, h1, h2, h3, h4⟩ := ofCells_filter (fun c => !Triangle.mem c b) ha
  refine ⟨t, h1, h2, h3, fun c => ?_, h4⟩
  rw [h2.mem_iff, List.mem_filter]
  simp [Triangle.mem]

/-- `a | b` is `a + b`: the mixin chains both operands into the constructor, which keeps duplicates -/
theorem union_eq_add (a b : List Cell) : Triangle.union a b = Triangle.add a b := rfl

/-- `a | b`, when it succeeds, is the sorted permutation of all cells of both operands -/
theorem union_spec {a b t : List Cell} (h : Triangle.union a b = .ok t) :
    t.Perm (a ++ b) ∧ t.Pairwise (fun x y => Cell.le x y) := ⟨ofCells_perm h, ofCells_sorted h⟩

/-- `a | b == b | a` (as sequences, hence `==` and equal hashes), cells at one coordinate being
identical cells -/
theorem union_comm {a b : List Cell}
    (hdup : ∀ x y, x ∈ a ++ b → y ∈ a ++ b → Cell.cmp x y = .eq → x = y) :
    Triangle.union a b = Triangle.union b a :=
  ofCells_perm_invariant List.perm_append_comm hdup

/-- re-uniting the parts of a canonical triangle (however they interleave) gives back the triangle -/
theorem union_of_parts {a b t : List Cell} (ht : Canonical t) (hp : (a ++ b).Perm t)
    (hdup : ∀ x y, x ∈ t → y ∈ t → Cell.cmp x y = .eq → x = y) : Triangle.union a b = .ok t := by
  unfold Triangle.union
  rw [ofCells_perm_invariant hp (fun x y hx hy => hdup x y (hp.mem_iff.mp hx) (hp.mem_iff.mp hy))]
  exact ofCells_idem ht

/-- `a ^ b`, when it succeeds, is the sorted permutation of the cells of `a` not in `b` and the
cells of `b` not in `a` -/
theorem symdiff_spec {a b t : List Cell} (h : Triangle.symdiff a b = .ok t) :
    t.Perm (a.filter (fun c => !Triangle.mem c b) ++ b.filter (fun c => !Triangle.mem c a)) ∧
    t.Pairwise (fun x y => Cell.le x y) := by
  simp only [Triangle.symdiff, bind, Except.bind] at h
  split at h
  · cases h
  · rename_i x hx
    split at h
    · cases h
    · rename_i y hy
      refine ⟨(ofCells_perm h).trans ((ofCells_perm hx).append (ofCells_perm hy)), ofCells_sorted h⟩

/-- the three set tests fit together: `a.isdisjoint(b)` iff `a & b` is empty -/
theorem isdisjoint_iff_inter_empty {a b t : List Cell} (h : Triangle.inter a b = .ok t) :
    Triangle.isdisjoint a b = true ↔ t = [] := by
  have hp := ofCells_perm h
  rw [Triangle.isdisjoint, List.all_eq_true]
  constructor
  · intro hd
    have : b.filter (fun c => Triangle.mem c a) = [] := by
      rw [List.filter_eq_nil_iff]; intro c hc; simpa using hd c hc
    rw [this] at hp; exact List.perm_nil.mp hp
  · intro ht c hc
    subst ht
    have := List.perm_nil.mp hp.symm
    rw [List.filter_eq_nil_iff] at this
    simpa using this c hc

/-! ### 6. the model meets the Spec predicates the driver evaluates on the implementation -/

theorem spec_eq {a b : List Cell} (ha : ∀ x ∈ a, Spec.wfCell x = true) (hb : ∀ x ∈ b, Spec.wfCell x = true) :
    Spec.eqClause a b (triEq a b) = true := by
  simp [Spec.eqClause, Spec.triSame_eq_triEq (fun x hx => Spec.wfCell_iff.mp (ha x hx))
    (fun x hx => Spec.wfCell_iff.mp (hb x hx))]

theorem spec_cellEq {a b : Cell} (ha : Spec.wfCell a = true) (hb : Spec.wfCell b = true) :
    Spec.cellEqClause a b (cellEq a b) = true := by
  simp [Spec.cellEqClause, Spec.cellSame_eq_cellEq (Spec.wfCell_iff.mp ha) (Spec.wfCell_iff.mp hb)]

/-- equal hash keys is what the model answers for `hash(a) == hash(b)` -/
theorem spec_hash {a b : List Cell} {ka kb : List HKey} (ha : ∀ x ∈ a, Spec.wfCell x = true)
    (hb : ∀ x ∈ b, Spec.wfCell x = true) (h₁ : triHashKey a = .ok ka) (h₂ : triHashKey b = .ok kb) :
    Spec.hashClause a b (ka == kb) = true := by
  have wa := fun x hx => Spec.wfCell_iff.mp (ha x hx)
  have wb := fun x hx => Spec.wfCell_iff.mp (hb x hx)
  unfold Spec.hashClause
  rw [Spec.triSame_eq_triEq wa wb]
  cases h : triEq a b
  · rfl
  · simp [triHashKey_eq_of_triEq (fun x hx => (wa x hx).dates) (fun x hx => (wb x hx).dates) h h₁ h₂]

/-- the cell-level hash clause holds of the model's answer `ka == kb` -/
theorem spec_cellHash {a b : Cell} {ka kb : HKey} (ha : Spec.wfCell a = true) (hb : Spec.wfCell b = true)
    (h₁ : a.hashKey = .ok ka) (h₂ : b.hashKey = .ok kb) :
    Spec.cellHashClause a b (ka == kb) = true := by
  have wa := Spec.wfCell_iff.mp ha
  have wb := Spec.wfCell_iff.mp hb
  unfold Spec.cellHashClause
  rw [Spec.cellSame_eq_cellEq wa wb]
  cases h : cellEq a b
  · rfl
  · simp [hashKey_eq_of_cellEq wa.dates wb.dates h h₁ h₂]

/-- on wire-form (key-sorted) metadata the model's `Metadata.__eq__` meets the declarative clause -/
theorem spec_metaEq {a b : Metadata} (ha : a.Canon) (hb : b.Canon) :
    Spec.metaEqClause a b (a.eqv b) = true := by
  unfold Spec.metaEqClause
  by_cases h : a = b
  · subst h; simp [Metadata.eqv_refl]
  · have : a.eqv b = false := by
      cases he : a.eqv b
      · rfl
      · exact absurd ((Metadata.eqv_iff_eq ha hb).mp he) h
    simp [this, h]

/-- equal metadata have equal hash keys: the model's answer `a.hashKey == b.hashKey` meets the clause -/
theorem spec_metaHash {a b : Metadata} : Spec.metaHashClause a b (a.hashKey == b.hashKey) = true := by
  unfold Spec.metaHashClause
  by_cases h : a = b
  · subst h; simp
  · simp [h]

theorem spec_mem {c : Cell} {t : List Cell} (hc : Spec.wfCell c = true) (ht : ∀ x ∈ t, Spec.wfCell x = true) :
    Spec.memClause c t (Triangle.mem c t) = true := by
  have := Spec.isIn_eq_mem (Spec.wfCell_iff.mp hc) (fun x hx => Spec.wfCell_iff.mp (ht x hx))
  unfold Spec.isIn at this
  simp [Spec.memClause, this]

theorem spec_le {a b : List Cell} (ha : ∀ x ∈ a, Spec.wfCell x = true) (hb : ∀ x ∈ b, Spec.wfCell x = true) :
    Spec.leClause a b (Triangle.le a b) = true := by
  have wa := fun x hx => Spec.wfCell_iff.mp (ha x hx)
  have wb := fun x hx => Spec.wfCell_iff.mp (hb x hx)
  have : a.all (fun c => Spec.isIn c b) = a.all (fun c => Triangle.mem c b) := by
    rw [Bool.eq_iff_iff, List.all_eq_true, List.all_eq_true]
    exact ⟨fun h c hc => by rw [← Spec.isIn_eq_mem (wa c hc) wb]; exact h c hc,
           fun h c hc => by rw [Spec.isIn_eq_mem (wa c hc) wb]; exact h c hc⟩
  unfold Spec.leClause Triangle.le
  rw [this]
  by_cases h : a.length > b.length
  · have : ¬ a.length ≤ b.length := by omega
    simp [h, this]
  · have : a.length ≤ b.length := by omega
    simp [h, this]

theorem spec_disj {a b : List Cell} (ha : ∀ x ∈ a, Spec.wfCell x = true) (hb : ∀ x ∈ b, Spec.wfCell x = true) :
    Spec.disjClause a b (Triangle.isdisjoint a b) = true := by
  have wa := fun x hx => Spec.wfCell_iff.mp (ha x hx)
  have wb := fun x hx => Spec.wfCell_iff.mp (hb x hx)
  have : b.any (fun c => Spec.isIn c a) = b.any (fun c => Triangle.mem c a) := by
    rw [Bool.eq_iff_iff, List.any_eq_true, List.any_eq_true]
    exact ⟨fun ⟨c, hc, h⟩ => ⟨c, hc, by rw [← Spec.isIn_eq_mem (wb c hc) wa]; exact h⟩,
           fun ⟨c, hc, h⟩ => ⟨c, hc, by rw [Spec.isIn_eq_mem (wb c hc) wa]; exact h⟩⟩
  unfold Spec.disjClause Triangle.isdisjoint
  rw [this]
  simp [List.all_eq_not_any_not]

theorem spec_inter {a b t : List Cell} (ha : ∀ x ∈ a, Spec.wfCell x = true)
    (hb : ∀ x ∈ b, Spec.wfCell x = true) (h : Triangle.inter a b = .ok t) :
    Spec.interClause a b t = true := by
  have wa := fun x hx => Spec.wfCell_iff.mp (ha x hx)
  have wb := fun x hx => Spec.wfCell_iff.mp (hb x hx)
  simp only [Spec.interClause, Bool.and_eq_true, List.isPerm_iff, filter_isIn_eq wa wb]
  exact ⟨ofCells_perm h, chainB_of_pairwise (ofCells_sorted h)⟩

theorem spec_diff {a b t : List Cell} (ha : ∀ x ∈ a, Spec.wfCell x = true)
    (hb : ∀ x ∈ b, Spec.wfCell x = true) (h : Triangle.diff a b = .ok t) :
    Spec.diffClause a b t = true := by
  have wa := fun x hx => Spec.wfCell_iff.mp (ha x hx)
  have wb := fun x hx => Spec.wfCell_iff.mp (hb x hx)
  have : a.filter (fun c => !Spec.isIn c b) = a.filter (fun c => !Triangle.mem c b) :=
    List.filter_congr fun c hc => by rw [Spec.isIn_eq_mem (wa c hc) wb]
  simp only [Spec.diffClause, Bool.and_eq_true, List.isPerm_iff, this]
  exact ⟨ofCells_perm h, chainB_of_pairwise (ofCells_sorted h)⟩

theorem spec_union {a b t : List Cell} (ha : ∀ x ∈ a, Spec.wfCell x = true)
    (hb : ∀ x ∈ b, Spec.wfCell x = true) (h : Triangle.union a b = .ok t) :
    Spec.unionClause a b t = true := by
  have wa := fun x hx => Spec.wfCell_iff.mp (ha x hx)
  have wb := fun x hx => Spec.wfCell_iff.mp (hb x hx)
  have hp := ofCells_perm h
  have wt : ∀ x ∈ t, x.WF := fun x hx => by
    rcases List.mem_append.mp (hp.mem_iff.mp hx) with h' | h'
    · exact wa x h'
    · exact wb x h'
  have self_in : ∀ (c : Cell) (l : List Cell), c.WF → (∀ x ∈ l, x.WF) → c ∈ l → Spec.isIn c l = true :=
    fun c l hc hl hm => by
      rw [Spec.isIn_eq_mem hc hl, mem_iff]; exact ⟨c, hm, Bermuda.cellEq_refl c⟩
  simp only [Spec.unionClause, Bool.and_eq_true, Bool.or_eq_true, List.all_eq_true, List.isPerm_iff]
  refine ⟨⟨⟨⟨chainB_of_pairwise (ofCells_sorted h), fun c hc => ?_⟩, fun c hc => ?_⟩, fun c hc => ?_⟩, Or.inr hp⟩
  · exact self_in c t (wa c hc) wt (hp.mem_iff.mpr (List.mem_append_left _ hc))
  · exact self_in c t (wb c hc) wt (hp.mem_iff.mpr (List.mem_append_right _ hc))
  · rcases List.mem_append.mp (hp.mem_iff.mp hc) with h' | h'
    · exact Or.inl (self_in c a (wa c h') wa h')
    · exact Or.inr (self_in c b (wb c h') wb h')

theorem spec_xor {a b t : List Cell} (ha : ∀ x ∈ a, Spec.wfCell x = true)
    (hb : ∀ x ∈ b, Spec.wfCell x = true) (h : Triangle.symdiff a b = .ok t) :
    Spec.xorClause a b t = true := by
  have wa := fun x hx => Spec.wfCell_iff.mp (ha x hx)
  have wb := fun x hx => Spec.wfCell_iff.mp (hb x hx)
  have e1 : a.filter (fun c => !Spec.isIn c b) = a.filter (fun c => !Triangle.mem c b) :=
    List.filter_congr fun c hc => by rw [Spec.isIn_eq_mem (wa c hc) wb]
  have e2 : b.filter (fun c => !Spec.isIn c a) = b.filter (fun c => !Triangle.mem c a) :=
    List.filter_congr fun c hc => by rw [Spec.isIn_eq_mem (wb c hc) wa]
  simp only [Spec.xorClause, Bool.and_eq_true, List.isPerm_iff, e1, e2]
  exact ⟨(symdiff_spec h).1, chainB_of_pairwise (symdiff_spec h).2⟩

/-! ### 7. non-vacuity: concrete cells and triangles meet the hypotheses -/

def exMd : Metadata := { country := some "US", details := [("coverage", .str "BI")] }

/-- a plain `Cell` with an int and a float field -/
def exA : Cell :=
  { kind := .cell, ps := ⟨2020, 1, 1⟩, pe := ⟨2020, 12, 31⟩, ev := ⟨2020, 12, 31⟩,
    values := [("paid_loss", .int 100), ("reported_loss", .flt 250)], md := exMd }

/-- its re-typed copy: `CumulativeCell`, int ↔ float, other dict order -/
def exA' : Cell :=
  { kind := .cumulative, ps := ⟨2020, 1, 1⟩, pe := ⟨2020, 12, 31⟩, ev := ⟨2020, 12, 31⟩,
    values := [("reported_loss", .int 250), ("paid_loss", .flt 100)], md := exMd }

/-- a later evaluation with an array field and a `None` field -/
def exB : Cell :=
  { kind := .cell, ps := ⟨2020, 1, 1⟩, pe := ⟨2020, 12, 31⟩, ev := ⟨2021, 12, 31⟩,
    values := [("paid_loss", .arr true [2] [150, 160]), ("reported_loss", .none)], md := exMd }

def exT : List Cell := [exA, exB]

theorem exA_ok : exA.datesOk = true := by decide
theorem exA'_ok : exA'.datesOk = true := by decide
theorem exMd_canon : exMd.Canon := by decide
theorem exT_ok : ∀ c ∈ exT, c.datesOk = true := by decide

/-- `Cell` vs `CumulativeCell`, `100` vs `100.0`, other key order: equal (hypotheses of `cellEq_iff`
hold, and its right-hand side is met by a pair of distinct model cells) -/
theorem exA_eq_exA' : cellEq exA exA' = true := by
  rw [cellEq_iff exA_ok exA'_ok exMd_canon exMd_canon]
  refine ⟨by decide, rfl, rfl, rfl, rfl, rfl, by decide, ?_⟩
  intro k hk
  simp only [exA, Dict.keys, List.map_cons, List.map_nil, List.mem_cons, List.not_mem_nil, or_false] at hk
  rcases hk with rfl | rfl
  · exact ⟨.int 100, .flt 100, by decide, by decide, rfl, by decide⟩
  · exact ⟨.flt 250, .int 250, by decide, by decide, rfl, by decide⟩

example : exA ≠ exA' := by decide

example : triEq exT [exA', exB] = true := by
  simp [exT, exA_eq_exA', Bermuda.cellEq_refl]

/-- transitivity is used on a chain of three distinct representations -/
example : cellEq exA' exA' = true :=
  cellEq_trans exA'_ok exA_ok exA'_ok (cellEq_symm exA_eq_exA') exA_eq_exA'

theorem exA_keys_sorted : sortStrings exA.values.keys = ["paid_loss", "reported_loss"] :=
  List.mergeSort_of_pairwise (by decide)

theorem exA'_keys_sorted : sortStrings exA'.values.keys = ["paid_loss", "reported_loss"] := by
  rw [← exA_keys_sorted]
  exact sortStrings_eq_iff_perm.mpr (by decide)

/-- both cells are hashable and (by `hashKey_eq_of_cellEq`) have the same key -/
example : ∃ k, exA.hashKey = .ok k ∧ exA'.hashKey = .ok k := by
  have h1 : ∃ k, exA.hashKey = .ok k := by
    simp only [Cell.hashKey, valsHashKey, exA_keys_sorted]; exact ⟨_, rfl⟩
  have h2 : ∃ k, exA'.hashKey = .ok k := by
    simp only [Cell.hashKey, valsHashKey, exA'_keys_sorted]; exact ⟨_, rfl⟩
  obtain ⟨k1, hk1⟩ := h1
  obtain ⟨k2, hk2⟩ := h2
  exact ⟨k1, hk1, by rw [hk2, hashKey_eq_of_cellEq exA_ok exA'_ok exA_eq_exA' hk1 hk2]⟩

/-- every single-edit theorem has its hypotheses met on `exT` -/
example : ∃ t', Triangle.ofCells (exT.set 0 { exA with ev := ⟨2021, 1, 31⟩ }) = .ok t' ∧ triEq exT t' = false := by
  obtain ⟨t', ht⟩ := (ofCells_ok_iff (exT.set 0 { exA with ev := ⟨2021, 1, 31⟩ })).mpr (by decide)
  exact ⟨t', ht, (triEq_edit_date_false_evaluation_date (t := exT) (i := 0) (by decide) exT_ok (by decide)
    (by decide) ht).1⟩

example : ∃ t', Triangle.ofCells (exT.set 0 { exA with values := exA.values.set "paid_loss" (.int 101) }) = .ok t' ∧
    triEq exT t' = false := by
  obtain ⟨t', ht⟩ := (ofCells_ok_iff (exT.set 0 { exA with values := exA.values.set "paid_loss" (.int 101) })).mpr
    (by decide)
  exact ⟨t', ht, (triEq_edit_value_false (t := exT) (i := 0) (k := "paid_loss") (v := .int 100) (by decide)
    exT_ok (by decide) (by decide) ht).1⟩

example : ∃ t', Triangle.ofCells (exT.set 1 { exB with values := exB.values.rename "reported_loss" "incurred" }) = .ok t' ∧
    triEq exT t' = false := by
  obtain ⟨t', ht⟩ := (ofCells_ok_iff (exT.set 1 { exB with values := exB.values.rename "reported_loss" "incurred" })).mpr
    (by decide)
  exact ⟨t', ht, (triEq_rename_field_false (t := exT) (i := 1) (by decide) exT_ok (by decide) (by decide) ht).1⟩

example : ∃ t', Triangle.ofCells (exT.set 1 { exB with md := { exMd with country := some "DE" } }) = .ok t' ∧
    triEq exT t' = false := by
  obtain ⟨t', ht⟩ := (ofCells_ok_iff (exT.set 1 { exB with md := { exMd with country := some "DE" } })).mpr
    (by decide)
  exact ⟨t', ht, (triEq_edit_meta_false (t := exT) (i := 1) (by decide) exT_ok (by decide) (by decide)
    (by decide) ht).1⟩

/-- re-uniting interleaving parts in either order gives one and the same triangle: the hypotheses of
`union_of_parts` are met by the triangle constructed from `[exB, exA]` -/
example : ∃ t, Triangle.union [exB] [exA] = .ok t ∧ Triangle.union [exA] [exB] = .ok t := by
  obtain ⟨t, ht⟩ := (ofCells_ok_iff ([exB] ++ [exA])).mpr (by decide)
  have hc : Canonical t := ofCells_canonical ht (by decide)
  have hp : ([exB] ++ [exA]).Perm t := (ofCells_perm ht).symm
  have hdup : ∀ x y, x ∈ t → y ∈ t → Cell.cmp x y = .eq → x = y := by
    intro x y hx hy hxy
    have hx' := hp.mem_iff.mpr hx
    have hy' := hp.mem_iff.mpr hy
    have inj : ∀ a ∈ [exB] ++ [exA], ∀ b ∈ [exB] ++ [exA], a.coord = b.coord → a = b := by decide
    have canon : ∀ a ∈ [exB] ++ [exA], a.md.Canon := by decide
    exact inj x hx' y hy' ((Cell.cmp_eq_eq (canon x hx') (canon y hy')).mp hxy)
  exact ⟨t, union_of_parts hc hp hdup, union_of_parts hc (List.perm_append_comm.trans hp) hdup⟩

example : triEq exT.dropLast exT = false := (triEq_dropLast_false (by decide)).1

/-- `a & b` on a pair of triangles sharing the first cell up to representation: the result exists and
holds `b`'s copy of the shared cell -/
example : ∃ t, Triangle.inter [exA', exB] exT = .ok t ∧ exA ∈ t := by
  obtain ⟨t, ht, _, _, hm, _⟩ := inter_spec (a := [exA', exB]) (b := exT) (by decide)
  exact ⟨t, ht, (hm exA).mpr ⟨by simp [exT], exA', by simp, cellEq_symm exA_eq_exA'⟩⟩

end Bermuda.Properties.C02
