/-
C03 — no operation mutates its arguments (PARTIAL: the theorems cover the accumulating helpers
modelled on the heap of `Model/Heap.lean`; the ~80 public entry points are covered by the
fingerprint correspondence of `harness/c03.py`).

Shape of every frame theorem:
    pattern.targetsFresh → ∀ heap args, every location that existed at entry — in particular every
    location reachable from the arguments — holds the same object when the call returns OR raises.
`pattern_<fn>` is regenerated from the source's AST each run (`Generated/Accum.lean`) and
`pattern_<fn>.targetsFresh = true` is discharged by `decide`: a changed initialiser
(`total = values[0]`, a subscript store or `.update` through a parameter, `v *= rate` on a loop
variable over a parameter) flips it and this file stops building.
Helper lemmas: `Lemmas/Heap.lean`.
-/
import Bermuda.Model.Heap
import Bermuda.Lemmas.Heap
import Bermuda.Generated.Accum
namespace Bermuda.Properties.C03
open Bermuda.Heap

/-! ### 1. frame theorems, parameterised by the accumulator pattern -/

/-- `_conforming_sum`: the accumulator starts as a fresh scalar, so the first `+=` rebinds it to a
new object and every later `+=` writes into that new object only -/
theorem frame__conforming_sum (p : Pattern) (hp : p.targetsFresh = true) (h : Heap) (values : List Ref) :
    Preserves h.size h (conformingSum p h values).1 := by
  unfold conformingSum
  obtain ⟨p0, f0, s0⟩ := initAccumulator_frame (n := h.size) rfl (initOf_fresh hp "total") values
  exact p0.trans (sumLoop_frame values s0 f0)

/-- `_conforming_weighted_average` -/
theorem frame__conforming_weighted_average (p : Pattern) (hp : p.targetsFresh = true) (h : Heap)
    (values : List Ref) (weights : List Rat) :
    Preserves h.size h (conformingWeightedAverage p h values weights).1 := by
  unfold conformingWeightedAverage
  have hi := initAccumulator_frame (n := h.size) rfl (initOf_fresh hp "total") values
  generalize initAccumulator (p.initOf "total") h values = init at hi ⊢
  obtain ⟨h0, t0⟩ := init
  obtain ⟨p0, f0, s0⟩ := hi
  simp only at p0 f0 s0 ⊢
  have p1 := p0.trans (wavgLoop_frame (values.zip weights) s0 f0)
  generalize wavgLoop h0 t0 (values.zip weights) = w at p1 ⊢
  obtain ⟨h1, r⟩ := w
  cases r with
  | error e => exact p1
  | ok t =>
    simp only
    split
    · exact p1
    · split
      · rename_i h2 r hb
        exact p1.trans (binop_frame p1.1 hb).1
      · exact p1

theorem combineEntries_frame {n : Nat} (f : Rat → Rat → Rat) (cur nxt : List (String × Ref))
    (ks : List (String × Ref)) : ∀ {h : Heap}, n ≤ h.size → Preserves n h (combineEntries f h cur nxt ks).1 := by
  induction ks with
  | nil => intro h hn; exact Preserves.refl hn
  | cons k rest ih =>
    intro h hn
    obtain ⟨k, v⟩ := k
    simp only [combineEntries]
    split
    · split
      · have := ih (h := h) hn
        split <;> simp_all
      · split
        · exact Preserves.refl hn
        · rename_i h1 r hb
          have p1 := (binop_frame hn hb).1
          have := p1.trans (ih (h := h1) p1.1)
          split <;> simp_all
    · exact Preserves.refl hn

/-- `_values_add` / `_values_diff`: a comprehension building a new dict of new arrays (the
`earned_premium` entry aliases the argument's array, which is not a write) -/
theorem frame__values_combine (p : Pattern) (hp : p.targetsFresh = true) (f : Rat → Rat → Rat) (h : Heap)
    (a b : Loc) : Preserves h.size h (valuesCombine p f h a b).1 := by
  unfold valuesCombine
  split
  · split
    · exact Preserves.refl (Nat.le_refl _)
    · rename_i ea eb _ _ _
      have pc := combineEntries_frame (n := h.size) f ea eb ea (h := h) (Nat.le_refl _)
      split
      · rename_i h1 e heq; rw [heq] at pc; exact pc
      · rename_i h1 es heq
        rw [heq] at pc
        try rw [if_pos hp]
        exact pc.trans (preserves_alloc pc.1 _)
  · exact Preserves.refl (Nat.le_refl _)

theorem frame__values_add (p : Pattern) (hp : p.targetsFresh = true) (h : Heap) (a b : Loc) :
    Preserves h.size h (valuesAdd p h a b).1 := frame__values_combine p hp _ h a b

theorem frame__values_diff (p : Pattern) (hp : p.targetsFresh = true) (h : Heap) (a b : Loc) :
    Preserves h.size h (valuesDiff p h a b).1 := frame__values_combine p hp _ h a b

/-- `_merge_cell_pair`: `{**cell1.values, **cell2.values}` is a new dict -/
theorem frame__merge_cell_pair (p : Pattern) (hp : p.targetsFresh = true) (h : Heap) (a b : Ref) :
    Preserves h.size h (mergeCellPair p h a b).1 := by
  unfold mergeCellPair
  split
  · exact Preserves.refl (Nat.le_refl _)
  · exact Preserves.refl (Nat.le_refl _)
  · split
    · try rw [if_pos hp]
      exact preserves_alloc (Nat.le_refl _) _
    · exact Preserves.refl (Nat.le_refl _)
  · exact Preserves.refl (Nat.le_refl _)

/-! ### 2. today's source has fresh targets everywhere (tables regenerated each run) -/

theorem pattern__conforming_sum_fresh :
    Generated.Accum.pattern__conforming_sum.targetsFresh = true := by decide
theorem pattern__conforming_weighted_average_fresh :
    Generated.Accum.pattern__conforming_weighted_average.targetsFresh = true := by decide
theorem pattern__values_add_fresh : Generated.Accum.pattern__values_add.targetsFresh = true := by decide
theorem pattern__values_diff_fresh : Generated.Accum.pattern__values_diff.targetsFresh = true := by decide
theorem pattern__merge_cell_pair_fresh : Generated.Accum.pattern__merge_cell_pair.targetsFresh = true := by decide

/-- every function of the anchor list was found, and every write target in every one of them is
initialised by a literal, a fresh container, a copy or a computed value -/
theorem all_patterns_fresh :
    Generated.Accum.ok = true ∧ Generated.Accum.all.all Pattern.targetsFresh = true := by decide

/-- the frame of the five helpers as the source stands -/
theorem helpers_respect_frame (h : Heap) :
    (∀ vs, Preserves h.size h (conformingSum Generated.Accum.pattern__conforming_sum h vs).1) ∧
    (∀ vs ws, Preserves h.size h
      (conformingWeightedAverage Generated.Accum.pattern__conforming_weighted_average h vs ws).1) ∧
    (∀ a b, Preserves h.size h (valuesAdd Generated.Accum.pattern__values_add h a b).1) ∧
    (∀ a b, Preserves h.size h (valuesDiff Generated.Accum.pattern__values_diff h a b).1) ∧
    (∀ a b, Preserves h.size h (mergeCellPair Generated.Accum.pattern__merge_cell_pair h a b).1) :=
  ⟨frame__conforming_sum _ pattern__conforming_sum_fresh h,
   frame__conforming_weighted_average _ pattern__conforming_weighted_average_fresh h,
   frame__values_add _ pattern__values_add_fresh h,
   frame__values_diff _ pattern__values_diff_fresh h,
   frame__merge_cell_pair _ pattern__merge_cell_pair_fresh h⟩

/-! ### 3. position in a chain -/

/-- a call as a heap transformer respects the frame when everything allocated before it is
unchanged after it -/
def Respects (c : Heap → Heap) : Prop := ∀ h, Preserves h.size h (c h)

/-- a sequence of frame-respecting calls respects the frame of the ORIGINAL arguments: whatever
position an operation has in a chain, the objects that existed before the chain are untouched -/
theorem frame_chain (cs : List (Heap → Heap)) (hcs : ∀ c ∈ cs, Respects c) (h : Heap) :
    Preserves h.size h (cs.foldl (fun acc c => c acc) h) := by
  suffices ∀ (cs : List (Heap → Heap)), (∀ c ∈ cs, Respects c) → ∀ (g : Heap), Preserves h.size h g →
      Preserves h.size h (cs.foldl (fun acc c => c acc) g) from this cs hcs h (Preserves.refl (Nat.le_refl _))
  intro cs
  induction cs with
  | nil => intro _ g hg; exact hg
  | cons c rest ih =>
    intro hcs g hg
    simp only [List.foldl_cons]
    apply ih (fun c' hc' => hcs c' (List.mem_cons_of_mem _ hc'))
    exact hg.trans ((hcs c (List.mem_cons_self ..) g).mono hg.1)

/-- the reachable locations of an argument that lives in the heap existed at entry, so they are
covered by `Preserves` -/
theorem reach_head_lt {h : Heap} {l : Loc} {o : Obj} (hl : h.get l = some o) : l < h.size := by
  simp only [Heap.get, Heap.size] at *
  exact (List.getElem?_eq_some_iff.mp hl).1

/-- the statement in terms of reachability: every location reachable from an argument that lives
in the entry heap is unchanged after a frame-respecting call -/
theorem frame_reachable {h h' : Heap} (hp : Preserves h.size h h') (arg : Ref)
    (hwf : ∀ l ∈ reach h arg, l < h.size) : ∀ l ∈ reach h arg, h'.get l = h.get l :=
  fun l hl => hp.2 l (hwf l hl)

/-! ### 4. negative control: the theorem is not vacuous -/

/-- the pattern `total = values[0]` (an initialiser reaching a parameter) -/
def badSum : Pattern := ⟨"_conforming_sum", [⟨"total", "aug", [.param]⟩]⟩

theorem badSum_not_fresh : badSum.targetsFresh = false := by decide

/-- witness heap: two argument arrays `[1]`, `[2]` -/
def witness : Heap := ⟨[.arr [1], .arr [2]]⟩

/-- With `total = values[0]` the loop's `total += val` writes into the first ARGUMENT: location 0
holds `[4]` afterwards. The frame is violated. -/
theorem badSum_violates_frame :
    ¬ Preserves witness.size witness (conformingSum badSum witness [.loc 0, .loc 1]).1 := by
  intro hp
  have h0 := hp.2 0 (by decide)
  have : (conformingSum badSum witness [.loc 0, .loc 1]).1.get 0 ≠ witness.get 0 := by decide +kernel
  exact this h0

/-- and with today's pattern the same call leaves both arrays alone and returns a NEW array `[3]` -/
example :
    (conformingSum Generated.Accum.pattern__conforming_sum witness [.loc 0, .loc 1]).1.get 0 = some (.arr [1]) ∧
    (conformingSum Generated.Accum.pattern__conforming_sum witness [.loc 0, .loc 1]).1.get 1 = some (.arr [2]) ∧
    (match (conformingSum Generated.Accum.pattern__conforming_sum witness [.loc 0, .loc 1]).2 with
      | .ok r => decide (r = .loc 2) | .error _ => false) = true ∧
    (conformingSum Generated.Accum.pattern__conforming_sum witness [.loc 0, .loc 1]).1.get 2 = some (.arr [3]) := by
  decide +kernel

def witnessDicts : Heap := ⟨[.arr [1], .dict [("a", .loc 0)], .dict [("b", .loc 0)]]⟩

/-- `update` through a parameter in `_merge_cell_pair` violates the frame as well -/
example :
    (mergeCellPair ⟨"_merge_cell_pair", [⟨"cell1", "method:update", [.param]⟩]⟩ witnessDicts (.loc 1) (.loc 2)).1.get 1
      ≠ witnessDicts.get 1 := by
  decide +kernel

-- OPEN frame_reachable_entry_points
--   the same frame statement for the remaining functions of the mechanism list
--   (`summarize_cell_values`, `blend_cells`, `_overwrite_values`, `Cell.replace/select/derive_fields/
--   add_statics`, `_thin_cell`, `_accident_quarter_to_policy_year_slice`, `long_data_frame_to_triangle`)
--   and for the ~80 public entry points: their bodies are not modelled on the heap. Their
--   accumulator patterns ARE regenerated and checked (`all_patterns_fresh`), and their behaviour is
--   covered by the fingerprint correspondence (every registered operation × shape × chain position,
--   plain and read-only runs).

end Bermuda.Properties.C03
