/-
C03 — no operation mutates its arguments (partial). Placeholder, replaced below.
-/
import Bermuda.Model.Heap
import Bermuda.Generated.Accum
namespace Bermuda.Properties.C03
open Bermuda.Heap

theorem pattern__conforming_sum_fresh : Generated.Accum.pattern__conforming_sum.targetsFresh = true := by decide

end Bermuda.Properties.C03
