/-
C03 — no operation mutates its arguments (PARTIAL: the theorems cover the accumulating helpers
modelled on the heap of `Model/Heap.lean`; the ~80 public entry points are covered by the
fingerprint correspondence of `harness/c03.py`).

Shape of every frame theorem:
    pattern.targetsFresh → ∀ heap args, every location that existed at entry — in particular every
    location reachable from the arguments — holds the same object when the call returns OR raises.
`pattern_<fn>` is regenerated from the source's AST each run (`Generated/Accum.lean`) and
`pattern_<fn>.targetsFresh = true` is discharged by `decide`: a changed initialiser
(`total = values[0]`, a subscript store or `.update` through a parameter, `v *= rate` on a loop
variable over a parameter) flips it and this file stops building.
Helper lemmas: `Lemmas/Heap.lean`.
-/
import Bermuda.Model.Heap
import Bermuda.Lemmas.Heap
import Bermuda.Generated.Accum
namespace Bermuda.Properties.C03
open Bermuda.Heap

/-! ### 1. frame theorems, parameterised by the accumulator pattern -/

/-- `_conforming_sum`: the accumulator starts as a fresh scalar, so the first `+=` rebinds it to a
new object and every later `+=` writes into that new object only -/
theorem frame__conforming_sum (p : Pattern) (hp : p.targetsFresh = true) (h : Heap) (values : List Ref) :
    Preserves h.size h (conformingSum p h values).1 := by
  unfold conformingSum
  obtain ⟨p0, f0, s0⟩ := initAccumulator_frame (n := h.size) rfl (initOf_fresh hp "total") values
  exact p0.trans (sumLoop_frame values s0 f0)

/-- `_conforming_weighted_average` -/
theorem frame__conforming_weighted_average (p : Pattern) (hp : p.targetsFresh = true) (h : Heap)
    (values : List Ref) (weights : List Rat) :
    Preserves h.size h (conformingWeightedAverage p h values weights).1 := by
  unfold conformingWeightedAverage
  have hi := initAccumulator_frame (n := h.size) rfl (initOf_fresh hp "total") values
  generalize initAccumulator (p.initOf "total") h values = init at hi ⊢
  obtain ⟨h0, t0⟩ := init
  obtain ⟨p0, f0, s0⟩ := hi
  simp only at p0 f0 s0 ⊢
  have p1 := p0.trans (wavgLoop_frame (values.zip weights) s0 f0)
  generalize wavgLoop h0 t0 (values.zip weights) = w at p1 ⊢
  obtain ⟨h1, r⟩ := w
  cases r with
  | error e => exact p1
  | ok t =>
    simp only
    split
    · exact p1
    · split
      · rename_i h2 r hb
        exact p1.trans (binop_frame p1.1 hb).1
      · exact p1

theorem combineEntries_frame {n : Nat} (f : Rat → Rat → Rat) (cur nxt : List (String × Ref))
    (ks : List (String × Ref)) : ∀ {h : Heap}, n ≤ h.size → Preserves n h (combineEntries f h cur nxt ks).1 := by
  induction ks with
  | nil => intro h hn; exact Preserves.refl hn
  | cons k rest ih =>
    intro h hn
    obtain ⟨k, v⟩ := k
    simp only [combineEntries]
    split
    · split
      · have := ih (h := h) hn
        split <;> simp_all
      · split
        · exact Preserves.refl hn
        · rename_i h1 r hb
          have p1 := (binop_frame hn hb).1
          have := p1.trans (ih (h := h1) p1.1)
          split <;> simp_all
    · exact Preserves.refl hn

/-- `_values_add` / `_values_diff`: a comprehension building a new dict of new arrays (the
`earned_premium` entry aliases the argument's array, which is not a write) -/
theorem frame__values_combine (p : Pattern) (hp : p.targetsFresh = true) (f : Rat → Rat → Rat) (h : Heap)
    (a b : Loc) : Preserves h.size h (valuesCombine p f h a b).1 := by
  unfold valuesCombine
  split
  · split
    · exact Preserves.refl (Nat.le_refl _)
    · rename_i ea eb _ _ _
      have pc := combineEntries_frame (n := h.size) f ea eb ea (h := h) (Nat.le_refl _)
      split
      · rename_i h1 e heq; rw [heq] at pc; exact pc
      · rename_i h1 es heq
        rw [heq] at pc
        try rw [if_pos hp]
        exact pc.trans (preserves_alloc pc.1 _)
  · exact Preserves.refl (Nat.le_refl _)

theorem frame__values_add (p : Pattern) (hp : p.targetsFresh = true) (h : Heap) (a b : Loc) :
    Preserves h.size h (valuesAdd p h a b).1 := frame__values_combine p hp _ h a b

theorem frame__values_diff (p : Pattern) (hp : p.targetsFresh = true) (h : Heap) (a b : Loc) :
    Preserves h.size h (valuesDiff p h a b).1 := frame__values_combine p hp _ h a b

/-- `_merge_cell_pair`: `{**cell1.values, **cell2.values}` is a new dict -/
theorem frame__merge_cell_pair (p : Pattern) (hp : p.targetsFresh = true) (h : Heap) (a b : Ref) :
    Preserves h.size h (mergeCellPair p h a b).1 := by
  unfold mergeCellPair
  split
  · exact Preserves.refl (Nat.le_refl _)
  · exact Preserves.refl (Nat.le_refl _)
  · split
    · try rw [if_pos hp]
      exact preserves_alloc (Nat.le_refl _) _
    · exact Preserves.refl (Nat.le_refl _)
  · exact Preserves.refl (Nat.le_refl _)

/-! ### 1b. the cell-level helpers (Model/Heap.lean, "cells on the heap") -/

/-- `Cell._base_replace` / `Cell.replace(values=d)`: a new cell object; nothing is written -/
theorem frame_Cell_replace (p : Pattern) (hp : p.targetsFresh = true) (h : Heap) (c : Loc) (values : Ref) :
    Preserves h.size h (cellReplace p h c values).1 := cellReplace_frame hp (Nat.le_refl _) c values

/-- `Cell.select(keys)` -/
theorem frame_Cell_select (p : Pattern) (hp : p.targetsFresh = true) (h : Heap) (c : Loc) (keys : List String) :
    Preserves h.size h (cellSelect p h c keys).1 := cellSelect_frame hp (Nat.le_refl _) c keys

/-- `Cell.derive_fields(**definitions)`: every step builds a new dict and a new cell -/
theorem frame_Cell_derive_fields (p : Pattern) (hp : p.targetsFresh = true) (h : Heap) (c : Loc)
    (defs : List (String × Ref)) : Preserves h.size h (cellDeriveFields p h c defs).1 :=
  cellDeriveFields_frame hp defs c (Nat.le_refl _)

/-- `Cell.derive_metadata(**definitions)`, any mix and order of top-level attributes and detail keys -/
theorem frame_Cell_derive_metadata (p : Pattern) (hp : p.targetsFresh = true) (h : Heap) (c : Loc)
    (defs : List (String × Bool × Ref)) : Preserves h.size h (cellDeriveMetadata p h c c defs).1 :=
  cellDeriveMetadata_frame hp defs c c (Nat.le_refl _)

/-- `Cell.add_statics(source_cell, fields)` -/
theorem frame_Cell_add_statics (p : Pattern) (hp : p.targetsFresh = true) (h : Heap) (c src : Loc)
    (fields : List String) : Preserves h.size h (cellAddStatics p h c src fields).1 :=
  cellAddStatics_frame hp (Nat.le_refl _) c src fields

/-- `_overwrite_values(cell1, cell2, suffix)` -/
theorem frame__overwrite_values (p : Pattern) (hp : p.targetsFresh = true) (h : Heap) (c1 c2 : Loc)
    (suffix : Option String) : Preserves h.size h (overwriteValues p h c1 c2 suffix).1 :=
  overwriteValues_frame hp (Nat.le_refl _) c1 c2 suffix

/-- `_thin_cell(cell, ndxs)`: fancy indexing allocates -/
theorem frame__thin_cell (p : Pattern) (hp : p.targetsFresh = true) (h : Heap) (c : Loc) (ndxs : List Nat) :
    Preserves h.size h (thinCell p h c ndxs).1 := thinCell_frame hp (Nat.le_refl _) c ndxs

/-- `_convert_cell_currency(cell, rate, target)`: `v * rate` allocates -/
theorem frame__convert_cell_currency (p : Pattern) (hp : p.targetsFresh = true) (h : Heap) (c : Loc)
    (fields : List String) (rate : Rat) (currency : Ref) :
    Preserves h.size h (convertCellCurrency p h c fields rate currency).1 :=
  convertCellCurrency_frame hp (Nat.le_refl _) c fields rate currency

/-- `summarize_cell_values` (sum-type rules): one `_conforming_sum` per key over aliases of the
cells' values, results collected in a new dict -/
theorem frame_summarize_cell_values (p : Pattern) (hp : p.targetsFresh = true) (h : Heap) (cells : List Loc)
    (keys : List String) : Preserves h.size h (summarizeCellValues p h cells keys).1 :=
  summarizeCellValues_frame hp (Nat.le_refl _) cells keys

/-- the `vals_dict[field] += val * py_share` loop of `_accident_quarter_to_policy_year_slice`:
invariant "the dict and every array in it were allocated after entry" -/
theorem frame__accident_quarter_accumulate (p : Pattern) (hp : p.targetsFresh = true) (h : Heap)
    (cells : List (Loc × Rat)) : Preserves h.size h (aqpyAccumulate p h cells).1 :=
  aqpyAccumulate_frame hp h cells

/-- `blend_cells(cells, weights, "linear", seed)`: stores go into the fresh `clean_values` -/
theorem frame_blend_cells (pb pr : Pattern) (hpb : pb.targetsFresh = true) (hpr : pr.targetsFresh = true)
    (h : Heap) (cells : List Loc) (weights : List Rat) :
    Preserves h.size h (blendCells pb pr h cells weights).1 := blendCells_frame hpb hpr h cells weights

/-- `_weight_cell_values`: per sub-period a new dict of new values (no pattern: nothing but allocation) -/
theorem frame__weight_cell_values (h : Heap) (ev : List (String × Ref)) (ws : List Rat) :
    Preserves h.size h (weightCellValues h ev ws).1 := weightCellValues_frame ev ws (Nat.le_refl _)

/-! ### 2. today's source has fresh targets everywhere (tables regenerated each run) -/

theorem pattern__conforming_sum_fresh :
    Generated.Accum.pattern__conforming_sum.targetsFresh = true := by decide
theorem pattern__conforming_weighted_average_fresh :
    Generated.Accum.pattern__conforming_weighted_average.targetsFresh = true := by decide
theorem pattern__values_add_fresh : Generated.Accum.pattern__values_add.targetsFresh = true := by decide
theorem pattern__values_diff_fresh : Generated.Accum.pattern__values_diff.targetsFresh = true := by decide
theorem pattern__merge_cell_pair_fresh : Generated.Accum.pattern__merge_cell_pair.targetsFresh = true := by decide

/-- every function of the anchor list was found, and every write target in every one of them is
initialised by a literal, a fresh container, a copy or a computed value -/
theorem all_patterns_fresh :
    Generated.Accum.ok = true ∧ Generated.Accum.all.all Pattern.targetsFresh = true := by decide

theorem cell_patterns_fresh :
    Generated.Accum.pattern_Cell__base_replace.targetsFresh = true ∧
    Generated.Accum.pattern_Cell_replace.targetsFresh = true ∧
    Generated.Accum.pattern_Cell_select.targetsFresh = true ∧
    Generated.Accum.pattern_Cell_derive_fields.targetsFresh = true ∧
    Generated.Accum.pattern_Cell_derive_metadata.targetsFresh = true ∧
    Generated.Accum.pattern_Cell_add_statics.targetsFresh = true ∧
    Generated.Accum.pattern__overwrite_values.targetsFresh = true ∧
    Generated.Accum.pattern__thin_cell.targetsFresh = true ∧
    Generated.Accum.pattern__convert_cell_currency.targetsFresh = true ∧
    Generated.Accum.pattern_summarize_cell_values.targetsFresh = true ∧
    Generated.Accum.pattern__accident_quarter_to_policy_year_slice.targetsFresh = true ∧
    Generated.Accum.pattern_blend_cells.targetsFresh = true ∧
    Generated.Accum.pattern__linear_blend.targetsFresh = true ∧
    Generated.Accum.pattern__mixture_blend.targetsFresh = true ∧
    Generated.Accum.pattern__weight_cell_values.targetsFresh = true := by decide

/-- the frame of the cell-level helpers as the source stands -/
theorem cell_helpers_respect_frame (h : Heap) :
    (∀ c v, Preserves h.size h (cellReplace Generated.Accum.pattern_Cell__base_replace h c v).1) ∧
    (∀ c ks, Preserves h.size h (cellSelect Generated.Accum.pattern_Cell_select h c ks).1) ∧
    (∀ c ds, Preserves h.size h (cellDeriveFields Generated.Accum.pattern_Cell_derive_fields h c ds).1) ∧
    (∀ c ds, Preserves h.size h (cellDeriveMetadata Generated.Accum.pattern_Cell_derive_metadata h c c ds).1) ∧
    (∀ c s fs, Preserves h.size h (cellAddStatics Generated.Accum.pattern_Cell_add_statics h c s fs).1) ∧
    (∀ a b sf, Preserves h.size h (overwriteValues Generated.Accum.pattern__overwrite_values h a b sf).1) ∧
    (∀ c ix, Preserves h.size h (thinCell Generated.Accum.pattern__thin_cell h c ix).1) ∧
    (∀ c fs r cu, Preserves h.size h (convertCellCurrency Generated.Accum.pattern__convert_cell_currency h c fs r cu).1) ∧
    (∀ cs ks, Preserves h.size h (summarizeCellValues Generated.Accum.pattern__conforming_sum h cs ks).1) ∧
    (∀ cs, Preserves h.size h (aqpyAccumulate Generated.Accum.pattern__accident_quarter_to_policy_year_slice h cs).1) ∧
    (∀ cs ws, Preserves h.size h
      (blendCells Generated.Accum.pattern_blend_cells Generated.Accum.pattern_Cell__base_replace h cs ws).1) := by
  obtain ⟨b1, _, b3, b4, b5, b6, b7, b8, b9, _, b11, b12, _, _, _⟩ := cell_patterns_fresh
  exact ⟨frame_Cell_replace _ b1 h, frame_Cell_select _ b3 h, frame_Cell_derive_fields _ b4 h,
    frame_Cell_derive_metadata _ b5 h, frame_Cell_add_statics _ b6 h, frame__overwrite_values _ b7 h,
    frame__thin_cell _ b8 h, frame__convert_cell_currency _ b9 h,
    frame_summarize_cell_values _ pattern__conforming_sum_fresh h,
    frame__accident_quarter_accumulate _ b11 h, frame_blend_cells _ _ b12 b1 h⟩

/-- the frame of the five helpers as the source stands -/
theorem helpers_respect_frame (h : Heap) :
    (∀ vs, Preserves h.size h (conformingSum Generated.Accum.pattern__conforming_sum h vs).1) ∧
    (∀ vs ws, Preserves h.size h
      (conformingWeightedAverage Generated.Accum.pattern__conforming_weighted_average h vs ws).1) ∧
    (∀ a b, Preserves h.size h (valuesAdd Generated.Accum.pattern__values_add h a b).1) ∧
    (∀ a b, Preserves h.size h (valuesDiff Generated.Accum.pattern__values_diff h a b).1) ∧
    (∀ a b, Preserves h.size h (mergeCellPair Generated.Accum.pattern__merge_cell_pair h a b).1) :=
  ⟨frame__conforming_sum _ pattern__conforming_sum_fresh h,
   frame__conforming_weighted_average _ pattern__conforming_weighted_average_fresh h,
   frame__values_add _ pattern__values_add_fresh h,
   frame__values_diff _ pattern__values_diff_fresh h,
   frame__merge_cell_pair _ pattern__merge_cell_pair_fresh h⟩

/-! ### 3. position in a chain -/

/-- a call as a heap transformer respects the frame when everything allocated before it is
unchanged after it -/
def Respects (c : Heap → Heap) : Prop := ∀ h, Preserves h.size h (c h)

/-- a sequence of frame-respecting calls respects the frame of the ORIGINAL arguments: whatever
position an operation has in a chain, the objects that existed before the chain are untouched -/
theorem frame_chain (cs : List (Heap → Heap)) (hcs : ∀ c ∈ cs, Respects c) (h : Heap) :
    Preserves h.size h (cs.foldl (fun acc c => c acc) h) := by
  suffices ∀ (cs : List (Heap → Heap)), (∀ c ∈ cs, Respects c) → ∀ (g : Heap), Preserves h.size h g →
      Preserves h.size h (cs.foldl (fun acc c => c acc) g) from this cs hcs h (Preserves.refl (Nat.le_refl _))
  intro cs
  induction cs with
  | nil => intro _ g hg; exact hg
  | cons c rest ih =>
    intro hcs g hg
    simp only [List.foldl_cons]
    apply ih (fun c' hc' => hcs c' (List.mem_cons_of_mem _ hc'))
    exact hg.trans ((hcs c (List.mem_cons_self ..) g).mono hg.1)

/-- the reachable locations of an argument that lives in the heap existed at entry, so they are
covered by `Preserves` -/
theorem reach_head_lt {h : Heap} {l : Loc} {o : Obj} (hl : h.get l = some o) : l < h.size := by
  simp only [Heap.get, Heap.size] at *
  exact (List.getElem?_eq_some_iff.mp hl).1

/-- the statement in terms of reachability: every location reachable from an argument that lives
in the entry heap is unchanged after a frame-respecting call -/
theorem frame_reachable {h h' : Heap} (hp : Preserves h.size h h') (arg : Ref)
    (hwf : ∀ l ∈ reach h arg, l < h.size) : ∀ l ∈ reach h arg, h'.get l = h.get l :=
  fun l hl => hp.2 l (hwf l hl)

/-! ### 4. negative control: the theorem is not vacuous -/

/-- the pattern `total = values[0]` (an initialiser reaching a parameter) -/
def badSum : Pattern := ⟨"_conforming_sum", [⟨"total", "aug", [.param]⟩]⟩

theorem badSum_not_fresh : badSum.targetsFresh = false := by decide

/-- witness heap: two argument arrays `[1]`, `[2]` -/
def witness : Heap := ⟨[.arr [1], .arr [2]]⟩

/-- With `total = values[0]` the loop's `total += val` writes into the first ARGUMENT: location 0
holds `[4]` afterwards. The frame is violated. -/
theorem badSum_violates_frame :
    ¬ Preserves witness.size witness (conformingSum badSum witness [.loc 0, .loc 1]).1 := by
  intro hp
  have h0 := hp.2 0 (by decide)
  have : (conformingSum badSum witness [.loc 0, .loc 1]).1.get 0 ≠ witness.get 0 := by decide +kernel
  exact this h0

/-- and with today's pattern the same call leaves both arrays alone and returns a NEW array `[3]` -/
example :
    (conformingSum Generated.Accum.pattern__conforming_sum witness [.loc 0, .loc 1]).1.get 0 = some (.arr [1]) ∧
    (conformingSum Generated.Accum.pattern__conforming_sum witness [.loc 0, .loc 1]).1.get 1 = some (.arr [2]) ∧
    (match (conformingSum Generated.Accum.pattern__conforming_sum witness [.loc 0, .loc 1]).2 with
      | .ok r => decide (r = .loc 2) | .error _ => false) = true ∧
    (conformingSum Generated.Accum.pattern__conforming_sum witness [.loc 0, .loc 1]).1.get 2 = some (.arr [3]) := by
  decide +kernel

def witnessDicts : Heap := ⟨[.arr [1], .dict [("a", .loc 0)], .dict [("b", .loc 0)]]⟩

/-- `update` through a parameter in `_merge_cell_pair` violates the frame as well -/
example :
    (mergeCellPair ⟨"_merge_cell_pair", [⟨"cell1", "method:update", [.param]⟩]⟩ witnessDicts (.loc 1) (.loc 2)).1.get 1
      ≠ witnessDicts.get 1 := by
  decide +kernel

/-- the seeded change of `Cell.derive_metadata` (fast path `cell.metadata.details[name] = value` once
`cell is not self`): after a top-level attribute definition the new metadata object still SHARES the
details dict of the argument, so the store lands in the argument. Witness: cell 3 with values dict 0,
metadata 2 whose details dict is 1; `derive_metadata(currency=…, region=…)`. -/
def witnessCell : Heap :=
  ⟨[.dict [], .dict [("coverage", .scalar 1)], .dict [("details", .loc 1), ("currency", .scalar 0)],
    .dict [("values", .loc 0), ("metadata", .loc 2)]]⟩

theorem derive_metadata_fast_path_violates_frame :
    (cellDeriveMetadata ⟨"Cell.derive_metadata", [⟨"cell", "store", [.param]⟩]⟩ witnessCell 3 3
        [("currency", true, .scalar 7), ("region", false, .scalar 9)]).1.get 1 ≠ witnessCell.get 1 := by
  decide +kernel

/-- with today's pattern the same call leaves the argument's details dict alone -/
example :
    (cellDeriveMetadata Generated.Accum.pattern_Cell_derive_metadata witnessCell 3 3
        [("currency", true, .scalar 7), ("region", false, .scalar 9)]).1.get 1 = witnessCell.get 1 := by
  decide +kernel

/-- `v *= exchange_rate` on the loop variable multiplies the argument's array in place -/
example :
    (convertCellCurrency ⟨"_convert_cell_currency", [⟨"v", "aug", [.param]⟩]⟩
        ⟨[.arr [2, 4], .dict [("paid_loss", .loc 0)], .dict [("values", .loc 1), ("metadata", .none)]]⟩
        2 ["paid_loss"] ((1 : Rat) / 2) (.scalar 1)).1.get 0 = some (.arr [1, 2]) := by
  decide +kernel

-- OPEN frame_reachable_entry_points
--   the same frame statement for the PUBLIC ENTRY POINTS (~80 operations of the harness registry) and
--   for the anchor functions whose bodies are not modelled on the heap: `to_incremental`,
--   `to_cumulative` (beyond `_values_diff`/`_values_add`), `coalesce`, `_aggregate_period`,
--   `utils.add_statics`, `long_data_frame_to_triangle`, `monthly_ep_to_quarterly_ep`, `blend_samples`
--   with the mixture method (numpy RNG), `Cell.replace` with callables.
--   COVERED by frame theorems above (model + theorem + pattern freshness by `decide`):
--   `_conforming_sum`, `_conforming_weighted_average`, `_values_add`, `_values_diff`, `_merge_cell_pair`,
--   `Cell._base_replace`/`Cell.replace(values=…)`, `Cell.select`, `Cell.derive_fields`,
--   `Cell.derive_metadata`, `Cell.add_statics`, `_overwrite_values`, `_thin_cell`,
--   `_convert_cell_currency`, `summarize_cell_values` (sum rules), the `vals_dict[field] += …` loop of
--   `_accident_quarter_to_policy_year_slice`, `blend_cells` (linear), `_weight_cell_values`.
--   For everything else the accumulator patterns ARE regenerated and checked (`all_patterns_fresh`, 28
--   functions) and the behaviour is covered by the fingerprint correspondence (every registered
--   operation × shape × chain position, plain and read-only runs).

end Bermuda.Properties.C03
