/-
C03 — no operation mutates its arguments. Sections 1–4: the accumulating helpers modelled by hand on the
heap of `Model/Heap.lean`. Section 5: the frame property for (almost) every function of the package
through a translator into the small imperative language of `Model/HeapIR.lean` and a static discipline
proved sound once (`frame_of_discipline`, `frame_chain_ir`, `all_disciplined`). The fingerprint
correspondence of `harness/c03.py` runs the real implementation.

Shape of every frame theorem:
    pattern.targetsFresh → ∀ heap args, every location that existed at entry — in particular every
    location reachable from the arguments — holds the same object when the call returns OR raises.
`pattern_<fn>` is regenerated from the source's AST each run (`Generated/Accum.lean`) and
`pattern_<fn>.targetsFresh = true` is discharged by `decide`: a changed initialiser
(`total = values[0]`, a subscript store or `.update` through a parameter, `v *= rate` on a loop
variable over a parameter) flips it and this file stops building.
Helper lemmas: `Lemmas/Heap.lean`.
-/
import Bermuda.Model.Heap
import Bermuda.Lemmas.Heap
import Bermuda.Generated.Accum
import Bermuda.Model.HeapIR
import Bermuda.Lemmas.HeapIRMain
import Bermuda.Generated.HeapIR
namespace Bermuda.Properties.C03
open Bermuda.Heap

/-! ### 1. frame theorems, parameterised by the accumulator pattern -/

/-- `_conforming_sum`: the accumulator starts as a fresh scalar, so the first `+=` rebinds it to a
new object and every later `+=` writes into that new object only -/
theorem frame__conforming_sum (p : Pattern) (hp : p.targetsFresh = true) (h : Heap) (values : List Ref) :
    Preserves h.size h (conformingSum p h values).1 := by
  unfold conformingSum
  obtain ⟨p0, f0, s0⟩ := initAccumulator_frame (n := h.size) rfl (initOf_fresh hp "total") values
  exact p0.trans (sumLoop_frame values s0 f0)

/-- `_conforming_weighted_average` -/
theorem frame__conforming_weighted_average (p : Pattern) (hp : p.targetsFresh = true) (h : Heap)
    (values : List Ref) (weights : List Rat) :
    Preserves h.size h (conformingWeightedAverage p h values weights).1 := by
  unfold conformingWeightedAverage
  have hi := initAccumulator_frame (n := h.size) rfl (initOf_fresh hp "total") values
  generalize initAccumulator (p.initOf "total") h values = init at hi ⊢
  obtain ⟨h0, t0⟩ := init
  obtain ⟨p0, f0, s0⟩ := hi
  simp only at p0 f0 s0 ⊢
  have p1 := p0.trans (wavgLoop_frame (values.zip weights) s0 f0)
  generalize wavgLoop h0 t0 (values.zip weights) = w at p1 ⊢
  obtain ⟨h1, r⟩ := w
  cases r with
  | error e => exact p1
  | ok t =>
    simp only
    split
    · exact p1
    · split
      · rename_i h2 r hb
        exact p1.trans (binop_frame p1.1 hb).1
      · exact p1

/-- `_values_add` / `_values_diff`: a comprehension building a new dict of new arrays (the
`earned_premium` entry aliases the argument's array, which is not a write) -/
theorem frame__values_combine (p : Pattern) (hp : p.targetsFresh = true) (f : Rat → Rat → Rat) (h : Heap)
    (a b : Loc) : Preserves h.size h (valuesCombine p f h a b).1 := by
  unfold valuesCombine
  split
  · split
    · exact Preserves.refl (Nat.le_refl _)
    · rename_i ea eb _ _ _
      have pc := combineEntries_frame (n := h.size) f ea eb ea (h := h) (Nat.le_refl _)
      split
      · rename_i h1 e heq; rw [heq] at pc; exact pc
      · rename_i h1 es heq
        rw [heq] at pc
        try rw [if_pos hp]
        exact pc.trans (preserves_alloc pc.1 _)
  · exact Preserves.refl (Nat.le_refl _)

theorem frame__values_add (p : Pattern) (hp : p.targetsFresh = true) (h : Heap) (a b : Loc) :
    Preserves h.size h (valuesAdd p h a b).1 := frame__values_combine p hp _ h a b

theorem frame__values_diff (p : Pattern) (hp : p.targetsFresh = true) (h : Heap) (a b : Loc) :
    Preserves h.size h (valuesDiff p h a b).1 := frame__values_combine p hp _ h a b

/-- `_merge_cell_pair`: `{**cell1.values, **cell2.values}` is a new dict -/
theorem frame__merge_cell_pair (p : Pattern) (hp : p.targetsFresh = true) (h : Heap) (a b : Ref) :
    Preserves h.size h (mergeCellPair p h a b).1 := by
  unfold mergeCellPair
  split
  · exact Preserves.refl (Nat.le_refl _)
  · exact Preserves.refl (Nat.le_refl _)
  · split
    · try rw [if_pos hp]
      exact preserves_alloc (Nat.le_refl _) _
    · exact Preserves.refl (Nat.le_refl _)
  · exact Preserves.refl (Nat.le_refl _)

/-! ### 1b. the cell-level helpers (Model/Heap.lean, "cells on the heap") -/

/-- `Cell._base_replace` / `Cell.replace(values=d)`: a new cell object; nothing is written -/
theorem frame_Cell_replace (p : Pattern) (hp : p.targetsFresh = true) (h : Heap) (c : Loc) (values : Ref) :
    Preserves h.size h (cellReplace p h c values).1 := cellReplace_frame hp (Nat.le_refl _) c values

/-- `Cell.select(keys)` -/
theorem frame_Cell_select (p : Pattern) (hp : p.targetsFresh = true) (h : Heap) (c : Loc) (keys : List String) :
    Preserves h.size h (cellSelect p h c keys).1 := cellSelect_frame hp (Nat.le_refl _) c keys

/-- `Cell.derive_fields(**definitions)`: every step builds a new dict and a new cell -/
theorem frame_Cell_derive_fields (p : Pattern) (hp : p.targetsFresh = true) (h : Heap) (c : Loc)
    (defs : List (String × Ref)) : Preserves h.size h (cellDeriveFields p h c defs).1 :=
  cellDeriveFields_frame hp defs c (Nat.le_refl _)

/-- `Cell.derive_metadata(**definitions)`, any mix and order of top-level attributes and detail keys -/
theorem frame_Cell_derive_metadata (p : Pattern) (hp : p.targetsFresh = true) (h : Heap) (c : Loc)
    (defs : List (String × Bool × Ref)) : Preserves h.size h (cellDeriveMetadata p h c c defs).1 :=
  cellDeriveMetadata_frame hp defs c c (Nat.le_refl _)

/-- `Cell.add_statics(source_cell, fields)` -/
theorem frame_Cell_add_statics (p : Pattern) (hp : p.targetsFresh = true) (h : Heap) (c src : Loc)
    (fields : List String) : Preserves h.size h (cellAddStatics p h c src fields).1 :=
  cellAddStatics_frame hp (Nat.le_refl _) c src fields

/-- `_overwrite_values(cell1, cell2, suffix)` -/
theorem frame__overwrite_values (p : Pattern) (hp : p.targetsFresh = true) (h : Heap) (c1 c2 : Loc)
    (suffix : Option String) : Preserves h.size h (overwriteValues p h c1 c2 suffix).1 :=
  overwriteValues_frame hp (Nat.le_refl _) c1 c2 suffix

/-- `_thin_cell(cell, ndxs)`: fancy indexing allocates -/
theorem frame__thin_cell (p : Pattern) (hp : p.targetsFresh = true) (h : Heap) (c : Loc) (ndxs : List Nat) :
    Preserves h.size h (thinCell p h c ndxs).1 := thinCell_frame hp (Nat.le_refl _) c ndxs

/-- `_convert_cell_currency(cell, rate, target)`: `v * rate` allocates -/
theorem frame__convert_cell_currency (p : Pattern) (hp : p.targetsFresh = true) (h : Heap) (c : Loc)
    (fields : List String) (rate : Rat) (currency : Ref) :
    Preserves h.size h (convertCellCurrency p h c fields rate currency).1 :=
  convertCellCurrency_frame hp (Nat.le_refl _) c fields rate currency

/-- `summarize_cell_values` (sum-type rules): one `_conforming_sum` per key over aliases of the
cells' values, results collected in a new dict -/
theorem frame_summarize_cell_values (p : Pattern) (hp : p.targetsFresh = true) (h : Heap) (cells : List Loc)
    (keys : List String) : Preserves h.size h (summarizeCellValues p h cells keys).1 :=
  summarizeCellValues_frame hp (Nat.le_refl _) cells keys

/-- the `vals_dict[field] += val * py_share` loop of `_accident_quarter_to_policy_year_slice`:
invariant "the dict and every array in it were allocated after entry" -/
theorem frame__accident_quarter_accumulate (p : Pattern) (hp : p.targetsFresh = true) (h : Heap)
    (cells : List (Loc × Rat)) : Preserves h.size h (aqpyAccumulate p h cells).1 :=
  aqpyAccumulate_frame hp h cells

/-- `blend_cells(cells, weights, "linear", seed)`: stores go into the fresh `clean_values` -/
theorem frame_blend_cells (pb pr : Pattern) (hpb : pb.targetsFresh = true) (hpr : pr.targetsFresh = true)
    (h : Heap) (cells : List Loc) (weights : List Rat) :
    Preserves h.size h (blendCells pb pr h cells weights).1 := blendCells_frame hpb hpr h cells weights

/-- `_weight_cell_values`: per sub-period a new dict of new values (no pattern: nothing but allocation) -/
theorem frame__weight_cell_values (h : Heap) (ev : List (String × Ref)) (ws : List Rat) :
    Preserves h.size h (weightCellValues h ev ws).1 := weightCellValues_frame ev ws (Nat.le_refl _)

/-! ### 2. today's source has fresh targets everywhere (tables regenerated each run) -/

theorem pattern__conforming_sum_fresh :
    Generated.Accum.pattern__conforming_sum.targetsFresh = true := by decide
theorem pattern__conforming_weighted_average_fresh :
    Generated.Accum.pattern__conforming_weighted_average.targetsFresh = true := by decide
theorem pattern__values_add_fresh : Generated.Accum.pattern__values_add.targetsFresh = true := by decide
theorem pattern__values_diff_fresh : Generated.Accum.pattern__values_diff.targetsFresh = true := by decide
theorem pattern__merge_cell_pair_fresh : Generated.Accum.pattern__merge_cell_pair.targetsFresh = true := by decide

/-- every function of the anchor list was found, and every write target in every one of them is
initialised by a literal, a fresh container, a copy or a computed value -/
theorem all_patterns_fresh :
    Generated.Accum.ok = true ∧ Generated.Accum.all.all Pattern.targetsFresh = true := by decide

theorem cell_patterns_fresh :
    Generated.Accum.pattern_Cell__base_replace.targetsFresh = true ∧
    Generated.Accum.pattern_Cell_replace.targetsFresh = true ∧
    Generated.Accum.pattern_Cell_select.targetsFresh = true ∧
    Generated.Accum.pattern_Cell_derive_fields.targetsFresh = true ∧
    Generated.Accum.pattern_Cell_derive_metadata.targetsFresh = true ∧
    Generated.Accum.pattern_Cell_add_statics.targetsFresh = true ∧
    Generated.Accum.pattern__overwrite_values.targetsFresh = true ∧
    Generated.Accum.pattern__thin_cell.targetsFresh = true ∧
    Generated.Accum.pattern__convert_cell_currency.targetsFresh = true ∧
    Generated.Accum.pattern_summarize_cell_values.targetsFresh = true ∧
    Generated.Accum.pattern__accident_quarter_to_policy_year_slice.targetsFresh = true ∧
    Generated.Accum.pattern_blend_cells.targetsFresh = true ∧
    Generated.Accum.pattern__linear_blend.targetsFresh = true ∧
    Generated.Accum.pattern__mixture_blend.targetsFresh = true ∧
    Generated.Accum.pattern__weight_cell_values.targetsFresh = true := by decide

/-- the frame of the cell-level helpers as the source stands -/
theorem cell_helpers_respect_frame (h : Heap) :
    (∀ c v, Preserves h.size h (cellReplace Generated.Accum.pattern_Cell__base_replace h c v).1) ∧
    (∀ c ks, Preserves h.size h (cellSelect Generated.Accum.pattern_Cell_select h c ks).1) ∧
    (∀ c ds, Preserves h.size h (cellDeriveFields Generated.Accum.pattern_Cell_derive_fields h c ds).1) ∧
    (∀ c ds, Preserves h.size h (cellDeriveMetadata Generated.Accum.pattern_Cell_derive_metadata h c c ds).1) ∧
    (∀ c s fs, Preserves h.size h (cellAddStatics Generated.Accum.pattern_Cell_add_statics h c s fs).1) ∧
    (∀ a b sf, Preserves h.size h (overwriteValues Generated.Accum.pattern__overwrite_values h a b sf).1) ∧
    (∀ c ix, Preserves h.size h (thinCell Generated.Accum.pattern__thin_cell h c ix).1) ∧
    (∀ c fs r cu, Preserves h.size h (convertCellCurrency Generated.Accum.pattern__convert_cell_currency h c fs r cu).1) ∧
    (∀ cs ks, Preserves h.size h (summarizeCellValues Generated.Accum.pattern__conforming_sum h cs ks).1) ∧
    (∀ cs, Preserves h.size h (aqpyAccumulate Generated.Accum.pattern__accident_quarter_to_policy_year_slice h cs).1) ∧
    (∀ cs ws, Preserves h.size h
      (blendCells Generated.Accum.pattern_blend_cells Generated.Accum.pattern_Cell__base_replace h cs ws).1) := by
  obtain ⟨b1, _, b3, b4, b5, b6, b7, b8, b9, _, b11, b12, _, _, _⟩ := cell_patterns_fresh
  exact ⟨frame_Cell_replace _ b1 h, frame_Cell_select _ b3 h, frame_Cell_derive_fields _ b4 h,
    frame_Cell_derive_metadata _ b5 h, frame_Cell_add_statics _ b6 h, frame__overwrite_values _ b7 h,
    frame__thin_cell _ b8 h, frame__convert_cell_currency _ b9 h,
    frame_summarize_cell_values _ pattern__conforming_sum_fresh h,
    frame__accident_quarter_accumulate _ b11 h, frame_blend_cells _ _ b12 b1 h⟩

/-- the frame of the five helpers as the source stands -/
theorem helpers_respect_frame (h : Heap) :
    (∀ vs, Preserves h.size h (conformingSum Generated.Accum.pattern__conforming_sum h vs).1) ∧
    (∀ vs ws, Preserves h.size h
      (conformingWeightedAverage Generated.Accum.pattern__conforming_weighted_average h vs ws).1) ∧
    (∀ a b, Preserves h.size h (valuesAdd Generated.Accum.pattern__values_add h a b).1) ∧
    (∀ a b, Preserves h.size h (valuesDiff Generated.Accum.pattern__values_diff h a b).1) ∧
    (∀ a b, Preserves h.size h (mergeCellPair Generated.Accum.pattern__merge_cell_pair h a b).1) :=
  ⟨frame__conforming_sum _ pattern__conforming_sum_fresh h,
   frame__conforming_weighted_average _ pattern__conforming_weighted_average_fresh h,
   frame__values_add _ pattern__values_add_fresh h,
   frame__values_diff _ pattern__values_diff_fresh h,
   frame__merge_cell_pair _ pattern__merge_cell_pair_fresh h⟩

/-! ### 3. position in a chain -/

/-- a call as a heap transformer respects the frame when everything allocated before it is
unchanged after it -/
def Respects (c : Heap → Heap) : Prop := ∀ h, Preserves h.size h (c h)

/-- a sequence of frame-respecting calls respects the frame of the ORIGINAL arguments: whatever
position an operation has in a chain, the objects that existed before the chain are untouched -/
theorem frame_chain (cs : List (Heap → Heap)) (hcs : ∀ c ∈ cs, Respects c) (h : Heap) :
    Preserves h.size h (cs.foldl (fun acc c => c acc) h) := by
  suffices ∀ (cs : List (Heap → Heap)), (∀ c ∈ cs, Respects c) → ∀ (g : Heap), Preserves h.size h g →
      Preserves h.size h (cs.foldl (fun acc c => c acc) g) from this cs hcs h (Preserves.refl (Nat.le_refl _))
  intro cs
  induction cs with
  | nil => intro _ g hg; exact hg
  | cons c rest ih =>
    intro hcs g hg
    simp only [List.foldl_cons]
    apply ih (fun c' hc' => hcs c' (List.mem_cons_of_mem _ hc'))
    exact hg.trans ((hcs c (List.mem_cons_self ..) g).mono hg.1)

/-- the statement in terms of reachability: every location reachable from an argument that lives
in the entry heap is unchanged after a frame-respecting call -/
theorem frame_reachable {h h' : Heap} (hp : Preserves h.size h h') (arg : Ref)
    (hwf : ∀ l ∈ reach h arg, l < h.size) : ∀ l ∈ reach h arg, h'.get l = h.get l :=
  fun l hl => hp.2 l (hwf l hl)

/-! ### 4. negative control: the theorem is not vacuous -/

/-- the pattern `total = values[0]` (an initialiser reaching a parameter) -/
def badSum : Pattern := ⟨"_conforming_sum", [⟨"total", "aug", [.param]⟩]⟩

theorem badSum_not_fresh : badSum.targetsFresh = false := by decide

/-- witness heap: two argument arrays `[1]`, `[2]` -/
def witness : Heap := ⟨[.arr [1], .arr [2]]⟩

/-- With `total = values[0]` the loop's `total += val` writes into the first ARGUMENT: location 0
holds `[4]` afterwards. The frame is violated. -/
theorem badSum_violates_frame :
    ¬ Preserves witness.size witness (conformingSum badSum witness [.loc 0, .loc 1]).1 := by
  intro hp
  have h0 := hp.2 0 (by decide)
  have : (conformingSum badSum witness [.loc 0, .loc 1]).1.get 0 ≠ witness.get 0 := by decide +kernel
  exact this h0

/-- and with today's pattern the same call leaves both arrays alone and returns a NEW array `[3]` -/
example :
    (conformingSum Generated.Accum.pattern__conforming_sum witness [.loc 0, .loc 1]).1.get 0 = some (.arr [1]) ∧
    (conformingSum Generated.Accum.pattern__conforming_sum witness [.loc 0, .loc 1]).1.get 1 = some (.arr [2]) ∧
    (match (conformingSum Generated.Accum.pattern__conforming_sum witness [.loc 0, .loc 1]).2 with
      | .ok r => decide (r = .loc 2) | .error _ => false) = true ∧
    (conformingSum Generated.Accum.pattern__conforming_sum witness [.loc 0, .loc 1]).1.get 2 = some (.arr [3]) := by
  decide +kernel

def witnessDicts : Heap := ⟨[.arr [1], .dict [("a", .loc 0)], .dict [("b", .loc 0)]]⟩

/-- `update` through a parameter in `_merge_cell_pair` violates the frame as well -/
example :
    (mergeCellPair ⟨"_merge_cell_pair", [⟨"cell1", "method:update", [.param]⟩]⟩ witnessDicts (.loc 1) (.loc 2)).1.get 1
      ≠ witnessDicts.get 1 := by
  decide +kernel

/-- the seeded change of `Cell.derive_metadata` (fast path `cell.metadata.details[name] = value` once
`cell is not self`): after a top-level attribute definition the new metadata object still SHARES the
details dict of the argument, so the store lands in the argument. Witness: cell 3 with values dict 0,
metadata 2 whose details dict is 1; `derive_metadata(currency=…, region=…)`. -/
def witnessCell : Heap :=
  ⟨[.dict [], .dict [("coverage", .scalar 1)], .dict [("details", .loc 1), ("currency", .scalar 0)],
    .dict [("values", .loc 0), ("metadata", .loc 2)]]⟩

theorem derive_metadata_fast_path_violates_frame :
    (cellDeriveMetadata ⟨"Cell.derive_metadata", [⟨"cell", "store", [.param]⟩]⟩ witnessCell 3 3
        [("currency", true, .scalar 7), ("region", false, .scalar 9)]).1.get 1 ≠ witnessCell.get 1 := by
  decide +kernel

/-- with today's pattern the same call leaves the argument's details dict alone -/
example :
    (cellDeriveMetadata Generated.Accum.pattern_Cell_derive_metadata witnessCell 3 3
        [("currency", true, .scalar 7), ("region", false, .scalar 9)]).1.get 1 = witnessCell.get 1 := by
  decide +kernel

/-- `v *= exchange_rate` on the loop variable multiplies the argument's array in place -/
example :
    (convertCellCurrency ⟨"_convert_cell_currency", [⟨"v", "aug", [.param]⟩]⟩
        ⟨[.arr [2, 4], .dict [("paid_loss", .loc 0)], .dict [("values", .loc 1), ("metadata", .none)]]⟩
        2 ["paid_loss"] ((1 : Rat) / 2) (.scalar 1)).1.get 0 = some (.arr [1, 2]) := by
  decide +kernel

/-! ### 5. the frame property through a TRANSLATOR: HeapIR

`harness/translate_c03ir.py` translates every function, method and module-level lambda of /repo's package
into the language of `Model/HeapIR.lean` on every run (`Generated/HeapIR*.lean`); sections 1–4 above keep
their hand-written models. The discipline `writesOnlyFresh` is an abstract interpretation (classes: immutable
value / object allocated in this call at a ghost level / the object of an UNPROTECTED parameter / anything);
its soundness is proved ONCE (`Lemmas/HeapIR*.lean`: `exec_sound`, `runFn_good`, `sem_good`) and instantiated
here.

PROTECTED and UNPROTECTED parameters. The property protects arguments that are a Triangle, a Cell or a
Metadata and everything they reach. A parameter annotated `pd.DataFrame` is UNPROTECTED (`Fn.wparams`, only
when the function or a callee really writes it; every unannotated parameter is protected): the function may
write into the object that argument refers to — not into what that object contains. The frame
`PreservesW n W h h'` says: every location that existed at entry and is not the object of an unprotected
argument (`W = callW wparams args`) holds the same object afterwards. -/

section HeapIR
open Bermuda.HeapIR

/-- the unprotected parameters of function `i` of a program -/
def wparamsOf (P : List Fn) (i : Nat) : List Nat := ((summaries P).getD i (.any, [])).2

/-- SOUNDNESS OF THE DISCIPLINE (general form). If every function of a program respects the discipline, then a
call of any of its functions — any arguments, any heap, any oracle (= every branch choice, every iteration
count, every key, every datum, every result of a pure callback), any call depth `d`, whether the call returns
or raises — leaves every location that existed at entry unchanged, except the objects handed to its
unprotected parameters. -/
theorem frame_protected (P : List Fn) (hP : disciplined P = true) (d i : Nat) (args : List Ref) (h : Heap)
    (o : Oracle) (hwf : ∀ l, callW (wparamsOf P i) args l → l < h.size) :
    PreservesW h.size (callW (wparamsOf P i) args) h (sem P d i args h o).1 := by
  -- the objects of the unprotected arguments are typed `ext` in the entry heap
  have ht : Typed 0 (callW (wparamsOf P i) args) (Typing.entry (callW (wparamsOf P i) args)) h :=
    Typed.entry 0 h hwf
  obtain ⟨_, _, _, p, _⟩ := sem_good P hP d i args h o 0 _ _ ht (Nat.zero_le _)
    (fun l hl => ⟨.ext, Typing.entry_of hl, rfl⟩)
  exact p

/-- SOUNDNESS, all parameters protected (the statement of round 2): everything that existed at entry is unchanged -/
theorem frame_of_discipline (P : List Fn) (hP : disciplined P = true) (d i : Nat) (args : List Ref) (h : Heap)
    (o : Oracle) (hw : wparamsOf P i = []) : Preserves h.size h (sem P d i args h o).1 := by
  have p := frame_protected P hP d i args h o (by rw [hw]; intro l ⟨j, hj, _⟩; cases hj)
  rw [hw] at p
  exact ⟨p.1, fun l hl => p.2.1 l hl (fun ⟨j, hj, _⟩ => by cases hj)⟩

/-- protected and unprotected arguments are SEPARATED in the entry heap: no location reachable — at ANY depth
(`Reach`: Triangle → cells → Cell → values → arrays …) — from a protected argument is the object of an
unprotected argument (checked in the correspondence by identity of objects, walking the protected arguments
transitively: the data frame is not the Metadata / Triangle / Cell, nor anything inside them) -/
def separated (h : Heap) (wp : List Nat) (args : List Ref) : Prop :=
  ∀ j arg, args[j]? = some arg → j ∉ wp → ∀ l, Reach h arg l → ¬ callW wp args l

/-- IN TERMS OF REACHABILITY (transitive): every location reachable, at any depth, from a PROTECTED argument
holds the same object after the call. `h.Closed` (no dangling references) and "the arguments are live"
discharge the well-formedness side conditions. -/
theorem frame_protected_reachable (P : List Fn) (hP : disciplined P = true) (d i : Nat) (args : List Ref)
    (h : Heap) (o : Oracle) (hc : h.Closed) (hlive : ∀ arg ∈ args, ∀ l, arg = .loc l → l < h.size)
    (hsep : separated h (wparamsOf P i) args) (j : Nat) (arg : Ref)
    (hj : args[j]? = some arg) (hprot : j ∉ wparamsOf P i) :
    ∀ l, Reach h arg l → (sem P d i args h o).1.get l = h.get l := by
  intro l hl
  have hargs : ∀ l, callW (wparamsOf P i) args l → l < h.size := by
    intro l ⟨j', _, hget⟩
    exact hlive _ (List.mem_of_getElem? hget) l rfl
  have hmem : arg ∈ args := List.mem_of_getElem? hj
  exact (frame_protected P hP d i args h o hargs).2.1 l (hl.lt_size hc (hlive arg hmem))
    (hsep j arg hj hprot l hl)

/-- the same for the one-level `reach` of sections 1–4 (a special case: `reach ⊆ Reach`) -/
theorem frame_protected_reach (P : List Fn) (hP : disciplined P = true) (d i : Nat) (args : List Ref)
    (h : Heap) (o : Oracle) (hc : h.Closed) (hlive : ∀ arg ∈ args, ∀ l, arg = .loc l → l < h.size)
    (hsep : separated h (wparamsOf P i) args) (j : Nat) (arg : Ref)
    (hj : args[j]? = some arg) (hprot : j ∉ wparamsOf P i) :
    ∀ l ∈ reach h arg, (sem P d i args h o).1.get l = h.get l :=
  fun l hl => frame_protected_reachable P hP d i args h o hc hlive hsep j arg hj hprot l (reach_sub_Reach hl)

/-- a chain is well formed for the writable set `W` when every object handed to an unprotected parameter EXISTS
WHEN THE CALL THAT RECEIVES IT STARTS (it may have been created earlier in the chain: `to_wide_data_frame` then
`from_wide_data_frame`), and is in `W` if it already existed before the chain (`l < n`) -/
def ChainOK (P : List Fn) (d n : Nat) (W : Loc → Prop) : List (Nat × List Ref × Oracle) → Heap → Prop
  | [], _ => True
  | c :: rest, g =>
    (∀ l, callW (wparamsOf P c.1) c.2.1 l → l < g.size ∧ (l < n → W l)) ∧
      ChainOK P d n W rest (sem P d c.1 c.2.1 g c.2.2).1

/-- POSITION IN A CHAIN: a sequence of calls of disciplined functions (each with its own arguments — which
may be results of earlier calls, also for unprotected parameters — and its own oracle) leaves everything that
existed BEFORE THE CHAIN unchanged, after every prefix of the chain, except the pre-existing objects handed to
unprotected parameters along it -/
theorem frame_chain_ir (P : List Fn) (hP : disciplined P = true) (d : Nat)
    (calls : List (Nat × List Ref × Oracle)) (h : Heap) (W : Loc → Prop)
    (hok : ChainOK P d h.size W calls h) :
    PreservesW h.size W h (calls.foldl (fun g c => (sem P d c.1 c.2.1 g c.2.2).1) h) := by
  suffices ∀ (calls : List (Nat × List Ref × Oracle)) (g : Heap), ChainOK P d h.size W calls g →
      PreservesW h.size W h g →
      PreservesW h.size W h (calls.foldl (fun g c => (sem P d c.1 c.2.1 g c.2.2).1) g) from
    this calls h hok (PreservesW.refl (Nat.le_refl _))
  intro calls
  induction calls with
  | nil => intro g _ hg; exact hg
  | cons c rest ih =>
    intro g hok hg
    simp only [List.foldl_cons]
    obtain ⟨hc, hrest⟩ := hok
    refine ih _ hrest (hg.trans ?_)
    exact (frame_protected P hP d c.1 c.2.1 g c.2.2 (fun l hl => (hc l hl).1)).mono hg.1
      (fun l hlt hl => (hc l hl).2 hlt)

/-- the earlier, stronger hypothesis (every such object exists before the chain) is a special case -/
theorem chainOK_of_static (P : List Fn) (hP : disciplined P = true) (d : Nat) (W : Loc → Prop) (n : Nat)
    (calls : List (Nat × List Ref × Oracle))
    (hW : ∀ c ∈ calls, ∀ l, callW (wparamsOf P c.1) c.2.1 l → W l ∧ l < n) :
    ∀ (g : Heap), n ≤ g.size → ChainOK P d n W calls g := by
  induction calls with
  | nil => intro g _; trivial
  | cons c rest ih =>
    intro g hn
    have hlive : ∀ l, callW (wparamsOf P c.1) c.2.1 l → l < g.size :=
      fun l hl => Nat.lt_of_lt_of_le (hW c (List.mem_cons_self ..) l hl).2 hn
    refine ⟨fun l hl => ⟨hlive l hl, fun _ => (hW c (List.mem_cons_self ..) l hl).1⟩, ?_⟩
    exact ih (fun c' hc' => hW c' (List.mem_cons_of_mem _ hc')) _
      (Nat.le_trans hn (frame_protected P hP d c.1 c.2.1 g c.2.2 hlive).1)

/-- TODAY'S SOURCE: every function of the generated program respects the discipline. The chunks are
re-proved by `decide +kernel` in `Generated/HeapIRC*.lean` against the source as it is NOW (a store,
`+=`, `.update`, `.sort()`, `out=` … through a reference that may reach a protected parameter or a global
makes this fail). -/
theorem all_disciplined : disciplined Generated.HeapIR.program = true := by
  unfold disciplined
  rw [Generated.HeapIR.program_sums]
  simp only [Generated.HeapIR.program, List.all_append, Bool.and_eq_true]
  exact ⟨⟨⟨⟨⟨⟨⟨Generated.HeapIR.chunk0_disciplined, Generated.HeapIR.chunk1_disciplined⟩,
    Generated.HeapIR.chunk2_disciplined⟩, Generated.HeapIR.chunk3_disciplined⟩,
    Generated.HeapIR.chunk4_disciplined⟩, Generated.HeapIR.chunk5_disciplined⟩,
    Generated.HeapIR.chunk6_disciplined⟩, Generated.HeapIR.chunk7_disciplined⟩

/-- THE FRAME PROPERTY OF THE TRANSLATED FUNCTIONS: every function, method, property and module-level lambda
of /repo's `bermuda` package is in `Generated.HeapIR.program` (today 461 of 464; counts and names in the
evidence of the run) EXCEPT the three mutators by contract `Generated.HeapIR.mutatorsByContract`
(`Matrix.__setitem__`, `_BodyRawIO.readinto`, `_open_s3_stream`), which by design write their receiver / the
caller's buffer / a module-level client cache and take no Triangle, Cell or Metadata to protect (see
`mutators_excluded`).

STATES: for the IR program of each of them, called with any arguments on any heap at any position of a
chain, with any oracle and call depth: every location allocated before the call is unchanged afterwards,
whether it returns or raises — except the object of an argument handed to an unprotected (`pd.DataFrame`)
parameter that the function writes (today: `_check_index_columns`, `wide_data_frame_to_triangle`,
`long_data_frame_to_triangle` and their `Triangle.from_*` aliases).

TRUSTED (not proved; listed in full in the evidence, `trusted_summaries()` of the translator) — this is the
PARTIAL note of the property:
* the translator itself (Python AST → HeapIR): desugaring of comprehensions / loops / `with` / `try`, item
  access as `load`, the REPRESENTATION of objects (an attribute other than `values` sits in a one-entry box
  inside the object; a simple constructor's object is built where it is called, from the constructor's top-level
  `self.attr = E` statements), properties as calls, keys of dicts are not tracked (iteration over `.keys()` /
  `.items()` yields arbitrary references), `a[i]` is an element load (`a[i:j]` a view or a copy), dunder dispatch
  of operators is not followed (`+` gives a number / new array or a new container of the operands' entries);
* the tables of summaries for library calls: pure results by kind, writers (`append`, `update`, `sort`, `fill`,
  `shuffle(x)`, `np.put`, `setattr` …) and the keywords `out=`, `overwrite_input=`, `inplace=`, `copy=False`;
  anything not in a table is `unknown` and is rejected when it receives an object;
* callbacks (callable parameters, callables taken out of containers) are pure;
* annotations are honoured: `int / float / str / bool / date / None / Literal / tuples of these` hold immutable
  values, `dict[K, float]`-like containers hold immutable values, `pd.DataFrame` is unprotected; two parameters
  without annotation are ASSUMED `tuple[int, str]` (`resolution` of `date_utils.standardize_resolution` and
  `date_utils.resolution_delta`) and the assumption is checked on every call of the run;
* a function returning one of its parameters unchanged has that return performed by its caller;
* caches (`cached_property`, `functools.cache`) write the cache slot of their receiver: not modelled. -/
theorem frame_translated_functions (d i : Nat) (args : List Ref) (h : Heap) (o : Oracle)
    (hwf : ∀ l, callW (wparamsOf Generated.HeapIR.program i) args l → l < h.size) :
    PreservesW h.size (callW (wparamsOf Generated.HeapIR.program i) args) h
      (sem Generated.HeapIR.program d i args h o).1 :=
  frame_protected _ all_disciplined d i args h o hwf

theorem frame_translated_chain (d : Nat) (calls : List (Nat × List Ref × Oracle)) (h : Heap) (W : Loc → Prop)
    (hok : ChainOK Generated.HeapIR.program d h.size W calls h) :
    PreservesW h.size W h (calls.foldl (fun g c => (sem Generated.HeapIR.program d c.1 c.2.1 g c.2.2).1) h) :=
  frame_chain_ir _ all_disciplined d calls h W hok

/-- the mutators by contract are not functions of `program`: the frame theorem is not claimed for them -/
theorem mutators_excluded :
    ∀ f ∈ Generated.HeapIR.program, f.name ∉ Generated.HeapIR.mutatorsByContract := by decide +kernel

/-- THE REGISTRY (this closes the former OPEN statement). `Generated.HeapIR.registryOps` is regenerated from the
registry of `harness/c03.py` on every run: each operation with the numbers of the library functions it enters
(`Generated.HeapIR.registry_all_covered : registryUncovered = []` is generated next to it when every operation is
covered — today all of them). For every operation, every entry function, every call depth, heap, arguments and
oracle: everything that existed before the call and is not the object of an unprotected (data frame) argument
is unchanged — so with `separated`, everything reachable from the Triangle / Cell / Metadata arguments. -/
theorem frame_registry_entry_points :
    ∀ op ∈ Generated.HeapIR.registryOps, ∀ i ∈ op.2, ∀ (d : Nat) (args : List Ref) (h : Heap) (o : Oracle),
      (∀ l, callW (wparamsOf Generated.HeapIR.program i) args l → l < h.size) →
      i < Generated.HeapIR.program.length ∧
      PreservesW h.size (callW (wparamsOf Generated.HeapIR.program i) args) h
        (sem Generated.HeapIR.program d i args h o).1 := by
  intro op hop i hi d args h o hwf
  refine ⟨?_, frame_translated_functions d i args h o hwf⟩
  have hall : Generated.HeapIR.registryOps.all
      (fun op => op.2.all (fun i => decide (i < Generated.HeapIR.program.length))) = true := by decide +kernel
  have := List.all_eq_true.mp hall op hop
  have := List.all_eq_true.mp this i hi
  simpa using this

/-! #### negative controls: programs that violate the discipline AND concretely mutate an argument -/

/-- `total = values[0]; for v in values: total += v; return total` -/
def irBadSum : Fn := ⟨"bad_sum", [0], [],
  .seq (.load 1 0 .dyn) (.seq (.loop [.any, .any, .any] (.seq (.load 2 0 .dyn) (.aug 1 2))) (.ret 1)), .any⟩

/-- `total = 0; for v in values: total += v; return total` -/
def irGoodSum : Fn := ⟨"good_sum", [0], [],
  .seq (.const 1) (.seq (.loop [.any, .lv .num, .any] (.seq (.load 2 0 .dyn) (.aug 1 2))) (.ret 1)), .lv .num⟩

/-- witness: a list (location 2) of two arrays `[1]`, `[2]` -/
def irWitness : Heap := ⟨[.arr [1], .arr [2], .dict [("0", .loc 0), ("1", .loc 1)]]⟩

theorem irBadSum_rejected : writesOnlyFresh [] irBadSum = false := by decide +kernel
theorem irGoodSum_accepted : disciplined [irGoodSum] = true := by decide +kernel

/-- the rejected program really writes into the first argument array (`[1]` becomes `[3]`) -/
theorem irBadSum_mutates :
    (sem [irBadSum] 1 0 [.loc 2] irWitness [.n 0, .n 1, .n 1, .n 0, .d [3]]).1.get 0 = some (.arr [3]) := by
  decide +kernel

/-- the accepted one, same input: both arrays intact, the result is a NEW array -/
theorem irGoodSum_frame :
    (sem [irGoodSum] 1 0 [.loc 2] irWitness [.d [0], .n 2, .n 0, .n 1, .d [1], .n 1, .n 0, .d [3]]).1.objs
      = [.arr [1], .arr [2], .dict [("0", .loc 0), ("1", .loc 1)], .arr [3]] ∧
    (match (sem [irGoodSum] 1 0 [.loc 2] irWitness [.d [0], .n 2, .n 0, .n 1, .d [1], .n 1, .n 0, .d [3]]).2.1 with
      | .ok r => decide (r = .loc 3) | .error _ => false) = true := by
  decide +kernel

/-- `values = cell.values; values[k] = v` (the seeded `_thin_cell` / `fill_forward_gaps` shape) -/
def irAliasStore : Fn := ⟨"alias_store", [0, 1], [], .seq (.load 2 0 (.lit "values")) (.store 2 (.lit "k") 1), .scalar⟩

theorem irAliasStore_rejected : writesOnlyFresh [] irAliasStore = false := by decide +kernel

/-- cell (location 1) with values dict (location 0) `{k: 5}`: the store lands in the argument's dict -/
theorem irAliasStore_mutates :
    (sem [irAliasStore] 1 0 [.loc 1, .scalar 7] ⟨[.dict [("k", .scalar 5)], .dict [("values", .loc 0)]]⟩ []).1.get 0
      = some (.dict [("k", .scalar 7)]) := by decide +kernel

/-- `cell1.values.update(cell2.values)` (the seeded `_merge_cell_pair` shape) -/
def irUpdateParam : Fn := ⟨"update_param", [0, 1], [],
  .seq (.load 2 0 (.lit "values")) (.seq (.load 3 1 (.lit "values")) (.merge 2 3)), .scalar⟩

theorem irUpdateParam_rejected : writesOnlyFresh [] irUpdateParam = false := by decide +kernel

theorem irUpdateParam_mutates :
    (sem [irUpdateParam] 1 0 [.loc 2, .loc 3]
      ⟨[.dict [("a", .scalar 1)], .dict [("b", .scalar 2)], .dict [("values", .loc 0)], .dict [("values", .loc 1)]]⟩ []).1.get 0
      = some (.dict [("a", .scalar 1), ("b", .scalar 2)]) := by decide +kernel

/-- `def f(x, acc=[]): acc.append(x); return acc` — the default list is a parameter like any other: it
lives in the heap before the call -/
def irDefaultArg : Fn := ⟨"default_arg", [0, 1], [], .seq (.store 1 .dyn 0) (.ret 1), .any⟩

theorem irDefaultArg_rejected : writesOnlyFresh [] irDefaultArg = false := by decide +kernel

theorem irDefaultArg_mutates :
    (sem [irDefaultArg] 1 0 [.scalar 4, .loc 0] ⟨[.dict []]⟩ [.n 0]).1.get 0 = some (.dict [("k0", .scalar 4)]) := by
  decide +kernel

/-- `cells = triangle.cells; cells.sort()` -/
def irSortParam : Fn := ⟨"sort_param", [0], [], .seq (.load 1 0 (.lit "cells")) (.shrink 1), .scalar⟩

theorem irSortParam_rejected : writesOnlyFresh [] irSortParam = false := by decide +kernel

theorem irSortParam_mutates :
    (sem [irSortParam] 1 0 [.loc 1] ⟨[.dict [("0", .scalar 1), ("1", .scalar 2)], .dict [("cells", .loc 0)]]⟩ [.n 0, .n 1]).1.get 0
      = some (.dict [("1", .scalar 2), ("0", .scalar 1)]) := by decide +kernel

/-- the benign counterpart `d = dict(a); d.update(b)` is accepted: the update goes into the NEW dict -/
def irCopyUpdate : Fn := ⟨"copy_update", [0, 1], [], .seq (.alloc 2 (.sh 0) (.union [0])) (.seq (.merge 2 1) (.ret 2)), .lv (.sh 0)⟩

theorem irCopyUpdate_accepted : disciplined [irCopyUpdate] = true := by decide +kernel

/-- a caller of a mutating callee is caught at the callee: the program is not disciplined -/
theorem irCaller_rejected :
    disciplined [irAliasStore, ⟨"caller", [0, 1], [], .call 2 0 [0, 1], .scalar⟩] = false := by decide +kernel

/-! #### controls for the UNPROTECTED-parameter rule -/

/-- `def f(df, metadata): df[k] = metadata` with `df : pd.DataFrame` unprotected: writes the data frame object only -/
def irWriteFrame : Fn := ⟨"write_frame", [0, 1], [0], .store 0 (.lit "col") 1, .scalar⟩

theorem irWriteFrame_accepted : disciplined [irWriteFrame] = true := by decide +kernel

/-- the same body with the first parameter PROTECTED is rejected -/
theorem irWriteFrame_protected_rejected :
    writesOnlyFresh [] ⟨"write_frame", [0, 1], [], .store 0 (.lit "col") 1, .scalar⟩ = false := by decide +kernel

/-- concretely: the frame object (location 1) changes, the Metadata's details dict (location 0) does not -/
theorem irWriteFrame_frame :
    (sem [irWriteFrame] 1 0 [.loc 1, .loc 0] ⟨[.dict [("cov", .scalar 1)], .dict []]⟩ []).1.objs
      = [.dict [("cov", .scalar 1)], .dict [("col", .loc 0)]] := by decide +kernel

/-- `def f(df, metadata): x = df[k]; x[k2] = 0` — a write THROUGH the unprotected container: what a data frame
holds may be (reachable from) a protected argument, so this is rejected … -/
def irWriteThroughFrame : Fn := ⟨"write_through_frame", [0, 1], [0],
  .seq (.load 2 0 .dyn) (.seq (.const 3) (.store 2 (.lit "cov") 3)), .scalar⟩

theorem irWriteThroughFrame_rejected : writesOnlyFresh [] irWriteThroughFrame = false := by decide +kernel

/-- … and it does mutate the Metadata's details dict (location 0) when the frame (location 1) holds it -/
theorem irWriteThroughFrame_mutates :
    (sem [irWriteThroughFrame] 1 0 [.loc 1, .loc 0]
      ⟨[.dict [("cov", .scalar 1)], .dict [("meta", .loc 0)]]⟩ [.n 0, .d [9]]).1.get 0
      = some (.dict [("cov", .scalar 9)]) := by decide +kernel

/-- a caller may hand to a callee's written parameter only its own unprotected object or a new unconstrained one:
handing over a PROTECTED parameter is rejected … -/
theorem irPassProtected_rejected :
    disciplined [irWriteFrame, ⟨"caller", [0, 1], [], .call 2 0 [0, 1], .scalar⟩] = false := by decide +kernel

/-- … handing over its own unprotected parameter, or a copy made in this call, is accepted -/
theorem irPassUnprotected_accepted :
    disciplined [irWriteFrame, ⟨"caller", [0, 1], [0], .call 2 0 [0, 1], .scalar⟩,
      ⟨"caller_copy", [0, 1], [], .seq (.alloc 2 (.sh 0) (.union [0])) (.call 3 0 [2, 1]), .scalar⟩] = true := by
  decide +kernel

/-- NON-VACUITY of the chain hypothesis: a writer → reader chain. `make_frame()` allocates a new "data frame"
(location 1) mid-chain, `write_frame(df, metadata)` then receives it at its unprotected parameter: `ChainOK` holds
with NO pre-existing writable object, so `frame_chain_ir` applies and the Metadata object (location 0) is intact. -/
def irMakeFrame : Fn := ⟨"make_frame", [], [], .seq (.alloc 0 (.sh 0) .dict) (.ret 0), .lv (.sh 0)⟩

theorem irChain_disciplined : disciplined [irMakeFrame, irWriteFrame] = true := by decide +kernel

theorem irChain_writer_reader_ok :
    ChainOK [irMakeFrame, irWriteFrame] 1 1 (fun _ => False)
      [(0, [], []), (1, [.loc 1, .loc 0], [])] ⟨[.dict [("cov", .scalar 1)]]⟩ := by
  have hw0 : wparamsOf [irMakeFrame, irWriteFrame] 0 = [] := by decide +kernel
  have hw1 : wparamsOf [irMakeFrame, irWriteFrame] 1 = [0] := by decide +kernel
  have hsz : (sem [irMakeFrame, irWriteFrame] 1 0 [] ⟨[.dict [("cov", .scalar 1)]]⟩ []).1.size = 2 := by
    decide +kernel
  refine ⟨?_, ?_, trivial⟩
  · intro l ⟨j, hj, _⟩
    rw [hw0] at hj
    cases hj
  · intro l ⟨j, hj, hget⟩
    rw [hw1] at hj
    have hj0 : j = 0 := by simpa using hj
    subst hj0
    have hl : l = 1 := by simpa using hget.symm
    subst hl
    exact ⟨by rw [hsz]; decide, fun h => absurd h (by decide)⟩

theorem irChain_writer_reader_frame :
    ((sem [irMakeFrame, irWriteFrame] 1 1 [.loc 1, .loc 0]
      (sem [irMakeFrame, irWriteFrame] 1 0 [] ⟨[.dict [("cov", .scalar 1)]]⟩ []).1 []).1).objs
      = [.dict [("cov", .scalar 1)], .dict [("col", .loc 0)]] := by decide +kernel

end HeapIR

end Bermuda.Properties.C03
