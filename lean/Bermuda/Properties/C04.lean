/-
C04 — cumulative ⇄ incremental conversion is exact, chained and self-inverse.
Only property theorems live here (helper lemmas: `Lemmas/Basis.lean`, `Lemmas/BasisRows.lean`).
-/
import Bermuda.Model.Basis
import Bermuda.Spec.C04
import Bermuda.Lemmas.BasisRows
namespace Bermuda.Properties.C04
open Bermuda

/-! ### 1. identity on the target basis -/

/-- `to_incremental` is the identity on an incremental triangle -/
theorem toInc_id_of_incremental {t : List Cell} (h : Triangle.isIncremental t = true) :
    Triangle.toIncremental t = .ok t := by
  simp [Triangle.toIncremental, h]

/-- `to_cumulative` is the identity on a triangle that is not incremental (`Cell`s,
`CumulativeCell`s, or empty) -/
theorem toCum_id_of_cumulative {t : List Cell} (h : Triangle.isIncremental t = false) :
    Triangle.toCumulative t = .ok t := by
  simp [Triangle.toCumulative, h]

/-! ### 2. cumulative → incremental → cumulative -/

/-- **H**: a valid cumulative triangle. `sorted` is the canonical form of C01 together with
"distinct (metadata, period, evaluation date)"; `keys`: rows keep one key set; `types`: under every
key other than `earned_premium` the row keeps one kind/dtype/shape, and no value is `None`. -/
structure WFcum (t : List Cell) : Prop where
  sorted : t.Pairwise (fun a b => Cell.cmp a b = .lt)
  notInc : ∀ c ∈ t, c.kind ≠ .incremental
  dates : ∀ c ∈ t, c.datesOk = true
  psValid : ∀ c ∈ t, c.ps.valid = true
  keys : ∀ a ∈ t, ∀ b ∈ t, rowKey a = rowKey b → sameKeys a.values b.values = true
  types : ∀ a ∈ t, ∀ b ∈ t, rowKey a = rowKey b → DictCompat a.values b.values

theorem WFcum.row {t : List Cell} (h : WFcum t) {k : RowKey} {r : List Cell}
    (hr : r = t.filter (fun c => rowKey c == k)) : CumRow k r := by
  have hsub : r.Sublist t := by rw [hr]; exact List.filter_sublist
  have hmem : ∀ c ∈ r, c ∈ t := fun c hc => hsub.subset hc
  have hkey : ∀ c ∈ r, rowKey c = k := by
    intro c hc; rw [hr] at hc; simpa using (List.mem_filter.mp hc).2
  have hkk : ∀ a ∈ r, ∀ b ∈ r, rowKey a = rowKey b := fun a ha b hb => (hkey a ha).trans (hkey b hb).symm
  have hs := h.sorted.sublist hsub
  refine ⟨hkey, fun c hc => h.dates c (hmem c hc), fun c hc => h.notInc c (hmem c hc), ?_, ?_, ?_⟩
  · exact hs.imp_of_mem (fun {a b} ha hb hab => ev_lt_of_cmp_lt (hkk a ha b hb)
      (prev_none_of_notInc (h.dates a (hmem a ha)) (h.notInc a (hmem a ha)))
      (prev_none_of_notInc (h.dates b (hmem b hb)) (h.notInc b (hmem b hb))) hab)
  · exact hs.imp_of_mem (fun {a b} ha hb _ => h.keys a (hmem a ha) b (hmem b hb) (hkk a ha b hb))
  · exact hs.imp_of_mem (fun {a b} ha hb _ => h.types a (hmem a ha) b (hmem b hb) (hkk a ha b hb))

/-- **to_cumulative ∘ to_incremental = id**, exactly: same cells in the same order with the same
dates, metadata, key order, values and value kinds; the class becomes `CumulativeCell`
(`Spec.asCumulative`). -/
theorem toCum_toInc {t : List Cell} (h : WFcum t) :
    ∃ u, Triangle.toIncremental t = .ok u ∧ Triangle.toCumulative u = .ok (Spec.asCumulative t) := by
  have hrow : ∀ k r, r ≠ [] → r = t.filter (fun c => rowKey c == k) →
      ∃ d, incRow k r = .ok d ∧ cumRow k d = .ok (r.map fun c => { c with kind := .cumulative }) ∧
        d ≠ [] ∧ (∀ c ∈ d, rowKey c = k) ∧ StrictSorted d ∧ ∀ c ∈ d, c.kind = .incremental := by
    intro k r hne hr
    have R := h.row hr
    cases r with
    | nil => exact absurd rfl hne
    | cons c0 rest =>
      have hc0t : c0 ∈ t := by
        have : c0 ∈ t.filter (fun c => rowKey c == k) := by rw [← hr]; simp
        exact (List.mem_filter.mp this).1
      have hv : k.1.1.valid = true := by
        have := h.psValid c0 hc0t
        rw [← R.key c0 (by simp)]; exact this
      obtain ⟨ds, h1, h2, h3, h4⟩ := incRow_cumRow R hv
      refine ⟨ds, h1, ?_, ?_, fun c hc => (h4 c hc).2.1, ?_, fun c hc => (h4 c hc).1⟩
      · rw [h2]; congr 1
        apply List.map_congr_left
        intro c hc
        have hk := R.key c hc
        have hp := prev_none_of_notInc (R.dates c hc) (R.notInc c hc)
        obtain ⟨ck, cps, cpe, cev, cprev, cv, cmd⟩ := c
        simp only [rowKey] at hk
        subst hk
        simp_all [cumOf]
      · intro e; rw [e] at h3; simp at h3
      · apply strict_of_evs (fun c hc => (h4 c hc).2.1)
        rw [h3, List.pairwise_map]; exact R.evs
  obtain ⟨D, hD, hDmem, hDnil, C, hC, hCperm, hCsort⟩ :=
    overRows_roundtrip (f := incRow) (g := cumRow) (h := fun c => { c with kind := .cumulative })
      h.sorted (fun a b => rfl)
      (fun k r hne hr => by
        obtain ⟨d, h1, h2, h3, h4, h5, _⟩ := hrow k r hne hr
        exact ⟨d, h1, h2, h3, h4, h5⟩)
  have hDinc : ∀ c ∈ D, c.kind = .incremental := by
    intro c hc
    obtain ⟨k, r, d, hne, hr, hf, hcd⟩ := hDmem c hc
    obtain ⟨d', h1, _, _, _, _, h6⟩ := hrow k r hne hr
    rw [hf] at h1; cases h1
    exact h6 c hcd
  refine ⟨D.mergeSort Cell.le, ?_, ?_⟩
  · simp only [Triangle.toIncremental, not_isIncremental_of_all h.notInc, Bool.false_eq_true, if_false,
      hD, Except.bind]
    exact ofCells_of_all_kind .incremental hDinc
  · have hperm := List.mergeSort_perm D Cell.le
    by_cases ht : t = []
    · subst ht
      have : D = [] := hDnil.mpr rfl
      subst this
      simp [Triangle.toCumulative, Triangle.isIncremental, Spec.asCumulative]
    · have hDne : D ≠ [] := fun e => ht (hDnil.mp e)
      have hne : D.mergeSort Cell.le ≠ [] := by
        intro e; rw [e] at hperm; exact hDne hperm.symm.eq_nil
      have hinc := isIncremental_of_all (fun c hc => hDinc c (hperm.mem_iff.mp hc)) hne
      simp only [Triangle.toCumulative, hinc, Bool.not_true, Bool.false_eq_true, if_false, hC, Except.bind]
      rw [ofCells_of_all_kind .cumulative, hCsort]
      · rfl
      · intro c hc
        obtain ⟨c', _, rfl⟩ := List.mem_map.mp (hCperm.mem_iff.mp hc)
        rfl



/-! ### 3. incremental → cumulative → incremental -/

/-- the cells of row `k` (one slice, one period), in triangle order, form a complete chain: the
first starts the day before the period starts, every later one links to the evaluation date
before it -/
def RowChain (u : List Cell) (k : RowKey) : Prop :=
  match u.filter (fun c => rowKey c == k) with
  | [] => True
  | x0 :: rest => x0.prev = some k.1.1.pred ∧ ChainFrom x0.ev rest

/-- an incremental triangle in canonical form whose rows keep one key set and one value type per
field (no `None`) -/
structure Consistent (u : List Cell) : Prop where
  sorted : u.Pairwise (fun a b => Cell.cmp a b = .lt)
  isInc : ∀ c ∈ u, c.kind = .incremental
  dates : ∀ c ∈ u, c.datesOk = true
  psValid : ∀ c ∈ u, c.ps.valid = true
  keys : ∀ a ∈ u, ∀ b ∈ u, rowKey a = rowKey b → sameKeys a.values b.values = true
  types : ∀ a ∈ u, ∀ b ∈ u, rowKey a = rowKey b → DictCompat a.values b.values

/-- a complete incremental triangle: consistent, and every row is a complete chain -/
def Complete (u : List Cell) : Prop := Consistent u ∧ ∀ k, RowChain u k

theorem Consistent.row {u : List Cell} (h : Consistent u) {k : RowKey} {r : List Cell}
    (hr : r = u.filter (fun c => rowKey c == k)) : IncRow k r := by
  have hsub : r.Sublist u := by rw [hr]; exact List.filter_sublist
  have hmem : ∀ c ∈ r, c ∈ u := fun c hc => hsub.subset hc
  have hkey : ∀ c ∈ r, rowKey c = k := by
    intro c hc; rw [hr] at hc; simpa using (List.mem_filter.mp hc).2
  have hkk : ∀ a ∈ r, ∀ b ∈ r, rowKey a = rowKey b := fun a ha b hb => (hkey a ha).trans (hkey b hb).symm
  have hs := h.sorted.sublist hsub
  exact ⟨hkey, fun c hc => h.dates c (hmem c hc), fun c hc => h.isInc c (hmem c hc),
    hs.imp_of_mem (fun {a b} ha hb _ => h.keys a (hmem a ha) b (hmem b hb) (hkk a ha b hb)),
    hs.imp_of_mem (fun {a b} ha hb _ => h.types a (hmem a ha) b (hmem b hb) (hkk a ha b hb))⟩

/-- **to_incremental ∘ to_cumulative = id** on every complete incremental triangle, exactly -/
theorem toInc_toCum {u : List Cell} (h : Complete u) :
    ∃ t, Triangle.toCumulative u = .ok t ∧ Triangle.toIncremental t = .ok u := by
  obtain ⟨hc, hchain⟩ := h
  have hrow : ∀ k r, r ≠ [] → r = u.filter (fun c => rowKey c == k) →
      ∃ d, cumRow k r = .ok d ∧ incRow k d = .ok (r.map id) ∧
        d ≠ [] ∧ (∀ c ∈ d, rowKey c = k) ∧ StrictSorted d ∧ ∀ c ∈ d, c.kind = .cumulative := by
    intro k r hne hr
    have R := hc.row hr
    have hch := hchain k
    unfold RowChain at hch
    rw [← hr] at hch
    cases r with
    | nil => exact absurd rfl hne
    | cons x0 rest =>
      have hx0 : x0 ∈ u := by
        have : x0 ∈ u.filter (fun c => rowKey c == k) := by rw [← hr]; simp
        exact (List.mem_filter.mp this).1
      have hv : k.1.1.valid = true := by
        have := hc.psValid x0 hx0
        rw [← R.key x0 (by simp)]; exact this
      obtain ⟨cs, h1, h2, h3, h4⟩ := cumRow_incRow R hv hch.1 hch.2
      refine ⟨cs, h1, by simpa using h2, ?_, fun c hc => (h4 c hc).2.1, ?_, fun c hc => (h4 c hc).1⟩
      · intro e; rw [e] at h3; simp at h3
      · apply strict_of_evs (fun c hc => (h4 c hc).2.1)
        rw [h3, List.pairwise_map]
        have := chain_evs rest x0.ev hch.2
          (fun c hc => ⟨R.isInc c (List.mem_cons_of_mem _ hc), R.dates c (List.mem_cons_of_mem _ hc)⟩)
        exact List.pairwise_cons.mpr ⟨this.2, this.1⟩
  obtain ⟨D, hD, hDmem, hDnil, C, hC, hCperm, hCsort⟩ :=
    overRows_roundtrip (f := cumRow) (g := incRow) (h := id) hc.sorted (fun a b => rfl)
      (fun k r hne hr => by
        obtain ⟨d, h1, h2, h3, h4, h5, _⟩ := hrow k r hne hr
        exact ⟨d, h1, h2, h3, h4, h5⟩)
  have hDcum : ∀ c ∈ D, c.kind = .cumulative := by
    intro c hcD
    obtain ⟨k, r, d, hne, hr, hf, hcd⟩ := hDmem c hcD
    obtain ⟨d', h1, _, _, _, _, h6⟩ := hrow k r hne hr
    rw [hf] at h1; cases h1
    exact h6 c hcd
  by_cases hu : u = []
  · subst hu
    exact ⟨[], by simp [Triangle.toCumulative, Triangle.isIncremental],
      by simp [Triangle.toIncremental, Triangle.isIncremental, overRows, orderedRows, groupBy,
        Triangle.ofCells, kindsConsistent, Except.map, Except.bind, pure, Except.pure]⟩
  · have hinc := isIncremental_of_all hc.isInc hu
    have hperm := List.mergeSort_perm D Cell.le
    refine ⟨D.mergeSort Cell.le, ?_, ?_⟩
    · simp only [Triangle.toCumulative, hinc, Bool.not_true, Bool.false_eq_true, if_false, hD, Except.bind]
      exact ofCells_of_all_kind .cumulative hDcum
    · have hni : Triangle.isIncremental (D.mergeSort Cell.le) = false :=
        not_isIncremental_of_all (fun c hcm => by rw [hDcum c (hperm.mem_iff.mp hcm)]; simp)
      simp only [Triangle.toIncremental, hni, Bool.false_eq_true, if_false, hC, Except.bind]
      rw [ofCells_of_all_kind .incremental, hCsort, List.map_id]
      intro c hcC
      have := hCperm.mem_iff.mp hcC
      rw [List.map_id] at this
      exact hc.isInc c this


end Bermuda.Properties.C04
