/-
C04 — cumulative ⇄ incremental conversion is exact, chained and self-inverse.
Only property theorems and non-vacuity examples live here. Hypotheses (`WFcum`, `Consistent`,
`Complete`, `RowChain`, `WFcumUpToKeys`, `WFincUpToKeys`) and helper lemmas: `Lemmas/BasisSpec.lean`,
`Lemmas/BasisRows.lean`, `Lemmas/Basis.lean`.
-/
import Bermuda.Model.Basis
import Bermuda.Spec.C04
import Bermuda.Lemmas.BasisSpec
import Bermuda.Lemmas.BasisCum
import Bermuda.Lemmas.Eq
namespace Bermuda.Properties.C04
open Bermuda Std

/-! ### 1. identity on the target basis -/

/-- `to_incremental` is the identity on an incremental triangle -/
theorem toInc_id_of_incremental {t : List Cell} (h : Triangle.isIncremental t = true) :
    Triangle.toIncremental t = .ok t := by
  simp [Triangle.toIncremental, h]

/-- `to_cumulative` is the identity on a triangle that is not incremental (`Cell`s,
`CumulativeCell`s, or empty) -/
theorem toCum_id_of_cumulative {t : List Cell} (h : Triangle.isIncremental t = false) :
    Triangle.toCumulative t = .ok t := by
  simp [Triangle.toCumulative, h]

/-! ### 2. cumulative → incremental → cumulative -/

/-- **to_cumulative ∘ to_incremental = id**, exactly: same cells in the same order with the same
dates, metadata, key order, values and value kinds; the class becomes `CumulativeCell`
(`Spec.asCumulative`). -/
theorem toCum_toInc {t : List Cell} (h : WFcum t) :
    ∃ u, Triangle.toIncremental t = .ok u ∧ Triangle.toCumulative u = .ok (Spec.asCumulative t) := by
  have hrow : ∀ k r, r ≠ [] → r = t.filter (fun c => rowKey c == k) →
      ∃ d, incRow k r = .ok d ∧ cumRow k d = .ok (r.map fun c => { c with kind := .cumulative }) ∧
        d ≠ [] ∧ (∀ c ∈ d, rowKey c = k) ∧ StrictSorted d ∧ ∀ c ∈ d, c.kind = .incremental := by
    intro k r hne hr
    have R := h.row hr
    cases r with
    | nil => exact absurd rfl hne
    | cons c0 rest =>
      have hc0t : c0 ∈ t := by
        have : c0 ∈ t.filter (fun c => rowKey c == k) := by rw [← hr]; simp
        exact (List.mem_filter.mp this).1
      have hv : k.1.1.valid = true := by
        have := h.psValid c0 hc0t
        rw [← R.key c0 (by simp)]; exact this
      obtain ⟨ds, h1, h2, h3, h4⟩ := incRow_cumRow R hv
      refine ⟨ds, h1, ?_, ?_, fun c hc => (h4 c hc).2.1, ?_, fun c hc => (h4 c hc).1⟩
      · rw [h2]; congr 1
        apply List.map_congr_left
        intro c hc
        have hk := R.key c hc
        have hp := prev_none_of_notInc (R.dates c hc) (R.notInc c hc)
        obtain ⟨ck, cps, cpe, cev, cprev, cv, cmd⟩ := c
        simp only [rowKey] at hk
        subst hk
        simp_all [cumOf]
      · intro e; rw [e] at h3; simp at h3
      · apply strict_of_evs (fun c hc => (h4 c hc).2.1)
        rw [h3, List.pairwise_map]; exact R.evs
  obtain ⟨D, hD, hDmem, hDnil, C, hC, hCperm, hCsort⟩ :=
    overRows_roundtrip (f := incRow) (g := cumRow) (h := fun c => { c with kind := .cumulative })
      h.sorted (fun a b => rfl)
      (fun k r hne hr => by
        obtain ⟨d, h1, h2, h3, h4, h5, _⟩ := hrow k r hne hr
        exact ⟨d, h1, h2, h3, h4, h5⟩)
  have hDinc : ∀ c ∈ D, c.kind = .incremental := by
    intro c hc
    obtain ⟨k, r, d, hne, hr, hf, hcd⟩ := hDmem c hc
    obtain ⟨d', h1, _, _, _, _, h6⟩ := hrow k r hne hr
    rw [hf] at h1; cases h1
    exact h6 c hcd
  refine ⟨D.mergeSort Cell.le, ?_, ?_⟩
  · simp only [Triangle.toIncremental, not_isIncremental_of_all h.notInc, Bool.false_eq_true, if_false,
      hD, Except.bind]
    exact ofCells_of_all_kind .incremental hDinc
  · have hperm := List.mergeSort_perm D Cell.le
    by_cases ht : t = []
    · subst ht
      have : D = [] := hDnil.mpr rfl
      subst this
      simp [Triangle.toCumulative, Triangle.isIncremental, Spec.asCumulative]
    · have hDne : D ≠ [] := fun e => ht (hDnil.mp e)
      have hne : D.mergeSort Cell.le ≠ [] := by
        intro e; rw [e] at hperm; exact hDne hperm.symm.eq_nil
      have hinc := isIncremental_of_all (fun c hc => hDinc c (hperm.mem_iff.mp hc)) hne
      simp only [Triangle.toCumulative, hinc, Bool.not_true, Bool.false_eq_true, if_false, hC, Except.bind]
      rw [ofCells_of_all_kind .cumulative, hCsort]
      · rfl
      · intro c hc
        obtain ⟨c', _, rfl⟩ := List.mem_map.mp (hCperm.mem_iff.mp hc)
        rfl



/-! ### 3. incremental → cumulative → incremental -/

/-- **to_incremental ∘ to_cumulative = id** on every complete incremental triangle, exactly -/
theorem toInc_toCum {u : List Cell} (h : Complete u) :
    ∃ t, Triangle.toCumulative u = .ok t ∧ Triangle.toIncremental t = .ok u := by
  obtain ⟨hc, hchain⟩ := h
  have hrow : ∀ k r, r ≠ [] → r = u.filter (fun c => rowKey c == k) →
      ∃ d, cumRow k r = .ok d ∧ incRow k d = .ok (r.map id) ∧
        d ≠ [] ∧ (∀ c ∈ d, rowKey c = k) ∧ StrictSorted d ∧ ∀ c ∈ d, c.kind = .cumulative := by
    intro k r hne hr
    have R := hc.row hr
    have hch := hchain k
    unfold RowChain at hch
    rw [← hr] at hch
    cases r with
    | nil => exact absurd rfl hne
    | cons x0 rest =>
      have hx0 : x0 ∈ u := by
        have : x0 ∈ u.filter (fun c => rowKey c == k) := by rw [← hr]; simp
        exact (List.mem_filter.mp this).1
      have hv : k.1.1.valid = true := by
        have := hc.psValid x0 hx0
        rw [← R.key x0 (by simp)]; exact this
      obtain ⟨cs, h1, h2, h3, h4⟩ := cumRow_incRow R hv hch.1 hch.2
      refine ⟨cs, h1, by simpa using h2, ?_, fun c hc => (h4 c hc).2.1, ?_, fun c hc => (h4 c hc).1⟩
      · intro e; rw [e] at h3; simp at h3
      · apply strict_of_evs (fun c hc => (h4 c hc).2.1)
        rw [h3, List.pairwise_map]
        have := chain_evs rest x0.ev hch.2
          (fun c hc => ⟨R.isInc c (List.mem_cons_of_mem _ hc), R.dates c (List.mem_cons_of_mem _ hc)⟩)
        exact List.pairwise_cons.mpr ⟨this.2, this.1⟩
  obtain ⟨D, hD, hDmem, hDnil, C, hC, hCperm, hCsort⟩ :=
    overRows_roundtrip (f := cumRow) (g := incRow) (h := id) hc.sorted (fun a b => rfl)
      (fun k r hne hr => by
        obtain ⟨d, h1, h2, h3, h4, h5, _⟩ := hrow k r hne hr
        exact ⟨d, h1, h2, h3, h4, h5⟩)
  have hDcum : ∀ c ∈ D, c.kind = .cumulative := by
    intro c hcD
    obtain ⟨k, r, d, hne, hr, hf, hcd⟩ := hDmem c hcD
    obtain ⟨d', h1, _, _, _, _, h6⟩ := hrow k r hne hr
    rw [hf] at h1; cases h1
    exact h6 c hcd
  by_cases hu : u = []
  · subst hu
    exact ⟨[], by simp [Triangle.toCumulative, Triangle.isIncremental],
      by simp [Triangle.toIncremental, Triangle.isIncremental, overRows, orderedRows, groupBy,
        Triangle.ofCells, kindsConsistent, Except.map, Except.bind, pure, Except.pure]⟩
  · have hinc := isIncremental_of_all hc.isInc hu
    have hperm := List.mergeSort_perm D Cell.le
    refine ⟨D.mergeSort Cell.le, ?_, ?_⟩
    · simp only [Triangle.toCumulative, hinc, Bool.not_true, Bool.false_eq_true, if_false, hD, Except.bind]
      exact ofCells_of_all_kind .cumulative hDcum
    · have hni : Triangle.isIncremental (D.mergeSort Cell.le) = false :=
        not_isIncremental_of_all (fun c hcm => by rw [hDcum c (hperm.mem_iff.mp hcm)]; simp)
      simp only [Triangle.toIncremental, hni, Bool.false_eq_true, if_false, hC, Except.bind]
      rw [ofCells_of_all_kind .incremental, hCsort, List.map_id]
      intro c hcC
      have := hCperm.mem_iff.mp hcC
      rw [List.map_id] at this
      exact hc.isInc c this



/-! ### 4. refusals -/

/-- **refusal of broken chains**: a consistent incremental triangle in which some row is not a
complete chain (first previous date ≠ day before period start, or a link ≠ the previous evaluation
date — e.g. after removing or shifting one cell) is refused with `TriangleError`. -/
theorem toCum_error_of_broken_chain {u : List Cell} (hc : Consistent u)
    (hpv : ∀ c ∈ u, ∀ p, c.prev = some p → p.valid = true) (hb : ∃ k, ¬ RowChain u k) :
    Triangle.toCumulative u = .error .triangleError := by
  obtain ⟨kb, hkb⟩ := hb
  have G := groupBy_inv rowKey u
  have hrows := orderedRows_of_strict hc.sorted
  have hne : u ≠ [] := by
    intro e; apply hkb; rw [e]; unfold RowChain; simp
  have hinc := isIncremental_of_all hc.isInc hne
  -- every row either converts or is refused with TriangleError
  have hall : ∀ p ∈ orderedRows u, (∃ b, cumRow p.1 p.2 = .ok b) ∨
      cumRow p.1 p.2 = .error .triangleError := by
    intro p hp
    rw [hrows] at hp
    have hcont := G.content p hp
    have R := hc.row hcont
    cases hr : p.2 with
    | nil => exact Or.inl ⟨[], by simp [cumRow]⟩
    | cons x0 rest =>
      rw [hr] at R hcont
      have hx0 : x0 ∈ u := by
        have : x0 ∈ u.filter (fun c => rowKey c == p.1) := by rw [← hcont]; simp
        exact (List.mem_filter.mp this).1
      have hv : p.1.1.1.valid = true := by
        have := hc.psValid x0 hx0
        rw [← R.key x0 (by simp)]; exact this
      by_cases hch : x0.prev = some p.1.1.1.pred ∧ ChainFrom x0.ev rest
      · obtain ⟨cs, h1, _⟩ := cumRow_incRow R hv hch.1 hch.2
        exact Or.inl ⟨cs, h1⟩
      · exact Or.inr (cumRow_error_of_broken R hv (hpv x0 hx0) hch)
  have hex : ∃ p ∈ orderedRows u, cumRow p.1 p.2 = .error .triangleError := by
    unfold RowChain at hkb
    cases hf : u.filter (fun c => rowKey c == kb) with
    | nil => rw [hf] at hkb; exact absurd trivial hkb
    | cons x0 rest =>
      rw [hf] at hkb
      have hx : x0 ∈ u.filter (fun c => rowKey c == kb) := by rw [hf]; simp
      obtain ⟨hx0, hxk⟩ := List.mem_filter.mp hx
      have hxk : rowKey x0 = kb := by simpa using hxk
      obtain ⟨p, hp, hpk⟩ := G.covers x0 hx0
      have hpk : p.1 = kb := hpk.trans hxk
      have hcont := G.content p hp
      rw [hpk, hf] at hcont
      have R := hc.row (k := kb) (r := x0 :: rest) hf.symm
      have hv : kb.1.1.valid = true := by
        have := hc.psValid x0 hx0
        rw [← hxk]; exact this
      refine ⟨p, by rw [hrows]; exact hp, ?_⟩
      rw [hcont, hpk]
      exact cumRow_error_of_broken R hv (hpv x0 hx0) hkb
  have := mapM_error_of_all (f := fun p : RowKey × List Cell => cumRow p.1 p.2) _ hall hex
  simp only [Triangle.toCumulative, hinc, Bool.not_true, Bool.false_eq_true, if_false, overRows, this,
    Except.map, Except.bind]


/-- **refusal of inconsistent fields (cumulative side)**: if in some row two consecutive cells have
different key sets, `to_incremental` raises `TriangleError`. -/
theorem toInc_error_of_key_mismatch {t : List Cell} (h : WFcumUpToKeys t)
    (hb : ∃ k, HasMismatch (t.filter (fun c => rowKey c == k))) :
    Triangle.toIncremental t = .error .triangleError := by
  obtain ⟨kb, hkb⟩ := hb
  have G := groupBy_inv rowKey t
  have hrows := orderedRows_of_strict h.sorted
  have hni := not_isIncremental_of_all h.notInc
  have rowDates : ∀ k r, r = t.filter (fun c => rowKey c == k) → CumRowDates k r := by
    intro k r hr
    have hsub : r.Sublist t := by rw [hr]; exact List.filter_sublist
    have hmem : ∀ c ∈ r, c ∈ t := fun c hc => hsub.subset hc
    have hkey : ∀ c ∈ r, rowKey c = k := by
      intro c hc; rw [hr] at hc; simpa using (List.mem_filter.mp hc).2
    refine ⟨hkey, fun c hc => h.dates c (hmem c hc), ?_⟩
    exact (h.sorted.sublist hsub).imp_of_mem (fun {a b} ha hb hab =>
      ev_lt_of_cmp_lt ((hkey a ha).trans (hkey b hb).symm)
        (prev_none_of_notInc (h.dates a (hmem a ha)) (h.notInc a (hmem a ha)))
        (prev_none_of_notInc (h.dates b (hmem b hb)) (h.notInc b (hmem b hb))) hab)
  have outcome : ∀ k r, r = t.filter (fun c => rowKey c == k) →
      ((∃ ds, incRow k r = .ok ds) ∧ ¬ HasMismatch r) ∨
      (incRow k r = .error .triangleError ∧ HasMismatch r) := by
    intro k r hr
    cases r with
    | nil => exact Or.inl ⟨⟨[], rfl⟩, fun hm => hm⟩
    | cons c0 rest =>
      have R := rowDates k _ hr
      have hc0 : c0 ∈ t := by
        have : c0 ∈ t.filter (fun c => rowKey c == k) := by rw [← hr]; simp
        exact (List.mem_filter.mp this).1
      have hv : k.1.1.valid = true := by
        have := h.psValid c0 hc0
        rw [← R.key c0 (by simp)]; exact this
      have hadj := h.adj k
      rw [← hr] at hadj
      exact incRow_outcome R hv hadj
  have hall : ∀ p ∈ orderedRows t, (∃ b, incRow p.1 p.2 = .ok b) ∨
      incRow p.1 p.2 = .error .triangleError := by
    intro p hp
    rw [hrows] at hp
    rcases outcome p.1 p.2 (G.content p hp) with ⟨hok, _⟩ | ⟨herr, _⟩
    · exact Or.inl hok
    · exact Or.inr herr
  have hex : ∃ p ∈ orderedRows t, incRow p.1 p.2 = .error .triangleError := by
    cases hf : t.filter (fun c => rowKey c == kb) with
    | nil => rw [hf] at hkb; exact absurd hkb (fun hm => hm)
    | cons x0 rest =>
      have hx : x0 ∈ t.filter (fun c => rowKey c == kb) := by rw [hf]; simp
      obtain ⟨hx0, hxk⟩ := List.mem_filter.mp hx
      have hxk : rowKey x0 = kb := by simpa using hxk
      obtain ⟨p, hp, hpk⟩ := G.covers x0 hx0
      have hpk : p.1 = kb := hpk.trans hxk
      have hcont := G.content p hp
      refine ⟨p, by rw [hrows]; exact hp, ?_⟩
      rcases outcome p.1 p.2 hcont with ⟨_, hno⟩ | ⟨herr, _⟩
      · rw [hcont, hpk] at hno; exact absurd hkb hno
      · exact herr
  have := mapM_error_of_all (f := fun p : RowKey × List Cell => incRow p.1 p.2) _ hall hex
  simp only [Triangle.toIncremental, hni, Bool.false_eq_true, if_false, overRows, this,
    Except.map, Except.bind]


/-- **refusal of inconsistent fields (incremental side)**: if in some row two consecutive cells have
different key sets, `to_cumulative` raises `TriangleError` (whether or not the chain is complete). -/
theorem toCum_error_of_key_mismatch {u : List Cell} (h : WFincUpToKeys u)
    (hb : ∃ k, HasMismatch (u.filter (fun c => rowKey c == k))) :
    Triangle.toCumulative u = .error .triangleError := by
  obtain ⟨kb, hkb⟩ := hb
  have G := groupBy_inv rowKey u
  have hrows := orderedRows_of_strict h.sorted
  have hne : u ≠ [] := by
    intro e; rw [e] at hkb; exact hkb
  have hinc := isIncremental_of_all h.isInc hne
  have outcome : ∀ k r, r = u.filter (fun c => rowKey c == k) →
      ((∃ cs, cumRow k r = .ok cs) ∧ ¬ HasMismatch r) ∨ cumRow k r = .error .triangleError := by
    intro k r hr
    cases r with
    | nil => exact Or.inl ⟨⟨[], rfl⟩, fun hm => hm⟩
    | cons x0 rest =>
      have hsub : (x0 :: rest).Sublist u := by rw [hr]; exact List.filter_sublist
      have hkey : ∀ c ∈ x0 :: rest, rowKey c = k := by
        intro c hc; rw [hr] at hc; simpa using (List.mem_filter.mp hc).2
      have hadj := h.adj k
      rw [← hr] at hadj
      exact cumRow_outcome ⟨hkey, fun c hc => h.dates c (hsub.subset hc)⟩ hadj
  have hall : ∀ p ∈ orderedRows u, (∃ b, cumRow p.1 p.2 = .ok b) ∨
      cumRow p.1 p.2 = .error .triangleError := by
    intro p hp
    rw [hrows] at hp
    rcases outcome p.1 p.2 (G.content p hp) with ⟨hok, _⟩ | herr
    · exact Or.inl hok
    · exact Or.inr herr
  have hex : ∃ p ∈ orderedRows u, cumRow p.1 p.2 = .error .triangleError := by
    cases hf : u.filter (fun c => rowKey c == kb) with
    | nil => rw [hf] at hkb; exact absurd hkb (fun hm => hm)
    | cons x0 rest =>
      have hx : x0 ∈ u.filter (fun c => rowKey c == kb) := by rw [hf]; simp
      obtain ⟨hx0, hxk⟩ := List.mem_filter.mp hx
      have hxk : rowKey x0 = kb := by simpa using hxk
      obtain ⟨p, hp, hpk⟩ := G.covers x0 hx0
      have hpk : p.1 = kb := hpk.trans hxk
      have hcont := G.content p hp
      refine ⟨p, by rw [hrows]; exact hp, ?_⟩
      rcases outcome p.1 p.2 hcont with ⟨_, hno⟩ | herr
      · rw [hcont, hpk] at hno; exact absurd hkb hno
      · exact herr
  have := mapM_error_of_all (f := fun p : RowKey × List Cell => cumRow p.1 p.2) _ hall hex
  simp only [Triangle.toCumulative, hinc, Bool.not_true, Bool.false_eq_true, if_false, overRows, this,
    Except.map, Except.bind]



/-! ### 5. the executable Spec predicates hold of the model's outputs -/

section
open Spec

/-- **C04, first clause, on the model**: for a valid cumulative triangle whose value dicts have
distinct keys (as every Python dict has), `to_incremental` succeeds and the executable predicate
`Spec.toIncRowSpec` — per slice and period one increment per evaluation date, previous date = the
preceding evaluation date of the row (day before period start for the first), values = differences
of consecutive cumulative values except `earned_premium` — holds of its result. -/
theorem toInc_row_spec {t : List Cell} (h : WFcum t)
    (hnd : ∀ c ∈ t, Spec.nodupKeys c.values = true) :
    ∃ u, Triangle.toIncremental t = .ok u ∧ Spec.toIncRowSpec t u = true := by
  obtain ⟨u, hu, hsorted, _, hlen, hrows⟩ := toInc_rows h
  refine ⟨u, hu, ?_⟩
  unfold Spec.toIncRowSpec
  simp only [Bool.and_eq_true, beq_iff_eq, List.all_eq_true]
  refine ⟨⟨hlen, chainB_of_pairwise_le hsorted⟩, ?_⟩
  intro c hc
  -- the row of `c`
  have hcr : c ∈ t.filter (fun x => rowKey x == rowKey c) := List.mem_filter.mpr ⟨hc, by simp⟩
  have hne : t.filter (fun x => rowKey x == rowKey c) ≠ [] := List.ne_nil_of_mem hcr
  have R := h.row (k := rowKey c) (r := t.filter (fun x => rowKey x == rowKey c)) rfl
  obtain ⟨ds, hds, hfilt, hevs⟩ := hrows (rowKey c) _ hne rfl
  obtain ⟨pre, post, hsplit⟩ := List.append_of_mem hcr
  obtain ⟨o, ho, hoev, hokind, hokey, hopred⟩ := incRow_spec hds hsplit
  have hdsevs : ds.Pairwise (fun a b => a.ev < b.ev) := by
    have := R.evs
    rw [← List.pairwise_map (f := fun x : Cell => x.ev) (R := fun a b => a < b), ← hevs,
      List.pairwise_map] at this
    exact this
  have hat : Spec.atCoord u c = [o] := by
    unfold Spec.atCoord
    have : (fun x : Cell => rowKey x == rowKey c && x.ev == c.ev) =
        (fun a => (a.ev == o.ev) && (rowKey a == rowKey c)) := by
      funext x; rw [Bool.and_comm, hoev]
    rw [this, ← List.filter_filter, hfilt]
    exact filter_ev_eq hdsevs ho
  rw [hat]
  -- the predecessor found by the lookup is the cell before `c` in the row
  have hpred : Spec.predIn t c = pre.getLast? := by
    have hev' := R.evs
    rw [hsplit] at hev'
    rw [predIn_eq, hsplit, filter_lt_split hev',
      foldl_predStep pre none ((List.pairwise_append.mp hev').1) (fun b hb => by cases hb)]
    cases pre.getLast? <;> rfl
  have hps : (rowKey c).1.1 = c.ps := rfl
  unfold Spec.incOf
  rw [hpred]
  cases hlast : pre.getLast? with
  | none =>
    rw [hlast] at hopred
    simp only [hokind, hokey, hoev, hopred.1, hopred.2, hps, beq_self_eq_true, Bool.true_and,
      dictEqv_refl (hnd c hc)]
  | some p =>
    rw [hlast] at hopred
    have hpmem : p ∈ t.filter (fun x => rowKey x == rowKey c) := by
      rw [hsplit]; exact List.mem_append_left _ (List.mem_of_getLast? hlast)
    have hpt : p ∈ t := (List.mem_filter.mp hpmem).1
    have hpk : rowKey p = rowKey c := by simpa using (List.mem_filter.mp hpmem).2
    obtain ⟨_, hkeys, hentries⟩ := valuesDiff_inv hopred.2
    have hsk1 : sameKeys p.values c.values = true := h.keys p hpt c hc hpk
    have hsk2 : sameKeys o.values c.values = true := by
      rw [sameKeys_congr hkeys rfl]; exact sameKeys_self _
    have hnd2 : Spec.nodupKeys o.values = true := by
      rw [nodupKeys_congr hkeys]; exact hnd c hc
    simp only [hokind, hokey, hoev, hopred.1, hsk1, hsk2, hnd2, beq_self_eq_true, Bool.true_and,
      List.all_eq_true]
    intro kv hkv
    obtain ⟨a1, a2⟩ := hentries kv hkv
    by_cases hs : kv.1 = staticField
    · simp only [hs, beq_self_eq_true, if_true]
      have := a1 hs
      rw [← hs, get?_of_mem_nodup (hnd c hc) (k := kv.1) (v := kv.2) this]; simp
    · have hs' : (kv.1 == staticField) = false := by simpa using hs
      obtain ⟨v, hv1, hv2⟩ := a2 hs
      simp only [hs', Bool.false_eq_true, if_false]
      rw [getD'_of_mem_nodup (hnd c hc) hv1, hv2]
      simp [BEq.beq]


/-- **C04, the same clause read backwards, on the model**: for a complete incremental triangle `to_cumulative`
succeeds and the executable predicate `Spec.toCumRowSpec` — the one the driver evaluates on the IMPLEMENTATION's
`to_cumulative` output — holds of its result: all cells cumulative without a previous date, in canonical order, the
increments of the result are exactly `u` (`Spec.toIncRowSpec t u`: one per evaluation date of every row, linked to
the preceding evaluation date, values = differences except `earned_premium`), and every increment of `u` is
accounted for by exactly one cumulative cell. -/
theorem toCum_row_spec {u : List Cell} (h : Complete u)
    (hnd : ∀ c ∈ u, Spec.nodupKeys c.values = true) :
    ∃ t, Triangle.toCumulative u = .ok t ∧ Spec.toCumRowSpec u t = true :=
  toCumRowSpec_main h hnd

/-- **clauses 1-3 under the statement's own hypothesis** ("rows keep one field set"; no hypothesis on the kind, dtype
or shape of the values): on a cumulative triangle in canonical form with distinct coordinates whose rows keep one key
set, WHENEVER `to_incremental` returns a triangle it satisfies `Spec.toIncRowSpec`. (`toInc_row_spec` adds `WFcum.types`
— one kind per field along a row — to show that the conversion does not raise and for the exact round trip.) -/
theorem toInc_row_spec_of_success {t u : List Cell} (hs : t.Pairwise (fun a b => Cell.cmp a b = .lt))
    (hni : ∀ c ∈ t, c.kind ≠ .incremental) (hd : ∀ c ∈ t, c.datesOk = true)
    (hkeys : ∀ a ∈ t, ∀ b ∈ t, rowKey a = rowKey b → sameKeys a.values b.values = true)
    (hnd : ∀ c ∈ t, Spec.nodupKeys c.values = true)
    (hu : Triangle.toIncremental t = .ok u) : Spec.toIncRowSpec t u = true :=
  toIncRowSpec_of_success hs hni hd hkeys hnd hu

/-- `Spec.roundTripCumSpec` (cell-by-cell equality with exact kinds, `Cell` read as `CumulativeCell`)
holds of the model's `to_cumulative(to_incremental(t))` -/
theorem roundTripCum_spec {t : List Cell} (h : WFcum t)
    (hnd : ∀ c ∈ t, Spec.nodupKeys c.values = true) :
    ∃ u back, Triangle.toIncremental t = .ok u ∧ Triangle.toCumulative u = .ok back ∧
      Spec.roundTripCumSpec t back = true := by
  obtain ⟨u, h1, h2⟩ := toCum_toInc h
  refine ⟨u, _, h1, h2, ?_⟩
  unfold Spec.roundTripCumSpec
  apply cellsEqv_refl
  intro c hc
  obtain ⟨c', hc', rfl⟩ := List.mem_map.mp hc
  exact hnd c' hc'

/-- `Spec.roundTripIncSpec` holds of the model's `to_incremental(to_cumulative(u))` -/
theorem roundTripInc_spec {u : List Cell} (h : Complete u)
    (hnd : ∀ c ∈ u, Spec.nodupKeys c.values = true) :
    ∃ t back, Triangle.toCumulative u = .ok t ∧ Triangle.toIncremental t = .ok back ∧
      Spec.roundTripIncSpec u back = true := by
  obtain ⟨t, h1, h2⟩ := toInc_toCum h
  exact ⟨t, u, h1, h2, cellsEqv_refl hnd⟩

end

/-! ### 6. non-vacuity -/

def mA : Metadata := { country := some "DE" }
def mB : Metadata := { country := some "US" }
def d (y m dd : Nat) : Date := ⟨y, m, dd⟩
def arrI (l : List Int) : Val := .arr true [l.length] (l.map (fun (i : Int) => ((i : Int) : Rat)))
def arrF (l : List Rat) : Val := .arr false [l.length] l
def mkC (md : Metadata) (y : Nat) (ev : Date) (paid : List Int) (rep : List Rat) (ep : Rat) : Cell :=
  { kind := .cumulative, ps := d y 1 1, pe := d y 12 31, ev := ev, md := md,
    values := [("paid_loss", arrI paid), ("earned_premium", .flt ep), ("reported_loss", arrF rep)] }

def exT : List Cell :=
  [ mkC mA 2020 (d 2020 12 31) [10, 20] [15, 25.5] 100,
    mkC mA 2020 (d 2022 12 31) [30, 25] [35, 30.25] 100,
    mkC mB 2020 (d 2020 12 31) [1, 2] [1.5, 2] 50,
    mkC mB 2020 (d 2021 12 31) [4, 2] [4.5, 2.5] 50,
    mkC mB 2020 (d 2022 12 31) [9, 3] [9, 3.5] 55,
    mkC mB 2021 (d 2021 12 31) [7, 7] [8, 8] 60 ]


/-- non-vacuity: a ragged two-slice triangle (slice DE skips the 2021 evaluation, slice US has a
second, shorter period) with int64-array, float64-array and float (`earned_premium`, varying in one
row) values satisfies `WFcum` -/
theorem exT_wf : WFcum exT where
  sorted := by decide +kernel
  notInc := by decide +kernel
  dates := by decide +kernel
  psValid := by decide +kernel
  keys := by decide +kernel
  types := by
    have : ∀ a ∈ exT, ∀ b ∈ exT, rowKey a = rowKey b → dictCompatB a.values b.values = true := by
      decide +kernel
    exact fun a ha b hb e => dictCompat_of_B (this a ha b hb e)

theorem exT_nodup : ∀ c ∈ exT, Spec.nodupKeys c.values = true := by decide +kernel

/-- hence the round trip theorem and the Spec bridge apply to it -/
example : ∃ u, Triangle.toIncremental exT = .ok u ∧ Spec.toIncRowSpec exT u = true :=
  toInc_row_spec exT_wf exT_nodup


example : ∃ u, Triangle.toIncremental exT = .ok u ∧
    Triangle.toCumulative u = .ok (Spec.asCumulative exT) := toCum_toInc exT_wf



def mkI (md : Metadata) (y : Nat) (prev ev : Date) (paid : List Int) (ep : Rat) : Cell :=
  { kind := .incremental, ps := d y 1 1, pe := d y 12 31, prev := some prev, ev := ev, md := md,
    values := [("earned_premium", .flt ep), ("paid_loss", arrI paid)] }

/-- a complete incremental triangle: slice DE with a two-year first step, slice US with two periods -/
def exU : List Cell :=
  [ mkI mA 2020 (d 2019 12 31) (d 2020 12 31) [10, 20] 100,
    mkI mA 2020 (d 2020 12 31) (d 2022 12 31) [20, 5] 100,
    mkI mB 2020 (d 2019 12 31) (d 2020 12 31) [1, 2] 50,
    mkI mB 2020 (d 2020 12 31) (d 2021 12 31) [3, 0] 50,
    mkI mB 2020 (d 2021 12 31) (d 2022 12 31) [5, 1] 55,
    mkI mB 2021 (d 2020 12 31) (d 2021 12 31) [7, 7] 60 ]

theorem exU_complete : Complete exU := by
  refine ⟨⟨by decide +kernel, by decide +kernel, by decide +kernel, by decide +kernel,
    by decide +kernel, ?_⟩, rowChain_of_B (by decide +kernel)⟩
  have : ∀ a ∈ exU, ∀ b ∈ exU, rowKey a = rowKey b → dictCompatB a.values b.values = true := by
    decide +kernel
  exact fun a ha b hb e => dictCompat_of_B (this a ha b hb e)

example : ∃ t, Triangle.toCumulative exU = .ok t ∧ Triangle.toIncremental t = .ok exU :=
  toInc_toCum exU_complete

theorem exU_nodup : ∀ c ∈ exU, Spec.nodupKeys c.values = true := by decide +kernel

example : ∃ t, Triangle.toCumulative exU = .ok t ∧ Spec.toCumRowSpec exU t = true :=
  toCum_row_spec exU_complete exU_nodup



/-- `exU` with one link removed (the 2021 evaluation of slice US, period 2020) -/
def exUbroken : List Cell := exU.eraseIdx 3

/-- non-vacuity of `toCum_error_of_broken_chain`: the triangle with one link removed is still
consistent, but the row it was taken from is no longer a complete chain — it is refused -/
example : Triangle.toCumulative exUbroken = .error .triangleError := by
  refine toCum_error_of_broken_chain ⟨by decide +kernel, by decide +kernel, by decide +kernel,
    by decide +kernel, by decide +kernel, ?_⟩ (by decide +kernel)
    ⟨((d 2020 1 1, d 2020 12 31), mB), not_rowChain_of_B (by decide +kernel)⟩
  have : ∀ a ∈ exUbroken, ∀ b ∈ exUbroken, rowKey a = rowKey b →
      dictCompatB a.values b.values = true := by decide +kernel
  exact fun a ha b hb e => dictCompat_of_B (this a ha b hb e)


/-- `exT` with `reported_loss` missing from ONE cell (slice US, period 2020, evaluation 2021): rows keep their key
set everywhere else -/
def exTbadKeys : List Cell :=
  [ mkC mA 2020 (d 2020 12 31) [10, 20] [15, 25.5] 100,
    mkC mA 2020 (d 2022 12 31) [30, 25] [35, 30.25] 100,
    mkC mB 2020 (d 2020 12 31) [1, 2] [1.5, 2] 50,
    { mkC mB 2020 (d 2021 12 31) [4, 2] [4.5, 2.5] 50 with
      values := [("paid_loss", arrI [4, 2]), ("earned_premium", .flt 50)] },
    mkC mB 2020 (d 2022 12 31) [9, 3] [9, 3.5] 55,
    mkC mB 2021 (d 2021 12 31) [7, 7] [8, 8] 60 ]

/-- non-vacuity of `toInc_error_of_key_mismatch`: the hypotheses hold of `exTbadKeys`, so it is refused -/
example : Triangle.toIncremental exTbadKeys = .error .triangleError :=
  toInc_error_of_key_mismatch
    ⟨by decide +kernel, by decide +kernel, by decide +kernel, by decide +kernel,
     adjOK_rows_of_B (by decide +kernel)⟩
    ⟨((d 2020 1 1, d 2020 12 31), mB), hasMismatch_of_B (by decide +kernel)⟩

/-- `exU` with an extra field in ONE increment (slice US, period 2020, evaluation 2021) -/
def exUbadKeys : List Cell :=
  [ mkI mA 2020 (d 2019 12 31) (d 2020 12 31) [10, 20] 100,
    mkI mA 2020 (d 2020 12 31) (d 2022 12 31) [20, 5] 100,
    mkI mB 2020 (d 2019 12 31) (d 2020 12 31) [1, 2] 50,
    { mkI mB 2020 (d 2020 12 31) (d 2021 12 31) [3, 0] 50 with
      values := [("earned_premium", .flt 50), ("paid_loss", arrI [3, 0]), ("zz_extra", .int 1)] },
    mkI mB 2020 (d 2021 12 31) (d 2022 12 31) [5, 1] 55,
    mkI mB 2021 (d 2020 12 31) (d 2021 12 31) [7, 7] 60 ]

/-- non-vacuity of `toCum_error_of_key_mismatch` -/
example : Triangle.toCumulative exUbadKeys = .error .triangleError :=
  toCum_error_of_key_mismatch
    ⟨by decide +kernel, by decide +kernel, by decide +kernel, adjOK_rows_of_B (by decide +kernel)⟩
    ⟨((d 2020 1 1, d 2020 12 31), mB), hasMismatch_of_B (by decide +kernel)⟩

/-- a row whose field changes its KIND along the row (int, then float, then a float64 array): outside `WFcum`
(`types` fails), inside `toInc_row_spec_of_success` -/
def exMixed : List Cell :=
  [ { kind := .cumulative, ps := d 2020 1 1, pe := d 2020 12 31, ev := d 2020 12 31, md := mA,
      values := [("paid_loss", .int 5), ("earned_premium", .flt 100)] },
    { kind := .cumulative, ps := d 2020 1 1, pe := d 2020 12 31, ev := d 2021 12 31, md := mA,
      values := [("paid_loss", .flt (15/2)), ("earned_premium", .flt 100)] },
    { kind := .cumulative, ps := d 2020 1 1, pe := d 2020 12 31, ev := d 2022 12 31, md := mA,
      values := [("paid_loss", arrF [8, 9]), ("earned_premium", .flt 100)] } ]

def exMixedInc : List Cell :=
  [ { kind := .incremental, ps := d 2020 1 1, pe := d 2020 12 31, prev := some (d 2019 12 31), ev := d 2020 12 31,
      md := mA, values := [("paid_loss", .int 5), ("earned_premium", .flt 100)] },
    { kind := .incremental, ps := d 2020 1 1, pe := d 2020 12 31, prev := some (d 2020 12 31), ev := d 2021 12 31,
      md := mA, values := [("paid_loss", .flt (5/2)), ("earned_premium", .flt 100)] },
    { kind := .incremental, ps := d 2020 1 1, pe := d 2020 12 31, prev := some (d 2021 12 31), ev := d 2022 12 31,
      md := mA, values := [("paid_loss", arrF [1/2, 3/2]), ("earned_premium", .flt 100)] } ]

theorem exMixed_strict : exMixed.Pairwise (fun a b => Cell.cmp a b = .lt) := by decide +kernel

theorem exMixed_toInc : Triangle.toIncremental exMixed = .ok exMixedInc := by
  have hni : ∀ c ∈ exMixed, c.kind ≠ .incremental := by decide +kernel
  have h1 : overRows incRow exMixed = .ok exMixedInc := by
    unfold overRows
    rw [orderedRows_of_strict exMixed_strict]
    exact of_okIs (by decide +kernel)
  simp only [Triangle.toIncremental, not_isIncremental_of_all hni, Bool.false_eq_true, if_false, h1, Except.bind]
  rw [ofCells_of_all_kind .incremental (by decide +kernel)]
  congr 1
  exact List.mergeSort_of_pairwise (by decide +kernel)

/-- non-vacuity of `toInc_row_spec_of_success` beyond `WFcum`: the mixed-kind row converts and its increments
(5, then 2.5, then [0.5, 1.5]) satisfy the clause -/
example : Spec.toIncRowSpec exMixed exMixedInc = true :=
  toInc_row_spec_of_success exMixed_strict (by decide +kernel) (by decide +kernel) (by decide +kernel)
    (by decide +kernel) exMixed_toInc

/-! ### 7. the row key of the model and Python's grouping key -/

/-- `to_incremental` / `to_cumulative` group by `(cell.period, cell.metadata)` through `Metadata.__eq__/__hash__`
(detail-dict insertion order ignored); the model groups by structural equality of `rowKey`. On metadata in wire
form (`Canon`: detail dicts sorted by key — what the harness sends and what `WFcum`/`Consistent` triangles are
compared on) the two keys identify exactly the same cells. This is the (only) place where the theorems of this file
rely on the canonical representation of metadata. -/
theorem rowKey_eq_iff_python_key {a b : Cell} (ha : a.md.Canon) (hb : b.md.Canon) :
    rowKey a = rowKey b ↔ a.ps = b.ps ∧ a.pe = b.pe ∧ a.md.eqv b.md = true := by
  simp only [rowKey, Prod.mk.injEq, Metadata.eqv_iff_eq ha hb, and_assoc]

end Bermuda.Properties.C04

