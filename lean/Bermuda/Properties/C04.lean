/-
C04 — cumulative ⇄ incremental conversion is exact, chained and self-inverse.
Only property theorems live here (helper lemmas: `Lemmas/Basis.lean`, `Lemmas/BasisRows.lean`).
-/
import Bermuda.Model.Basis
import Bermuda.Spec.C04
import Bermuda.Lemmas.BasisRows
namespace Bermuda.Properties.C04
open Bermuda Std

/-! ### 1. identity on the target basis -/

/-- `to_incremental` is the identity on an incremental triangle -/
theorem toInc_id_of_incremental {t : List Cell} (h : Triangle.isIncremental t = true) :
    Triangle.toIncremental t = .ok t := by
  simp [Triangle.toIncremental, h]

/-- `to_cumulative` is the identity on a triangle that is not incremental (`Cell`s,
`CumulativeCell`s, or empty) -/
theorem toCum_id_of_cumulative {t : List Cell} (h : Triangle.isIncremental t = false) :
    Triangle.toCumulative t = .ok t := by
  simp [Triangle.toCumulative, h]

/-! ### 2. cumulative → incremental → cumulative -/

/-- **H**: a valid cumulative triangle. `sorted` is the canonical form of C01 together with
"distinct (metadata, period, evaluation date)"; `keys`: rows keep one key set; `types`: under every
key other than `earned_premium` the row keeps one kind/dtype/shape, and no value is `None`. -/
structure WFcum (t : List Cell) : Prop where
  sorted : t.Pairwise (fun a b => Cell.cmp a b = .lt)
  notInc : ∀ c ∈ t, c.kind ≠ .incremental
  dates : ∀ c ∈ t, c.datesOk = true
  psValid : ∀ c ∈ t, c.ps.valid = true
  keys : ∀ a ∈ t, ∀ b ∈ t, rowKey a = rowKey b → sameKeys a.values b.values = true
  types : ∀ a ∈ t, ∀ b ∈ t, rowKey a = rowKey b → DictCompat a.values b.values

theorem WFcum.row {t : List Cell} (h : WFcum t) {k : RowKey} {r : List Cell}
    (hr : r = t.filter (fun c => rowKey c == k)) : CumRow k r := by
  have hsub : r.Sublist t := by rw [hr]; exact List.filter_sublist
  have hmem : ∀ c ∈ r, c ∈ t := fun c hc => hsub.subset hc
  have hkey : ∀ c ∈ r, rowKey c = k := by
    intro c hc; rw [hr] at hc; simpa using (List.mem_filter.mp hc).2
  have hkk : ∀ a ∈ r, ∀ b ∈ r, rowKey a = rowKey b := fun a ha b hb => (hkey a ha).trans (hkey b hb).symm
  have hs := h.sorted.sublist hsub
  refine ⟨hkey, fun c hc => h.dates c (hmem c hc), fun c hc => h.notInc c (hmem c hc), ?_, ?_, ?_⟩
  · exact hs.imp_of_mem (fun {a b} ha hb hab => ev_lt_of_cmp_lt (hkk a ha b hb)
      (prev_none_of_notInc (h.dates a (hmem a ha)) (h.notInc a (hmem a ha)))
      (prev_none_of_notInc (h.dates b (hmem b hb)) (h.notInc b (hmem b hb))) hab)
  · exact hs.imp_of_mem (fun {a b} ha hb _ => h.keys a (hmem a ha) b (hmem b hb) (hkk a ha b hb))
  · exact hs.imp_of_mem (fun {a b} ha hb _ => h.types a (hmem a ha) b (hmem b hb) (hkk a ha b hb))

/-- **to_cumulative ∘ to_incremental = id**, exactly: same cells in the same order with the same
dates, metadata, key order, values and value kinds; the class becomes `CumulativeCell`
(`Spec.asCumulative`). -/
theorem toCum_toInc {t : List Cell} (h : WFcum t) :
    ∃ u, Triangle.toIncremental t = .ok u ∧ Triangle.toCumulative u = .ok (Spec.asCumulative t) := by
  have hrow : ∀ k r, r ≠ [] → r = t.filter (fun c => rowKey c == k) →
      ∃ d, incRow k r = .ok d ∧ cumRow k d = .ok (r.map fun c => { c with kind := .cumulative }) ∧
        d ≠ [] ∧ (∀ c ∈ d, rowKey c = k) ∧ StrictSorted d ∧ ∀ c ∈ d, c.kind = .incremental := by
    intro k r hne hr
    have R := h.row hr
    cases r with
    | nil => exact absurd rfl hne
    | cons c0 rest =>
      have hc0t : c0 ∈ t := by
        have : c0 ∈ t.filter (fun c => rowKey c == k) := by rw [← hr]; simp
        exact (List.mem_filter.mp this).1
      have hv : k.1.1.valid = true := by
        have := h.psValid c0 hc0t
        rw [← R.key c0 (by simp)]; exact this
      obtain ⟨ds, h1, h2, h3, h4⟩ := incRow_cumRow R hv
      refine ⟨ds, h1, ?_, ?_, fun c hc => (h4 c hc).2.1, ?_, fun c hc => (h4 c hc).1⟩
      · rw [h2]; congr 1
        apply List.map_congr_left
        intro c hc
        have hk := R.key c hc
        have hp := prev_none_of_notInc (R.dates c hc) (R.notInc c hc)
        obtain ⟨ck, cps, cpe, cev, cprev, cv, cmd⟩ := c
        simp only [rowKey] at hk
        subst hk
        simp_all [cumOf]
      · intro e; rw [e] at h3; simp at h3
      · apply strict_of_evs (fun c hc => (h4 c hc).2.1)
        rw [h3, List.pairwise_map]; exact R.evs
  obtain ⟨D, hD, hDmem, hDnil, C, hC, hCperm, hCsort⟩ :=
    overRows_roundtrip (f := incRow) (g := cumRow) (h := fun c => { c with kind := .cumulative })
      h.sorted (fun a b => rfl)
      (fun k r hne hr => by
        obtain ⟨d, h1, h2, h3, h4, h5, _⟩ := hrow k r hne hr
        exact ⟨d, h1, h2, h3, h4, h5⟩)
  have hDinc : ∀ c ∈ D, c.kind = .incremental := by
    intro c hc
    obtain ⟨k, r, d, hne, hr, hf, hcd⟩ := hDmem c hc
    obtain ⟨d', h1, _, _, _, _, h6⟩ := hrow k r hne hr
    rw [hf] at h1; cases h1
    exact h6 c hcd
  refine ⟨D.mergeSort Cell.le, ?_, ?_⟩
  · simp only [Triangle.toIncremental, not_isIncremental_of_all h.notInc, Bool.false_eq_true, if_false,
      hD, Except.bind]
    exact ofCells_of_all_kind .incremental hDinc
  · have hperm := List.mergeSort_perm D Cell.le
    by_cases ht : t = []
    · subst ht
      have : D = [] := hDnil.mpr rfl
      subst this
      simp [Triangle.toCumulative, Triangle.isIncremental, Spec.asCumulative]
    · have hDne : D ≠ [] := fun e => ht (hDnil.mp e)
      have hne : D.mergeSort Cell.le ≠ [] := by
        intro e; rw [e] at hperm; exact hDne hperm.symm.eq_nil
      have hinc := isIncremental_of_all (fun c hc => hDinc c (hperm.mem_iff.mp hc)) hne
      simp only [Triangle.toCumulative, hinc, Bool.not_true, Bool.false_eq_true, if_false, hC, Except.bind]
      rw [ofCells_of_all_kind .cumulative, hCsort]
      · rfl
      · intro c hc
        obtain ⟨c', _, rfl⟩ := List.mem_map.mp (hCperm.mem_iff.mp hc)
        rfl



/-! ### 3. incremental → cumulative → incremental -/

/-- the cells of row `k` (one slice, one period), in triangle order, form a complete chain: the
first starts the day before the period starts, every later one links to the evaluation date
before it -/
def RowChain (u : List Cell) (k : RowKey) : Prop :=
  match u.filter (fun c => rowKey c == k) with
  | [] => True
  | x0 :: rest => x0.prev = some k.1.1.pred ∧ ChainFrom x0.ev rest

/-- an incremental triangle in canonical form whose rows keep one key set and one value type per
field (no `None`) -/
structure Consistent (u : List Cell) : Prop where
  sorted : u.Pairwise (fun a b => Cell.cmp a b = .lt)
  isInc : ∀ c ∈ u, c.kind = .incremental
  dates : ∀ c ∈ u, c.datesOk = true
  psValid : ∀ c ∈ u, c.ps.valid = true
  keys : ∀ a ∈ u, ∀ b ∈ u, rowKey a = rowKey b → sameKeys a.values b.values = true
  types : ∀ a ∈ u, ∀ b ∈ u, rowKey a = rowKey b → DictCompat a.values b.values

/-- a complete incremental triangle: consistent, and every row is a complete chain -/
def Complete (u : List Cell) : Prop := Consistent u ∧ ∀ k, RowChain u k

theorem Consistent.row {u : List Cell} (h : Consistent u) {k : RowKey} {r : List Cell}
    (hr : r = u.filter (fun c => rowKey c == k)) : IncRow k r := by
  have hsub : r.Sublist u := by rw [hr]; exact List.filter_sublist
  have hmem : ∀ c ∈ r, c ∈ u := fun c hc => hsub.subset hc
  have hkey : ∀ c ∈ r, rowKey c = k := by
    intro c hc; rw [hr] at hc; simpa using (List.mem_filter.mp hc).2
  have hkk : ∀ a ∈ r, ∀ b ∈ r, rowKey a = rowKey b := fun a ha b hb => (hkey a ha).trans (hkey b hb).symm
  have hs := h.sorted.sublist hsub
  exact ⟨hkey, fun c hc => h.dates c (hmem c hc), fun c hc => h.isInc c (hmem c hc),
    hs.imp_of_mem (fun {a b} ha hb _ => h.keys a (hmem a ha) b (hmem b hb) (hkk a ha b hb)),
    hs.imp_of_mem (fun {a b} ha hb _ => h.types a (hmem a ha) b (hmem b hb) (hkk a ha b hb))⟩

/-- **to_incremental ∘ to_cumulative = id** on every complete incremental triangle, exactly -/
theorem toInc_toCum {u : List Cell} (h : Complete u) :
    ∃ t, Triangle.toCumulative u = .ok t ∧ Triangle.toIncremental t = .ok u := by
  obtain ⟨hc, hchain⟩ := h
  have hrow : ∀ k r, r ≠ [] → r = u.filter (fun c => rowKey c == k) →
      ∃ d, cumRow k r = .ok d ∧ incRow k d = .ok (r.map id) ∧
        d ≠ [] ∧ (∀ c ∈ d, rowKey c = k) ∧ StrictSorted d ∧ ∀ c ∈ d, c.kind = .cumulative := by
    intro k r hne hr
    have R := hc.row hr
    have hch := hchain k
    unfold RowChain at hch
    rw [← hr] at hch
    cases r with
    | nil => exact absurd rfl hne
    | cons x0 rest =>
      have hx0 : x0 ∈ u := by
        have : x0 ∈ u.filter (fun c => rowKey c == k) := by rw [← hr]; simp
        exact (List.mem_filter.mp this).1
      have hv : k.1.1.valid = true := by
        have := hc.psValid x0 hx0
        rw [← R.key x0 (by simp)]; exact this
      obtain ⟨cs, h1, h2, h3, h4⟩ := cumRow_incRow R hv hch.1 hch.2
      refine ⟨cs, h1, by simpa using h2, ?_, fun c hc => (h4 c hc).2.1, ?_, fun c hc => (h4 c hc).1⟩
      · intro e; rw [e] at h3; simp at h3
      · apply strict_of_evs (fun c hc => (h4 c hc).2.1)
        rw [h3, List.pairwise_map]
        have := chain_evs rest x0.ev hch.2
          (fun c hc => ⟨R.isInc c (List.mem_cons_of_mem _ hc), R.dates c (List.mem_cons_of_mem _ hc)⟩)
        exact List.pairwise_cons.mpr ⟨this.2, this.1⟩
  obtain ⟨D, hD, hDmem, hDnil, C, hC, hCperm, hCsort⟩ :=
    overRows_roundtrip (f := cumRow) (g := incRow) (h := id) hc.sorted (fun a b => rfl)
      (fun k r hne hr => by
        obtain ⟨d, h1, h2, h3, h4, h5, _⟩ := hrow k r hne hr
        exact ⟨d, h1, h2, h3, h4, h5⟩)
  have hDcum : ∀ c ∈ D, c.kind = .cumulative := by
    intro c hcD
    obtain ⟨k, r, d, hne, hr, hf, hcd⟩ := hDmem c hcD
    obtain ⟨d', h1, _, _, _, _, h6⟩ := hrow k r hne hr
    rw [hf] at h1; cases h1
    exact h6 c hcd
  by_cases hu : u = []
  · subst hu
    exact ⟨[], by simp [Triangle.toCumulative, Triangle.isIncremental],
      by simp [Triangle.toIncremental, Triangle.isIncremental, overRows, orderedRows, groupBy,
        Triangle.ofCells, kindsConsistent, Except.map, Except.bind, pure, Except.pure]⟩
  · have hinc := isIncremental_of_all hc.isInc hu
    have hperm := List.mergeSort_perm D Cell.le
    refine ⟨D.mergeSort Cell.le, ?_, ?_⟩
    · simp only [Triangle.toCumulative, hinc, Bool.not_true, Bool.false_eq_true, if_false, hD, Except.bind]
      exact ofCells_of_all_kind .cumulative hDcum
    · have hni : Triangle.isIncremental (D.mergeSort Cell.le) = false :=
        not_isIncremental_of_all (fun c hcm => by rw [hDcum c (hperm.mem_iff.mp hcm)]; simp)
      simp only [Triangle.toIncremental, hni, Bool.false_eq_true, if_false, hC, Except.bind]
      rw [ofCells_of_all_kind .incremental, hCsort, List.map_id]
      intro c hcC
      have := hCperm.mem_iff.mp hcC
      rw [List.map_id] at this
      exact hc.isInc c this



/-! ### 4. refusals -/

/-- **refusal of broken chains**: a consistent incremental triangle in which some row is not a
complete chain (first previous date ≠ day before period start, or a link ≠ the previous evaluation
date — e.g. after removing or shifting one cell) is refused with `TriangleError`. -/
theorem toCum_error_of_broken_chain {u : List Cell} (hc : Consistent u)
    (hpv : ∀ c ∈ u, ∀ p, c.prev = some p → p.valid = true) (hb : ∃ k, ¬ RowChain u k) :
    Triangle.toCumulative u = .error .triangleError := by
  obtain ⟨kb, hkb⟩ := hb
  have G := groupBy_inv rowKey u
  have hrows := orderedRows_of_strict hc.sorted
  have hne : u ≠ [] := by
    intro e; apply hkb; rw [e]; unfold RowChain; simp
  have hinc := isIncremental_of_all hc.isInc hne
  -- every row either converts or is refused with TriangleError
  have hall : ∀ p ∈ orderedRows u, (∃ b, cumRow p.1 p.2 = .ok b) ∨
      cumRow p.1 p.2 = .error .triangleError := by
    intro p hp
    rw [hrows] at hp
    have hcont := G.content p hp
    have R := hc.row hcont
    cases hr : p.2 with
    | nil => exact Or.inl ⟨[], by simp [cumRow]⟩
    | cons x0 rest =>
      rw [hr] at R hcont
      have hx0 : x0 ∈ u := by
        have : x0 ∈ u.filter (fun c => rowKey c == p.1) := by rw [← hcont]; simp
        exact (List.mem_filter.mp this).1
      have hv : p.1.1.1.valid = true := by
        have := hc.psValid x0 hx0
        rw [← R.key x0 (by simp)]; exact this
      by_cases hch : x0.prev = some p.1.1.1.pred ∧ ChainFrom x0.ev rest
      · obtain ⟨cs, h1, _⟩ := cumRow_incRow R hv hch.1 hch.2
        exact Or.inl ⟨cs, h1⟩
      · exact Or.inr (cumRow_error_of_broken R hv (hpv x0 hx0) hch)
  have hex : ∃ p ∈ orderedRows u, cumRow p.1 p.2 = .error .triangleError := by
    unfold RowChain at hkb
    cases hf : u.filter (fun c => rowKey c == kb) with
    | nil => rw [hf] at hkb; exact absurd trivial hkb
    | cons x0 rest =>
      rw [hf] at hkb
      have hx : x0 ∈ u.filter (fun c => rowKey c == kb) := by rw [hf]; simp
      obtain ⟨hx0, hxk⟩ := List.mem_filter.mp hx
      have hxk : rowKey x0 = kb := by simpa using hxk
      obtain ⟨p, hp, hpk⟩ := G.covers x0 hx0
      have hpk : p.1 = kb := hpk.trans hxk
      have hcont := G.content p hp
      rw [hpk, hf] at hcont
      have R := hc.row (k := kb) (r := x0 :: rest) hf.symm
      have hv : kb.1.1.valid = true := by
        have := hc.psValid x0 hx0
        rw [← hxk]; exact this
      refine ⟨p, by rw [hrows]; exact hp, ?_⟩
      rw [hcont, hpk]
      exact cumRow_error_of_broken R hv (hpv x0 hx0) hkb
  have := mapM_error_of_all (f := fun p : RowKey × List Cell => cumRow p.1 p.2) _ hall hex
  simp only [Triangle.toCumulative, hinc, Bool.not_true, Bool.false_eq_true, if_false, overRows, this,
    Except.map, Except.bind]


/-- a cumulative triangle in canonical form in which, apart from the key sets, consecutive cells of
every row are compatible -/
structure WFcumUpToKeys (t : List Cell) : Prop where
  sorted : t.Pairwise (fun a b => Cell.cmp a b = .lt)
  notInc : ∀ c ∈ t, c.kind ≠ .incremental
  dates : ∀ c ∈ t, c.datesOk = true
  psValid : ∀ c ∈ t, c.ps.valid = true
  adj : ∀ k, AdjOK (t.filter (fun c => rowKey c == k))

/-- **refusal of inconsistent fields (cumulative side)**: if in some row two consecutive cells have
different key sets, `to_incremental` raises `TriangleError`. -/
theorem toInc_error_of_key_mismatch {t : List Cell} (h : WFcumUpToKeys t)
    (hb : ∃ k, HasMismatch (t.filter (fun c => rowKey c == k))) :
    Triangle.toIncremental t = .error .triangleError := by
  obtain ⟨kb, hkb⟩ := hb
  have G := groupBy_inv rowKey t
  have hrows := orderedRows_of_strict h.sorted
  have hni := not_isIncremental_of_all h.notInc
  have rowDates : ∀ k r, r = t.filter (fun c => rowKey c == k) → CumRowDates k r := by
    intro k r hr
    have hsub : r.Sublist t := by rw [hr]; exact List.filter_sublist
    have hmem : ∀ c ∈ r, c ∈ t := fun c hc => hsub.subset hc
    have hkey : ∀ c ∈ r, rowKey c = k := by
      intro c hc; rw [hr] at hc; simpa using (List.mem_filter.mp hc).2
    refine ⟨hkey, fun c hc => h.dates c (hmem c hc), ?_⟩
    exact (h.sorted.sublist hsub).imp_of_mem (fun {a b} ha hb hab =>
      ev_lt_of_cmp_lt ((hkey a ha).trans (hkey b hb).symm)
        (prev_none_of_notInc (h.dates a (hmem a ha)) (h.notInc a (hmem a ha)))
        (prev_none_of_notInc (h.dates b (hmem b hb)) (h.notInc b (hmem b hb))) hab)
  have outcome : ∀ k r, r = t.filter (fun c => rowKey c == k) →
      ((∃ ds, incRow k r = .ok ds) ∧ ¬ HasMismatch r) ∨
      (incRow k r = .error .triangleError ∧ HasMismatch r) := by
    intro k r hr
    cases r with
    | nil => exact Or.inl ⟨⟨[], rfl⟩, fun hm => hm⟩
    | cons c0 rest =>
      have R := rowDates k _ hr
      have hc0 : c0 ∈ t := by
        have : c0 ∈ t.filter (fun c => rowKey c == k) := by rw [← hr]; simp
        exact (List.mem_filter.mp this).1
      have hv : k.1.1.valid = true := by
        have := h.psValid c0 hc0
        rw [← R.key c0 (by simp)]; exact this
      have hadj := h.adj k
      rw [← hr] at hadj
      exact incRow_outcome R hv hadj
  have hall : ∀ p ∈ orderedRows t, (∃ b, incRow p.1 p.2 = .ok b) ∨
      incRow p.1 p.2 = .error .triangleError := by
    intro p hp
    rw [hrows] at hp
    rcases outcome p.1 p.2 (G.content p hp) with ⟨hok, _⟩ | ⟨herr, _⟩
    · exact Or.inl hok
    · exact Or.inr herr
  have hex : ∃ p ∈ orderedRows t, incRow p.1 p.2 = .error .triangleError := by
    cases hf : t.filter (fun c => rowKey c == kb) with
    | nil => rw [hf] at hkb; exact absurd hkb (fun hm => hm)
    | cons x0 rest =>
      have hx : x0 ∈ t.filter (fun c => rowKey c == kb) := by rw [hf]; simp
      obtain ⟨hx0, hxk⟩ := List.mem_filter.mp hx
      have hxk : rowKey x0 = kb := by simpa using hxk
      obtain ⟨p, hp, hpk⟩ := G.covers x0 hx0
      have hpk : p.1 = kb := hpk.trans hxk
      have hcont := G.content p hp
      refine ⟨p, by rw [hrows]; exact hp, ?_⟩
      rcases outcome p.1 p.2 hcont with ⟨_, hno⟩ | ⟨herr, _⟩
      · rw [hcont, hpk] at hno; exact absurd hkb hno
      · exact herr
  have := mapM_error_of_all (f := fun p : RowKey × List Cell => incRow p.1 p.2) _ hall hex
  simp only [Triangle.toIncremental, hni, Bool.false_eq_true, if_false, overRows, this,
    Except.map, Except.bind]


/-- an incremental triangle in canonical form in which, apart from the key sets, consecutive cells
of every row are compatible -/
structure WFincUpToKeys (u : List Cell) : Prop where
  sorted : u.Pairwise (fun a b => Cell.cmp a b = .lt)
  isInc : ∀ c ∈ u, c.kind = .incremental
  dates : ∀ c ∈ u, c.datesOk = true
  adj : ∀ k, AdjOK (u.filter (fun c => rowKey c == k))

/-- **refusal of inconsistent fields (incremental side)**: if in some row two consecutive cells have
different key sets, `to_cumulative` raises `TriangleError` (whether or not the chain is complete). -/
theorem toCum_error_of_key_mismatch {u : List Cell} (h : WFincUpToKeys u)
    (hb : ∃ k, HasMismatch (u.filter (fun c => rowKey c == k))) :
    Triangle.toCumulative u = .error .triangleError := by
  obtain ⟨kb, hkb⟩ := hb
  have G := groupBy_inv rowKey u
  have hrows := orderedRows_of_strict h.sorted
  have hne : u ≠ [] := by
    intro e; rw [e] at hkb; exact hkb
  have hinc := isIncremental_of_all h.isInc hne
  have outcome : ∀ k r, r = u.filter (fun c => rowKey c == k) →
      ((∃ cs, cumRow k r = .ok cs) ∧ ¬ HasMismatch r) ∨ cumRow k r = .error .triangleError := by
    intro k r hr
    cases r with
    | nil => exact Or.inl ⟨⟨[], rfl⟩, fun hm => hm⟩
    | cons x0 rest =>
      have hsub : (x0 :: rest).Sublist u := by rw [hr]; exact List.filter_sublist
      have hkey : ∀ c ∈ x0 :: rest, rowKey c = k := by
        intro c hc; rw [hr] at hc; simpa using (List.mem_filter.mp hc).2
      have hadj := h.adj k
      rw [← hr] at hadj
      exact cumRow_outcome ⟨hkey, fun c hc => h.dates c (hsub.subset hc)⟩ hadj
  have hall : ∀ p ∈ orderedRows u, (∃ b, cumRow p.1 p.2 = .ok b) ∨
      cumRow p.1 p.2 = .error .triangleError := by
    intro p hp
    rw [hrows] at hp
    rcases outcome p.1 p.2 (G.content p hp) with ⟨hok, _⟩ | herr
    · exact Or.inl hok
    · exact Or.inr herr
  have hex : ∃ p ∈ orderedRows u, cumRow p.1 p.2 = .error .triangleError := by
    cases hf : u.filter (fun c => rowKey c == kb) with
    | nil => rw [hf] at hkb; exact absurd hkb (fun hm => hm)
    | cons x0 rest =>
      have hx : x0 ∈ u.filter (fun c => rowKey c == kb) := by rw [hf]; simp
      obtain ⟨hx0, hxk⟩ := List.mem_filter.mp hx
      have hxk : rowKey x0 = kb := by simpa using hxk
      obtain ⟨p, hp, hpk⟩ := G.covers x0 hx0
      have hpk : p.1 = kb := hpk.trans hxk
      have hcont := G.content p hp
      refine ⟨p, by rw [hrows]; exact hp, ?_⟩
      rcases outcome p.1 p.2 hcont with ⟨_, hno⟩ | herr
      · rw [hcont, hpk] at hno; exact absurd hkb hno
      · exact herr
  have := mapM_error_of_all (f := fun p : RowKey × List Cell => cumRow p.1 p.2) _ hall hex
  simp only [Triangle.toCumulative, hinc, Bool.not_true, Bool.false_eq_true, if_false, overRows, this,
    Except.map, Except.bind]


/-! ### 5. the executable Spec predicate on the model's output -/

-- OPEN toInc_row_spec
-- theorem toInc_row_spec {t : List Cell} (h : WFcum t) (hnd : ∀ c ∈ t, (c.values.map (·.1)).Nodup) :
--     ∃ u, Triangle.toIncremental t = .ok u ∧ Spec.toIncRowSpec t u = true
-- (the Bool predicate of Spec/C04.lean, which finds the predecessor of a cell as the cell of its row
--  with the greatest smaller evaluation date and compares values key by key; evaluated by the driver
--  on every implementation output. Proved so far: `toInc_row_spec_partial` below — the same content
--  stated through the row function of the model.)

/-- **per-row shape of `to_incremental`** (weaker than `toInc_row_spec`: stated through the row
function `incRow` of the model instead of the independent predicate `Spec.toIncRowSpec`).
For a valid cumulative triangle the conversion succeeds, the result is sorted and incremental, and
for every slice and period the cells of the result under that slice and period are exactly the
increments `incRow` computes from the row: one per evaluation date (`ds.map ev = r.map ev`), the
first with `prev = period_start − 1 day` and a copy of the values, every later one with
`prev =` the preceding evaluation date and `values = _values_diff(previous, this)` (definition of
`incRow`/`incPairs`). Missing for the full statement: the bridge from `incRow` to the
lookup-based predicate `Spec.toIncRowSpec` (predecessor = greatest smaller evaluation date). -/
theorem toInc_row_spec_partial {t : List Cell} (h : WFcum t) :
    ∃ u, Triangle.toIncremental t = .ok u ∧ u.Pairwise (fun a b => Cell.le a b) ∧
      (∀ c ∈ u, c.kind = .incremental) ∧ u.length = t.length ∧
      ∀ k r, r ≠ [] → r = t.filter (fun c => rowKey c == k) →
        ∃ ds, incRow k r = .ok ds ∧ u.filter (fun c => rowKey c == k) = ds ∧
          ds.map (·.ev) = r.map (·.ev) := by
  have hrow : ∀ k r, r ≠ [] → r = t.filter (fun c => rowKey c == k) →
      ∃ d, incRow k r = .ok d ∧ (∀ c ∈ d, rowKey c = k) ∧ StrictSorted d ∧
        (∀ c ∈ d, c.kind = .incremental) ∧ d.map (·.ev) = r.map (·.ev) := by
    intro k r hne hr
    have R := h.row hr
    cases r with
    | nil => exact absurd rfl hne
    | cons c0 rest =>
      have hc0t : c0 ∈ t := by
        have : c0 ∈ t.filter (fun c => rowKey c == k) := by rw [← hr]; simp
        exact (List.mem_filter.mp this).1
      have hv : k.1.1.valid = true := by
        have := h.psValid c0 hc0t
        rw [← R.key c0 (by simp)]; exact this
      obtain ⟨ds, h1, _, h3, h4⟩ := incRow_cumRow R hv
      refine ⟨ds, h1, fun c hc => (h4 c hc).2.1, ?_, fun c hc => (h4 c hc).1, h3⟩
      apply strict_of_evs (fun c hc => (h4 c hc).2.1)
      rw [h3, List.pairwise_map]; exact R.evs
  obtain ⟨D, hD, hblocks⟩ := overRows_blocks (f := incRow) h.sorted
    (fun k r hne hr => by
      obtain ⟨d, h1, h2, h3, _⟩ := hrow k r hne hr
      exact ⟨d, h1, h2, h3⟩)
  obtain ⟨u, hu1, hu2⟩ := toCum_toInc h
  have hu : u = D.mergeSort Cell.le ∧ ∀ c ∈ D, c.kind = .incremental := by
    simp only [Triangle.toIncremental, not_isIncremental_of_all h.notInc, Bool.false_eq_true,
      if_false, hD, Except.bind] at hu1
    unfold Triangle.ofCells at hu1
    split at hu1
    · cases hu1
      refine ⟨rfl, ?_⟩
      intro c hc
      -- every cell of D comes out of some row
      unfold overRows at hD
      cases hm : (orderedRows t).mapM (fun p => incRow p.1 p.2) with
      | error e => rw [hm] at hD; cases hD
      | ok rows =>
        rw [hm] at hD
        simp only [Except.map] at hD
        cases hD
        obtain ⟨d, hd, hcd⟩ := List.mem_flatten.mp hc
        -- use the row facts through membership in the mapM result
        have key : ∀ (l : List (RowKey × List Cell)) (rows : List (List Cell)),
            l.mapM (fun p => incRow p.1 p.2) = .ok rows → ∀ d ∈ rows, ∃ p ∈ l, incRow p.1 p.2 = .ok d := by
          intro l
          induction l with
          | nil => intro rows hr d hd; simp [List.mapM_nil, pure, Except.pure] at hr; subst hr; cases hd
          | cons a l ih =>
            intro rows hr d hd
            rw [List.mapM_cons] at hr
            cases ha : incRow a.1 a.2 with
            | error e => rw [ha] at hr; cases hr
            | ok da =>
              cases hl : l.mapM (fun p => incRow p.1 p.2) with
              | error e => rw [ha, hl] at hr; cases hr
              | ok dl =>
                rw [ha, hl] at hr
                simp only [bind, Except.bind, pure, Except.pure] at hr
                cases hr
                rcases List.mem_cons.mp hd with rfl | hd
                · exact ⟨a, by simp, ha⟩
                · obtain ⟨p, hp, hpd⟩ := ih dl hl d hd
                  exact ⟨p, List.mem_cons_of_mem _ hp, hpd⟩
        obtain ⟨p, hp, hpd⟩ := key _ _ hm d hd
        have G := groupBy_inv rowKey t
        rw [orderedRows_of_strict h.sorted] at hp
        have hcont := G.content p hp
        have hne : p.2 ≠ [] := by
          obtain ⟨a, ha, hak⟩ := G.inhabited p hp
          intro e
          have : a ∈ p.2 := by rw [hcont]; exact List.mem_filter.mpr ⟨ha, by simp [hak]⟩
          rw [e] at this; cases this
        obtain ⟨d', h1, _, _, h4, _⟩ := hrow p.1 p.2 hne hcont
        rw [hpd] at h1; cases h1
        exact h4 c hcd
    · cases hu1
  obtain ⟨hu, hDinc⟩ := hu
  have hperm : u.Perm D := by rw [hu]; exact List.mergeSort_perm _ _
  refine ⟨u, hu1, by rw [hu]; exact sorted_mergeSort (cmp := Cell.cmp) D,
    fun c hc => hDinc c (hperm.mem_iff.mp hc), ?_, ?_⟩
  · -- u ~ D and D is a concatenation of rows with the lengths of the rows of t
    have G := groupBy_inv rowKey t
    have hrows := orderedRows_of_strict h.sorted
    have hDeq : ∃ rows, (orderedRows t).mapM (fun p => incRow p.1 p.2) = .ok rows ∧ D = rows.flatten := by
      unfold overRows at hD
      cases hm : (orderedRows t).mapM (fun p => incRow p.1 p.2) with
      | error e => rw [hm] at hD; cases hD
      | ok rows => rw [hm] at hD; simp only [Except.map] at hD; cases hD; exact ⟨rows, rfl, rfl⟩
    obtain ⟨rows, hm, hDr⟩ := hDeq
    have lenkey : ∀ (l : List (RowKey × List Cell)) (rows : List (List Cell)),
        (∀ p ∈ l, ∀ d, incRow p.1 p.2 = .ok d → d.length = p.2.length) →
        l.mapM (fun p => incRow p.1 p.2) = .ok rows → rows.flatten.length = (l.flatMap (·.2)).length := by
      intro l
      induction l with
      | nil => intro rows _ hr; simp [List.mapM_nil, pure, Except.pure] at hr; subst hr; rfl
      | cons a l ih =>
        intro rows hlen hr
        rw [List.mapM_cons] at hr
        cases ha : incRow a.1 a.2 with
        | error e => rw [ha] at hr; cases hr
        | ok da =>
          cases hl : l.mapM (fun p => incRow p.1 p.2) with
          | error e => rw [ha, hl] at hr; cases hr
          | ok dl =>
            rw [ha, hl] at hr
            simp only [bind, Except.bind, pure, Except.pure] at hr
            cases hr
            simp only [List.flatten_cons, List.length_append, List.flatMap_cons]
            rw [hlen a (by simp) da ha, ih dl (fun p hp => hlen p (List.mem_cons_of_mem _ hp)) hl]
    have := lenkey _ rows (by
      intro p hp d hpd
      rw [hrows] at hp
      have hcont := G.content p hp
      have hne : p.2 ≠ [] := by
        obtain ⟨a, ha, hak⟩ := G.inhabited p hp
        intro e
        have : a ∈ p.2 := by rw [hcont]; exact List.mem_filter.mpr ⟨ha, by simp [hak]⟩
        rw [e] at this; cases this
      obtain ⟨d', h1, _, _, _, h5⟩ := hrow p.1 p.2 hne hcont
      rw [hpd] at h1; cases h1
      have := congrArg List.length h5
      simpa using this) hm
    rw [hperm.length_eq, hDr, this, hrows, G.perm.length_eq]
  · intro k r hne hr
    obtain ⟨d, h1, h2⟩ := hblocks k r hne hr
    obtain ⟨d', h1', _, _, _, h5⟩ := hrow k r hne hr
    rw [h1] at h1'; cases h1'
    exact ⟨d, h1, by rw [hu]; exact h2, h5⟩


/-! ### 6. non-vacuity -/

def mA : Metadata := { country := some "DE" }
def mB : Metadata := { country := some "US" }
def d (y m dd : Nat) : Date := ⟨y, m, dd⟩
def arrI (l : List Int) : Val := .arr true [l.length] (l.map (fun (i : Int) => ((i : Int) : Rat)))
def arrF (l : List Rat) : Val := .arr false [l.length] l
def mkC (md : Metadata) (y : Nat) (ev : Date) (paid : List Int) (rep : List Rat) (ep : Rat) : Cell :=
  { kind := .cumulative, ps := d y 1 1, pe := d y 12 31, ev := ev, md := md,
    values := [("paid_loss", arrI paid), ("earned_premium", .flt ep), ("reported_loss", arrF rep)] }

def exT : List Cell :=
  [ mkC mA 2020 (d 2020 12 31) [10, 20] [15, 25.5] 100,
    mkC mA 2020 (d 2022 12 31) [30, 25] [35, 30.25] 100,
    mkC mB 2020 (d 2020 12 31) [1, 2] [1.5, 2] 50,
    mkC mB 2020 (d 2021 12 31) [4, 2] [4.5, 2.5] 50,
    mkC mB 2020 (d 2022 12 31) [9, 3] [9, 3.5] 55,
    mkC mB 2021 (d 2021 12 31) [7, 7] [8, 8] 60 ]


/-- decidable form of `DictCompat` -/
def dictCompatB (a b : Dict Val) : Bool :=
  b.all fun kv => kv.1 == staticField ||
    ((a.getD' kv.1).ty?.isSome && (a.getD' kv.1).ty? == kv.2.ty?)

theorem dictCompat_of_B {a b : Dict Val} (h : dictCompatB a b = true) : DictCompat a b := by
  intro kv hkv hns
  have := List.all_eq_true.mp h kv hkv
  simp only [Bool.or_eq_true, beq_iff_eq, Bool.and_eq_true] at this
  rcases this with e | ⟨h1, h2⟩
  · exact absurd e hns
  · obtain ⟨τ, hτ⟩ := Option.isSome_iff_exists.mp h1
    exact ⟨τ, hτ, by rw [← h2, hτ]⟩

/-- non-vacuity: a ragged two-slice triangle (slice DE skips the 2021 evaluation, slice US has a
second, shorter period) with int64-array, float64-array and float (`earned_premium`, varying in one
row) values satisfies `WFcum` -/
theorem exT_wf : WFcum exT where
  sorted := by decide +kernel
  notInc := by decide +kernel
  dates := by decide +kernel
  psValid := by decide +kernel
  keys := by decide +kernel
  types := by
    have : ∀ a ∈ exT, ∀ b ∈ exT, rowKey a = rowKey b → dictCompatB a.values b.values = true := by
      decide +kernel
    exact fun a ha b hb e => dictCompat_of_B (this a ha b hb e)

/-- hence the round trip theorem applies to it -/
example : ∃ u, Triangle.toIncremental exT = .ok u ∧
    Triangle.toCumulative u = .ok (Spec.asCumulative exT) := toCum_toInc exT_wf



def chainFromB : Date → List Cell → Bool
  | _, [] => true
  | d, c :: rest => c.prev == some d && chainFromB c.ev rest

theorem chainFrom_of_B : ∀ {d : Date} {l : List Cell}, chainFromB d l = true → ChainFrom d l
  | _, [], _ => trivial
  | d, c :: rest, h => by
    simp only [chainFromB, Bool.and_eq_true, beq_iff_eq] at h
    exact ⟨h.1, chainFrom_of_B h.2⟩

def rowChainB (u : List Cell) (k : RowKey) : Bool :=
  match u.filter (fun c => rowKey c == k) with
  | [] => true
  | x0 :: rest => x0.prev == some k.1.1.pred && chainFromB x0.ev rest

theorem rowChain_of_B {u : List Cell} (h : ∀ c ∈ u, rowChainB u (rowKey c) = true) (k : RowKey) :
    RowChain u k := by
  unfold RowChain
  cases hf : u.filter (fun c => rowKey c == k) with
  | nil => trivial
  | cons x0 rest =>
    have hx : x0 ∈ u.filter (fun c => rowKey c == k) := by rw [hf]; simp
    obtain ⟨hxu, hxk⟩ := List.mem_filter.mp hx
    have hxk : rowKey x0 = k := by simpa using hxk
    have := h x0 hxu
    rw [hxk] at this
    unfold rowChainB at this
    rw [hf] at this
    simp only [Bool.and_eq_true, beq_iff_eq] at this
    exact ⟨this.1, chainFrom_of_B this.2⟩

def mkI (md : Metadata) (y : Nat) (prev ev : Date) (paid : List Int) (ep : Rat) : Cell :=
  { kind := .incremental, ps := d y 1 1, pe := d y 12 31, prev := some prev, ev := ev, md := md,
    values := [("earned_premium", .flt ep), ("paid_loss", arrI paid)] }

/-- a complete incremental triangle: slice DE with a two-year first step, slice US with two periods -/
def exU : List Cell :=
  [ mkI mA 2020 (d 2019 12 31) (d 2020 12 31) [10, 20] 100,
    mkI mA 2020 (d 2020 12 31) (d 2022 12 31) [20, 5] 100,
    mkI mB 2020 (d 2019 12 31) (d 2020 12 31) [1, 2] 50,
    mkI mB 2020 (d 2020 12 31) (d 2021 12 31) [3, 0] 50,
    mkI mB 2020 (d 2021 12 31) (d 2022 12 31) [5, 1] 55,
    mkI mB 2021 (d 2020 12 31) (d 2021 12 31) [7, 7] 60 ]

theorem exU_complete : Complete exU := by
  refine ⟨⟨by decide +kernel, by decide +kernel, by decide +kernel, by decide +kernel,
    by decide +kernel, ?_⟩, rowChain_of_B (by decide +kernel)⟩
  have : ∀ a ∈ exU, ∀ b ∈ exU, rowKey a = rowKey b → dictCompatB a.values b.values = true := by
    decide +kernel
  exact fun a ha b hb e => dictCompat_of_B (this a ha b hb e)

example : ∃ t, Triangle.toCumulative exU = .ok t ∧ Triangle.toIncremental t = .ok exU :=
  toInc_toCum exU_complete



theorem chainFromB_of : ∀ {d : Date} {l : List Cell}, ChainFrom d l → chainFromB d l = true
  | _, [], _ => rfl
  | d, c :: rest, h => by
    simp only [chainFromB, Bool.and_eq_true, beq_iff_eq]
    exact ⟨h.1, chainFromB_of h.2⟩

theorem not_rowChain_of_B {u : List Cell} {k : RowKey} (h : rowChainB u k = false) : ¬ RowChain u k := by
  intro hc
  unfold RowChain at hc
  unfold rowChainB at h
  cases hf : u.filter (fun c => rowKey c == k) with
  | nil => rw [hf] at h; cases h
  | cons x0 rest =>
    rw [hf] at h hc
    have : (x0.prev == some k.1.1.pred && chainFromB x0.ev rest) = true := by
      simp only [Bool.and_eq_true, beq_iff_eq]
      exact ⟨hc.1, chainFromB_of hc.2⟩
    simp only at h
    rw [this] at h; cases h

/-- `exU` with one link removed (the 2021 evaluation of slice US, period 2020) -/
def exUbroken : List Cell := exU.eraseIdx 3

/-- non-vacuity of `toCum_error_of_broken_chain`: the triangle with one link removed is still
consistent, but the row it was taken from is no longer a complete chain — it is refused -/
example : Triangle.toCumulative exUbroken = .error .triangleError := by
  refine toCum_error_of_broken_chain ⟨by decide +kernel, by decide +kernel, by decide +kernel,
    by decide +kernel, by decide +kernel, ?_⟩ (by decide +kernel)
    ⟨((d 2020 1 1, d 2020 12 31), mB), not_rowChain_of_B (by decide +kernel)⟩
  have : ∀ a ∈ exUbroken, ∀ b ∈ exUbroken, rowKey a = rowKey b →
      dictCompatB a.values b.values = true := by decide +kernel
  exact fun a ha b hb e => dictCompat_of_B (this a ha b hb e)


end Bermuda.Properties.C04
