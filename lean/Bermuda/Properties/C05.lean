/-
C05 — Binary (.trib/.tribc) write-then-read returns the identical triangle.
Only property theorems live here (helper lemmas: `Lemmas/Codec.lean`, `Lemmas/CodecDict.lean`).

`WF t` (= `Codec.wf t = true`, executable: the driver evaluates it on every generated triangle) is the
documented domain of the format: strings < 32768 UTF-8 bytes (written `<H`, read `<h`), padded
pool < 32768 entries (written `<h`, read `<H`), ints in int64, floats 8 bytes, array dims < 2^32,
ndim < 256, payload = 8·∏dims bytes, years 1..9999 and valid dates, limit not NaN (NaN is the
encoding of `None`), unique keys per dict, the constructor's date rules, cell values not str/date.
-/
import Bermuda.Lemmas.CodecPy
import Bermuda.Lemmas.CodecTriangle
namespace Bermuda.Properties.C05
open Bermuda Bermuda.Codec

/-- the documented domain of the format -/
def WF (t : RawTriangle) : Prop := wf t = true

/-! ### 1. `read (write x ++ rest) = ok (x, rest)` per syntactic class -/

theorem read_write_date (d : Date) (h : dateOk d = true) (rest : Bytes) :
    readDate (writeDate d ++ rest) = .ok (d, rest) := readDate_writeDate d h rest

/-- strings and `None` (length −1) -/
theorem read_write_optString (s : Option Bytes) (h : optStrOk s = true) (rest : Bytes) :
    readStr (writeStr s ++ rest) = .ok (s, rest) := readStr_writeStr s h rest

/-- `per_occurrence_limit`: `None` travels as NaN -/
theorem read_write_limit (l : Option Bytes) (h : limitOk l = true) (rest : Bytes) :
    readLimit (writeLimit l ++ rest) = .ok (l, rest) := readLimit_writeLimit l h rest

theorem read_write_array (dims : List Nat) (p : Bytes) (h : arrOk dims p = true) (rest : Bytes) :
    readArrBody (writeArrBody dims p ++ rest) = .ok ((dims, p), rest) :=
  readArrBody_writeArrBody dims p h rest

/-- every value kind keeps its kind and its bits: int stays int, float stays float (same 8 bytes),
bool stays bool, None stays None, arrays keep dtype, shape and bytes -/
theorem read_write_value (v : RawVal) (h : valOk v = true) (rest : Bytes) :
    readVal (writeVal v ++ rest) = .ok (v, rest) := readVal_writeVal v h rest

/-- **the placeholder lemma (D6)**: with the padded pool every key used in the triangle has a pool
index whose low byte is not the `DICT_END` byte (so `_read_dict`'s one-byte peek never mistakes a
key index for the end of the dictionary), and the pool holds the key at that index. -/
theorem pool_index_never_dict_end (t : RawTriangle) (k : Bytes) (hk : k ∈ allKeys t) :
    ∃ j, poolLookup (poolOf t) k = some j ∧ j % 256 ≠ 0x88 ∧ (poolOf t)[j]? = some k := by
  obtain ⟨j, h1, h2, h3⟩ := poolOf_lookup t k hk
  exact ⟨j, h1, by rw [dictEnd_toNat] at h2; exact h2, h3⟩

theorem read_write_dict (pool : List Bytes) (hp : pool.length ≤ 65536) (d : RawDict)
    (hd : dictOk d = true) (hk : KeysIn pool d) (rest : Bytes) :
    readDict (pool.map some) (writeDict pool d ++ rest) = .ok (d, rest) :=
  readDict_writeDict' pool hp d hd hk rest

theorem read_write_metadata (pool : List Bytes) (hp : pool.length ≤ 65536) (m : RawMetadata)
    (hm : metaOk m = true) (hk1 : KeysIn pool m.details) (hk2 : KeysIn pool m.lossDetails)
    (rest : Bytes) :
    readMetaBody (pool.map some) (writeMetaBody pool m ++ rest) = .ok (m, rest) :=
  readMetaBody_writeMetaBody pool hp m hm hk1 hk2 rest

/-- cell class, the three dates, `prev_evaluation_date` for incremental cells, values -/
theorem read_write_cell (pool : List Bytes) (hp : pool.length ≤ 65536) (c : RawCell)
    (hc : cellOk c = true) (hk : KeysIn pool c.values) (rest : Bytes) :
    readCellBody (pool.map some) c.kind c.md (writeCellBody pool c ++ rest) = .ok (c, rest) :=
  readCellBody_writeCellBody pool hp c hc hk rest

theorem read_write_pool (pool : List Bytes) (hlen : pool.length < 32768)
    (h : ∀ s ∈ pool, strOk s = true) (rest : Bytes) :
    readPool (writePool pool ++ rest) = .ok (pool.map some, rest) :=
  readPool_writePool pool hlen h rest

/-- the record loop: metadata written only on change is re-attached to every cell -/
theorem read_write_records (pool : List Bytes) (hp : pool.length ≤ 65536)
    (cells : List RawCell) (hc : ∀ c ∈ cells, cellOk c = true ∧ CellIn pool c)
    (prev : Option RawMetadata) (fuel : Nat) (hf : (writeRecords pool prev cells).length < fuel) :
    readRecords (pool.map some) fuel prev (writeRecords pool prev cells) = .ok cells :=
  readRecords_writeRecords pool hp cells hc prev fuel hf

/-! ### 2. the round trip -/

/-- **C05.** Writing any triangle inside the documented limits and reading it back returns the
identical triangle: same cell classes, dates, every metadata attribute, details and loss_details
entries, field names (in insertion order), values with their kind and bits, arrays with dtype,
shape and bytes. Unconditional in the number of distinct keys (up to the pool limit). -/
theorem decode_encode (t : RawTriangle) (h : WF t) : decode (encode t) = .ok t :=
  decode_encode_main t h

/-- the same for the writer as it really decides (a metadata record when Python's `!=` says so):
on coherent triangles — adjacent metadata are Python-equal exactly when they are identical — it
writes the bytes of `encode`. (Outside: a run of `==`-equal metadata in different representations is
one slice for the library and comes back in the representation of the run's first cell.) -/
theorem decode_encodePy (t : RawTriangle) (h : WF t) (hc : coherent t = true) :
    decode (encodePy t) = .ok t := by
  rw [encodePy_eq_encode t hc]; exact decode_encode t h

/-- **the writer as written on EVERY triangle of the domain** (no `coherent`): what comes back is `firstRepr t` —
every cell with its own class, dates and values, and with the metadata representation of the FIRST cell of its run
of Python-equal metadata (`1` vs `1.0` vs `True`, `0.0` vs `-0.0`, another insertion order of a detail dict are one
slice for the library and share one metadata record). This characterises the region the words "writing any
triangle" do not hold for literally; it is the read-back oracle of the harness stream `md-repr`. -/
theorem decode_encodePy_firstRepr (t : RawTriangle) (h : WF t) : decode (encodePy t) = .ok (firstRepr t) :=
  Codec.decode_encodePy_firstRepr t h

/-- on coherent triangles `firstRepr` is the identity (so `decode_encodePy` is an instance of the theorem above) -/
theorem firstRepr_of_coherent (t : RawTriangle) (hc : coherent t = true) : firstRepr t = t :=
  Codec.firstRepr_of_coherent t hc

/-! ### 2b. … up to and including the final `Triangle(cells)` of `_read_triangle`

`Fn.fromBinary s = (decode s).bind fun raw => (raw.mapM cellOfRaw).bind Triangle.ofCells` (Model/AllOps3.lean) is the
whole of `Triangle.from_binary` on the shared numeric cell type: the decoded records are seen as cells (`cellOfRaw`:
exact value of every IEEE double, UTF-8 decoded) and handed to the constructor (class check + stable sort, C01).
`cells` is that view of the triangle that was written; `Canonical cells` (sorted, one cell class, constructor date
rules) is what every `Triangle` object satisfies (`C01.ofCells_canonical`). -/

/-- **C05 for the function `from_binary` as a whole**: the constructor at the end neither raises nor reorders -/
theorem fromBinary_encode (t : RawTriangle) (h : WF t) {cells : List Cell}
    (hv : t.mapM Fn.cellOfRaw = .ok cells) (hc : Properties.C01.Canonical cells) :
    Fn.fromBinary (encode t) = .ok cells := by
  unfold Fn.fromBinary
  rw [decode_encode t h]
  simp only [bind, Except.bind, hv, Properties.C01.ofCells_idem hc]

/-- the same for the writer as written, on every triangle of the domain: `from_binary(to_binary(t))` is the view
of `firstRepr t` -/
theorem fromBinary_encodePy (t : RawTriangle) (h : WF t) {cells : List Cell}
    (hv : (firstRepr t).mapM Fn.cellOfRaw = .ok cells) (hc : Properties.C01.Canonical cells) :
    Fn.fromBinary (encodePy t) = .ok cells := by
  unfold Fn.fromBinary
  rw [decode_encodePy_firstRepr t h]
  simp only [bind, Except.bind, hv, Properties.C01.ofCells_idem hc]

/-- a sufficient condition for `WF` that mentions no sorting: all cells fine and at most 16383
key occurrences -/
theorem wf_of_cells (t : RawTriangle) (hc : t.all cellOk = true) (hk : 2 * (allKeys t).length < 32768) :
    WF t := wf_of_cells_keys t hc hk

/-- the empty triangle: header and an empty pool -/
theorem decode_encode_empty : decode (encode []) = .ok [] :=
  decode_encode [] (wf_of_cells [] (by decide) (by decide))

/-! ### 3. the Spec predicate the driver runs on the implementation's output -/

theorem spec_roundTrip (t : RawTriangle) (h : WF t) :
    ∃ r, decode (encode t) = .ok r ∧ Spec.C05.roundTrip t r = true :=
  ⟨t, decode_encode t h, roundTrip_self t (wf_parts h).1⟩

/-! ### 4. compression and the extension / flag decision table -/

/-- with and without compression, explicit and extension-inferred: whenever the flavour the reader
settles on is the flavour that was written, the triangle comes back. gzip is a parameter. -/
theorem roundtrip_compressed (gzip : Bytes → Bytes) (gunzip : Bytes → Except Err Bytes)
    (hg : ∀ b, gunzip (gzip b) = .ok b) (t : RawTriangle) (h : WF t)
    (ext : Ext) (flag : Option Bool) (c : Bool) (hi : inferCompress ext flag = .ok c) :
    decodeFile gunzip ext flag (encodeFile gzip c t) = .ok t := by
  unfold decodeFile encodeFile
  rw [hi]
  cases c
  · simp [decode_encode t h]
  · simp [hg, decode_encode t h]

/-- the file as `to_binary` really writes it (`_write_triangle` decides on a metadata record with Python's `!=`) -/
def encodeFilePy (gzip : Bytes → Bytes) (compress : Bool) (t : RawTriangle) : Bytes :=
  if compress then gzip (encodePy t) else encodePy t

/-- `roundtrip_compressed` for the writer as written (coherent triangles) -/
theorem roundtrip_compressed_py (gzip : Bytes → Bytes) (gunzip : Bytes → Except Err Bytes)
    (hg : ∀ b, gunzip (gzip b) = .ok b) (t : RawTriangle) (h : WF t) (hc : coherent t = true)
    (ext : Ext) (flag : Option Bool) (c : Bool) (hi : inferCompress ext flag = .ok c) :
    decodeFile gunzip ext flag (encodeFilePy gzip c t) = .ok t := by
  have := roundtrip_compressed gzip gunzip hg t h ext flag c hi
  simpa [encodeFilePy, encodeFile, encodePy_eq_encode t hc] using this

/-- `binary_to_triangle`'s decision table: an explicit `True` wins; `None` AND an explicit `False`
are re-inferred from the extension; any other extension is refused -/
theorem inferCompress_spec :
    (∀ e, inferCompress e (some true) = .ok true) ∧
    (∀ f, f ≠ some true → inferCompress .trib f = .ok false) ∧
    (∀ f, f ≠ some true → inferCompress .tribc f = .ok true) ∧
    (∀ f, f ≠ some true → inferCompress .other f = .error .valueError) := by
  refine ⟨fun e => rfl, ?_, ?_, ?_⟩ <;>
  · intro f hf
    match f, hf with
    | none, _ => rfl
    | some false, _ => rfl
    | some true, hf => exact absurd rfl hf

/-! ### 5. non-vacuity: a 2-slice incremental triangle with all eight value kinds, a non-ASCII
string, a `None` string, a 2-d array and a limit -/

example : decode (encode exTriangle) = .ok exTriangle := decode_encode _ Codec.exTriangle_wf

/-- the witness is coherent, so the theorem about the writer as written applies to it too -/
theorem exTriangle_coherent : coherent exTriangle = true := by decide +kernel

example : decode (encodePy exTriangle) = .ok exTriangle :=
  decode_encodePy _ Codec.exTriangle_wf exTriangle_coherent

/-- a NON-coherent triangle: two cells of one slice whose details are `{"a": 1}` and `{"a": 1.0}` -/
def exNonCoherent : RawTriangle :=
  [ { kind := .cumulative, ps := ⟨2020, 1, 1⟩, pe := ⟨2020, 12, 31⟩, ev := ⟨2020, 12, 31⟩, prev := none,
      md := { riskBasis := some [65], country := none, currency := none, reinsuranceBasis := none,
              lossDefinition := none, limit := none, details := [([97], .int 1)], lossDetails := [] },
      values := [([112], .int 5)] },
    { kind := .cumulative, ps := ⟨2021, 1, 1⟩, pe := ⟨2021, 12, 31⟩, ev := ⟨2021, 12, 31⟩, prev := none,
      md := { riskBasis := some [65], country := none, currency := none, reinsuranceBasis := none,
              lossDefinition := none, limit := none, details := [([97], .flt [0, 0, 0, 0, 0, 0, 240, 63])],
              lossDetails := [] },
      values := [([112], .int 6)] } ]

/-- it is in the domain, not coherent, and reads back with `1` in BOTH cells — not as written -/
example : decode (encodePy exNonCoherent) = .ok (firstRepr exNonCoherent) ∧ coherent exNonCoherent = false ∧
    firstRepr exNonCoherent ≠ exNonCoherent ∧
    (firstRepr exNonCoherent).map (·.md.details) = [[([97], .int 1)], [([97], .int 1)]] :=
  ⟨decode_encodePy_firstRepr _ (wf_of_cells _ (by decide +kernel) (by decide +kernel)), by decide +kernel,
   by decide +kernel, by decide +kernel⟩

/-- non-vacuity of `fromBinary_encodePy`: the numeric view of what comes back for `exNonCoherent` — both cells with
`details = {"a": 1}` — is a canonical triangle, and it IS what `from_binary(to_binary(t))` returns -/
def exNonCoherentBack : List Cell :=
  [ { kind := .cumulative, ps := ⟨2020, 1, 1⟩, pe := ⟨2020, 12, 31⟩, ev := ⟨2020, 12, 31⟩, prev := none,
      md := { riskBasis := some "A", details := [("a", .num 1)] }, values := [("p", .int 5)] },
    { kind := .cumulative, ps := ⟨2021, 1, 1⟩, pe := ⟨2021, 12, 31⟩, ev := ⟨2021, 12, 31⟩, prev := none,
      md := { riskBasis := some "A", details := [("a", .num 1)] }, values := [("p", .int 6)] } ]

example : Fn.fromBinary (encodePy exNonCoherent) = .ok exNonCoherentBack :=
  fromBinary_encodePy _ (wf_of_cells _ (by decide +kernel) (by decide +kernel)) (of_okIs (by decide +kernel))
    ⟨by decide +kernel, by decide +kernel, by decide +kernel⟩

end Bermuda.Properties.C05
