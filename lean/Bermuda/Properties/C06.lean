/-
C06 — The .trib byte layout is the documented v1 format and stays readable.
Only property theorems live here. `Codec.encode` is the independent encoder written from the layout
comment of `binary_output.py`; every constant it uses comes from `Bermuda.Generated.Binary`, which
is regenerated from `/repo` on every run — a change made symmetrically to writer and reader
(tag values, magic, version, a `struct` format) is invisible to any round trip but changes the
generated tables and breaks `encode_layout_v1` / `encode_formats_v1` below. The format table
(`Generated.BinaryFormats`) is OBSERVED at run time, so a refactoring that writes the same bytes
through the same formats (precompiled Structs, helpers, renamed functions) leaves it unchanged.
-/
import Bermuda.Lemmas.CodecPy
import Bermuda.Lemmas.CodecLiteral
import Bermuda.Lemmas.CodecGolden
import Bermuda.Properties.C01
import Bermuda.Generated.BinaryFormats
namespace Bermuda.Properties.C06
open Bermuda Bermuda.Codec
open Bermuda.Generated.Binary

/-! ### 1. the constants and field formats are the literal v1 ones -/

/-- magic `0x0136AF` as `<L`, version 1, type tags `0x80..0x88`, record tags `0x10..0x13` -/
theorem encode_layout_v1 :
    Generated.Binary.ok = true ∧
    magicBytes = [0xAF, 0x36, 0x01, 0x00] ∧ versionBytes = [0x01] ∧
    stringBytes = [0x80] ∧ intBytes = [0x81] ∧ floatBytes = [0x82] ∧ boolBytes = [0x83] ∧
    noneBytes = [0x84] ∧ dateBytes = [0x85] ∧ int_arrayBytes = [0x86] ∧ float_arrayBytes = [0x87] ∧
    dict_endBytes = [0x88] ∧
    metadataBytes = [0x10] ∧ cellBytes = [0x11] ∧ cumulative_cellBytes = [0x12] ∧
    incremental_cellBytes = [0x13] := by
  decide

/-- The `struct` formats the writer and the reader ACTUALLY USE — observed dynamically by
`harness/translate_c06.py` (a recording proxy in place of the `struct` module while probe triangles
covering every value kind, cell class and metadata form are written and read; independent of how
the source spells the calls: `struct.pack(fmt, …)`, precompiled `Struct(fmt).pack`, helper
functions, renamed private functions) — are the little-endian fixed-width v1 ones: `<h`/`<H`
two-byte lengths and indexes, `<hBB` dates, `<q` ints, `<d` floats, `<B` ndim, `<L` dims, `?` bools;
and per probe: an empty file needs only the pool count (written `<h`, read `<H`), ints bring `<q`,
bools `?`, arrays `<B` and `<L` (a 0-d array no `<L`), dates and strings nothing new. A width,
signedness or endianness change on either side — also one made symmetrically — changes this table. -/
theorem encode_formats_v1 :
    Generated.BinaryFormats.ok = true ∧
    Generated.BinaryFormats.writerFormatSet = ["<B", "<H", "<L", "<d", "<h", "<hBB", "<q", "?"] ∧
    Generated.BinaryFormats.readerFormatSet = ["<B", "<H", "<L", "<d", "<h", "<hBB", "<q", "?"] ∧
    Generated.BinaryFormats.probeFormats =
      [("empty triangle", ["<h"], ["<H"]),
       ("cell without values", ["<H", "<d", "<h", "<hBB"], ["<H", "<d", "<h", "<hBB"]),
       ("int value", ["<H", "<d", "<h", "<hBB", "<q"], ["<H", "<d", "<h", "<hBB", "<q"]),
       ("large int value", ["<H", "<d", "<h", "<hBB", "<q"], ["<H", "<d", "<h", "<hBB", "<q"]),
       ("negative int value", ["<H", "<d", "<h", "<hBB", "<q"], ["<H", "<d", "<h", "<hBB", "<q"]),
       ("float value", ["<H", "<d", "<h", "<hBB"], ["<H", "<d", "<h", "<hBB"]),
       ("bool value", ["<H", "<d", "<h", "<hBB", "?"], ["<H", "<d", "<h", "<hBB", "?"]),
       ("None value", ["<H", "<d", "<h", "<hBB"], ["<H", "<d", "<h", "<hBB"]),
       ("int64 array", ["<B", "<H", "<L", "<d", "<h", "<hBB"], ["<B", "<H", "<L", "<d", "<h", "<hBB"]),
       ("float64 array", ["<B", "<H", "<L", "<d", "<h", "<hBB"], ["<B", "<H", "<L", "<d", "<h", "<hBB"]),
       ("0-d array", ["<B", "<H", "<d", "<h", "<hBB"], ["<B", "<H", "<d", "<h", "<hBB"]),
       ("CumulativeCell", ["<H", "<d", "<h", "<hBB", "<q"], ["<H", "<d", "<h", "<hBB", "<q"]),
       ("IncrementalCell", ["<H", "<d", "<h", "<hBB", "<q"], ["<H", "<d", "<h", "<hBB", "<q"]),
       ("metadata strings, None strings and limit", ["<H", "<d", "<h", "<hBB", "<q"],
        ["<H", "<d", "<h", "<hBB", "<q"]),
       ("details of every kind", ["<H", "<d", "<h", "<hBB", "<q", "?"], ["<H", "<d", "<h", "<hBB", "<q", "?"]),
       ("two slices", ["<H", "<d", "<h", "<hBB", "<q"], ["<H", "<d", "<h", "<hBB", "<q"])] := by
  decide

/-- the model's constants are those bytes -/
theorem model_constants_v1 :
    K.magic = [0xAF, 0x36, 0x01, 0x00] ∧ K.version = [0x01] ∧
    K.tString = 0x80 ∧ K.tInt = 0x81 ∧ K.tFloat = 0x82 ∧ K.tBool = 0x83 ∧ K.tNone = 0x84 ∧
    K.tDate = 0x85 ∧ K.tIntArr = 0x86 ∧ K.tFltArr = 0x87 ∧ K.tDictEnd = 0x88 ∧
    K.tMetadata = 0x10 ∧ K.tCell = 0x11 ∧ K.tCumulative = 0x12 ∧ K.tIncremental = 0x13 := by
  decide

theorem tags_distinct :
    [K.tString, K.tInt, K.tFloat, K.tBool, K.tNone, K.tDate, K.tIntArr, K.tFltArr, K.tDictEnd,
     K.tMetadata, K.tCell, K.tCumulative, K.tIncremental].Nodup := by
  decide

theorem dictEnd_not_value_tag :
    K.tDictEnd ∉ [K.tString, K.tInt, K.tFloat, K.tBool, K.tNone, K.tDate, K.tIntArr, K.tFltArr] := by
  decide

/-! ### 2. the bytes of a file: header, pool, records; little-endian fixed-width fields -/

/-- every file starts with `AF 36 01 00 01` -/
theorem encode_header (t : RawTriangle) : (encode t).take 5 = [0xAF, 0x36, 0x01, 0x00, 0x01] := by
  have hm : K.magic = [175, 54, 1, 0] := by decide
  have hv : K.version = [1] := by decide
  simp [encode, hm, hv]

/-- after the header: the `<h` pool count, the pool strings (`<H` length + UTF-8 bytes) in pool
order, then the records -/
theorem encode_structure (t : RawTriangle) :
    encode t = [0xAF, 0x36, 0x01, 0x00, 0x01] ++ intLE 2 (poolOf t).length ++
      (poolOf t).flatMap (fun s => natLE 2 s.length ++ s) ++ writeRecords (poolOf t) none t := by
  have hm : K.magic = [175, 54, 1, 0] := by decide
  have hv : K.version = [1] := by decide
  simp [encode, hm, hv, writePool, writeStr]

/-- the string pool is sorted: strictly ascending in UTF-8 byte order (= code point order), with an
unused empty placeholder before every key that would land on an index whose low byte is `0x88` -/
theorem pool_sorted (t : RawTriangle) :
    (sortedKeys t).Pairwise (fun a b => bytesLe a b = true ∧ a ≠ b) ∧
    poolOf t = padPool (sortedKeys t) 0 ∧
    (∀ k ks n, padPool (k :: ks) n =
      if n % 256 = 0x88 then [] :: k :: padPool ks (n + 2) else k :: padPool ks (n + 1)) := by
  refine ⟨sortedKeys_sorted t, rfl, ?_⟩
  intro k ks n
  have hd : K.tDictEnd.toNat = 0x88 := by decide
  simp [padPool, hd]

/-- field widths: dates 4 bytes, ints and floats 8 bytes after the tag byte, dims 4 bytes each -/
theorem field_widths (d : Date) (i : Int) (n : Nat) :
    (writeDate d).length = 4 ∧ (writeVal (.int i)).length = 9 ∧ (natLE 4 n).length = 4 ∧
    (writeVal (.date d)).length = 5 ∧ (writeVal .none).length = 1 ∧
    (∀ b, (writeVal (.bool b)).length = 2) := by
  refine ⟨writeDate_length d, ?_, natLE_length 4 n, ?_, rfl, fun b => rfl⟩
  · simp [writeVal, intLE, natLE_length]
  · simp [writeVal, writeDate_length]

/-- little-endian: the low byte comes first -/
theorem little_endian (n : Nat) :
    natLE 2 n = [UInt8.ofNat (n % 256), UInt8.ofNat (n / 256 % 256)] := rfl

/-- a metadata record (`0x10`) is written only when the metadata differs from the previous cell's -/
theorem metadata_record_only_on_change (pool : List Bytes) (c : RawCell) (cs : List RawCell) :
    writeRecords pool (some c.md) (c :: cs) =
      (kindTag c.kind :: writeCellBody pool c) ++ writeRecords pool (some c.md) cs ∧
    (∀ prev, prev ≠ some c.md → writeRecords pool prev (c :: cs) =
      (0x10 :: writeMetaBody pool c.md) ++
        ((kindTag c.kind :: writeCellBody pool c) ++ writeRecords pool (some c.md) cs)) := by
  have hm : K.tMetadata = 0x10 := by decide
  constructor
  · simp [writeRecords]
  · intro prev hp
    simp [writeRecords, hp, hm]

/-- the same clause for the writer as it really decides (`prev_metadata != cell.metadata`, Python's
`Metadata.__eq__`: details compared as dicts, numbers by value): cells whose Metadata objects are `==`
— even when their details were filled in another key order or hold `1` vs `1.0` — share ONE record,
which carries the representation of the first cell of the run -/
theorem metadata_record_only_on_python_change (pool : List Bytes) (prev : Option RawMetadata)
    (c : RawCell) (cs : List RawCell) :
    (pyChanged prev c.md = false → writeRecordsPy pool prev (c :: cs) =
      (kindTag c.kind :: writeCellBody pool c) ++ writeRecordsPy pool (some c.md) cs) ∧
    (pyChanged prev c.md = true → writeRecordsPy pool prev (c :: cs) =
      (0x10 :: writeMetaBody pool c.md) ++
        ((kindTag c.kind :: writeCellBody pool c) ++ writeRecordsPy pool (some c.md) cs)) := by
  have hm : K.tMetadata = 0x10 := by decide
  constructor <;> intro h <;> simp [writeRecordsPy_cons, h, hm]

/-- the file holds exactly one `0x10` record per metadata change along the cell sequence: the
Spec predicate the driver runs on the IMPLEMENTATION's bytes holds for the model's bytes -/
theorem records_on_change (t : RawTriangle) (h : wf t = true) :
    fileMetaRecords (encodePy t) = .ok (metaChanges none t) ∧
    Spec.C06.recordsOnChange t (encodePy t) = true :=
  ⟨fileMetaRecords_encodePy t h, recordsOnChange_encodePy t h⟩

/-- on coherent triangles (adjacent metadata Python-equal exactly when identical — the domain of
the round-trip theorems) the writer-as-written produces the bytes of `encode` -/
theorem encodePy_eq_encode_of_coherent (t : RawTriangle) (h : coherent t = true) :
    encodePy t = encode t := encodePy_eq_encode t h

/-- Python's equality sees through the representation: `1 == 1.0 == True`, `0.0 == -0.0`, dict order -/
example : pyValEq (.int 1) (.flt [0, 0, 0, 0, 0, 0, 240, 63]) = true ∧ pyValEq (.bool true) (.int 1) = true ∧
    pyValEq (.flt [0, 0, 0, 0, 0, 0, 0, 0]) (.flt [0, 0, 0, 0, 0, 0, 0, 128]) = true ∧
    pyValEq (.int 1) (.str [49]) = false ∧
    pyDictEq [([97], .int 1), ([98], .none)] [([98], .none), ([97], .flt [0, 0, 0, 0, 0, 0, 240, 63])] = true := by
  decide +kernel

/-- the first cell always carries its metadata record -/
theorem first_cell_has_metadata (pool : List Bytes) (c : RawCell) (cs : List RawCell) :
    (writeRecords pool none (c :: cs)).head? = some 0x10 := by
  have hm : K.tMetadata = 0x10 := by decide
  simp [writeRecords, hm]

/-! ### 3. an independent decoder recovers the triangle; an independently encoded file is read back -/

/-- the model's encoder (layout comment) and the model's decoder (mirror of `binary_input.py`) are
inverse on the documented domain: together with the byte-exact correspondence `to_binary bytes =
encode` / `from_binary = decode` this is the both-directions clause of C06 -/
theorem independent_codec_agrees (t : RawTriangle) (h : wf t = true) : decode (encode t) = .ok t :=
  decode_encode_main t h

/-! ### 4. identical bytes regardless of the order in which the cells were supplied -/

/-- The file is a function of the cell sequence, and the sequence does not depend on the order in
which the cells were handed to `Triangle(...)` (C01). `view` is the bit-level view of a cell
(which float bit pattern, which dict insertion order each cell carries). -/
theorem encode_perm_invariant (view : Cell → RawCell) {l₁ l₂ : List Cell} (hp : l₁.Perm l₂)
    (hdup : ∀ a b, a ∈ l₁ → b ∈ l₁ → Cell.cmp a b = .eq → a = b) :
    (Triangle.ofCells l₁).map (fun t => encode (t.map view)) =
    (Triangle.ofCells l₂).map (fun t => encode (t.map view)) := by
  rw [Bermuda.Properties.C01.ofCells_perm_invariant hp hdup]

/-! ### 5. no magic number / another version ⇒ rejected -/

theorem decode_bad_magic_error (s : Bytes) (h : s.take 4 ≠ [0xAF, 0x36, 0x01, 0x00]) :
    decode s = .error .valueError := by
  have hm : K.magic = [175, 54, 1, 0] := by decide
  simp [decode, hm, h]

theorem decode_bad_version_error (s : Bytes) (h : (s.drop 4).take 1 ≠ [0x01]) :
    decode s = .error .valueError := by
  have hv : K.version = [1] := by decide
  unfold decode
  split
  · rfl
  · simp [hv, h]

/-- in particular a file shorter than the header, a file starting with other bytes, version 0 or 2 -/
example : decode [] = .error .valueError := decode_bad_magic_error _ (by decide)
example : decode [0x00, 0x01, 0x36, 0xAF, 0x01] = .error .valueError := decode_bad_magic_error _ (by decide)
example : decode [0xAF, 0x36, 0x01, 0x00, 0x02, 0, 0] = .error .valueError := decode_bad_version_error _ (by decide)
example : decode [0xAF, 0x36, 0x01, 0x00] = .error .valueError := decode_bad_version_error _ (by decide)

/-! ### 7b. the per-function format table and the content of the pool (audit follow-up) -/

/-- which `struct` format each private function of writer and reader may use (table `writerFormats` /
`readerFormats` of `Generated.Binary`, extracted from the source text on every run). Stated so that a
behaviour-preserving refactoring (renamed helpers, precompiled `Struct` objects) cannot make it false — an entry
under another function name is only required to use a v1 format — while, as long as the functions keep their
names, the use of `<h` against `<H` is pinned per function: pool count written `<h` and read `<H`, key index
`<H` on both sides, string length written `<H` (`<h` only for the `None` marker −1) and read `<h`. The observed
format SETS of `encode_formats_v1` cannot tell these apart. -/
def v1Formats : List String := ["<h", "<H", "<hBB", "<q", "<d", "<B", "<L", "?"]

def allowedFormats : String → List String
  | "_write_string_pool" => ["<h"]
  | "_read_string_pool" => ["<H"]
  | "_write_dict" => ["<H"]
  | "_read_dict" => ["<H"]
  | "_write_string" => ["<H", "<h"]
  | "_read_string" => ["<h"]
  | "_write_date" => ["<hBB"]
  | "_read_date" => ["<hBB"]
  | "_write_float" => ["<d"]
  | "_read_float" => ["<d"]
  | "_write_array" => ["<B", "<L"]
  | "_read_array" => ["<B", "<L"]
  | "_write_generic_value" => ["<d", "<q", "?"]
  | "_read_generic_value" => ["<d", "<q", "?"]
  | _ => v1Formats

theorem formats_per_function_v1 :
    (writerFormats.all fun e => e.2.1 == "pack" && (allowedFormats e.1).contains e.2.2) = true ∧
    (readerFormats.all fun e => e.2.1 == "unpack" && (allowedFormats e.1).contains e.2.2) = true := by
  decide

/-- the pool holds exactly the distinct keys of `values` / `details` / `loss_details` of the triangle, and
besides them only the empty placeholder -/
theorem pool_content (t : RawTriangle) :
    (∀ k, k ∈ sortedKeys t ↔ k ∈ allKeys t) ∧
    (∀ s ∈ poolOf t, s = [] ∨ s ∈ allKeys t) ∧
    (∀ k ∈ allKeys t, ∃ j, poolLookup (poolOf t) k = some j ∧ (poolOf t)[j]? = some k) := by
  refine ⟨fun k => mem_sortedKeys t k, ?_, ?_⟩
  · intro s hs
    rcases mem_padPool _ _ _ hs with h | h
    · exact Or.inl h
    · exact Or.inr ((mem_sortedKeys t s).mp h)
  · intro k hk
    obtain ⟨j, h1, _, h3⟩ := poolOf_lookup t k hk
    exact ⟨j, h1, h3⟩

/-! ### 8. the layout pinned by LITERAL byte vectors (audit follow-up)

The three vectors below were written by `to_binary` of the verified tree (not by the model): an incremental
two-slice triangle with every value kind (`Codec.exTriangle`), a plain `Cell` triangle and a `CumulativeCell`
triangle. The kernel checks that the model's encoder produces exactly these bytes and that the model's decoder
reads them back: the order of the fields inside a metadata / cell record, the position of
`prev_evaluation_date` after the values dict, `<h` count vs `<H` index vs `<H`/`<h` string length, the record
and type tags, the placement of `DICT_END` are all fixed by these equalities — a model edit made together with
a symmetric code edit no longer leaves every theorem true. -/

def exTriangleBytes : Bytes :=
  [175, 54, 1, 0, 1, 9, 0, 1, 0, 98, 1, 0, 100, 1, 0, 102, 1, 0, 107, 1, 0, 110, 1, 0, 112, 1, 0, 113, 1, 0,
    114, 1, 0, 120, 16, 1, 0, 65, 3, 0, 195, 156, 98, 255, 255, 0, 0, 255, 255, 0, 0, 0, 0, 0, 0, 240, 63, 3, 0,
    128, 2, 0, 195, 159, 1, 0, 133, 228, 7, 2, 29, 0, 0, 131, 1, 136, 4, 0, 132, 8, 0, 129, 251, 255, 255, 255,
    255, 255, 255, 255, 2, 0, 130, 0, 0, 0, 0, 0, 0, 4, 64, 136, 19, 228, 7, 1, 1, 228, 7, 12, 31, 228, 7, 12,
    31, 5, 0, 129, 255, 255, 255, 255, 255, 255, 255, 127, 6, 0, 134, 2, 2, 0, 0, 0, 1, 0, 0, 0, 1, 0, 0, 0, 0,
    0, 0, 0, 2, 0, 0, 0, 0, 0, 0, 0, 7, 0, 135, 0, 0, 0, 0, 0, 0, 0, 248, 127, 136, 228, 7, 11, 30, 16, 1, 0,
    65, 3, 0, 195, 156, 98, 255, 255, 0, 0, 255, 255, 0, 0, 0, 0, 0, 0, 248, 127, 136, 4, 0, 132, 8, 0, 129,
    251, 255, 255, 255, 255, 255, 255, 255, 2, 0, 130, 0, 0, 0, 0, 0, 0, 4, 64, 136, 19, 229, 7, 1, 1, 229, 7,
    12, 31, 229, 7, 12, 31, 5, 0, 132, 136, 229, 7, 11, 30]

def exMeta3 : RawMetadata :=
  { riskBasis := some [65, 99, 99, 105, 100, 101, 110, 116], country := none, currency := some [85, 83, 68],
    reinsuranceBasis := none, lossDefinition := none, limit := none,
    details := [([99, 111, 118], .str [66, 73])], lossDetails := [] }

/-- one plain `Cell` -/
def exCellTriangle : RawTriangle :=
  [ { kind := .cell, ps := ⟨2019, 1, 1⟩, pe := ⟨2019, 3, 31⟩, ev := ⟨2019, 6, 30⟩, prev := none, md := exMeta3,
      values := [([112, 97, 105, 100], .int 100), ([114, 101, 112], .flt [0, 0, 0, 0, 0, 0, 4, 64])] } ]

def exCellBytes : Bytes :=
  [175, 54, 1, 0, 1, 3, 0, 3, 0, 99, 111, 118, 4, 0, 112, 97, 105, 100, 3, 0, 114, 101, 112, 16, 8, 0, 65, 99,
    99, 105, 100, 101, 110, 116, 255, 255, 3, 0, 85, 83, 68, 255, 255, 255, 255, 0, 0, 0, 0, 0, 0, 248, 127, 0,
    0, 128, 2, 0, 66, 73, 136, 136, 17, 227, 7, 1, 1, 227, 7, 3, 31, 227, 7, 6, 30, 1, 0, 129, 100, 0, 0, 0, 0,
    0, 0, 0, 2, 0, 130, 0, 0, 0, 0, 0, 0, 4, 64, 136]

/-- two `CumulativeCell`s of one slice (one metadata record), a bool and a 1-d float64 array -/
def exCumTriangle : RawTriangle :=
  [ { kind := .cumulative, ps := ⟨2019, 1, 1⟩, pe := ⟨2019, 3, 31⟩, ev := ⟨2019, 6, 30⟩, prev := none, md := exMeta3,
      values := [([112, 97, 105, 100], .int 100), ([114, 101, 112], .flt [0, 0, 0, 0, 0, 0, 4, 64])] },
    { kind := .cumulative, ps := ⟨2019, 1, 1⟩, pe := ⟨2019, 3, 31⟩, ev := ⟨2019, 9, 30⟩, prev := none, md := exMeta3,
      values := [([112, 97, 105, 100], .bool false),
                 ([114, 101, 112], .fltArr [2] [0, 0, 0, 0, 0, 0, 248, 63, 0, 0, 0, 0, 0, 0, 0, 192])] } ]

def exCumBytes : Bytes :=
  [175, 54, 1, 0, 1, 3, 0, 3, 0, 99, 111, 118, 4, 0, 112, 97, 105, 100, 3, 0, 114, 101, 112, 16, 8, 0, 65, 99,
    99, 105, 100, 101, 110, 116, 255, 255, 3, 0, 85, 83, 68, 255, 255, 255, 255, 0, 0, 0, 0, 0, 0, 248, 127, 0,
    0, 128, 2, 0, 66, 73, 136, 136, 18, 227, 7, 1, 1, 227, 7, 3, 31, 227, 7, 6, 30, 1, 0, 129, 100, 0, 0, 0, 0,
    0, 0, 0, 2, 0, 130, 0, 0, 0, 0, 0, 0, 4, 64, 136, 18, 227, 7, 1, 1, 227, 7, 3, 31, 227, 7, 9, 30, 1, 0, 131,
    0, 2, 0, 135, 1, 2, 0, 0, 0, 0, 0, 0, 0, 0, 0, 248, 63, 0, 0, 0, 0, 0, 0, 0, 192, 136]

/-- the keys of `exTriangle` (all occurrences) in byte order -/
def exTriangleKeys : List Bytes :=
  [[98], [100], [102], [102], [107], [110], [110], [112], [112], [113], [114], [120], [120]]

theorem encode_exTriangle_bytes : encode exTriangle = exTriangleBytes :=
  encode_eq_literal _ exTriangleKeys _ (by decide +kernel) (by decide +kernel) (by decide +kernel)

theorem encodePy_exTriangle_bytes : encodePy exTriangle = exTriangleBytes :=
  encodePy_eq_literal _ exTriangleKeys _ (by decide +kernel) (by decide +kernel) (by decide +kernel)

theorem decode_exTriangle_bytes : decode exTriangleBytes = .ok exTriangle :=
  decode_of_decodesTo (by decide +kernel)

def exSmallKeys : List Bytes := [[99, 111, 118], [112, 97, 105, 100], [114, 101, 112]]
def exSmallKeys2 : List Bytes :=
  [[99, 111, 118], [99, 111, 118], [112, 97, 105, 100], [112, 97, 105, 100], [114, 101, 112], [114, 101, 112]]

theorem encode_exCell_bytes : encode exCellTriangle = exCellBytes ∧ encodePy exCellTriangle = exCellBytes :=
  ⟨encode_eq_literal _ exSmallKeys _ (by decide +kernel) (by decide +kernel) (by decide +kernel),
   encodePy_eq_literal _ exSmallKeys _ (by decide +kernel) (by decide +kernel) (by decide +kernel)⟩

theorem decode_exCell_bytes : decode exCellBytes = .ok exCellTriangle :=
  decode_of_decodesTo (by decide +kernel)

theorem encode_exCum_bytes : encode exCumTriangle = exCumBytes ∧ encodePy exCumTriangle = exCumBytes :=
  ⟨encode_eq_literal _ exSmallKeys2 _ (by decide +kernel) (by decide +kernel) (by decide +kernel),
   encodePy_eq_literal _ exSmallKeys2 _ (by decide +kernel) (by decide +kernel) (by decide +kernel)⟩

theorem decode_exCum_bytes : decode exCumBytes = .ok exCumTriangle :=
  decode_of_decodesTo (by decide +kernel)

/-! ### 9. history as theorems (model side): the small .trib files shipped with the package and its test data

`Lemmas/CodecGolden.lean` holds the sha256-pinned bytes of `bermuda/meyers.trib` (4794 bytes, 100 cells),
`test/test_data/holey_init_tri.trib` (4929), `missing_eval.trib` (2710) and `missing_cells.trib` (1112) and their
recorded contents as literals. The kernel checks that the decoder recovers exactly the recorded cells and that
re-encoding gives the same bytes — independent of the run-time corpus reader. (That `from_binary` of the tree under
test returns these cells is the `history` stream of the harness; `ragged_aq_triangle.trib`, 31 KB, stays there only:
its literal alone takes minutes to elaborate.) -/

open Bermuda.Codec.Golden in
theorem golden_missing_cells :
    decode missing_cellsBytes = .ok missing_cellsCells ∧ encode missing_cellsCells = missing_cellsBytes :=
  ⟨decode_of_decodesTo (by decide +kernel),
   encode_eq_literal _ missing_cellsKeys _ (by decide +kernel) (by decide +kernel) (by decide +kernel)⟩

set_option maxRecDepth 100000 in
open Bermuda.Codec.Golden in
theorem golden_missing_eval :
    decode missing_evalBytes = .ok missing_evalCells ∧ encode missing_evalCells = missing_evalBytes :=
  ⟨decode_of_decodesTo (by decide +kernel),
   encode_eq_literal _ missing_evalKeys _ (by decide +kernel) (by decide +kernel) (by decide +kernel)⟩

set_option maxRecDepth 100000 in
open Bermuda.Codec.Golden in
theorem golden_meyers :
    decode meyersBytes = .ok meyersCells ∧ encode meyersCells = meyersBytes :=
  ⟨decode_of_decodesTo (by decide +kernel),
   encode_eq_literal _ meyersKeys _ (by decide +kernel) (by decide +kernel) (by decide +kernel)⟩

set_option maxRecDepth 100000 in
open Bermuda.Codec.Golden in
theorem golden_holey_init_tri :
    decode holey_init_triBytes = .ok holey_init_triCells ∧ encode holey_init_triCells = holey_init_triBytes :=
  ⟨decode_of_decodesTo (by decide +kernel),
   encode_eq_literal _ holey_init_triKeys _ (by decide +kernel) (by decide +kernel) (by decide +kernel)⟩

/-! ### 10. an independent decoder written from the layout description (final round)

`Codec.decodeLayout` (Model/CodecLayout.lean) is written strictly from the layout comment of `binary_output.py`
and the documented constants, NOT from `binary_input.py`: exact string lengths (a short body is an error), end of
input or an unknown type byte inside a value is an error, a string value is never absent, an unknown record marker
is an error, a cell record before any metadata record is an error, no constructor rules. (`Codec.decode`, by
contrast, mirrors the reader statement by statement, quirks included.) -/

/-- **"an independent decoder written from that description recovers exactly the same triangle"** -/
theorem decodeLayout_encode (t : RawTriangle) (h : wf t = true) : decodeLayout (encode t) = .ok t :=
  decodeLayout_encode_main t h

/-- … also from the file of the writer as written (coherent triangles) -/
theorem decodeLayout_encodePy (t : RawTriangle) (h : wf t = true) (hc : coherent t = true) :
    decodeLayout (encodePy t) = .ok t := by
  rw [encodePy_eq_encode t hc]; exact decodeLayout_encode t h

/-- it reads the literal files written by `to_binary` of the verified tree … -/
theorem decodeLayout_literals :
    decodeLayout exTriangleBytes = .ok exTriangle ∧ decodeLayout exCellBytes = .ok exCellTriangle ∧
    decodeLayout exCumBytes = .ok exCumTriangle :=
  ⟨decodeLayout_of_decodesTo (by decide +kernel), decodeLayout_of_decodesTo (by decide +kernel),
   decodeLayout_of_decodesTo (by decide +kernel)⟩

set_option maxRecDepth 100000 in
open Bermuda.Codec.Golden in
/-- … and the shipped golden files, to their recorded contents -/
theorem decodeLayout_golden :
    decodeLayout meyersBytes = .ok meyersCells ∧ decodeLayout holey_init_triBytes = .ok holey_init_triCells ∧
    decodeLayout missing_evalBytes = .ok missing_evalCells ∧ decodeLayout missing_cellsBytes = .ok missing_cellsCells :=
  ⟨decodeLayout_of_decodesTo (by decide +kernel), decodeLayout_of_decodesTo (by decide +kernel),
   decodeLayout_of_decodesTo (by decide +kernel), decodeLayout_of_decodesTo (by decide +kernel)⟩

/-- strictness is real: a file cut inside the last string of the pool, a trailing unknown marker and a cell record
without a preceding metadata record are errors for `decodeLayout` (the reader's mirror `decode` accepts the second) -/
example :
    (decodeLayout (exCellBytes ++ [0x00])).toBool = false ∧ (decode (exCellBytes ++ [0x00])).toBool = true ∧
    (decodeLayout (exCellBytes.take 12)).toBool = false ∧
    (decodeLayout [0xAF, 0x36, 0x01, 0x00, 0x01, 0x00, 0x00, 0x11, 0xE3, 0x07, 1, 1, 0xE3, 0x07, 3, 31, 0xE3, 0x07, 6, 30,
      0x88]).toBool = false := by
  decide +kernel

end Bermuda.Properties.C06
