/-
C07 — JSON / dict export and import are exact inverses.
Model: `Model/JsonIO.lean` (`toDict` = `triangle_to_dict`; `decode` = `json.JSONDecoder` with
`TriangleDecoder.object_hook` applied bottom-up to every object; `fromDict`). `Spec/C07.lean` holds
`plainRead`, an independent hook-free reading of a document of the documented shape.
Only property theorems here; helpers in `Lemmas/JsonIO.lean`.

Structure of the full statement (DESIGN §7 C07 T), all proved:
  A  toDict_shape    : WFjson t → plainRead (toDict t) = some (asTyped t)      (Lemmas/JsonIOEncode)
  B  fromDict_plain  : plainRead j = some cells → fromDict j = ofJCells cells  (Lemmas/JsonIODecode)
  C  ofJCells_asTyped: WFjson t → ofJCells (asTyped t) = .ok (asTyped t)
  ⇒  fromDict_toDict : WFjson t → fromDict (toDict t) = .ok (asTyped t)
-/
import Bermuda.Lemmas.JsonIOEncode
import Bermuda.Spec.C07
namespace Bermuda.Properties.C07
open Bermuda Bermuda.JsonIO Bermuda.Spec.C07

def errIs {α} (r : Except Err α) (e : Err) : Bool :=
  match r with | .error e' => e' == e | .ok _ => false

/-! ### dates: ISO text is read back exactly -/

/-- `strptime(strftime(d))` is `d` for real dates with a four-digit year -/
theorem parseIso_dateIso (d : Date) (h : wfDate d = true) : parseIso (dateIso d) = .ok d :=
  JsonIO.parseIso_dateIso d h

/-- the restriction is real: glibc prints year 999 as "999", which `%Y` (four digits) refuses -/
theorem year_999_not_read_back :
    errIs (parseIso (dateIso ⟨999, 1, 1⟩)) .valueError = true := by decide +kernel

/-! ### classes: `Cell` comes back as `CumulativeCell`, nothing else changes -/

theorem typedKind_idem (k : CellKind) : typedKind (typedKind k) = typedKind k := by
  cases k <;> rfl

/-- incremental stays incremental, and the previous evaluation date is kept: the basis is preserved -/
theorem asTyped_basis (t : List JCell) :
    (asTyped t).map (fun c => (c.kind == .incremental, c.prev)) =
      t.map (fun c => (c.kind == .incremental, c.prev)) := by
  simp only [asTyped, List.map_map]
  apply List.map_congr_left
  intro c _
  cases h : c.kind <;> simp [typedKind, h] <;> decide

/-- a triangle stays a triangle when its `Cell`s become `CumulativeCell`s: the constructor accepts
the typed cells and leaves their order alone -/
theorem ofJCells_asTyped (t : List JCell) (h : WFjson t = true) :
    ofJCells (asTyped t) = .ok (asTyped t) := by
  simp only [WFjson, Bool.and_eq_true] at h
  obtain ⟨⟨⟨_, hk⟩, hs⟩, _⟩ := h
  unfold ofJCells
  rw [if_pos (kindsConsistent_typed t hk)]
  congr 1
  apply List.mergeSort_of_pairwise
  rw [asTyped_eq_map, List.pairwise_map]
  exact (pairwise_of_sortedJ t hs).imp (fun {a b} hab => by rw [le_typed]; exact hab)


/-- **toDict_shape.** The JSON text's AST, read by a plain reader that knows nothing of the
library's hook, is the original triangle: each slice's metadata attributes once (`None` / `{}`
omitted), the cells in order with ISO dates, `prev_evaluation_date` exactly on incremental cells,
every value with its kind (int vs float, `None`, arrays in order). -/
theorem toDict_shape (t : List JCell) (h : WFjson t = true) :
    plainRead (toDict t) = some (asTyped t) :=
  JsonIO.toDict_shape t h

/-- **fromDict_plain.** Any document of the documented shape, however it was produced (a plain
serializer), is loaded by the library's decoder — hook applied bottom-up to every object,
`values` / `details` / `loss_details` objects included — to `Triangle(cells)` of the cells a plain
reading finds. -/
theorem fromDict_plain (j : JVal) (cells : List JCell) (h : plainRead j = some cells) :
    fromDict j = ofJCells cells :=
  JsonIO.fromDict_plain j cells h

/-- **fromDict_toDict.** Export followed by import is the identity on well-formed triangles, up
to `Cell` → `CumulativeCell`: period, evaluation and previous-evaluation dates (so the basis), all
eight metadata attributes with the Python kind of limit and detail values, field names, int vs
float scalars, `None`, and arrays with dtype and order. -/
theorem fromDict_toDict (t : List JCell) (h : WFjson t = true) :
    fromDict (toDict t) = .ok (asTyped t) := by
  rw [fromDict_plain _ _ (toDict_shape t h), ofJCells_asTyped t h]

/-! ### non-vacuity and a concrete round trip (kernel evaluation of the model) -/

/-- one incremental cell with every kind of value (int, float, None, int64 and float64 arrays) and
metadata with an int limit, a string detail and a bool loss detail -/
def ex : List JCell :=
  [{ kind := .incremental, ps := ⟨2020, 1, 1⟩, pe := ⟨2020, 12, 31⟩, ev := ⟨2021, 6, 30⟩,
     prev := some ⟨2020, 12, 31⟩,
     values := [("paid_loss", .int 5), ("reported_loss", .flt (5/2)), ("open_claims", .none),
                ("samples", .arr true [3] [3, 1, 2]), ("fsamples", .arr false [2] [1, 1/2])],
     md := { country := some "US", limit := .int 250000, details := [("coverage", .str "BI")],
             lossDetails := [("flag", .bool true)] } }]

def okEq (r : Except Err (List JCell)) (x : List JCell) : Bool :=
  match r with | .ok a => a == x | _ => false

theorem ex_wf : WFjson ex = true := by decide +kernel

theorem ex_fromDict_toDict : okEq (fromDict (toDict ex)) (asTyped ex) = true := by decide +kernel

theorem ex_toDict_shape : (plainRead (toDict ex) == some (asTyped ex)) = true := by decide +kernel

/-- the restriction `risk_basis ≠ None` is real: it reads back as the default "Accident" -/
theorem ex_risk_basis_none :
    okEq (fromDict (toDict (ex.map fun c => { c with md := { c.md with riskBasis := none } })))
      (asTyped ex) = true := by decide +kernel

/-- the restriction on key names is real: a field called `cells` makes the hook misread `values` -/
theorem ex_field_named_cells :
    errIs (fromDict (toDict (ex.map fun c => { c with values := [("cells", .int 1)] }))) .typeError = true := by
  decide +kernel

end Bermuda.Properties.C07
